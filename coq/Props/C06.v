(* C06 — Name compression is transparent and stays within pointer limits. *)
From DNS Require Import Model.Enc Spec.Names Proofs.ListN Proofs.NameLayer Proofs.NameLoop
                        Proofs.NameMain Proofs.NameSlots Proofs.NameHist Proofs.C06.
Local Open Scope N_scope.

(* Vocabulary (Proofs/NameLayer.v, Proofs/NameHist.v):
   name_ok n        every label has 1..63 octets (each < 256) and name_wire_len n <= 255
   agree mask b b'  b' is at least as long as b and equal to b at every masked position
   InvM s mask      the masked invariant of the encoder state: in EVERY buffer agreeing with the
                    buffer on the octets written by the name writer, every index entry (k -> (o, d))
                    expands at o with exactly d hops to a name equal to k up to ASCII case, every
                    logged name expands within 16 hops to itself, and every pointer followed goes
                    backwards, below 16384, to a label start of a logged name (ptr_ok)
   lit_reach b p q  q is the start of a label (length octet 1..63) in the run of literal labels
                    that begins at offset p of b
   op / run         WriteName | WriteRaw | Reserve | Patch, executed with the model functions *)

(* one name written from any state with the invariant *)
Theorem C06_write_name : forall s mask n,
  InvM s mask -> name_ok n -> lenN (e_buf s) + name_wire_len n <= 65536 ->
  exists s' w,
    enc_domain_name n s = EOk tt s' /\
    e_buf s' = e_buf s ++ w /\ 1 <= lenN w /\ lenN w <= name_wire_len n /\
    e_names s' = (lenN (e_buf s), n) :: e_names s /\
    InvM s' (mask ++ repeat true (length w)) /\
    forall b', agree (mask ++ repeat true (length w)) (e_buf s') b' ->
      exists x, expand 16 b' (lenN (e_buf s)) = Some x /\
                name_eqb n (x_name x) = true /\
                (x_hops x <= 16)%nat /\
                Forall (ptr_ok (e_names s') b') (x_ptrs x).
Proof. exact C06_write_name_proof. Qed.
Print Assumptions C06_write_name.

(* no legal name makes the name writer fail, except by the 65535-octet message limit: the error
   carries the length k >= 65536 the message had reached at a label start of this name *)
Theorem C06_never_fails : forall s mask n,
  InvM s mask -> name_ok n ->
  (exists s', enc_domain_name n s = EOk tt s') \/
  (exists k, enc_domain_name n s = EErr (XLength, [k]) /\
             65536 <= k /\ lenN (e_buf s) <= k /\ k < lenN (e_buf s) + name_wire_len n).
Proof. exact C06_never_fails_proof. Qed.
Print Assumptions C06_never_fails.

(* every history of buffer operations, from the empty encoder *)
Theorem C06_transparent : forall ops,
  Forall op_legal ops ->
  match run ops e_init [] with
  | HOk s m =>
    forall p n, In (p, n) (e_names s) ->
      exists x, expand 16 (e_buf s) p = Some x /\
                name_eqb n (x_name x) = true /\
                (x_hops x <= 16)%nat /\
                Forall (fun pt => snd pt < fst pt /\ snd pt <= 16383 /\
                                  exists p' n', In (p', n') (e_names s) /\ lit_reach (e_buf s) p' (snd pt))
                       (x_ptrs x)
  | HNameFail r => (exists k, r = EErr (XLength, [k]) /\ 65536 <= k) /\ 65536 < ops_size ops
  | HBadPatch => True
  end.
Proof. exact C06_transparent_proof. Qed.
Print Assumptions C06_transparent.

(* a history whose uncompressed size fits a message never fails at a WriteName *)
Theorem C06_never_fails_history : forall ops,
  Forall op_legal ops -> ops_size ops <= 65535 ->
  forall r, run ops e_init [] <> HNameFail r.
Proof. exact history_never_fails. Qed.
Print Assumptions C06_never_fails_history.

(* the invariant along a history (the induction behind C06_transparent) *)
Theorem C06_history_invariant : forall ops s m,
  InvM s m -> Forall op_legal ops ->
  match run ops s m with
  | HOk s' m' => InvM s' m' /\ lenN (e_buf s') <= lenN (e_buf s) + ops_size ops
  | HNameFail r => fail_is_size r /\ 65536 < lenN (e_buf s) + ops_size ops
  | HBadPatch => True
  end.
Proof. exact run_inv. Qed.
Print Assumptions C06_history_invariant.

Theorem C06_init : InvM e_init [].
Proof. exact InvM_init. Qed.
Print Assumptions C06_init.

(* appends outside the name writer (put, hence eu8/eu16/eu32/eu64) *)
Theorem C06_append_preserves : forall s mask b,
  InvM s mask ->
  exists s', put b s = EOk tt s' /\ e_buf s' = e_buf s ++ b /\
             InvM s' (mask ++ repeat false (length b)).
Proof. exact put_preserves. Qed.
Print Assumptions C06_append_preserves.

(* overwriting octets that the name writer did not write *)
Theorem C06_patch_preserves :
  (forall s mask v i, InvM s mask -> i + 2 <= lenN (e_buf s) -> unmasked mask i 2 ->
     exists s', set_u16 v i s = EOk tt s' /\ e_buf s' = patch i (u16b v) (e_buf s) /\ InvM s' mask) /\
  (forall s mask v i, InvM s mask -> i + 1 <= lenN (e_buf s) -> unmasked mask i 1 ->
     exists s', set_u8 v i s = EOk tt s' /\ e_buf s' = patch i (u8b v) (e_buf s) /\ InvM s' mask) /\
  (forall s mask i b, InvM s mask -> i + lenN b <= lenN (e_buf s) -> unmasked mask i (lenN b) ->
     InvM {| e_buf := patch i b (e_buf s); e_idx := e_idx s; e_names := e_names s |} mask).
Proof. exact (conj set_u16_preserves (conj set_u8_preserves patch_preserves)). Qed.
Print Assumptions C06_patch_preserves.

(* the encoder's length slots are such reservations and patches *)
Theorem C06_length_slots :
  (forall s mask, InvM s mask ->
     exists s', create_length_index s = EOk (lenN (e_buf s)) s' /\
                e_buf s' = e_buf s ++ [0; 0] /\
                InvM s' (mask ++ [false; false]) /\
                unmasked (mask ++ [false; false]) (lenN (e_buf s)) 2) /\
  (forall mask m2 i k, unmasked mask i k -> unmasked (mask ++ m2) i k) /\
  (forall s mask li s', InvM s mask -> unmasked mask li 2 -> set_length_index li s = EOk tt s' ->
     InvM s' mask /\ exists v, e_buf s' = patch li (u16b v) (e_buf s)) /\
  (forall s mask neg ali s', InvM s mask -> unmasked mask ali 1 ->
     set_address_length_index neg ali s = EOk tt s' ->
     InvM s' mask /\ exists v, e_buf s' = patch ali (u8b v) (e_buf s)).
Proof.
  exact (conj create_length_index_preserves (conj unmasked_app
        (conj set_length_index_preserves set_address_length_index_preserves))).
Qed.
Print Assumptions C06_length_slots.

(* the step lemmas compose over real encoder code: the Question writer *)
Theorem C06_question : forall s mask q,
  InvM s mask -> name_ok (q_name q) -> lenN (e_buf s) + name_wire_len (q_name q) <= 65536 ->
  exists s' w, enc_question q s = EOk tt s' /\
               e_buf s' = e_buf s ++ w ++ u16b (q_type q) ++ u16b (q_class q) /\
               InvM s' ((mask ++ repeat true (length w)) ++ [false; false; false; false]).
Proof. exact enc_question_preserves. Qed.
Print Assumptions C06_question.

(* the comparison before the repair (recursion > MAX instead of >= MAX): 18 nested legal names
   a0, a1.a0, ..., a17.a16...a0 make the encoder fail; the model of the current source accepts them *)
Theorem C06_old_compress_refuted :
  emap enc_domain_name_old (nested_upto 17) e_init = EErr (XMaxRecursion, [17]) /\
  (exists s, emap enc_domain_name (nested_upto 17) e_init = EOk tt s) /\
  Forall name_ok (nested_upto 17).
Proof. exact old_compress_refuted. Qed.
Print Assumptions C06_old_compress_refuted.

(* ---- non-vacuity ---- *)
Definition L_example : label := [101;120;97;109;112;108;101].
Definition L_EXAMPLE : label := [69;88;65;77;80;76;69].
Definition L_org : label := [111;114;103].
Definition L_www : label := [119;119;119].
Definition L_mail : label := [109;97;105;108].

(* header, question example.org, an MX record owned by www.EXAMPLE.org whose RDATA holds
   mail.example.org, RDLENGTH reserved at 43 and patched afterwards *)
Definition ex_ops : list op :=
  [ WriteRaw (zeros 12);
    WriteName [L_example; L_org]; WriteRaw [0;1;0;1];
    WriteName [L_www; L_EXAMPLE; L_org]; WriteRaw [0;15;0;1;0;0;0;60];
    Reserve 2; WriteRaw [0;10]; WriteName [L_mail; L_example; L_org];
    Patch 43 [0;9] ].

Example C06_example_history :
  exists s m, run ex_ops e_init [] = HOk s m /\
    e_buf s = zeros 12 ++ [7] ++ L_example ++ [3] ++ L_org ++ [0] ++ [0;1;0;1]
              ++ [3] ++ L_www ++ [192; 12] ++ [0;15;0;1;0;0;0;60] ++ [0;9] ++ [0;10]
              ++ [4] ++ L_mail ++ [192; 12] /\
    e_names s = [(47, [L_mail; L_example; L_org]); (29, [L_www; L_EXAMPLE; L_org]); (12, [L_example; L_org])] /\
    expand 16 (e_buf s) 12 = Some {| x_name := [L_example; L_org]; x_hops := 0; x_ptrs := []; x_end := 25 |} /\
    expand 16 (e_buf s) 29 = Some {| x_name := [L_www; L_example; L_org]; x_hops := 1; x_ptrs := [(33, 12)]; x_end := 35 |} /\
    expand 16 (e_buf s) 47 = Some {| x_name := [L_mail; L_example; L_org]; x_hops := 1; x_ptrs := [(52, 12)]; x_end := 54 |}.
Proof. do 2 eexists. split; [vm_compute; reflexivity|]. vm_compute. repeat split. Qed.

Example C06_example_legal : Forall op_legal ex_ops /\ ops_size ex_ops <= 65535.
Proof.
  split; [|vm_compute; discriminate].
  repeat constructor; try (vm_compute; discriminate);
    repeat (apply Forall_cons || apply Forall_nil); apply N.ltb_lt; reflexivity.
Qed.

(* a patch on an octet of a written name is rejected by the operation language *)
Example C06_example_bad_patch : run [WriteName [L_example]; Patch 0 [3]] e_init [] = HBadPatch.
Proof. vm_compute. reflexivity. Qed.

(* an uncompressed name, and the pointer 0xC00C to offset 12 emitted after "www" *)
Example C06_example_pointer_bytes :
  enc_DomainName [L_www] = Ok ([3] ++ L_www ++ [0]) /\
  (exists s, (_ <-- put (zeros 12) ;; _ <-- enc_domain_name [L_example; L_org] ;;
              enc_domain_name [L_www; L_example; L_org]) e_init = EOk tt s /\
             dropN 25 (e_buf s) = [3] ++ L_www ++ [192; 12]).
Proof. split; [vm_compute; reflexivity|]. eexists. split; vm_compute; reflexivity. Qed.
