(* C07 — hostile compression cannot make name decoding loop or blow up. *)
From DNS Require Import Model.Dec Spec.Names Proofs.DecBase Proofs.DecName Proofs.DecNameSpec
  Proofs.DecNameSound Proofs.DecNameCyclic.
Local Open Scope N_scope.

(* Vocabulary (definitions in Proofs/):
   dst_wf s        : lenN (d_rest s) = d_len s - d_off s, d_len s < 2^62, d_off s < 2^62, octets < 256
   views main s a  : the window of s shows main from absolute offset a on
                     (d_rest s = takeN (d_len s - d_off s) (dropN a main))
   domain_name_g   : Model.Dec.domain_name with a ghost result: the pointer targets followed, in order
   label_ok l      : 1 <= lenN l <= 63 and utf8_valid l
   cyclic main o   : the reference pointer chain (Spec.Names.seg) from o returns to a visited target *)

(* termination with the model's fixed fuel, and no panic: for every input and every pointer graph *)
Theorem C07_name_terminates : forall main s,
  bytes_ok main -> lenN main < 2 ^ 62 -> dst_wf s ->
  (exists n s', domain_name main s = DOk n s') \/ (exists e c, domain_name main s = DErr e c).
Proof. exact name_total. Qed.
Print Assumptions C07_name_terminates.

(* an accepted name: state still well-formed, same window, only the name's own octets consumed,
   at most 255 octets on the wire, labels of 1..63 octets of valid UTF-8 *)
Theorem C07_name_bounds : forall main s n s',
  bytes_ok main -> lenN main < 2 ^ 62 -> dst_wf s ->
  domain_name main s = DOk n s' ->
  dst_wf s' /\ d_len s' = d_len s /\ d_off s + 1 <= d_off s' /\
  d_rest s' = dropN (d_off s' - d_off s) (d_rest s) /\
  wire_len n <= 255 /\ Forall label_ok n.
Proof. exact name_bounds. Qed.
Print Assumptions C07_name_bounds.

(* the model is its instrumented copy with the ghost erased; the targets followed are pairwise
   distinct and at most 17 *)
Theorem C07_name_hops : forall main s,
  bytes_ok main -> lenN main < 2 ^ 62 -> dst_wf s ->
  domain_name main s = dres_map fst (domain_name_g main s) /\
  forall n tg s', domain_name_g main s = DOk (n, tg) s' -> NoDup tg /\ (length tg <= 17)%nat.
Proof. exact name_hops. Qed.
Print Assumptions C07_name_hops.

(* octets examined per name, accepted or rejected: at most NAME_COST = 544 *)
Theorem C07_name_cost : forall main s,
  bytes_ok main -> lenN main < 2 ^ 62 -> dst_wf s ->
  match domain_name main s with
  | DOk _ s' => d_cost s <= d_cost s' /\ d_cost s' <= d_cost s + 544
  | DErr _ c => d_cost s <= c /\ c <= d_cost s + 544
  | _ => False
  end.
Proof. exact name_cost. Qed.
Print Assumptions C07_name_cost.

(* a cyclic name is always an error *)
Theorem C07_cyclic_rejected : forall main s a,
  bytes_ok main -> lenN main < 2 ^ 62 -> dst_wf s -> views main s a ->
  cyclic main a -> exists e c, domain_name main s = DErr e c.
Proof. exact cyclic_rejected. Qed.
Print Assumptions C07_cyclic_rejected.

(* more generally: whatever the reference cannot expand within 17 hops is an error *)
Theorem C07_unexpandable_rejected : forall main s a,
  bytes_ok main -> lenN main < 2 ^ 62 -> dst_wf s -> views main s a ->
  expand 17 main a = None -> exists e c, domain_name main s = DErr e c.
Proof. exact unexpandable_rejected. Qed.
Print Assumptions C07_unexpandable_rejected.

(* the loop itself: a pointer to a recorded target is EndlessRecursion, the 17th record MaxRecursion
   (no side conditions at all) *)
Theorem C07_revisit : forall f main nm recs len s b s1,
  len <> 0 -> is_compressed len = true -> u8 s = DOk b s1 -> In (ptr_offset len b) recs ->
  rec_loop (S f) main nm recs len s = DErr (EEndlessRecursion, [ptr_offset len b]) (d_cost s1).
Proof. exact rec_loop_revisit. Qed.
Print Assumptions C07_revisit.

Theorem C07_maxrec : forall f main nm recs len s b s1,
  len <> 0 -> is_compressed len = true -> u8 s = DOk b s1 -> ~ In (ptr_offset len b) recs ->
  16 <= lenN recs ->
  rec_loop (S f) main nm recs len s = DErr (EMaxRecursion, [lenN recs + 1]) (d_cost s1).
Proof. exact rec_loop_maxrec. Qed.
Print Assumptions C07_maxrec.

(* soundness against the reference semantics of compressed names *)
Theorem C07_name_sound : forall main s a n s',
  bytes_ok main -> lenN main < 2 ^ 62 -> dst_wf s -> views main s a ->
  domain_name main s = DOk n s' ->
  exists x, expand 17 main a = Some x /\ x_name x = n /\ x_end x = a + (d_off s' - d_off s) /\
            (x_hops x <= 17)%nat.
Proof. exact name_sound. Qed.
Print Assumptions C07_name_sound.

(* the ghost list is the reference's list of targets *)
Theorem C07_name_targets_sound : forall main s a n tg s',
  bytes_ok main -> lenN main < 2 ^ 62 -> dst_wf s -> views main s a ->
  domain_name_g main s = DOk (n, tg) s' ->
  exists x, expand 17 main a = Some x /\ tg = map snd (x_ptrs x) /\ length tg = x_hops x.
Proof. exact name_targets_sound. Qed.
Print Assumptions C07_name_targets_sound.

(* the hypotheses are satisfiable: the top-level decoder state, and every jump target *)
Theorem C07_states : forall main off c,
  bytes_ok main -> lenN main < 2 ^ 62 ->
  (dst_wf (mk_main main) /\ views main (mk_main main) 0) /\
  (off < 2 ^ 62 -> dst_wf (jump main off c) /\ views main (jump main off c) off).
Proof. exact states_ok. Qed.
Print Assumptions C07_states.

(* the primitive readers preserve well-formedness *)
Theorem C07_wf_preserved :
  (forall n s b s', dst_wf s -> read n s = DOk b s' -> dst_wf s') /\
  (forall s b s', dst_wf s -> u8 s = DOk b s' -> dst_wf s') /\
  (forall nm len s nm' l s', dst_wf s -> domain_name_label nm len s = DOk (nm', l) s' -> dst_wf s').
Proof. exact wf_preserved. Qed.
Print Assumptions C07_wf_preserved.

(* ---- examples (non-vacuity) ---- *)
(* [0] at offset 0, then k pointers: pointer 0 -> offset 0, pointer j -> pointer j-1 (at 2j-1) *)
Fixpoint ptr_chain (k : nat) (j : N) : bytes :=
  match k with
  | O => []
  | S k' => 192 :: (if j =? 0 then 0 else 2 * j - 1) :: ptr_chain k' (j + 1)
  end.
Definition chain_msg (k : nat) : bytes := 0 :: ptr_chain k 0.
(* decode the name that starts at the last pointer: it follows k pointers *)
Definition chain_run (k : nat) : dres (name * list N) :=
  domain_name_g (chain_msg k) (jump (chain_msg k) (2 * N.of_nat k - 1) 0).

Example C07_self_pointer :
  domain_name [192; 0] (mk_main [192; 0]) = DErr (EEndlessRecursion, [0]) 6 /\ cyclic [192; 0] 0.
Proof.
  split; [vm_compute; reflexivity|]. exists 0%nat, 1%nat, 0. split; [lia|]. split; vm_compute; reflexivity.
Qed.

Example C07_two_cycle :
  domain_name [192; 2; 192; 0] (mk_main [192; 2; 192; 0]) = DErr (EEndlessRecursion, [0]) 8 /\
  cyclic [192; 2; 192; 0] 0.
Proof.
  split; [vm_compute; reflexivity|]. exists 0%nat, 2%nat, 0. split; [lia|]. split; vm_compute; reflexivity.
Qed.

Example C07_chain_17_accepted :
  exists tg s', chain_run 17 = DOk ([], tg) s' /\ length tg = 17%nat /\ d_cost s' = 35.
Proof. do 2 eexists. split; [vm_compute; reflexivity|]. split; reflexivity. Qed.

Example C07_chain_18_rejected : chain_run 18 = DErr (EMaxRecursion, [17]) 36.
Proof. vm_compute. reflexivity. Qed.

(* a fan: 3 labels of 63 octets + 1 of 61 = 254 octets + terminator is accepted, through a pointer *)
Definition long_name : bytes :=
  63 :: repeat 97 63 ++ 63 :: repeat 97 63 ++ 63 :: repeat 97 63 ++ 61 :: repeat 97 61 ++ [0].
Example C07_long_name :
  exists n tg s', domain_name_g (long_name ++ [192; 0]) (jump (long_name ++ [192; 0]) 255 0) = DOk (n, tg) s'
    /\ wire_len n = 255 /\ tg = [0] /\ d_cost s' = 257 /\ d_off s' = 257.
Proof. do 3 eexists. split; [vm_compute; reflexivity|]. repeat split. Qed.

(* the octet hypothesis cannot be dropped: the model's octets are unbounded N, and a "length octet"
   of 2^64 overflows Decoder::read's addition (impossible for real u8 input) *)
Example C07_bytes_ok_needed :
  domain_name [18446744073709551616] (mk_main [18446744073709551616]) = DPanic SReadOverflow.
Proof. vm_compute. reflexivity. Qed.
