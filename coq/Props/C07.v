(* C07 — hostile compression cannot make name decoding loop or blow up. *)
From DNS Require Import Proofs.DecCost Proofs.DecCostMsg.
From DNS Require Import Model.Dec Spec.Names Proofs.DecBase Proofs.DecName Proofs.DecNameSpec
  Proofs.DecNameSound Proofs.DecNameCyclic.
Local Open Scope N_scope.

(* Vocabulary (definitions in Proofs/):
   dst_wf s        : lenN (d_rest s) = d_len s - d_off s, d_len s < 2^62, d_off s < 2^62, octets < 256
   views main s a  : the window of s shows main from absolute offset a on
                     (d_rest s = takeN (d_len s - d_off s) (dropN a main))
   domain_name_g   : Model.Dec.domain_name with a ghost result: the pointer targets followed, in order
   label_ok l      : 1 <= lenN l <= 63 and utf8_valid l
   cyclic main o   : the reference pointer chain (Spec.Names.seg) from o returns to a visited target *)

(* termination with the model's fixed fuel, and no panic: for every input and every pointer graph *)
Theorem C07_name_terminates : forall main s,
  bytes_ok main -> lenN main < 2 ^ 62 -> dst_wf s ->
  (exists n s', domain_name main s = DOk n s') \/ (exists e c, domain_name main s = DErr e c).
Proof. exact name_total. Qed.
Print Assumptions C07_name_terminates.

(* an accepted name: state still well-formed, same window, only the name's own octets consumed,
   at most 255 octets on the wire, labels of 1..63 octets of valid UTF-8 *)
Theorem C07_name_bounds : forall main s n s',
  bytes_ok main -> lenN main < 2 ^ 62 -> dst_wf s ->
  domain_name main s = DOk n s' ->
  dst_wf s' /\ d_len s' = d_len s /\ d_off s + 1 <= d_off s' /\
  d_rest s' = dropN (d_off s' - d_off s) (d_rest s) /\
  wire_len n <= 255 /\ Forall label_ok n.
Proof. exact name_bounds. Qed.
Print Assumptions C07_name_bounds.

(* the model is its instrumented copy with the ghost erased; the targets followed are pairwise
   distinct and at most 17 *)
Theorem C07_name_hops : forall main s,
  bytes_ok main -> lenN main < 2 ^ 62 -> dst_wf s ->
  domain_name main s = dres_map fst (domain_name_g main s) /\
  forall n tg s', domain_name_g main s = DOk (n, tg) s' -> NoDup tg /\ (length tg <= 17)%nat.
Proof. exact name_hops. Qed.
Print Assumptions C07_name_hops.

(* octets examined per name, accepted or rejected: at most NAME_COST = 544 *)
Theorem C07_name_cost : forall main s,
  bytes_ok main -> lenN main < 2 ^ 62 -> dst_wf s ->
  match domain_name main s with
  | DOk _ s' => d_cost s <= d_cost s' /\ d_cost s' <= d_cost s + 544
  | DErr _ c => d_cost s <= c /\ c <= d_cost s + 544
  | _ => False
  end.
Proof. exact name_cost. Qed.
Print Assumptions C07_name_cost.

(* a cyclic name is always an error *)
Theorem C07_cyclic_rejected : forall main s a,
  bytes_ok main -> lenN main < 2 ^ 62 -> dst_wf s -> views main s a ->
  cyclic main a -> exists e c, domain_name main s = DErr e c.
Proof. exact cyclic_rejected. Qed.
Print Assumptions C07_cyclic_rejected.

(* more generally: whatever the reference cannot expand within 17 hops is an error *)
Theorem C07_unexpandable_rejected : forall main s a,
  bytes_ok main -> lenN main < 2 ^ 62 -> dst_wf s -> views main s a ->
  expand 17 main a = None -> exists e c, domain_name main s = DErr e c.
Proof. exact unexpandable_rejected. Qed.
Print Assumptions C07_unexpandable_rejected.

(* the loop itself: a pointer to a recorded target is EndlessRecursion, the 17th record MaxRecursion
   (no side conditions at all) *)
Theorem C07_revisit : forall f main nm recs len s b s1,
  len <> 0 -> is_compressed len = true -> u8 s = DOk b s1 -> In (ptr_offset len b) recs ->
  rec_loop (S f) main nm recs len s = DErr (EEndlessRecursion, [ptr_offset len b]) (d_cost s1).
Proof. exact rec_loop_revisit. Qed.
Print Assumptions C07_revisit.

Theorem C07_maxrec : forall f main nm recs len s b s1,
  len <> 0 -> is_compressed len = true -> u8 s = DOk b s1 -> ~ In (ptr_offset len b) recs ->
  16 <= lenN recs ->
  rec_loop (S f) main nm recs len s = DErr (EMaxRecursion, [lenN recs + 1]) (d_cost s1).
Proof. exact rec_loop_maxrec. Qed.
Print Assumptions C07_maxrec.

(* soundness against the reference semantics of compressed names *)
Theorem C07_name_sound : forall main s a n s',
  bytes_ok main -> lenN main < 2 ^ 62 -> dst_wf s -> views main s a ->
  domain_name main s = DOk n s' ->
  exists x, expand 17 main a = Some x /\ x_name x = n /\ x_end x = a + (d_off s' - d_off s) /\
            (x_hops x <= 17)%nat.
Proof. exact name_sound. Qed.
Print Assumptions C07_name_sound.

(* the ghost list is the reference's list of targets *)
Theorem C07_name_targets_sound : forall main s a n tg s',
  bytes_ok main -> lenN main < 2 ^ 62 -> dst_wf s -> views main s a ->
  domain_name_g main s = DOk (n, tg) s' ->
  exists x, expand 17 main a = Some x /\ tg = map snd (x_ptrs x) /\ length tg = x_hops x.
Proof. exact name_targets_sound. Qed.
Print Assumptions C07_name_targets_sound.

(* the hypotheses are satisfiable: the top-level decoder state, and every jump target *)
Theorem C07_states : forall main off c,
  bytes_ok main -> lenN main < 2 ^ 62 ->
  (dst_wf (mk_main main) /\ views main (mk_main main) 0) /\
  (off < 2 ^ 62 -> dst_wf (jump main off c) /\ views main (jump main off c) off).
Proof. exact states_ok. Qed.
Print Assumptions C07_states.

(* the primitive readers preserve well-formedness *)
Theorem C07_wf_preserved :
  (forall n s b s', dst_wf s -> read n s = DOk b s' -> dst_wf s') /\
  (forall s b s', dst_wf s -> u8 s = DOk b s' -> dst_wf s') /\
  (forall nm len s nm' l s', dst_wf s -> domain_name_label nm len s = DOk (nm', l) s' -> dst_wf s').
Proof. exact wf_preserved. Qed.
Print Assumptions C07_wf_preserved.

(* ---- examples (non-vacuity) ---- *)
(* [0] at offset 0, then k pointers: pointer 0 -> offset 0, pointer j -> pointer j-1 (at 2j-1) *)
Fixpoint ptr_chain (k : nat) (j : N) : bytes :=
  match k with
  | O => []
  | S k' => 192 :: (if j =? 0 then 0 else 2 * j - 1) :: ptr_chain k' (j + 1)
  end.
Definition chain_msg (k : nat) : bytes := 0 :: ptr_chain k 0.
(* decode the name that starts at the last pointer: it follows k pointers *)
Definition chain_run (k : nat) : dres (name * list N) :=
  domain_name_g (chain_msg k) (jump (chain_msg k) (2 * N.of_nat k - 1) 0).

Example C07_self_pointer :
  domain_name [192; 0] (mk_main [192; 0]) = DErr (EEndlessRecursion, [0]) 6 /\ cyclic [192; 0] 0.
Proof.
  split; [vm_compute; reflexivity|]. exists 0%nat, 1%nat, 0. split; [lia|]. split; vm_compute; reflexivity.
Qed.

Example C07_two_cycle :
  domain_name [192; 2; 192; 0] (mk_main [192; 2; 192; 0]) = DErr (EEndlessRecursion, [0]) 8 /\
  cyclic [192; 2; 192; 0] 0.
Proof.
  split; [vm_compute; reflexivity|]. exists 0%nat, 2%nat, 0. split; [lia|]. split; vm_compute; reflexivity.
Qed.

Example C07_chain_17_accepted :
  exists tg s', chain_run 17 = DOk ([], tg) s' /\ length tg = 17%nat /\ d_cost s' = 35.
Proof. do 2 eexists. split; [vm_compute; reflexivity|]. split; reflexivity. Qed.

Example C07_chain_18_rejected : chain_run 18 = DErr (EMaxRecursion, [17]) 36.
Proof. vm_compute. reflexivity. Qed.

(* a fan: 3 labels of 63 octets + 1 of 61 = 254 octets + terminator is accepted, through a pointer *)
Definition long_name : bytes :=
  63 :: repeat 97 63 ++ 63 :: repeat 97 63 ++ 63 :: repeat 97 63 ++ 61 :: repeat 97 61 ++ [0].
Example C07_long_name :
  exists n tg s', domain_name_g (long_name ++ [192; 0]) (jump (long_name ++ [192; 0]) 255 0) = DOk (n, tg) s'
    /\ wire_len n = 255 /\ tg = [0] /\ d_cost s' = 257 /\ d_off s' = 257.
Proof. do 3 eexists. split; [vm_compute; reflexivity|]. repeat split. Qed.

(* the octet hypothesis cannot be dropped: the model's octets are unbounded N, and a "length octet"
   of 2^64 overflows Decoder::read's addition (impossible for real u8 input) *)
Example C07_bytes_ok_needed :
  domain_name [18446744073709551616] (mk_main [18446744073709551616]) = DPanic SReadOverflow.
Proof. vm_compute. reflexivity. Qed.

(* ---------------------------------------------------------------------------------------------
   whole-message work bound *)
(* C07 — the work of the decoder is linear in the input: "decoding any byte string terminates, and
   the number of octets it examines is bounded by a fixed multiple of the input length plus a
   constant, whatever pointer structure the input contains (self-references, cycles, long chains,
   fans of pointers to one long name)".  Termination without panic: Props/C01.v, Props/C07.v. *)

(* Vocabulary (definitions in Proofs/):
   d_cost          : the octet counter of the decoder state: Decoder::read(n) adds n, Decoder::bytes
                     adds the rest of the window; a sub-decoder's reads are counted again
   cost_of r       : the counter at the end of a run: match r with DOk _ s => d_cost s | DErr _ c => c | _ => 0 end
   dst_wf s        : lenN (d_rest s) = d_len s - d_off s, d_len s < 2^62, d_off s < 2^62, octets < 256
   costly w m      : on every well-formed state s with d_off s <= d_len s:
                       m s = DOk _ s'  -> dst_wf s', d_len s' = d_len s, d_off s <= d_off s' <= d_len s,
                                          d_cost s' <= d_cost s + w * (d_off s' - d_off s)
                       m s = DErr _ c  -> c <= d_cost s + w * (d_len s - d_off s) + 544 *)

(* the message decoder: K = 290 (289 octets examined at most per accepted name, which consumes at
   least one octet, + 1 for the RDATA window), C0 = 544 (one rejected name) *)
Theorem C07_work_linear : forall b,
  bytes_ok b -> lenN b < 2 ^ 62 -> cost_of (dec_Dns b) <= 290 * lenN b + 544.
Proof. exact work_linear_Dns. Qed.
Print Assumptions C07_work_linear.

Theorem C07_work_linear_RR : forall b,
  bytes_ok b -> lenN b < 2 ^ 62 -> cost_of (dec_RR b) <= 290 * lenN b + 544.
Proof. exact work_linear_RR. Qed.
Print Assumptions C07_work_linear_RR.

(* the other entry points examine a bounded number of octets *)
Theorem C07_work_const : forall b,
  bytes_ok b -> lenN b < 2 ^ 62 ->
  cost_of (dec_Question b) <= 544 /\ cost_of (dec_DomainName b) <= 544 /\ cost_of (dec_Flags b) <= 2 /\
  cost_of (dec_Type b) <= 2 /\ cost_of (dec_Class b) <= 2 /\ cost_of (dec_QType b) <= 2 /\ cost_of (dec_QClass b) <= 2.
Proof. exact work_const_entries. Qed.
Print Assumptions C07_work_const.

(* the same for the readers as methods of an existing Decoder: any well-formed state with the cursor
   inside its window over any outermost buffer [main]; stated with the predicate [costly] unfolded *)
Theorem C07_work_readers : forall main s,
  bytes_ok main -> lenN main < 2 ^ 62 -> dst_wf s -> d_off s <= d_len s ->
  cat 290 (dns_ main) s /\ cat 290 (rr_ main) s /\ cat 289 (question_ main) s /\ cat 289 (domain_name main) s /\
  (forall t owner hclass ttl, cat 289 (rr_body main t owner hclass ttl) s) /\
  cat 2 rr_edns_option s /\ cat 2 rr_apl_apitem s /\ (forall key, cat 1 (rr_service_parameter key) s).
Proof. exact work_readers. Qed.
Print Assumptions C07_work_readers.

Theorem C07_work_cat_def : forall (A : Type) (w : N) (m : DM A) (s : dst),
  cat w m s = match m s with
              | DOk _ s' => dst_wf s' /\ d_len s' = d_len s /\ d_off s <= d_off s' /\ d_off s' <= d_len s /\
                            d_cost s' <= d_cost s + w * (d_off s' - d_off s)
              | DErr _ c => c <= d_cost s + w * (d_len s - d_off s) + 544
              | DPanic _ => True
              | DFuel => True
              end.
Proof. exact cat_def. Qed.
Print Assumptions C07_work_cat_def.

(* composition: a sub-window adds one to the weight; sequencing and loops keep it *)
Theorem C07_work_with_sub : forall (A : Type) (w w' n : N) (m : DM A),
  w + 1 <= w' -> costly w m -> costly w' (with_sub n m).
Proof. exact @costly_with_sub. Qed.
Print Assumptions C07_work_with_sub.

(* ---- examples (non-vacuity) ---- *)
(* a fan: one question with a name of 255 octets, then 200 questions that are pointers to it *)
Fixpoint ptr_questions (k : nat) : bytes :=
  match k with O => [] | S k' => 192 :: 12 :: 0 :: 1 :: 0 :: 1 :: ptr_questions k' end.
Definition fan_msg : bytes :=
  [0; 0; 0; 0; 0; 201; 0; 0; 0; 0; 0; 0] ++ long_name ++ [0; 1; 0; 1] ++ ptr_questions 200.

Example C07_fan :
  lenN fan_msg = 1471 /\ cost_of (dec_Dns fan_msg) = 52471 /\ 52471 <= 290 * 1471 + 544 /\
  match dec_Dns fan_msg with DOk m _ => lenN (m_qd m) = 201 | _ => False end.
Proof.
  split; [vm_compute; reflexivity|]. split; [vm_compute; reflexivity|]. split; [vm_compute; discriminate|].
  vm_compute. reflexivity.
Qed.

(* 100 RP records whose owner and two RDATA names are pointers to the long name: 42 octets examined
   per octet of input *)
Fixpoint rp_records (k : nat) : bytes :=
  match k with O => [] | S k' => [192; 12; 0; 17; 0; 1; 0; 0; 0; 0; 0; 4; 192; 12; 192; 12] ++ rp_records k' end.
Definition rp_msg : bytes :=
  [0; 0; 0; 0; 0; 1; 0; 100; 0; 0; 0; 0] ++ long_name ++ [0; 1; 0; 1] ++ rp_records 100.
Example C07_fan_rdata :
  lenN rp_msg = 1871 /\ cost_of (dec_Dns rp_msg) = 78771 /\ 78771 <= 290 * 1871 + 544 /\
  match dec_Dns rp_msg with DOk m _ => lenN (m_an m) = 100 | _ => False end.
Proof.
  split; [vm_compute; reflexivity|]. split; [vm_compute; reflexivity|]. split; [vm_compute; discriminate|].
  vm_compute. reflexivity.
Qed.

(* a name that points to itself: six octets examined *)
Example C07_self_pointer_cost :
  dec_DomainName [192; 0] = DErr (EEndlessRecursion, [0]) 6 /\ cost_of (dec_DomainName [192; 0]) = 6.
Proof. split; vm_compute; reflexivity. Qed.
