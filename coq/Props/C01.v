(* C01 — decoding untrusted bytes never panics, aborts or overflows. *)
From DNS Require Import Gen.Audit Proofs.Audit Model.Dec Proofs.DecBase Proofs.DecSafe Proofs.DecTotal.

(* total r: the call returned a value or an error value — not DPanic (a checked operation of the
   model out of range: slice index, integer overflow, copy_from_slice length) and not DFuel (a
   modelled loop exceeding its fuel). *)
Theorem C01_decode_total : forall b, bytes_ok b -> lenN b < 2 ^ 62 ->
  total (dec_Dns b) /\ total (dec_Flags b) /\ total (dec_Question b) /\ total (dec_RR b) /\
  total (dec_DomainName b) /\ total (dec_Type b) /\ total (dec_Class b) /\
  total (dec_QType b) /\ total (dec_QClass b).
Proof. exact decode_total. Qed.
Print Assumptions C01_decode_total.

(* the readers as methods on any well-formed decoder state (any offset, sub-windows) *)
Theorem C01_readers_total : forall main s, bytes_ok main -> lenN main < 2 ^ 62 -> dst_wf s ->
  total (dns_ main s) /\ total (flags_ s) /\ total (question_ main s) /\ total (rr_ main s) /\
  total (domain_name main s) /\ total (rr_type s) /\ total (rr_class s) /\
  total (rd_q_type s) /\ total (rd_q_class s).
Proof. exact readers_total. Qed.
Print Assumptions C01_readers_total.

(* RR::get_ttl / get_class are total; None exactly for OPT (TYPE 41) *)
Theorem C01_accessors_total : forall r : rr,
  (rr_get_ttl r = None <-> r_type r = 41) /\ (rr_get_class r = None <-> r_type r = 41) /\
  (r_type r <> 41 -> rr_get_ttl r = Some (r_ttl r) /\ rr_get_class r = Some (r_class r)).
Proof. exact accessors_total. Qed.
Print Assumptions C01_accessors_total.

(* ---- non-vacuity: accepted and rejected inputs ---- *)
(* the panic-capable constructs of the library's non-test source (re-read from /repo/src on this run) are
   among the ones the model accounts for (per file and construct, at most the known count): a new
   unwrap / index / slice breaks this obligation, removing one does not *)
Theorem C01_sites : sites_within audit_panic_sites known_panic_sites = true.
Proof. exact panic_sites_known_proof. Qed.
Print Assumptions C01_sites.

Example C01_ex_header :
  dec_Dns [0;1;1;0;0;0;0;0;0;0;0;0] =
  DOk {| m_id := 1;
         m_flags := {| f_qr := false; f_opcode := 0; f_aa := false; f_tc := false; f_rd := true;
                       f_ra := false; f_ad := false; f_cd := false; f_rcode := 0 |};
         m_qd := []; m_an := []; m_ns := []; m_ar := [] |}
      {| d_rest := []; d_off := 12; d_len := 12; d_cost := 12 |}.
Proof. vm_compute. reflexivity. Qed.
Example C01_ex_header_truncated :
  dec_Dns [0;1;1;0;0;1;0;0;0;0;0;0] = DErr (ENotEnoughBytes, [12; 13]) 12.
Proof. vm_compute. reflexivity. Qed.
Example C01_ex_root : dec_DomainName [0] = DOk [] {| d_rest := []; d_off := 1; d_len := 1; d_cost := 1 |}.
Proof. vm_compute. reflexivity. Qed.
Example C01_ex_name_truncated : dec_DomainName [3;119;119] = DErr (ENotEnoughBytes, [3; 4]) 1.
Proof. vm_compute. reflexivity. Qed.
Example C01_ex_name_loop : dec_DomainName [192;0] = DErr (EEndlessRecursion, [0]) 6.
Proof. vm_compute. reflexivity. Qed.
Example C01_ex_flags_z : dec_Flags [1;64] = DErr (EZNotZeroes, [64]) 2.
Proof. vm_compute. reflexivity. Qed.
Example C01_ex_question :
  dec_Question [1;97;0;0;1;0;1] =
  DOk {| q_name := [[97]]; q_type := 1; q_class := 1 |} {| d_rest := []; d_off := 7; d_len := 7; d_cost := 7 |}.
Proof. vm_compute. reflexivity. Qed.
Example C01_ex_rr_a :
  dec_RR [1;97;0;0;1;0;1;0;0;0;60;0;4;192;0;2;1] =
  DOk {| r_type := 1; r_name := [[97]]; r_class := 1; r_ttl := 60; r_data := RFields [VN 3221225985] |}
      {| d_rest := []; d_off := 17; d_len := 17; d_cost := 21 |}.
Proof. vm_compute. reflexivity. Qed.
Example C01_ex_rr_a_truncated :
  dec_RR [1;97;0;0;1;0;1;0;0;0;60;0;4;192;0;2] = DErr (ENotEnoughBytes, [16; 17]) 13.
Proof. vm_compute. reflexivity. Qed.
(* OPT with a 3-octet COOKIE option: rejected by the length check, the vec[0..8] slice is not reached *)
Example C01_ex_opt_short_cookie :
  dec_RR [0;0;41;4;208;0;0;0;0;0;7;0;10;0;3;1;2;3] = DErr (ECookieLength, [3]) 28.
Proof. vm_compute. reflexivity. Qed.
(* OPT with a client-subnet option carrying 3 of 4 address octets: padded, accepted *)
Example C01_ex_opt_ecs :
  dec_RR [0;0;41;4;208;0;0;0;0;0;11;0;8;0;7;0;1;24;0;192;0;2] =
  DOk {| r_type := 41; r_name := []; r_class := 0; r_ttl := 0;
         r_data := ROpt 1232 0 0 false
                     [OEcs {| e_src := 24; e_scope := 0; e_addr := {| a_fam := 1; a_oct := [192; 0; 2; 0] |} |}] |}
      {| d_rest := []; d_off := 22; d_len := 22; d_cost := 40 |}.
Proof. vm_compute. reflexivity. Qed.
Example C01_ex_type : dec_Type [0;1] = DOk 1 {| d_rest := []; d_off := 2; d_len := 2; d_cost := 2 |}.
Proof. vm_compute. reflexivity. Qed.
Example C01_ex_type_unknown : dec_Type [0;0] = DErr (EType, [0]) 2.
Proof. vm_compute. reflexivity. Qed.
Example C01_ex_qclass_short : dec_QClass [0] = DErr (ENotEnoughBytes, [1; 2]) 0.
Proof. vm_compute. reflexivity. Qed.
