(* C14 — Encoding and decoding are deterministic pure functions. *)
From Coq Require Import Permutation.
From DNS Require Import Gen.Audit Proofs.Audit Model.Enc Model.Dec Proofs.ListN Proofs.NameLoop Proofs.C14.
Local Open Scope N_scope.

(* Vocabulary (Proofs/C14.v):
   idx_equiv i j     the two compression indexes answer every lookup alike
                     (forall n, idx_lookup n i = idx_lookup n j; idx_lookup is case-insensitive, newest first)
   st_equiv s t      same buffer, lookup-equivalent indexes, same ghost name log
   res_equiv r1 r2   both EOk with the same value and st_equiv states, or the same EErr, or the same
                     EPanic, or both EIllTyped (C14_res_equiv_cases)
   rel2 m1 m2        from st_equiv states m1 and m2 give res_equiv outcomes;  respects m := rel2 m m
   keys_distinct l   the keys of the local table are pairwise NOT name_eqb-equal
   tag D p           (fst p, (snd p, D)): the entry that merge_index inserts for p at depth D
   enc_name_loop_gen mrg         enc_name_loop with the merge step replaced by mrg
   enc_name_loop_ord perm,
   enc_domain_name_ord perm      the name writer that merges (perm local) instead of local
   enc_*_with wn                 the question / record / message writers over the name writer wn
   enc_*_ord perm                := enc_*_with (enc_domain_name_ord perm)
   The iteration order of a HashMap with a random seed is ANY function perm with
   forall l, Permutation l (perm l); it is a premise of every theorem that mentions it.

   Remark C14_functions (no theorem): enc_Dns and dec_Dns are closed Gallina functions; that equal
   arguments give equal results and that arguments are not modified holds by construction of the
   language and would be a vacuous statement (x = x).  Threads, call order and call count do not
   exist in the model.  What the model can and does carry is the independence of the hash seeds. *)

(* ---- 1/2. merging one local table in any order ---- *)
Theorem C14_merge_order_irrelevant :
  forall (local local' : list (name * N)) (D : N) (idx : list (name * (N * N))),
  keys_distinct local -> Permutation local local' ->
  idx_equiv (map (tag D) local ++ idx) (map (tag D) local' ++ idx).
Proof. exact merge_order_irrelevant. Qed.
Print Assumptions C14_merge_order_irrelevant.

Theorem C14_merge_states_equiv :
  forall (local local' : list (name * N)) (r : N) (s t : est),
  keys_distinct local -> Permutation local local' -> st_equiv s t ->
  res_equiv (merge_index local r s) (merge_index local' r t).
Proof. exact merge_states_equiv. Qed.
Print Assumptions C14_merge_states_equiv.

(* the premise keys_distinct cannot be dropped: with a duplicate key the order matters *)
Theorem C14_merge_order_needs_distinct :
  Permutation dup12 dup21 /\ ~ idx_equiv (map (tag 0) dup12) (map (tag 0) dup21).
Proof. exact merge_order_needs_distinct. Qed.
Print Assumptions C14_merge_order_needs_distinct.

Theorem C14_name_eqb_length : forall a b : name, name_eqb a b = true -> length a = length b.
Proof. exact name_eqb_length. Qed.
Print Assumptions C14_name_eqb_length.

Theorem C14_keys_distinct_perm : forall l l' : list (name * N),
  Permutation l l' -> keys_distinct l -> keys_distinct l'.
Proof. exact keys_distinct_perm. Qed.
Print Assumptions C14_keys_distinct_perm.

(* the local table of one name always has pairwise distinct keys, all suffixes of that name:
   a merge function that agrees with merge_index on such tables gives the very same name writer *)
Theorem C14_local_keys_distinct : forall (n : name) (mrg : list (name * N) -> N -> EM unit),
  (forall local r s, keys_distinct local -> (forall p, In p local -> is_suffix (fst p) n) ->
                     mrg local r s = merge_index local r s) ->
  forall s, enc_name_loop_gen mrg n [] s = enc_name_loop n [] s.
Proof. exact local_keys_distinct. Qed.
Print Assumptions C14_local_keys_distinct.

Theorem C14_loop_gen_is_loop : forall (labels : name) (local : list (name * N)) (s : est),
  enc_name_loop_gen merge_index labels local s = enc_name_loop labels local s.
Proof. exact enc_name_loop_gen_eq. Qed.
Print Assumptions C14_loop_gen_is_loop.

(* ---- 3. the name writer under an arbitrary iteration order ---- *)
Theorem C14_name_writer_independent_of_order : forall (perm : list (name * N) -> list (name * N)),
  (forall l, Permutation l (perm l)) ->
  forall (n : name) (s t : est), st_equiv s t ->
    res_equiv (enc_domain_name n s) (enc_domain_name_ord perm n t).
Proof. exact name_writer_independent_of_order. Qed.
Print Assumptions C14_name_writer_independent_of_order.

Theorem C14_name_writer_two_orders : forall (perm1 perm2 : list (name * N) -> list (name * N)),
  (forall l, Permutation l (perm1 l)) -> (forall l, Permutation l (perm2 l)) ->
  forall n : name, rel2 (enc_domain_name_ord perm1 n) (enc_domain_name_ord perm2 n).
Proof. exact name_writer_two_orders. Qed.
Print Assumptions C14_name_writer_two_orders.

Theorem C14_name_writer_ord_id : forall (n : name) (s : est),
  enc_domain_name_ord (fun l => l) n s = enc_domain_name n s.
Proof. exact enc_domain_name_ord_id. Qed.
Print Assumptions C14_name_writer_ord_id.

Theorem C14_res_equiv_cases : forall (A : Type) (r1 r2 : eres A), res_equiv r1 r2 <->
  (exists a s t, r1 = EOk a s /\ r2 = EOk a t /\ st_equiv s t) \/
  (exists e, r1 = EErr e /\ r2 = EErr e) \/
  (exists x, r1 = EPanic x /\ r2 = EPanic x) \/
  (r1 = EIllTyped /\ r2 = EIllTyped).
Proof. exact @res_equiv_cases. Qed.
Print Assumptions C14_res_equiv_cases.

(* ---- 4. congruence ---- *)
Theorem C14_primitives_respect :
  (forall b, respects (put b)) /\
  (forall n i, respects (set_u16 n i)) /\
  (forall n i, respects (set_u8 n i)) /\
  respects buf_len /\
  respects get_offset /\
  (forall b, respects (estring b)) /\
  respects create_length_index /\
  (forall li, respects (set_length_index li)) /\
  (forall suffix, respects (compress suffix)) /\
  (forall l, respects (elabel l)) /\
  (forall local r, respects (merge_index local r)) /\
  (forall n, respects (log_name n)).
Proof.
  exact (conj respects_put (conj respects_set_u16 (conj respects_set_u8 (conj respects_buf_len
        (conj respects_get_offset (conj respects_estring (conj respects_create_length_index
        (conj respects_set_length_index (conj respects_compress (conj respects_elabel
        (conj respects_merge_index respects_log_name))))))))))).
Qed.
Print Assumptions C14_primitives_respect.

Theorem C14_monad_closure :
  (forall A B (m1 m2 : EM A) (f1 f2 : A -> EM B),
     rel2 m1 m2 -> (forall a, rel2 (f1 a) (f2 a)) -> rel2 (ebind m1 f1) (ebind m2 f2)) /\
  (forall A (a : A), rel2 (eret a) (eret a)) /\
  (forall A (e : err), rel2 (@efail A e) (efail e)) /\
  (forall A (f1 f2 : A -> EM unit) (l : list A),
     (forall a, rel2 (f1 a) (f2 a)) -> rel2 (emap f1 l) (emap f2 l)).
Proof. exact (conj (@rel2_bind) (conj (@rel2_ret) (conj (@rel2_fail) (@rel2_emap)))). Qed.
Print Assumptions C14_monad_closure.

Theorem C14_writers_respect :
  (forall n, respects (enc_domain_name n)) /\
  (forall q, respects (enc_question q)) /\
  (forall r, respects (enc_rr r)) /\
  (forall m, respects (enc_dns m)).
Proof.
  exact (conj respects_enc_domain_name (conj respects_enc_question (conj respects_enc_rr respects_enc_dns))).
Qed.
Print Assumptions C14_writers_respect.

(* the parametrised encoder, instantiated with the model's name writer, is the model's encoder *)
Theorem C14_with_is_encoder :
  (forall q s, enc_question_with enc_domain_name q s = enc_question q s) /\
  (forall r s, enc_rr_with enc_domain_name r s = enc_rr r s) /\
  (forall m s, enc_dns_with enc_domain_name m s = enc_dns m s).
Proof. exact (conj enc_question_with_eq (conj enc_rr_with_eq enc_dns_with_eq)). Qed.
Print Assumptions C14_with_is_encoder.

Theorem C14_with_congruence : forall wn1 wn2 : name -> EM unit,
  (forall n, rel2 (wn1 n) (wn2 n)) ->
  (forall q, rel2 (enc_question_with wn1 q) (enc_question_with wn2 q)) /\
  (forall r, rel2 (enc_rr_with wn1 r) (enc_rr_with wn2 r)) /\
  (forall m, rel2 (enc_dns_with wn1 m) (enc_dns_with wn2 m)).
Proof.
  exact (fun wn1 wn2 H => conj (rel2_enc_question wn1 wn2 H) (conj (rel2_enc_rr wn1 wn2 H) (rel2_enc_dns wn1 wn2 H))).
Qed.
Print Assumptions C14_with_congruence.

Theorem C14_question_independent_of_seed : forall (perm : list (name * N) -> list (name * N)),
  (forall l, Permutation l (perm l)) ->
  forall (q : question) (s t : est), st_equiv s t -> res_equiv (enc_question q s) (enc_question_ord perm q t).
Proof. exact question_independent_of_seed. Qed.
Print Assumptions C14_question_independent_of_seed.

Theorem C14_rr_independent_of_seed : forall (perm : list (name * N) -> list (name * N)),
  (forall l, Permutation l (perm l)) ->
  forall (r : rr) (s t : est), st_equiv s t -> res_equiv (enc_rr r s) (enc_rr_ord perm r t).
Proof. exact rr_independent_of_seed. Qed.
Print Assumptions C14_rr_independent_of_seed.

Theorem C14_dns_independent_of_seed : forall (perm : list (name * N) -> list (name * N)),
  (forall l, Permutation l (perm l)) ->
  forall (m : dns) (s t : est), st_equiv s t -> res_equiv (enc_dns m s) (enc_dns_ord perm m t).
Proof. exact dns_independent_of_seed. Qed.
Print Assumptions C14_dns_independent_of_seed.

(* the public entry point: the same octets, or the same error, whatever the iteration order *)
Theorem C14_encode_independent_of_seed : forall (perm : list (name * N) -> list (name * N)),
  (forall l, Permutation l (perm l)) ->
  forall m : dns, enc_Dns m = erun (enc_dns_ord perm m).
Proof. exact encode_independent_of_seed. Qed.
Print Assumptions C14_encode_independent_of_seed.

Theorem C14_encode_two_seeds : forall (perm1 perm2 : list (name * N) -> list (name * N)),
  (forall l, Permutation l (perm1 l)) -> (forall l, Permutation l (perm2 l)) ->
  forall m : dns, erun (enc_dns_ord perm1 m) = erun (enc_dns_ord perm2 m).
Proof. exact encode_two_seeds. Qed.
Print Assumptions C14_encode_two_seeds.

(* ---- 5. the decoder's visited set (HashSet<usize>) ---- *)
Theorem C14_decoder_visited_set :
  forall (f : nat) (main : bytes) (nm : name) (recs recs' : list N) (l : N) (s : dst),
  Permutation recs recs' ->
  rec_loop f main nm recs l s = rec_loop f main nm recs' l s.
Proof. exact decoder_visited_set. Qed.
Print Assumptions C14_decoder_visited_set.

(* ---- non-vacuity ---- *)
Definition L_example : label := [101;120;97;109;112;108;101].
Definition L_org : label := [111;114;103].
Definition L_www : label := [119;119;119].
Definition L_mail : label := [109;97;105;108].

Definition rev_local (l : list (name * N)) : list (name * N) := rev l.

(* header, example.org, www.example.org, mail.www.example.org with a name writer wn *)
Definition ex_prog (wn : name -> EM unit) : EM unit :=
  _ <-- put (zeros 12) ;;
  _ <-- wn [L_example; L_org] ;;
  _ <-- wn [L_www; L_example; L_org] ;;
  wn [L_mail; L_www; L_example; L_org].

Definition ex_keys : list name :=
  [ [L_org]; [L_example; L_org]; [L_www; L_example; L_org]; [L_mail; L_www; L_example; L_org];
    [L_www]; [] ].

(* reversing the local table gives the same octets, a DIFFERENT index list, and the same lookups *)
(* no static, thread-local, lazily initialised, interior-mutable, atomic or reference-counted state, no
   environment / clock / random source and no unsafe block in the library's non-test code (generated
   audit, re-read from /repo/src on this run) *)
Theorem C14_no_shared_state : audit_shared_state = [].
Proof. exact no_shared_state_proof. Qed.
Print Assumptions C14_no_shared_state.

Example C14_example_reversed :
  exists s1 s2,
    ex_prog enc_domain_name e_init = EOk tt s1 /\
    ex_prog (enc_domain_name_ord rev_local) e_init = EOk tt s2 /\
    e_buf s1 = e_buf s2 /\
    e_buf s1 = zeros 12 ++ [7] ++ L_example ++ [3] ++ L_org ++ [0]
               ++ [3] ++ L_www ++ [192; 12] ++ [4] ++ L_mail ++ [192; 25] /\
    e_names s1 = e_names s2 /\
    e_idx s1 = [ ([L_mail; L_www; L_example; L_org], (31, 2)); ([L_www; L_example; L_org], (25, 1));
                 ([L_org], (20, 0)); ([L_example; L_org], (12, 0)) ] /\
    e_idx s2 = [ ([L_mail; L_www; L_example; L_org], (31, 2)); ([L_www; L_example; L_org], (25, 1));
                 ([L_example; L_org], (12, 0)); ([L_org], (20, 0)) ] /\
    map (fun k => idx_lookup k (e_idx s1)) ex_keys = map (fun k => idx_lookup k (e_idx s2)) ex_keys.
Proof. do 2 eexists. split; [vm_compute; reflexivity|]. split; [vm_compute; reflexivity|]. vm_compute. repeat split. Qed.

(* rev is a permutation, so the general theorem applies to it *)
Example C14_example_rev_is_order : forall l : list (name * N), Permutation l (rev_local l).
Proof. exact (@Permutation_rev (name * N)). Qed.

(* a whole message: question example.org, answer NS www.example.org -> mail.example.org *)
Definition ex_msg : dns :=
  {| m_id := 4660;
     m_flags := {| f_qr := true; f_opcode := 0; f_aa := false; f_tc := false; f_rd := true;
                   f_ra := true; f_ad := false; f_cd := false; f_rcode := 0 |};
     m_qd := [ {| q_name := [L_example; L_org]; q_type := 2; q_class := 1 |} ];
     m_an := [ {| r_type := 2; r_name := [L_www; L_example; L_org]; r_class := 1; r_ttl := 60;
                  r_data := RFields [VName [L_mail; L_example; L_org]] |} ];
     m_ns := []; m_ar := [] |}.

Example C14_example_message :
  exists b, enc_Dns ex_msg = Ok b /\ erun (enc_dns_ord rev_local ex_msg) = Ok b /\ lenN b = 52.
Proof. eexists. split; [vm_compute; reflexivity|]. split; vm_compute; reflexivity. Qed.

(* the visited set in two orders: same success, same refusal *)
Definition ex_wire : bytes := [3;119;119;119;0;192;0].
Example C14_example_visited :
  rec_loop 8 ex_wire [] [5; 9] 192 (jump ex_wire 6 0) = rec_loop 8 ex_wire [] [9; 5] 192 (jump ex_wire 6 0) /\
  rec_loop 8 ex_wire [] [5; 9] 192 (jump ex_wire 6 0) =
    DOk [[119; 119; 119]] {| d_rest := [192; 0]; d_off := 5; d_len := 7; d_cost := 6 |} /\
  rec_loop 8 ex_wire [] [0; 9] 192 (jump ex_wire 6 0) = DErr (EEndlessRecursion, [0]) 1 /\
  rec_loop 8 ex_wire [] [9; 0] 192 (jump ex_wire 6 0) = DErr (EEndlessRecursion, [0]) 1.
Proof. vm_compute. repeat split. Qed.
