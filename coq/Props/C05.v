(* C05 — Encoded output carries the same value: decoding what the encoder wrote returns the value
   (model-level round trip), for every well-formed value, up to what name compression may change
   (ASCII case of labels reached through a pointer; order of the SVCB `mandatory` key list). *)
From DNS Require Import Model.Dec Model.Enc Spec.Names Spec.Wire Spec.Render
  Proofs.NameLayer Proofs.SvcbRound
  Proofs.RtPrim Proofs.RtRecord Proofs.RtMsg Proofs.C05
  Proofs.EncRenderBase Proofs.EncRenderFields Proofs.EncRenderMsg Proofs.EncRenderSpecial Proofs.EncRenderTop.
From DNS Require Import Model.Dec Model.Enc Spec.Names Spec.USize
  Proofs.NameLayer Proofs.DecBase
  Proofs.RtPrim Proofs.RtFields Proofs.RtRecord Proofs.RtSpecial Proofs.RtApl Proofs.RtMsg
  Proofs.C05 Proofs.EncSize Proofs.EncSucceeds.
From DNS Require Import Spec.Wire Proofs.C05ref Model.Dec Model.Enc Spec.Names
  Proofs.ListN Proofs.NameLayer Proofs.EncTyped
  Proofs.DecBase Proofs.DecNameSound Proofs.SvcbDec Proofs.SvcbRound
  Proofs.RtBase Proofs.RtPrim Proofs.RtFields Proofs.RtRecord Proofs.RtSpecial Proofs.RtApl Proofs.RtMsg
  Proofs.C05.
Local Open Scope N_scope.

(* Vocabulary.
   Well-formed values (BOOLEAN predicates mirroring what the decoder enforces):
     name_wf n        every label 1..=63 octets (< 256 each), valid UTF-8; wire length <= 255
     fv_wf k v        a field value fits its kind: numbers within their width; FStr: valid UTF-8, <= 255
                      octets; FEnum*: in the table; FStrPsdn/FStrIsdn: digits; FOptStrSa: hex digits;
                      FStrGpos: 1..=255 octets; FTag: non-empty lower-case letters/digits; FStrs1: non-empty
                      list of strings; FDnskeyFlags: reserved bits zero; FIp6: 16 octets; FRest: octets;
                      FRestUtf8: valid UTF-8
     plain_wf r       owner name_wf, TYPE in Type_table, TTL < 2^32, one fv_wf value per value-carrying
                      field of the DECODE table in order (vals_wf), CLASS in Class_table (class 1 for the
                      IN-only types A, WKS, AAAA)
     opt_rr_wf r      TYPE 41, canonical unused fields (owner root, class 0, ttl 0), payload < 2^16,
                      ext/version < 256, every option valid (opt_wfb: C15's opt_valid, as a boolean)
     apl_rr_wf r      TYPE 42, class 1, every item: 4/16 address octets, prefix accepted by check_prefix
     svcb_rr_wf r     TYPE 64/65, class 1, priority < 2^16, target name_wf, parameters valid (C16's
                      param_valid as a boolean, PRIVATE keys 7..65534: KF6) and strictly sorted by key;
                      priority 0 (alias form) only with an empty parameter set: the encoder writes none
     rr_wf r          the predicate of r's dispatch entry;   question_wf, flags_wf (opcode/rcode in their
                      tables, rcode < 16), dns_wf (id < 2^16, every section <= 65535 entries, all parts wf)
   Equivalence up to compression:
     name_eqv a b     name_eqb a b = true (equal up to ASCII case)
     fv_eqv, fvs_eqv  names up to case, everything else equal
     rr_eqv, dns_eqv  component-wise; SVCB parameter lists compared after `norm` (mandatory keys sorted)
   Framework (Proofs/RtBase.v):
     lreads main a m w r v   on every window state showing [main] from absolute offset a whose remaining
                             octets are w ++ r, reader m consumes exactly w and returns v
     encP enc                from a state with the name invariant InvM, a successful run only appends,
                             keeps InvM (for an extension of the mask) and only extends the ghost log
     names_ok main log       every logged (offset, name) expands at that offset of main, within 16
                             pointers, to the name up to case
     decP E enc dec R        if enc ran from an InvM state and appended w, then in every final message
                             main (octets, < 2^62) with names_ok main (log after enc), dec main reads
                             exactly w at the offset where enc started and returns some v with R v
                             (E = true: only claimed when w ends the window) *)

(* ================= 1. the message ================= *)
Theorem C05_roundtrip : forall (m : dns) (b : bytes),
  dns_wf m = true -> enc_Dns m = Ok b ->
  exists m' s, dec_Dns b = DOk m' s /\ dns_eqv m' m.
Proof. exact C05_roundtrip_proof. Qed.
Print Assumptions C05_roundtrip.

(* the same restricted to records of the generated field tables (no OPT / APL / SVCB / HTTPS) *)
(* the independent reference decoder Spec/Wire.v (written from the RFCs, related to the library's decoder
   only by the theorems of C03/C04) reads the encoder's output back as the value *)
Theorem C05_reference_reads_back : forall (m : dns) (b : bytes),
  dns_wf m = true -> enc_Dns m = Ok b -> exists m', spec_Dns b = Some m' /\ dns_eqv m' m.
Proof. exact reference_reads_back. Qed.
Print Assumptions C05_reference_reads_back.

Theorem C05_roundtrip_plain : forall (m : dns) (b : bytes),
  dns_wf_plain m = true -> enc_Dns m = Ok b ->
  exists m' s, dec_Dns b = DOk m' s /\ dns_eqv m' m.
Proof. exact C05_roundtrip_plain_proof. Qed.
Print Assumptions C05_roundtrip_plain.

(* ================= 2. one record, anywhere in a message ================= *)
(* written from ANY encoder state with the name invariant, read back inside ANY message that extends
   the encoder's buffer, by ANY window state positioned at the record and large enough *)
Theorem C05_element_rr : forall (r : rr) (st : est) (mask : list bool) (st' : est),
  rr_wf r = true -> InvM st mask -> enc_rr r st = EOk tt st' ->
  exists w mask',
    e_buf st' = e_buf st ++ w /\ InvM st' mask' /\
    forall main rest s,
      main = e_buf st' ++ rest -> bytes_ok main -> lenN main < 2 ^ 62 ->
      dst_wf s -> d_off s <= d_len s -> views main s (lenN (e_buf st)) ->
      lenN w <= d_len s - d_off s ->
      exists r' s', rr_ main s = DOk r' s' /\ rr_eqv r' r /\
                    d_off s' = d_off s + lenN w /\ d_len s' = d_len s /\
                    dst_wf s' /\ views main s' (lenN (e_buf st')).
Proof. exact C05_element_rr_proof. Qed.
Print Assumptions C05_element_rr.

Theorem C05_element_name : forall (n : name) (st : est) (mask : list bool) (st' : est),
  name_wf n = true -> InvM st mask -> enc_domain_name n st = EOk tt st' ->
  exists w mask',
    e_buf st' = e_buf st ++ w /\ InvM st' mask' /\
    forall main rest s,
      main = e_buf st' ++ rest -> bytes_ok main -> lenN main < 2 ^ 62 ->
      dst_wf s -> d_off s <= d_len s -> views main s (lenN (e_buf st)) ->
      lenN w <= d_len s - d_off s ->
      exists n' s', domain_name main s = DOk n' s' /\ name_eqv n' n /\
                    d_off s' = d_off s + lenN w /\ d_len s' = d_len s /\
                    dst_wf s' /\ views main s' (lenN (e_buf st')).
Proof. exact C05_element_name_proof. Qed.
Print Assumptions C05_element_name.

(* ================= 3. the layers, in the framework's vocabulary ================= *)
(* primitives *)
Theorem C05_primitives :
  (forall v, v < 256 -> decP false (eu8 v) (fun _ => u8) (eq v)) /\
  (forall v, v < 65536 -> decP false (eu16 v) (fun _ => u16) (eq v)) /\
  (forall v, v < 4294967296 -> decP false (eu32 v) (fun _ => u32) (eq v)) /\
  (forall v, v < 18446744073709551616 -> decP false (eu64 v) (fun _ => u64) (eq v)) /\
  (forall b : bytes, utf8_valid b = true -> decP false (estring b) (fun _ => string_) (eq b)) /\
  (forall b : bytes, decP true (put b) (fun _ => vec) (eq b)) /\
  (forall b : bytes, lenN b = 16 -> bytes_ok b -> decP false (put b) (fun _ => ipv6_addr) (eq b)).
Proof. exact (conj rt_u8 (conj rt_u16 (conj rt_u32 (conj rt_u64 (conj rt_string (conj rt_rest rt_ipv6)))))). Qed.
Print Assumptions C05_primitives.

(* names: the decoded name equals the written one up to ASCII case *)
Theorem C05_name : forall n : name, name_wf n = true ->
  encP (enc_domain_name n) /\ decP false (enc_domain_name n) domain_name (fun v => name_eqv v n).
Proof. exact (fun n H => conj (encP_name_wf n H) (rt_name n H)). Qed.
Print Assumptions C05_name.

(* every field kind of the generated tables *)
Theorem C05_field : forall (k : fk) (v : fv), fv_wf k v = true ->
  encP (write_field k (Some v)) /\
  decP (fk_tail k) (write_field k (Some v)) (fun main => read_field main k)
       (fun vs => exists v', vs = [v'] /\ fv_eqv v' v).
Proof. exact (fun k v H => conj (encP_field k v H) (rt_field k v H)). Qed.
Print Assumptions C05_field.

(* field lists: the writer picks each value BY NAME, the reader returns them in table order *)
Theorem C05_fields : forall (names : list string) (vals : list fv) (f : list (string * fk)),
  fields_wf names vals f = true ->
  encP (write_fields names vals f) /\
  decP true (write_fields names vals f) (fun main => read_fields main f)
       (fun vs => fvs_eqv vs (pickv names vals f)).
Proof. exact rt_fields. Qed.
Print Assumptions C05_fields.

(* the generated tables agree: same field list on both sides, matching class rule, distinct names *)
Theorem C05_tables_agree : Forall (fun p : N * writer => entry_agrees (fst p)) enc_dispatch.
Proof. exact table_agrees. Qed.
Print Assumptions C05_tables_agree.

(* records, questions *)
Theorem C05_record : forall (E : bool) (r : rr), rr_wf r = true ->
  encP (enc_rr r) /\ decP E (enc_rr r) rr_ (fun r' => rr_eqv r' r).
Proof. exact rt_rr. Qed.
Print Assumptions C05_record.

Theorem C05_question : forall (E : bool) (q : question), question_wf q = true ->
  encP (enc_question q) /\ decP E (enc_question q) question_ (fun q' => question_eqv q' q).
Proof. exact rt_question. Qed.
Print Assumptions C05_question.

(* header flags: all combinations *)
Theorem C05_flags : forall (f : flags) (r : bytes), flags_wf f = true ->
  reads flags_ (u8b (flags_octet f 0) ++ u8b (flags_octet f 1)) r f.
Proof. exact reads_flags_wf. Qed.
Print Assumptions C05_flags.

(* ASCII case folding preserves UTF-8 validity (why a compressed name is always readable) *)
Theorem C05_utf8_fold : forall l : label, utf8_valid (label_fold l) = utf8_valid l.
Proof. exact utf8_fold. Qed.
Print Assumptions C05_utf8_fold.

(* ================= 4. non-vacuity ================= *)
Definition L_example : label := [101;120;97;109;112;108;101].
Definition L_EXAMPLE : label := [69;88;65;77;80;76;69].
Definition L_org : label := [111;114;103].
Definition L_www : label := [119;119;119].
Definition L_mail : label := [109;97;105;108].
Definition L_svc : label := [115;118;99].
Definition ex_flags : flags :=
  {| f_qr := true; f_opcode := 0; f_aa := true; f_tc := false; f_rd := true;
     f_ra := true; f_ad := false; f_cd := false; f_rcode := 0 |}.

(* a question, an MX record whose exchange name is compressed, a TXT record *)
Definition ex_msg : dns :=
  {| m_id := 4660; m_flags := ex_flags;
     m_qd := [{| q_name := [L_example; L_org]; q_type := 15; q_class := 1 |}];
     m_an := [{| r_type := 15; r_name := [L_www; L_EXAMPLE; L_org]; r_class := 1; r_ttl := 60;
                 r_data := RFields [VN 10; VName [L_mail; L_example; L_org]] |};
              {| r_type := 16; r_name := [L_example; L_org]; r_class := 1; r_ttl := 60;
                 r_data := RFields [VStrs [[104;105]; []]] |}];
     m_ns := []; m_ar := [] |}.
Definition ex_bytes : bytes :=
  [18; 52; 133; 128; 0; 1; 0; 2; 0; 0; 0; 0;
   7; 101; 120; 97; 109; 112; 108; 101; 3; 111; 114; 103; 0; 0; 15; 0; 1;
   3; 119; 119; 119; 192; 12; 0; 15; 0; 1; 0; 0; 0; 60; 0; 9; 0; 10; 4; 109; 97; 105; 108; 192; 12;
   192; 12; 0; 16; 0; 1; 0; 0; 0; 60; 0; 4; 2; 104; 105; 0].
(* what comes back: the owner www.EXAMPLE.org was written as "www" + pointer to example.org *)
Definition ex_decoded : dns :=
  {| m_id := 4660; m_flags := ex_flags;
     m_qd := [{| q_name := [L_example; L_org]; q_type := 15; q_class := 1 |}];
     m_an := [{| r_type := 15; r_name := [L_www; L_example; L_org]; r_class := 1; r_ttl := 60;
                 r_data := RFields [VN 10; VName [L_mail; L_example; L_org]] |};
              {| r_type := 16; r_name := [L_example; L_org]; r_class := 1; r_ttl := 60;
                 r_data := RFields [VStrs [[104;105]; []]] |}];
     m_ns := []; m_ar := [] |}.

Example C05_example_wf : dns_wf ex_msg = true /\ dns_wf_plain ex_msg = true.
Proof. split; vm_compute; reflexivity. Qed.

Example C05_example_roundtrip :
  enc_Dns ex_msg = Ok ex_bytes /\
  (exists s, dec_Dns ex_bytes = DOk ex_decoded s) /\
  dns_eqv ex_decoded ex_msg /\ ex_decoded <> ex_msg.
Proof.
  split; [vm_compute; reflexivity|]. split; [eexists; vm_compute; reflexivity|].
  split.
  2:{ intros H.
      apply (f_equal (fun m => match m_an m with
                               | r :: _ => match r_name r with _ :: l :: _ => l | _ => [] end
                               | _ => []
                               end)) in H.
      vm_compute in H. discriminate H. }
  unfold dns_eqv, ex_decoded, ex_msg. cbn [m_id m_flags m_qd m_an m_ns m_ar].
  repeat (split || constructor).
Qed.

(* an HTTPS record with parameters, an SVCB alias, an APL record and an OPT record with three options *)
Definition ex_special : dns :=
  {| m_id := 7; m_flags := ex_flags;
     m_qd := [{| q_name := [L_example; L_org]; q_type := 65; q_class := 1 |}];
     m_an := [{| r_type := 65; r_name := [L_example; L_org]; r_class := 1; r_ttl := 300;
                 r_data := RSvcb 1 [L_svc; L_example; L_org]
                             [PMandatory [1; 3]; PAlpn [[104;50]; [104;51]]; PPort 443; PIpv4Hint [3221225985]] |};
              {| r_type := 64; r_name := [L_svc; L_example; L_org]; r_class := 1; r_ttl := 300;
                 r_data := RSvcb 0 [L_example; L_org] [] |}];
     m_ns := [{| r_type := 42; r_name := [L_example; L_org]; r_class := 1; r_ttl := 60;
                 r_data := RApl [{| i_prefix := 24; i_neg := false;
                                    i_addr := {| a_fam := 1; a_oct := [192;0;2;0] |} |};
                                 {| i_prefix := 32; i_neg := true;
                                    i_addr := {| a_fam := 2; a_oct := [32;1;13;184;0;0;0;0;0;0;0;0;0;0;0;0] |} |}] |}];
     m_ar := [{| r_type := 41; r_name := []; r_class := 0; r_ttl := 0;
                 r_data := ROpt 1232 0 0 true
                   [OCookie {| c_client := [1;2;3;4;5;6;7;8]; c_server := None |};
                    OEcs {| e_src := 24; e_scope := 0; e_addr := {| a_fam := 1; a_oct := [192;0;2;0] |} |};
                    OPadding 3] |}] |}.

Example C05_example_special :
  dns_wf ex_special = true /\
  exists b s, enc_Dns ex_special = Ok b /\ dec_Dns b = DOk ex_special s.
Proof. split; [vm_compute; reflexivity|]. do 2 eexists. split; [vm_compute; reflexivity|]. vm_compute. reflexivity. Qed.

(* values outside the predicates that do NOT round trip (why the predicates are what they are) *)
(* alias-form SVCB with parameters: the encoder drops them (see C16_emit_alias_no_params) *)
Example C05_alias_params_dropped :
  let r := {| r_type := 64; r_name := [L_example]; r_class := 1; r_ttl := 0;
              r_data := RSvcb 0 [L_org] [PPort 443] |} in
  rr_wf r = false /\
  exists b s, enc_RR r = Ok b /\
              dec_RR b = DOk {| r_type := 64; r_name := [L_example]; r_class := 1; r_ttl := 0;
                                r_data := RSvcb 0 [L_org] [] |} s.
Proof. cbv zeta. split; [vm_compute; reflexivity|]. do 2 eexists. split; [vm_compute; reflexivity|]. vm_compute. reflexivity. Qed.

(* an upper-case CAA tag is written as given and read back lower-cased *)
Example C05_tag_lowercased :
  let r := {| r_type := 257; r_name := []; r_class := 1; r_ttl := 0;
              r_data := RFields [VN 0; VBytes [73]; VBytes []] |} in
  rr_wf r = false /\
  exists b s, enc_RR r = Ok b /\
              dec_RR b = DOk {| r_type := 257; r_name := []; r_class := 1; r_ttl := 0;
                                r_data := RFields [VN 0; VBytes [105]; VBytes []] |} s.
Proof. cbv zeta. split; [vm_compute; reflexivity|]. do 2 eexists. split; [vm_compute; reflexivity|]. vm_compute. reflexivity. Qed.

(* a GPOS record with an empty coordinate string is written, but the decoder rejects it (EGPOS):
   fv_wf FStrGpos demands 1..=255 octets *)
Example C05_gpos_empty_rejected :
  let r := {| r_type := 27; r_name := []; r_class := 1; r_ttl := 0;
              r_data := RFields [VBytes []; VBytes [49]; VBytes [49]] |} in
  rr_wf r = false /\
  enc_RR r = Ok [0; 0; 27; 0; 1; 0; 0; 0; 0; 0; 5; 0; 1; 49; 1; 49] /\
  dec_RR [0; 0; 27; 0; 1; 0; 0; 0; 0; 0; 5; 0; 1; 49; 1; 49] = DErr (EGPOS, []) 17.
Proof. cbv zeta. split; [vm_compute; reflexivity|]. split; vm_compute; reflexivity. Qed.

(* an extended RCODE (16..23 are in RCode_table) in the header: the encoder does not mask it to four
   bits, 16 lands on the CD bit; flags_wf demands rcode < 16 *)
Example C05_rcode16_sets_cd :
  let f := {| f_qr := false; f_opcode := 0; f_aa := false; f_tc := false; f_rd := false;
              f_ra := false; f_ad := false; f_cd := false; f_rcode := 16 |} in
  in_table RCode_table 16 = true /\ flags_wf f = false /\
  enc_Flags f = Ok [0; 16] /\
  exists s, dec_Flags [0; 16] =
            DOk {| f_qr := false; f_opcode := 0; f_aa := false; f_tc := false; f_rd := false;
                   f_ra := false; f_ad := false; f_cd := true; f_rcode := 0 |} s.
Proof.
  cbv zeta. split; [vm_compute; reflexivity|]. split; [vm_compute; reflexivity|].
  split; [vm_compute; reflexivity|]. eexists. vm_compute. reflexivity.
Qed.

(* ---------------------------------------------------------------------------------------------
   encoding succeeds for every well-formed value within the size limit (uncompressed sizes: Spec/USize.v) *)
(* ================= 1. the message ================= *)
(* a well-formed message whose uncompressed size fits in 65,535 octets encodes *)
Theorem C05_encode_succeeds : forall m : dns,
  dns_wf m = true -> usize_dns m <= 65535 -> exists b, enc_Dns m = Ok b.
Proof. exact C05_encode_succeeds_proof. Qed.
Print Assumptions C05_encode_succeeds.

(* without the size hypothesis: the only failure is XLength, and it proves the message too large *)
Theorem C05_encode_fails_only_by_size : forall m : dns, dns_wf m = true ->
  (exists b, enc_Dns m = Ok b) \/ (exists k, enc_Dns m = Err (XLength, [k]) /\ 65535 < usize_dns m).
Proof. exact C05_encode_fails_only_by_size_proof. Qed.
Print Assumptions C05_encode_fails_only_by_size.

(* the same with the size of the output: never more than the uncompressed size *)
Theorem C05_encode_total : forall m : dns, dns_wf m = true ->
  (exists b, enc_Dns m = Ok b /\ lenN b <= usize_dns m) \/
  (exists k, enc_Dns m = Err (XLength, [k]) /\ 65535 < usize_dns m).
Proof. exact enc_Dns_total. Qed.
Print Assumptions C05_encode_total.

Theorem C05_enc_size_le : forall (m : dns) (b : bytes),
  dns_wf m = true -> enc_Dns m = Ok b -> lenN b <= usize_dns m.
Proof. exact enc_size_le. Qed.
Print Assumptions C05_enc_size_le.

Theorem C05_failure_means_oversize : forall (m : dns) (e : err),
  dns_wf m = true -> enc_Dns m = Err e -> (exists k, e = (XLength, [k])) /\ 65535 < usize_dns m.
Proof. exact C05_failure_means_oversize_proof. Qed.
Print Assumptions C05_failure_means_oversize.



(* ================= 3. elements, from ANY encoder state with the name invariant ================= *)
Theorem C05_enc_rr_size_le : forall (r : rr) (st : est) (mask : list bool) (st' : est),
  rr_wf r = true -> InvM st mask -> enc_rr r st = EOk tt st' ->
  lenN (e_buf st') <= lenN (e_buf st) + usize_rr r.
Proof. exact enc_rr_size_le. Qed.
Print Assumptions C05_enc_rr_size_le.

Theorem C05_enc_rr_fails_only_by_size : forall (r : rr) (st : est) (mask : list bool),
  rr_wf r = true -> InvM st mask ->
  (exists st', enc_rr r st = EOk tt st') \/
  (exists k, enc_rr r st = EErr (XLength, [k]) /\ 65535 < lenN (e_buf st) + usize_rr r).
Proof. exact enc_rr_fails_only_by_size. Qed.
Print Assumptions C05_enc_rr_fails_only_by_size.

Theorem C05_enc_rr_succeeds : forall (r : rr) (st : est) (mask : list bool),
  rr_wf r = true -> InvM st mask -> lenN (e_buf st) + usize_rr r <= 65535 ->
  exists st', enc_rr r st = EOk tt st'.
Proof. exact enc_rr_succeeds. Qed.
Print Assumptions C05_enc_rr_succeeds.

Theorem C05_enc_question_size_le : forall (q : question) (st : est) (mask : list bool) (st' : est),
  question_wf q = true -> InvM st mask -> enc_question q st = EOk tt st' ->
  lenN (e_buf st') <= lenN (e_buf st) + usize_question q.
Proof. exact enc_question_size_le. Qed.
Print Assumptions C05_enc_question_size_le.

Theorem C05_enc_question_fails_only_by_size : forall (q : question) (st : est) (mask : list bool),
  question_wf q = true -> InvM st mask ->
  (exists st', enc_question q st = EOk tt st') \/
  (exists k, enc_question q st = EErr (XLength, [k]) /\ 65535 < lenN (e_buf st) + usize_question q).
Proof. exact enc_question_fails_only_by_size. Qed.
Print Assumptions C05_enc_question_fails_only_by_size.

Theorem C05_enc_name_size_le : forall (n : name) (st : est) (mask : list bool) (st' : est),
  name_wf n = true -> InvM st mask -> enc_domain_name n st = EOk tt st' ->
  lenN (e_buf st') <= lenN (e_buf st) + usize_name n.
Proof. exact enc_name_size_le. Qed.
Print Assumptions C05_enc_name_size_le.

Theorem C05_enc_section_size_le : forall (l : list rr) (st : est) (mask : list bool) (st' : est),
  forallb rr_wf l = true -> InvM st mask -> emap enc_rr l st = EOk tt st' ->
  lenN (e_buf st') <= lenN (e_buf st) + sumN (map usize_rr l).
Proof. exact enc_section_size_le. Qed.
Print Assumptions C05_enc_section_size_le.

(* the calculus behind all of the above: [encT enc U] — from every state with the invariant, [enc]
   succeeds appending at most U octets, or fails with XLength and 65535 < buffer length + U *)
Theorem C05_encT_rr : forall r : rr, rr_wf r = true -> encT (enc_rr r) (usize_rr r).
Proof. exact encT_rr. Qed.
Print Assumptions C05_encT_rr.

(* ================= 4. non-vacuity ================= *)
Definition L_example_sz : label := [101;120;97;109;112;108;101].
Definition L_org_sz : label := [111;114;103].
Definition L_www_sz : label := [119;119;119].
Definition L_mail_sz : label := [109;97;105;108].
Definition fl0 : flags :=
  {| f_qr := true; f_opcode := 0; f_aa := true; f_tc := false; f_rd := false;
     f_ra := false; f_ad := false; f_cd := false; f_rcode := 0 |}.

(* nothing compresses (all names distinct, no common suffix): TXT, A, OPT with a client-subnet option
   whose /20 address is cut to 3 octets, a cookie and padding — usize is exactly the output length *)
Definition m_plain : dns :=
  {| m_id := 4660; m_flags := fl0;
     m_qd := [ {| q_name := [L_example_sz; L_org_sz]; q_type := 16; q_class := 1 |} ];
     m_an := [ {| r_type := 16; r_name := [L_www_sz]; r_class := 1; r_ttl := 60;
                  r_data := RFields [VStrs [[104;105]; [1;2;3]]] |};
               {| r_type := 1; r_name := [L_mail_sz]; r_class := 1; r_ttl := 60;
                  r_data := RFields [VN 3232235777] |} ];
     m_ns := [];
     m_ar := [ {| r_type := 41; r_name := []; r_class := 0; r_ttl := 0;
                  r_data := ROpt 1232 0 0 true
                    [OEcs {| e_src := 20; e_scope := 0; e_addr := {| a_fam := 1; a_oct := [192;168;16;0] |} |};
                     OCookie {| c_client := [1;2;3;4;5;6;7;8]; c_server := None |};
                     OPadding 5] |} ] |}.
Example C05succ_example_exact :
  dns_wf m_plain = true /\ usize_dns m_plain = 114 /\
  exists b, enc_Dns m_plain = Ok b /\ lenN b = usize_dns m_plain.
Proof. split; [vm_compute; reflexivity|]. split; [vm_compute; reflexivity|]. eexists. split; vm_compute; reflexivity. Qed.

(* HTTPS with seven parameters and an APL item: again exact *)
Definition m_svcb : dns :=
  {| m_id := 1; m_flags := fl0; m_qd := [];
     m_an := [ {| r_type := 65; r_name := [L_www_sz]; r_class := 1; r_ttl := 0;
                  r_data := RSvcb 1 [L_mail_sz]
                    [PMandatory [4;1]; PAlpn [[104;50]; [104;51]]; PPort 443; PIpv4Hint [1;2]; PEch [1;2;3];
                     PIpv6Hint [repeat 0 (N.to_nat 16)]; PPrivate 700 [9;9]] |};
               {| r_type := 42; r_name := [L_org_sz]; r_class := 1; r_ttl := 0;
                  r_data := RApl [ {| i_prefix := 20; i_neg := true;
                                      i_addr := {| a_fam := 1; a_oct := [192;168;16;0] |} |} ] |} ];
     m_ns := []; m_ar := [] |}.
Example C05succ_example_exact_svcb :
  dns_wf m_svcb = true /\ usize_dns m_svcb = 128 /\
  exists b, enc_Dns m_svcb = Ok b /\ lenN b = usize_dns m_svcb.
Proof. split; [vm_compute; reflexivity|]. split; [vm_compute; reflexivity|]. eexists. split; vm_compute; reflexivity. Qed.

(* two names compressed against the question: the output is shorter than usize *)
Definition m_comp : dns :=
  {| m_id := 4660; m_flags := fl0;
     m_qd := [ {| q_name := [L_example_sz; L_org_sz]; q_type := 15; q_class := 1 |} ];
     m_an := [ {| r_type := 15; r_name := [L_www_sz; L_example_sz; L_org_sz]; r_class := 1; r_ttl := 60;
                  r_data := RFields [VN 10; VName [L_mail_sz; L_example_sz; L_org_sz]] |} ];
     m_ns := []; m_ar := [] |}.
Example C05succ_example_compressed :
  dns_wf m_comp = true /\ usize_dns m_comp = 76 /\
  exists b, enc_Dns m_comp = Ok b /\ lenN b = 54.
Proof. split; [vm_compute; reflexivity|]. split; [vm_compute; reflexivity|]. eexists. split; vm_compute; reflexivity. Qed.

(* two NULL records of 40,000 octets each: well formed, usize 80,043 > 65,535, and the encoder reports
   XLength with the length the buffer had reached at the closing range check *)
Definition big : bytes := repeat 0 (N.to_nat 40000).
Definition m_big : dns :=
  {| m_id := 1; m_flags := fl0; m_qd := [];
     m_an := [ {| r_type := 10; r_name := [L_www_sz]; r_class := 1; r_ttl := 0; r_data := RFields [VBytes big] |};
               {| r_type := 10; r_name := [L_mail_sz]; r_class := 1; r_ttl := 0; r_data := RFields [VBytes big] |} ];
     m_ns := []; m_ar := [] |}.
Example C05succ_example_oversize :
  dns_wf m_big = true /\ usize_dns m_big = 80043 /\ enc_Dns m_big = Err (XLength, [80043]).
Proof. split; [vm_compute; reflexivity|]. split; vm_compute; reflexivity. Qed.

(* the size hypothesis is sufficient, not necessary: 300 A records owned by the same 253-octet name have
   usize 80,112, but every owner after the first is a two-octet pointer and the message encodes *)
Definition long_label (c : N) : label := repeat c (N.to_nat 62).
Definition long_name : name := [long_label 97; long_label 98; long_label 99; long_label 100].
Definition m_many : dns :=
  {| m_id := 1; m_flags := fl0; m_qd := [];
     m_an := repeat {| r_type := 1; r_name := long_name; r_class := 1; r_ttl := 0; r_data := RFields [VN 1] |}
                    (N.to_nat 300);
     m_ns := []; m_ar := [] |}.
Example C05succ_example_compression_rescues :
  dns_wf m_many = true /\ usize_dns m_many = 80112 /\ exists b, enc_Dns m_many = Ok b /\ lenN b = 5063.
Proof. split; [vm_compute; reflexivity|]. split; [vm_compute; reflexivity|]. eexists. split; vm_compute; reflexivity. Qed.

(* ------------------------------------------------------------------------------------------
   render: the encoder's output is one of the legal renderings (Spec/Render.v) of the message *)
(* C05 (renderings) — Encoded output is a well-formed DNS message carrying the same value:
   the encoder's output is one of the LEGAL WIRE RENDERINGS of the message, in the sense of the
   declarative specification Spec/Render.v (written from the RFCs; it mentions neither the encoder model
   nor any decoder).  Together with C04 (every legal rendering of a well-formed message is accepted by
   the reference decoder and by the decoder model with an equivalent value) this gives a second,
   independent route to "the reference reads back what the encoder wrote". *)


(* Vocabulary.
   renders_dns m b   Spec/Render.v: b is a legal rendering of m: the header of m, then renderings of the
                     questions and of the three record sections, each element behind everything before it.
                     Names: every label in any ASCII case, cut off at any label boundary by a pointer to an
                     earlier occurrence (within 16 hops) of the remaining labels; address prefixes with any
                     number of trailing zero octets left out; SvcParams in any order.
   dns_wf, rr_wf, plain_wf, name_wf   the boolean well-formedness predicates of Props/C05.v.
   norm_dns m        m with the key list of every `mandatory` SvcParam sorted ascending (sort_keys, the
                     model of the encoder's sort_unstable); nothing else is changed: in particular labels
                     keep their case — the encoder writes labels as they are.
   InvM st mask      the invariant of the encoder state (Proofs/NameLayer.v); mask marks the octets of names.
   agree mask b pre  pre is at least as long as b and equal to b at every masked position. *)

(* ---- what is normalised ---- *)
Theorem C05_norm_dns_def : forall m : dns,
  norm_dns m = {| m_id := m_id m; m_flags := m_flags m; m_qd := m_qd m;
                  m_an := map norm_rr (m_an m); m_ns := map norm_rr (m_ns m); m_ar := map norm_rr (m_ar m) |}.
Proof. exact norm_dns_spec. Qed.
Print Assumptions C05_norm_dns_def.

Theorem C05_norm_rr_def : forall r : rr,
  norm_rr r = {| r_type := r_type r; r_name := r_name r; r_class := r_class r; r_ttl := r_ttl r;
                 r_data := match r_data r with
                           | RSvcb prio target ps => RSvcb prio target (map norm ps)
                           | _ => r_data r
                           end |}.
Proof. exact norm_rr_spec. Qed.
Print Assumptions C05_norm_rr_def.

Theorem C05_norm_param_def : forall p : svcparam,
  norm p = match p with PMandatory keys => PMandatory (sort_keys keys) | _ => p end.
Proof. exact norm_param_spec. Qed.
Print Assumptions C05_norm_param_def.

(* a message of plain records (no OPT, APL, SVCB, HTTPS) is its own normal form *)
Theorem C05_norm_dns_plain : forall m : dns, dns_wf_plain m = true -> norm_dns m = m.
Proof. exact norm_dns_plain. Qed.
Print Assumptions C05_norm_dns_plain.

(* the normal form is well formed and equivalent to the message *)
Theorem C05_norm_dns_wf : forall m : dns, dns_wf m = true -> dns_wf (norm_dns m) = true.
Proof. exact norm_dns_wf. Qed.
Print Assumptions C05_norm_dns_wf.

Theorem C05_norm_dns_eqv : forall m : dns, dns_eqv (norm_dns m) m.
Proof. exact norm_dns_eqv. Qed.
Print Assumptions C05_norm_dns_eqv.

(* ---- the theorem: the output is a legal rendering ---- *)
Theorem C05_output_is_legal_rendering : forall (m : dns) (b : bytes),
  dns_wf m = true -> enc_Dns m = Ok b -> renders_dns (norm_dns m) b.
Proof. exact output_is_legal_rendering. Qed.
Print Assumptions C05_output_is_legal_rendering.

(* messages of plain records: of the message itself *)
Theorem C05_output_is_legal_rendering_plain : forall (m : dns) (b : bytes),
  dns_wf_plain m = true -> enc_Dns m = Ok b -> renders_dns m b.
Proof. exact output_renders_plain. Qed.
Print Assumptions C05_output_is_legal_rendering_plain.

(* ---- element level: from any encoder state with the invariant ----
   The judgment holds behind EVERY prefix that agrees with the buffer on the octets of names: this is how
   a judgment made while an RDLENGTH slot still holds 0 0 is read against the final message. *)
Theorem C05_name_is_legal_rendering : forall (n : name) (st : est) (mask : list bool) (st' : est),
  name_wf n = true -> InvM st mask -> enc_domain_name n st = EOk tt st' ->
  exists w : bytes, e_buf st' = e_buf st ++ w /\
    forall pre : bytes, length pre = length (e_buf st) -> agree mask (e_buf st) pre -> renders_name pre n w.
Proof. exact name_renders_wf. Qed.
Print Assumptions C05_name_is_legal_rendering.

Theorem C05_rr_is_legal_rendering : forall (r : rr) (st : est) (mask : list bool) (st' : est),
  rr_wf r = true -> InvM st mask -> enc_rr r st = EOk tt st' ->
  exists w : bytes, e_buf st' = e_buf st ++ w /\
    forall pre : bytes, length pre = length (e_buf st) -> agree mask (e_buf st) pre ->
      renders_rr pre (norm_rr r) w.
Proof. exact rr_renders. Qed.
Print Assumptions C05_rr_is_legal_rendering.

(* what an SvcParam is written as: the rendering of its normal form *)
Theorem C05_param_wire_norm : forall p : svcparam,
  RtSpecial.param_wfb p = true -> SvcbEnc.param_fits p ->
  SvcbEnc.param_wire p = Spec.Render.param_wire (norm p).
Proof. exact param_wire_norm. Qed.
Print Assumptions C05_param_wire_norm.

(* ---- second route to the reference round trip: this theorem + C04_render_accepted ---- *)
Theorem C05_reference_reads_back_via_render : forall (m : dns) (b : bytes),
  dns_wf m = true -> enc_Dns m = Ok b -> exists m', spec_Dns b = Some m' /\ dns_eqv m' m.
Proof. exact reference_reads_back_via_render. Qed.
Print Assumptions C05_reference_reads_back_via_render.

(* ---- example (non-vacuity) ----
   a question for example.org, an MX record whose owner and exchange are compressed against it, and an
   HTTPS record whose `mandatory` list [4; 1] is written as [1; 4] *)
Definition exr_example : label := [101;120;97;109;112;108;101].
Definition exr_org : label := [111;114;103].
Definition exr_www : label := [119;119;119].
Definition exr_mail : label := [109;97;105;108].
Definition exr_msg : dns :=
  {| m_id := 4660;
     m_flags := {| f_qr := true; f_opcode := 0; f_aa := true; f_tc := false; f_rd := true; f_ra := true;
                   f_ad := false; f_cd := false; f_rcode := 0 |};
     m_qd := [ {| q_name := [exr_example; exr_org]; q_type := 15; q_class := 1 |} ];
     m_an := [ {| r_type := 15; r_name := [exr_www; exr_example; exr_org]; r_class := 1; r_ttl := 60;
                  r_data := RFields [VN 10; VName [exr_mail; exr_example; exr_org]] |};
               {| r_type := 65; r_name := [exr_example; exr_org]; r_class := 1; r_ttl := 60;
                  r_data := RSvcb 1 [exr_www; exr_example; exr_org]
                              [PMandatory [4; 1]; PAlpn [[104; 50]]; PIpv4Hint [3221225985]] |} ];
     m_ns := []; m_ar := [] |}.
Definition exr_bytes : bytes :=
  [18;52; 133;128; 0;1; 0;2; 0;0; 0;0;
   7;101;120;97;109;112;108;101; 3;111;114;103; 0; 0;15; 0;1;
   3;119;119;119; 192;12; 0;15; 0;1; 0;0;0;60; 0;9; 0;10; 4;109;97;105;108; 192;12;
   192;12; 0;65; 0;1; 0;0;0;60; 0;27; 0;1; 192;29;
   0;0; 0;4; 0;1; 0;4;
   0;1; 0;3; 2;104;50;
   0;4; 0;4; 192;0;2;1].

Example C05_render_example :
  dns_wf exr_msg = true /\ enc_Dns exr_msg = Ok exr_bytes /\
  renders_dns (norm_dns exr_msg) exr_bytes /\
  map r_data (m_an (norm_dns exr_msg)) =
    [RFields [VN 10; VName [exr_mail; exr_example; exr_org]];
     RSvcb 1 [exr_www; exr_example; exr_org] [PMandatory [1; 4]; PAlpn [[104; 50]]; PIpv4Hint [3221225985]]].
Proof.
  split; [vm_compute; reflexivity|]. split; [vm_compute; reflexivity|].
  split; [apply C05_output_is_legal_rendering; vm_compute; reflexivity|vm_compute; reflexivity].
Qed.
