(* Field-format vocabulary shared by the generated per-type tables (Gen/Formats.v),
   the model's generic RDATA reader/writer and the specification. *)
From Coq Require Export String.
From DNS Require Export Base.Bytes Base.Result.

Inductive enumid := EnAFSDBSubtype | EnSSHFPAlgorithm | EnSSHFPType | EnAlgorithmType | EnDigestType.

Inductive fk :=
| FU8 | FU16 | FU32 | FU64        (* self.u8() .. self.u64() *)
| FName                           (* self.domain_name() *)
| FStr                            (* self.string(): <character-string>, UTF-8 *)
| FRest                           (* self.vec(): rest of the window *)
| FRestUtf8                       (* self.vec() + from_utf8 (URI) *)
| FIp4                            (* self.ipv4_addr(): one u32 *)
| FIp6                            (* self.ipv6_addr(): eight u16 *)
| FEnum8 (e : enumid) (er : etag) (* u8 + try_from *)
| FEnum16 (e : enumid) (er : etag)
| FStrPsdn                        (* string + PSDNAddress::try_from *)
| FStrIsdn                        (* string + ISDNAddress::try_from *)
| FOptStrSa                       (* if is_finished None else string + SA::try_from *)
| FStrGpos                        (* string, (1..=256).contains(len) else GPOS *)
| FTag                            (* string + Tag::try_from (lower-cases) *)
| FStrs1                          (* while !is_finished string; NonEmptyVec else TXTEmpty *)
| FDnskeyFlags                    (* u16, & DNSKEY_ZERO_MASK must be 0 *)
| FConst8 (v : N) (er : etag)     (* u8 that must equal v *)
| FUnknown.                       (* the translator did not understand the source *)

Inductive classrule := CKAny | CKIn (er : etag) | CKNone.
Inductive encclass := ECField | ECIn.
Inductive special := SpOpt | SpApl | SpSvcb | SpHttps.

Inductive reader := RdFields (c : classrule) (f : list (string * fk)) | RdSpecial (s : special).
Inductive writer := WrFields (c : encclass) (f : list (string * fk)) | WrSpecial (s : special).

(* field values *)
Definition label := bytes.
Definition name := list label.

Inductive fv :=
| VN (n : N)
| VName (n : name)
| VBytes (b : bytes)
| VStrs (l : list bytes)
| VOptStr (o : option bytes).
