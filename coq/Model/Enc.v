(* The encoder: src/encode/**.  One definition per Rust function. *)
From DNS Require Export Model.Values Gen.Tables Gen.Formats.
From DNS Require Import Model.Dec.   (* lookup, TYPE_OPT, CLASS_IN, enum tables *)

Record est := { e_buf : bytes;                       (* Encoder.bytes *)
                e_idx : list (name * (N * N));       (* Encoder.domain_name_index: name -> (offset, depth) *)
                e_names : list (N * name) }.         (* GHOST: (offset, name) of every domain_name() call,
                                                        newest first; read by no model function *)

Inductive eres (A : Type) :=
| EOk (a : A) (s : est)
| EErr (e : err)
| EPanic (x : site)
| EIllTyped.           (* a field value whose shape does not fit its field kind: excluded by Rust's types *)
Arguments EOk {A} a s.
Arguments EErr {A} e.
Arguments EPanic {A} x.
Arguments EIllTyped {A}.

Definition EM (A : Type) := est -> eres A.
Definition eret {A} (a : A) : EM A := fun s => EOk a s.
Definition ebind {A B} (m : EM A) (f : A -> EM B) : EM B :=
  fun s => match m s with
           | EOk a s' => f a s'
           | EErr e => EErr e
           | EPanic x => EPanic x
           | EIllTyped => EIllTyped
           end.
Definition efail {A} (e : err) : EM A := fun _ => EErr e.
Notation "x <-- m ;; f" := (ebind m (fun x => f)) (at level 61, m at next level, right associativity).

Definition e_init : est := {| e_buf := []; e_idx := []; e_names := [] |}.

(* ---- src/encode/helpers.rs, encoder.rs ---- *)
Definition put (b : bytes) : EM unit := fun s => EOk tt {| e_buf := e_buf s ++ b; e_idx := e_idx s; e_names := e_names s |}.
Definition eu8 (n : N) : EM unit := put (u8b n).
Definition eu16 (n : N) : EM unit := put (u16b n).
Definition eu32 (n : N) : EM unit := put (u32b n).
Definition eu64 (n : N) : EM unit := put (u64b n).
Definition buf_len : EM N := fun s => EOk (lenN (e_buf s)) s.

Definition get_offset : EM N :=
  n <-- buf_len ;; if n <? POW16 then eret n else efail (XLength, [n]).

(* overwrite [length b] octets at [i]; callers check the range first *)
Definition patch (i : N) (b : bytes) (buf : bytes) : bytes :=
  takeN i buf ++ b ++ dropN (i + lenN b) buf.

Definition set_u16 (n index : N) : EM unit := fun s =>
  let len := lenN (e_buf s) in
  if index + 2 - 1 <? len then EOk tt {| e_buf := patch index (u16b n) (e_buf s); e_idx := e_idx s; e_names := e_names s |}
  else EErr (XNotEnoughBytes, [len; index]).
Definition set_u8 (n index : N) : EM unit := fun s =>
  let len := lenN (e_buf s) in
  if index + 1 - 1 <? len then EOk tt {| e_buf := patch index (u8b n) (e_buf s); e_idx := e_idx s; e_names := e_names s |}
  else EErr (XNotEnoughBytes, [len; index]).

Definition estring (b : bytes) : EM unit :=
  let length := lenN b in
  if cmp_apply OP_string_len length STRING_MAX then efail (XString, [length])
  else _ <-- eu8 length ;; put b.

Definition create_length_index : EM N := i <-- buf_len ;; _ <-- eu16 0 ;; eret i.
Definition set_length_index (li : N) : EM unit :=
  len <-- buf_len ;;
  if len <? li + 2 then fun _ => EPanic SLenIndexSub
  else let length := len - (li + 2) in
       if length <? POW16 then set_u16 length li else efail (XLength, [length]).

(* ---- src/encode/domain_name.rs ---- *)
Fixpoint idx_lookup (n : name) (idx : list (name * (N * N))) : option (N * N) :=
  match idx with
  | [] => None
  | (k, v) :: r => if name_eqb n k then Some v else idx_lookup n r
  end.

Definition compress (suffix : name) : EM (option N) := fun s =>
  match idx_lookup suffix (e_idx s) with
  | Some (index, recursion) =>
    if cmp_apply OP_compress_offset ENC_MAX_OFFSET index then EErr (XCompression, [index])
    else if cmp_apply OP_compress_rec recursion DOMAIN_NAME_MAX_RECURSION then EOk None s
    else (_ <-- eu16 (N.lor ENC_COMPRESSION_BITS index) ;; eret (Some recursion)) s
  | None => EOk None s
  end.

Definition elabel (l : label) : EM N := index <-- get_offset ;; _ <-- estring l ;; eret index.

Definition merge_index (local : list (name * N)) (recursion : N) : EM unit := fun s =>
  if cmp_apply OP_merge_rec recursion DOMAIN_NAME_MAX_RECURSION then EErr (XMaxRecursion, [recursion])
  else EOk tt {| e_buf := e_buf s;
                 e_idx := map (fun p => (fst p, (snd p, recursion))) local ++ e_idx s;
                 e_names := e_names s |}.

Fixpoint enc_name_loop (labels : name) (local : list (name * N)) : EM unit :=
  match labels with
  | [] => _ <-- estring [] ;; merge_index local 0
  | l :: rest =>
    r <-- compress labels ;;
    match r with
    | Some recursion => merge_index local (recursion + 1)
    | None =>
      index <-- elabel l ;;
      enc_name_loop rest (if cmp_apply OP_index_offset index ENC_MAX_OFFSET then (labels, index) :: local else local)
    end
  end.
Definition log_name (n : name) : EM unit := fun s =>
  EOk tt {| e_buf := e_buf s; e_idx := e_idx s; e_names := (lenN (e_buf s), n) :: e_names s |}.
Definition enc_domain_name (n : name) : EM unit := _ <-- log_name n ;; enc_name_loop n [].

(* ---- src/encode/rr/subtypes.rs ---- *)
(* octets.iter().rposition(|b| b != 0): index of the last octet that differs from zero *)
Fixpoint addr_rposition (oct : bytes) : option N :=
  match oct with
  | [] => None
  | b :: r =>
    match addr_rposition r with
    | Some i => Some (i + 1)
    | None => if cmp_apply OP_enc_addr_significant b ENC_ADDR_SIGNIFICANT_ZERO then Some 0 else None
    end
  end.
(* .map_or(0, |i| i + 1) *)
Definition addr_significant (oct : bytes) : N :=
  match addr_rposition oct with
  | Some i => i + ENC_ADDR_SIGNIFICANT_INC
  | None => ENC_ADDR_SIGNIFICANT_NONE
  end.
(* Encoder::rr_address_octets / rr_address_with_length:
   for b in octets.iter().take(max(significant, minimum_length)): self.u8 of b *)
Definition rr_address_with_length (a : addr) (minimum_length : N) : EM unit :=
  put (takeN ((if ENC_ADDR_TAKE_MAX then N.max else N.min) (addr_significant (a_oct a)) minimum_length)
             (a_oct a)).
(* (usize::from(ecs.get_source_prefix_length()) + 7) / 8 *)
Definition ecs_minimum_length (src pfx : N) : N :=
  ((if ENC_ECS_LENGTH_OF_SOURCE then src else pfx) + ENC_ECS_LENGTH_ADD) / ENC_ECS_LENGTH_DIV.

(* ---- generic field writer ---- *)
Fixpoint emap {A} (f : A -> EM unit) (l : list A) : EM unit :=
  match l with [] => eret tt | x :: r => _ <-- f x ;; emap f r end.

Definition write_field (k : fk) (v : option fv) : EM unit :=
  match k, v with
  | FU8, Some (VN n) => eu8 n
  | FU16, Some (VN n) => eu16 n
  | FU32, Some (VN n) => eu32 n
  | FU64, Some (VN n) => eu64 n
  | FName, Some (VName n) => enc_domain_name n
  | FStr, Some (VBytes s) | FStrPsdn, Some (VBytes s) | FStrIsdn, Some (VBytes s)
  | FStrGpos, Some (VBytes s) | FTag, Some (VBytes s) => estring s
  | FRest, Some (VBytes b) | FRestUtf8, Some (VBytes b) => put b
  | FIp4, Some (VN n) => eu32 n
  | FIp6, Some (VBytes b) => put b
  | FEnum8 _ _, Some (VN n) => eu8 n
  | FEnum16 _ _, Some (VN n) => eu16 n
  | FOptStrSa, Some (VOptStr o) => match o with Some s => estring s | None => eret tt end
  | FStrs1, Some (VStrs l) => emap estring l
  | FDnskeyFlags, Some (VN n) => eu16 n
  | FConst8 c _, _ => eu8 c
  | _, _ => fun _ => EIllTyped
  end.

Definition has_value (k : fk) : bool := match k with FConst8 _ _ => false | _ => true end.
Definition value_names (f : list (string * fk)) : list string :=
  map fst (filter (fun p => has_value (snd p)) f).

Fixpoint assoc (nm : string) (ns : list string) (vs : list fv) : option fv :=
  match ns, vs with
  | n :: ns', v :: vs' => if String.eqb nm n then Some v else assoc nm ns' vs'
  | _, _ => None
  end.

(* the writer takes each field by NAME from the record (whose fields are listed in decode order) *)
Fixpoint write_fields (names : list string) (vals : list fv) (f : list (string * fk)) : EM unit :=
  match f with
  | [] => eret tt
  | (nm, k) :: r => _ <-- write_field k (assoc nm names vals) ;; write_fields names vals r
  end.

Definition dec_value_names (t : N) : list string :=
  match lookup t dec_dispatch with Some (RdFields _ f) => value_names f | _ => [] end.

(* ---- EDNS options ---- *)
Definition enc_opt_ttl (ext ver : N) (dnssec : bool) : N :=
  N.lor (N.lor (N.shiftl ext ENC_OPT_extend_rcode_shift) (N.shiftl ver ENC_OPT_version_shift))
        (if dnssec then N.shiftl EDNS_DNSSEC_MASK ENC_OPT_dnssec_shift else 0).

Definition enc_ecs (e : ecs) : EM unit :=
  _ <-- eu16 OPT_ECS ;;
  li <-- create_length_index ;;
  _ <-- eu16 (a_fam (e_addr e)) ;;
  _ <-- eu8 (e_src e) ;; _ <-- eu8 (e_scope e) ;;
  _ <-- rr_address_with_length (e_addr e) (ecs_minimum_length (e_src e) (ecs_prefix e)) ;;
  set_length_index li.
Definition enc_cookie (c : cookie) : EM unit :=
  _ <-- eu16 OPT_COOKIE ;;
  li <-- create_length_index ;;
  _ <-- put (c_client c) ;;
  _ <-- match c_server c with Some s => put s | None => eret tt end ;;
  set_length_index li.
Definition enc_padding (n : N) : EM unit :=
  _ <-- eu16 OPT_PADDING ;; _ <-- eu16 n ;; put (zeros (N.to_nat (n mod POW16))).
Definition enc_edns_option (o : ednsopt) : EM unit :=
  match o with OEcs e => enc_ecs e | OCookie c => enc_cookie c | OPadding n => enc_padding n end.

(* ---- APL ---- *)
Definition set_address_length_index (negation : bool) (ali : N) : EM unit :=
  len <-- buf_len ;;
  if len <? ali + 1 then fun _ => EPanic SAddrLenIndexSub
  else let length := len - (ali + 1) in
       if length <? 256 then
         if cmp_apply OP_apl_len length APL_NEGATION_MASK then
           set_u8 (if negation then N.lor length APL_NEGATION_MASK else length) ali
         else efail (XAPLAddressLength, [length])
       else efail (XLength, [length]).
Definition enc_apitem (i : apitem) : EM unit :=
  _ <-- eu16 (a_fam (i_addr i)) ;;
  _ <-- eu8 (i_prefix i) ;;
  ali <-- buf_len ;;
  _ <-- eu8 0 ;;
  _ <-- rr_address_with_length (i_addr i) ENC_APL_MINIMUM_LENGTH ;;
  set_address_length_index (i_neg i) ali.

(* ---- SVCB ---- *)
Fixpoint insert_sorted (x : N) (l : list N) : list N :=
  match l with [] => [x] | y :: r => if x <=? y then x :: l else y :: insert_sorted x r end.
Definition sort_keys (l : list N) : list N := fold_right insert_sorted [] l.

Definition enc_service_parameter (p : svcparam) : EM unit :=
  _ <-- eu16 (param_key p) ;;
  li <-- create_length_index ;;
  _ <-- match p with
        | PMandatory keys => emap eu16 (sort_keys keys)
        | PAlpn ids => emap estring ids
        | PNoDefaultAlpn => eret tt
        | PPort port => eu16 port
        | PIpv4Hint h => emap eu32 h
        | PEch cl => let n := lenN cl in
                     if 65535 <? n then efail (XLength, [n]) else _ <-- eu16 n ;; put cl
        | PIpv6Hint h => emap put h
        | PPrivate _ d => put d
        | PKey65535 => eret tt
        end ;;
  set_length_index li.

(* ---- src/encode/rr/enums.rs and the per-type writers ---- *)
Definition enc_rr (r : rr) : EM unit :=
  match lookup (r_type r) enc_dispatch with
  | Some (WrFields ec f) =>
    match r_data r with
    | RFields vals =>
      _ <-- enc_domain_name (r_name r) ;;
      _ <-- eu16 (r_type r) ;;
      _ <-- eu16 (match ec with ECField => r_class r | ECIn => CLASS_IN end) ;;
      _ <-- eu32 (r_ttl r) ;;
      li <-- create_length_index ;;
      _ <-- write_fields (dec_value_names (r_type r)) vals f ;;
      set_length_index li
    | _ => fun _ => EIllTyped
    end
  | Some (WrSpecial SpOpt) =>
    match r_data r with
    | ROpt payload ext ver dnssec opts =>
      _ <-- enc_domain_name [] ;;
      _ <-- eu16 (r_type r) ;;
      _ <-- eu16 payload ;;
      _ <-- eu32 (enc_opt_ttl ext ver dnssec) ;;
      li <-- create_length_index ;;
      _ <-- emap enc_edns_option opts ;;
      set_length_index li
    | _ => fun _ => EIllTyped
    end
  | Some (WrSpecial SpApl) =>
    match r_data r with
    | RApl items =>
      _ <-- enc_domain_name (r_name r) ;;
      _ <-- eu16 (r_type r) ;;
      _ <-- eu16 CLASS_IN ;;
      _ <-- eu32 (r_ttl r) ;;
      li <-- create_length_index ;;
      _ <-- emap enc_apitem items ;;
      set_length_index li
    | _ => fun _ => EIllTyped
    end
  | Some (WrSpecial _) =>
    match r_data r with
    | RSvcb prio target params =>
      _ <-- enc_domain_name (r_name r) ;;
      _ <-- eu16 (r_type r) ;;
      _ <-- eu16 CLASS_IN ;;
      _ <-- eu32 (r_ttl r) ;;
      li <-- create_length_index ;;
      _ <-- eu16 prio ;;
      _ <-- enc_domain_name target ;;
      _ <-- (if negb (prio =? 0) then emap enc_service_parameter params else eret tt) ;;
      set_length_index li
    | _ => fun _ => EIllTyped
    end
  | None => fun _ => EIllTyped
  end.

(* ---- src/encode/question.rs, dns.rs ---- *)
Definition enc_question (q : question) : EM unit :=
  _ <-- enc_domain_name (q_name q) ;; _ <-- eu16 (q_type q) ;; eu16 (q_class q).

Definition eflag (spec : N * N * N) (b : bool) (oct : N) : N :=
  let '(o, mask, _) := spec in if (o =? oct) && b then mask else 0.
Definition eshift (spec : N * N * N) (v : N) (oct : N) : N :=
  let '(o, _, shift) := spec in if o =? oct then (N.shiftl v shift) mod 256 else 0.
Definition flags_octet (f : flags) (oct : N) : N :=
  N.lor (eflag ENC_FLAG_qr (f_qr f) oct)
 (N.lor (eshift ENC_FLAG_opcode (f_opcode f) oct)
 (N.lor (eflag ENC_FLAG_aa (f_aa f) oct)
 (N.lor (eflag ENC_FLAG_tc (f_tc f) oct)
 (N.lor (eflag ENC_FLAG_rd (f_rd f) oct)
 (N.lor (eflag ENC_FLAG_ra (f_ra f) oct)
 (N.lor (eflag ENC_FLAG_ad (f_ad f) oct)
 (N.lor (eflag ENC_FLAG_cd (f_cd f) oct)
        (eshift ENC_FLAG_rcode (f_rcode f) oct)))))))).
Definition enc_flags (f : flags) : EM unit :=
  _ <-- eu8 (flags_octet f 0) ;; eu8 (flags_octet f 1).

Definition enc_count {A} (l : list A) : EM unit :=
  let n := lenN l in if n <? POW16 then eu16 n else efail (XLength, [n]).

Definition enc_dns (m : dns) : EM unit :=
  _ <-- eu16 (m_id m) ;;
  _ <-- enc_flags (m_flags m) ;;
  _ <-- enc_count (m_qd m) ;; _ <-- enc_count (m_an m) ;;
  _ <-- enc_count (m_ns m) ;; _ <-- enc_count (m_ar m) ;;
  _ <-- emap enc_question (m_qd m) ;;
  _ <-- emap enc_rr (m_an m) ;;
  _ <-- emap enc_rr (m_ns m) ;;
  _ <-- emap enc_rr (m_ar m) ;;
  _ <-- get_offset ;; eret tt.

(* ---- public entry points (impl_encode! / impl_encode_without_result!) ---- *)
Definition erun (m : EM unit) : res bytes :=
  match m e_init with
  | EOk _ s => Ok (e_buf s)
  | EErr e => Err e
  | EPanic x => Panic x
  | EIllTyped => OutOfFuel      (* never for well-typed values; see Proofs/EncTyped.v *)
  end.
Definition enc_Dns (m : dns) := erun (enc_dns m).
Definition enc_Flags (f : flags) := erun (enc_flags f).
Definition enc_Question (q : question) := erun (enc_question q).
Definition enc_RR (r : rr) := erun (enc_rr r).
Definition enc_DomainName (n : name) := erun (enc_domain_name n).
Definition enc_code (c : N) := erun (eu16 c).
