(* Validated value types and their public API: src/label.rs, src/domain_name.rs,
   src/rr/subtypes.rs, src/rr/edns/rfc_7871.rs, rfc_7873.rs, src/rr/rfc_3123.rs,
   src/rr/rfc_8659.rs, src/rr/rfc_1183.rs.  One definition per Rust function. *)
From DNS Require Export Base.Bytes Base.Result Base.Utf8 Gen.Consts Model.Fmt.

(* ---- src/label.rs ---- *)
Definition check_label (l : bytes) : res unit :=
  let n := lenN l in
  if n =? 0 then Err (ELabelEmpty, [])
  else if cmp_apply OP_check_label n LABEL_MAX_LENGTH then Ok tt
  else Err (ELabelLength, [n]).

(* eq_ignore_ascii_case / to_ascii_lowercase (after fix F4) *)
Definition label_fold (l : label) : label := map ascii_lower l.
Definition label_eqb (a b : label) : bool := bytes_eqb (label_fold a) (label_fold b).
Definition name_eqb (a b : name) : bool := list_eqb label_eqb a b.

(* what the Hash impls feed to the hasher: Vec length prefix, then per label the folded
   octets and the 0xFF terminator that str::hash appends *)
Definition hash_feed (n : name) : list N :=
  lenN n :: concat (map (fun l => label_fold l ++ [255]) n).

(* ---- src/domain_name.rs ---- *)
Fixpoint labels_sum (n : name) : N :=
  match n with [] => 0 | l :: r => lenN l + labels_sum r end.
Definition name_len (n : name) : N :=
  match n with [] => 1 | _ => lenN n + labels_sum n end.

Definition append_label (n : name) (l : label) : res name :=
  let ll := lenN l in
  let dl := match n with [] => ll + 1 | _ => name_len n + ll + 1 end in
  if cmp_apply OP_append_label DOMAIN_NAME_MAX_LENGTH dl then Err (EDomainNameLength, [dl])
  else Ok (n ++ [l]).

(* wire length of a name: one length octet per label + label octets + terminator *)
Definition wire_len (n : name) : N := lenN n + labels_sum n + 1.

(* text form *)
Definition DOT : N := 46.
Fixpoint split_dot_aux (cur : bytes) (s : bytes) : list bytes :=
  match s with
  | [] => [rev cur]
  | c :: r => if c =? DOT then rev cur :: split_dot_aux [] r else split_dot_aux (c :: cur) r
  end.
Definition split_dot (s : bytes) : list bytes := split_dot_aux [] s.

Definition strip_suffix_dot (s : bytes) : bytes :=
  match rev s with
  | c :: r => if c =? DOT then rev r else s
  | [] => s
  end.

Fixpoint append_all (n : name) (ls : list bytes) : res name :=
  match ls with
  | [] => Ok n
  | l :: r =>
    match check_label l with
    | Ok _ => match append_label n l with Ok n' => append_all n' r | Err e => Err e | Panic s => Panic s | OutOfFuel => OutOfFuel end
    | Err e => Err e | Panic s => Panic s | OutOfFuel => OutOfFuel
    end
  end.

Definition name_from_str (s : bytes) : res name :=
  let rel := strip_suffix_dot s in
  if bytes_eqb s [DOT] then Ok []
  else append_all [] (split_dot rel).

Definition name_display (n : name) : bytes :=
  match n with
  | [] => [DOT]
  | _ => concat (map (fun l => l ++ [DOT]) n)
  end.

(* ---- src/rr/subtypes.rs ---- *)
Record addr := { a_fam : N; a_oct : bytes }.   (* family 1: 4 octets, family 2: 16 octets *)

Definition check_addr_bits (bits : N) (e_prefix e_mask : etag) (octets : bytes) (prefix : N) : res unit :=
  if bits <? prefix then Err (e_prefix, [prefix])
  else if bits =? prefix then Ok tt
  else
    let index := prefix / 8 in
    let remain := prefix mod 8 in
    match nthN index octets with
    | None => Panic SPrefixIndex
    | Some o =>
      if 8 <=? remain then Panic SPrefixShift
      else if negb (N.land o (N.shiftr PREFIX_MASK remain) =? 0) then Err (e_mask, [prefix])
      else if lenN octets <? index + 1 then Panic SPrefixSplit
      else if forallb (N.eqb 0) (dropN (index + 1) octets) then Ok tt
      else Err (e_mask, [prefix])
    end.

Definition check_prefix (a : addr) (prefix : N) : res unit :=
  if a_fam a =? 1 then check_addr_bits IPV4_BITS EIpv4Prefix EIpv4Mask (a_oct a) prefix
  else check_addr_bits IPV6_BITS EIpv6Prefix EIpv6Mask (a_oct a) prefix.

(* ---- src/rr/edns/rfc_7871.rs ---- *)
Record ecs := { e_src : N; e_scope : N; e_addr : addr }.
Definition ecs_prefix (e : ecs) : N := N.max (e_src e) (e_scope e).
Definition ecs_check (e : ecs) : res unit := check_prefix (e_addr e) (ecs_prefix e).
Definition ecs_new (src scope : N) (a : addr) : res ecs :=
  let e := {| e_src := src; e_scope := scope; e_addr := a |} in
  match ecs_check e with Ok _ => Ok e | Err x => Err x | Panic s => Panic s | OutOfFuel => OutOfFuel end.
(* setter! macro: assign, check, restore previous on error.  Result: new state + result *)
Definition ecs_setter (upd : ecs -> ecs) (e : ecs) : ecs * res unit :=
  let previous := e in
  let e' := upd e in
  match ecs_check e' with
  | Ok _ => (e', Ok tt)
  | r => (previous, r)
  end.
Definition ecs_set_src (v : N) := ecs_setter (fun e => {| e_src := v; e_scope := e_scope e; e_addr := e_addr e |}).
Definition ecs_set_scope (v : N) := ecs_setter (fun e => {| e_src := e_src e; e_scope := v; e_addr := e_addr e |}).
Definition ecs_set_addr (a : addr) := ecs_setter (fun e => {| e_src := e_src e; e_scope := e_scope e; e_addr := a |}).

(* ---- src/rr/rfc_3123.rs ---- *)
Record apitem := { i_prefix : N; i_neg : bool; i_addr : addr }.
Definition apitem_new (prefix : N) (neg : bool) (a : addr) : res apitem :=
  match check_prefix a prefix with
  | Ok _ => Ok {| i_prefix := prefix; i_neg := neg; i_addr := a |}
  | Err x => Err x | Panic s => Panic s | OutOfFuel => OutOfFuel
  end.
Definition apitem_set_prefix (p : N) (i : apitem) : apitem * res unit :=
  match check_prefix (i_addr i) p with
  | Ok _ => ({| i_prefix := p; i_neg := i_neg i; i_addr := i_addr i |}, Ok tt)
  | r => (i, r)
  end.
Definition apitem_set_addr (a : addr) (i : apitem) : apitem * res unit :=
  match check_prefix a (i_prefix i) with
  | Ok _ => ({| i_prefix := i_prefix i; i_neg := i_neg i; i_addr := a |}, Ok tt)
  | r => (i, r)
  end.

(* ---- src/rr/edns/rfc_7873.rs ---- *)
Record cookie := { c_client : bytes; c_server : option bytes }.
Definition server_len_ok (n : N) : bool :=
  (MINIMUM_SERVER_COOKIE_LENGTH <=? n) &&
  (if COOKIE_NEW_RANGE_INCL then n <=? MAXIMUM_SERVER_COOKIE_LENGTH else n <? MAXIMUM_SERVER_COOKIE_LENGTH).
Definition cookie_set_server (o : option bytes) (c : cookie) : cookie * res unit :=
  match o with
  | Some s =>
    let n := lenN s in
    if server_len_ok n then ({| c_client := c_client c; c_server := Some s |}, Ok tt)
    else (c, Err (EServerCookieLength, [n]))
  | None => ({| c_client := c_client c; c_server := None |}, Ok tt)
  end.
Definition cookie_new (client : bytes) (o : option bytes) : res cookie :=
  let c := {| c_client := client; c_server := None |} in
  match cookie_set_server o c with
  | (c', Ok _) => Ok c'
  | (_, Err e) => Err e
  | (_, Panic s) => Panic s
  | (_, OutOfFuel) => OutOfFuel
  end.

(* ---- validated strings: rfc_8659.rs Tag, rfc_1183.rs PSDNAddress / ISDNAddress / SA ---- *)
Definition tag_try_from (s : bytes) : res bytes :=
  match s with
  | [] => Err (ETagEmpty, [])
  | _ => if forallb is_alnum s then Ok (map ascii_lower s) else Err (ETagIllegalChar, [])
  end.
Definition psdn_try_from (s : bytes) : res bytes :=
  if forallb is_digit s then Ok s else Err (EPSDNAddressError, []).
Definition isdn_try_from (s : bytes) : res bytes :=
  if forallb is_digit s then Ok s else Err (EISDNIllegalChar, []).
Definition sa_try_from (s : bytes) : res bytes :=
  if forallb is_hexdigit s then Ok s else Err (EISDNIllegalCharSA, []).
Definition nonempty_try_from {A} (l : list A) : res (list A) :=
  match l with [] => Err (EEmptyVec, []) | _ => Ok l end.

(* ---- EDNS options, SVCB parameters, records, messages (src/rr/**, src/dns.rs, src/question.rs) ---- *)
Inductive ednsopt :=
| OEcs (e : ecs)
| OCookie (c : cookie)
| OPadding (n : N).

Inductive svcparam :=
| PMandatory (keys : list N)
| PAlpn (ids : list bytes)
| PNoDefaultAlpn
| PPort (p : N)
| PIpv4Hint (h : list N)         (* u32 per address *)
| PEch (b : bytes)
| PIpv6Hint (h : list bytes)     (* 16 octets per address *)
| PPrivate (number : N) (data : bytes)
| PKey65535.

Definition param_key (p : svcparam) : N :=
  match p with
  | PMandatory _ => 0 | PAlpn _ => 1 | PNoDefaultAlpn => 2 | PPort _ => 3
  | PIpv4Hint _ => 4 | PEch _ => 5 | PIpv6Hint _ => 6
  | PPrivate n _ => n | PKey65535 => 65535
  end.

Inductive rdata :=
| RFields (f : list fv)
| ROpt (payload ext ver : N) (dnssec : bool) (opts : list ednsopt)
| RApl (items : list apitem)
| RSvcb (prio : N) (target : name) (params : list svcparam).   (* BTreeSet: key-sorted, duplicate-free *)

Record rr := { r_type : N; r_name : name; r_class : N; r_ttl : N; r_data : rdata }.

Record flags := { f_qr : bool; f_opcode : N; f_aa : bool; f_tc : bool; f_rd : bool;
                  f_ra : bool; f_ad : bool; f_cd : bool; f_rcode : N }.
Record question := { q_name : name; q_type : N; q_class : N }.
Record dns := { m_id : N; m_flags : flags; m_qd : list question;
                m_an : list rr; m_ns : list rr; m_ar : list rr }.

(* BTreeSet<ServiceParameter>::insert with the key-only Ord: keeps the first of two equal keys,
   keeps the list sorted by key.  Returns (set, inserted?) *)
Fixpoint set_insert (p : svcparam) (s : list svcparam) : list svcparam * bool :=
  match s with
  | [] => ([p], true)
  | q :: r =>
    if param_key p <? param_key q then (p :: s, true)
    else if param_key p =? param_key q then (s, false)
    else let '(r', b) := set_insert p r in (q :: r', b)
  end.
