(* The decoder: src/decode/**.  One definition per Rust function; loops on explicit fuel;
   every partial Rust operation is a checked operation with a Panic outcome; the state carries
   the octet counter that the verification hook maintains in Decoder::read / Decoder::bytes. *)
From DNS Require Export Model.Values Gen.Tables Gen.Formats.

(* ---- decoder state and monad (src/decode/decoder.rs) ---- *)
Record dst := { d_rest : bytes;   (* octets of the window from the cursor on *)
                d_off : N;        (* Decoder.offset *)
                d_len : N;        (* Decoder.bytes.len() *)
                d_cost : N }.     (* octets examined so far (hook counter) *)

Inductive dres (A : Type) :=
| DOk (a : A) (s : dst)
| DErr (e : err) (cost : N)
| DPanic (s : site)
| DFuel.
Arguments DOk {A} a s.
Arguments DErr {A} e cost.
Arguments DPanic {A} s.
Arguments DFuel {A}.

Definition DM (A : Type) := dst -> dres A.
Definition ret {A} (a : A) : DM A := fun s => DOk a s.
Definition bind {A B} (m : DM A) (f : A -> DM B) : DM B :=
  fun s => match m s with
           | DOk a s' => f a s'
           | DErr e c => DErr e c
           | DPanic x => DPanic x
           | DFuel => DFuel
           end.
Definition fail {A} (e : err) : DM A := fun s => DErr e (d_cost s).
Definition panic {A} (x : site) : DM A := fun _ => DPanic x.
Definition lift {A} (r : res A) : DM A :=
  match r with Ok a => ret a | Err e => fail e | Panic x => panic x | OutOfFuel => fun _ => DFuel end.
Notation "x <- m ;; f" := (bind m (fun x => f)) (at level 61, m at next level, right associativity).
Notation "' p <- m ;; f" := (bind m (fun p => f)) (at level 61, p pattern, m at next level, right associativity).

Definition mk_main (b : bytes) : dst := {| d_rest := b; d_off := 0; d_len := lenN b; d_cost := 0 |}.

(* Decoder::read *)
Definition read (n : N) : DM bytes := fun s =>
  let off' := d_off s + n in
  if POW64 <=? off' then DPanic SReadOverflow
  else if cmp_apply OP_read off' (d_len s) then
    DOk (takeN n (d_rest s))
        {| d_rest := dropN n (d_rest s); d_off := off'; d_len := d_len s; d_cost := d_cost s + n |}
  else DErr (ENotEnoughBytes, [d_len s; off']) (d_cost s).

(* Decoder::is_finished / finished *)
Definition is_finished : DM bool := fun s =>
  if d_off s <? d_len s then DOk false s
  else if d_off s =? d_len s then DOk true s
  else DErr (ENotEnoughBytes, [d_len s; d_off s]) (d_cost s).
Definition finished : DM unit :=
  b <- is_finished ;; if b then ret tt else fun s => DErr (ETooManyBytes, [d_len s; d_off s]) (d_cost s).

(* let mut sub = self.sub(n)?; let a = m(sub)?; sub.finished()?  — the child window is the slice
   returned by read; the parent continues behind it; the counter is shared *)
Definition with_sub {A} (n : N) (m : DM A) : DM A := fun s =>
  match read n s with
  | DOk b s' =>
    match (a <- m ;; _ <- finished ;; ret a)
            {| d_rest := b; d_off := 0; d_len := lenN b; d_cost := d_cost s' |} with
    | DOk a c => DOk a {| d_rest := d_rest s'; d_off := d_off s'; d_len := d_len s'; d_cost := d_cost c |}
    | DErr e c => DErr e c
    | DPanic x => DPanic x
    | DFuel => DFuel
    end
  | DErr e c => DErr e c
  | DPanic x => DPanic x
  | DFuel => DFuel
  end.

(* ---- src/decode/helpers.rs ---- *)
Definition u8 : DM N :=
  b <- read 1 ;; match b with x :: _ => ret x | [] => panic SU8Index end.
Definition uint (k : N) : DM N :=
  b <- read k ;; if lenN b =? k then ret (be b) else panic SGetUint.
Definition u16 : DM N := uint 2.
Definition u32 : DM N := uint 4.
Definition u64 : DM N := uint 8.
Definition string_ : DM bytes :=
  length <- u8 ;; buffer <- read length ;;
  if utf8_valid buffer then ret buffer else fail (EUtf8Error, []).
Definition ipv4_addr : DM N := u32.
Definition ipv6_addr : DM bytes :=
  a <- u16 ;; b <- u16 ;; c <- u16 ;; d <- u16 ;; e <- u16 ;; f <- u16 ;; g <- u16 ;; h <- u16 ;;
  ret (u16b a ++ u16b b ++ u16b c ++ u16b d ++ u16b e ++ u16b f ++ u16b g ++ u16b h).
(* Decoder::bytes / vec: the rest of the window *)
Definition vec : DM bytes := fun s =>
  if cmp_apply OP_bytes (d_off s) (d_len s) then
    DOk (d_rest s) {| d_rest := []; d_off := d_len s; d_len := d_len s;
                      d_cost := d_cost s + (d_len s - d_off s) |}
  else DErr (ENotEnoughBytes, [d_len s; d_off s]) (d_cost s).

(* ---- src/decode/domain_name.rs ---- *)
Definition is_compressed (l : N) : bool := N.land l DEC_COMPRESSION_BITS =? DEC_COMPRESSION_BITS.
Definition ptr_offset (l1 l2 : N) : N := N.lor (N.shiftl (N.land l1 DEC_COMPRESSION_BITS_REV) 8) l2.

(* Decoder::new_main_offset: a fresh decoder over the outermost buffer at [off] *)
Definition jump (main : bytes) (off : N) (cost : N) : dst :=
  {| d_rest := dropN off main; d_off := off; d_len := lenN main; d_cost := cost |}.

Definition domain_name_label (nm : name) (length : N) : DM (name * N) :=
  buffer <- read length ;;
  if utf8_valid buffer then
    _ <- lift (check_label buffer) ;;
    nm' <- lift (append_label nm buffer) ;;
    l <- u8 ;; ret (nm', l)
  else fail (EUtf8Error, []).

Definition NAMEFUEL : nat := 320.

(* the while loop of domain_name_recursion, running on the jumped decoder [ds] *)
Fixpoint rec_loop (fuel : nat) (main : bytes) (nm : name) (recs : list N) (length : N) : DM name :=
  match fuel with
  | O => fun _ => DFuel
  | S f =>
    if length =? 0 then ret nm
    else if is_compressed length then
      buffer <- u8 ;;
      let offset := ptr_offset length buffer in
      if existsb (N.eqb offset) recs then fail (EEndlessRecursion, [offset])
      else
        let recs' := offset :: recs in
        let n := lenN recs' in
        if cmp_apply OP_dec_maxrec n DOMAIN_NAME_MAX_RECURSION then fail (EMaxRecursion, [n])
        else fun s =>
          (l <- u8 ;; rec_loop f main nm recs' l) (jump main offset (d_cost s))
    else
      '(nm', l) <- domain_name_label nm length ;; rec_loop f main nm' recs l
  end.

(* Decoder::domain_name *)
Fixpoint name_loop (fuel : nat) (main : bytes) (nm : name) (length : N) : DM name :=
  match fuel with
  | O => fun _ => DFuel
  | S f =>
    if length =? 0 then ret nm
    else if is_compressed length then
      buffer <- u8 ;;
      let offset := ptr_offset length buffer in
      fun s =>
        match (l <- u8 ;; rec_loop NAMEFUEL main nm [] l) (jump main offset (d_cost s)) with
        | DOk nm' ds => DOk nm' {| d_rest := d_rest s; d_off := d_off s; d_len := d_len s; d_cost := d_cost ds |}
        | DErr e c => DErr e c
        | DPanic x => DPanic x
        | DFuel => DFuel
        end
    else
      '(nm', l) <- domain_name_label nm length ;; name_loop f main nm' l
  end.
Definition domain_name (main : bytes) : DM name :=
  length <- u8 ;; name_loop NAMEFUEL main [] length.

(* ---- enums ---- *)
Definition in_table (t : list (string * N)) (v : N) : bool := existsb (fun p => snd p =? v) t.
Definition enum_table (e : enumid) : list (string * N) :=
  match e with
  | EnAFSDBSubtype => AFSDBSubtype_table
  | EnSSHFPAlgorithm => SSHFPAlgorithm_table
  | EnSSHFPType => SSHFPType_table
  | EnAlgorithmType => AlgorithmType_table
  | EnDigestType => DigestType_table
  end.
Definition code (t : list (string * N)) (er : etag) (rd : DM N) : DM N :=
  v <- rd ;; if in_table t v then ret v else fail (er, [v]).

Definition CLASS_IN : N := 1.

(* ---- src/decode/rr/subtypes.rs ---- *)
Definition rr_address_family_number : DM N := code AddressFamilyNumber_table EEcsAddressNumber u16.
Definition rr_address_sized (size : N) (op : cmp) (e : etag) (x : site) : DM bytes :=
  buffer <- vec ;;
  let n := lenN buffer in
  if cmp_apply op size n then fail (e, [n])
  else if size <? n then panic x            (* octects[0..n] / copy_from_slice *)
  else ret (buffer ++ zeros (N.to_nat (size - n))).
Definition rr_address (fam : N) : DM addr :=
  if fam =? 1 then o <- rr_address_sized IPV4_SIZE OP_ipv4_size EEcsTooBigIpv4Address SCopyIpv4 ;;
                   ret {| a_fam := 1; a_oct := o |}
  else o <- rr_address_sized IPV6_SIZE OP_ipv6_size EEcsTooBigIpv6Address SCopyIpv6 ;;
       ret {| a_fam := 2; a_oct := o |}.

(* ---- generic field reader for the plain record types (src/decode/rr/rfc_*.rs, macros.rs) ---- *)
Fixpoint strings_loop (fuel : nat) (acc : list bytes) : DM (list bytes) :=
  match fuel with
  | O => fun _ => DFuel
  | S f => fin <- is_finished ;;
           if fin then ret (rev acc) else s <- string_ ;; strings_loop f (s :: acc)
  end.
(* fuel for `while !self.is_finished()?` loops: every iteration consumes at least one octet *)
Definition loop_fuel : DM nat := fun s => DOk (S (N.to_nat (d_len s - d_off s))) s.

Definition read_field (main : bytes) (k : fk) : DM (list fv) :=
  match k with
  | FU8 => v <- u8 ;; ret [VN v]
  | FU16 => v <- u16 ;; ret [VN v]
  | FU32 => v <- u32 ;; ret [VN v]
  | FU64 => v <- u64 ;; ret [VN v]
  | FName => n <- domain_name main ;; ret [VName n]
  | FStr => s <- string_ ;; ret [VBytes s]
  | FRest => b <- vec ;; ret [VBytes b]
  | FRestUtf8 => b <- vec ;; if utf8_valid b then ret [VBytes b] else fail (EUtf8Error, [])
  | FIp4 => v <- ipv4_addr ;; ret [VN v]
  | FIp6 => b <- ipv6_addr ;; ret [VBytes b]
  | FEnum8 e er => v <- code (enum_table e) er u8 ;; ret [VN v]
  | FEnum16 e er => v <- code (enum_table e) er u16 ;; ret [VN v]
  | FStrPsdn => s <- string_ ;; s' <- lift (psdn_try_from s) ;; ret [VBytes s']
  | FStrIsdn => s <- string_ ;; s' <- lift (isdn_try_from s) ;; ret [VBytes s']
  | FOptStrSa => fin <- is_finished ;;
                 if fin then ret [VOptStr None]
                 else s <- string_ ;; s' <- lift (sa_try_from s) ;; ret [VOptStr (Some s')]
  | FStrGpos => s <- string_ ;;
                let n := lenN s in
                if (1 <=? n) && (n <=? 256) then ret [VBytes s] else fail (EGPOS, [])
  | FTag => s <- string_ ;; t <- lift (tag_try_from s) ;; ret [VBytes t]
  | FStrs1 => fuel <- loop_fuel ;; l <- strings_loop fuel [] ;;
              match l with [] => fail (ETXTEmpty, []) | _ => ret [VStrs l] end
  | FDnskeyFlags => v <- u16 ;;
                    if negb (N.land v DNSKEY_ZERO_MASK =? 0) then fail (EDNSKEYZeroFlags, [v]) else ret [VN v]
  | FConst8 c er => v <- u8 ;; if negb (v =? c) then fail (er, [v]) else ret []
  | FUnknown => fun _ => DFuel
  end.

Fixpoint read_fields (main : bytes) (f : list (string * fk)) : DM (list fv) :=
  match f with
  | [] => ret []
  | (_, k) :: r => v <- read_field main k ;; vs <- read_fields main r ;; ret (v ++ vs)
  end.

(* Header::get_class *)
Definition get_class (c : N) : DM N :=
  if in_table Class_table c then ret c else fail (EClass, [c]).

Definition class_rule (ck : classrule) (hclass : N) : DM N :=
  match ck with
  | CKAny => get_class hclass
  | CKIn er => c <- get_class hclass ;; if c =? CLASS_IN then ret c else fail (er, [c])
  | CKNone => ret 0
  end.

(* ---- src/decode/rr/edns/*.rs ---- *)
Definition rr_opt_ttl (ttl : N) : DM (N * N * bool) :=
  let ext := N.land (N.shiftr ttl (fst DEC_OPT_extend_rcode)) (snd DEC_OPT_extend_rcode) in
  let ver := N.land (N.shiftr ttl (fst DEC_OPT_version)) (snd DEC_OPT_version) in
  let b1 := N.land (N.shiftr ttl (fst DEC_OPT_flags_hi)) (snd DEC_OPT_flags_hi) in
  if b1 =? 0 then
    let b0 := N.land ttl DEC_OPT_flags_lo in
    if negb (b0 =? 0) then fail (EOPTZero, [b0]) else ret (ext, ver, false)
  else if b1 =? EDNS_DNSSEC_MASK then
    let b0 := N.land ttl DEC_OPT_flags_lo in
    if negb (b0 =? 0) then fail (EOPTZero, [b0]) else ret (ext, ver, true)
  else fail (EOPTZero, [b1]).

Definition rr_edns_ecs : DM ecs :=
  fam <- rr_address_family_number ;;
  src <- u8 ;; scope <- u8 ;;
  a <- rr_address fam ;;
  lift (ecs_new src scope a).

Definition cookie_len_ok (n : N) : bool :=
  (MINIMUM_COOKIE_LENGTH <=? n) &&
  (if COOKIE_DEC_RANGE_INCL then n <=? MAXIMUM_COOKIE_LENGTH else n <? MAXIMUM_COOKIE_LENGTH).
Definition rr_edns_cookie : DM cookie :=
  v <- vec ;;
  let n := lenN v in
  if CLIENT_COOKIE_LENGTH =? n then
    if n <? 8 then panic SCookieClient else lift (cookie_new (takeN 8 v) None)
  else if cookie_len_ok n then
    if n <? 8 then panic SCookieClient else lift (cookie_new (takeN 8 v) (Some (dropN 8 v)))
  else fail (ECookieLength, [n]).

Definition first_nonzero (l : bytes) : option N := find (fun b => negb (b =? 0)) l.
Definition rr_edns_padding : DM N :=
  p <- vec ;;
  let n := lenN p in
  if POW16 <=? n then fail (EPaddingLength, [n])
  else match first_nonzero p with Some b => fail (EPaddingZero, [b]) | None => ret n end.

Definition OPT_ECS : N := 8.
Definition OPT_COOKIE : N := 10.
Definition OPT_PADDING : N := 12.

Definition rr_edns_option : DM ednsopt :=
  c <- code EDNSOptionCode_table EEDNSOptionCode u16 ;;
  len <- u16 ;;
  with_sub len
    (if c =? OPT_ECS then e <- rr_edns_ecs ;; ret (OEcs e)
     else if c =? OPT_COOKIE then k <- rr_edns_cookie ;; ret (OCookie k)
     else p <- rr_edns_padding ;; ret (OPadding p)).

Fixpoint many {A} (fuel : nat) (item : DM A) (acc : list A) : DM (list A) :=
  match fuel with
  | O => fun _ => DFuel
  | S f => fin <- is_finished ;;
           if fin then ret (rev acc) else x <- item ;; many f item (x :: acc)
  end.

Definition rr_opt (owner : name) (hclass ttl : N) : DM rdata :=
  match owner with
  | _ :: _ => fail (EOPTDomainName, [])
  | [] =>
    '(ext, ver, dnssec) <- rr_opt_ttl ttl ;;
    fuel <- loop_fuel ;;
    opts <- many fuel rr_edns_option [] ;;
    ret (ROpt hclass ext ver dnssec opts)
  end.

(* ---- src/decode/rr/rfc_3123.rs ---- *)
Definition rr_apl_apitem : DM apitem :=
  fam <- rr_address_family_number ;;
  prefix <- u8 ;;
  buffer <- u8 ;;
  let negation := N.land buffer APL_NEGATION_MASK =? APL_NEGATION_MASK in
  let address_length := N.land buffer ADDRESS_LENGTH_MASK in
  a <- with_sub address_length (rr_address fam) ;;
  lift (apitem_new prefix negation a).

Definition rr_apl (hclass : N) : DM rdata :=
  _ <- class_rule (CKIn EAPLClass) hclass ;;
  fuel <- loop_fuel ;;
  items <- many fuel rr_apl_apitem [] ;;
  ret (RApl items).

(* ---- src/decode/rr/draft_ietf_dnsop_svcb_https.rs ---- *)
Definition rr_service_parameter (key : N) : DM svcparam :=
  if key =? 0 then fuel <- loop_fuel ;; l <- many fuel u16 [] ;; ret (PMandatory l)
  else if key =? 1 then fuel <- loop_fuel ;; l <- many fuel string_ [] ;; ret (PAlpn l)
  else if key =? 2 then ret PNoDefaultAlpn
  else if key =? 3 then p <- u16 ;; ret (PPort p)
  else if key =? 4 then fuel <- loop_fuel ;; l <- many fuel ipv4_addr [] ;; ret (PIpv4Hint l)
  else if key =? 5 then
    length <- u16 ;; cl <- vec ;;
    if negb (lenN cl =? length) then fail (EECHLengthMismatch, [length; lenN cl]) else ret (PEch cl)
  else if key =? 6 then fuel <- loop_fuel ;; l <- many fuel ipv6_addr [] ;; ret (PIpv6Hint l)
  else if key =? 65535 then ret PKey65535
  else d <- vec ;; ret (PPrivate key d).

Fixpoint svc_params (fuel : nat) (acc : list svcparam) : DM (list svcparam) :=
  match fuel with
  | O => fun _ => DFuel
  | S f =>
    fin <- is_finished ;;
    if fin then ret acc
    else
      key <- u16 ;; len <- u16 ;;
      p <- with_sub len (rr_service_parameter key) ;;
      let '(acc', inserted) := set_insert p acc in
      if inserted then svc_params f acc' else fail (ESVCBDuplicateKey, [key])
  end.

Definition rr_service_binding (main : bytes) (hclass : N) : DM rdata :=
  _ <- class_rule (CKIn ESVCBClass) hclass ;;
  priority <- u16 ;;
  target <- domain_name main ;;
  if negb (priority =? 0) then
    fuel <- loop_fuel ;; ps <- svc_params fuel [] ;; ret (RSvcb priority target ps)
  else ret (RSvcb priority target []).

(* ---- src/decode/rr/enums.rs ---- *)
Fixpoint lookup {A} (k : N) (t : list (N * A)) : option A :=
  match t with
  | [] => None
  | (k', v) :: r => if k =? k' then Some v else lookup k r
  end.

Definition TYPE_OPT : N := 41.

Definition rr_type : DM N := code Type_table EType u16.
Definition rr_class : DM N := code Class_table EClass u16.

Definition rr_body (main : bytes) (type_ : N) (owner : name) (hclass ttl : N) : DM rr :=
  match lookup type_ dec_dispatch with
  | Some (RdFields ck f) =>
    c <- class_rule ck hclass ;;
    vs <- read_fields main f ;;
    ret {| r_type := type_; r_name := owner; r_class := c; r_ttl := ttl; r_data := RFields vs |}
  | Some (RdSpecial SpOpt) =>
    d <- rr_opt owner hclass ttl ;;
    ret {| r_type := type_; r_name := []; r_class := 0; r_ttl := 0; r_data := d |}
  | Some (RdSpecial SpApl) =>
    d <- rr_apl hclass ;;
    ret {| r_type := type_; r_name := owner; r_class := CLASS_IN; r_ttl := ttl; r_data := d |}
  | Some (RdSpecial _) =>
    d <- rr_service_binding main hclass ;;
    ret {| r_type := type_; r_name := owner; r_class := CLASS_IN; r_ttl := ttl; r_data := d |}
  | None => fail (ENotYetImplemented, [type_])
  end.

Definition rr_ (main : bytes) : DM rr :=
  owner <- domain_name main ;;
  type_ <- rr_type ;;
  hclass <- u16 ;;
  ttl <- u32 ;;
  rd_length <- u16 ;;
  with_sub rd_length (rr_body main type_ owner hclass ttl).

(* ---- src/decode/question.rs ---- *)
Definition rd_q_type : DM N := code QType_table EQType u16.
Definition rd_q_class : DM N := code QClass_table EQClass u16.
Definition question_ (main : bytes) : DM question :=
  n <- domain_name main ;; t <- rd_q_type ;; c <- rd_q_class ;;
  ret {| q_name := n; q_type := t; q_class := c |}.

(* ---- src/decode/dns.rs ---- *)
Definition fbit (spec : N * N * N) (b0 b1 : N) : N :=
  let '(oct, mask, shift) := spec in
  N.shiftr (N.land (if oct =? 0 then b0 else b1) mask) shift.

Definition flags_ : DM flags :=
  b0 <- u8 ;;
  let opcode := fbit DEC_FLAG_opcode b0 0 in
  if negb (in_table Opcode_table opcode) then fail (EOpcode, [opcode])
  else
    b1 <- u8 ;;
    let z := fbit DEC_FLAG_z b0 b1 in
    if negb (z =? 0) then fail (EZNotZeroes, [z])
    else
      let rcode := fbit DEC_FLAG_rcode b0 b1 in
      if negb (in_table RCode_table rcode) then fail (ERCode, [rcode])
      else ret {| f_qr := negb (fbit DEC_FLAG_qr b0 b1 =? 0); f_opcode := opcode;
                  f_aa := negb (fbit DEC_FLAG_aa b0 b1 =? 0); f_tc := negb (fbit DEC_FLAG_tc b0 b1 =? 0);
                  f_rd := negb (fbit DEC_FLAG_rd b0 b1 =? 0); f_ra := negb (fbit DEC_FLAG_ra b0 b1 =? 0);
                  f_ad := negb (fbit DEC_FLAG_ad b0 b1 =? 0); f_cd := negb (fbit DEC_FLAG_cd b0 b1 =? 0);
                  f_rcode := rcode |}.

Fixpoint repeat_dm {A} (n : nat) (m : DM A) : DM (list A) :=
  match n with
  | O => ret []
  | S n' => x <- m ;; r <- repeat_dm n' m ;; ret (x :: r)
  end.

Definition dns_ (main : bytes) : DM dns := fun s =>
  if negb (d_off s =? 0) then DErr (EOffset, [d_off s]) (d_cost s)
  else
    let bytes_len := d_len s in
    if cmp_apply OP_dns_min bytes_len DNS_MIN_LENGTH then DErr (ENotEnoughBytes, [bytes_len; DNS_MIN_LENGTH]) (d_cost s)
    else if cmp_apply OP_dns_max bytes_len MAXIMUM_DNS_PACKET_SIZE then DErr (EDnsPacketTooBig, [bytes_len]) (d_cost s)
    else
      (id <- u16 ;;
       fl <- flags_ ;;
       qc <- u16 ;; ac <- u16 ;; nc <- u16 ;; rc <- u16 ;;
       qd <- repeat_dm (N.to_nat qc) (question_ main) ;;
       an <- repeat_dm (N.to_nat ac) (rr_ main) ;;
       ns <- repeat_dm (N.to_nat nc) (rr_ main) ;;
       ar <- repeat_dm (N.to_nat rc) (rr_ main) ;;
       fin <- is_finished ;;
       if fin then ret {| m_id := id; m_flags := fl; m_qd := qd; m_an := an; m_ns := ns; m_ar := ar |}
       else fun s' => DErr (ERemainingBytes, [d_off s']) (d_cost s')) s.

(* ---- public entry points (impl_decode!): Decoder::main(bytes) then the method ---- *)
Definition run {A} (m : bytes -> DM A) (b : bytes) : dres A := m b (mk_main b).
Definition dec_Dns := run dns_.
Definition dec_Flags := run (fun _ => flags_).
Definition dec_Question := run question_.
Definition dec_RR := run rr_.
Definition dec_DomainName := run domain_name.
Definition dec_Type := run (fun _ => rr_type).
Definition dec_Class := run (fun _ => rr_class).
Definition dec_QType := run (fun _ => rd_q_type).
Definition dec_QClass := run (fun _ => rd_q_class).

(* RR accessors (src/rr/enums.rs get_ttl / get_class / to_type) *)
Definition rr_get_ttl (r : rr) : option N := if r_type r =? TYPE_OPT then None else Some (r_ttl r).
Definition rr_get_class (r : rr) : option N := if r_type r =? TYPE_OPT then None else Some (r_class r).
