(* Extraction of the executable model to OCaml.  ExtrOcamlBasic only: bool, option, unit, list,
   prod, sumbool, sumor map to OCaml's own types; N, positive, nat, string stay extracted inductives. *)
Require Import ExtrOcamlBasic.
From DNS Require Import Model.Dec Model.Enc Model.Values Spec.Wire.
Extraction Language OCaml.
Extraction "model.ml"
  dec_Dns dec_Flags dec_Question dec_RR dec_DomainName dec_Type dec_Class dec_QType dec_QClass
  enc_Dns enc_Flags enc_Question enc_RR enc_DomainName enc_code
  spec_Dns spec_Flags spec_Question spec_RR spec_DomainName
  rr_get_ttl rr_get_class struct_encode_types
  Opcode_table RCode_table Class_table Type_table QType_table QClass_table EDNSOptionCode_table
  AlgorithmType_table DigestType_table SSHFPAlgorithm_table SSHFPType_table AFSDBSubtype_table
  AddressFamilyNumber_table
  Opcode_width RCode_width Class_width Type_width QType_width QClass_width EDNSOptionCode_width
  AlgorithmType_width DigestType_width SSHFPAlgorithm_width SSHFPType_width AFSDBSubtype_width
  AddressFamilyNumber_width
  label_fold name_eqb hash_feed name_len name_from_str name_display append_label check_label
  ecs_new ecs_set_src ecs_set_scope ecs_set_addr apitem_new apitem_set_prefix apitem_set_addr
  set_insert cookie_new cookie_set_server tag_try_from psdn_try_from isdn_try_from sa_try_from nonempty_try_from.
