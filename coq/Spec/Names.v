(* Reference semantics of a (possibly compressed) domain name inside a message (RFC 1035 4.1.4),
   written independently of the decoder model: a *segment* is the run of literal labels from an
   offset up to the next terminator or pointer; expansion iterates segments through at most [hops]
   pointers.  No visited set, no window, no cursor. *)
From DNS Require Export Base.Bytes.
From DNS Require Import Model.Fmt.
Local Open Scope N_scope.

(* up to 128 labels fit into any accepted name; SEGFUEL bounds the labels of one segment *)
Definition SEGFUEL : nat := 130.

Fixpoint seg (fuel : nat) (buf : bytes) (o : N) : option (list label * option N * N) :=
  match fuel with
  | O => None
  | S f =>
    match nthN o buf with
    | None => None
    | Some l =>
      if l =? 0 then Some ([], None, o + 1)
      else if 192 <=? l then
        match nthN (o + 1) buf with
        | Some l2 => Some ([], Some ((l - 192) * 256 + l2), o + 2)
        | None => None
        end
      else if l <? 64 then
        let lab := takeN l (dropN (o + 1) buf) in
        if lenN lab =? l then
          match seg f buf (o + 1 + l) with
          | Some (ls, t, e) => Some (lab :: ls, t, e)
          | None => None
          end
        else None
      else None
    end
  end.

(* result of an expansion: the labels, the number of pointers followed, the (pointer position,
   target) pairs in the order followed, and the offset just behind the name's own octets *)
Record expansion := { x_name : name; x_hops : nat; x_ptrs : list (N * N); x_end : N }.

Fixpoint expand (hops : nat) (buf : bytes) (o : N) : option expansion :=
  match seg SEGFUEL buf o with
  | None => None
  | Some (ls, None, e) => Some {| x_name := ls; x_hops := 0; x_ptrs := []; x_end := e |}
  | Some (ls, Some t, e) =>
    match hops with
    | O => None
    | S h =>
      match expand h buf t with
      | Some x => Some {| x_name := ls ++ x_name x; x_hops := S (x_hops x);
                          x_ptrs := (e - 2, t) :: x_ptrs x; x_end := e |}
      | None => None
      end
    end
  end.

(* the RFC/lib limits of an expanded name *)
Fixpoint labels_total (n : name) : N :=
  match n with [] => 0 | l :: r => lenN l + 1 + labels_total r end.
Definition name_wire_len (n : name) : N := labels_total n + 1.

Definition MAXHOPS : nat := 17.   (* the first pointer + DOMAIN_NAME_MAX_RECURSION more *)
