(* Legal wire renderings of a message value (RFC 1035, 2535, 3123, 6891, 7830, 7871, 7873, 9460).

   A DECLARATIVE specification of "the octet string b is a legal wire rendering of the message value
   m".  It is written from the RFCs, as inductive relations, and refers neither to the library's
   encoder model (Model/Enc.v) nor to any decoder.  Where the RFCs leave a choice to the sender, the
   relation allows every choice:
     - domain names: every label may be written in any ASCII case (RFC 1035 2.3.3, RFC 4343), and the
       name may be cut off at any label boundary by a pointer to an EARLIER occurrence of the remaining
       labels (RFC 1035 4.1.4), as long as the pointer chain stays within 16 hops;
     - address prefixes (RFC 3123 4, RFC 7871 6): trailing zero octets may be sent or left out;
     - SvcParams (RFC 9460 2.2): any order of the parameters of the set;
     - variable-length fields may be empty wherever the value is.
   Renderings are relative to the octets [pre] that precede them in the message, because pointers
   refer to absolute message offsets.  The RDATA field formats are those of the table [Spec.Wire.fmt];
   the value types are those of Model/Values.v (plain data). *)
From Coq Require Import Permutation.
From DNS Require Import Base.Bytes Model.Fmt Model.Values Spec.Names Spec.Wire.
Local Open Scope N_scope.

(* ---- integers in network byte order (RFC 1035 2.3.2), for values within their width ---- *)
Definition be16 (v : N) : bytes := [v / 256; v mod 256].
Definition be32 (v : N) : bytes := [v / 16777216; (v / 65536) mod 256; (v / 256) mod 256; v mod 256].
Definition be64 (v : N) : bytes := be32 (v / 4294967296) ++ be32 (v mod 4294967296).

(* ---- ASCII case (RFC 1035 2.3.3): A..Z = 65..90 and a..z = 97..122 are interchangeable ---- *)
Definition ci_octet (a b : N) : Prop :=
  a = b \/ (65 <= a /\ a <= 90 /\ b = a + 32) \/ (65 <= b /\ b <= 90 /\ a = b + 32).
Definition ci_label (l l' : label) : Prop := Forall2 ci_octet l l'.
Definition ci_name (n n' : name) : Prop := Forall2 ci_label n n'.

(* ---- domain names (RFC 1035 3.1, 4.1.4) ----
   [renders_name pre n w]: w is a rendering of n at message offset [lenN pre], behind the octets pre. *)
Inductive renders_name : bytes -> name -> bytes -> Prop :=
| RN_root pre :                                   (* the root label *)
    renders_name pre [] [0]
| RN_pointer pre n q x :                          (* 11xxxxxx xxxxxxxx: the rest of the name is at offset q *)
    q < lenN pre -> q <= 16383 ->                 (* backwards, 14 bits *)
    expand 15 pre q = Some x -> (x_hops x <= 15)%nat ->   (* what is found there, through <= 15 more pointers *)
    ci_name n (x_name x) ->
    renders_name pre n [192 + q / 256; q mod 256]
| RN_label pre l l' r w :                         (* length octet, the label in any case, the remaining labels *)
    ci_label l l' ->
    renders_name (pre ++ [lenN l'] ++ l') r w ->
    renders_name pre (l :: r) ([lenN l'] ++ l' ++ w).

(* <character-string> (RFC 1035 3.3): one length octet, then the octets *)
Definition cstr (s : bytes) : bytes := [lenN s] ++ s.

(* ---- RDATA fields, by field kind of the format table Spec.Wire.fmt ---- *)
Inductive renders_field (pre : bytes) : sk -> list fv -> bytes -> Prop :=
| RF_u8 v : v < 256 -> renders_field pre KU8 [VN v] [v]
| RF_u16 v : v < 65536 -> renders_field pre KU16 [VN v] (be16 v)
| RF_u32 v : v < 4294967296 -> renders_field pre KU32 [VN v] (be32 v)
| RF_u64 v : v < 18446744073709551616 -> renders_field pre KU64 [VN v] (be64 v)
| RF_name n w : renders_name pre n w -> renders_field pre KName [VName n] w
| RF_str s : renders_field pre KStr [VBytes s] (cstr s)
| RF_rest x : renders_field pre KRest [VBytes x] x
| RF_rest_utf8 x : renders_field pre KRestUtf8 [VBytes x] x
| RF_ip6 x : lenN x = 16 -> renders_field pre KIp6 [VBytes x] x
| RF_code8 reg v : v < 256 -> renders_field pre (KCode8 reg) [VN v] [v]
| RF_code16 reg v : v < 65536 -> renders_field pre (KCode16 reg) [VN v] (be16 v)
| RF_digits s : renders_field pre KDigits [VBytes s] (cstr s)
| RF_opthex_none : renders_field pre KOptHex [VOptStr None] []         (* ISDN without subaddress *)
| RF_opthex_some s : renders_field pre KOptHex [VOptStr (Some s)] (cstr s)
| RF_gpos s : renders_field pre KGpos [VBytes s] (cstr s)
| RF_tag s s' : ci_label s s' ->                                       (* RFC 8659 4.1: tags match case-insensitively; *)
    renders_field pre KTag [VBytes s] (cstr s')                        (* the value holds the lower-case form *)
| RF_strs l : renders_field pre KStrs1 [VStrs l] (concat (map cstr l)) (* TXT *)
| RF_dnskey_flags v : v < 65536 -> renders_field pre KDnskeyFlags [VN v] (be16 v)
| RF_proto3 : renders_field pre KProto3 [] [3].                        (* RFC 4034 2.1.2 *)

Inductive renders_fields : bytes -> list sk -> list fv -> bytes -> Prop :=
| RFs_nil pre : renders_fields pre [] [] []
| RFs_cons pre k ks v vs w ws :
    renders_field pre k v w -> renders_fields (pre ++ w) ks vs ws ->
    renders_fields pre (k :: ks) (v ++ vs) (w ++ ws).

(* ---- address prefixes (RFC 3123 4 AFDPART, RFC 7871 6 ADDRESS) ----
   the first k octets of the address, for any k that leaves out zero octets only: the minimal form,
   the full address, and everything in between (k = 0 for the zero address) *)
Definition all_zero (l : bytes) : Prop := Forall (fun o => o = 0) l.
Inductive renders_addr (a : addr) : bytes -> Prop :=
| RA_cut k : k <= lenN (a_oct a) -> all_zero (dropN k (a_oct a)) -> renders_addr a (takeN k (a_oct a)).

(* ---- EDNS options (RFC 6891 6.1.2): OPTION-CODE, OPTION-LENGTH, OPTION-DATA ---- *)
Definition cookie_data (c : cookie) : bytes :=
  c_client c ++ match c_server c with Some s => s | None => [] end.
Inductive renders_option : ednsopt -> bytes -> Prop :=
| RO_ecs e wa : renders_addr (e_addr e) wa ->            (* RFC 7871 6: FAMILY, SOURCE, SCOPE, ADDRESS *)
    renders_option (OEcs e)
      (be16 8 ++ be16 (4 + lenN wa) ++ be16 (a_fam (e_addr e)) ++ [e_src e; e_scope e] ++ wa)
| RO_cookie c :                                          (* RFC 7873 4: client cookie (8), server cookie *)
    renders_option (OCookie c) (be16 10 ++ be16 (lenN (cookie_data c)) ++ cookie_data c)
| RO_padding n z : lenN z = n -> all_zero z ->           (* RFC 7830 3: n zero octets *)
    renders_option (OPadding n) (be16 12 ++ be16 n ++ z).

(* ---- APL items (RFC 3123 4): ADDRESSFAMILY, PREFIX, N|AFDLENGTH, AFDPART ---- *)
Inductive renders_apitem : apitem -> bytes -> Prop :=
| RI_item i wa : renders_addr (i_addr i) wa ->
    renders_apitem i (be16 (a_fam (i_addr i)) ++ [i_prefix i; (if i_neg i then 128 else 0) + lenN wa] ++ wa).

(* ---- SvcParams (RFC 9460 2.2, 7, 14.3.2; draft-ietf-tls-svcb-ech for key 5) ---- *)
Definition param_value (p : svcparam) : bytes :=
  match p with
  | PMandatory keys => concat (map be16 keys)      (* 8: the keys, 16 bits each *)
  | PAlpn ids => concat (map cstr ids)             (* 7.1: length-prefixed protocol ids *)
  | PNoDefaultAlpn => []                           (* 7.1: empty *)
  | PPort p => be16 p                              (* 7.2 *)
  | PIpv4Hint h => concat (map be32 h)             (* 7.3: 4 octets per address *)
  | PEch x => be16 (lenN x) ++ x                   (* ECHConfigList: 16-bit length, then the list *)
  | PIpv6Hint h => concat h                        (* 7.3: 16 octets per address *)
  | PPrivate _ d => d                              (* unregistered keys: opaque *)
  | PKey65535 => []                                (* 14.3.2: reserved "invalid key", empty here *)
  end.
(* SvcParamKey, SvcParamValue length, SvcParamValue *)
Definition param_wire (p : svcparam) : bytes :=
  be16 (param_key p) ++ be16 (lenN (param_value p)) ++ param_value p.

(* ---- RDATA by record type ---- *)
Inductive renders_rdata (pre : bytes) : N -> rdata -> bytes -> Prop :=
| RD_fields t ks vs w :                                   (* the 43 types of the table *)
    fmt t = Some ks -> renders_fields pre ks vs w -> renders_rdata pre t (RFields vs) w
| RD_opt payload ext ver dnssec opts ws :                 (* RFC 6891 6.1.2: the options in order *)
    Forall2 renders_option opts ws ->
    renders_rdata pre 41 (ROpt payload ext ver dnssec opts) (concat ws)
| RD_apl items ws :                                       (* RFC 3123 4: the items in order *)
    Forall2 renders_apitem items ws -> renders_rdata pre 42 (RApl items) (concat ws)
| RD_svcb_alias t target wt :                             (* RFC 9460 2.4.2 AliasMode: priority 0, no parameters *)
    t = 64 \/ t = 65 -> renders_name (pre ++ be16 0) target wt ->
    renders_rdata pre t (RSvcb 0 target []) (be16 0 ++ wt)
| RD_svcb_service t prio target ps ps' wt :               (* RFC 9460 2.2: priority, target, the set in any order *)
    t = 64 \/ t = 65 -> prio <> 0 -> renders_name (pre ++ be16 prio) target wt ->
    Permutation ps ps' ->
    renders_rdata pre t (RSvcb prio target ps) (be16 prio ++ wt ++ concat (map param_wire ps')).

(* ---- resource records (RFC 1035 4.1.3): NAME TYPE CLASS TTL RDLENGTH RDATA ----
   For OPT (RFC 6891 6.1.2, 6.1.3) CLASS carries the payload size and TTL carries
   EXTENDED-RCODE(8) VERSION(8) DO(1) Z(15) *)
Definition wire_class (r : rr) : N :=
  match r_data r with ROpt payload _ _ _ _ => payload | _ => r_class r end.
Definition wire_ttl (r : rr) : N :=
  match r_data r with
  | ROpt _ ext ver dnssec _ => ext * 16777216 + ver * 65536 + (if dnssec then 32768 else 0)
  | _ => r_ttl r
  end.
Definition rr_head (r : rr) (rdlen : N) : bytes :=
  be16 (r_type r) ++ be16 (wire_class r) ++ be32 (wire_ttl r) ++ be16 rdlen.
Inductive renders_rr (pre : bytes) : rr -> bytes -> Prop :=
| RR_record r wn wd :
    renders_name pre (r_name r) wn ->
    renders_rdata (pre ++ wn ++ rr_head r (lenN wd)) (r_type r) (r_data r) wd ->
    renders_rr pre r (wn ++ rr_head r (lenN wd) ++ wd).

(* ---- questions (RFC 1035 4.1.2): QNAME QTYPE QCLASS ---- *)
Inductive renders_question (pre : bytes) : Values.question -> bytes -> Prop :=
| RQ_question q wn : renders_name pre (q_name q) wn ->
    renders_question pre q (wn ++ be16 (q_type q) ++ be16 (q_class q)).

(* elements one after the other, each behind everything before it *)
Inductive renders_seq {A} (R : bytes -> A -> bytes -> Prop) : bytes -> list A -> bytes -> Prop :=
| RS_nil pre : renders_seq R pre [] []
| RS_cons pre x xs w ws :
    R pre x w -> renders_seq R (pre ++ w) xs ws -> renders_seq R pre (x :: xs) (w ++ ws).

(* ---- header (RFC 1035 4.1.1, RFC 2535 6.1) ----
   bit 15 QR, 14..11 OPCODE, 10 AA, 9 TC, 8 RD, 7 RA, 6 Z (zero), 5 AD, 4 CD, 3..0 RCODE *)
Definition bit (b : bool) (weight : N) : N := if b then weight else 0.
Definition flag_word (f : flags) : N :=
  bit (f_qr f) 32768 + f_opcode f * 2048 + bit (f_aa f) 1024 + bit (f_tc f) 512 + bit (f_rd f) 256 +
  bit (f_ra f) 128 + bit (f_ad f) 32 + bit (f_cd f) 16 + f_rcode f.
Definition header (m : dns) : bytes :=
  be16 (m_id m) ++ be16 (flag_word (m_flags m)) ++
  be16 (lenN (m_qd m)) ++ be16 (lenN (m_an m)) ++ be16 (lenN (m_ns m)) ++ be16 (lenN (m_ar m)).

(* ---- the message (RFC 1035 4.1): header, question, answer, authority, additional ---- *)
Inductive renders_dns (m : dns) : bytes -> Prop :=
| RM_message wq wa wn wr :
    renders_seq renders_question (header m) (m_qd m) wq ->
    renders_seq renders_rr (header m ++ wq) (m_an m) wa ->
    renders_seq renders_rr (header m ++ wq ++ wa) (m_ns m) wn ->
    renders_seq renders_rr (header m ++ wq ++ wa ++ wn) (m_ar m) wr ->
    renders_dns m (header m ++ wq ++ wa ++ wn ++ wr).
