(* Reference decoder for the DNS wire grammar (RFC 1035, 1183, 1706, 1712, 1876, 2163, 2230, 2782, 3123,
   3596, 4034, 4255, 6672, 6742, 6891, 7043, 7553, 7830, 7871, 7873, 8659, 9460), restricted by the
   library's documented rejection rules (UTF-8 text, IN-only types, non-empty TXT, supported code points).

   Written independently of Model/Dec.v and in a different style: no cursor state, no window slices,
   no monad over a decoder object.  Every parser is a pure function
        msg -> start -> limit -> option (value * next)
   over ABSOLUTE offsets into the whole message; a message is framed from its counts and length
   fields; RDATA is interpreted from the hand-written table [fmt] below (the part to audit against the
   RFCs); names are expanded with Spec.Names.expand; header bits are read with N.testbit; prefix
   validity is arithmetic (mod 2^k), not mask based.  The value types of Model/Values.v are reused as
   plain data. *)
From Coq Require Import String.
From DNS Require Import Base.Bytes Base.Utf8 Model.Fmt Model.Values Spec.Names Spec.Iana.
Local Open Scope N_scope.

Definition P (A : Type) := bytes -> N -> N -> option (A * N).

Definition codes (t : list (string * N)) : list N := map snd t.
Definition mem (x : N) (l : list N) : bool := existsb (N.eqb x) l.

(* n octets at absolute offset s, inside the limit e *)
Definition octets (n : N) : P bytes := fun b s e =>
  if s + n <=? e then
    let x := takeN n (dropN s b) in
    if lenN x =? n then Some (x, s + n) else None
  else None.
Definition num (n : N) : P N := fun b s e =>
  match octets n b s e with Some (x, p) => Some (be x, p) | None => None end.

Definition pbind {A B} (p : P A) (f : A -> P B) : P B := fun b s e =>
  match p b s e with Some (a, s') => f a b s' e | None => None end.
Definition pret {A} (a : A) : P A := fun _ s _ => Some (a, s).
Definition pnone {A} : P A := fun _ _ _ => None.
Notation "x <~ p ;; q" := (pbind p (fun x => q)) (at level 61, p at next level, right associativity).

(* run [p] on the sub-range [s, s+n) which must lie inside the limit and be consumed exactly *)
Definition within {A} (n : N) (p : P A) : P A := fun b s e =>
  if s + n <=? e then
    match p b s (s + n) with
    | Some (a, s') => if s' =? s + n then Some (a, s') else None
    | None => None
    end
  else None.

(* <character-string>: length octet, that many octets, UTF-8 (library rule) *)
Definition charstr : P bytes :=
  n <~ num 1 ;; x <~ octets n ;; if utf8_valid x then pret x else pnone.

Definition rest : P bytes := fun b s e => if s <=? e then octets (e - s) b s e else None.

(* names: expansion through at most 17 pointers; the name's own octets must end inside the limit *)
Definition label_legal (l : label) : bool := (1 <=? lenN l) && (lenN l <=? 63) && utf8_valid l.
Definition name_legalb (n : name) : bool := forallb label_legal n && (name_wire_len n <=? 255).
Definition pname : P name := fun b s e =>
  match expand 17 b s with
  | Some x => if (x_end x <=? e) && name_legalb (x_name x) then Some (x_name x, x_end x) else None
  | None => None
  end.

(* repeat [p] until the limit is reached exactly *)
Fixpoint until_end {A} (fuel : nat) (p : P A) : P (list A) := fun b s e =>
  match fuel with
  | O => None
  | S f =>
    if s =? e then Some ([], s)
    else match p b s e with
         | Some (a, s') => match until_end f p b s' e with
                           | Some (l, s'') => Some (a :: l, s'')
                           | None => None
                           end
         | None => None
         end
  end.
Definition many_to_end {A} (p : P A) : P (list A) := fun b s e =>
  until_end (S (N.to_nat (e - s))) p b s e.

(* ---------------------------------------------------------------------------------------------
   RDATA formats of the 43 plain types: the table to audit against the RFCs *)
Inductive sk :=
| KU8 | KU16 | KU32 | KU64          (* unsigned integers, network byte order *)
| KName                             (* <domain-name> *)
| KStr                              (* <character-string> *)
| KRest                             (* opaque remainder of the RDATA *)
| KRestUtf8                         (* remainder, UTF-8 (URI target) *)
| KIp6                              (* 16 octets *)
| KCode8 (reg : list N) | KCode16 (reg : list N)   (* registered code point *)
| KDigits                           (* <character-string> of ASCII digits (X25, ISDN address) *)
| KOptHex                           (* optional <character-string> of hex digits (ISDN subaddress) *)
| KGpos                             (* non-empty <character-string> (GPOS) *)
| KTag                              (* CAA tag: non-empty, ASCII letters and digits, reported in lower case *)
| KStrs1                            (* one or more <character-string>s (TXT) *)
| KDnskeyFlags                      (* 16 bits, only bit 7 (zone key) and bit 15 (SEP) may be set *)
| KProto3.                          (* DNSKEY protocol octet, must be 3 *)

Definition fmt (t : N) : option (list sk) :=
  if t =? 1 then Some [KU32]                                            (* A      RFC 1035 3.4.1 *)
  else if mem t [2; 3; 4; 5; 7; 8; 9; 12; 39] then Some [KName]         (* NS MD MF CNAME MB MG MR PTR DNAME *)
  else if t =? 6 then Some [KName; KName; KU32; KU32; KU32; KU32; KU32] (* SOA    3.3.13 *)
  else if mem t [10; 22; 31; 32] then Some [KRest]                      (* NULL NSAP EID NIMLOC *)
  else if t =? 11 then Some [KU32; KU8; KRest]                          (* WKS    3.4.2 *)
  else if t =? 13 then Some [KStr; KStr]                                (* HINFO *)
  else if mem t [14; 17] then Some [KName; KName]                       (* MINFO, RP *)
  else if mem t [15; 21; 36; 107] then Some [KU16; KName]               (* MX RT KX LP *)
  else if t =? 16 then Some [KStrs1]                                    (* TXT *)
  else if t =? 18 then Some [KCode16 (codes iana_AFSDBSubtype); KName]  (* AFSDB  RFC 1183 *)
  else if t =? 19 then Some [KDigits]                                   (* X25 *)
  else if t =? 20 then Some [KDigits; KOptHex]                          (* ISDN *)
  else if t =? 27 then Some [KGpos; KGpos; KGpos]                       (* GPOS   RFC 1712 *)
  else if t =? 29 then Some [KU8; KU8; KU8; KU8; KU32; KU32; KU32]      (* LOC    RFC 1876 *)
  else if t =? 26 then Some [KU16; KName; KName]                        (* PX     RFC 2163 *)
  else if t =? 33 then Some [KU16; KU16; KU16; KName]                   (* SRV    RFC 2782 *)
  else if t =? 28 then Some [KIp6]                                      (* AAAA   RFC 3596 *)
  else if t =? 44 then Some [KCode8 (codes iana_SSHFPAlgorithm); KCode8 (codes iana_SSHFPType); KRest]  (* SSHFP *)
  else if mem t [104; 106] then Some [KU16; KU64]                       (* NID L64 RFC 6742 *)
  else if t =? 105 then Some [KU16; KU32]                               (* L32 *)
  else if t =? 108 then Some [KU8; KU8; KU8; KU8; KU8; KU8]             (* EUI48  RFC 7043 *)
  else if t =? 109 then Some [KU8; KU8; KU8; KU8; KU8; KU8; KU8; KU8]   (* EUI64 *)
  else if t =? 256 then Some [KU16; KU16; KRestUtf8]                    (* URI    RFC 7553 *)
  else if t =? 48 then Some [KDnskeyFlags; KProto3; KCode8 (codes iana_AlgorithmType); KRest]          (* DNSKEY RFC 4034 *)
  else if t =? 43 then Some [KU16; KCode8 (codes iana_AlgorithmType); KCode8 (codes iana_DigestType); KRest]  (* DS *)
  else if t =? 257 then Some [KU8; KTag; KRest]                         (* CAA    RFC 8659 *)
  else None.

Definition in_only (t : N) : bool := mem t [1; 11; 28; 42; 64; 65].

Definition isdigit (c : N) : bool := (48 <=? c) && (c <=? 57).
Definition ishex (c : N) : bool := isdigit c || ((65 <=? c) && (c <=? 70)) || ((97 <=? c) && (c <=? 102)).
Definition isalnum (c : N) : bool := isdigit c || ((65 <=? c) && (c <=? 90)) || ((97 <=? c) && (c <=? 122)).
Definition tolower (c : N) : N := if (65 <=? c) && (c <=? 90) then c + 32 else c.

Definition field (k : sk) : P (list fv) :=
  match k with
  | KU8 => v <~ num 1 ;; pret [VN v]
  | KU16 => v <~ num 2 ;; pret [VN v]
  | KU32 => v <~ num 4 ;; pret [VN v]
  | KU64 => v <~ num 8 ;; pret [VN v]
  | KName => n <~ pname ;; pret [VName n]
  | KStr => s <~ charstr ;; pret [VBytes s]
  | KRest => x <~ rest ;; pret [VBytes x]
  | KRestUtf8 => x <~ rest ;; if utf8_valid x then pret [VBytes x] else pnone
  | KIp6 => x <~ octets 16 ;; pret [VBytes x]
  | KCode8 reg => v <~ num 1 ;; if mem v reg then pret [VN v] else pnone
  | KCode16 reg => v <~ num 2 ;; if mem v reg then pret [VN v] else pnone
  | KDigits => s <~ charstr ;; if forallb isdigit s then pret [VBytes s] else pnone
  | KOptHex => fun b s e =>
      if s =? e then Some ([VOptStr None], s)
      else (x <~ charstr ;; if forallb ishex x then pret [VOptStr (Some x)] else pnone) b s e
  | KGpos => s <~ charstr ;; if 1 <=? lenN s then pret [VBytes s] else pnone
  | KTag => s <~ charstr ;;
            if (1 <=? lenN s) && forallb isalnum s then pret [VBytes (map tolower s)] else pnone
  | KStrs1 => l <~ many_to_end charstr ;; match l with [] => pnone | _ => pret [VStrs l] end
  | KDnskeyFlags => v <~ num 2 ;;
      (* RFC 4034 2.1.1: bit 7 = zone key (value 256), bit 15 = SEP (value 1); all other bits zero *)
      if ((v / 256) mod 256 <=? 1) && (v mod 256 <=? 1) then pret [VN v] else pnone
  | KProto3 => v <~ num 1 ;; if v =? 3 then pret [] else pnone
  end.

Fixpoint fields (ks : list sk) : P (list fv) :=
  match ks with
  | [] => pret []
  | k :: r => a <~ field k ;; l <~ fields r ;; pret (a ++ l)
  end.

(* ---- address prefixes (RFC 3123, RFC 7871) ---- *)
Definition fam_size (fam : N) : option N := if fam =? 1 then Some 4 else if fam =? 2 then Some 16 else None.
(* the address octets present on the wire, missing octets meaning zero; no bit beyond the prefix *)
Definition prefix_addr (fam prefix : N) : P addr := fun b s e =>
  match fam_size fam with
  | None => None
  | Some size =>
    match rest b s e with
    | Some (x, s') =>
      if lenN x <=? size then
        let full := x ++ zeros (N.to_nat (size - lenN x)) in
        if (prefix <=? 8 * size) && ((be full) mod (2 ^ (8 * size - prefix)) =? 0)
        then Some ({| a_fam := fam; a_oct := full |}, s') else None
      else None
    | None => None
    end
  end.

(* ---- EDNS options (RFC 6891 6.1.2, 7871, 7873, 7830) ---- *)
Definition option_ : P ednsopt :=
  code <~ num 2 ;; len <~ num 2 ;;
  within len
    (if code =? 8 then
       fam <~ num 2 ;; src <~ num 1 ;; scope <~ num 1 ;;
       a <~ prefix_addr fam (N.max src scope) ;;
       pret (OEcs {| e_src := src; e_scope := scope; e_addr := a |})
     else if code =? 10 then
       if (len =? 8) || ((16 <=? len) && (len <=? 40)) then
         c <~ octets 8 ;; sv <~ rest ;;
         pret (OCookie {| c_client := c; c_server := if len =? 8 then None else Some sv |})
       else pnone
     else if code =? 12 then
       z <~ rest ;; if forallb (N.eqb 0) z then pret (OPadding len) else pnone
     else pnone).

(* ---- APL items (RFC 3123 4) ---- *)
Definition apl_item : P apitem :=
  fam <~ num 2 ;; prefix <~ num 1 ;; b <~ num 1 ;;
  a <~ within (b mod 128) (prefix_addr fam prefix) ;;
  pret {| i_prefix := prefix; i_neg := 128 <=? b; i_addr := a |}.

(* ---- SvcParams (RFC 9460 2.2, 7, 14.3) ---- *)
Definition svc_value (key : N) : P svcparam :=
  if key =? 0 then l <~ many_to_end (num 2) ;; pret (PMandatory l)
  else if key =? 1 then l <~ many_to_end charstr ;; pret (PAlpn l)
  else if key =? 2 then pret PNoDefaultAlpn
  else if key =? 3 then p <~ num 2 ;; pret (PPort p)
  else if key =? 4 then l <~ many_to_end (num 4) ;; pret (PIpv4Hint l)
  else if key =? 5 then n <~ num 2 ;; x <~ rest ;; if lenN x =? n then pret (PEch x) else pnone
  else if key =? 6 then l <~ many_to_end (octets 16) ;; pret (PIpv6Hint l)
  else if key =? 65535 then pret PKey65535
  else x <~ rest ;; pret (PPrivate key x).
Definition svc_param : P svcparam :=
  key <~ num 2 ;; len <~ num 2 ;; within len (svc_value key).

(* a parameter set: no key twice; reported in key order *)
Fixpoint insert_by_key (p : svcparam) (l : list svcparam) : option (list svcparam) :=
  match l with
  | [] => Some [p]
  | q :: r =>
    if param_key p <? param_key q then Some (p :: l)
    else if param_key p =? param_key q then None
    else match insert_by_key p r with Some r' => Some (q :: r') | None => None end
  end.
Fixpoint as_set (acc : list svcparam) (l : list svcparam) : option (list svcparam) :=
  match l with
  | [] => Some acc
  | p :: r => match insert_by_key p acc with Some acc' => as_set acc' r | None => None end
  end.

(* ---- records ---- *)
Definition testb (w i : N) : bool := N.testbit w i.

Definition rdata_of (t cls ttl : N) (owner : name) : P rr :=
  if t =? 41 then
    (* OPT: root owner; CLASS = payload size; TTL = ext-rcode(8) version(8) DO(1) Z(15) *)
    match owner with
    | _ :: _ => pnone
    | [] =>
      if (ttl mod 32768) =? 0 then
        opts <~ many_to_end option_ ;;
        pret {| r_type := t; r_name := []; r_class := 0; r_ttl := 0;
                r_data := ROpt cls (ttl / 16777216) ((ttl / 65536) mod 256) (testb ttl 15) opts |}
      else pnone
    end
  else if negb (mem cls (codes iana_Class)) then pnone
  else if in_only t && negb (cls =? 1) then pnone
  else if t =? 42 then
    items <~ many_to_end apl_item ;;
    pret {| r_type := t; r_name := owner; r_class := 1; r_ttl := ttl; r_data := RApl items |}
  else if (t =? 64) || (t =? 65) then
    prio <~ num 2 ;; target <~ pname ;;
    ps <~ (if prio =? 0 then pret [] else many_to_end svc_param) ;;
    match as_set [] ps with
    | Some set => pret {| r_type := t; r_name := owner; r_class := 1; r_ttl := ttl; r_data := RSvcb prio target set |}
    | None => pnone
    end
  else match fmt t with
       | Some ks => vs <~ fields ks ;;
                    pret {| r_type := t; r_name := owner; r_class := cls; r_ttl := ttl; r_data := RFields vs |}
       | None => pnone
       end.

Definition record : P rr :=
  owner <~ pname ;; t <~ num 2 ;; cls <~ num 2 ;; ttl <~ num 4 ;; rdlen <~ num 2 ;;
  if mem t (codes iana_Type) then within rdlen (rdata_of t cls ttl owner) else pnone.

Definition question : P Values.question :=
  n <~ pname ;; t <~ num 2 ;; c <~ num 2 ;;
  if mem t (codes iana_QType) && mem c (codes iana_QClass)
  then pret {| q_name := n; q_type := t; q_class := c |} else pnone.

(* RFC 1035 4.1.1 / RFC 2535 6.1: bit 15 = QR ... bit 0..3 = RCODE of the 16-bit flag word *)
Definition bits4 (w lo : N) : N :=
  (if testb w lo then 1 else 0) + (if testb w (lo + 1) then 2 else 0) +
  (if testb w (lo + 2) then 4 else 0) + (if testb w (lo + 3) then 8 else 0).
Definition flags_ : P flags :=
  w <~ num 2 ;;
  let opcode := bits4 w 11 in let rcode := bits4 w 0 in
  if mem opcode (codes iana_Opcode) && negb (testb w 6) && mem rcode (codes iana_RCode) then
    pret {| f_qr := testb w 15; f_opcode := opcode; f_aa := testb w 10; f_tc := testb w 9; f_rd := testb w 8;
            f_ra := testb w 7; f_ad := testb w 5; f_cd := testb w 4; f_rcode := rcode |}
  else pnone.

Fixpoint times {A} (n : nat) (p : P A) : P (list A) :=
  match n with
  | O => pret []
  | S n' => a <~ p ;; l <~ times n' p ;; pret (a :: l)
  end.

Definition message : P dns :=
  id <~ num 2 ;; fl <~ flags_ ;;
  qc <~ num 2 ;; ac <~ num 2 ;; nc <~ num 2 ;; rc <~ num 2 ;;
  qd <~ times (N.to_nat qc) question ;;
  an <~ times (N.to_nat ac) record ;;
  ns <~ times (N.to_nat nc) record ;;
  ar <~ times (N.to_nat rc) record ;;
  pret {| m_id := id; m_flags := fl; m_qd := qd; m_an := an; m_ns := ns; m_ar := ar |}.

(* whole input consumed *)
Definition whole {A} (p : P A) (b : bytes) : option A :=
  match p b 0 (lenN b) with
  | Some (a, s) => if s =? lenN b then Some a else None
  | None => None
  end.
(* entry points that stop behind the element (the library's stand-alone decoders ignore what follows) *)
Definition prefix_of {A} (p : P A) (b : bytes) : option A :=
  match p b 0 (lenN b) with Some (a, _) => Some a | None => None end.

Definition spec_Dns (b : bytes) : option dns :=
  if (12 <=? lenN b) && (lenN b <=? 65536) then whole message b else None.
Definition spec_Flags := prefix_of flags_.
Definition spec_Question := prefix_of question.
Definition spec_RR := prefix_of record.
Definition spec_DomainName := prefix_of pname.
