(* Hand-written registry oracle for C11: for every variant name the library uses, the code point the
   IANA registry assigns to the mnemonic it stands for (IANA "Domain Name System (DNS) Parameters",
   "DNS Security Algorithm Numbers", "DS RR Type Digest Algorithms", "SSHFP RR Types", RFC 1183 AFSDB
   subtypes, "Address Family Numbers", "DNS EDNS0 Option Codes").  This file is NOT generated and is
   never touched by the translator; it is what the generated tables are compared against. *)
From Coq Require Import String NArith List.
Import ListNotations.
Local Open Scope N_scope. Local Open Scope string_scope.

Definition iana_Opcode : list (string * N) :=
  [("Query", 0);
   ("IQuery", 1);
   ("Status", 2);
   ("Notify", 4);
   ("Update", 5);
   ("DSO", 6)].

Definition iana_RCode : list (string * N) :=
  [("NoError", 0);
   ("FormErr", 1);
   ("ServFail", 2);
   ("NXDomain", 3);
   ("NotImp", 4);
   ("Refused", 5);
   ("YXDomain", 6);
   ("YXRRSet", 7);
   ("NXRRSet", 8);
   ("NotAuth", 9);
   ("NotZone", 10);
   ("DSOTYPENI", 11);
   ("BADVERS", 16);
   ("BADKEY", 17);
   ("BADTIME", 18);
   ("BADMODE", 19);
   ("BADNAME", 20);
   ("BADALG", 21);
   ("BADTRUNC", 22);
   ("BADCOOKIE", 23)].

Definition iana_Class : list (string * N) :=
  [("IN", 1);
   ("CS", 2);
   ("CH", 3);
   ("HS", 4)].

Definition iana_Type : list (string * N) :=
  [("A", 1);
   ("NS", 2);
   ("MD", 3);
   ("MF", 4);
   ("CNAME", 5);
   ("SOA", 6);
   ("MB", 7);
   ("MG", 8);
   ("MR", 9);
   ("NULL", 10);
   ("WKS", 11);
   ("PTR", 12);
   ("HINFO", 13);
   ("MINFO", 14);
   ("MX", 15);
   ("TXT", 16);
   ("RP", 17);
   ("AFSDB", 18);
   ("X25", 19);
   ("ISDN", 20);
   ("RT", 21);
   ("NSAP", 22);
   ("NSAP_PTR", 23);
   ("SIG", 24);
   ("KEY", 25);
   ("PX", 26);
   ("GPOS", 27);
   ("AAAA", 28);
   ("LOC", 29);
   ("NXT", 30);
   ("EID", 31);
   ("NIMLOC", 32);
   ("SRV", 33);
   ("ATMA", 34);
   ("NAPTR", 35);
   ("KX", 36);
   ("CERT", 37);
   ("A6", 38);
   ("DNAME", 39);
   ("SINK", 40);
   ("OPT", 41);
   ("APL", 42);
   ("DS", 43);
   ("SSHFP", 44);
   ("IPSECKEY", 45);
   ("RRSIG", 46);
   ("NSEC", 47);
   ("DNSKEY", 48);
   ("DHCID", 49);
   ("NSEC3", 50);
   ("NSEC3PARAM", 51);
   ("TLSA", 52);
   ("SMIMEA", 53);
   ("HIP", 55);
   ("NINFO", 56);
   ("RKEY", 57);
   ("TALINK", 58);
   ("CDS", 59);
   ("CDNSKEY", 60);
   ("OPENPGPKEY", 61);
   ("CSYNC", 62);
   ("ZONEMD", 63);
   ("SVCB", 64);
   ("HTTPS", 65);
   ("SPF", 99);
   ("UINFO", 100);
   ("UID", 101);
   ("GID", 102);
   ("UNSPEC", 103);
   ("NID", 104);
   ("L32", 105);
   ("L64", 106);
   ("LP", 107);
   ("EUI48", 108);
   ("EUI64", 109);
   ("TKEY", 249);
   ("TSIG", 250);
   ("IXFR", 251);
   ("URI", 256);
   ("CAA", 257);
   ("AVC", 258);
   ("DOA", 259);
   ("AMTRELAY", 260);
   ("TA", 32768);
   ("DLV", 32769)].

Definition iana_QClass : list (string * N) :=
  [("IN", 1);
   ("CS", 2);
   ("CH", 3);
   ("HS", 4);
   ("NONE", 254);
   ("ANY", 255)].

Definition iana_EDNSOptionCode : list (string * N) :=
  [("ECS", 8);
   ("Cookie", 10);
   ("Padding", 12)].

Definition iana_AlgorithmType : list (string * N) :=
  [("Reserved", 0);
   ("RsaMd5", 1);
   ("DiffiHellman", 2);
   ("DsaSha1", 3);
   ("EllipticCurve", 4);
   ("RsaSha1", 5);
   ("DsaNsec3", 6);
   ("RsaSha1Nsec3Sha1", 7);
   ("RsaSha256", 8);
   ("GostR", 12);
   ("EcDsaP256", 13);
   ("EcDsaP386", 14)   (* ECDSAP384SHA384; the variant name is the library's spelling *);
   ("Ed25519", 15);
   ("Ed448", 16);
   ("Indirect", 252);
   ("PrivateDns", 253);
   ("PrivateOid", 254)].

Definition iana_DigestType : list (string * N) :=
  [("Reserved", 0);
   ("Sha1", 1);
   ("Sha256", 2);
   ("GostR", 3);
   ("Sha384", 4)].

Definition iana_SSHFPAlgorithm : list (string * N) :=
  [("Reserved", 0);
   ("RSA", 1);
   ("DSS", 2)].

Definition iana_SSHFPType : list (string * N) :=
  [("Reserved", 0);
   ("Sha1", 1)].

Definition iana_AFSDBSubtype : list (string * N) :=
  [("VolumeLocationServer", 1);
   ("DCEAuthenticationServer", 2)].

Definition iana_AddressFamilyNumber : list (string * N) :=
  [("Ipv4", 1);
   ("Ipv6", 2)].

(* QTYPEs are the TYPEs plus the four question-only code points; OPT (41) is a TYPE but not a QTYPE here *)
Definition iana_qtype_only : list (string * N) := [("AXFR", 252); ("MAILB", 253); ("MAILA", 254); ("ALL", 255)].
Definition iana_QType : list (string * N) :=
  filter (fun p => negb (String.eqb (fst p) "OPT")) iana_Type ++ iana_qtype_only.
