(* The UNCOMPRESSED wire size of a value, written independently of the encoder: the number of
   octets of the RFC 1035 (+ 6891, 7871, 7873, 7830, 3123, 9460) presentation of the value in which
   every domain name is written in full (no compression pointer).  It is a function of the value and
   of the per-type field list of the DECODE table only (no encoder state, no encoder function).

   What is exact and what is a bound:
   - names: [name_wire_len n] is the size of the name written literally; the encoder may emit fewer
     octets (a pointer replaces a suffix), never more;
   - the address of an EDNS client-subnet option and of an APL item is written up to its last non-zero
     octet, but with at least ceil(source / 8) octets for ECS and at least none for APL (RFC 7871
     section 6, RFC 3123 section 4): [usize_addr_cut] is the exact number of address octets of that
     format, NOT the full 4/16 octets;
   - everything else is the exact number of octets of the format.
   Hence for a well-formed value [usize_*] is exactly the size of the encoding without compression and
   an upper bound of the size of the encoder's output (Proofs/EncSize.v, Proofs/EncSucceeds.v). *)
From DNS Require Import Model.Values Gen.Formats Spec.Names Model.Dec.
Local Open Scope N_scope.

Fixpoint sumN (l : list N) : N :=
  match l with [] => 0 | x :: r => x + sumN r end.

Definition usize_name (n : name) : N := name_wire_len n.

(* a <character-string>: one length octet and the octets *)
Definition usize_str (s : bytes) : N := 1 + lenN s.

(* one field of the generated RDATA tables *)
Definition usize_field (k : fk) (v : fv) : N :=
  match k with
  | FU8 | FEnum8 _ _ | FConst8 _ _ => 1
  | FU16 | FEnum16 _ _ | FDnskeyFlags => 2
  | FU32 | FIp4 => 4
  | FU64 => 8
  | FIp6 => 16
  | FName => match v with VName n => usize_name n | _ => 0 end
  | FStr | FStrPsdn | FStrIsdn | FStrGpos | FTag => match v with VBytes s => usize_str s | _ => 0 end
  | FRest | FRestUtf8 => match v with VBytes b => lenN b | _ => 0 end
  | FOptStrSa => match v with VOptStr (Some s) => usize_str s | _ => 0 end
  | FStrs1 => match v with VStrs l => sumN (map usize_str l) | _ => 0 end
  | FUnknown => 0
  end.

(* the field list of a type, against the record's values: one value per value-carrying field, in
   order; a constant field (DNSKEY protocol) takes one octet and no value *)
Fixpoint usize_fields (f : list (string * fk)) (vals : list fv) : N :=
  match f with
  | [] => 0
  | (_, FConst8 _ _) :: r => 1 + usize_fields r vals
  | (_, k) :: r =>
    match vals with
    | v :: vs => usize_field k v + usize_fields r vs
    | [] => 0
    end
  end.

(* address octets of an address-prefix item *)
(* the octets up to the last non-zero one, but at least `least` (never more than the family size for
   least <= size) *)
Fixpoint usize_addr_significant (oct : bytes) : N :=
  match oct with
  | [] => 0
  | b :: r => let s := usize_addr_significant r in if (s =? 0) && (b =? 0) then 0 else s + 1
  end.
Definition usize_addr_cut (least : N) (a : addr) : N :=
  N.min (N.max (usize_addr_significant (a_oct a)) least) (lenN (a_oct a)).

(* EDNS options: code, length, then family + source + scope + cut address / cookies / padding *)
Definition usize_option (o : ednsopt) : N :=
  match o with
  | OEcs e => 4 + (4 + usize_addr_cut ((e_src e + 7) / 8) (e_addr e))
  | OCookie c => 4 + (lenN (c_client c) + match c_server c with Some s => lenN s | None => 0 end)
  | OPadding n => 4 + n
  end.

(* APL items: family, prefix, length octet, address without trailing zero octets *)
Definition usize_apitem (i : apitem) : N := 4 + usize_addr_cut 0 (i_addr i).

(* SvcParams: key, length, value *)
Definition usize_param_value (p : svcparam) : N :=
  match p with
  | PMandatory keys => 2 * lenN keys
  | PAlpn ids => sumN (map usize_str ids)
  | PNoDefaultAlpn => 0
  | PPort _ => 2
  | PIpv4Hint h => 4 * lenN h
  | PEch cl => 2 + lenN cl
  | PIpv6Hint h => sumN (map (fun a : bytes => lenN a) h)
  | PPrivate _ d => lenN d
  | PKey65535 => 0
  end.
Definition usize_param (p : svcparam) : N := 4 + usize_param_value p.

(* RDATA of a record of type [t] *)
Definition usize_rdata (t : N) (d : rdata) : N :=
  match d with
  | RFields vals =>
    match lookup t dec_dispatch with
    | Some (RdFields _ f) => usize_fields f vals
    | _ => 0
    end
  | ROpt _ _ _ _ opts => sumN (map usize_option opts)
  | RApl items => sumN (map usize_apitem items)
  | RSvcb prio target params =>
    2 + usize_name target + (if prio =? 0 then 0 else sumN (map usize_param params))
  end.

(* owner, TYPE, CLASS, TTL, RDLENGTH, RDATA *)
Definition usize_rr (r : rr) : N := usize_name (r_name r) + 10 + usize_rdata (r_type r) (r_data r).

Definition usize_question (q : question) : N := usize_name (q_name q) + 4.

(* header and the four sections *)
Definition usize_dns (m : dns) : N :=
  12 + sumN (map usize_question (m_qd m)) + sumN (map usize_rr (m_an m))
     + sumN (map usize_rr (m_ns m)) + sumN (map usize_rr (m_ar m)).
