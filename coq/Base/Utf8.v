(* Well-formed UTF-8 (Unicode Standard, Table 3-7) — what Rust's core::str::from_utf8 accepts. *)
From DNS Require Import Base.Bytes.

Definition in_rng (lo hi b : N) : bool := (lo <=? b) && (b <=? hi).
Definition cont (b : N) : bool := in_rng 128 191 b.

Fixpoint utf8_valid_fuel (fuel : nat) (l : bytes) : bool :=
  match fuel with
  | O => match l with [] => true | _ => false end
  | S f =>
    match l with
    | [] => true
    | b0 :: r =>
      if b0 <? 128 then utf8_valid_fuel f r
      else if in_rng 194 223 b0 then
        match r with b1 :: r' => cont b1 && utf8_valid_fuel f r' | _ => false end
      else if b0 =? 224 then
        match r with b1 :: b2 :: r' => in_rng 160 191 b1 && cont b2 && utf8_valid_fuel f r' | _ => false end
      else if in_rng 225 236 b0 || in_rng 238 239 b0 then
        match r with b1 :: b2 :: r' => cont b1 && cont b2 && utf8_valid_fuel f r' | _ => false end
      else if b0 =? 237 then
        match r with b1 :: b2 :: r' => in_rng 128 159 b1 && cont b2 && utf8_valid_fuel f r' | _ => false end
      else if b0 =? 240 then
        match r with b1 :: b2 :: b3 :: r' => in_rng 144 191 b1 && cont b2 && cont b3 && utf8_valid_fuel f r' | _ => false end
      else if in_rng 241 243 b0 then
        match r with b1 :: b2 :: b3 :: r' => cont b1 && cont b2 && cont b3 && utf8_valid_fuel f r' | _ => false end
      else if b0 =? 244 then
        match r with b1 :: b2 :: b3 :: r' => in_rng 128 143 b1 && cont b2 && cont b3 && utf8_valid_fuel f r' | _ => false end
      else false
    end
  end.

(* every step consumes at least one octet, so [length l] fuel suffices *)
Definition utf8_valid (l : bytes) : bool := utf8_valid_fuel (length l) l.
