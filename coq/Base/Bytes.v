(* Bytes: octet strings as lists of N, N-indexed list operations, big-endian words. *)
From Coq Require Export List NArith Bool Lia.
Export ListNotations.
Open Scope N_scope.

Definition byte := N.
Definition bytes := list N.

Definition lenN {A} (l : list A) : N := N.of_nat (length l).
Definition takeN {A} (n : N) (l : list A) : list A := firstn (N.to_nat n) l.
Definition dropN {A} (n : N) (l : list A) : list A := skipn (N.to_nat n) l.

Definition is_byte (b : N) : Prop := b < 256.
Definition bytes_ok (l : bytes) : Prop := Forall is_byte l.
Definition is_byteb (b : N) : bool := b <? 256.
Definition bytes_okb (l : bytes) : bool := forallb is_byteb l.

(* big-endian composition *)
Fixpoint be_join (l : bytes) (acc : N) : N :=
  match l with
  | [] => acc
  | b :: r => be_join r (acc * 256 + b)
  end.
Definition be (l : bytes) : N := be_join l 0.

(* big-endian split of [v] into [k] octets (truncating, like `as`) *)
Fixpoint be_split (k : nat) (v : N) : bytes :=
  match k with
  | O => []
  | S k' => be_split k' (v / 256) ++ [v mod 256]
  end.
Definition u8b (v : N) : bytes := [v mod 256].
Definition u16b (v : N) : bytes := [(v / 256) mod 256; v mod 256].
Definition u32b (v : N) : bytes :=
  [(v / 16777216) mod 256; (v / 65536) mod 256; (v / 256) mod 256; v mod 256].
Definition u64b (v : N) : bytes := u32b (v / 4294967296) ++ u32b (v mod 4294967296).

Definition POW16 : N := 65536.
Definition POW32 : N := 4294967296.
Definition POW64 : N := 18446744073709551616.

(* checked list indexing: the model of a Rust slice index *)
Fixpoint nth_opt {A} (n : nat) (l : list A) : option A :=
  match l, n with
  | [], _ => None
  | x :: _, O => Some x
  | _ :: r, S n' => nth_opt n' r
  end.
Definition nthN {A} (n : N) (l : list A) : option A := nth_opt (N.to_nat n) l.

(* replace element at index (the model of bytes[index] = v); None when out of range *)
Fixpoint set_nth {A} (n : nat) (v : A) (l : list A) : option (list A) :=
  match l, n with
  | [], _ => None
  | _ :: r, O => Some (v :: r)
  | x :: r, S n' => match set_nth n' v r with Some r' => Some (x :: r') | None => None end
  end.

Fixpoint zeros (n : nat) : bytes :=
  match n with O => [] | S n' => 0 :: zeros n' end.

(* ASCII *)
Definition ascii_lower (b : N) : N := if (65 <=? b) && (b <=? 90) then b + 32 else b.
Definition is_digit (b : N) : bool := (48 <=? b) && (b <=? 57).
Definition is_upper (b : N) : bool := (65 <=? b) && (b <=? 90).
Definition is_lower (b : N) : bool := (97 <=? b) && (b <=? 122).
Definition is_alnum (b : N) : bool := is_digit b || is_upper b || is_lower b.
Definition is_hexdigit (b : N) : bool :=
  is_digit b || ((65 <=? b) && (b <=? 70)) || ((97 <=? b) && (b <=? 102)).

Fixpoint list_eqb {A} (eqb : A -> A -> bool) (a b : list A) : bool :=
  match a, b with
  | [], [] => true
  | x :: a', y :: b' => eqb x y && list_eqb eqb a' b'
  | _, _ => false
  end.
Definition bytes_eqb := list_eqb N.eqb.
