(* Outcomes of model functions: Rust's Result plus the two outcomes a total model must make
   explicit — a panic (with the site that panicked) and fuel exhaustion of a modelled loop. *)
From DNS Require Import Base.Bytes.

(* DecodeError / EncodeError variants (nested error enums flattened). The payload is a list of numbers. *)
Inductive etag :=
| ENotEnoughBytes | ETooManyBytes | EDnsPacketTooBig | EOpcode | EZNotZeroes | ERCode
| EType | EClass | EQType | EQClass | EUtf8Error | ELabelEmpty | ELabelLength
| EDomainNameLength | ENotYetImplemented | EOffset | EAClass | EWKSClass | ETXTEmpty
| EAFSDBSubtype | EPSDNAddressError | EISDNIllegalChar | EISDNIllegalCharSA | EGPOS
| EAAAAClass | EOPTDomainName | EOPTZero | EEDNSOptionCode
| EIpv4Prefix | EIpv4Mask | EIpv6Prefix | EIpv6Mask | EAPLClass | EServerCookieLength
| EEcsAddressNumber | EEcsTooBigIpv4Address | EEcsTooBigIpv6Address | ECookieLength
| ESSHFPAlgorithm | ESSHFPType | EAlgorithmType | EDigestType | EDNSKEYZeroFlags
| EDNSKEYProtocol | EMaxRecursion | EEndlessRecursion | ERemainingBytes | EPaddingZero
| EPaddingLength | ETagEmpty | ETagIllegalChar | EECHLengthMismatch | ESVCBClass
| ESVCBDuplicateKey
(* encode *)
| XString | XLength | XNotEnoughBytes | XCompression | XMaxRecursion | XAPLAddressLength
(* NonEmptyVec::try_from *)
| EEmptyVec.

Definition err := (etag * list N)%type.

(* panic sites known to the model *)
Inductive site :=
| SReadOverflow        (* decoder.rs: self.offset += length *)
| SU8Index             (* helpers.rs: buffer[0] *)
| SGetUint             (* helpers.rs: Buf::get_u16/u32/u64 on a short buffer *)
| SCopyIpv4 | SCopyIpv6 (* decode/rr/subtypes.rs: octects[0..n].copy_from_slice *)
| SCookieClient | SCookieServer (* decode/rr/edns/rfc_7873.rs: vec[0..8], vec[8..] *)
| SPrefixIndex | SPrefixSplit | SPrefixShift (* rr/subtypes.rs check_ipv4/6_addr *)
| SLenIndexSub         (* encode/helpers.rs: len - (index + 2) *)
| SAddrLenIndexSub     (* encode/rr/rfc_3123.rs: len - (index + 1) *)
| SSetIndex            (* encode: self.bytes[index] = .. *)
| SPrefixSub           (* encode/rr/subtypes.rs: prefix_length -= 8 *)
| SNameSliceIndex      (* encode/domain_name.rs: self.labels[0], [1..] *)
| SEuiIndex.           (* encode/rr/rfc_7043.rs: eui[i] *)

Inductive res (A : Type) :=
| Ok (a : A)
| Err (e : err)
| Panic (s : site)
| OutOfFuel.
Arguments Ok {A} a.
Arguments Err {A} e.
Arguments Panic {A} s.
Arguments OutOfFuel {A}.

Definition rbind {A B} (m : res A) (f : A -> res B) : res B :=
  match m with
  | Ok a => f a
  | Err e => Err e
  | Panic s => Panic s
  | OutOfFuel => OutOfFuel
  end.
