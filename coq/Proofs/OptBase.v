(* C15 — small reusable framework.
   Decoder side: [read]/[u8]/[u16]/[vec]/[with_sub] on a state whose window is literally [x ++ y].
   Encoder side: "a computation made of puts and a length slot appends exactly these octets". *)
From DNS Require Import Model.Dec Model.Enc Proofs.DecBase.
Require Import ZArith ZifyBool ZifyN ZifyNat.
Local Open Scope N_scope.
Ltac Zify.zify_post_hook ::= Z.div_mod_to_equations.

(* ---- generated constants ---- *)
Lemma OP_bytes_val : OP_bytes = CLe. Proof. reflexivity. Qed.
Lemma POW16_val' : POW16 = 65536. Proof. reflexivity. Qed.
Lemma POW64_val : POW64 = 18446744073709551616. Proof. reflexivity. Qed.

(* ---- octet strings ---- *)
Lemma lenN_zeros k : lenN (zeros k) = N.of_nat k.
Proof. unfold lenN. induction k as [|k IH]; cbn [zeros length]; [reflexivity|]. lia. Qed.
Lemma zeros_bytes_ok k : bytes_ok (zeros k).
Proof. induction k as [|k IH]; cbn [zeros]; constructor; [unfold is_byte; lia|exact IH]. Qed.
Lemma lenN_u16b v : lenN (u16b v) = 2. Proof. reflexivity. Qed.
Lemma lenN_u8b v : lenN (u8b v) = 1. Proof. reflexivity. Qed.
Lemma be2 h l : be [h; l] = h * 256 + l.
Proof. unfold be. cbn [be_join]. lia. Qed.
Lemma u16b_be v : v < 65536 -> (v / 256 mod 256) * 256 + v mod 256 = v.
Proof. intro H. lia. Qed.
Lemma u16b_ok v : bytes_ok (u16b v).
Proof. unfold u16b. constructor; [unfold is_byte; lia|]. constructor; [unfold is_byte; lia|constructor]. Qed.
Lemma u8b_ok v : bytes_ok (u8b v).
Proof. unfold u8b. constructor; [unfold is_byte; lia|constructor]. Qed.
Lemma u8b_small v : v < 256 -> u8b v = [v].
Proof. intro H. unfold u8b. f_equal. lia. Qed.

Lemma takeN_app_len {A} (x y : list A) n : lenN x = n -> takeN n (x ++ y) = x.
Proof.
  intros <-. unfold takeN, lenN. rewrite Nat2N.id.
  rewrite firstn_app, firstn_all, Nat.sub_diag. cbn [firstn]. apply app_nil_r.
Qed.
Lemma dropN_app_len {A} (x y : list A) n : lenN x = n -> dropN n (x ++ y) = y.
Proof.
  intros <-. unfold dropN, lenN. rewrite Nat2N.id.
  rewrite skipn_app, skipn_all, Nat.sub_diag. reflexivity.
Qed.
Lemma takeN_dropN_id {A} n (l : list A) : takeN n l ++ dropN n l = l.
Proof. unfold takeN, dropN. apply firstn_skipn. Qed.

Lemma forallb_zero_zeros (l : bytes) : forallb (N.eqb 0) l = true -> l = zeros (length l).
Proof.
  induction l as [|x l IH]; cbn [forallb length zeros]; [reflexivity|].
  intro H. apply andb_true_iff in H. destruct H as [H1 H2]. apply N.eqb_eq in H1. subst x.
  f_equal. apply IH. exact H2.
Qed.

(* ================================================================================================ *)
(* Decoder                                                                                           *)
(* ================================================================================================ *)

(* the state after reading [n] octets, leaving [y] *)
Definition step (n : N) (y : bytes) (s : dst) : dst :=
  {| d_rest := y; d_off := d_off s + n; d_len := d_len s; d_cost := d_cost s + n |}.

(* the state after Decoder::bytes / vec: the window is drained *)
Definition drained (s : dst) : dst :=
  {| d_rest := []; d_off := d_len s; d_len := d_len s; d_cost := d_cost s + (d_len s - d_off s) |}.

Lemma read_app (n : N) (s : dst) (x y : bytes) :
  d_rest s = x ++ y -> lenN x = n -> d_off s + n <= d_len s -> d_len s < POW64 ->
  read n s = DOk x (step n y s).
Proof.
  intros Hr Hn Hle Hlt. unfold read. cbv zeta.
  destruct (POW64 <=? d_off s + n) eqn:E; [lia|].
  rewrite OP_read_val. cbn [cmp_apply].
  destruct (d_off s + n <=? d_len s) eqn:E2; [|lia].
  rewrite Hr, (takeN_app_len x y n Hn), (dropN_app_len x y n Hn). reflexivity.
Qed.

Lemma read_short (n : N) (s : dst) : d_len s < d_off s + n -> d_off s + n < POW64 ->
  read n s = DErr (ENotEnoughBytes, [d_len s; d_off s + n]) (d_cost s).
Proof.
  intros H1 H2. unfold read. cbv zeta.
  destruct (POW64 <=? d_off s + n) eqn:E; [lia|].
  rewrite OP_read_val. cbn [cmp_apply].
  destruct (d_off s + n <=? d_len s) eqn:E2; [lia|reflexivity].
Qed.

Lemma u8_cons (s : dst) (b : N) (y : bytes) :
  d_rest s = b :: y -> d_off s + 1 <= d_len s -> d_len s < POW64 ->
  u8 s = DOk b (step 1 y s).
Proof.
  intros Hr Hle Hlt. unfold u8, bind.
  rewrite (read_app 1 s [b] y Hr eq_refl Hle Hlt). reflexivity.
Qed.

Lemma u16_cons (s : dst) (h l : N) (y : bytes) :
  d_rest s = h :: l :: y -> d_off s + 2 <= d_len s -> d_len s < POW64 ->
  u16 s = DOk (h * 256 + l) (step 2 y s).
Proof.
  intros Hr Hle Hlt. unfold u16, uint, bind.
  rewrite (read_app 2 s [h; l] y Hr eq_refl Hle Hlt).
  change (lenN [h; l] =? 2) with true. cbv iota. rewrite be2. reflexivity.
Qed.

Lemma vec_ok (s : dst) : d_off s <= d_len s -> vec s = DOk (d_rest s) (drained s).
Proof.
  intro H. unfold vec. rewrite OP_bytes_val. cbn [cmp_apply].
  destruct (d_off s <=? d_len s) eqn:E; [reflexivity|lia].
Qed.
Lemma vec_err (s : dst) : d_len s < d_off s ->
  vec s = DErr (ENotEnoughBytes, [d_len s; d_off s]) (d_cost s).
Proof.
  intro H. unfold vec. rewrite OP_bytes_val. cbn [cmp_apply].
  destruct (d_off s <=? d_len s) eqn:E; [lia|reflexivity].
Qed.

Lemma finished_drained (s : dst) : finished (drained s) = DOk tt (drained s).
Proof.
  unfold finished, bind, is_finished, drained. cbn [d_off d_len d_cost d_rest].
  rewrite N.ltb_irrefl, N.eqb_refl. reflexivity.
Qed.

(* the child window of [with_sub] *)
Definition sub_win (x : bytes) (c : N) : dst :=
  {| d_rest := x; d_off := 0; d_len := lenN x; d_cost := c |}.

(* the parent after a child of [n] octets that was read to its end: the hook counter counts the
   [n] octets once for [sub] and once more for the reads inside the child *)
Definition after_sub (n : N) (y : bytes) (s : dst) : dst :=
  {| d_rest := y; d_off := d_off s + n; d_len := d_len s; d_cost := d_cost s + n + n |}.

Lemma with_sub_drain {A} (m : DM A) (n : N) (s : dst) (x y : bytes) (a : A) :
  d_rest s = x ++ y -> lenN x = n -> d_off s + n <= d_len s -> d_len s < POW64 ->
  (forall c, m (sub_win x c) = DOk a (drained (sub_win x c))) ->
  with_sub n m s = DOk a (after_sub n y s).
Proof.
  intros Hr Hn Hle Hlt Hm. unfold with_sub.
  rewrite (read_app n s x y Hr Hn Hle Hlt).
  cbn [step d_cost d_rest d_off d_len].
  change {| d_rest := x; d_off := 0; d_len := lenN x; d_cost := d_cost s + n |}
    with (sub_win x (d_cost s + n)).
  unfold bind at 1. rewrite Hm. unfold bind at 1. rewrite finished_drained. unfold ret.
  unfold after_sub. f_equal. f_equal.
  unfold drained, sub_win. cbn [d_cost d_len d_off]. lia.
Qed.

(* an error inside the child is the error of [with_sub] *)
Lemma with_sub_err {A} (m : DM A) (n : N) (s : dst) (x y : bytes) e c' :
  d_rest s = x ++ y -> lenN x = n -> d_off s + n <= d_len s -> d_len s < POW64 ->
  m (sub_win x (d_cost s + n)) = DErr e c' ->
  with_sub n m s = DErr e c'.
Proof.
  intros Hr Hn Hle Hlt Hm. unfold with_sub.
  rewrite (read_app n s x y Hr Hn Hle Hlt).
  cbn [step d_cost d_rest d_off d_len].
  change {| d_rest := x; d_off := 0; d_len := lenN x; d_cost := d_cost s + n |}
    with (sub_win x (d_cost s + n)).
  unfold bind at 1. rewrite Hm. reflexivity.
Qed.

Lemma sub_win_le x c : d_off (sub_win x c) <= d_len (sub_win x c).
Proof. cbn [sub_win d_off d_len]. lia. Qed.

(* ================================================================================================ *)
(* Encoder                                                                                           *)
(* ================================================================================================ *)

Definition app_buf (st : est) (w : bytes) : est :=
  {| e_buf := e_buf st ++ w; e_idx := e_idx st; e_names := e_names st |}.

Lemma app_buf_app st a b : app_buf (app_buf st a) b = app_buf st (a ++ b).
Proof. unfold app_buf. cbn [e_buf e_idx e_names]. rewrite app_assoc. reflexivity. Qed.
Lemma app_buf_nil st : app_buf st [] = st.
Proof. unfold app_buf. rewrite app_nil_r. destruct st; reflexivity. Qed.

(* [m] appends exactly [w], whatever the state; index and ghost log untouched *)
Definition emits (m : EM unit) (w : bytes) : Prop := forall st, m st = EOk tt (app_buf st w).

Lemma emits_put b : emits (put b) b.
Proof. intro st. reflexivity. Qed.
Lemma emits_eu8 v : emits (eu8 v) (u8b v). Proof. apply emits_put. Qed.
Lemma emits_eu16 v : emits (eu16 v) (u16b v). Proof. apply emits_put. Qed.
Lemma emits_eu32 v : emits (eu32 v) (u32b v). Proof. apply emits_put. Qed.
Lemma emits_ret : emits (eret tt) [].
Proof. intro st. unfold eret. rewrite app_buf_nil. reflexivity. Qed.

Lemma bind_emits (m : EM unit) (w : bytes) (k : unit -> EM unit) (st : est) :
  emits m w -> ebind m k st = k tt (app_buf st w).
Proof. intro H. unfold ebind. rewrite H. reflexivity. Qed.

Lemma emits_seq (m1 m2 : EM unit) w1 w2 :
  emits m1 w1 -> emits m2 w2 -> emits (_ <-- m1 ;; m2) (w1 ++ w2).
Proof. intros H1 H2 st. rewrite (bind_emits m1 w1 _ st H1), H2, app_buf_app. reflexivity. Qed.

Lemma emits_emap {A} (f : A -> EM unit) (wire : A -> bytes) (P : A -> Prop) :
  (forall a, P a -> emits (f a) (wire a)) ->
  forall l, Forall P l -> emits (emap f l) (concat (map wire l)).
Proof.
  intros Hf l Hl. induction Hl as [|a l Ha Hl IH]; cbn [emap map concat]; [apply emits_ret|].
  apply emits_seq; [apply Hf; exact Ha|exact IH].
Qed.

(* create_length_index reserves two octets and returns their position *)
Lemma cli_spec (k : N -> EM unit) (st : est) :
  ebind create_length_index k st = k (lenN (e_buf st)) (app_buf st [0; 0]).
Proof. reflexivity. Qed.

(* set_length_index back-patches the reserved octets with the length of what follows them *)
Lemma sli_spec (st0 : est) (w : bytes) : lenN w < 65536 ->
  set_length_index (lenN (e_buf st0)) (app_buf (app_buf st0 [0; 0]) w)
  = EOk tt (app_buf st0 (u16b (lenN w) ++ w)).
Proof.
  intro Hw. unfold set_length_index, ebind, buf_len.
  set (B := e_buf st0).
  assert (lenN (e_buf (app_buf (app_buf st0 [0; 0]) w)) = lenN B + 2 + lenN w) as HL.
  { unfold app_buf. cbn [e_buf]. fold B. rewrite !lenN_app. reflexivity. }
  rewrite HL.
  destruct (lenN B + 2 + lenN w <? lenN B + 2) eqn:E1; [lia|].
  cbv zeta. replace (lenN B + 2 + lenN w - (lenN B + 2)) with (lenN w) by lia.
  rewrite POW16_val'. destruct (lenN w <? 65536) eqn:E2; [|lia].
  unfold set_u16. cbv zeta. rewrite HL.
  destruct (lenN B + 2 - 1 <? lenN B + 2 + lenN w) eqn:E3; [|lia].
  unfold app_buf. cbn [e_buf e_idx e_names]. fold B. f_equal. f_equal.
  unfold patch. rewrite lenN_u16b.
  rewrite <- (app_assoc B [0; 0] w).
  rewrite (takeN_app_len B ([0; 0] ++ w) (lenN B) eq_refl).
  replace (B ++ [0; 0] ++ w) with ((B ++ [0; 0]) ++ w) by (rewrite <- app_assoc; reflexivity).
  rewrite (dropN_app_len (B ++ [0; 0]) w (lenN B + 2)); [reflexivity|].
  rewrite lenN_app. reflexivity.
Qed.

(* the whole pattern: slot, body, back-patch *)
Lemma emits_slot (body : EM unit) (w : bytes) : emits body w -> lenN w < 65536 ->
  emits (li <-- create_length_index ;; _ <-- body ;; set_length_index li) (u16b (lenN w) ++ w).
Proof.
  intros Hb Hw st. rewrite cli_spec, (bind_emits body w _ _ Hb). apply sli_spec. exact Hw.
Qed.

(* re-association, pointwise *)
Lemma ebind_assoc {A B C} (m : EM A) (f : A -> EM B) (g : B -> EM C) st :
  ebind (ebind m f) g st = ebind m (fun a => ebind (f a) g) st.
Proof. unfold ebind. destruct (m st) as [a s'|e|x|]; reflexivity. Qed.
