(* C01 — every reader of the decoder model is safe (Proofs/DecSafe.v): field readers, the special
   RDATA readers (OPT, APL, SVCB/HTTPS), resource records, questions, header flags, messages. *)
From Coq Require Import ZifyBool ZifyN ZifyNat.
From DNS Require Import Model.Dec Proofs.DecBase Proofs.DecName Proofs.DecNameSpec Proofs.C12 Proofs.DecSafe.
Local Open Scope N_scope.

Lemma safe0_bindQ {A B} j (Q : A -> Prop) (m : DM A) (f : A -> DM B) :
  safeP j Q m -> (forall a, Q a -> safe0 (f a)) -> safe0 (bind m f).
Proof.
  intros Hm Hf. apply safeP_bind1 with (Q := Q); [|exact Hf].
  eapply safeP_weaken; [exact Hm|lia|auto].
Qed.
Lemma safeP_err {A} k (Q : A -> Prop) (f : dst -> err) (g : dst -> N) : safeP k Q (fun s => DErr (f s) (g s)).
Proof. intros s W. exact I. Qed.
Lemma okat_strengthen {A} k (Q Q' : A -> Prop) (m : DM A) s :
  okat k Q m s -> (forall a s', m s = DOk a s' -> Q' a) -> okat k Q' m s.
Proof.
  unfold okat. destruct (m s) as [a s'|e c|x|]; intros H HQ; try exact H.
  destruct H as (H1 & H2 & H3 & _). split; [exact H1|]. split; [exact H2|]. split; [exact H3|].
  eapply HQ. reflexivity.
Qed.

Lemma safe0_u8 : safe0 u8. Proof. exact (safeP_safe0 _ _ _ safeP_u8). Qed.
Lemma safe0_u16 : safe0 u16. Proof. exact (safeP_safe0 _ _ _ safeP_u16). Qed.
Lemma safe0_u32 : safe0 u32. Proof. exact (safeP_safe0 _ _ _ safeP_u32). Qed.
Lemma safe0_u64 : safe0 u64. Proof. exact (safeP_safe0 _ _ _ safeP_u64). Qed.
Lemma safe0_ipv4 : safe0 ipv4_addr. Proof. exact safe0_u32. Qed.
Lemma safe0_ipv6 : safe0 ipv6_addr. Proof. exact (safeP_safe0 _ _ _ safeP_ipv6). Qed.
Lemma safe0_string : safe0 string_. Proof. exact (safeP_safe0 _ _ _ safeP_string). Qed.
Lemma safe0_vec : safe0 vec. Proof. exact (safeP_safe0 _ _ _ safeP_vec). Qed.
Lemma safe0_code t er rd : safe0 rd -> safe0 (code t er rd).
Proof. apply safeP_code. Qed.

(* validated strings: the constructors return Ok or Err *)
Lemma safe0_psdn s : safe0 (lift (psdn_try_from s)).
Proof. unfold psdn_try_from. destruct (forallb is_digit s); cbn [lift]; [apply safe0_ret|apply safeP_fail]. Qed.
Lemma safe0_isdn s : safe0 (lift (isdn_try_from s)).
Proof. unfold isdn_try_from. destruct (forallb is_digit s); cbn [lift]; [apply safe0_ret|apply safeP_fail]. Qed.
Lemma safe0_sa s : safe0 (lift (sa_try_from s)).
Proof. unfold sa_try_from. destruct (forallb is_hexdigit s); cbn [lift]; [apply safe0_ret|apply safeP_fail]. Qed.
Lemma safe0_tag s : safe0 (lift (tag_try_from s)).
Proof.
  unfold tag_try_from. destruct s as [|x r]; cbn [lift]; [apply safeP_fail|].
  destruct (forallb is_alnum (x :: r)); cbn [lift]; [apply safe0_ret|apply safeP_fail].
Qed.

Global Hint Resolve safe0_u8 safe0_u16 safe0_u32 safe0_u64 safe0_ipv4 safe0_ipv6 safe0_string safe0_vec
  safe0_code safe0_is_finished safe0_psdn safe0_isdn safe0_sa safe0_tag : safe0.

Ltac sbind := apply safe0_bind; [solve [auto with safe0]|intro].
Ltac sleaf := first [apply safe0_ret | apply safeP_fail | solve [auto with safe0]].
Ltac sif := match goal with
  | |- safe0 (if ?b then _ else _) => destruct b
  | |- safeP _ _ (if ?b then _ else _) => destruct b end.
Ltac sauto0 := repeat first [sleaf | sbind | sif].

Section Main.
Variable main : bytes.
Hypothesis Hb : bytes_ok main.
Hypothesis Hm : lenN main < WFMAX.

Lemma safe0_domain_name : safe0 (domain_name main).
Proof. exact (safeP_safe0 _ _ _ (safeP_domain_name main Hb Hm)). Qed.
Hint Resolve safe0_domain_name : safe0.

(* ---- the generic field reader ---- *)
Definition fk_ok (k : fk) : bool := match k with FUnknown => false | _ => true end.
Definition fields_ok (f : list (string * fk)) : bool := forallb (fun p => fk_ok (snd p)) f.

Lemma safe0_read_field k : fk_ok k = true -> safe0 (read_field main k).
Proof.
  intro Hk. destruct k; cbn [read_field]; try discriminate; try solve [sauto0].
  - (* FStrs1 *)
    apply safeP_loop_fuel. intros s W. change 0 with (0 + 0).
    eapply okat_bind; [apply okat_strings_loop; [exact W|lia]|].
    intros l s' _ W' _ _. revert s' W'. change (safe0 (match l with [] => fail (ETXTEmpty, []) | _ => ret [VStrs l] end)).
    destruct l; sauto0.
Qed.

Lemma safe0_read_fields f : fields_ok f = true -> safe0 (read_fields main f).
Proof.
  induction f as [|[nm k] r IH]; intro H; cbn [read_fields]; [apply safe0_ret|].
  unfold fields_ok in H. cbn [forallb snd] in H. apply andb_prop in H. destruct H as [H1 H2].
  apply safe0_bind; [apply safe0_read_field; exact H1|]. intro v.
  apply safe0_bind; [apply IH; exact H2|]. intro vs. apply safe0_ret.
Qed.

Lemma safe0_get_class c : safe0 (get_class c).
Proof. unfold get_class. sauto0. Qed.
Lemma safe0_class_rule ck c : safe0 (class_rule ck c).
Proof.
  destruct ck; cbn [class_rule]; [apply safe0_get_class| |apply safe0_ret].
  apply safe0_bind; [apply safe0_get_class|]. intro c0. sauto0.
Qed.

(* ---- rr/subtypes.rs: Address ---- *)
Lemma safe0_address_sized size e x : safe0 (rr_address_sized size CLt e x).
Proof.
  intros s W. unfold okat, rr_address_sized, bind.
  destruct (vec_cases s W) as [(Ho & -> & W')|(e0 & c & ->)]; [|exact I].
  cbv zeta. cbn [cmp_apply]. destruct (size <? lenN (d_rest s)) eqn:E; [exact I|].
  unfold ret. split; [exact W'|]. cbn [d_len d_off]. split; [reflexivity|]. split; [lia|exact I].
Qed.
Lemma OP_ipv4_size_val : OP_ipv4_size = CLt. Proof. reflexivity. Qed.
Lemma OP_ipv6_size_val : OP_ipv6_size = CLt. Proof. reflexivity. Qed.

Lemma safeP_address fam : safeP 0 addr_wf (rr_address fam).
Proof.
  intros s W. apply okat_strengthen with (Q := anyv).
  - revert s W. change (safe0 (rr_address fam)). unfold rr_address.
    rewrite OP_ipv4_size_val, OP_ipv6_size_val.
    destruct (fam =? 1); (apply safe0_bind; [apply safe0_address_sized|intro; apply safe0_ret]).
  - intros a s' E. eapply rr_address_wf; [exact E|]. destruct W as (_ & _ & _ & W4). exact W4.
Qed.

Lemma safe0_family : safeP 2 anyv rr_address_family_number.
Proof. unfold rr_address_family_number. apply safeP_code. exact (safeP_any _ _ _ safeP_u16). Qed.

(* ---- edns ---- *)
Lemma safe0_ecs_new src scope a : addr_wf a -> safe0 (lift (ecs_new src scope a)).
Proof.
  intro Ha. apply safeP_lift; [| |intros; exact I]; unfold ecs_new, ecs_check; cbv zeta; cbn [e_addr];
  destruct (check_prefix_spec a (ecs_prefix {| e_src := src; e_scope := scope; e_addr := a |}) Ha) as (_ & Hp & Hf).
  - intros x. destruct (check_prefix a _) as [u|e0|y|] eqn:E; try discriminate.
    exfalso. exact (Hp y eq_refl).
  - destruct (check_prefix a _) as [u|e0|y|] eqn:E; try discriminate.
    exfalso. exact (Hf eq_refl).
Qed.
Lemma safe0_apitem_new p neg a : addr_wf a -> safe0 (lift (apitem_new p neg a)).
Proof.
  intro Ha. apply safeP_lift; [| |intros; exact I]; unfold apitem_new;
  destruct (check_prefix_spec a p Ha) as (_ & Hp & Hf).
  - intros x. destruct (check_prefix a p) as [u|e0|y|] eqn:E; try discriminate.
    exfalso. exact (Hp y eq_refl).
  - destruct (check_prefix a p) as [u|e0|y|] eqn:E; try discriminate.
    exfalso. exact (Hf eq_refl).
Qed.

Lemma safe0_ecs : safe0 rr_edns_ecs.
Proof.
  unfold rr_edns_ecs.
  apply safe0_bind; [exact (safeP_safe0 _ _ _ safe0_family)|intro fam]. sbind. sbind.
  apply safe0_bindQ with (j := 0) (Q := addr_wf); [apply safeP_address|].
  intros ad Ha. apply safe0_ecs_new. exact Ha.
Qed.

Lemma safe0_cookie_new c o : safe0 (lift (cookie_new c o)).
Proof.
  unfold cookie_new, cookie_set_server. cbv zeta. destruct o as [sv|]; [|cbn [lift]; apply safe0_ret].
  destruct (server_len_ok (lenN sv)); cbn [lift]; [apply safe0_ret|apply safeP_fail].
Qed.
Lemma cookie_consts : CLIENT_COOKIE_LENGTH = 8 /\ MINIMUM_COOKIE_LENGTH = 16.
Proof. split; reflexivity. Qed.
Lemma safe0_cookie : safe0 rr_edns_cookie.
Proof.
  intros s W. unfold okat, rr_edns_cookie, bind.
  destruct (vec_cases s W) as [(Ho & -> & W')|(e0 & c & ->)]; [|exact I].
  cbv zeta. destruct cookie_consts as [C1 C2].
  set (s1 := {| d_rest := []; d_off := d_len s; d_len := d_len s; d_cost := d_cost s + (d_len s - d_off s) |}) in *.
  assert (L : forall {B} (m : DM B), safe0 m ->
              match m s1 with
              | DOk _ s' => dst_wf s' /\ d_len s' = d_len s /\ d_off s + 0 <= d_off s' /\ anyv tt
              | DErr _ _ => True | DPanic _ => False | DFuel => False end).
  { intros B m Hs. specialize (Hs s1 W'). unfold okat in Hs. destruct (m s1) as [a s'|e c|x|]; try exact Hs.
    destruct Hs as (S1 & S2 & S3 & _). unfold s1 in S2, S3. cbn [d_len d_off] in S2, S3.
    split; [exact S1|]. split; [exact S2|]. split; [lia|exact I]. }
  destruct (CLIENT_COOKIE_LENGTH =? lenN (d_rest s)) eqn:E1.
  - destruct (lenN (d_rest s) <? 8) eqn:E2; [lia|]. apply L. apply safe0_cookie_new.
  - destruct (cookie_len_ok (lenN (d_rest s))) eqn:E3; [|exact I].
    unfold cookie_len_ok in E3. apply andb_prop in E3. destruct E3 as [E3 _].
    destruct (lenN (d_rest s) <? 8) eqn:E2; [lia|]. apply L. apply safe0_cookie_new.
Qed.

Lemma safe0_padding : safe0 rr_edns_padding.
Proof.
  unfold rr_edns_padding. sbind. cbv zeta. sif; [sleaf|]. destruct (first_nonzero a); sleaf.
Qed.

Lemma safeP_option : safeP 2 anyv rr_edns_option.
Proof.
  unfold rr_edns_option. apply safeP_bind1 with (Q := anyv).
  - apply safeP_code. exact (safeP_any _ _ _ safeP_u16).
  - intros c _. apply safe0_bindQ with (j := 2) (Q := fun v => v < 65536); [exact safeP_u16|].
    intros len Hl. apply safeP_safe0 with (k := len) (Q := anyv). apply safeP_with_sub; [unfold WFMAX; lia|].
    sif; [|sif].
    + apply safe0_bind; [apply safe0_ecs|intro; apply safe0_ret].
    + apply safe0_bind; [apply safe0_cookie|intro; apply safe0_ret].
    + apply safe0_bind; [apply safe0_padding|intro; apply safe0_ret].
Qed.

Lemma safe0_opt_ttl ttl : safe0 (rr_opt_ttl ttl).
Proof. unfold rr_opt_ttl. cbv zeta. sauto0. Qed.

Lemma safe0_opt owner hclass ttl : safe0 (rr_opt owner hclass ttl).
Proof.
  unfold rr_opt. destruct owner; [|apply safeP_fail].
  apply safe0_bind; [apply safe0_opt_ttl|]. intros [[ext ver] dnssec].
  apply (safe0_many_loop anyv rr_edns_option (fun opts => ret (ROpt hclass ext ver dnssec opts))).
  - eapply safeP_weaken; [exact safeP_option|lia|auto].
  - intro l. apply safe0_ret.
Qed.

(* ---- APL ---- *)
Lemma land_127 b : N.land b ADDRESS_LENGTH_MASK < 128.
Proof.
  change ADDRESS_LENGTH_MASK with (N.ones 7). rewrite N.land_ones.
  change (2 ^ 7) with 128. apply N.mod_lt. lia.
Qed.
Lemma safeP_apitem : safeP 2 anyv rr_apl_apitem.
Proof.
  unfold rr_apl_apitem. apply safeP_bind1 with (Q := anyv); [exact safe0_family|].
  intros fam _. sbind. sbind. cbv zeta.
  apply safe0_bindQ with (j := N.land a0 ADDRESS_LENGTH_MASK) (Q := addr_wf).
  - apply safeP_with_sub; [pose proof (land_127 a0); unfold WFMAX; lia|apply safeP_address].
  - intros ad Ha. apply safe0_apitem_new. exact Ha.
Qed.
Lemma safe0_apl hclass : safe0 (rr_apl hclass).
Proof.
  unfold rr_apl. apply safe0_bind; [apply safe0_class_rule|intros _].
  apply (safe0_many_loop anyv rr_apl_apitem (fun items => ret (RApl items))).
  - eapply safeP_weaken; [exact safeP_apitem|lia|auto].
  - intro l. apply safe0_ret.
Qed.

(* ---- SVCB / HTTPS ---- *)
Lemma safe0_service_parameter key : safe0 (rr_service_parameter key).
Proof.
  unfold rr_service_parameter.
  sif. { apply (safe0_many_loop anyv u16 (fun l => ret (PMandatory l)));
         [eapply safeP_weaken; [exact safeP_u16|lia|intros; exact I]|intro; apply safe0_ret]. }
  sif. { apply (safe0_many_loop bytes_ok string_ (fun l => ret (PAlpn l)));
         [exact safeP_string|intro; apply safe0_ret]. }
  sif; [apply safe0_ret|].
  sif; [sauto0|].
  sif. { apply (safe0_many_loop anyv ipv4_addr (fun l => ret (PIpv4Hint l)));
         [eapply safeP_weaken; [exact safeP_ipv4|lia|auto]|intro; apply safe0_ret]. }
  sif; [sauto0|].
  sif. { apply (safe0_many_loop anyv ipv6_addr (fun l => ret (PIpv6Hint l)));
         [eapply safeP_weaken; [exact safeP_ipv6|lia|auto]|intro; apply safe0_ret]. }
  sauto0.
Qed.

Lemma svc_params_S f acc : svc_params (S f) acc =
  (fin <- is_finished ;;
   if fin then ret acc
   else key <- u16 ;; len <- u16 ;;
        p <- with_sub len (rr_service_parameter key) ;;
        let '(acc', inserted) := set_insert p acc in
        if inserted then svc_params f acc' else fail (ESVCBDuplicateKey, [key])).
Proof. reflexivity. Qed.

Lemma okat_svc_params :
  forall (fuel : nat) acc s, dst_wf s -> (N.to_nat (d_len s - d_off s) < fuel)%nat ->
  okat 0 anyv (svc_params fuel acc) s.
Proof.
  induction fuel as [|f IH]; intros acc s W Hf; [lia|].
  rewrite svc_params_S.
  destruct (is_finished_cases s) as [(Ho & E)|[(Ho & E)|(e & c & E)]].
  - unfold okat at 1, bind at 1. rewrite E.
    match goal with |- match ?m s with _ => _ end => change (okat 0 anyv m s) end.
    eapply okat_weaken with (k := 2 + 0) (Q := anyv); [|lia|auto].
    eapply okat_bind; [apply safeP_u16; exact W|].
    intros key s1 _ W1 L1 O1. change 0 with (0 + 0).
    eapply okat_bind; [eapply okat_weaken; [apply safeP_u16; exact W1|lia|intros a Ha; exact Ha]|].
    intros len s2 Hlen W2 L2 O2. cbv beta in Hlen. change 0 with (0 + 0).
    eapply okat_bind.
    { eapply okat_weaken with (Q' := anyv);
        [apply (okat_with_sub anyv len (rr_service_parameter key) s2);
           [unfold WFMAX; lia|apply safe0_service_parameter|exact W2]|lia|auto]. }
    intros p s3 _ W3 L3 O3. destruct (set_insert p acc) as [acc' inserted].
    destruct inserted; [|exact I]. apply IH; [exact W3|]. lia.
  - unfold okat, bind. rewrite E. unfold ret.
    split; [exact W|]. split; [reflexivity|]. split; [lia|exact I].
  - unfold okat, bind. rewrite E. exact I.
Qed.

Lemma safe0_service_binding hclass : safe0 (rr_service_binding main hclass).
Proof.
  unfold rr_service_binding. apply safe0_bind; [apply safe0_class_rule|intros _]. sbind. sbind.
  sif; [|apply safe0_ret].
  apply safeP_loop_fuel. intros s W. change 0 with (0 + 0).
  eapply okat_bind; [apply okat_svc_params; [exact W|lia]|].
  intros ps s' _ W' _ _. apply safe0_ret. exact W'.
Qed.

(* ---- rr/enums.rs: the dispatch on the TYPE ---- *)
Definition reader_ok (r : reader) : bool :=
  match r with RdFields _ f => fields_ok f | RdSpecial _ => true end.
Lemma dispatch_ok : forallb (fun p => reader_ok (snd p)) dec_dispatch = true.
Proof. vm_compute. reflexivity. Qed.
Lemma lookup_In {A} k (t : list (N * A)) v : lookup k t = Some v -> In (k, v) t.
Proof.
  induction t as [|[k' v'] r IH]; cbn [lookup]; [discriminate|].
  destruct (k =? k') eqn:E.
  - intro H. injection H as ->. apply N.eqb_eq in E. subst. left. reflexivity.
  - intro H. right. apply IH. exact H.
Qed.
Lemma lookup_dispatch_ok t r : lookup t dec_dispatch = Some r -> reader_ok r = true.
Proof.
  intro H. apply lookup_In in H. pose proof dispatch_ok as D. rewrite forallb_forall in D.
  exact (D _ H).
Qed.

Lemma safe0_rr_body type_ owner hclass ttl : safe0 (rr_body main type_ owner hclass ttl).
Proof.
  unfold rr_body. destruct (lookup type_ dec_dispatch) as [r|] eqn:E; [|apply safeP_fail].
  apply lookup_dispatch_ok in E. destruct r as [ck f|sp].
  - cbn [reader_ok] in E. apply safe0_bind; [apply safe0_class_rule|intro c].
    apply safe0_bind; [apply safe0_read_fields; exact E|intro vs]. apply safe0_ret.
  - destruct sp.
    + apply safe0_bind; [apply safe0_opt|intro; apply safe0_ret].
    + apply safe0_bind; [apply safe0_apl|intro; apply safe0_ret].
    + apply safe0_bind; [apply safe0_service_binding|intro; apply safe0_ret].
    + apply safe0_bind; [apply safe0_service_binding|intro; apply safe0_ret].
Qed.

Lemma safe0_rr_type : safe0 rr_type. Proof. unfold rr_type. auto with safe0. Qed.
Lemma safe0_rr_class : safe0 rr_class. Proof. unfold rr_class. auto with safe0. Qed.
Lemma safe0_q_type : safe0 rd_q_type. Proof. unfold rd_q_type. auto with safe0. Qed.
Lemma safe0_q_class : safe0 rd_q_class. Proof. unfold rd_q_class. auto with safe0. Qed.
Hint Resolve safe0_rr_type safe0_rr_class safe0_q_type safe0_q_class : safe0.

Lemma safeP_rr : safeP 1 anyv (rr_ main).
Proof.
  unfold rr_. apply safeP_bind1 with (Q := anyv); [exact (safeP_domain_name main Hb Hm)|].
  intros owner _. sbind. sbind. sbind.
  apply safe0_bindQ with (j := 2) (Q := fun v => v < 65536); [exact safeP_u16|].
  intros n Hn. apply safeP_safe0 with (k := n) (Q := anyv). apply safeP_with_sub; [unfold WFMAX; lia|apply safe0_rr_body].
Qed.
Lemma safe0_rr : safe0 (rr_ main). Proof. exact (safeP_safe0 _ _ _ safeP_rr). Qed.

Lemma safe0_question : safe0 (question_ main).
Proof. unfold question_. sauto0. Qed.

Lemma safe0_flags : safe0 flags_.
Proof. unfold flags_. sbind. cbv zeta. sif; [sleaf|]. sbind. cbv zeta. sauto0. Qed.

Lemma safe0_repeat {A} (m : DM A) n : safe0 m -> safe0 (repeat_dm n m).
Proof.
  intro H. induction n as [|n IH]; cbn [repeat_dm]; [apply safe0_ret|].
  apply safe0_bind; [exact H|intro x]. apply safe0_bind; [exact IH|intro r]. apply safe0_ret.
Qed.

Lemma safe0_dns : safe0 (dns_ main).
Proof.
  intros s W. unfold okat, dns_.
  destruct (negb (d_off s =? 0)); [exact I|]. cbv zeta.
  destruct (cmp_apply OP_dns_min (d_len s) DNS_MIN_LENGTH); [exact I|].
  destruct (cmp_apply OP_dns_max (d_len s) MAXIMUM_DNS_PACKET_SIZE); [exact I|].
  match goal with |- match ?m s with _ => _ end => change (okat 0 anyv m s) end.
  revert s W. match goal with |- forall s, dst_wf s -> okat 0 anyv ?m s => change (safe0 m) end.
  sbind. apply safe0_bind; [apply safe0_flags|intro fl]. sbind. sbind. sbind. sbind.
  apply safe0_bind; [apply safe0_repeat; apply safe0_question|intro qd].
  apply safe0_bind; [apply safe0_repeat; apply safe0_rr|intro an].
  apply safe0_bind; [apply safe0_repeat; apply safe0_rr|intro ns].
  apply safe0_bind; [apply safe0_repeat; apply safe0_rr|intro ar].
  sbind. sif; [apply safe0_ret|]. apply safeP_err.
Qed.
End Main.

(* ---- the public entry points ---- *)
Lemma run_total {A} (m : bytes -> DM A) b :
  bytes_ok b -> lenN b < WFMAX -> safe0 (m b) -> total (Dec.run m b).
Proof.
  intros Hb Hl H. unfold Dec.run. eapply okat_total. apply H. apply mk_main_wf; assumption.
Qed.

Theorem decode_total b : bytes_ok b -> lenN b < 2 ^ 62 ->
  total (dec_Dns b) /\ total (dec_Flags b) /\ total (dec_Question b) /\ total (dec_RR b) /\
  total (dec_DomainName b) /\ total (dec_Type b) /\ total (dec_Class b) /\
  total (dec_QType b) /\ total (dec_QClass b).
Proof.
  intros Hb Hl. rewrite <- WFMAX_val in Hl.
  split; [apply run_total; [assumption|assumption|apply safe0_dns; assumption]|].
  split; [apply run_total; [assumption|assumption|apply safe0_flags]|].
  split; [apply run_total; [assumption|assumption|apply safe0_question; assumption]|].
  split; [apply run_total; [assumption|assumption|apply safe0_rr; assumption]|].
  split; [apply run_total; [assumption|assumption|apply safe0_domain_name; assumption]|].
  split; [apply run_total; [assumption|assumption|apply safe0_rr_type]|].
  split; [apply run_total; [assumption|assumption|apply safe0_rr_class]|].
  split; [apply run_total; [assumption|assumption|apply safe0_q_type]|].
  apply run_total; [assumption|assumption|apply safe0_q_class].
Qed.

(* the accessors are total functions; None exactly for OPT *)
Lemma accessors_total (r : rr) :
  (rr_get_ttl r = None <-> r_type r = 41) /\ (rr_get_class r = None <-> r_type r = 41) /\
  (r_type r <> 41 -> rr_get_ttl r = Some (r_ttl r) /\ rr_get_class r = Some (r_class r)).
Proof.
  unfold rr_get_ttl, rr_get_class, TYPE_OPT. destruct (r_type r =? 41) eqn:E.
  - apply N.eqb_eq in E. split; [tauto|]. split; [tauto|]. intro H. contradiction.
  - apply N.eqb_neq in E. split; [split; [discriminate|contradiction]|].
    split; [split; [discriminate|contradiction]|]. intros _. split; reflexivity.
Qed.

(* the same on every well-formed decoder state (any offset, any window of at most 2^62 octets over
   any outermost buffer [main]): the readers as methods of an existing Decoder *)
Theorem readers_total main s : bytes_ok main -> lenN main < 2 ^ 62 -> dst_wf s ->
  total (dns_ main s) /\ total (flags_ s) /\ total (question_ main s) /\ total (rr_ main s) /\
  total (domain_name main s) /\ total (rr_type s) /\ total (rr_class s) /\
  total (rd_q_type s) /\ total (rd_q_class s).
Proof.
  intros Hb Hl W. rewrite <- WFMAX_val in Hl.
  split; [eapply okat_total; apply safe0_dns; assumption|].
  split; [eapply okat_total; apply safe0_flags; assumption|].
  split; [eapply okat_total; apply safe0_question; assumption|].
  split; [eapply okat_total; apply safe0_rr; assumption|].
  split; [eapply okat_total; apply safe0_domain_name; assumption|].
  split; [eapply okat_total; apply safe0_rr_type; assumption|].
  split; [eapply okat_total; apply safe0_rr_class; assumption|].
  split; [eapply okat_total; apply safe0_q_type; assumption|].
  eapply okat_total; apply safe0_q_class; assumption.
Qed.
