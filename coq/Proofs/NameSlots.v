(* C06: the encoder's length slots (create_length_index / set_length_index /
   set_address_length_index) only touch octets outside the name writer's mask. *)
From DNS Require Import Model.Enc Spec.Names Proofs.ListN Proofs.NameLayer Proofs.NameLoop Proofs.NameMain.
Require Import ZArith ZifyBool ZifyN ZifyNat.
Local Open Scope N_scope.
Ltac Zify.zify_post_hook ::= Z.div_mod_to_equations.

Lemma unmasked_app mask m2 i k : unmasked mask i k -> unmasked (mask ++ m2) i k.
Proof.
  intros H j H1 H2. specialize (H j H1 H2). unfold nthN in *.
  rewrite nth_opt_app_l; [exact H|]. eapply nth_opt_some_lt. exact H.
Qed.

Lemma unmasked_new mask k : unmasked (mask ++ repeat false (N.to_nat k)) (lenN mask) k.
Proof.
  intros j H1 H2. unfold nthN. unfold lenN in *.
  rewrite nth_opt_app_r by lia. apply nth_opt_repeat. lia.
Qed.

(* reserving a 16-bit length slot: two unmasked octets at the returned index *)
Lemma create_length_index_preserves s mask : InvM s mask ->
  exists s', create_length_index s = EOk (lenN (e_buf s)) s' /\
             e_buf s' = e_buf s ++ [0; 0] /\
             InvM s' (mask ++ [false; false]) /\
             unmasked (mask ++ [false; false]) (lenN (e_buf s)) 2.
Proof.
  intros HI. destruct (put_preserves s mask (u16b 0) HI) as (s' & Hrun & Hb & HI').
  exists s'. unfold create_length_index, buf_len, eu16, ebind, eret. rewrite Hrun.
  split; [reflexivity|]. split; [exact Hb|]. split; [exact HI'|].
  pose proof HI as (HL & _).
  replace (lenN (e_buf s)) with (lenN mask) by (unfold lenN; rewrite HL; reflexivity).
  exact (unmasked_new mask 2).
Qed.

Lemma set_length_index_preserves s mask li s' :
  InvM s mask -> unmasked mask li 2 -> set_length_index li s = EOk tt s' ->
  InvM s' mask /\ exists v, e_buf s' = patch li (u16b v) (e_buf s).
Proof.
  intros HI Hu. unfold set_length_index, buf_len, ebind.
  destruct (lenN (e_buf s) <? li + 2) eqn:E1; [discriminate|]. apply N.ltb_ge in E1.
  destruct (lenN (e_buf s) - (li + 2) <? POW16) eqn:E2; [|discriminate].
  intros Hrun.
  destruct (set_u16_preserves s mask (lenN (e_buf s) - (li + 2)) li HI E1 Hu) as (s2 & Hrun2 & Hb & HI2).
  rewrite Hrun2 in Hrun. inversion Hrun; subst s2. split; [exact HI2|]. eexists. exact Hb.
Qed.

Lemma set_address_length_index_preserves s mask neg ali s' :
  InvM s mask -> unmasked mask ali 1 -> set_address_length_index neg ali s = EOk tt s' ->
  InvM s' mask /\ exists v, e_buf s' = patch ali (u8b v) (e_buf s).
Proof.
  intros HI Hu. unfold set_address_length_index, buf_len, ebind.
  destruct (lenN (e_buf s) <? ali + 1) eqn:E1; [discriminate|]. apply N.ltb_ge in E1.
  destruct (lenN (e_buf s) - (ali + 1) <? 256) eqn:E2; [|discriminate].
  destruct (cmp_apply OP_apl_len (lenN (e_buf s) - (ali + 1)) APL_NEGATION_MASK) eqn:E3; [|discriminate].
  intros Hrun.
  match type of Hrun with set_u8 ?v _ _ = _ =>
    destruct (set_u8_preserves s mask v ali HI E1 Hu) as (s2 & Hrun2 & Hb & HI2) end.
  rewrite Hrun2 in Hrun. inversion Hrun; subst s2. split; [exact HI2|]. eexists. exact Hb.
Qed.

(* a complete encoder function as a composition of the step lemmas: Question *)
Lemma enc_question_preserves s mask q :
  InvM s mask -> name_ok (q_name q) -> lenN (e_buf s) + name_wire_len (q_name q) <= 65536 ->
  exists s' w, enc_question q s = EOk tt s' /\
               e_buf s' = e_buf s ++ w ++ u16b (q_type q) ++ u16b (q_class q) /\
               InvM s' ((mask ++ repeat true (length w)) ++ [false; false; false; false]).
Proof.
  intros HI Hn Hsz.
  destruct (enc_domain_name_ok s mask _ HI Hn Hsz) as (s1 & w & Hrun1 & Hb1 & _ & _ & _ & HI1).
  destruct (put_preserves s1 _ (u16b (q_type q)) HI1) as (s2 & Hrun2 & Hb2 & HI2).
  destruct (put_preserves s2 _ (u16b (q_class q)) HI2) as (s3 & Hrun3 & Hb3 & HI3).
  exists s3, w. unfold enc_question, eu16.
  rewrite (ebind_ok _ _ _ _ _ Hrun1), (ebind_ok _ _ _ _ _ Hrun2), Hrun3.
  split; [reflexivity|]. split; [rewrite Hb3, Hb2, Hb1; norm_app; reflexivity|].
  revert HI3. cbn [u16b length repeat]. norm_app. intros HI3. exact HI3.
Qed.
