(* C02 — every decoded value is well formed (part 2): field lists, the special RDATA readers,
   records, questions, header flags. *)
From Coq Require Import ZArith ZifyBool ZifyN ZifyNat.
From DNS Require Import Model.Dec Model.Enc Proofs.DecBase Proofs.DecName Proofs.DecNameSpec Proofs.C12
  Proofs.DecSafe Proofs.DecTotal Proofs.SvcbSet Proofs.SvcbDec Proofs.EncTyped
  Proofs.RtBase Proofs.RtPrim Proofs.RtFields Proofs.RtRecord Proofs.RtSpecial Proofs.RtApl Proofs.RtMsg
  Proofs.C05 Proofs.RtDecWf.
Local Open Scope N_scope.
Ltac Zify.zify_post_hook ::= Z.div_mod_to_equations.

Lemma valP_panic {A} (Q : A -> Prop) x : valP Q (@panic A x).
Proof. intros s a s' _ E. discriminate. Qed.

Lemma land_255 (a : N) : N.land a 255 < 256.
Proof. change 255 with (N.ones 8). rewrite N.land_ones. apply N.mod_lt. discriminate. Qed.
Lemma land_15 (a : N) : N.land a 15 < 16.
Proof. change 15 with (N.ones 4). rewrite N.land_ones. apply N.mod_lt. discriminate. Qed.

Lemma land_mask127 (a : N) : N.land a ADDRESS_LENGTH_MASK < 128.
Proof. change ADDRESS_LENGTH_MASK with (N.ones 7). rewrite N.land_ones. apply N.mod_lt. discriminate. Qed.

Lemma addr_wf_wfb (a : addr) : addr_wf a -> addr_wfb a = true.
Proof.
  intros [Hf Ho]. unfold addr_wfb. rewrite (bytes_ok_okb (a_oct a) Ho). lia.
Qed.

Lemma vals_wf_app : forall (ks1 : list fk) (vs1 : list fv) (ks2 : list fk) (vs2 : list fv),
  vals_wf ks1 vs1 = true -> vals_wf ks2 vs2 = true -> vals_wf (ks1 ++ ks2) (vs1 ++ vs2) = true.
Proof.
  induction ks1 as [|k ks1 IH]; intros [|v vs1] ks2 vs2 H1 H2; cbn [vals_wf] in H1; try discriminate; [exact H2|].
  cbn [app vals_wf]. apply andb_true_iff in H1. destruct H1 as [Ha Hb]. rewrite Ha. cbn [andb]. apply IH; assumption.
Qed.

(* ---- the converse table agreement: what the decoder dispatches on, the encoder knows ---- *)
Definition special_type (sp : special) : N :=
  match sp with SpOpt => 41 | SpApl => 42 | SpSvcb => 64 | SpHttps => 65 end.
Definition dec_entry_agrees (t : N) : Prop :=
  match lookup t dec_dispatch with
  | Some (RdFields ck f) =>
    exists ec, lookup t enc_dispatch = Some (WrFields ec f) /\ class_match ec ck = true /\ fields_ok f = true
  | Some (RdSpecial sp) => lookup t enc_dispatch = Some (WrSpecial sp) /\ t = special_type sp
  | None => True
  end.
Lemma dec_table_agrees : Forall (fun p : N * reader => dec_entry_agrees (fst p)) dec_dispatch.
Proof.
  unfold dec_dispatch.
  repeat (apply Forall_cons;
          [vm_compute; first [split; reflexivity | eexists; split; [reflexivity|split; reflexivity]]|]).
  apply Forall_nil.
Qed.
Lemma dec_entry_lookup (t : N) (r : reader) : lookup t dec_dispatch = Some r -> dec_entry_agrees t.
Proof. intros H. apply lookup_in in H. exact (proj1 (Forall_forall _ _) dec_table_agrees (t, r) H). Qed.

Section Main.
Variable main : bytes.
Hypothesis Hb : bytes_ok main.
Hypothesis Hm : lenN main < WFMAX.

Lemma valP_read_fields (f : list (string * fk)) : fields_ok f = true ->
  valP (fun vs => vals_wf (map snd (filter (fun p => has_value (snd p)) f)) vs = true) (read_fields main f).
Proof.
  induction f as [|[nm k] r IH]; intro H; cbn [read_fields]; [apply valP_ret; reflexivity|].
  unfold fields_ok in H. cbn [forallb snd] in H. apply andb_prop in H. destruct H as [H1 H2].
  apply (valP_bind _ _ _ _ (safe0_read_field main Hb Hm k H1) (valP_read_field main Hb Hm k H1)). intros v Hv.
  apply (valP_bind _ _ _ _ (safe0_read_fields main Hb Hm r H2) (IH H2)). intros vs Hvs.
  apply valP_ret. cbn [filter snd]. unfold field_post in Hv.
  destruct (has_value k); cbn [map snd]; [apply (vals_wf_app [k] v _ vs Hv Hvs)|].
  destruct v; [exact Hvs|discriminate].
Qed.

Lemma valP_class_rule (ck : classrule) (hclass : N) :
  valP (fun c => match ck with
                 | CKAny => c = hclass /\ in_table Class_table c = true
                 | CKIn _ => c = hclass /\ c = 1
                 | CKNone => True
                 end)
       (class_rule ck hclass).
Proof.
  destruct ck; cbn [class_rule].
  - unfold get_class. destruct (in_table Class_table hclass) eqn:E; [apply valP_ret; split; [reflexivity|exact E]|apply valP_fail].
  - apply (valP_bind (fun c => c = hclass)); [apply safe0_get_class| |].
    + unfold get_class. destruct (in_table Class_table hclass); [apply valP_ret; reflexivity|apply valP_fail].
    + intros c ->. destruct (hclass =? CLASS_IN) eqn:E; [|apply valP_fail].
      apply valP_ret. unfold CLASS_IN in E. split; [reflexivity|lia].
  - apply valP_ret. exact I.
Qed.

(* ================= OPT ================= *)
Lemma valP_opt_ttl (ttl : N) : valP (fun p : N * N * bool => fst (fst p) < 256 /\ snd (fst p) < 256) (rr_opt_ttl ttl).
Proof.
  intros s [[ext ver] dn] s' _ E. unfold rr_opt_ttl in E. cbv zeta in E.
  change (snd DEC_OPT_extend_rcode) with 255 in E. change (snd DEC_OPT_version) with 255 in E.
  remember (N.land (N.shiftr ttl (fst DEC_OPT_extend_rcode)) 255) as x eqn:Hx.
  remember (N.land (N.shiftr ttl (fst DEC_OPT_version)) 255) as y eqn:Hy.
  assert (x < 256 /\ y < 256) as Hxy by (subst x y; split; apply land_255). clear Hx Hy.
  match type of E with (if ?c then _ else _) _ = _ => destruct c end.
  - match type of E with (if ?c then _ else _) _ = _ => destruct c end; [discriminate|].
    unfold ret in E. injection E as <- <- _ _. exact Hxy.
  - match type of E with (if ?c then _ else _) _ = _ => destruct c end; [|discriminate].
    match type of E with (if ?c then _ else _) _ = _ => destruct c end; [discriminate|].
    unfold ret in E. injection E as <- <- _ _. exact Hxy.
Qed.

Lemma valP_ecs : valP (fun e => opt_wfb (OEcs e) = true) rr_edns_ecs.
Proof.
  unfold rr_edns_ecs. apply valP_bind0; [exact (safeP_safe0 _ _ _ safe0_family)|]. intros fam.
  apply (valP_bind _ _ _ _ safe0_u8 valP_u8). intros src Hsrc.
  apply (valP_bind _ _ _ _ safe0_u8 valP_u8). intros scope Hscope.
  apply (valP_bind addr_wf); [exact (safeP_safe0 _ _ _ (safeP_address main Hm fam))|exact (valP_safeP _ _ _ (safeP_address main Hm fam))|].
  intros a Ha. apply valP_lift. intros e He. unfold ecs_new, ecs_check in He. cbn [e_addr] in He.
  destruct (check_prefix a (ecs_prefix {| e_src := src; e_scope := scope; e_addr := a |})) as [[]| | |] eqn:Ec; try discriminate.
  injection He as <-. cbn [opt_wfb e_addr e_src e_scope]. rewrite (addr_wf_wfb a Ha), Ec. cbn [is_ok andb]. lia.
Qed.

Lemma valP_cookie : valP (fun c => opt_wfb (OCookie c) = true) rr_edns_cookie.
Proof.
  unfold rr_edns_cookie. apply (valP_bind _ _ _ _ safe0_vec valP_vec). intros v Hv. cbv zeta.
  change CLIENT_COOKIE_LENGTH with 8.
  destruct (8 =? lenN v) eqn:E8.
  - destruct (lenN v <? 8); [apply valP_panic|]. apply valP_lift. intros c Hc.
    unfold cookie_new, cookie_set_server in Hc. injection Hc as <-. cbn [opt_wfb c_client c_server].
    rewrite (bytes_ok_okb _ (bytes_ok_takeN 8 v Hv)), lenN_takeN. lia.
  - destruct (cookie_len_ok (lenN v)) eqn:Eok; [|apply valP_fail].
    destruct (lenN v <? 8) eqn:E; [apply valP_panic|]. apply valP_lift. intros c Hc.
    unfold cookie_new, cookie_set_server in Hc. cbv zeta in Hc.
    destruct (server_len_ok (lenN (dropN 8 v))) eqn:Es; [|discriminate]. injection Hc as <-.
    cbn [opt_wfb c_client c_server].
    rewrite (bytes_ok_okb _ (bytes_ok_takeN 8 v Hv)), (bytes_ok_okb _ (bytes_ok_dropN 8 v Hv)), lenN_takeN.
    unfold server_len_ok in Es. change MINIMUM_SERVER_COOKIE_LENGTH with 8 in Es.
    change MAXIMUM_SERVER_COOKIE_LENGTH with 32 in Es. change COOKIE_NEW_RANGE_INCL with true in Es. cbv iota in Es. lia.
Qed.

Lemma valP_padding : valP (fun n => n < 65536) rr_edns_padding.
Proof.
  unfold rr_edns_padding. apply valP_bind0; [apply safe0_vec|]. intros p. cbv zeta.
  destruct (POW16 <=? lenN p) eqn:E; [apply valP_fail|].
  destruct (first_nonzero p); [apply valP_fail|]. apply valP_ret. unfold POW16 in E. lia.
Qed.

Lemma valP_option : valP (fun o => opt_wfb o = true) rr_edns_option.
Proof.
  unfold rr_edns_option.
  apply valP_bind0; [apply safe0_code, safe0_u16|]. intros c.
  apply (valP_bind _ _ _ _ safe0_u16 valP_u16). intros len Hlen.
  apply valP_with_sub; [unfold WFMAX; lia|].
  destruct (c =? OPT_ECS).
  - apply (valP_bind _ _ _ _ (safe0_ecs main Hm) valP_ecs). intros e He. apply valP_ret, He.
  - destruct (c =? OPT_COOKIE).
    + apply (valP_bind _ _ _ _ (safe0_cookie main Hm) valP_cookie). intros k Hk. apply valP_ret, Hk.
    + apply (valP_bind _ _ _ _ safe0_padding valP_padding). intros p Hp. apply valP_ret. cbn [opt_wfb]. lia.
Qed.

Lemma valP_opt (owner : name) (hclass ttl : N) :
  valP (fun d => owner = [] /\ exists ext ver dnssec opts,
                   d = ROpt hclass ext ver dnssec opts /\ ext < 256 /\ ver < 256 /\ forallb opt_wfb opts = true)
       (rr_opt owner hclass ttl).
Proof.
  unfold rr_opt. destruct owner as [|l n]; [|apply valP_fail].
  apply (valP_bind _ _ _ _ (safe0_opt_ttl ttl) (valP_opt_ttl ttl)). intros [[ext ver] dn] [He Hv]. cbn [fst snd] in He, Hv.
  apply (valP_many_loop (fun o => opt_wfb o = true)).
  - exact (safeP_safe0 _ _ _ (safeP_option main Hm)).
  - exact valP_option.
  - intros opts Ho. apply valP_ret. split; [reflexivity|]. exists ext, ver, dn, opts.
    split; [reflexivity|]. split; [exact He|]. split; [exact Hv|].
    apply forallb_forall. rewrite Forall_forall in Ho. exact Ho.
Qed.

(* ================= APL ================= *)
Lemma valP_apitem : valP (fun i => apitem_wfb i = true) rr_apl_apitem.
Proof.
  unfold rr_apl_apitem. apply valP_bind0; [exact (safeP_safe0 _ _ _ safe0_family)|]. intros fam.
  apply (valP_bind _ _ _ _ safe0_u8 valP_u8). intros prefix Hp.
  apply valP_bind0; [apply safe0_u8|]. intros buffer. cbv zeta.
  assert (N.land buffer ADDRESS_LENGTH_MASK < WFMAX) as Hw by (pose proof (land_mask127 buffer); unfold WFMAX; lia).
  apply (valP_bind addr_wf).
  - exact (safeP_safe0 _ _ _ (safeP_with_sub addr_wf _ _ Hw (safeP_address main Hm fam))).
  - apply valP_with_sub; [exact Hw|exact (valP_safeP _ _ _ (safeP_address main Hm fam))].
  - intros a Ha. apply valP_lift. intros i Hi. unfold apitem_new in Hi.
    destruct (check_prefix a prefix) as [[]| | |] eqn:Ec; try discriminate. injection Hi as <-.
    unfold apitem_wfb. cbn [i_addr i_prefix]. rewrite (addr_wf_wfb a Ha), Ec. cbn [is_ok andb]. lia.
Qed.

Lemma valP_apl (hclass : N) :
  valP (fun d => hclass = 1 /\ exists items, d = RApl items /\ forallb apitem_wfb items = true) (rr_apl hclass).
Proof.
  unfold rr_apl.
  apply (valP_bind _ _ _ _ (safe0_class_rule _ _) (valP_class_rule (CKIn EAPLClass) hclass)). intros c Hc.
  assert (hclass = 1) as Hh by (destruct Hc as [<- H1]; exact H1).
  apply (valP_many_loop (fun i => apitem_wfb i = true)).
  - exact (safeP_safe0 _ _ _ (safeP_apitem main Hm)).
  - exact valP_apitem.
  - intros items Hi. apply valP_ret. split; [exact Hh|]. exists items. split; [reflexivity|].
    apply forallb_forall. rewrite Forall_forall in Hi. exact Hi.
Qed.
End Main.
