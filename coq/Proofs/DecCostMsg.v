(* C07 — the work of the decoder is linear in the input (continued): every reader of the model is
   [costly] (Proofs/DecCost.v) with an explicit weight per nesting level:
     1    inside the innermost windows (EDNS option, APL address, SvcParam value): plain octets
     289  inside RDATA: names (<= 289 octets examined per accepted name, >= 1 octet consumed) and the
          inner windows (1 + 1)
     290  at message level: names, and RDATA windows (289 + 1)
   and the entry points: cost <= 290 * length + 544. *)
From Coq Require Import ZifyBool ZifyN ZifyNat.
From DNS Require Import Model.Dec Proofs.DecBase Proofs.DecName Proofs.DecNameSpec Proofs.DecSafe Proofs.DecTotal
  Proofs.DecCost.
Local Open Scope N_scope.

Definition cost_of {A} (r : dres A) : N :=
  match r with DOk _ s => d_cost s | DErr _ c => c | DPanic _ => 0 | DFuel => 0 end.

(* ---- field readers (every field kind of the vocabulary, whatever the generated tables contain) ---- *)
Lemma costly_read_field (w : N) (main : bytes) (k : fk) : bytes_ok main -> lenN main < WFMAX -> 289 <= w ->
  costly w (read_field main k).
Proof.
  intros Hb Hm Hw. pose proof (costly_domain_name w main Hb Hm Hw) as Hn.
  destruct k; cbn [read_field]; try solve [kauto]; try solve [apply costly_bind; [exact Hn|intro; kleaf]].
  kb. apply costly_bind; [apply costly_strings_loop; lia|]. intros [|x r]; kleaf.
Qed.
Lemma costly_read_fields (w : N) (main : bytes) (f : list (string * fk)) :
  bytes_ok main -> lenN main < WFMAX -> 289 <= w -> costly w (read_fields main f).
Proof.
  intros Hb Hm Hw. induction f as [|[nm k] r IH]; cbn [read_fields]; [apply costly_ret|].
  apply costly_bind; [apply costly_read_field; assumption|intro]. apply costly_bind; [exact IH|intro]. apply costly_ret.
Qed.
Lemma costly_get_class (w c : N) : costly w (get_class c).
Proof. unfold get_class. kauto. Qed.
Lemma costly_class_rule (w : N) (ck : classrule) (c : N) : costly w (class_rule ck c).
Proof.
  destruct ck; cbn [class_rule]; [apply costly_get_class| |apply costly_ret].
  apply costly_bind; [apply costly_get_class|intro]. kauto.
Qed.

(* ---- special RDATA readers: innermost windows ---- *)
Lemma costly_address_sized (w size : N) (op : cmp) (t : etag) (x : site) : 1 <= w ->
  costly w (rr_address_sized size op t x).
Proof. intro Hw. unfold rr_address_sized. kb. cbv zeta. kauto. Qed.
Lemma costly_address (w fam : N) : 1 <= w -> costly w (rr_address fam).
Proof. intro Hw. unfold rr_address. kif; (apply costly_bind; [apply costly_address_sized; exact Hw|intro; kleaf]). Qed.
Lemma costly_family (w : N) : 1 <= w -> costly w rr_address_family_number.
Proof. intro Hw. unfold rr_address_family_number. kauto. Qed.
Lemma costly_ecs (w : N) : 1 <= w -> costly w rr_edns_ecs.
Proof.
  intro Hw. unfold rr_edns_ecs. apply costly_bind; [exact (costly_family w Hw)|intro]. kb. kb.
  apply costly_bind; [apply costly_address; exact Hw|intro]. kleaf.
Qed.
Lemma costly_cookie (w : N) : 1 <= w -> costly w rr_edns_cookie.
Proof. intro Hw. unfold rr_edns_cookie. kb. cbv zeta. kauto. Qed.
Lemma costly_padding (w : N) : 1 <= w -> costly w rr_edns_padding.
Proof.
  intro Hw. unfold rr_edns_padding. kb. cbv zeta. kif; [kleaf|].
  match goal with |- costly _ (match ?x with _ => _ end) => destruct x end; kleaf.
Qed.
Lemma costly_edns_option (w : N) : 2 <= w -> costly w rr_edns_option.
Proof.
  intro Hw. unfold rr_edns_option. kb. kb. apply (costly_with_sub 1 w); [lia|]. kif; [|kif].
  - apply costly_bind; [apply costly_ecs; lia|intro; kleaf].
  - apply costly_bind; [apply costly_cookie; lia|intro; kleaf].
  - apply costly_bind; [apply costly_padding; lia|intro; kleaf].
Qed.
Lemma costly_opt (w : N) (owner : name) (hclass ttl : N) : 2 <= w -> costly w (rr_opt owner hclass ttl).
Proof.
  intro Hw. unfold rr_opt. destruct owner; [|kleaf].
  apply costly_bind; [unfold rr_opt_ttl; cbv zeta; kauto|]. intros [[ext ver] dnssec].
  apply (costly_many_loop w rr_edns_option (fun opts => ret (ROpt hclass ext ver dnssec opts)));
    [exact (costly_edns_option w Hw)|].
  intro. apply costly_ret.
Qed.
Lemma costly_apitem (w : N) : 2 <= w -> costly w rr_apl_apitem.
Proof.
  intro Hw. unfold rr_apl_apitem. apply costly_bind; [apply costly_family; lia|intro]. kb. kb. cbv zeta.
  apply costly_bind; [apply (costly_with_sub 1 w); [lia|apply costly_address; lia]|intro]. kleaf.
Qed.
Lemma costly_apl (w hclass : N) : 2 <= w -> costly w (rr_apl hclass).
Proof.
  intro Hw. unfold rr_apl. apply costly_bind; [apply costly_class_rule|intro].
  apply (costly_many_loop w rr_apl_apitem (fun items => ret (RApl items))); [exact (costly_apitem w Hw)|].
  intro. apply costly_ret.
Qed.
Lemma costly_service_parameter (w key : N) : 1 <= w -> costly w (rr_service_parameter key).
Proof.
  intro Hw. unfold rr_service_parameter.
  kif. { apply (costly_many_loop w u16 (fun l => ret (PMandatory l))); [exact (costly_u16 w Hw)|intro; apply costly_ret]. }
  kif. { apply (costly_many_loop w string_ (fun l => ret (PAlpn l))); [exact (costly_string w Hw)|intro; apply costly_ret]. }
  kif; [kleaf|]. kif; [kauto|].
  kif. { apply (costly_many_loop w ipv4_addr (fun l => ret (PIpv4Hint l))); [exact (costly_ipv4 w Hw)|intro; apply costly_ret]. }
  kif; [kauto|].
  kif. { apply (costly_many_loop w ipv6_addr (fun l => ret (PIpv6Hint l))); [exact (costly_ipv6 w Hw)|intro; apply costly_ret]. }
  kauto.
Qed.
Lemma costly_svc_params (w : N) : 2 <= w -> forall (f : nat) (acc : list svcparam), costly w (svc_params f acc).
Proof.
  intro Hw. induction f as [|f IH]; intro acc; [apply costly_fuel|].
  rewrite svc_params_S. kb. kif; [kleaf|]. kb. kb.
  apply costly_bind; [apply (costly_with_sub 1 w); [lia|apply costly_service_parameter; lia]|intro p].
  destruct (set_insert p acc) as [acc' ins]. destruct ins; [apply IH|kleaf].
Qed.
Lemma costly_service_binding (w : N) (main : bytes) (hclass : N) : bytes_ok main -> lenN main < WFMAX -> 289 <= w ->
  costly w (rr_service_binding main hclass).
Proof.
  intros Hb Hm Hw. unfold rr_service_binding. apply costly_bind; [apply costly_class_rule|intro]. kb.
  apply costly_bind; [apply costly_domain_name; assumption|intro].
  kif; [|kleaf]. kb. apply costly_bind; [apply costly_svc_params; lia|intro; kleaf].
Qed.

(* ---- RDATA: for every dispatch table ---- *)
Theorem costly_rr_body (w : N) (main : bytes) (t : N) (owner : name) (hclass ttl : N) :
  bytes_ok main -> lenN main < WFMAX -> 289 <= w -> costly w (rr_body main t owner hclass ttl).
Proof.
  intros Hb Hm Hw. unfold rr_body. destruct (lookup t dec_dispatch) as [[ck f|sp]|]; [| |kleaf].
  - apply costly_bind; [apply costly_class_rule|intro].
    apply costly_bind; [apply costly_read_fields; assumption|intro]. kleaf.
  - destruct sp.
    + apply costly_bind; [apply costly_opt; lia|intro; kleaf].
    + apply costly_bind; [apply costly_apl; lia|intro; kleaf].
    + apply costly_bind; [apply costly_service_binding; assumption|intro; kleaf].
    + apply costly_bind; [apply costly_service_binding; assumption|intro; kleaf].
Qed.

(* ---- message level ---- *)
Lemma costly_rr (w : N) (main : bytes) : bytes_ok main -> lenN main < WFMAX -> 290 <= w -> costly w (rr_ main).
Proof.
  intros Hb Hm Hw. unfold rr_. apply costly_bind; [apply costly_domain_name; [assumption|assumption|lia]|intro owner].
  unfold rr_type. kb. kb. kb. kb.
  apply (costly_with_sub 289 w); [lia|]. apply costly_rr_body; [assumption|assumption|lia].
Qed.
Lemma costly_question (w : N) (main : bytes) : bytes_ok main -> lenN main < WFMAX -> 289 <= w ->
  costly w (question_ main).
Proof.
  intros Hb Hm Hw. unfold question_. apply costly_bind; [apply costly_domain_name; assumption|intro].
  unfold rd_q_type, rd_q_class. kauto.
Qed.
Lemma costly_flags (w : N) : 1 <= w -> costly w flags_.
Proof. intro Hw. unfold flags_. kb. cbv zeta. kif; [kleaf|]. kb. cbv zeta. kauto. Qed.

Lemma costly_dns (w : N) (main : bytes) : bytes_ok main -> lenN main < WFMAX -> 290 <= w -> costly w (dns_ main).
Proof.
  intros Hb Hm Hw s W Ho. unfold cat, dns_.
  destruct (negb (d_off s =? 0)); [apply le_self_err|]. cbv zeta.
  destruct (cmp_apply OP_dns_min (d_len s) DNS_MIN_LENGTH); [apply le_self_err|].
  destruct (cmp_apply OP_dns_max (d_len s) MAXIMUM_DNS_PACKET_SIZE); [apply le_self_err|].
  match goal with |- match ?m s with _ => _ end => change (cat w m s) end.
  revert s W Ho. match goal with |- forall s, dst_wf s -> d_off s <= d_len s -> cat w ?m s => change (costly w m) end.
  kb. apply costly_bind; [apply costly_flags; lia|intro fl]. kb. kb. kb. kb.
  apply costly_bind; [apply costly_repeat; apply costly_question; [assumption|assumption|lia]|intro qd].
  apply costly_bind; [apply costly_repeat; apply costly_rr; assumption|intro an].
  apply costly_bind; [apply costly_repeat; apply costly_rr; assumption|intro ns].
  apply costly_bind; [apply costly_repeat; apply costly_rr; assumption|intro ar].
  kb. kif; [apply costly_ret|]. apply costly_err.
Qed.

(* ---- the public entry points ---- *)
Lemma run_cost {A} (w : N) (m : bytes -> DM A) (b : bytes) : bytes_ok b -> lenN b < WFMAX -> costly w (m b) ->
  cost_of (Dec.run m b) <= w * lenN b + 544.
Proof.
  intros Hb Hl H. unfold Dec.run. specialize (H (mk_main b) (mk_main_wf b Hb Hl)).
  unfold cat in H. cbn [mk_main d_off d_len d_cost] in H. specialize (H (N.le_0_l _)).
  destruct (m b (mk_main b)) as [a s'|e c|x|]; cbn [cost_of].
  - destruct H as (_ & _ & _ & H4 & H5). rewrite N.sub_0_r in H5.
    pose proof (mul_mono w w (d_off s') (lenN b) (N.le_refl _) H4). lia.
  - rewrite N.sub_0_r in H. lia.
  - apply N.le_0_l.
  - apply N.le_0_l.
Qed.

Theorem work_linear_Dns (b : bytes) : bytes_ok b -> lenN b < 2 ^ 62 -> cost_of (dec_Dns b) <= 290 * lenN b + 544.
Proof.
  intros Hb Hl. rewrite <- WFMAX_val in Hl. apply run_cost; [assumption|assumption|].
  apply costly_dns; [assumption|assumption|lia].
Qed.
Theorem work_linear_RR (b : bytes) : bytes_ok b -> lenN b < 2 ^ 62 -> cost_of (dec_RR b) <= 290 * lenN b + 544.
Proof.
  intros Hb Hl. rewrite <- WFMAX_val in Hl. apply run_cost; [assumption|assumption|].
  apply costly_rr; [assumption|assumption|lia].
Qed.

(* ---- readers of bounded work: at most [k] octets examined on a value, at most [e] on an error value ---- *)
Definition cbound {A} (k e : N) (m : DM A) : Prop :=
  forall s : dst, dst_wf s ->
    match m s with
    | DOk _ s' => dst_wf s' /\ d_cost s' <= d_cost s + k
    | DErr _ c => c <= d_cost s + e
    | DPanic _ => True
    | DFuel => True
    end.

Lemma cbound_bind {A B} (k1 e1 k2 e2 k e : N) (m : DM A) (f : A -> DM B) :
  cbound k1 e1 m -> (forall a : A, cbound k2 e2 (f a)) -> k1 + k2 <= k -> e1 <= e -> k1 + e2 <= e ->
  cbound k e (bind m f).
Proof.
  intros Hm Hf H1 H2 H3 s W. unfold bind. specialize (Hm s W).
  destruct (m s) as [a s'|e0 c|x|]; try exact I; [|lia].
  destruct Hm as [W' C]. specialize (Hf a s' W'). destruct (f a s') as [b s''|e0 c|x|]; try exact I; [|lia].
  destruct Hf as [W'' C']. split; [exact W''|lia].
Qed.
Lemma cbound_ret {A} (k e : N) (a : A) : cbound k e (ret a).
Proof. intros s W. unfold ret. split; [exact W|lia]. Qed.
Lemma cbound_fail {A} (k e : N) (x : err) : cbound k e (@fail A x).
Proof. intros s W. unfold fail. lia. Qed.
Lemma cbound_read (n : N) : cbound n 0 (read n).
Proof.
  intros s W. unfold read. cbv zeta. destruct (POW64 <=? d_off s + n); [exact I|].
  rewrite OP_read_val. cbn [cmp_apply]. destruct (d_off s + n <=? d_len s) eqn:E; cbv beta iota; [|lia].
  split; [apply (adv_wf n s W); lia|]. cbn [d_cost]. lia.
Qed.
Lemma cbound_uint (n : N) : cbound n n (uint n).
Proof.
  unfold uint. apply (cbound_bind n 0 0 0); [apply cbound_read| |lia|lia|lia]. intro b.
  destruct (lenN b =? n); [apply cbound_ret|]. intros s W. exact I.
Qed.
Lemma cbound_u8 : cbound 1 1 u8.
Proof.
  unfold u8. apply (cbound_bind 1 0 0 0); [apply cbound_read| |lia|lia|lia].
  intros [|x r]; [intros s W; exact I|apply cbound_ret].
Qed.
Lemma cbound_code16 (t : list (string * N)) (er : etag) : cbound 2 2 (code t er u16).
Proof.
  unfold code. apply (cbound_bind 2 2 0 0); [apply cbound_uint| |lia|lia|lia]. intro v.
  destruct (in_table t v); [apply cbound_ret|apply cbound_fail].
Qed.
Lemma cbound_flags : cbound 2 2 flags_.
Proof.
  unfold flags_. apply (cbound_bind 1 1 1 1); [exact cbound_u8| |lia|lia|lia]. intro b0. cbv zeta.
  destruct (negb (in_table Opcode_table (fbit DEC_FLAG_opcode b0 0))); [apply cbound_fail|].
  apply (cbound_bind 1 1 0 0); [exact cbound_u8| |lia|lia|lia]. intro b1. cbv zeta.
  destruct (negb (fbit DEC_FLAG_z b0 b1 =? 0)); [apply cbound_fail|].
  destruct (negb (in_table RCode_table (fbit DEC_FLAG_rcode b0 b1))); [apply cbound_fail|apply cbound_ret].
Qed.
Lemma cbound_domain_name (main : bytes) : bytes_ok main -> lenN main < WFMAX -> cbound 289 544 (domain_name main).
Proof.
  intros Hb Hm s W. pose proof (name_cost main s Hb Hm W) as C.
  destruct (domain_name main s) as [n s'|e c|x|] eqn:E; try exact I.
  - destruct (name_bounds main s n s' Hb Hm W E) as (B1 & _). split; [exact B1|].
    exact (name_ok_cost main s n s' Hb Hm W E).
  - destruct C as [_ C]. exact C.
Qed.
Lemma cbound_question (main : bytes) : bytes_ok main -> lenN main < WFMAX -> cbound 293 544 (question_ main).
Proof.
  intros Hb Hm. unfold question_.
  apply (cbound_bind 289 544 4 4); [apply cbound_domain_name; assumption| |lia|lia|lia]. intro n.
  apply (cbound_bind 2 2 2 2); [apply cbound_code16| |lia|lia|lia]. intro t.
  apply (cbound_bind 2 2 0 0); [apply cbound_code16| |lia|lia|lia]. intro c. apply cbound_ret.
Qed.

Lemma run_cbound {A} (k e w : N) (m : bytes -> DM A) (b : bytes) : bytes_ok b -> lenN b < WFMAX ->
  cbound k e (m b) -> k <= w -> e <= w -> cost_of (Dec.run m b) <= w.
Proof.
  intros Hb Hl H Hk He. unfold Dec.run. specialize (H (mk_main b) (mk_main_wf b Hb Hl)).
  destruct (m b (mk_main b)) as [a s'|e0 c|x|]; cbn [cost_of mk_main d_cost] in *.
  - destruct H as [_ H]. lia.
  - lia.
  - apply N.le_0_l.
  - apply N.le_0_l.
Qed.

Theorem work_const_entries (b : bytes) : bytes_ok b -> lenN b < 2 ^ 62 ->
  cost_of (dec_Question b) <= 544 /\ cost_of (dec_DomainName b) <= 544 /\ cost_of (dec_Flags b) <= 2 /\
  cost_of (dec_Type b) <= 2 /\ cost_of (dec_Class b) <= 2 /\ cost_of (dec_QType b) <= 2 /\ cost_of (dec_QClass b) <= 2.
Proof.
  intros Hb Hl. rewrite <- WFMAX_val in Hl.
  split; [apply (run_cbound 293 544); [assumption|assumption|apply cbound_question; assumption|lia|lia]|].
  split; [apply (run_cbound 289 544); [assumption|assumption|apply cbound_domain_name; assumption|lia|lia]|].
  split; [apply (run_cbound 2 2); [assumption|assumption|apply cbound_flags|lia|lia]|].
  split; [apply (run_cbound 2 2); [assumption|assumption|apply cbound_code16|lia|lia]|].
  split; [apply (run_cbound 2 2); [assumption|assumption|apply cbound_code16|lia|lia]|].
  split; [apply (run_cbound 2 2); [assumption|assumption|apply cbound_code16|lia|lia]|].
  apply (run_cbound 2 2); [assumption|assumption|apply cbound_code16|lia|lia].
Qed.

(* ---- the readers as methods of an existing Decoder ---- *)
Theorem work_readers (main : bytes) (s : dst) :
  bytes_ok main -> lenN main < 2 ^ 62 -> dst_wf s -> d_off s <= d_len s ->
  cat 290 (dns_ main) s /\ cat 290 (rr_ main) s /\ cat 289 (question_ main) s /\ cat 289 (domain_name main) s /\
  (forall t owner hclass ttl, cat 289 (rr_body main t owner hclass ttl) s) /\
  cat 2 rr_edns_option s /\ cat 2 rr_apl_apitem s /\ (forall key, cat 1 (rr_service_parameter key) s).
Proof.
  intros Hb Hl W Ho. rewrite <- WFMAX_val in Hl.
  split; [apply costly_dns; [assumption|assumption|lia|assumption|assumption]|].
  split; [apply costly_rr; [assumption|assumption|lia|assumption|assumption]|].
  split; [apply costly_question; [assumption|assumption|lia|assumption|assumption]|].
  split; [apply costly_domain_name; [assumption|assumption|lia|assumption|assumption]|].
  split; [intros t owner hclass ttl; apply costly_rr_body; [assumption|assumption|lia|assumption|assumption]|].
  split; [apply costly_edns_option; [lia|assumption|assumption]|].
  split; [apply costly_apitem; [lia|assumption|assumption]|].
  intro key. apply costly_service_parameter; [lia|assumption|assumption].
Qed.

Lemma cat_def (A : Type) (w : N) (m : DM A) (s : dst) :
  cat w m s = match m s with
              | DOk _ s' => dst_wf s' /\ d_len s' = d_len s /\ d_off s <= d_off s' /\ d_off s' <= d_len s /\
                            d_cost s' <= d_cost s + w * (d_off s' - d_off s)
              | DErr _ c => c <= d_cost s + w * (d_len s - d_off s) + 544
              | DPanic _ => True
              | DFuel => True
              end.
Proof. reflexivity. Qed.
