(* C09 — framing.  Inversion lemmas for the decoder monad, the exact characterisation of
   [with_sub] (the child window holds exactly the announced octets and must consume all of them),
   record framing ([rr_]), and the nested windows (EDNS option, APL item, SvcParam). *)
From Coq Require Import ZifyBool ZifyN ZifyNat.
From DNS Require Import Model.Dec Proofs.DecBase Proofs.DecName Proofs.DecNameSpec Proofs.DecSafe Proofs.DecTotal.
Local Open Scope N_scope.

(* ---- inversion of the monad and of the primitive readers (no well-formedness needed) ---- *)
Lemma bind_inv {A B} (m : DM A) (f : A -> DM B) (s : dst) (b : B) (s' : dst) :
  bind m f s = DOk b s' -> exists (a : A) (s1 : dst), m s = DOk a s1 /\ f a s1 = DOk b s'.
Proof.
  unfold bind. destruct (m s) as [a s1|e c|x|]; try discriminate. intro H. exists a, s1. split; [reflexivity|exact H].
Qed.
Lemma ret_inv {A} (a b : A) (s s' : dst) : ret a s = DOk b s' -> b = a /\ s' = s.
Proof. unfold ret. intro H. injection H as <- <-. split; reflexivity. Qed.

Lemma read_inv (n : N) (s : dst) (b : bytes) (s' : dst) : read n s = DOk b s' ->
  b = takeN n (d_rest s) /\ s' = adv n s /\ d_off s + n <= d_len s.
Proof.
  unfold read. cbv zeta. destruct (POW64 <=? d_off s + n); [discriminate|].
  rewrite OP_read_val. cbn [cmp_apply]. destruct (d_off s + n <=? d_len s) eqn:E; [|discriminate].
  intro H. injection H as <- <-. split; [reflexivity|]. split; [reflexivity|lia].
Qed.
Lemma uint_inv (k : N) (s : dst) (v : N) (s' : dst) : uint k s = DOk v s' ->
  v = be (takeN k (d_rest s)) /\ s' = adv k s /\ d_off s + k <= d_len s.
Proof.
  unfold uint. intro H. apply bind_inv in H. destruct H as (b & s1 & H1 & H2).
  apply read_inv in H1. destruct H1 as (-> & -> & Hk).
  destruct (lenN (takeN k (d_rest s)) =? k); [|discriminate].
  apply ret_inv in H2. destruct H2 as [-> ->]. split; [reflexivity|]. split; [reflexivity|exact Hk].
Qed.
Lemma u8_inv (s : dst) (v : N) (s' : dst) : u8 s = DOk v s' ->
  takeN 1 (d_rest s) = [v] /\ s' = adv 1 s /\ d_off s + 1 <= d_len s.
Proof.
  unfold u8. intro H. apply bind_inv in H. destruct H as (b & s1 & H1 & H2).
  apply read_inv in H1. destruct H1 as (Hb & -> & Hk). rewrite <- Hb.
  assert (L : (length b <= 1)%nat).
  { rewrite Hb. unfold takeN. rewrite firstn_length. lia. }
  destruct b as [|x [|y r]]; [discriminate| |cbn [length] in L; lia].
  apply ret_inv in H2. destruct H2 as [-> ->]. split; [reflexivity|]. split; [reflexivity|exact Hk].
Qed.
Lemma code_inv (t : list (string * N)) (er : etag) (rd : DM N) (s : dst) (v : N) (s' : dst) :
  code t er rd s = DOk v s' -> rd s = DOk v s' /\ in_table t v = true.
Proof.
  unfold code. intro H. apply bind_inv in H. destruct H as (a & s1 & H1 & H2).
  destruct (in_table t a) eqn:E; [|discriminate]. apply ret_inv in H2. destruct H2 as [-> ->].
  split; [exact H1|exact E].
Qed.
Lemma is_finished_inv (s : dst) (b : bool) (s' : dst) : is_finished s = DOk b s' ->
  s' = s /\ (if b then d_off s = d_len s else d_off s < d_len s).
Proof.
  unfold is_finished. destruct (d_off s <? d_len s) eqn:E1.
  - intro H. injection H as <- <-. split; [reflexivity|lia].
  - destruct (d_off s =? d_len s) eqn:E2; [|discriminate].
    intro H. injection H as <- <-. split; [reflexivity|lia].
Qed.
Lemma finished_inv (s : dst) (u : unit) (s' : dst) : finished s = DOk u s' -> s' = s /\ d_off s = d_len s.
Proof.
  unfold finished. intro H. apply bind_inv in H. destruct H as (b & s1 & H1 & H2).
  apply is_finished_inv in H1. destruct H1 as [-> Hb]. destruct b; [|discriminate].
  apply ret_inv in H2. destruct H2 as [_ ->]. split; [reflexivity|exact Hb].
Qed.

(* ---- readers that keep the window: on a value the state stays well formed with the same length ---- *)
Definition len_stable {A} (m : DM A) : Prop :=
  forall (s : dst) (a : A) (s' : dst), dst_wf s -> m s = DOk a s' ->
    dst_wf s' /\ d_len s' = d_len s /\ d_off s <= d_off s'.

Lemma safeP_len_stable {A} (k : N) (Q : A -> Prop) (m : DM A) : safeP k Q m -> len_stable m.
Proof.
  intros H s a s' W E. specialize (H s W). unfold okat in H. rewrite E in H.
  destruct H as (H1 & H2 & H3 & _). split; [exact H1|]. split; [exact H2|lia].
Qed.

(* ---- the child window of [with_sub] ---- *)
Definition child (b : bytes) (n c : N) : dst := {| d_rest := b; d_off := 0; d_len := n; d_cost := c |}.

Lemma child_wf (n : N) (s : dst) (c : N) : dst_wf s -> d_off s + n <= d_len s ->
  lenN (takeN n (d_rest s)) = n /\ dst_wf (child (takeN n (d_rest s)) n c).
Proof.
  intros (H1 & H2 & H3 & H4) Hn.
  assert (L : lenN (takeN n (d_rest s)) = n) by (rewrite lenN_takeN; lia).
  split; [exact L|]. unfold dst_wf, child. cbn [d_rest d_off d_len].
  split; [lia|]. split; [lia|]. split; [unfold WFMAX; lia|apply bytes_ok_takeN; exact H4].
Qed.

(* general form: any child computation *)
Theorem with_sub_exact_gen {A} (n : N) (m : DM A) (s : dst) (a : A) (s' : dst) :
  dst_wf s -> with_sub n m s = DOk a s' ->
  exists (b : bytes) (s1 c : dst),
    read n s = DOk b s1 /\ b = takeN n (d_rest s) /\ lenN b = n /\ d_off s + n <= d_len s /\
    m {| d_rest := b; d_off := 0; d_len := n; d_cost := d_cost s1 |} = DOk a c /\
    d_off c = d_len c /\
    d_off s' = d_off s + n /\ d_rest s' = dropN n (d_rest s) /\ d_len s' = d_len s /\ d_cost s' = d_cost c.
Proof.
  intros W. unfold with_sub. destruct (read n s) as [b s1|e c|x|] eqn:R; try discriminate.
  pose proof (read_inv _ _ _ _ R) as (Hb & Hs1 & Hn).
  destruct (child_wf n s (d_cost s1) W Hn) as [L _]. rewrite <- Hb in L. rewrite L.
  set (cs := {| d_rest := b; d_off := 0; d_len := n; d_cost := d_cost s1 |}).
  destruct ((a0 <- m ;; _ <- finished ;; ret a0) cs) as [a0 c0|e c|x|] eqn:E; try discriminate.
  intro H. injection H as <- <-.
  apply bind_inv in E. destruct E as (a1 & c & E1 & E2).
  apply bind_inv in E2. destruct E2 as (u & c1 & E2 & E3).
  apply finished_inv in E2. destruct E2 as [-> Hf]. apply ret_inv in E3. destruct E3 as [-> ->].
  exists b, s1, c. subst s1. cbn [adv d_rest d_off d_len d_cost].
  split; [reflexivity|]. split; [exact Hb|]. split; [exact L|]. split; [exact Hn|].
  split; [exact E1|]. split; [exact Hf|]. split; [reflexivity|]. split; [reflexivity|]. split; reflexivity.
Qed.

(* the readers of the model keep the window length: the child consumed exactly [n] octets *)
Theorem with_sub_exact {A} (n : N) (m : DM A) (s : dst) (a : A) (s' : dst) :
  len_stable m -> dst_wf s -> with_sub n m s = DOk a s' ->
  exists (b : bytes) (s1 c : dst),
    read n s = DOk b s1 /\ b = takeN n (d_rest s) /\ lenN b = n /\
    m {| d_rest := b; d_off := 0; d_len := n; d_cost := d_cost s1 |} = DOk a c /\
    d_off c = n /\ d_rest c = [] /\ d_len c = n /\
    d_off s' = d_off s + n /\ d_rest s' = dropN n (d_rest s) /\ d_len s' = d_len s /\ dst_wf s' /\
    d_off s' <= d_len s'.
Proof.
  intros Hm W E. destruct (with_sub_exact_gen n m s a s' W E)
    as (b & s1 & c & R & Hb & L & Hn & Em & Hf & O & Rs & Ls & Cs).
  exists b, s1, c. split; [exact R|]. split; [exact Hb|]. split; [exact L|]. split; [exact Em|].
  assert (Wc : dst_wf (child b n (d_cost s1))).
  { rewrite Hb. apply child_wf; assumption. }
  destruct (Hm _ _ _ Wc Em) as (Wc' & Lc & _). unfold child in Lc. cbn [d_len] in Lc.
  split; [lia|]. split.
  { destruct Wc' as (C1 & _). destruct (d_rest c) as [|x r]; [reflexivity|]. rewrite lenN_cons in C1. lia. }
  split; [exact Lc|]. split; [exact O|]. split; [exact Rs|]. split; [exact Ls|].
  pose proof (adv_wf n s W Hn) as (A1 & A2 & A3 & A4). cbn [adv d_rest d_off d_len] in A1, A2, A3, A4.
  split; [|lia].
  unfold dst_wf. rewrite Rs, O, Ls. split; [exact A1|]. split; [exact A2|]. split; [exact A3|exact A4].
Qed.

(* conversely: octets left over in the child are an error of the whole *)
Theorem with_sub_leftover {A} (n : N) (m : DM A) (s : dst) (b : bytes) (s1 : dst) (a : A) (c : dst) :
  read n s = DOk b s1 ->
  m {| d_rest := b; d_off := 0; d_len := lenN b; d_cost := d_cost s1 |} = DOk a c ->
  d_off c < d_len c ->
  with_sub n m s = DErr (ETooManyBytes, [d_len c; d_off c]) (d_cost c).
Proof.
  intros R E Hlt.
  assert (F : finished c = DErr (ETooManyBytes, [d_len c; d_off c]) (d_cost c)).
  { unfold finished, bind, is_finished. destruct (d_off c <? d_len c) eqn:E1; [reflexivity|lia]. }
  unfold with_sub. rewrite R. unfold bind at 1. rewrite E. unfold bind at 1. rewrite F. reflexivity.
Qed.
Theorem with_sub_leftover_n {A} (n : N) (m : DM A) (s : dst) (b : bytes) (s1 : dst) (a : A) (c : dst) :
  len_stable m -> dst_wf s -> read n s = DOk b s1 ->
  m {| d_rest := b; d_off := 0; d_len := n; d_cost := d_cost s1 |} = DOk a c ->
  d_off c < n ->
  with_sub n m s = DErr (ETooManyBytes, [n; d_off c]) (d_cost c).
Proof.
  intros Hm W R E Hlt. pose proof (read_inv _ _ _ _ R) as (Hb & Hs1 & Hn).
  destruct (child_wf n s (d_cost s1) W Hn) as [L Wc]. rewrite <- Hb in L, Wc.
  destruct (Hm _ _ _ Wc E) as (_ & Lc & _). unfold child in Lc. cbn [d_len] in Lc.
  rewrite <- L in E. rewrite (with_sub_leftover n m s b s1 a c R E); [|lia]. rewrite Lc. reflexivity.
Qed.
(* an error inside the child is the error of the whole *)
Theorem with_sub_child_err {A} (n : N) (m : DM A) (s : dst) (b : bytes) (s1 : dst) (e : err) (k : N) :
  read n s = DOk b s1 ->
  m {| d_rest := b; d_off := 0; d_len := lenN b; d_cost := d_cost s1 |} = DErr e k ->
  with_sub n m s = DErr e k.
Proof. intros R E. unfold with_sub. rewrite R. unfold bind at 1. rewrite E. reflexivity. Qed.
(* a window shorter than announced *)
Theorem with_sub_short {A} (n : N) (m : DM A) (s : dst) :
  dst_wf s -> n < WFMAX -> d_len s < d_off s + n ->
  with_sub n m s = DErr (ENotEnoughBytes, [d_len s; d_off s + n]) (d_cost s).
Proof.
  intros (H1 & H2 & H3 & H4) Hn Hlt. unfold with_sub, read. cbv zeta.
  destruct (POW64 <=? d_off s + n) eqn:E; [unfold POW64, WFMAX in *; lia|].
  rewrite OP_read_val. cbn [cmp_apply]. destruct (d_off s + n <=? d_len s) eqn:E1; [lia|reflexivity].
Qed.
(* a field of [k] octets when fewer than [k] are left in the (child) window: the read fails,
   whatever follows the window in the parent *)
Theorem read_past_window (k : N) (c : dst) :
  d_off c + k < POW64 -> d_len c < d_off c + k ->
  read k c = DErr (ENotEnoughBytes, [d_len c; d_off c + k]) (d_cost c).
Proof.
  intros Ho Hlt. unfold read. cbv zeta. destruct (POW64 <=? d_off c + k) eqn:E; [lia|].
  rewrite OP_read_val. cbn [cmp_apply]. destruct (d_off c + k <=? d_len c) eqn:E1; [lia|reflexivity].
Qed.

(* ---- more inversions ---- *)
Lemma lift_inv {A} (r : res A) (s : dst) (a : A) (s' : dst) : lift r s = DOk a s' -> r = Ok a /\ s' = s.
Proof.
  destruct r as [a0|e|x|]; cbn [lift]; try discriminate.
  intro H. apply ret_inv in H. destruct H as [-> ->]. split; reflexivity.
Qed.
Lemma uint_inv_wf (k : N) (s : dst) (v : N) (s' : dst) : dst_wf s -> uint k s = DOk v s' ->
  v = be (takeN k (d_rest s)) /\ s' = adv k s /\ dst_wf s'.
Proof.
  intros W H. apply uint_inv in H. destruct H as (Hv & Hs & Hk).
  split; [exact Hv|]. split; [exact Hs|]. rewrite Hs. apply adv_wf; assumption.
Qed.
Lemma u8_inv_wf (s : dst) (v : N) (s' : dst) : dst_wf s -> u8 s = DOk v s' ->
  takeN 1 (d_rest s) = [v] /\ s' = adv 1 s /\ dst_wf s'.
Proof.
  intros W H. apply u8_inv in H. destruct H as (Hv & Hs & Hk).
  split; [exact Hv|]. split; [exact Hs|]. rewrite Hs. apply adv_wf; assumption.
Qed.
Lemma nil_small : lenN (@nil N) < WFMAX. Proof. reflexivity. Qed.

(* ---- record framing: owner, TYPE, CLASS, TTL, RDLENGTH, then exactly RDLENGTH octets ---- *)
Theorem rr_exact (main : bytes) (s : dst) (r : rr) (s' : dst) :
  bytes_ok main -> lenN main < WFMAX -> dst_wf s -> rr_ main s = DOk r s' ->
  exists (owner : name) (s0 : dst) (type_ hclass ttl rdlen : N) (rdata : bytes) (k : N) (c : dst),
    domain_name main s = DOk owner s0 /\
    type_ = be (takeN 2 (d_rest s0)) /\ in_table Type_table type_ = true /\ hclass = be (takeN 2 (dropN 2 (d_rest s0))) /\
    ttl = be (takeN 4 (dropN 4 (d_rest s0))) /\ rdlen = be (takeN 2 (dropN 8 (d_rest s0))) /\
    rdata = takeN rdlen (dropN 10 (d_rest s0)) /\ lenN rdata = rdlen /\
    rr_body main type_ owner hclass ttl {| d_rest := rdata; d_off := 0; d_len := rdlen; d_cost := k |} = DOk r c /\
    d_off c = rdlen /\ d_rest c = [] /\ d_len c = rdlen /\
    d_off s' = d_off s0 + 10 + rdlen /\ d_rest s' = dropN (10 + rdlen) (d_rest s0) /\
    d_len s' = d_len s /\ dst_wf s' /\ d_off s' <= d_len s'.
Proof.
  intros Hb Hm W E. unfold rr_ in E.
  apply bind_inv in E. destruct E as (owner & s0 & E0 & E).
  destruct (name_bounds main s owner s0 Hb Hm W E0) as (W0 & L0 & _).
  apply bind_inv in E. destruct E as (type_ & s1 & E1 & E).
  unfold rr_type in E1. apply code_inv in E1. destruct E1 as [E1 IT].
  destruct (uint_inv_wf _ _ _ _ W0 E1) as (T & -> & W1).
  apply bind_inv in E. destruct E as (hclass & s2 & E2 & E).
  destruct (uint_inv_wf _ _ _ _ W1 E2) as (C & -> & W2).
  apply bind_inv in E. destruct E as (ttl & s3 & E3 & E).
  destruct (uint_inv_wf _ _ _ _ W2 E3) as (TT & -> & W3).
  apply bind_inv in E. destruct E as (rdlen & s4 & E4 & E).
  destruct (uint_inv_wf _ _ _ _ W3 E4) as (RL & -> & W4).
  rewrite !adv_adv in *. change (2 + 2 + 4 + 2) with 10 in *. change (2 + 2 + 4) with 8 in *.
  change (2 + 2) with 4 in *. cbn [adv d_rest] in C, TT, RL.
  destruct (with_sub_exact rdlen _ _ _ _ (safeP_len_stable _ _ _ (safe0_rr_body main Hb Hm type_ owner hclass ttl)) W4 E)
    as (b & s5 & c & R & Hbb & Lb & Em & Oc & Rc & Lc & O' & R' & L' & W' & B').
  cbn [adv d_rest d_off d_len] in Hbb, O', R', L'.
  exists owner, s0, type_, hclass, ttl, rdlen, b, (d_cost s5), c.
  split; [exact E0|]. split; [exact T|]. split; [exact IT|]. split; [exact C|]. split; [exact TT|]. split; [exact RL|].
  split; [exact Hbb|]. split; [exact Lb|]. split; [exact Em|]. split; [exact Oc|]. split; [exact Rc|]. split; [exact Lc|].
  split; [exact O'|]. split; [rewrite R', dropN_dropN; reflexivity|]. split; [congruence|]. split; [exact W'|exact B'].
Qed.

(* the cursor advance of a record: name extent + 10 + RDLENGTH *)
Corollary rr_advance (main : bytes) (s : dst) (r : rr) (s' : dst) :
  bytes_ok main -> lenN main < WFMAX -> dst_wf s -> rr_ main s = DOk r s' ->
  exists (owner : name) (s0 : dst),
    domain_name main s = DOk owner s0 /\
    d_off s' = d_off s0 + 10 + be (takeN 2 (dropN 8 (d_rest s0))) /\
    d_rest s' = dropN (d_off s' - d_off s) (d_rest s) /\ d_off s < d_off s' /\ d_off s' <= d_len s.
Proof.
  intros Hb Hm W E. destruct (rr_exact main s r s' Hb Hm W E)
    as (owner & s0 & t & hc & ttl & rdlen & rdata & k & c & E0 & _ & _ & _ & _ & RL & _ & _ & _ & _ & _ & _ & O & R & L & W' & B').
  exists owner, s0. split; [exact E0|]. rewrite <- RL. split; [exact O|].
  destruct (name_bounds main s owner s0 Hb Hm W E0) as (W0 & L0 & O0 & R0 & _).
  split; [|split; [lia|lia]].
  rewrite R, R0, dropN_dropN. f_equal. lia.
Qed.

(* ---- nested windows ---- *)
Definition edns_option_body (c : N) : DM ednsopt :=
  if c =? OPT_ECS then e <- rr_edns_ecs ;; ret (OEcs e)
  else if c =? OPT_COOKIE then k <- rr_edns_cookie ;; ret (OCookie k)
  else p <- rr_edns_padding ;; ret (OPadding p).
Lemma rr_edns_option_eq : rr_edns_option =
  (c <- code EDNSOptionCode_table EEDNSOptionCode u16 ;; len <- u16 ;; with_sub len (edns_option_body c)).
Proof. reflexivity. Qed.
Lemma safe0_edns_option_body (c : N) : safe0 (edns_option_body c).
Proof.
  unfold edns_option_body. destruct (c =? OPT_ECS); [|destruct (c =? OPT_COOKIE)].
  - apply safe0_bind; [exact (safe0_ecs [] nil_small)|intro; apply safe0_ret].
  - apply safe0_bind; [exact (safe0_cookie [] nil_small)|intro; apply safe0_ret].
  - apply safe0_bind; [apply safe0_padding|intro; apply safe0_ret].
Qed.

(* an EDNS option: OPTION-CODE, OPTION-LENGTH, then exactly OPTION-LENGTH octets *)
Theorem edns_option_exact (s : dst) (o : ednsopt) (s' : dst) :
  dst_wf s -> rr_edns_option s = DOk o s' ->
  exists (code len : N) (data : bytes) (k : N) (c : dst),
    code = be (takeN 2 (d_rest s)) /\ len = be (takeN 2 (dropN 2 (d_rest s))) /\
    data = takeN len (dropN 4 (d_rest s)) /\ lenN data = len /\
    edns_option_body code {| d_rest := data; d_off := 0; d_len := len; d_cost := k |} = DOk o c /\
    d_off c = len /\ d_rest c = [] /\
    d_off s' = d_off s + 4 + len /\ d_rest s' = dropN (4 + len) (d_rest s) /\ d_len s' = d_len s.
Proof.
  intros W E. rewrite rr_edns_option_eq in E.
  apply bind_inv in E. destruct E as (code & s1 & E1 & E). apply code_inv in E1. destruct E1 as [E1 _].
  destruct (uint_inv_wf _ _ _ _ W E1) as (C & -> & W1).
  apply bind_inv in E. destruct E as (len & s2 & E2 & E).
  destruct (uint_inv_wf _ _ _ _ W1 E2) as (Ln & -> & W2).
  rewrite !adv_adv in *. change (2 + 2) with 4 in *. cbn [adv d_rest] in Ln.
  destruct (with_sub_exact len _ _ _ _ (safeP_len_stable _ _ _ (safe0_edns_option_body code)) W2 E)
    as (b & s5 & c & R & Hbb & Lb & Em & Oc & Rc & Lc & O' & R' & L' & W' & B').
  cbn [adv d_rest d_off d_len] in Hbb, O', R', L'.
  exists code, len, b, (d_cost s5), c.
  split; [exact C|]. split; [exact Ln|]. split; [exact Hbb|]. split; [exact Lb|]. split; [exact Em|].
  split; [exact Oc|]. split; [exact Rc|]. split; [exact O'|]. split; [rewrite R', dropN_dropN; reflexivity|exact L'].
Qed.

(* an APL item: family, prefix, N|AFDLENGTH, then exactly AFDLENGTH octets of address *)
Theorem apl_item_exact (s : dst) (i : apitem) (s' : dst) :
  dst_wf s -> rr_apl_apitem s = DOk i s' ->
  exists (fam prefix buffer alen : N) (data : bytes) (k : N) (a : addr) (c : dst),
    fam = be (takeN 2 (d_rest s)) /\ takeN 1 (dropN 2 (d_rest s)) = [prefix] /\
    takeN 1 (dropN 3 (d_rest s)) = [buffer] /\ alen = N.land buffer ADDRESS_LENGTH_MASK /\
    data = takeN alen (dropN 4 (d_rest s)) /\ lenN data = alen /\
    rr_address fam {| d_rest := data; d_off := 0; d_len := alen; d_cost := k |} = DOk a c /\
    d_off c = alen /\ d_rest c = [] /\
    d_off s' = d_off s + 4 + alen /\ d_rest s' = dropN (4 + alen) (d_rest s) /\ d_len s' = d_len s.
Proof.
  intros W E. unfold rr_apl_apitem in E.
  apply bind_inv in E. destruct E as (fam & s1 & E1 & E).
  unfold rr_address_family_number in E1. apply code_inv in E1. destruct E1 as [E1 _].
  destruct (uint_inv_wf _ _ _ _ W E1) as (F & -> & W1).
  apply bind_inv in E. destruct E as (prefix & s2 & E2 & E).
  destruct (u8_inv_wf _ _ _ W1 E2) as (P & -> & W2).
  apply bind_inv in E. destruct E as (buffer & s3 & E3 & E).
  destruct (u8_inv_wf _ _ _ W2 E3) as (B & -> & W3).
  cbv zeta in E. apply bind_inv in E. destruct E as (a & s4 & E4 & E).
  apply lift_inv in E. destruct E as [_ ->].
  rewrite !adv_adv in *. change (2 + 1 + 1) with 4 in *. change (2 + 1) with 3 in *. cbn [adv d_rest] in P, B.
  destruct (with_sub_exact _ _ _ _ _ (safeP_len_stable _ _ _ (safeP_address [] nil_small fam)) W3 E4)
    as (b & s5 & c & R & Hbb & Lb & Em & Oc & Rc & Lc & O' & R' & L' & W' & B').
  cbn [adv d_rest d_off d_len] in Hbb, O', R', L'.
  exists fam, prefix, buffer, (N.land buffer ADDRESS_LENGTH_MASK), b, (d_cost s5), a, c.
  split; [exact F|]. split; [exact P|]. split; [exact B|]. split; [reflexivity|]. split; [exact Hbb|].
  split; [exact Lb|]. split; [exact Em|]. split; [exact Oc|]. split; [exact Rc|]. split; [exact O'|].
  split; [rewrite R', dropN_dropN; reflexivity|exact L'].
Qed.

(* one iteration of the SvcParams loop: key, length, then exactly [length] octets of value *)
Theorem svc_param_exact (f : nat) (acc : list svcparam) (s : dst) (l : list svcparam) (s' : dst) :
  dst_wf s -> d_off s < d_len s -> svc_params (S f) acc s = DOk l s' ->
  exists (key len : N) (data : bytes) (k : N) (p : svcparam) (c s3 : dst) (acc' : list svcparam),
    key = be (takeN 2 (d_rest s)) /\ len = be (takeN 2 (dropN 2 (d_rest s))) /\
    data = takeN len (dropN 4 (d_rest s)) /\ lenN data = len /\
    rr_service_parameter key {| d_rest := data; d_off := 0; d_len := len; d_cost := k |} = DOk p c /\
    d_off c = len /\ d_rest c = [] /\
    d_off s3 = d_off s + 4 + len /\ d_rest s3 = dropN (4 + len) (d_rest s) /\ d_len s3 = d_len s /\ dst_wf s3 /\
    set_insert p acc = (acc', true) /\ svc_params f acc' s3 = DOk l s'.
Proof.
  intros W Hlt E. rewrite svc_params_S in E.
  apply bind_inv in E. destruct E as (fin & s0 & E0 & E).
  apply is_finished_inv in E0. destruct E0 as [-> Hfin]. destruct fin; [lia|].
  apply bind_inv in E. destruct E as (key & s1 & E1 & E).
  destruct (uint_inv_wf _ _ _ _ W E1) as (K & -> & W1).
  apply bind_inv in E. destruct E as (len & s2 & E2 & E).
  destruct (uint_inv_wf _ _ _ _ W1 E2) as (Ln & -> & W2).
  apply bind_inv in E. destruct E as (p & s3 & E3 & E).
  rewrite !adv_adv in *. change (2 + 2) with 4 in *. cbn [adv d_rest] in Ln.
  destruct (with_sub_exact len _ _ _ _ (safeP_len_stable _ _ _ (safe0_service_parameter [] nil_small key)) W2 E3)
    as (b & s5 & c & R & Hbb & Lb & Em & Oc & Rc & Lc & O' & R' & L' & W' & B').
  cbn [adv d_rest d_off d_len] in Hbb, O', R', L'.
  destruct (set_insert p acc) as [acc' inserted] eqn:SI. destruct inserted; [|discriminate].
  exists key, len, b, (d_cost s5), p, c, s3, acc'.
  split; [exact K|]. split; [exact Ln|]. split; [exact Hbb|]. split; [exact Lb|]. split; [exact Em|].
  split; [exact Oc|]. split; [exact Rc|]. split; [exact O'|]. split; [rewrite R', dropN_dropN; reflexivity|].
  split; [exact L'|]. split; [exact W'|]. split; [exact SI|exact E].
Qed.

(* the `while !is_finished()` loops stop exactly at the end of their window *)
Lemma many_ends {A} (item : DM A) : forall (fuel : nat) (acc : list A) (s : dst) (l : list A) (s' : dst),
  many fuel item acc s = DOk l s' -> d_off s' = d_len s'.
Proof.
  induction fuel as [|f IH]; intros acc s l s' E; [discriminate|].
  rewrite many_S in E. apply bind_inv in E. destruct E as (fin & s0 & E0 & E).
  apply is_finished_inv in E0. destruct E0 as [-> Hfin]. destruct fin.
  - apply ret_inv in E. destruct E as [_ ->]. exact Hfin.
  - apply bind_inv in E. destruct E as (x & s1 & _ & E). eapply IH. exact E.
Qed.
Lemma svc_params_ends : forall (fuel : nat) (acc : list svcparam) (s : dst) (l : list svcparam) (s' : dst),
  svc_params fuel acc s = DOk l s' -> d_off s' = d_len s'.
Proof.
  induction fuel as [|f IH]; intros acc s l s' E; [discriminate|].
  rewrite svc_params_S in E. apply bind_inv in E. destruct E as (fin & s0 & E0 & E).
  apply is_finished_inv in E0. destruct E0 as [-> Hfin]. destruct fin.
  - apply ret_inv in E. destruct E as [_ ->]. exact Hfin.
  - apply bind_inv in E. destruct E as (key & s1 & _ & E). apply bind_inv in E. destruct E as (len & s2 & _ & E).
    apply bind_inv in E. destruct E as (p & s3 & _ & E).
    destruct (set_insert p acc) as [acc' inserted]. destruct inserted; [|discriminate]. eapply IH. exact E.
Qed.
