(* C15 — the EDNS OPT pseudo-record and its options map exactly to RFC 6891 / 7830 / 7871 / 7873.
   This file: the option list of an OPT record (emap / many), the owner and payload-size rules, and
   the statements that Props/C15.v exports.  Parts: OptTtl.v (TTL word), OptDec.v (value domains of
   the three options), OptRt.v (emit / decode round trip of one option), OptBase.v (framework). *)
From DNS Require Import Model.Dec Model.Enc Proofs.DecBase Proofs.C12 Proofs.OptBase Proofs.OptTtl
  Proofs.OptDec Proofs.OptRt.
Require Import ZArith ZifyBool ZifyN ZifyNat.
Local Open Scope N_scope.
Ltac Zify.zify_post_hook ::= Z.div_mod_to_equations.

(* ================================================================================================ *)
(* The option list                                                                                   *)
(* ================================================================================================ *)

Definition opts_wire (l : list ednsopt) : bytes := concat (map opt_wire l).

Lemma opts_wire_cons o l : opts_wire (o :: l) = opt_wire o ++ opts_wire l.
Proof. reflexivity. Qed.

Lemma opts_wire_len l : 4 * N.of_nat (length l) <= lenN (opts_wire l).
Proof.
  induction l as [|o l IH]; [cbn; lia|].
  rewrite opts_wire_cons, lenN_app, opt_wire_len. cbn [length]. lia.
Qed.

Lemma opts_wire_ok l : Forall opt_valid l -> bytes_ok (opts_wire l).
Proof.
  intro H. induction H as [|o l Ho Hl IH]; [constructor|].
  rewrite opts_wire_cons. apply Forall_app. split; [apply opt_wire_ok; exact Ho|exact IH].
Qed.

(* the encoder writes the options one after the other *)
Lemma emits_options (opts : list ednsopt) : Forall opt_valid opts ->
  emits (emap enc_edns_option opts) (opts_wire opts).
Proof. apply emits_emap. exact emits_option. Qed.

(* ... behind their RDLENGTH slot *)
Lemma emits_opt_rdata (opts : list ednsopt) : Forall opt_valid opts -> lenN (opts_wire opts) < 65536 ->
  emits (li <-- create_length_index ;; _ <-- emap enc_edns_option opts ;; set_length_index li)
        (u16b (lenN (opts_wire opts)) ++ opts_wire opts).
Proof. intros V L. apply emits_slot; [apply emits_options; exact V|exact L]. Qed.

Lemma is_finished_lt (s : dst) : d_off s < d_len s -> is_finished s = DOk false s.
Proof. intro H. unfold is_finished. destruct (d_off s <? d_len s) eqn:E; [reflexivity|lia]. Qed.
Lemma is_finished_eq (s : dst) : d_off s = d_len s -> is_finished s = DOk true s.
Proof.
  intro H. unfold is_finished. rewrite H, N.ltb_irrefl, N.eqb_refl. reflexivity.
Qed.

Lemma many_S {A} (f : nat) (item : DM A) (acc : list A) (s : dst) :
  many (S f) item acc s =
  (fin <- is_finished ;; if fin then ret (rev acc) else x <- item ;; many f item (x :: acc)) s.
Proof. reflexivity. Qed.

Lemma opt_end_wf (n : N) (pre rest : bytes) (s : dst) :
  dst_wf s -> d_rest s = pre ++ rest -> lenN pre = 4 + n -> dst_wf (opt_end n rest s).
Proof.
  intros (W1 & W2 & W3 & W4) Hr Hp. unfold dst_wf, opt_end. cbn [d_rest d_off d_len d_cost].
  rewrite Hr, lenN_app in W1. split; [lia|]. split; [exact W2|]. split; [lia|].
  rewrite Hr in W4. apply Forall_app in W4. exact (proj2 W4).
Qed.

(* the `while !is_finished` loop over a window that holds exactly the wire forms of [opts] *)
Lemma many_options : forall (opts : list ednsopt) (fuel : nat) (acc : list ednsopt) (s : dst),
  Forall opt_valid opts -> dst_wf s -> d_off s <= d_len s -> d_rest s = opts_wire opts ->
  (length opts < fuel)%nat ->
  exists c, many fuel rr_edns_option acc s =
            DOk (rev acc ++ opts) {| d_rest := []; d_off := d_len s; d_len := d_len s; d_cost := c |}.
Proof.
  induction opts as [|o opts IH]; intros fuel acc s V W Hle Hr Hf.
  - destruct fuel as [|f]; [cbn [length] in Hf; lia|].
    pose proof W as (W1 & _). rewrite Hr in W1. change (lenN (opts_wire [])) with 0 in W1.
    assert (d_off s = d_len s) as E by lia.
    exists (d_cost s). rewrite many_S. unfold bind. rewrite (is_finished_eq s E). unfold ret.
    rewrite app_nil_r. f_equal. destruct s as [r o l c]. cbn [d_rest d_off d_len d_cost] in *.
    subst. reflexivity.
  - destruct fuel as [|f]; [cbn [length] in Hf; lia|].
    inversion V as [|o' opts' Vo Vs]; subst o' opts'.
    rewrite opts_wire_cons in Hr.
    pose proof W as (W1 & _). rewrite Hr, lenN_app, opt_wire_len in W1.
    rewrite many_S. unfold bind at 1. rewrite (is_finished_lt s) by lia. cbv iota.
    unfold bind at 1. rewrite (option_roundtrip o s (opts_wire opts) Vo W Hr).
    set (s1 := opt_end (lenN (opt_body o)) (opts_wire opts) s).
    assert (dst_wf s1) as W'.
    { apply (opt_end_wf _ (opt_wire o) _ s W Hr). apply opt_wire_len. }
    assert (d_off s1 <= d_len s1) as Hle'.
    { unfold s1, opt_end. cbn [d_off d_len]. lia. }
    destruct (IH f (o :: acc) s1 Vs W' Hle' eq_refl) as [c Hc]; [cbn [length] in Hf; lia|].
    exists c. rewrite Hc. cbn [rev]. rewrite <- app_assoc. reflexivity.
Qed.

(* rr_opt on the RDATA window: TTL word, then the options *)
Lemma rr_opt_roundtrip (hclass ext ver : N) (dnssec : bool) (opts : list ednsopt) (k : N) :
  ext < 256 -> ver < 256 -> Forall opt_valid opts -> lenN (opts_wire opts) < 65536 ->
  exists c, rr_opt [] hclass (enc_opt_ttl ext ver dnssec) (sub_win (opts_wire opts) k) =
            DOk (ROpt hclass ext ver dnssec opts)
                {| d_rest := []; d_off := lenN (opts_wire opts); d_len := lenN (opts_wire opts); d_cost := c |}.
Proof.
  intros He Hv V L. unfold rr_opt. unfold bind at 1. rewrite (opt_ttl_dec_enc ext ver dnssec _ He Hv).
  unfold bind at 1. unfold loop_fuel at 1. cbn [sub_win d_len d_off].
  set (w := opts_wire opts) in *.
  assert (dst_wf (sub_win w k)) as W.
  { unfold dst_wf, sub_win. cbn [d_rest d_off d_len]. split; [lia|]. split; [unfold WFMAX; lia|].
    split; [unfold WFMAX; lia|]. apply opts_wire_ok. exact V. }
  pose proof (opts_wire_len opts) as HL. fold w in HL.
  destruct (many_options opts (S (N.to_nat (lenN w - 0))) [] (sub_win w k) V W (sub_win_le _ _) eq_refl)
    as [c Hc]; [lia|].
  exists c. unfold bind. change {| d_rest := w; d_off := 0; d_len := lenN w; d_cost := k |} with (sub_win w k).
  rewrite Hc. reflexivity.
Qed.

(* ================================================================================================ *)
(* Owner name and payload size (RFC 6891 6.1.2)                                                      *)
(* ================================================================================================ *)

Lemma lookup_opt_dec : lookup 41 dec_dispatch = Some (RdSpecial SpOpt).
Proof. vm_compute. reflexivity. Qed.
Lemma lookup_opt_enc : lookup 41 enc_dispatch = Some (WrSpecial SpOpt).
Proof. vm_compute. reflexivity. Qed.

Lemma rr_opt_owner (l : label) (n : name) (hclass ttl : N) (s : dst) :
  rr_opt (l :: n) hclass ttl s = DErr (EOPTDomainName, []) (d_cost s).
Proof. reflexivity. Qed.

Lemma rr_opt_payload (owner : name) (hclass ttl : N) (s : dst) (d : rdata) (s' : dst) :
  rr_opt owner hclass ttl s = DOk d s' ->
  owner = [] /\
  exists ext ver dnssec opts s1,
    rr_opt_ttl ttl s = DOk (ext, ver, dnssec) s1 /\ d = ROpt hclass ext ver dnssec opts.
Proof.
  intro H. destruct owner as [|l n]; [|discriminate H]. split; [reflexivity|].
  unfold rr_opt in H. apply bind_ok in H. destruct H as ([[ext ver] dnssec] & s1 & H1 & H).
  apply bind_ok in H. destruct H as (fuel & s2 & _ & H).
  apply bind_ok in H. destruct H as (opts & s3 & _ & H).
  unfold ret in H. injection H as <- _.
  exists ext, ver, dnssec, opts, s1. split; [exact H1|reflexivity].
Qed.

Lemma rr_body_opt (main : bytes) (owner : name) (hclass ttl : N) (s : dst) (r : rr) (s' : dst) :
  rr_body main 41 owner hclass ttl s = DOk r s' ->
  owner = [] /\ r_type r = 41 /\ r_name r = [] /\ r_class r = 0 /\ r_ttl r = 0 /\
  rr_get_ttl r = None /\ rr_get_class r = None /\
  exists ext ver dnssec opts s1,
    rr_opt_ttl ttl s = DOk (ext, ver, dnssec) s1 /\ r_data r = ROpt hclass ext ver dnssec opts.
Proof.
  intro H. unfold rr_body in H. rewrite lookup_opt_dec in H.
  apply bind_ok in H. destruct H as (d & s1 & H1 & H). unfold ret in H. injection H as <- _.
  apply rr_opt_payload in H1. destruct H1 as [Ho Hd].
  split; [exact Ho|]. split; [reflexivity|]. split; [reflexivity|]. split; [reflexivity|].
  split; [reflexivity|]. split; [reflexivity|]. split; [reflexivity|]. exact Hd.
Qed.

Lemma opt_owner_payload_proof :
  (forall (l : label) (n : name) (hclass ttl : N) (s : dst),
     rr_opt (l :: n) hclass ttl s = DErr (EOPTDomainName, []) (d_cost s)) /\
  (forall (owner : name) (hclass ttl : N) (s : dst) (d : rdata) (s' : dst),
     rr_opt owner hclass ttl s = DOk d s' ->
     owner = [] /\
     exists ext ver dnssec opts s1,
       rr_opt_ttl ttl s = DOk (ext, ver, dnssec) s1 /\ d = ROpt hclass ext ver dnssec opts) /\
  (forall (main : bytes) (owner : name) (hclass ttl : N) (s : dst) (r : rr) (s' : dst),
     rr_body main 41 owner hclass ttl s = DOk r s' ->
     owner = [] /\ r_type r = 41 /\ r_name r = [] /\ r_class r = 0 /\ r_ttl r = 0 /\
     rr_get_ttl r = None /\ rr_get_class r = None /\
     exists ext ver dnssec opts s1,
       rr_opt_ttl ttl s = DOk (ext, ver, dnssec) s1 /\ r_data r = ROpt hclass ext ver dnssec opts).
Proof. split; [exact rr_opt_owner|]. split; [exact rr_opt_payload|exact rr_body_opt]. Qed.

(* ================================================================================================ *)
(* Exported statements                                                                               *)
(* ================================================================================================ *)

Lemma cookie_accept_proof :
  (forall s : dst, d_off s <= d_len s ->
     let v := d_rest s in
     let n := lenN v in
     (dst_wf s -> n = d_len s - d_off s) /\
     (n = 8 ->
        rr_edns_cookie s = DOk {| c_client := takeN 8 v; c_server := None |} (drained s)) /\
     (16 <= n <= 40 ->
        rr_edns_cookie s = DOk {| c_client := takeN 8 v; c_server := Some (dropN 8 v) |} (drained s) /\
        lenN (takeN 8 v) = 8 /\ lenN (dropN 8 v) = n - 8 /\ takeN 8 v ++ dropN 8 v = v) /\
     (n <> 8 -> ~ 16 <= n <= 40 ->
        rr_edns_cookie s = DErr (ECookieLength, [n]) (d_cost (drained s)))) /\
  (forall s : dst, (forall x, rr_edns_cookie s <> DPanic x) /\ rr_edns_cookie s <> DFuel) /\
  (forall c sv : bytes,
     (8 <= lenN sv <= 32 -> cookie_new c (Some sv) = Ok {| c_client := c; c_server := Some sv |}) /\
     (~ 8 <= lenN sv <= 32 -> cookie_new c (Some sv) = Err (EServerCookieLength, [lenN sv]))) /\
  (forall c : bytes, cookie_new c None = Ok {| c_client := c; c_server := None |}).
Proof.
  split; [|split; [exact cookie_total|split; [exact cookie_new_some|exact cookie_new_none]]].
  intros s Hle. cbv zeta. destruct (cookie_accept s Hle) as (A1 & A2 & A3). cbv zeta in A1, A2, A3.
  split; [intros (W1 & _); exact W1|]. split; [exact A1|]. split; [|exact A3].
  intro H. split; [apply A2; exact H|]. apply cookie_split_len. lia.
Qed.

Lemma padding_accept_proof :
  forall s : dst, d_off s <= d_len s ->
    let p := d_rest s in
    let n := lenN p in
    (n < 65536 -> Forall (fun b => b = 0) p -> rr_edns_padding s = DOk n (drained s)) /\
    (n < 65536 -> forall k b tl, p = zeros k ++ b :: tl -> b <> 0 ->
       rr_edns_padding s = DErr (EPaddingZero, [b]) (d_cost (drained s))) /\
    (65536 <= n -> rr_edns_padding s = DErr (EPaddingLength, [n]) (d_cost (drained s))) /\
    (n < 65536 -> forall v s', rr_edns_padding s = DOk v s' <->
       (Forall (fun b => b = 0) p /\ v = n /\ s' = drained s)) /\
    (Forall (fun b => b = 0) p \/ exists k b tl, p = zeros k ++ b :: tl /\ b <> 0).
Proof.
  intros s Hle. cbv zeta. destruct (padding_accept s Hle) as (A1 & A2 & A3). cbv zeta in A1, A2, A3.
  split; [exact A1|]. split; [exact A2|]. split; [exact A3|].
  split; [intro Hn; apply padding_iff; assumption|apply zero_split].
Qed.

Lemma emit_roundtrip_proof :
  forall o : ednsopt, opt_valid o ->
    (forall st : est,
       enc_edns_option o st =
       EOk tt {| e_buf := e_buf st ++ opt_wire o; e_idx := e_idx st; e_names := e_names st |}) /\
    (forall (s : dst) (rest : bytes), dst_wf s -> d_rest s = opt_wire o ++ rest ->
       rr_edns_option s =
       DOk o {| d_rest := rest; d_off := d_off s + lenN (opt_wire o); d_len := d_len s;
                d_cost := d_cost s + lenN (opt_wire o) + (lenN (opt_wire o) - 4) |}) /\
    (forall (rest : bytes) (k c : N), bytes_ok rest -> k + lenN (opt_wire o) + lenN rest < WFMAX ->
       rr_edns_option {| d_rest := opt_wire o ++ rest; d_off := k;
                         d_len := k + lenN (opt_wire o) + lenN rest; d_cost := c |} =
       DOk o {| d_rest := rest; d_off := k + lenN (opt_wire o);
                d_len := k + lenN (opt_wire o) + lenN rest;
                d_cost := c + lenN (opt_wire o) + (lenN (opt_wire o) - 4) |}).
Proof.
  intros o V.
  assert (forall (s : dst) (rest : bytes), dst_wf s -> d_rest s = opt_wire o ++ rest ->
            rr_edns_option s =
            DOk o {| d_rest := rest; d_off := d_off s + lenN (opt_wire o); d_len := d_len s;
                     d_cost := d_cost s + lenN (opt_wire o) + (lenN (opt_wire o) - 4) |}) as D.
  { intros s rest W Hr. rewrite (option_roundtrip o s rest V W Hr). f_equal.
    unfold opt_end. rewrite opt_wire_len. f_equal; lia. }
  split; [exact (emits_option o V)|]. split; [exact D|].
  intros rest k c Hb Hk.
  apply (D {| d_rest := opt_wire o ++ rest; d_off := k; d_len := k + lenN (opt_wire o) + lenN rest; d_cost := c |} rest);
    [|reflexivity].
  unfold dst_wf. cbn [d_rest d_off d_len]. rewrite lenN_app. split; [lia|]. split; [exact Hk|].
  split; [lia|]. apply Forall_app. split; [apply opt_wire_ok; exact V|exact Hb].
Qed.

(* the wire form, spelled out (RFC 7871 section 6, RFC 7873 section 4, RFC 7830 section 3) *)
Lemma opt_wire_form :
  (forall e : ecs,
     opt_wire (OEcs e) =
     let body := u16b (a_fam (e_addr e)) ++ u8b (e_src e) ++ u8b (e_scope e) ++
                 takeN (N.max (addr_significant (a_oct (e_addr e))) ((e_src e + 7) / 8)) (a_oct (e_addr e)) in
     u16b 8 ++ u16b (lenN body) ++ body) /\
  (forall c : cookie,
     opt_wire (OCookie c) =
     let body := c_client c ++ match c_server c with Some sv => sv | None => [] end in
     u16b 10 ++ u16b (lenN body) ++ body) /\
  (forall n : N, n < 65536 -> opt_wire (OPadding n) = u16b 12 ++ u16b n ++ zeros (N.to_nat n)) /\
  (forall o : ednsopt, opt_valid o -> lenN (opt_wire o) < 65540 /\ bytes_ok (opt_wire o)).
Proof.
  split; [intro e; reflexivity|]. split; [intro c; reflexivity|]. split.
  - intros n Hn. unfold opt_wire. cbn [opt_code opt_body]. rewrite lenN_zeros, N2Nat.id. reflexivity.
  - intros o V. split; [|apply opt_wire_ok; exact V].
    rewrite opt_wire_len. pose proof (opt_body_len o V). lia.
Qed.

Lemma opt_record_roundtrip_proof :
  forall (hclass ext ver : N) (dnssec : bool) (opts : list ednsopt),
    ext < 256 -> ver < 256 -> Forall opt_valid opts -> lenN (opts_wire opts) < 65536 ->
    (forall st : est,
       (li <-- create_length_index ;; _ <-- emap enc_edns_option opts ;; set_length_index li) st =
       EOk tt {| e_buf := e_buf st ++ u16b (lenN (opts_wire opts)) ++ opts_wire opts;
                 e_idx := e_idx st; e_names := e_names st |}) /\
    (forall k : N, exists c,
       rr_opt [] hclass (enc_opt_ttl ext ver dnssec)
              {| d_rest := opts_wire opts; d_off := 0; d_len := lenN (opts_wire opts); d_cost := k |} =
       DOk (ROpt hclass ext ver dnssec opts)
           {| d_rest := []; d_off := lenN (opts_wire opts); d_len := lenN (opts_wire opts); d_cost := c |}).
Proof.
  intros hclass ext ver dnssec opts He Hv V L. split.
  - exact (emits_opt_rdata opts V L).
  - intro k. exact (rr_opt_roundtrip hclass ext ver dnssec opts k He Hv V L).
Qed.
