(* C04 (renderings) — address prefixes, EDNS options and the OPT RDATA, APL items and the APL RDATA. *)
From Coq Require Import ZArith ZifyBool ZifyN ZifyNat.
From DNS Require Import Model.Dec Model.Enc Spec.Names Spec.Iana Spec.Wire Spec.Render
  Proofs.ListN Proofs.DecBase Proofs.Enum Proofs.C12 Proofs.OptBase Proofs.OptTtl
  Proofs.CorrPrefix Proofs.CorrFields Proofs.CorrRecord
  Proofs.RtBase Proofs.RtPrim Proofs.RtFields Proofs.RtRecord Proofs.RtSpecial Proofs.RtApl
  Proofs.RenderBase Proofs.RenderName Proofs.RenderFields Proofs.RenderRecord.
Local Open Scope N_scope.
Ltac Zify.zify_post_hook ::= Z.div_mod_to_equations.

(* ---- address prefixes: filling the omitted zero octets gives the address back ---- *)
Lemma all_zero_zeros (l : bytes) : all_zero l -> l = zeros (length l).
Proof. induction 1 as [|x l Hx _ IH]; cbn [length zeros]; [reflexivity|]. rewrite Hx, <- IH. reflexivity. Qed.
Lemma all_zero_forallb (l : bytes) : all_zero l -> forallb (N.eqb 0) l = true.
Proof. induction 1 as [|x l Hx _ IH]; cbn [forallb]; [reflexivity|]. rewrite Hx, IH. reflexivity. Qed.
Lemma all_zero_ok (l : bytes) : all_zero l -> bytes_ok l.
Proof. induction 1 as [|x l Hx _ IH]; constructor; [unfold is_byte; lia|exact IH]. Qed.

Lemma addr_acc (pre : bytes) (a : addr) (p : N) (wa : bytes) :
  addr_wf a -> check_prefix a p = Ok tt -> renders_addr a wa ->
  bytes_ok wa /\ lenN wa <= 16 /\ acc true (prefix_addr (a_fam a) p) pre wa a.
Proof.
  intros W C R. inversion R as [k Hk Hz]; subst wa.
  pose proof (addr_wf_size a W) as Hsz. apply (check_prefix_mod a p W) in C.
  destruct W as [Hfl Hoct].
  assert (addr_size a <= 16) as H16 by (unfold addr_size; destruct (a_fam a =? 1); lia).
  split; [apply bytes_ok_takeN; exact Hoct|]. split; [rewrite lenN_takeN; lia|].
  intros post e He. unfold prefix_addr.
  assert (fam_size (a_fam a) = Some (addr_size a)) as ->.
  { unfold fam_size, addr_size. destruct Hfl as [[F _]|[F _]]; rewrite F; reflexivity. }
  rewrite (acc_rest pre _ post e He).
  assert (lenN (takeN k (a_oct a)) = k) as Hx by (rewrite lenN_takeN; lia).
  rewrite Hx. assert (k <=? addr_size a = true) as -> by lia. cbv zeta.
  assert (takeN k (a_oct a) ++ zeros (N.to_nat (addr_size a - k)) = a_oct a) as ->.
  { assert (zeros (N.to_nat (addr_size a - k)) = dropN k (a_oct a)) as ->; [|apply takeN_dropN_id].
    rewrite (all_zero_zeros _ Hz). f_equal.
    pose proof (lenN_dropN k (a_oct a)) as HL. unfold lenN in HL, Hsz. lia. }
  rewrite C. destruct a; reflexivity.
Qed.

Lemma addr_fam_lt (a : addr) : addr_wf a -> a_fam a < 65536.
Proof. intros [[[F _]|[F _]] _]; lia. Qed.

(* ---- EDNS options ---- *)
Lemma is_ok_unit (r : res unit) : is_ok r = true -> r = Ok tt.
Proof. destruct r as [[]| | |]; try discriminate. reflexivity. Qed.

Lemma option_acc (o : ednsopt) (w : bytes) : opt_wfb o = true -> renders_option o w ->
  bytes_ok w /\ cf option_ w o /\ w <> [].
Proof.
  intros Hwf Hr. inversion Hr as [e wa Ha|c|n z Hn Hz]; subst; cbn [opt_wfb] in Hwf.
  - (* ECS *)
    wf_split Hwf. pose proof (addr_wfb_wf _ Hwf) as Wa. apply is_ok_unit in W1.
    pose proof (addr_fam_lt _ Wa) as Hfam.
    split; [|split; [|discriminate]].
    + destruct (addr_acc [] _ _ wa Wa W1 Ha) as (Hb & Hl & _).
      apply bytes_ok_app; [apply be16_ok; lia|]. apply bytes_ok_app; [apply be16_ok; lia|].
      apply bytes_ok_app; [apply be16_ok; exact Hfam|].
      cbn [app]. apply bytes_ok_cons; [lia|]. apply bytes_ok_cons; [lia|exact Hb].
    + intro pre. destruct (addr_acc [] _ _ wa Wa W1 Ha) as (_ & Hl & _). unfold option_.
      apply (acc_bind false (num 2) _ _ _ _ 8); [apply acc_num2; lia|].
      apply (acc_bind false (num 2) _ _ _ _ (4 + lenN wa)); [apply acc_num2; lia|].
      apply acc_within; [unfold be16; lenN_norm; lia|]. change (8 =? 8) with true. cbv iota.
      apply (acc_bind true (num 2) _ _ _ _ (a_fam (e_addr e))); [apply acc_num2; exact Hfam|].
      change ([e_src e; e_scope e] ++ wa) with ([e_src e] ++ [e_scope e] ++ wa).
      apply (acc_bind true (num 1) _ _ _ _ (e_src e)); [apply acc_num1|].
      apply (acc_bind true (num 1) _ _ _ _ (e_scope e)); [apply acc_num1|].
      match goal with |- acc true _ ?P _ _ => destruct (addr_acc P _ _ wa Wa W1 Ha) as (_ & _ & HA) end.
      apply (acc_bind_last' true _ _ _ wa (e_addr e)); [exact HA|].
      destruct e as [src scope a]. apply acc_ret.
  - (* cookie *)
    wf_split Hwf. apply bytes_okb_ok in W0.
    assert (bytes_ok (cookie_data c) /\ (lenN (cookie_data c) = 8 \/ 16 <= lenN (cookie_data c) <= 40) /\
            ((lenN (cookie_data c) =? 8) = true -> c_server c = None)) as (Hb & Hl & Hnone).
    { unfold cookie_data. destruct (c_server c) as [sv|].
      - wf_split W. apply bytes_okb_ok in W1. split; [apply bytes_ok_app; assumption|].
        lenN_norm. split; [lia|]. intro; lia.
      - rewrite app_nil_r. split; [exact W0|]. split; [lia|reflexivity]. }
    split; [|split; [|discriminate]].
    + apply bytes_ok_app; [apply be16_ok; lia|]. apply bytes_ok_app; [apply be16_ok; lia|exact Hb].
    + intro pre. unfold option_.
      apply (acc_bind false (num 2) _ _ _ _ 10); [apply acc_num2; lia|].
      apply (acc_bind false (num 2) _ _ _ _ (lenN (cookie_data c))); [apply acc_num2; lia|].
      apply acc_within; [reflexivity|]. change (10 =? 8) with false. change (10 =? 10) with true. cbv iota.
      assert ((lenN (cookie_data c) =? 8) || (16 <=? lenN (cookie_data c)) && (lenN (cookie_data c) <=? 40) = true)
        as -> by lia.
      set (pre' := (pre ++ be16 10) ++ be16 (lenN (cookie_data c))).
      destruct (lenN (cookie_data c) =? 8) eqn:E8.
      * assert (cookie_data c = c_client c) as Ec.
        { unfold cookie_data. rewrite (Hnone eq_refl). apply app_nil_r. }
        rewrite Ec.
        apply (acc_bind_last' true (octets 8) _ pre' _ (c_client c)); [apply acc_end, acc_octets; lia|].
        apply (acc_bind_last' true rest _ _ [] []); [apply acc_rest|].
        assert ({| c_client := c_client c; c_server := None |} = c) as ->; [|apply acc_ret].
        pose proof (Hnone eq_refl) as Hs. destruct c as [cl sv]. cbn [c_client c_server] in *. subst sv. reflexivity.
      * destruct c as [cl [sv|]]; unfold cookie_data in *; cbn [c_client c_server] in *;
          [|rewrite app_nil_r in E8; lia].
        apply (acc_bind true (octets 8) _ pre' cl sv cl); [apply acc_octets; lia|].
        apply (acc_bind_last' true rest _ _ sv sv); [apply acc_rest|]. apply acc_ret.
  - (* padding *)
    assert (lenN z < 65536) as Hn' by lia. clear Hwf.
    split; [|split; [|discriminate]].
    + apply bytes_ok_app; [apply be16_ok; lia|]. apply bytes_ok_app; [apply be16_ok; lia|apply all_zero_ok; exact Hz].
    + intro pre. unfold option_.
      apply (acc_bind false (num 2) _ _ _ _ 12); [apply acc_num2; lia|].
      apply (acc_bind false (num 2) _ _ _ _ (lenN z)); [apply acc_num2; lia|].
      apply acc_within; [reflexivity|]. change (12 =? 8) with false. change (12 =? 10) with false.
      change (12 =? 12) with true. cbv iota.
      apply (acc_bind_last' true rest _ _ z z); [apply acc_rest|].
      rewrite (all_zero_forallb z Hz). apply acc_ret.
Qed.

Lemma options_acc (opts : list ednsopt) (ws : list bytes) :
  forallb opt_wfb opts = true -> Forall2 renders_option opts ws ->
  bytes_ok (concat ws) /\ Forall2 (fun w v => cf option_ w v /\ w <> []) ws opts.
Proof.
  intros Hwf H. induction H as [|o w opts ws Ho _ IH]; cbn [forallb concat] in *;
    [split; [apply bytes_ok_nil|constructor]|].
  apply andb_true_iff in Hwf. destruct Hwf as [H1 H2].
  destruct (option_acc o w H1 Ho) as (Hb & Hc & Hne). destruct (IH H2) as [Hbs Hf].
  split; [apply bytes_ok_app; assumption|]. constructor; [split; assumption|exact Hf].
Qed.

(* ---- the OPT RDATA ---- *)
Lemma type_41 : in_table Type_table 41 = true. Proof. vm_compute. reflexivity. Qed.

Lemma opt_ttl_fields (ext ver : N) (dnssec : bool) : ext < 256 -> ver < 256 ->
  let ttl := ext * 16777216 + ver * 65536 + (if dnssec then 32768 else 0) in
  ttl < 4294967296 /\ ttl mod 32768 = 0 /\ ttl / 16777216 = ext /\ (ttl / 65536) mod 256 = ver /\
  testb ttl 15 = dnssec.
Proof.
  intros He Hv ttl. unfold testb. rewrite testbit15. subst ttl. destruct dnssec.
  - split; [lia|]. split; [lia|]. split; [lia|]. split; [lia|]. apply N.eqb_eq. lia.
  - split; [lia|]. split; [lia|]. split; [lia|]. split; [lia|]. apply N.eqb_neq. lia.
Qed.

Lemma rdata_opt_ok (r : rr) : opt_rr_wf r = true -> rdata_ok r.
Proof.
  intros Hwf pre wd owner' Hwd Eo _.
  destruct r as [t nm cls ttl d]. unfold opt_rr_wf in Hwf. cbn [r_type r_name r_class r_ttl r_data] in *.
  destruct d as [|payload ext ver dnssec opts| |]; try (wf_split Hwf; discriminate).
  apply andb_true_iff in Hwf. destruct Hwf as [Hwf Hd]. apply andb_true_iff in Hd. destruct Hd as [Hd W3].
  wf_split Hwf. wf_split Hd.
  assert (t = 41) by lia. assert (cls = 0) by lia. assert (ttl = 0) by lia. subst t cls ttl.
  destruct nm as [|l0 nm]; [|discriminate].
  assert (owner' = []) as -> by (destruct owner'; [reflexivity|discriminate]).
  inversion Hwd as [|payload0 ext0 ver0 dnssec0 opts0 ws Hopts| | |]; subst.
  destruct (options_acc opts ws W3 Hopts) as [Hb Hf].
  split; [exact Hb|].
  exists {| r_type := 41; r_name := []; r_class := 0; r_ttl := 0; r_data := ROpt payload ext ver dnssec opts |}.
  split; [|unfold rr_eqv; cbn [r_type r_name r_class r_ttl r_data rdata_eqv];
           split; [reflexivity|split; [reflexivity|split; [reflexivity|split; reflexivity]]]].
  cbn [wire_class wire_ttl r_data].
  destruct (opt_ttl_fields ext ver dnssec ltac:(lia) ltac:(lia)) as (_ & T1 & T2 & T3 & T4).
  apply (acc_ext true _ _ pre (concat ws) _ (fun b s e => rdata_opt payload _ [] b s e)).
  unfold opt_spec. rewrite T1. change (0 =? 0) with true. cbv iota.
  apply (acc_bind_last' true _ _ pre (concat ws) (ROpt payload ext ver dnssec opts)); [|apply acc_ret].
  apply (acc_bind_last' true (many_to_end option_) _ pre (concat ws) opts); [apply acc_many; exact Hf|].
  rewrite T2, T3, T4. apply acc_ret.
Qed.

(* ---- APL ---- *)
Lemma apitem_acc (i : apitem) (w : bytes) : apitem_wfb i = true -> renders_apitem i w ->
  bytes_ok w /\ cf apl_item w i /\ w <> [].
Proof.
  intros Hwf Hr. inversion Hr as [i0 wa Ha]; subst.
  destruct (apitem_wfb_inv i Hwf) as (Wa & C & Hp). pose proof (addr_fam_lt _ Wa) as Hfam.
  destruct (addr_acc [] _ _ wa Wa C Ha) as (Hb & Hl & _).
  split; [|split; [|discriminate]].
  - apply bytes_ok_app; [apply be16_ok; exact Hfam|]. cbn [app].
    apply bytes_ok_cons; [lia|]. apply bytes_ok_cons; [destruct (i_neg i); lia|exact Hb].
  - intro pre. unfold apl_item.
    apply (acc_bind false (num 2) _ _ _ _ (a_fam (i_addr i))); [apply acc_num2; exact Hfam|].
    change ([i_prefix i; (if i_neg i then 128 else 0) + lenN wa] ++ wa)
      with ([i_prefix i] ++ [(if i_neg i then 128 else 0) + lenN wa] ++ wa).
    apply (acc_bind false (num 1) _ _ _ _ (i_prefix i)); [apply acc_num1|].
    apply (acc_bind false (num 1) _ _ _ _ ((if i_neg i then 128 else 0) + lenN wa)); [apply acc_num1|].
    assert (((if i_neg i then 128 else 0) + lenN wa) mod 128 = lenN wa) as -> by (destruct (i_neg i); lia).
    assert ((128 <=? (if i_neg i then 128 else 0) + lenN wa) = i_neg i) as -> by (destruct (i_neg i); lia).
    match goal with |- acc false _ ?P _ _ => destruct (addr_acc P _ _ wa Wa C Ha) as (_ & _ & HA) end.
    apply (acc_bind_last' false _ _ _ wa (i_addr i)); [apply acc_within; [reflexivity|exact HA]|].
    destruct i as [p n a]. apply acc_ret.
Qed.

Lemma apitems_acc (items : list apitem) (ws : list bytes) :
  forallb apitem_wfb items = true -> Forall2 renders_apitem items ws ->
  bytes_ok (concat ws) /\ Forall2 (fun w v => cf apl_item w v /\ w <> []) ws items.
Proof.
  intros Hwf H. induction H as [|o w items ws Ho _ IH]; cbn [forallb concat] in *;
    [split; [apply bytes_ok_nil|constructor]|].
  apply andb_true_iff in Hwf. destruct Hwf as [H1 H2].
  destruct (apitem_acc o w H1 Ho) as (Hb & Hc & Hne). destruct (IH H2) as [Hbs Hf].
  split; [apply bytes_ok_app; assumption|]. constructor; [split; assumption|exact Hf].
Qed.

Lemma class_spec_in (t : N) (b : bytes) (s e : N) : class_spec t 1 b s e = Some (1, s).
Proof. unfold class_spec. rewrite class_one. cbn [negb N.eqb Pos.eqb]. rewrite andb_false_r. reflexivity. Qed.

Lemma rdata_apl_ok (r : rr) : apl_rr_wf r = true -> rdata_ok r.
Proof.
  intros Hwf pre wd owner' Hwd Eo _.
  destruct r as [t nm cls ttl d]. unfold apl_rr_wf in Hwf. cbn [r_type r_name r_class r_ttl r_data] in *.
  destruct d as [| |items|]; try (wf_split Hwf; discriminate).
  apply andb_true_iff in Hwf. destruct Hwf as [Hwf W]. wf_split Hwf.
  assert (t = 42) by lia. assert (cls = 1) by lia. subst t cls.
  inversion Hwd as [| |items0 ws Hitems| |]; subst.
  destruct (apitems_acc items ws W Hitems) as [Hb Hf].
  split; [exact Hb|].
  exists {| r_type := 42; r_name := owner'; r_class := 1; r_ttl := ttl; r_data := RApl items |}.
  split; [|unfold rr_eqv; cbn [r_type r_name r_class r_ttl r_data rdata_eqv];
           split; [reflexivity|split; [exact Eo|split; [reflexivity|split; reflexivity]]]].
  cbn [wire_class wire_ttl r_data r_class r_ttl].
  apply (acc_ext true _ _ pre (concat ws) _ (fun b s e => rdata_apl 1 ttl owner' b s e)).
  apply acc_bind_nil with (x := 1); [apply class_spec_in|].
  apply (acc_bind_last' true (many_to_end apl_item) _ pre (concat ws) items); [apply acc_many; exact Hf|].
  apply acc_ret.
Qed.
