(* C09 — RemainingBytes is raised at one place only: no reader below [dns_] returns it.  A
   compositional predicate on decoder computations (no well-formedness needed). *)
From Coq Require Import ZifyBool ZifyN ZifyNat.
From DNS Require Import Model.Dec Proofs.DecBase Proofs.DecName Proofs.DecSafe Proofs.DecTotal Proofs.Frame Proofs.FrameMsg.
Local Open Scope N_scope.

Definition nrb {A} (m : DM A) : Prop :=
  forall (s : dst) (e : etag) (l : list N) (c : N), m s = DErr (e, l) c -> e <> ERemainingBytes.
Definition res_nrb {A} (r : res A) : Prop :=
  forall (e : etag) (l : list N), r = Err (e, l) -> e <> ERemainingBytes.

Lemma nrb_ret {A} (a : A) : nrb (ret a).
Proof. intros s e l c H. discriminate. Qed.
Lemma nrb_fail {A} (t : etag) (p : list N) : t <> ERemainingBytes -> nrb (@fail A (t, p)).
Proof. intros Ht s e l c H. unfold fail in H. injection H as <- _ _. exact Ht. Qed.
Lemma nrb_err {A} (t : etag) (p : dst -> list N) (g : dst -> N) : t <> ERemainingBytes ->
  nrb (fun s => @DErr A (t, p s) (g s)).
Proof. intros Ht s e l c H. injection H as <- _ _. exact Ht. Qed.
Lemma nrb_panic {A} (x : site) : nrb (@panic A x).
Proof. intros s e l c H. discriminate. Qed.
Lemma nrb_bind {A B} (m : DM A) (f : A -> DM B) : nrb m -> (forall a, nrb (f a)) -> nrb (bind m f).
Proof.
  intros Hm Hf s e l c H. unfold bind in H. destruct (m s) as [a s1|e0 c0|x|] eqn:E; try discriminate.
  - eapply Hf. exact H.
  - injection H as -> ->. eapply Hm. exact E.
Qed.
Lemma nrb_lift {A} (r : res A) : res_nrb r -> nrb (lift r).
Proof.
  intro Hr. destruct r as [a|[t p]|x|]; cbn [lift].
  - apply nrb_ret.
  - apply nrb_fail. eapply Hr. reflexivity.
  - apply nrb_panic.
  - intros s e l c H. discriminate.
Qed.

Lemma nrb_read (n : N) : nrb (read n).
Proof.
  intros s e l c H. unfold read in H. cbv zeta in H. destruct (POW64 <=? d_off s + n); [discriminate|].
  destruct (cmp_apply OP_read (d_off s + n) (d_len s)); [discriminate|]. injection H as <- _ _. discriminate.
Qed.
Lemma nrb_is_finished : nrb is_finished.
Proof.
  intros s e l c H. unfold is_finished in H. destruct (d_off s <? d_len s); [discriminate|].
  destruct (d_off s =? d_len s); [discriminate|]. injection H as <- _ _. discriminate.
Qed.
Lemma nrb_finished : nrb finished.
Proof.
  unfold finished. apply nrb_bind; [exact nrb_is_finished|]. intros [|]; [apply nrb_ret|].
  apply (nrb_err ETooManyBytes (fun s => [d_len s; d_off s]) d_cost). discriminate.
Qed.
Lemma nrb_vec : nrb vec.
Proof.
  intros s e l c H. unfold vec in H. destruct (cmp_apply OP_bytes (d_off s) (d_len s)); [discriminate|].
  injection H as <- _ _. discriminate.
Qed.
Lemma nrb_loop_fuel : nrb loop_fuel.
Proof. intros s e l c H. discriminate. Qed.
Lemma nrb_with_sub {A} (n : N) (m : DM A) : nrb m -> nrb (with_sub n m).
Proof.
  intros Hm s e l c H. unfold with_sub in H. destruct (read n s) as [b s1|e0 c0|x|] eqn:R; try discriminate.
  - match type of H with match ?X ?cs with _ => _ end = _ => destruct (X cs) as [a c1|e1 c1|x|] eqn:E; try discriminate end.
    injection H as -> ->. revert E. apply nrb_bind; [exact Hm|]. intro a.
    apply nrb_bind; [exact nrb_finished|]. intro. apply nrb_ret.
  - injection H as -> ->. eapply nrb_read. exact R.
Qed.

Lemma nrb_u8 : nrb u8.
Proof. unfold u8. apply nrb_bind; [apply nrb_read|]. intros [|x r]; [apply nrb_panic|apply nrb_ret]. Qed.
Lemma nrb_uint (k : N) : nrb (uint k).
Proof. unfold uint. apply nrb_bind; [apply nrb_read|]. intro b. destruct (lenN b =? k); [apply nrb_ret|apply nrb_panic]. Qed.
Lemma nrb_u16 : nrb u16. Proof. apply nrb_uint. Qed.
Lemma nrb_u32 : nrb u32. Proof. apply nrb_uint. Qed.
Lemma nrb_u64 : nrb u64. Proof. apply nrb_uint. Qed.
Lemma nrb_ipv4 : nrb ipv4_addr. Proof. apply nrb_uint. Qed.
Lemma nrb_code (t : list (string * N)) (er : etag) (rd : DM N) : er <> ERemainingBytes -> nrb rd -> nrb (code t er rd).
Proof.
  intros He Hr. unfold code. apply nrb_bind; [exact Hr|]. intro v.
  destruct (in_table t v); [apply nrb_ret|apply nrb_fail; exact He].
Qed.

Global Hint Resolve nrb_read nrb_is_finished nrb_finished nrb_vec nrb_loop_fuel nrb_u8 nrb_u16 nrb_u32 nrb_u64
  nrb_ipv4 nrb_uint : nrb.

Ltac nb := apply nrb_bind; [solve [auto with nrb]|intro].
Ltac nleaf := first [apply nrb_ret | apply nrb_panic | (apply nrb_fail; discriminate) | solve [auto with nrb]].
Ltac nif := match goal with |- nrb (if ?b then _ else _) => destruct b end.
Ltac nauto := repeat first [nleaf | nb | nif].

Lemma nrb_string : nrb string_.
Proof. unfold string_. nauto. Qed.
Lemma nrb_ipv6 : nrb ipv6_addr.
Proof. unfold ipv6_addr. nauto. Qed.
Global Hint Resolve nrb_string nrb_ipv6 : nrb.

(* ---- names ---- *)
Lemma res_nrb_check_label (b : bytes) : res_nrb (check_label b).
Proof.
  unfold check_label. cbv zeta. intros e l H. destruct (lenN b =? 0); [injection H as <- _; discriminate|].
  destruct (cmp_apply OP_check_label (lenN b) LABEL_MAX_LENGTH); [discriminate|]. injection H as <- _. discriminate.
Qed.
Lemma res_nrb_append_label (n : name) (b : label) : res_nrb (append_label n b).
Proof.
  unfold append_label. cbv zeta. intros e l H.
  match type of H with (if ?c then _ else _) = _ => destruct c end; [|discriminate]. injection H as <- _. discriminate.
Qed.
Lemma nrb_label (nm : name) (len : N) : nrb (domain_name_label nm len).
Proof.
  unfold domain_name_label. nb. nif; [|nleaf].
  apply nrb_bind; [apply nrb_lift; apply res_nrb_check_label|intro].
  apply nrb_bind; [apply nrb_lift; apply res_nrb_append_label|intro]. nauto.
Qed.

Lemma nrb_rec_loop (main : bytes) : forall (f : nat) (nm : name) (recs : list N) (len : N), nrb (rec_loop f main nm recs len).
Proof.
  induction f as [|f IH]; intros nm recs len; [intros s e l c H; discriminate|].
  rewrite rec_loop_S. nif; [nleaf|]. nif.
  - nb. cbv zeta. nif; [nleaf|]. nif; [nleaf|].
    intros s e l c H. revert H. apply nrb_bind; [exact nrb_u8|]. intro. apply IH.
  - apply nrb_bind; [apply nrb_label|]. intros [nm' l]. apply IH.
Qed.
Lemma nrb_name_loop (main : bytes) : forall (f : nat) (nm : name) (len : N), nrb (name_loop f main nm len).
Proof.
  induction f as [|f IH]; intros nm len; [intros s e l c H; discriminate|].
  rewrite name_loop_S. nif; [nleaf|]. nif.
  - nb. cbv zeta. intros s e l c H.
    match type of H with match ?X ?j with _ => _ end = _ => destruct (X j) as [a9 c1|e1 c1|x|] eqn:E; try discriminate end.
    injection H as -> ->. revert E. apply nrb_bind; [exact nrb_u8|]. intro. apply nrb_rec_loop.
  - apply nrb_bind; [apply nrb_label|]. intros [nm' l]. apply IH.
Qed.
Lemma nrb_domain_name (main : bytes) : nrb (domain_name main).
Proof. unfold domain_name. nb. apply nrb_name_loop. Qed.
Global Hint Resolve nrb_domain_name : nrb.

(* ---- loops ---- *)
Lemma nrb_many {A} (item : DM A) : nrb item -> forall (f : nat) (acc : list A), nrb (many f item acc).
Proof.
  intro Hi. induction f as [|f IH]; intro acc; [intros s e l c H; discriminate|].
  rewrite many_S. nb. nif; [nleaf|]. apply nrb_bind; [exact Hi|]. intro. apply IH.
Qed.
Lemma nrb_strings_loop : forall (f : nat) (acc : list bytes), nrb (strings_loop f acc).
Proof.
  induction f as [|f IH]; intro acc; [intros s e l c H; discriminate|].
  rewrite strings_loop_S. nb. nif; [nleaf|]. nb. apply IH.
Qed.
Lemma nrb_many_loop {A B} (item : DM A) (g : list A -> DM B) : nrb item -> (forall l, nrb (g l)) ->
  nrb (fuel <- loop_fuel ;; l <- many fuel item [] ;; g l).
Proof. intros Hi Hg. nb. apply nrb_bind; [apply nrb_many; exact Hi|exact Hg]. Qed.

(* ---- field readers: the error tags carried by the format tables ---- *)
Definition tag_ok (t : etag) : bool := match t with ERemainingBytes => false | _ => true end.
Lemma tag_ok_ne (t : etag) : tag_ok t = true -> t <> ERemainingBytes.
Proof. intros H ->. discriminate. Qed.
Definition fk_tag_ok (k : fk) : bool :=
  match k with FEnum8 _ er | FEnum16 _ er | FConst8 _ er => tag_ok er | _ => true end.
Definition ck_tag_ok (c : classrule) : bool := match c with CKIn er => tag_ok er | _ => true end.
Definition reader_tag_ok (r : reader) : bool :=
  match r with RdFields c f => ck_tag_ok c && forallb (fun p => fk_tag_ok (snd p)) f | RdSpecial _ => true end.
Lemma dispatch_tag_ok : forallb (fun p => reader_tag_ok (snd p)) dec_dispatch = true.
Proof. vm_compute. reflexivity. Qed.

Lemma res_nrb_psdn (a : bytes) : res_nrb (psdn_try_from a).
Proof. unfold psdn_try_from. intros e l H. destruct (forallb is_digit a); [discriminate|]. injection H as <- _. discriminate. Qed.
Lemma res_nrb_isdn (a : bytes) : res_nrb (isdn_try_from a).
Proof. unfold isdn_try_from. intros e l H. destruct (forallb is_digit a); [discriminate|]. injection H as <- _. discriminate. Qed.
Lemma res_nrb_sa (a : bytes) : res_nrb (sa_try_from a).
Proof. unfold sa_try_from. intros e l H. destruct (forallb is_hexdigit a); [discriminate|]. injection H as <- _. discriminate. Qed.
Lemma res_nrb_tag (a : bytes) : res_nrb (tag_try_from a).
Proof.
  unfold tag_try_from. intros e l H. destruct a as [|x r]; [injection H as <- _; discriminate|].
  destruct (forallb is_alnum (x :: r)); [discriminate|]. injection H as <- _. discriminate.
Qed.

Lemma nrb_read_field (main : bytes) (k : fk) : fk_tag_ok k = true -> nrb (read_field main k).
Proof.
  intro Hk. destruct k; cbn [read_field fk_tag_ok] in *; try solve [nauto].
  - apply nrb_bind; [apply nrb_code; [exact (tag_ok_ne _ Hk)|exact nrb_u8]|intro; nleaf].
  - apply nrb_bind; [apply nrb_code; [exact (tag_ok_ne _ Hk)|exact nrb_u16]|intro; nleaf].
  - nb. apply nrb_bind; [apply nrb_lift; apply res_nrb_psdn|intro; nleaf].
  - nb. apply nrb_bind; [apply nrb_lift; apply res_nrb_isdn|intro; nleaf].
  - nb. nif; [nleaf|]. nb. apply nrb_bind; [apply nrb_lift; apply res_nrb_sa|intro; nleaf].
  - nb. apply nrb_bind; [apply nrb_lift; apply res_nrb_tag|intro; nleaf].
  - nb. apply nrb_bind; [apply nrb_strings_loop|]. intros [|x r]; nleaf.
  - nb. nif; [|nleaf]. apply nrb_fail. exact (tag_ok_ne _ Hk).
  - intros s e l c H. discriminate.
Qed.
Lemma nrb_read_fields (main : bytes) (f : list (string * fk)) :
  forallb (fun p => fk_tag_ok (snd p)) f = true -> nrb (read_fields main f).
Proof.
  induction f as [|[nm k] r IH]; intro H; cbn [read_fields]; [apply nrb_ret|].
  cbn [forallb snd] in H. apply andb_prop in H. destruct H as [H1 H2].
  apply nrb_bind; [apply nrb_read_field; exact H1|intro]. apply nrb_bind; [apply IH; exact H2|intro]. apply nrb_ret.
Qed.
Lemma nrb_get_class (c : N) : nrb (get_class c).
Proof. unfold get_class. nauto. Qed.
Lemma nrb_class_rule (ck : classrule) (c : N) : ck_tag_ok ck = true -> nrb (class_rule ck c).
Proof.
  intro H. destruct ck; cbn [class_rule ck_tag_ok] in *; [apply nrb_get_class| |apply nrb_ret].
  apply nrb_bind; [apply nrb_get_class|intro]. nif; [nleaf|]. apply nrb_fail. exact (tag_ok_ne _ H).
Qed.

(* ---- special RDATA readers ---- *)
Lemma res_nrb_check_prefix (a : addr) (p : N) : res_nrb (check_prefix a p).
Proof.
  assert (G : forall bits t1 t2 o, t1 <> ERemainingBytes -> t2 <> ERemainingBytes -> res_nrb (check_addr_bits bits t1 t2 o p)).
  { intros bits t1 t2 o H1 H2 e l H. unfold check_addr_bits in H. cbv zeta in H.
    destruct (bits <? p); [injection H as <- _; exact H1|]. destruct (bits =? p); [discriminate|].
    destruct (nthN (p / 8) o) as [x|]; [|discriminate]. destruct (8 <=? p mod 8); [discriminate|].
    destruct (negb (N.land x (N.shiftr PREFIX_MASK (p mod 8)) =? 0)); [injection H as <- _; exact H2|].
    destruct (lenN o <? p / 8 + 1); [discriminate|].
    destruct (forallb (N.eqb 0) (dropN (p / 8 + 1) o)); [discriminate|]. injection H as <- _. exact H2. }
  unfold check_prefix. destruct (a_fam a =? 1); apply G; discriminate.
Qed.
Lemma nrb_address_sized (size : N) (op : cmp) (t : etag) (x : site) : t <> ERemainingBytes -> nrb (rr_address_sized size op t x).
Proof. intro Ht. unfold rr_address_sized. nb. cbv zeta. nif; [apply nrb_fail; exact Ht|]. nauto. Qed.
Lemma nrb_address (fam : N) : nrb (rr_address fam).
Proof.
  unfold rr_address. nif; (apply nrb_bind; [apply nrb_address_sized; discriminate|intro; nleaf]).
Qed.
Lemma nrb_family : nrb rr_address_family_number.
Proof. unfold rr_address_family_number. apply nrb_code; [discriminate|exact nrb_u16]. Qed.
Lemma res_nrb_ecs_new (src scope : N) (a : addr) : res_nrb (ecs_new src scope a).
Proof.
  unfold ecs_new, ecs_check. cbv zeta. cbn [e_addr].
  intros e l H. destruct (check_prefix a _) as [u|[t p]|x|] eqn:E; try discriminate.
  injection H as <- _. eapply res_nrb_check_prefix. exact E.
Qed.
Lemma res_nrb_apitem_new (p : N) (neg : bool) (a : addr) : res_nrb (apitem_new p neg a).
Proof.
  unfold apitem_new. intros e l H. destruct (check_prefix a p) as [u|[t q]|x|] eqn:E; try discriminate.
  injection H as <- _. eapply res_nrb_check_prefix. exact E.
Qed.
Lemma nrb_ecs : nrb rr_edns_ecs.
Proof.
  unfold rr_edns_ecs. apply nrb_bind; [exact nrb_family|intro]. nb. nb.
  apply nrb_bind; [apply nrb_address|intro]. apply nrb_lift. apply res_nrb_ecs_new.
Qed.
Lemma res_nrb_cookie_new (c : bytes) (o : option bytes) : res_nrb (cookie_new c o).
Proof.
  unfold cookie_new, cookie_set_server. cbv zeta. intros e l H. destruct o as [sv|]; [|discriminate].
  destruct (server_len_ok (lenN sv)); [discriminate|]. injection H as <- _. discriminate.
Qed.
Lemma nrb_cookie : nrb rr_edns_cookie.
Proof.
  unfold rr_edns_cookie. nb. cbv zeta. nif.
  - nif; [nleaf|]. apply nrb_lift. apply res_nrb_cookie_new.
  - nif; [|nleaf]. nif; [nleaf|]. apply nrb_lift. apply res_nrb_cookie_new.
Qed.
Lemma nrb_padding : nrb rr_edns_padding.
Proof. unfold rr_edns_padding. nb. cbv zeta. nif; [nleaf|]. match goal with |- nrb (match ?x with _ => _ end) => destruct x end; nleaf. Qed.
Lemma nrb_edns_option : nrb rr_edns_option.
Proof.
  unfold rr_edns_option. apply nrb_bind; [apply nrb_code; [discriminate|exact nrb_u16]|intro]. nb.
  apply nrb_with_sub. nif; [|nif].
  - apply nrb_bind; [exact nrb_ecs|intro; nleaf].
  - apply nrb_bind; [exact nrb_cookie|intro; nleaf].
  - apply nrb_bind; [exact nrb_padding|intro; nleaf].
Qed.
Lemma nrb_opt (owner : name) (hclass ttl : N) : nrb (rr_opt owner hclass ttl).
Proof.
  unfold rr_opt. destruct owner; [|nleaf].
  apply nrb_bind; [unfold rr_opt_ttl; cbv zeta; nauto|]. intros [[ext ver] dnssec].
  apply (nrb_many_loop rr_edns_option (fun opts => ret (ROpt hclass ext ver dnssec opts))); [exact nrb_edns_option|].
  intro. apply nrb_ret.
Qed.
Lemma nrb_apitem : nrb rr_apl_apitem.
Proof.
  unfold rr_apl_apitem. apply nrb_bind; [exact nrb_family|intro]. nb. nb. cbv zeta.
  apply nrb_bind; [apply nrb_with_sub; apply nrb_address|intro]. apply nrb_lift. apply res_nrb_apitem_new.
Qed.
Lemma nrb_apl (hclass : N) : nrb (rr_apl hclass).
Proof.
  unfold rr_apl. apply nrb_bind; [apply nrb_class_rule; reflexivity|intro].
  apply (nrb_many_loop rr_apl_apitem (fun items => ret (RApl items))); [exact nrb_apitem|]. intro. apply nrb_ret.
Qed.
Lemma nrb_service_parameter (key : N) : nrb (rr_service_parameter key).
Proof.
  unfold rr_service_parameter.
  nif. { apply (nrb_many_loop u16 (fun l => ret (PMandatory l))); [exact nrb_u16|intro; apply nrb_ret]. }
  nif. { apply (nrb_many_loop string_ (fun l => ret (PAlpn l))); [exact nrb_string|intro; apply nrb_ret]. }
  nif; [nleaf|]. nif; [nauto|].
  nif. { apply (nrb_many_loop ipv4_addr (fun l => ret (PIpv4Hint l))); [exact nrb_ipv4|intro; apply nrb_ret]. }
  nif; [nauto|].
  nif. { apply (nrb_many_loop ipv6_addr (fun l => ret (PIpv6Hint l))); [exact nrb_ipv6|intro; apply nrb_ret]. }
  nauto.
Qed.
Lemma nrb_svc_params : forall (f : nat) (acc : list svcparam), nrb (svc_params f acc).
Proof.
  induction f as [|f IH]; intro acc; [intros s e l c H; discriminate|].
  rewrite svc_params_S. nb. nif; [nleaf|]. nb. nb.
  apply nrb_bind; [apply nrb_with_sub; apply nrb_service_parameter|intro p].
  destruct (set_insert p acc) as [acc' ins]. destruct ins; [apply IH|nleaf].
Qed.
Lemma nrb_service_binding (main : bytes) (hclass : N) : nrb (rr_service_binding main hclass).
Proof.
  unfold rr_service_binding. apply nrb_bind; [apply nrb_class_rule; reflexivity|intro]. nb. nb.
  nif; [|nleaf]. nb. apply nrb_bind; [apply nrb_svc_params|intro; nleaf].
Qed.

(* ---- records, questions, the message body ---- *)
Lemma nrb_rr_body (main : bytes) (t : N) (owner : name) (hclass ttl : N) : nrb (rr_body main t owner hclass ttl).
Proof.
  unfold rr_body. destruct (lookup t dec_dispatch) as [r|] eqn:E; [|nleaf].
  apply lookup_In in E. pose proof dispatch_tag_ok as D. rewrite forallb_forall in D. specialize (D _ E).
  cbn [snd] in D. destruct r as [ck f|sp].
  - cbn [reader_tag_ok] in D. apply andb_prop in D. destruct D as [D1 D2].
    apply nrb_bind; [apply nrb_class_rule; exact D1|intro]. apply nrb_bind; [apply nrb_read_fields; exact D2|intro]. nleaf.
  - destruct sp.
    + apply nrb_bind; [apply nrb_opt|intro; nleaf].
    + apply nrb_bind; [apply nrb_apl|intro; nleaf].
    + apply nrb_bind; [apply nrb_service_binding|intro; nleaf].
    + apply nrb_bind; [apply nrb_service_binding|intro; nleaf].
Qed.
Lemma nrb_rr (main : bytes) : nrb (rr_ main).
Proof.
  unfold rr_. nb. apply nrb_bind; [apply nrb_code; [discriminate|exact nrb_u16]|intro]. nb. nb. nb.
  apply nrb_with_sub. apply nrb_rr_body.
Qed.
Lemma nrb_question (main : bytes) : nrb (question_ main).
Proof.
  unfold question_. nb. apply nrb_bind; [apply nrb_code; [discriminate|exact nrb_u16]|intro].
  apply nrb_bind; [apply nrb_code; [discriminate|exact nrb_u16]|intro]. nleaf.
Qed.
Lemma nrb_flags : nrb flags_.
Proof. unfold flags_. nb. cbv zeta. nif; [nleaf|]. nb. cbv zeta. nauto. Qed.
Lemma nrb_repeat {A} (m : DM A) (n : nat) : nrb m -> nrb (repeat_dm n m).
Proof.
  intro H. induction n as [|n IH]; cbn [repeat_dm]; [apply nrb_ret|].
  apply nrb_bind; [exact H|intro]. apply nrb_bind; [exact IH|intro]. apply nrb_ret.
Qed.
Lemma nrb_dns_body (main : bytes) : nrb (dns_body main).
Proof.
  unfold dns_body. nb. apply nrb_bind; [exact nrb_flags|intro]. nb. nb. nb. nb.
  apply nrb_bind; [apply nrb_repeat; apply nrb_question|intro].
  apply nrb_bind; [apply nrb_repeat; apply nrb_rr|intro].
  apply nrb_bind; [apply nrb_repeat; apply nrb_rr|intro].
  apply nrb_bind; [apply nrb_repeat; apply nrb_rr|intro]. apply nrb_ret.
Qed.

(* RemainingBytes: exactly when the header checks pass, the section loops succeed and octets
   remain behind the last announced record *)
Theorem dns_remaining_iff (main : bytes) (s : dst) (p : list N) (c : N) :
  dns_ main s = DErr (ERemainingBytes, p) c <->
  d_off s = 0 /\ 12 <= d_len s /\ d_len s <= 65536 /\
  exists (m : dns) (s1 : dst), dns_body main s = DOk m s1 /\ d_off s1 < d_len s1 /\ p = [d_off s1] /\ c = d_cost s1.
Proof.
  rewrite dns_split. unfold OP_dns_min, OP_dns_max, DNS_MIN_LENGTH, MAXIMUM_DNS_PACKET_SIZE. cbn [cmp_apply].
  split.
  - destruct (negb (d_off s =? 0)) eqn:E0; [discriminate|].
    destruct (d_len s <? 12) eqn:E1; [discriminate|]. destruct (65536 <? d_len s) eqn:E2; [discriminate|].
    intro H. unfold bind in H. destruct (dns_body main s) as [m s1|e0 c0|x|] eqn:Eb; try discriminate.
    + unfold dns_tail, bind, is_finished in H. destruct (d_off s1 <? d_len s1) eqn:E3.
      * injection H as <- <-. split; [lia|]. split; [lia|]. split; [lia|]. exists m, s1.
        split; [reflexivity|]. split; [lia|]. split; reflexivity.
      * destruct (d_off s1 =? d_len s1); [discriminate|]. injection H as H _ _. discriminate.
    + injection H as -> ->. exfalso. eapply nrb_dns_body; [exact Eb|reflexivity].
  - intros (H0 & H1 & H2 & m & s1 & Eb & Hlt & -> & ->).
    destruct (negb (d_off s =? 0)) eqn:E0; [lia|].
    destruct (d_len s <? 12) eqn:E1; [lia|]. destruct (65536 <? d_len s) eqn:E2; [lia|].
    unfold bind at 1. rewrite Eb. unfold dns_tail, bind, is_finished.
    destruct (d_off s1 <? d_len s1) eqn:E3; [reflexivity|lia].
Qed.
