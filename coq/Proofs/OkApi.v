(* C08, last clause — vocabulary.
   [api_ok m]      EXACTLY what Rust's types guarantee for a [Dns] value built through the public API of
                   the crate (integer widths, enum membership, the invariants of the validated types).
                   Nothing the ENCODER checks at run time is in here (no string length bound, no section
                   bound, no ECH / option / RDATA / message size bound), and none of the four known
                   defect classes is excluded here.
   [known_class m] the disjunction of the four known defect classes KF4..KF7, each as narrow as the
                   defect itself.
   Every clause carries a comment naming the Rust type / constructor that provides it. *)
From DNS Require Import Model.Dec Model.Enc
  Proofs.EncTyped Proofs.RtPrim Proofs.RtFields Proofs.RtRecord Proofs.RtSpecial Proofs.RtApl Proofs.RtMsg
  Proofs.C05.
Local Open Scope N_scope.

(* ================================================================================================ *)
(* api_ok: what the types guarantee                                                                  *)
(* ================================================================================================ *)
(* String: valid UTF-8 (hence octets); ANY length *)
Definition api_str (s : bytes) : bool := bytes_okb s && utf8_valid s.

(* one field value of a generated record struct, by field kind *)
Definition api_fv (k : fk) (v : fv) : bool :=
  match k, v with
  | FU8, VN n => n <? 256                                          (* u8 *)
  | FU16, VN n => n <? 65536                                       (* u16 *)
  | FU32, VN n => n <? 4294967296                                  (* u32 *)
  | FU64, VN n => n <? 18446744073709551616                        (* u64 *)
  | FIp4, VN n => n <? 4294967296                                  (* Ipv4Addr *)
  | FName, VName n => name_wf n                                    (* DomainName: Label::from_str (1..=63 octets,
                                                                      a String) + DomainName::append_label (<= 255) *)
  | FStr, VBytes s => api_str s                                    (* String — no length bound *)
  | FRest, VBytes b => bytes_okb b                                 (* Vec<u8> *)
  | FRestUtf8, VBytes b => utf8_valid b                            (* String (URI target) *)
  | FIp6, VBytes b => (lenN b =? 16) && bytes_okb b                (* Ipv6Addr *)
  | FEnum8 e _, VN n => (n <? 256) && in_table (enum_table e) n    (* #[repr(u8)] enum (try_from_enum_to_integer!) *)
  | FEnum16 e _, VN n => (n <? 65536) && in_table (enum_table e) n (* #[repr(u16)] enum *)
  | FStrPsdn, VBytes s => api_str s && forallb is_digit s          (* PSDNAddress::try_from: digits *)
  | FStrIsdn, VBytes s => api_str s && forallb is_digit s          (* ISDNAddress::try_from: digits *)
  | FOptStrSa, VOptStr None => true                                (* Option<SA> *)
  | FOptStrSa, VOptStr (Some s) => api_str s && forallb is_hexdigit s  (* SA::try_from: hex digits *)
  | FStrGpos, VBytes s => api_str s                                (* String — GPOS has NO validated type: may be
                                                                      empty (KF5), may be long *)
  | FTag, VBytes s => api_str s && (1 <=? lenN s) && forallb is_lowalnum s
                                                                   (* Tag::try_from: non-empty, alphanumeric,
                                                                      stored lower-cased *)
  | FStrs1, VStrs l => negb (is_nil l) && forallb api_str l        (* NonEmptyVec<String> *)
  | FDnskeyFlags, VN n => (n <? 65536) && (N.land n DNSKEY_ZERO_MASK =? 0)
                                                                   (* DNSKEY::get_flags(): built from the two bools
                                                                      zone_key_flag / secure_entry_point_flag *)
  | _, _ => false                                                  (* the struct's field has that Rust type *)
  end.

(* a record struct has exactly the fields of its table entry, in order *)
Fixpoint api_vals (ks : list fk) (vals : list fv) : bool :=
  match ks, vals with
  | [], [] => true
  | k :: ks', v :: vs' => api_fv k v && api_vals ks' vs'
  | _, _ => false
  end.

(* owner, type, ttl of every record except OPT *)
Definition api_common (r : rr) : bool :=
  name_wf (r_name r)                     (* domain_name: DomainName *)
  && in_table Type_table (r_type r)      (* the variant of enum RR determines the TYPE *)
  && (r_ttl r <? 4294967296).            (* ttl: u32 *)

(* records of the generated field tables *)
Definition api_plain (r : rr) : bool :=
  api_common r &&
  match lookup (r_type r) enc_dispatch, r_data r with
  | Some (WrFields ec _), RFields vals =>
    api_vals (map snd (dec_value_fields (r_type r))) vals      (* the struct of this variant *)
    && match ec with
       | ECField => in_table Class_table (r_class r)           (* class: Class (enum) *)
       | ECIn => r_class r =? 1                                (* A, WKS, AAAA: the struct has NO class field;
                                                                  the value model stores IN *)
       end
  | _, _ => false
  end.

(* Address: Ipv4Addr (family 1, 4 octets) or Ipv6Addr (family 2, 16 octets) *)
Definition api_addr (a : addr) : bool := addr_wfb a.

Definition api_opt (o : ednsopt) : bool :=
  match o with
  | OEcs e => api_addr (e_addr e)                                      (* Address *)
              && is_ok (check_prefix (e_addr e) (ecs_prefix e))        (* ECS::new + the three setters re-check
                                                                          and roll back (C12) *)
              && (e_src e <? 256) && (e_scope e <? 256)                (* u8, u8 *)
  | OCookie c => (lenN (c_client c) =? 8) && bytes_okb (c_client c)    (* [u8; 8] *)
                 && match c_server c with
                    | Some sv => (8 <=? lenN sv) && (lenN sv <=? 32)   (* Cookie::new / set_server_cookie: 8..=32 *)
                                 && bytes_okb sv                       (* Vec<u8> *)
                    | None => true
                    end
  | OPadding n => n <? 65536                                           (* Padding(pub u16) *)
  end.

(* OPT: the struct has no owner / class / ttl field; the value model stores root / 0 / 0 *)
Definition api_opt_rr (r : rr) : bool :=
  (r_type r =? 41) && is_nil (r_name r) && (r_class r =? 0) && (r_ttl r =? 0) &&
  match r_data r with
  | ROpt payload ext ver dnssec opts =>
    (payload <? 65536)                       (* requestor_payload_size: u16 *)
    && (ext <? 256) && (ver <? 256)          (* extend_rcode: u8, version: u8 *)
    && forallb api_opt opts                  (* Vec<EDNSOption> — any number of options *)
  | _ => false
  end.

Definition api_apitem (i : apitem) : bool :=
  api_addr (i_addr i)                                        (* Address *)
  && is_ok (check_prefix (i_addr i) (i_prefix i))            (* APItem::new + set_prefix / set_address (C12) *)
  && (i_prefix i <? 256).                                    (* u8 *)

(* APL: no class field (IN stored) *)
Definition api_apl_rr (r : rr) : bool :=
  api_common r && (r_type r =? 42) && (r_class r =? 1) &&
  match r_data r with RApl items => forallb api_apitem items (* Vec<APItem> *) | _ => false end.

Definition api_param (p : svcparam) : bool :=
  match p with
  | PMandatory keys => forallb (fun k => k <? 65536) keys                       (* Vec<u16> *)
  | PAlpn ids => forallb api_str ids                                             (* Vec<String> — no length bound *)
  | PNoDefaultAlpn => true
  | PPort port => port <? 65536                                                  (* u16 *)
  | PIpv4Hint h => forallb (fun a => a <? 4294967296) h                          (* Vec<Ipv4Addr> *)
  | PEch cl => bytes_okb cl                                                      (* Vec<u8> — no length bound *)
  | PIpv6Hint h => forallb (fun a : bytes => (lenN a =? 16) && bytes_okb a) h    (* Vec<Ipv6Addr> *)
  | PPrivate n d => (n <? 65536) && bytes_okb d                                  (* number: u16 (ANY, KF6), Vec<u8> *)
  | PKey65535 => true
  end.

(* SVCB / HTTPS: no class field (IN stored); the parameters are a BTreeSet whose Ord looks at the key only:
   strictly increasing keys.  NO relation between priority and parameters (KF7). *)
Definition api_svcb_rr (r : rr) : bool :=
  api_common r && ((r_type r =? 64) || (r_type r =? 65))     (* https: bool *)
  && (r_class r =? 1) &&
  match r_data r with
  | RSvcb prio target params =>
    (prio <? 65536)                      (* priority: u16 *)
    && name_wf target                    (* target_name: DomainName *)
    && forallb api_param params          (* enum of the SvcParam kinds *)
    && keys_sortedb params               (* BTreeSet of them, Ord compares get_registered_number() only *)
  | _ => false
  end.

Definition api_rr (r : rr) : bool :=
  match lookup (r_type r) enc_dispatch with
  | Some (WrFields _ _) => api_plain r
  | Some (WrSpecial SpOpt) => api_opt_rr r
  | Some (WrSpecial SpApl) => api_apl_rr r
  | Some (WrSpecial _) => api_svcb_rr r
  | None => false                                            (* enum RR has no such variant *)
  end.

Definition api_question (q : question) : bool :=
  name_wf (q_name q)                             (* DomainName *)
  && in_table QType_table (q_type q)             (* QType (enum) *)
  && in_table QClass_table (q_class q).          (* QClass (enum) *)

Definition api_flags (f : flags) : bool :=
  in_table Opcode_table (f_opcode f)             (* Opcode (enum) *)
  && in_table RCode_table (f_rcode f).           (* RCode (enum) — includes BADVERS 16 .. BADCOOKIE 23 (KF4) *)

Definition api_ok (m : dns) : bool :=
  (m_id m <? 65536)                              (* id: u16 *)
  && api_flags (m_flags m)                       (* Flags *)
  && forallb api_question (m_qd m)               (* Vec<Question> — any length *)
  && forallb api_rr (m_an m)                     (* Vec<RR> — any length *)
  && forallb api_rr (m_ns m)
  && forallb api_rr (m_ar m).

(* ================================================================================================ *)
(* known_class: the four known defect classes                                                        *)
(* ================================================================================================ *)
(* KF4: an RCode that does not fit the 4-bit header field (BADVERS .. BADCOOKIE); it is OR-ed unmasked
   into the second flag octet *)
Definition kf4 (m : dns) : bool := 16 <=? f_rcode (m_flags m).

(* KF5: a GPOS record (type 27) with an EMPTY coordinate string: written as a zero length octet, which
   the decoder rejects (GPOS wants 1..=256) *)
Definition is_empty_str (v : fv) : bool := match v with VBytes [] => true | _ => false end.
Definition kf5_rr (r : rr) : bool :=
  (r_type r =? 27) && match r_data r with RFields vals => existsb is_empty_str vals | _ => false end.

(* KF6: a PRIVATE service parameter carrying one of the REGISTERED key numbers 0..=6 or 65535: written
   under that number, read back as the registered kind (or rejected) *)
Definition kf6_param (p : svcparam) : bool :=
  match p with PPrivate n _ => (n <=? 6) || (n =? 65535) | _ => false end.
Definition kf6_rr (r : rr) : bool :=
  match r_data r with RSvcb _ _ params => existsb kf6_param params | _ => false end.

(* KF7: an alias-form record (priority 0) with a NON-EMPTY parameter set: the parameters are silently
   not written *)
Definition kf7_rr (r : rr) : bool :=
  match r_data r with RSvcb prio _ params => (prio =? 0) && negb (is_nil params) | _ => false end.

Definition known_rr (r : rr) : bool := kf5_rr r || kf6_rr r || kf7_rr r.

Definition known_class (m : dns) : bool :=
  kf4 m || existsb known_rr (m_an m) || existsb known_rr (m_ns m) || existsb known_rr (m_ar m).
