(* C03/C04 — correspondence between the decoder model (Model/Dec.v: cursor/window state monad) and the
   independent reference decoder (Spec/Wire.v: pure parsers over absolute offsets).

   [corr m p]: on every well-formed window state [s] that views [main] at absolute offset [a] with limit
   [e], the model reader [m] accepts exactly when the reference parser [p] accepts on (main, a, e); the
   values are equal and the cursor has advanced to the reference's next offset.  The relation is closed
   under return, bind, failure, sub-windows and the fuelled loops. *)
From Coq Require Import ZifyBool ZifyN ZifyNat.
From DNS Require Import Model.Dec Spec.Names Spec.Wire Proofs.DecBase Proofs.DecName Proofs.DecNameSpec
  Proofs.DecNameSound.
Local Open Scope N_scope.

(* ---- pure parsers: unfolding and extensionality helpers ---- *)
Definition pmap {A B} (f : A -> B) (p : P A) : P B := fun b s e =>
  match p b s e with Some (x, s') => Some (f x, s') | None => None end.

(* every success of [p] moves forward *)
Definition progress {A} (p : P A) : Prop :=
  forall (b : bytes) (a e : N) (v : A) (a' : N), p b a e = Some (v, a') -> a < a'.

Section Main.
Variable main : bytes.

(* the window [s] shows main[a, e) *)
Definition inv (s : dst) (a e : N) : Prop :=
  dst_wf s /\ views main s a /\ d_off s <= d_len s /\ e = a + (d_len s - d_off s) /\ e <= lenN main.

Definition agree {A} (s : dst) (a e : N) (r : dres A) (o : option (A * N)) : Prop :=
  match r with
  | DOk v s' =>
    match o with
    | Some (v', a') => v = v' /\ a <= a' /\ inv s' a' e /\ d_off s' = d_off s + (a' - a) /\ d_len s' = d_len s
    | None => False
    end
  | _ => match o with Some _ => False | None => True end
  end.

Definition corr {A} (m : DM A) (p : P A) : Prop :=
  forall s a e, inv s a e -> agree s a e (m s) (p main a e).

(* correspondence on windows of a known size (the body of a length-prefixed element) *)
Definition corr_w {A} (n : N) (m : DM A) (p : P A) : Prop :=
  forall s a e, inv s a e -> e - a = n -> agree s a e (m s) (p main a e).

Lemma corr_corr_w {A} n (m : DM A) (p : P A) : corr m p -> corr_w n m p.
Proof. intros H s a e Hi _. apply H. exact Hi. Qed.

(* a property of every value the reference parser returns (inside main) *)
Definition post {A} (p : P A) (Q : A -> Prop) : Prop :=
  forall a e v a', e <= lenN main -> p main a e = Some (v, a') -> Q v.

Lemma post_true {A} (p : P A) : post p (fun _ => True).
Proof. intros a e v a' _ _. exact I. Qed.

(* ---- the two directions ---- *)
Lemma corr_sound {A} (m : DM A) (p : P A) s a e v s' : corr m p -> inv s a e -> m s = DOk v s' ->
  exists a', p main a e = Some (v, a') /\ a <= a' /\ inv s' a' e /\
             d_off s' = d_off s + (a' - a) /\ d_len s' = d_len s.
Proof.
  intros H Hi E. specialize (H s a e Hi). rewrite E in H. cbn [agree] in H.
  destruct (p main a e) as [[v' a']|]; [|contradiction].
  destruct H as (<- & H). exists a'. split; [reflexivity|exact H].
Qed.

Lemma corr_complete {A} (m : DM A) (p : P A) s a e v a' : corr m p -> inv s a e ->
  p main a e = Some (v, a') ->
  exists s', m s = DOk v s' /\ a <= a' /\ inv s' a' e /\ d_off s' = d_off s + (a' - a) /\ d_len s' = d_len s.
Proof.
  intros H Hi E. specialize (H s a e Hi). rewrite E in H.
  destruct (m s) as [v0 s'| | |]; cbn [agree] in H; try contradiction.
  destruct H as (-> & H). exists s'. split; [reflexivity|exact H].
Qed.

(* ---- invariants ---- *)
Lemma inv_bounds s a e : inv s a e -> a <= e /\ e <= lenN main /\ e - a = d_len s - d_off s.
Proof. intros (_ & _ & H1 & H2 & H3). lia. Qed.

Lemma inv_adv s a e n : inv s a e -> d_off s + n <= d_len s -> inv (adv n s) (a + n) e.
Proof.
  intros (W & V & H1 & H2 & H3) H. split; [apply adv_wf; assumption|].
  split; [apply adv_views; assumption|]. cbn [adv d_off d_len]. split; [lia|]. split; [lia|exact H3].
Qed.

Definition with_cost (c : N) (s : dst) : dst :=
  {| d_rest := d_rest s; d_off := d_off s; d_len := d_len s; d_cost := c |}.
Lemma inv_cost s a e c : inv s a e -> inv (with_cost c s) a e.
Proof. intros H. exact H. Qed.

Lemma inv_rest s a e : inv s a e -> d_rest s = takeN (e - a) (dropN a main).
Proof. intros (_ & V & H1 & H2 & _). unfold views in V. rewrite V. f_equal. lia. Qed.

Lemma inv_take s a e n : inv s a e -> a + n <= e ->
  takeN n (d_rest s) = takeN n (dropN a main) /\ lenN (takeN n (dropN a main)) = n.
Proof.
  intros Hi H. pose proof Hi as (_ & V & H1 & H2 & H3). split.
  - apply (view_take main s a n V). lia.
  - rewrite lenN_takeN, lenN_dropN. lia.
Qed.

(* the state after the whole window has been consumed *)
Lemma inv_drained s a e c : inv s a e ->
  inv {| d_rest := []; d_off := d_len s; d_len := d_len s; d_cost := c |} e e.
Proof.
  intros ((W1 & W2 & W3 & W4) & V & H1 & H2 & H3). unfold inv, dst_wf, views. cbn [d_rest d_off d_len].
  split; [split; [rewrite lenN_nil; lia|split; [exact W2|split; [exact W2|constructor]]]|].
  split; [rewrite N.sub_diag; reflexivity|]. split; [lia|]. split; [lia|exact H3].
Qed.

(* ---- agreement: weakening of the start point ---- *)
Lemma agree_shift {A} s a s1 a1 e (r : dres A) o :
  agree s1 a1 e r o -> a <= a1 -> d_off s1 = d_off s + (a1 - a) -> d_len s1 = d_len s ->
  agree s a e r o.
Proof.
  intros H Ha Ho Hl. destruct r as [v s'| | |]; cbn [agree] in *; try exact H.
  destruct o as [[v' a']|]; [|exact H].
  destruct H as (H1 & H2 & H3 & H4 & H5).
  split; [exact H1|]. split; [lia|]. split; [exact H3|]. split; lia.
Qed.

Lemma agree_none {A} s a e (r : dres A) : (forall v s', r <> DOk v s') -> agree s a e r None.
Proof. intro H. destruct r as [v s'| | |]; cbn [agree]; try exact I. exact (H v s' eq_refl). Qed.

(* ---- combinators ---- *)
Lemma corr_ext {A} (m m' : DM A) (p p' : P A) :
  (forall s, m s = m' s) -> (forall a e, p main a e = p' main a e) -> corr m p -> corr m' p'.
Proof. intros H1 H2 H s a e Hi. rewrite <- H1, <- H2. apply H. exact Hi. Qed.

Lemma corr_w_ext {A} n (m m' : DM A) (p p' : P A) :
  (forall s, m s = m' s) -> (forall a e, p main a e = p' main a e) -> corr_w n m p -> corr_w n m' p'.
Proof. intros H1 H2 H s a e Hi Hn. rewrite <- H1, <- H2. apply H; assumption. Qed.

Lemma agree_ret {A} (v : A) s a e : inv s a e -> agree s a e (DOk v s) (Some (v, a)).
Proof.
  intro Hi. cbn [agree]. split; [reflexivity|]. split; [lia|]. split; [exact Hi|]. split; [lia|reflexivity].
Qed.

Lemma corr_ret {A} (v : A) : corr (ret v) (pret v).
Proof. intros s a e Hi. apply agree_ret. exact Hi. Qed.

Lemma corr_fail {A} (er : err) : corr (@fail A er) pnone.
Proof. intros s a e Hi. exact I. Qed.
Lemma corr_panic {A} (x : site) : corr (@panic A x) pnone.
Proof. intros s a e Hi. exact I. Qed.
Lemma corr_err_fun {A} (f : dst -> err) (g : dst -> N) : corr (fun s => @DErr A (f s) (g s)) pnone.
Proof. intros s a e Hi. exact I. Qed.

Lemma agree_bind {A B} (m : DM A) (f : A -> DM B) (p : P A) (g : A -> P B) (Q : A -> Prop) s a e :
  inv s a e -> agree s a e (m s) (p main a e) -> post p Q ->
  (forall v s1 a1, Q v -> inv s1 a1 e -> a <= a1 -> e - a1 <= e - a ->
     agree s1 a1 e (f v s1) (g v main a1 e)) ->
  agree s a e (bind m f s) (pbind p g main a e).
Proof.
  intros Hi Hm HQ Hf. unfold bind, pbind.
  destruct (m s) as [v s1| | |]; destruct (p main a e) as [[v' a1]|] eqn:Ep; cbn [agree] in Hm |- *;
    try contradiction; try exact I.
  destruct Hm as (<- & Ha & I1 & Ho & Hl).
  assert (Qv : Q v). { destruct (inv_bounds _ _ _ Hi) as (_ & Hle & _). exact (HQ a e v a1 Hle Ep). }
  apply (agree_shift s a s1 a1); [|exact Ha|exact Ho|exact Hl].
  apply Hf; [exact Qv|exact I1|exact Ha|lia].
Qed.

Lemma corr_bind_post {A B} (m : DM A) (f : A -> DM B) (p : P A) (g : A -> P B) (Q : A -> Prop) :
  corr m p -> post p Q -> (forall v, Q v -> corr (f v) (g v)) -> corr (bind m f) (pbind p g).
Proof.
  intros Hm HQ Hf s a e Hi. apply (agree_bind m f p g Q); [exact Hi|apply Hm; exact Hi|exact HQ|].
  intros v s1 a1 Qv I1 _ _. apply Hf; assumption.
Qed.

Lemma corr_bind {A B} (m : DM A) (f : A -> DM B) (p : P A) (g : A -> P B) :
  corr m p -> (forall v, corr (f v) (g v)) -> corr (bind m f) (pbind p g).
Proof.
  intros Hm Hf. apply (corr_bind_post m f p g (fun _ => True)); [exact Hm|apply post_true|].
  intros v _. apply Hf.
Qed.

(* a pure check after a parser commutes with the model's lifted result *)
Lemma corr_lift {A} (r : res A) (o : option A) :
  (forall v, r = Ok v <-> o = Some v) ->
  corr (lift r) (match o with Some v => pret v | None => pnone end).
Proof.
  intros H s a e Hi. destruct r as [v| | |]; cbn [lift].
  - rewrite (proj1 (H v) eq_refl). apply agree_ret. exact Hi.
  - destruct o as [v|]; [|exact I]. pose proof (proj2 (H v) eq_refl). discriminate.
  - destruct o as [v|]; [|exact I]. pose proof (proj2 (H v) eq_refl). discriminate.
  - destruct o as [v|]; [|exact I]. pose proof (proj2 (H v) eq_refl). discriminate.
Qed.

(* ---- post-conditions ---- *)
Lemma post_bind {A B} (p : P A) (g : A -> P B) (Q : B -> Prop) :
  (forall v, post (g v) Q) -> post (pbind p g) Q.
Proof.
  intros Hg a e v a' He E. unfold pbind in E.
  destruct (p main a e) as [[x a1]|] eqn:Ep; [|discriminate].
  eapply Hg; [exact He|exact E].
Qed.

End Main.

Arguments inv main s a e : clear implicits.
