(* C18: which RDATA name positions go through the compressing name writer.  The pinned library
   compresses at all nine post-RFC-1035 sites (known findings KF1-x): this file classifies every name
   position of the writer tables, refutes the property with one witness per site, and proves what a
   literal (non-compressing) writer would guarantee. *)
From DNS Require Import Model.Dec Model.Enc Spec.Names Proofs.ListN Proofs.NameLayer.
Require Import ZifyBool ZifyN ZifyNat.
Local Open Scope N_scope.

(* types of RFC 1035 whose RDATA names may be compressed (RFC 3597 section 4) *)
Definition rfc1035_name_types : list N := [2; 3; 4; 5; 6; 7; 8; 9; 12; 14; 15].
(* later types with a name in RDATA that must be written in full *)
Definition post1035_name_types : list N := [17; 18; 21; 26; 33; 36; 39; 107].
Definition svcb_types : list N := [64; 65].

Definition has_name (f : list (string * fk)) : bool :=
  existsb (fun p => match snd p with FName => true | _ => false end) f.
Definition memN (x : N) (l : list N) : bool := existsb (N.eqb x) l.

(* every writer-table entry with a name field is in exactly one of the two lists; the special writers
   with a name are SVCB/HTTPS; OPT and APL have none *)
Definition site_classified (e : N * writer) : bool :=
  match snd e with
  | WrFields _ f =>
      if has_name f then xorb (memN (fst e) rfc1035_name_types) (memN (fst e) post1035_name_types)
      else negb (memN (fst e) rfc1035_name_types) && negb (memN (fst e) post1035_name_types)
  | WrSpecial SpSvcb | WrSpecial SpHttps => memN (fst e) svcb_types
  | WrSpecial _ => negb (memN (fst e) svcb_types)
  end.
Lemma sites_classified_proof : forallb site_classified enc_dispatch = true.
Proof. vm_compute. reflexivity. Qed.

Definition listed_present (l : list N) : bool :=
  forallb (fun t => match lookup t enc_dispatch with Some (WrFields _ f) => has_name f | _ => false end) l.
Lemma listed_present_proof :
  listed_present rfc1035_name_types = true /\ listed_present post1035_name_types = true.
Proof. vm_compute. split; reflexivity. Qed.

(* ---- the nine sites compress: one witness each ---- *)
Definition deep : name := [[100;101;101;112]; [101;120]; [111;114;103]].          (* deep.ex.org *)
Definition host : name := [[104;111;115;116]; [101;120]; [111;114;103]].          (* host.ex.org *)
Definition fl0 : flags := {| f_qr := true; f_opcode := 0; f_aa := false; f_tc := false; f_rd := false;
                             f_ra := false; f_ad := false; f_cd := false; f_rcode := 0 |}.
Definition witness (t : N) (d : rdata) : dns :=
  {| m_id := 1; m_flags := fl0; m_qd := [{| q_name := deep; q_type := 1; q_class := 1 |}];
     m_an := [{| r_type := t; r_name := [[111]]; r_class := 1; r_ttl := 60; r_data := d |}];
     m_ns := []; m_ar := [] |}.

(* does some logged name of the encoded message expand through a pointer that lies inside the name's
   own octets, and is that name the [k]-th logged one (k counts from the first written)? *)
Definition name_compressed_at (m : dns) (k : nat) : bool :=
  match enc_dns m e_init with
  | EOk _ s =>
    match nth_error (rev (e_names s)) k with
    | Some (p, _) =>
      match expand 16 (e_buf s) p with
      | Some x => match x_ptrs x with [] => false | _ => true end
      | None => false
      end
    | None => false
    end
  | _ => false
  end.

(* logged names: 0 = question, 1 = owner, 2.. = RDATA names *)
Lemma refuted_proof :
  name_compressed_at (witness 17 (RFields [VName host; VName ([116] :: host)])) 2 = true /\   (* RP mbox *)
  name_compressed_at (witness 17 (RFields [VName host; VName ([116] :: host)])) 3 = true /\   (* RP txt *)
  name_compressed_at (witness 18 (RFields [VN 1; VName host])) 2 = true /\                    (* AFSDB *)
  name_compressed_at (witness 21 (RFields [VN 10; VName host])) 2 = true /\                   (* RT *)
  name_compressed_at (witness 26 (RFields [VN 10; VName host; VName ([120] :: host)])) 2 = true /\  (* PX map822 *)
  name_compressed_at (witness 26 (RFields [VN 10; VName host; VName ([120] :: host)])) 3 = true /\  (* PX mapx400 *)
  name_compressed_at (witness 36 (RFields [VN 10; VName host])) 2 = true /\                   (* KX *)
  name_compressed_at (witness 33 (RFields [VN 1; VN 2; VN 3; VName host])) 2 = true /\         (* SRV *)
  name_compressed_at (witness 39 (RFields [VName host])) 2 = true /\                          (* DNAME *)
  name_compressed_at (witness 107 (RFields [VN 10; VName host])) 2 = true /\                  (* LP *)
  name_compressed_at (witness 64 (RSvcb 1 host [PPort 443])) 2 = true /\                      (* SVCB *)
  name_compressed_at (witness 65 (RSvcb 1 host [PPort 443])) 2 = true.                        (* HTTPS *)
Proof. vm_compute. repeat split. Qed.

(* the RFC 1035 sites compress too (allowed) — shows the witness construction is not vacuous elsewhere *)
Lemma allowed_example_proof :
  name_compressed_at (witness 2 (RFields [VName host])) 2 = true /\
  name_compressed_at (witness 15 (RFields [VN 10; VName host])) 2 = true.
Proof. vm_compute. split; reflexivity. Qed.

(* ---- what a literal writer guarantees (the property for a repaired site) ---- *)
Definition enc_domain_name_literal (n : name) : EM unit := put (enc_labels n ++ [0]).

Lemma literal_no_pointer_proof (n : name) (s : est) :
  name_ok n ->
  exists s', enc_domain_name_literal n s = EOk tt s' /\
             e_buf s' = e_buf s ++ enc_labels n ++ [0] /\
             expand 16 (e_buf s') (lenN (e_buf s)) =
               Some {| x_name := n; x_hops := 0; x_ptrs := []; x_end := lenN (e_buf s) + labels_total n + 1 |}.
Proof.
  intros Hn. unfold enc_domain_name_literal, put.
  eexists. split; [reflexivity|]. cbn [e_buf]. split; [reflexivity|].
  rewrite expand_eq.
  pose proof (seg_literal n SEGFUEL (e_buf s) [0] [] None (proj1 Hn) eq_refl (name_ok_fuel n Hn)) as H.
  rewrite app_nil_r in H. rewrite H.
  rewrite lenN_enc_labels. cbn [lenN length]. reflexivity.
Qed.
