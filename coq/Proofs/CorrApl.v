(* APL items (RFC 3123): model [rr_apl_apitem] vs reference [apl_item]. *)
From Coq Require Import ZifyBool ZifyN ZifyNat.
From DNS Require Import Model.Dec Spec.Names Spec.Iana Spec.Wire Proofs.DecBase Proofs.Enum Proofs.C12
  Proofs.CorrBase Proofs.CorrPrim Proofs.CorrFields Proofs.CorrAddr.
Local Open Scope N_scope.

(* the negation bit and the 7-bit address length of the third octet, all 256 octets *)
Definition apl_octet_okb (b : N) : bool :=
  Bool.eqb (N.land b APL_NEGATION_MASK =? APL_NEGATION_MASK) (128 <=? b) &&
  (N.land b ADDRESS_LENGTH_MASK =? b mod 128).
Lemma apl_octet_all : forallb apl_octet_okb (nrange 256) = true.
Proof. vm_compute. reflexivity. Qed.
Lemma apl_octet (b : N) : b < 256 ->
  (N.land b APL_NEGATION_MASK =? APL_NEGATION_MASK) = (128 <=? b) /\ N.land b ADDRESS_LENGTH_MASK = b mod 128.
Proof.
  intro H. pose proof (proj1 (forallb_forall _ _) apl_octet_all b (nrange_in _ _ H)) as G.
  unfold apl_octet_okb in G. apply andb_prop in G. destruct G as (G1 & G2).
  apply Bool.eqb_prop in G1. apply N.eqb_eq in G2. split; assumption.
Qed.

Lemma progress_apl_item : progress apl_item.
Proof.
  unfold apl_item. apply progress_bind; [apply progress_num; lia|].
  intros fam b a e w a' H. unfold pbind in H.
  destruct (num 1 b a e) as [[p a1]|] eqn:E1; [|discriminate].
  destruct (num 1 b a1 e) as [[x a2]|] eqn:E2; [|discriminate].
  destruct (within (x mod 128) (prefix_addr fam p) b a2 e) as [[ad a3]|] eqn:E3; [|discriminate].
  unfold pret in H. injection H as <- <-.
  apply (progress_num 1 ltac:(lia)) in E1. apply (progress_num 1 ltac:(lia)) in E2.
  apply within_inv in E3. lia.
Qed.

Lemma pbind_filter_assoc {A B} (q : P A) (c : A -> bool) (g : A -> P B) (b : bytes) (a e : N) :
  pbind (x <~ q ;; if c x then pret x else pnone) g b a e =
  pbind q (fun x => if c x then g x else pnone) b a e.
Proof.
  unfold pbind. destruct (q b a e) as [[x a1]|]; [|reflexivity]. destruct (c x); reflexivity.
Qed.

Lemma pbind_ext_l {A B} (p p' : P A) (g : A -> P B) (b : bytes) (a e : N) :
  (forall a e, p b a e = p' b a e) -> pbind p g b a e = pbind p' g b a e.
Proof. intro H. unfold pbind. rewrite H. reflexivity. Qed.

Section Main.
Variable main : bytes.
Hypothesis Hb : bytes_ok main.
Hypothesis Hm : lenN main < 2 ^ 62.
Set Default Proof Using "Hb Hm".

Notation corr := (corr main).
Notation post := (post main).
Local Notation corr_u8 := (corr_u8 main Hb Hm).
Local Notation corr_u16 := (corr_u16 main Hb Hm).
Local Notation corr_bind_assoc := (corr_bind_assoc main Hb Hm).
Local Notation corr_with_sub := (corr_with_sub main Hb Hm).

Lemma post_within_raw (n fam : N) : post (within n (raw_addr fam)) (fun a => addr_wf a).
Proof.
  intros a e v a' He H. apply within_inv in H. destruct H as (H1 & H2 & _).
  apply (post_raw_addr main Hb Hm fam a (a + n) v (a + n)); [lia|exact H2].
Qed.

Lemma corr_apl_item : corr rr_apl_apitem apl_item.
Proof.
  unfold rr_apl_apitem, apl_item, rr_address_family_number, code.
  apply corr_bind_assoc. apply corr_bind; [apply corr_u16|]. intro fam.
  rewrite tab_AddressFamilyNumber. change (codes iana_AddressFamilyNumber) with [1; 2].
  unfold mem. cbn [existsb]. rewrite orb_false_r.
  destruct (fam =? 1) eqn:E1; [|destruct (fam =? 2) eqn:E2]; cbn [orb].
  3:{ (* unsupported family: the reference rejects in [prefix_addr] *)
    apply (corr_ext main (fail (EEcsAddressNumber, [fam])) _ pnone); [reflexivity| |apply corr_fail].
    intros a e. unfold pbind, pnone. destruct (num 1 main a e) as [[p a1]|]; [|reflexivity].
    destruct (num 1 main a1 e) as [[x a2]|]; [|reflexivity].
    unfold within. destruct (a2 + x mod 128 <=? e); [|reflexivity].
    rewrite prefix_addr_none by lia. reflexivity. }
  all: assert (Hf : fam = 1 \/ fam = 2) by lia.
  all: apply (corr_ext main (prefix <- u8 ;; buffer <- u8 ;;
                       a <- with_sub (N.land buffer ADDRESS_LENGTH_MASK) (rr_address fam) ;;
                       lift (apitem_new prefix (N.land buffer APL_NEGATION_MASK =? APL_NEGATION_MASK) a)) _
                      (prefix <~ num 1 ;; b <~ num 1 ;; a <~ within (b mod 128) (raw_addr fam) ;;
                       if chk prefix a then pret {| i_prefix := prefix; i_neg := 128 <=? b; i_addr := a |}
                       else pnone));
    [reflexivity| |].
  1,3: intros a e; apply pbind_ext; intros p a1 e1; apply pbind_ext; intros x a2 e2;
       rewrite <- (pbind_filter_assoc (within (x mod 128) (raw_addr fam)) (chk p)
                     (fun a0 => pret {| i_prefix := p; i_neg := 128 <=? x; i_addr := a0 |}));
       apply pbind_ext_l; intros a3 e3; rewrite <- within_filter; apply within_ext; intros a4 e4;
       symmetry; apply prefix_addr_eq.
  all: apply corr_bind; [apply corr_u8|]; intro prefix;
       apply (corr_bind_post main _ _ _ _ (fun v => v < 256)); [apply corr_u8|apply (post_num1 main Hb Hm)|];
       intros x Hx; destruct (apl_octet x Hx) as (-> & ->);
       apply (corr_bind_post main _ _ _ _ (fun a => addr_wf a));
         [apply corr_with_sub, corr_corr_w, (corr_address main Hb Hm fam Hf)|apply post_within_raw|];
       intros ad Wad; unfold apitem_new; apply (corr_checked main Hb Hm); exact Wad.
Qed.

End Main.
Unset Default Proof Using.
