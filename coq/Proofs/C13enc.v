(* C13, compression clause: what the encoder substitutes for a name differs from it at most in ASCII
   case, octet position by octet position.  Corollary of C06_write_name and C13_eq_iff. *)
From DNS Require Import Model.Values Model.Enc Spec.Names Proofs.C13 Proofs.NameLayer Proofs.NameMain Proofs.C06.
Local Open Scope N_scope.

Lemma compress_case_only_proof : forall s mask (n : name),
  InvM s mask -> name_ok n -> lenN (e_buf s) + name_wire_len n <= 65536 ->
  exists s' w,
    enc_domain_name n s = EOk tt s' /\ e_buf s' = e_buf s ++ w /\
    forall b', agree (mask ++ repeat true (length w)) (e_buf s') b' ->
      exists x, expand 16 b' (lenN (e_buf s)) = Some x /\
                Forall2 (Forall2 ascii_ci_eq) n (x_name x).
Proof.
  intros s mask n HI Hn Hsz.
  destruct (C06_write_name_proof s mask n HI Hn Hsz) as (s' & w & He & Hb & _ & _ & _ & _ & Hx).
  exists s', w. split; [exact He|]. split; [exact Hb|].
  intros b' Ha. destruct (Hx b' Ha) as (x & Hex & Heq & _).
  exists x. split; [exact Hex|]. apply name_eqb_iff. exact Heq.
Qed.
