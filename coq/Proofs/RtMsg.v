(* C05 — milestone 5: questions, header flags, counts, sections and the message theorem, parametric
   in the class of records whose element round trip is available. *)
From DNS Require Import Model.Dec Model.Enc Spec.Names
  Proofs.ListN Proofs.NameLayer Proofs.NameLoop Proofs.NameMain
  Proofs.EncTotal Proofs.EncLimits Proofs.EncTyped Proofs.EncBytes
  Proofs.DecBase Proofs.DecName Proofs.DecNameSound Proofs.DecNameComplete
  Proofs.OptBase Proofs.SvcbDec Proofs.SvcbEnc Proofs.RtBase Proofs.RtPrim Proofs.RtFields Proofs.RtRecord.
Require Import ZArith ZifyBool ZifyN ZifyNat.
Local Open Scope N_scope.
Ltac Zify.zify_post_hook ::= Z.div_mod_to_equations.

(* ================================================================================================ *)
(* Questions                                                                                         *)
(* ================================================================================================ *)
Definition question_wf (q : question) : bool :=
  name_wf (q_name q) && in_table QType_table (q_type q) && in_table QClass_table (q_class q).
Definition question_eqv (a b : question) : Prop :=
  name_eqv (q_name a) (q_name b) /\ q_type a = q_type b /\ q_class a = q_class b.

Lemma qtype_table_bound (c : N) : in_table QType_table c = true -> c < 65536.
Proof. apply in_table_bound. vm_compute. reflexivity. Qed.
Lemma qclass_table_bound (c : N) : in_table QClass_table c = true -> c < 65536.
Proof. apply in_table_bound. vm_compute. reflexivity. Qed.

Lemma question_wf_inv (q : question) : question_wf q = true ->
  name_wf (q_name q) = true /\ in_table QType_table (q_type q) = true /\ in_table QClass_table (q_class q) = true.
Proof.
  unfold question_wf. intros H. apply andb_true_iff in H. destruct H as [H H3].
  apply andb_true_iff in H. destruct H as [H1 H2]. split; [exact H1|]. split; assumption.
Qed.

Theorem rt_question (E : bool) (q : question) : question_wf q = true ->
  encP (enc_question q) /\ decP E (enc_question q) question_ (fun q' => question_eqv q' q).
Proof.
  intros H. destruct (question_wf_inv q H) as (Hn & Ht & Hc). unfold enc_question.
  split.
  { apply encP_bind; [apply encP_name_wf, Hn|]. apply encP_bind; apply encP_put. }
  eapply decP_weaken; [|apply (decP_bind E _ _ domain_name
      (fun n main => t <- rd_q_type ;; c <- rd_q_class ;; ret {| q_name := n; q_type := t; q_class := c |})
      (fun v => name_eqv v (q_name q))
      (fun n q' => q' = {| q_name := n; q_type := q_type q; q_class := q_class q |}))].
  - intros q' (n & Hn' & ->). split; [exact Hn'|]. split; reflexivity.
  - apply encP_name_wf, Hn.
  - apply rt_name, Hn.
  - apply encP_bind; apply encP_put.
  - intros n _.
    eapply decP_weaken; [|apply (decP_bind E _ _ (fun _ => rd_q_type)
        (fun t main => c <- rd_q_class ;; ret {| q_name := n; q_type := t; q_class := c |})
        (eq (q_type q))
        (fun t q' => q' = {| q_name := n; q_type := t; q_class := q_class q |}))].
    + intros q' (t & <- & ->). reflexivity.
    + apply encP_put.
    + apply (decP_reads false (eu16 (q_type q)) rd_q_type (u16b (q_type q)) (q_type q)).
      * exact (emits_inv _ _ (emits_eu16 _)).
      * intros r _. unfold rd_q_type. apply reads_code; [exact Ht|apply reads_u16, qtype_table_bound, Ht].
    + apply encP_put.
    + intros t _.
      eapply decP_weaken; [|apply (decP_map E (eu16 (q_class q)) (fun _ => rd_q_class)
          (fun c => {| q_name := n; q_type := t; q_class := c |}) (eq (q_class q)))].
      * intros q' (c & <- & ->). reflexivity.
      * apply decP_end. apply (decP_reads false (eu16 (q_class q)) rd_q_class (u16b (q_class q)) (q_class q)).
        -- exact (emits_inv _ _ (emits_eu16 _)).
        -- intros r _. unfold rd_q_class. apply reads_code; [exact Hc|apply reads_u16, qclass_table_bound, Hc].
Qed.

(* ================================================================================================ *)
(* Header flags: all combinations by computation                                                     *)
(* ================================================================================================ *)
Definition flags_wf (f : flags) : bool :=
  in_table Opcode_table (f_opcode f) && in_table RCode_table (f_rcode f) && (f_rcode f <? 16).

Definition flags_eqb (a b : flags) : bool :=
  Bool.eqb (f_qr a) (f_qr b) && (f_opcode a =? f_opcode b) && Bool.eqb (f_aa a) (f_aa b) &&
  Bool.eqb (f_tc a) (f_tc b) && Bool.eqb (f_rd a) (f_rd b) && Bool.eqb (f_ra a) (f_ra b) &&
  Bool.eqb (f_ad a) (f_ad b) && Bool.eqb (f_cd a) (f_cd b) && (f_rcode a =? f_rcode b).
Lemma flags_eqb_eq (a b : flags) : flags_eqb a b = true -> a = b.
Proof.
  unfold flags_eqb. rewrite !andb_true_iff. intros [[[[[[[[H1 H2] H3] H4] H5] H6] H7] H8] H9].
  apply Bool.eqb_prop in H1, H3, H4, H5, H6, H7, H8. apply N.eqb_eq in H2, H9.
  destruct a, b; cbn in *; congruence.
Qed.

Definition flags_check (f : flags) : bool :=
  match dec_Flags (u8b (flags_octet f 0) ++ u8b (flags_octet f 1)) with
  | DOk f' _ => flags_eqb f' f
  | _ => false
  end.
Definition bools : list bool := [true; false].
Definition opcodes : list N := map snd Opcode_table.
Definition rcodes : list N := filter (fun v => v <? 16) (map snd RCode_table).

Definition flags_all_ok : bool :=
  forallb (fun qr => forallb (fun aa => forallb (fun tc => forallb (fun rd =>
  forallb (fun ra => forallb (fun ad => forallb (fun cd =>
  forallb (fun op => forallb (fun rc =>
    flags_check {| f_qr := qr; f_opcode := op; f_aa := aa; f_tc := tc; f_rd := rd;
                   f_ra := ra; f_ad := ad; f_cd := cd; f_rcode := rc |})
  rcodes) opcodes) bools) bools) bools) bools) bools) bools) bools.
Lemma flags_all : flags_all_ok = true.
Proof. vm_compute. reflexivity. Qed.

Lemma in_bools (b : bool) : In b bools.
Proof. destruct b; [left|right; left]; reflexivity. Qed.
Lemma in_table_In (t : list (string * N)) (v : N) : in_table t v = true -> In v (map snd t).
Proof.
  unfold in_table. intros H. apply existsb_exists in H. destruct H as (p & Hp & He).
  apply N.eqb_eq in He. subst v. apply in_map. exact Hp.
Qed.

Lemma flags_roundtrip (f : flags) : flags_wf f = true -> flags_check f = true.
Proof.
  unfold flags_wf. intros H. apply andb_true_iff in H. destruct H as [H H3].
  apply andb_true_iff in H. destruct H as [H1 H2].
  pose proof flags_all as A. unfold flags_all_ok in A.
  rewrite forallb_forall in A. specialize (A (f_qr f) (in_bools _)).
  rewrite forallb_forall in A. specialize (A (f_aa f) (in_bools _)).
  rewrite forallb_forall in A. specialize (A (f_tc f) (in_bools _)).
  rewrite forallb_forall in A. specialize (A (f_rd f) (in_bools _)).
  rewrite forallb_forall in A. specialize (A (f_ra f) (in_bools _)).
  rewrite forallb_forall in A. specialize (A (f_ad f) (in_bools _)).
  rewrite forallb_forall in A. specialize (A (f_cd f) (in_bools _)).
  rewrite forallb_forall in A. specialize (A (f_opcode f) (in_table_In _ _ H1)).
  rewrite forallb_forall in A.
  assert (In (f_rcode f) rcodes) as Hr.
  { unfold rcodes. apply filter_In. split; [apply in_table_In; exact H2|exact H3]. }
  specialize (A (f_rcode f) Hr). destruct f; exact A.
Qed.

(* the flags reader only looks at the two octets *)
Lemma reads_flags (b0 b1 : N) (f : flags) (s0 : dst) (r : bytes) :
  dec_Flags [b0; b1] = DOk f s0 -> reads flags_ [b0; b1] r f.
Proof.
  intros H s W Hr. unfold dec_Flags, run in H.
  assert (wst (mk_main [b0; b1])) as W0.
  { unfold wst, mk_main. cbn [d_rest d_off d_len]. split; [unfold lenN; cbn [length]; lia|unfold WFMAX, lenN; cbn [length]; lia]. }
  unfold flags_ in *.
  destruct (reads_u8 b0 [b1] (mk_main [b0; b1]) W0 eq_refl) as [c0 E0]. rewrite (bind_ok _ _ _ _ _ E0) in H.
  change ([b0; b1] ++ r) with ([b0] ++ (b1 :: r)) in Hr.
  destruct (reads_u8 b0 (b1 :: r) s W Hr) as [c1 E1]. rewrite (bind_ok _ _ _ _ _ E1).
  destruct (negb (in_table Opcode_table (fbit DEC_FLAG_opcode b0 0))); [discriminate|].
  pose proof (reads_after (mk_main [b0; b1]) [b0] [b1] c0 W0 eq_refl) as W0'. pose proof (reads_after s [b0] (b1 :: r) c1 W Hr) as W1.
  destruct (reads_u8 b1 [] _ W0' eq_refl) as [c2 E2]. rewrite (bind_ok _ _ _ _ _ E2) in H.
  destruct (reads_u8 b1 r _ W1 eq_refl) as [c3 E3]. rewrite (bind_ok _ _ _ _ _ E3).
  destruct (negb (fbit DEC_FLAG_z b0 b1 =? 0)); [discriminate|].
  destruct (negb (in_table RCode_table (fbit DEC_FLAG_rcode b0 b1))); [discriminate|].
  unfold ret in *. injection H as Hf _. rewrite <- Hf.
  exists c3. apply f_equal2; [reflexivity|]. unfold mkst. cbn [d_off d_len]. f_equal. unfold lenN. cbn [length]. lia.
Qed.

Lemma reads_flags_wf (f : flags) (r : bytes) : flags_wf f = true ->
  reads flags_ (u8b (flags_octet f 0) ++ u8b (flags_octet f 1)) r f.
Proof.
  intros H. pose proof (flags_roundtrip f H) as C. unfold flags_check in C.
  destruct (dec_Flags (u8b (flags_octet f 0) ++ u8b (flags_octet f 1))) as [f' s0| | |] eqn:E; try discriminate.
  apply flags_eqb_eq in C. subst f'. exact (reads_flags _ _ f s0 r E).
Qed.

(* ================================================================================================ *)
(* The message                                                                                       *)
(* ================================================================================================ *)
Definition dns_eqv (a b : dns) : Prop :=
  m_id a = m_id b /\ m_flags a = m_flags b /\ Forall2 question_eqv (m_qd a) (m_qd b) /\
  Forall2 rr_eqv (m_an a) (m_an b) /\ Forall2 rr_eqv (m_ns a) (m_ns b) /\ Forall2 rr_eqv (m_ar a) (m_ar b).

Lemma Forall2_swap {A B} (P : A -> B -> Prop) (l : list B) (vs : list A) :
  Forall2 (fun x v => P v x) l vs -> Forall2 P vs l.
Proof. induction 1; constructor; assumption. Qed.

Definition dns_tail (main : bytes) (id : N) (fl : flags) (qc ac nc rc : N) : DM dns :=
  qd <- repeat_dm (N.to_nat qc) (question_ main) ;;
  an <- repeat_dm (N.to_nat ac) (rr_ main) ;;
  ns <- repeat_dm (N.to_nat nc) (rr_ main) ;;
  ar <- repeat_dm (N.to_nat rc) (rr_ main) ;;
  fin <- is_finished ;;
  if fin then ret {| m_id := id; m_flags := fl; m_qd := qd; m_an := an; m_ns := ns; m_ar := ar |}
  else fun s' => DErr (ERemainingBytes, [d_off s']) (d_cost s').

Definition dns_chain (main : bytes) : DM dns :=
  id <- u16 ;; fl <- flags_ ;; qc <- u16 ;; ac <- u16 ;; nc <- u16 ;; rc <- u16 ;;
  dns_tail main id fl qc ac nc rc.

Lemma dns_unfold (main : bytes) (s : dst) :
  dns_ main s =
  if negb (d_off s =? 0) then DErr (EOffset, [d_off s]) (d_cost s)
  else if cmp_apply OP_dns_min (d_len s) DNS_MIN_LENGTH then DErr (ENotEnoughBytes, [d_len s; DNS_MIN_LENGTH]) (d_cost s)
  else if cmp_apply OP_dns_max (d_len s) MAXIMUM_DNS_PACKET_SIZE then DErr (EDnsPacketTooBig, [d_len s]) (d_cost s)
  else dns_chain main s.
Proof. reflexivity. Qed.

Lemma final_inv (st st' : est) : (_ <-- get_offset ;; eret tt) st = EOk tt st' -> st' = st.
Proof.
  cbv beta iota delta [get_offset buf_len ebind eret efail].
  destruct (lenN (e_buf st) <? POW16); intros H; [congruence|discriminate].
Qed.

Lemma rt_final {A} (X : A) :
  decP true (_ <-- get_offset ;; eret tt)
       (fun _ => fin <- is_finished ;; if fin then ret X else fun s' => DErr (ERemainingBytes, [d_off s']) (d_cost s'))
       (eq X).
Proof.
  apply (decP_reads true _ _ [] X).
  - intros st st' E. rewrite app_buf_nil. apply (final_inv st st' E).
  - intros r Hr. rewrite (Hr eq_refl). intros s W Hs. cbn [app] in Hs.
    rewrite (bind_ok _ _ _ _ _ (is_finished_done s W Hs)). exact (reads_ret X [] s W Hs).
Qed.
Lemma encP_final : encP (_ <-- get_offset ;; eret tt).
Proof.
  apply encP_appends. intros st st' E. exists []. rewrite app_buf_nil. apply (final_inv st st' E).
Qed.

Section Message.
Variable rr_ok : rr -> bool.
Hypothesis rr_ok_rt : forall r, rr_ok r = true ->
  encP (enc_rr r) /\ decP false (enc_rr r) rr_ (fun r' => rr_eqv r' r).
Hypothesis rr_ok_bytes : forall r, rr_ok r = true -> rr_bytes_ok r.

Definition dns_wf_gen (m : dns) : bool :=
  (m_id m <? 65536) && flags_wf (m_flags m) && forallb question_wf (m_qd m) &&
  forallb rr_ok (m_an m) && forallb rr_ok (m_ns m) && forallb rr_ok (m_ar m) &&
  (lenN (m_qd m) <=? 65535) && (lenN (m_an m) <=? 65535) &&
  (lenN (m_ns m) <=? 65535) && (lenN (m_ar m) <=? 65535).

Lemma dns_wf_gen_inv (m : dns) : dns_wf_gen m = true ->
  m_id m < 65536 /\ flags_wf (m_flags m) = true /\ forallb question_wf (m_qd m) = true /\
  forallb rr_ok (m_an m) = true /\ forallb rr_ok (m_ns m) = true /\ forallb rr_ok (m_ar m) = true /\
  lenN (m_qd m) <= 65535 /\ lenN (m_an m) <= 65535 /\ lenN (m_ns m) <= 65535 /\ lenN (m_ar m) <= 65535.
Proof.
  unfold dns_wf_gen. rewrite !andb_true_iff. intros [[[[[[[[[H1 H2] H3] H4] H5] H6] H7] H8] H9] H10].
  split; [lia|]. split; [exact H2|]. split; [exact H3|]. split; [exact H4|]. split; [exact H5|].
  split; [exact H6|]. split; [lia|]. split; [lia|]. split; lia.
Qed.

Lemma rt_section (l : list rr) : forallb rr_ok l = true ->
  encP (emap enc_rr l) /\
  decP false (emap enc_rr l) (fun main => repeat_dm (N.to_nat (lenN l)) (rr_ main)) (fun vs => Forall2 rr_eqv vs l).
Proof.
  intros H. rewrite forallb_forall in H. rewrite to_nat_lenN. split.
  - apply encP_emap. intros x Hx. apply rr_ok_rt, H, Hx.
  - eapply decP_weaken; [|apply (decP_emap enc_rr rr_ (fun r r' => rr_eqv r' r) l)].
    + intros vs Hvs. apply Forall2_swap. exact Hvs.
    + intros x Hx. apply rr_ok_rt, H, Hx.
    + intros x Hx. apply rr_ok_rt, H, Hx.
Qed.

Lemma rt_questions (l : list question) : forallb question_wf l = true ->
  encP (emap enc_question l) /\
  decP false (emap enc_question l) (fun main => repeat_dm (N.to_nat (lenN l)) (question_ main))
       (fun vs => Forall2 question_eqv vs l).
Proof.
  intros H. rewrite forallb_forall in H. rewrite to_nat_lenN. split.
  - apply encP_emap. intros x Hx. apply (rt_question false), H, Hx.
  - eapply decP_weaken; [|apply (decP_emap enc_question question_ (fun q q' => question_eqv q' q) l)].
    + intros vs Hvs. apply Forall2_swap. exact Hvs.
    + intros x Hx. apply (rt_question false), H, Hx.
    + intros x Hx. apply (rt_question false), H, Hx.
Qed.

Lemma rt_dns_body (m : dns) : dns_wf_gen m = true ->
  encP (enc_dns_body m) /\
  decP true (enc_dns_body m)
       (fun main => dns_tail main (m_id m) (m_flags m) (lenN (m_qd m)) (lenN (m_an m)) (lenN (m_ns m)) (lenN (m_ar m)))
       (fun m' => dns_eqv m' m).
Proof.
  intros H. destruct (dns_wf_gen_inv m H) as (_ & _ & Hq & Ha & Hn & Hr & _).
  destruct (rt_questions _ Hq) as [Pq Dq]. destruct (rt_section _ Ha) as [Pa Da].
  destruct (rt_section _ Hn) as [Pn Dn]. destruct (rt_section _ Hr) as [Pr Dr].
  unfold enc_dns_body, dns_tail. split.
  { apply encP_bind; [exact Pq|]. apply encP_bind; [exact Pa|]. apply encP_bind; [exact Pn|].
    apply encP_bind; [exact Pr|apply encP_final]. }
  eapply decP_weaken; [|apply (decP_bind true _ _ _ _ _
      (fun qd m' => Forall2 rr_eqv (m_an m') (m_an m) /\ Forall2 rr_eqv (m_ns m') (m_ns m) /\
                    Forall2 rr_eqv (m_ar m') (m_ar m) /\ m_id m' = m_id m /\ m_flags m' = m_flags m /\ m_qd m' = qd)
      Pq Dq)].
  - intros m' (qd & Hqd & H1 & H2 & H3 & H4 & H5 & H6). unfold dns_eqv. rewrite H6.
    split; [exact H4|]. split; [exact H5|]. split; [exact Hqd|]. split; [exact H1|]. split; assumption.
  - apply encP_bind; [exact Pa|]. apply encP_bind; [exact Pn|]. apply encP_bind; [exact Pr|apply encP_final].
  - intros qd _.
    eapply decP_weaken; [|apply (decP_bind true _ _ _ _ _
        (fun an m' => Forall2 rr_eqv (m_ns m') (m_ns m) /\
                      Forall2 rr_eqv (m_ar m') (m_ar m) /\ m_id m' = m_id m /\ m_flags m' = m_flags m /\ m_qd m' = qd /\ m_an m' = an)
        Pa Da)].
    + intros m' (an & Han & H2 & H3 & H4 & H5 & H6 & H7). rewrite H7. repeat (split; [assumption|]). exact H6.
    + apply encP_bind; [exact Pn|]. apply encP_bind; [exact Pr|apply encP_final].
    + intros an _.
      eapply decP_weaken; [|apply (decP_bind true _ _ _ _ _
          (fun ns m' => Forall2 rr_eqv (m_ar m') (m_ar m) /\ m_id m' = m_id m /\ m_flags m' = m_flags m /\
                        m_qd m' = qd /\ m_an m' = an /\ m_ns m' = ns)
          Pn Dn)].
      * intros m' (ns & Hns & H3 & H4 & H5 & H6 & H7 & H8). rewrite H8. repeat (split; [assumption|]). exact H7.
      * apply encP_bind; [exact Pr|apply encP_final].
      * intros ns _.
        eapply decP_weaken; [|apply (decP_bind true _ _ _ _ _
            (fun ar m' => m' = {| m_id := m_id m; m_flags := m_flags m; m_qd := qd; m_an := an; m_ns := ns; m_ar := ar |})
            Pr Dr encP_final)].
        -- intros m' (ar & Har & ->). cbn [m_id m_flags m_qd m_an m_ns m_ar]. repeat (split; [try assumption; reflexivity|]). reflexivity.
        -- intros ar _. eapply decP_weaken; [|apply rt_final]. intros m' <-. reflexivity.
Qed.

Lemma rr_ok_section_bytes (l : list rr) : forallb rr_ok l = true -> Forall rr_bytes_ok l.
Proof. intros H. rewrite forallb_forall in H. rewrite Forall_forall. intros x Hx. apply rr_ok_bytes, H, Hx. Qed.

Theorem roundtrip_gen (m : dns) (b : bytes) :
  dns_wf_gen m = true -> enc_Dns m = Ok b ->
  exists m' s, dec_Dns b = DOk m' s /\ dns_eqv m' m.
Proof.
  intros Hwf Henc. destruct (dns_wf_gen_inv m Hwf) as (Hid & Hfl & Hq & Ha & Hn & Hr & Lq & La & Ln & Lr).
  (* octets of the output *)
  assert (bytes_ok b) as Hbok.
  { apply (enc_Dns_bytes_ok m b); [|exact Henc]. unfold dns_bytes_ok.
    split; [|split; [|split]]; try (apply rr_ok_section_bytes; assumption).
    rewrite forallb_forall in Hq. rewrite Forall_forall. intros q Hqin.
    destruct (question_wf_inv q (Hq q Hqin)) as (Hnm & _). apply name_wf_bytes_ok, Hnm. }
  pose proof (enc_Dns_size m b Henc) as Hsize.
  (* the run *)
  unfold enc_Dns, erun in Henc. destruct (enc_dns m e_init) as [[] stF|e|x|] eqn:E; try discriminate.
  injection Henc as Hb. rewrite enc_dns_unfold in E. rewrite POW16_val in E.
  destruct (lenN (m_qd m) <? 65536); [|discriminate]. destruct (lenN (m_an m) <? 65536); [|discriminate].
  destruct (lenN (m_ns m) <? 65536); [|discriminate]. destruct (lenN (m_ar m) <? 65536); [|discriminate].
  destruct (put_preserves e_init [] (hdr m) InvM_init) as (s0 & Hp & _ & HI0).
  assert (s0 = sput e_init (hdr m)) as -> by (rewrite EncLimits.put_eq in Hp; congruence).
  destruct (rt_dns_body m Hwf) as [Pb Db].
  destruct (Pb _ _ _ HI0 E) as ((mw & HIF) & _ & w & Hbuf).
  rewrite e_buf_sput in Hbuf. cbn [e_init e_buf app] in Hbuf.
  assert (good b) as G by (split; [exact Hbok|lia]).
  pose proof (InvM_names_ok stF _ HIF) as Hnames. rewrite Hb in Hnames.
  destruct (Db _ _ _ HI0 E b [] G Hnames (fun _ => eq_refl)) as (m' & Heqv & L).
  rewrite (wrote_app (sput e_init (hdr m)) stF w) in L by (rewrite e_buf_sput; exact Hbuf).
  (* the header *)
  assert (lreads b 0 (dns_chain b) (hdr m ++ w) [] m') as LC.
  { unfold dns_chain, hdr. rewrite <- !app_assoc.
    eapply lreads_bind; [apply lreads_of_reads, reads_u16; exact Hid|].
    rewrite app_assoc.
    eapply lreads_bind; [apply lreads_of_reads, reads_flags_wf; exact Hfl|].
    eapply lreads_bind; [apply lreads_of_reads, reads_u16; lia|].
    eapply lreads_bind; [apply lreads_of_reads, reads_u16; lia|].
    eapply lreads_bind; [apply lreads_of_reads, reads_u16; lia|].
    eapply lreads_bind; [apply lreads_of_reads, reads_u16; lia|].
    exact L. }
  assert (wst (mk_main b)) as W.
  { unfold wst, mk_main. cbn [d_rest d_off d_len]. split; [lia|unfold WFMAX; lia]. }
  destruct (LC (mk_main b) W) as [c Ec].
  { cbn [mk_main d_rest]. rewrite app_nil_r, <- Hb. exact Hbuf. }
  { apply mk_main_views. }
  exists m'. eexists. split; [|exact Heqv].
  unfold dec_Dns, run. rewrite dns_unfold. cbn [mk_main d_off d_len d_cost].
  change (negb (0 =? 0)) with false. cbv iota.
  assert (lenN b = 12 + lenN w) as HL by (rewrite <- Hb, Hbuf, lenN_app; reflexivity).
  change OP_dns_min with CLt. change OP_dns_max with CGt. cbn [cmp_apply].
  change DNS_MIN_LENGTH with 12. change MAXIMUM_DNS_PACKET_SIZE with 65536.
  destruct (lenN b <? 12) eqn:E1; [lia|]. destruct (65536 <? lenN b) eqn:E2; [lia|].
  exact Ec.
Qed.
End Message.
