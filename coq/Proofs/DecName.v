(* The name reader (Decoder::domain_name): ghost-instrumented copies of the two loops that also
   return the pointer targets followed, proof that erasing the ghost gives back the model, and an
   exact one-iteration characterisation ("step relations") of both loops on well-formed states. *)
From Coq Require Import ZifyBool ZifyN ZifyNat.
From DNS Require Import Model.Dec Proofs.DecBase.
Local Open Scope N_scope.

(* ---- name length as DomainName tracks it ---- *)
Definition tl (n : name) : N := lenN n + labels_sum n.

Lemma labels_sum_app a b : labels_sum (a ++ b) = labels_sum a + labels_sum b.
Proof. induction a as [|x a IH]; cbn [app labels_sum]; [reflexivity|]. rewrite IH. lia. Qed.
Lemma tl_nil : tl [] = 0. Proof. reflexivity. Qed.
Lemma tl_snoc n l : tl (n ++ [l]) = tl n + lenN l + 1.
Proof.
  unfold tl. rewrite lenN_app, labels_sum_app. cbn [labels_sum]. rewrite lenN_cons, lenN_nil. lia.
Qed.
Lemma wire_len_tl n : wire_len n = tl n + 1.
Proof. reflexivity. Qed.

Lemma check_label_eq l :
  check_label l = if lenN l =? 0 then Err (ELabelEmpty, [])
                  else if lenN l <? 64 then Ok tt else Err (ELabelLength, [lenN l]).
Proof. unfold check_label. rewrite OP_check_label_val, LABELMAX_val. reflexivity. Qed.

Lemma append_label_eq n l :
  append_label n l = if 255 <=? tl n + lenN l + 1 then Err (EDomainNameLength, [tl n + lenN l + 1])
                     else Ok (n ++ [l]).
Proof.
  unfold append_label. rewrite OP_append_label_val, MAXLEN_val. cbn [cmp_apply].
  destruct n as [|x n]; [rewrite tl_nil; reflexivity|].
  unfold name_len, tl. reflexivity.
Qed.

Definition label_ok (l : label) : Prop := 1 <= lenN l /\ lenN l <= 63 /\ utf8_valid l = true.

(* ---- ghost-instrumented loops: same control flow, additionally return the pointer targets ---- *)
Definition dres_map {A B} (f : A -> B) (r : dres A) : dres B :=
  match r with DOk a s => DOk (f a) s | DErr e c => DErr e c | DPanic x => DPanic x | DFuel => DFuel end.

Definition set_cost (c : N) (s : dst) : dst :=
  {| d_rest := d_rest s; d_off := d_off s; d_len := d_len s; d_cost := c |}.

(* result: the name and the visited list [recs] (most recent target first) *)
Fixpoint rec_loop_g (fuel : nat) (main : bytes) (nm : name) (recs : list N) (length : N) : DM (name * list N) :=
  match fuel with
  | O => fun _ => DFuel
  | S f =>
    if length =? 0 then ret (nm, recs)
    else if is_compressed length then
      buffer <- u8 ;;
      let offset := ptr_offset length buffer in
      if existsb (N.eqb offset) recs then fail (EEndlessRecursion, [offset])
      else
        let recs' := offset :: recs in
        let n := lenN recs' in
        if cmp_apply OP_dec_maxrec n DOMAIN_NAME_MAX_RECURSION then fail (EMaxRecursion, [n])
        else fun s =>
          (l <- u8 ;; rec_loop_g f main nm recs' l) (jump main offset (d_cost s))
    else
      '(nm', l) <- domain_name_label nm length ;; rec_loop_g f main nm' recs l
  end.

(* result: the name and all pointer targets followed, in the order followed *)
Fixpoint name_loop_g (fuel : nat) (main : bytes) (nm : name) (length : N) : DM (name * list N) :=
  match fuel with
  | O => fun _ => DFuel
  | S f =>
    if length =? 0 then ret (nm, [])
    else if is_compressed length then
      buffer <- u8 ;;
      let offset := ptr_offset length buffer in
      fun s =>
        match (l <- u8 ;; rec_loop_g NAMEFUEL main nm [] l) (jump main offset (d_cost s)) with
        | DOk (nm', rs) ds => DOk (nm', offset :: rev rs) (set_cost (d_cost ds) s)
        | DErr e c => DErr e c
        | DPanic x => DPanic x
        | DFuel => DFuel
        end
    else
      '(nm', l) <- domain_name_label nm length ;; name_loop_g f main nm' l
  end.
Definition domain_name_g (main : bytes) : DM (name * list N) :=
  length <- u8 ;; name_loop_g NAMEFUEL main [] length.

Lemma NAMEFUEL_rec : (N.to_nat 254 + 16 < NAMEFUEL)%nat.
Proof. apply PeanoNat.Nat.ltb_lt. vm_compute. reflexivity. Qed.
Global Opaque NAMEFUEL.

Lemma rec_loop_S f main nm recs length : rec_loop (S f) main nm recs length =
    if length =? 0 then ret nm
    else if is_compressed length then
      buffer <- u8 ;;
      let offset := ptr_offset length buffer in
      if existsb (N.eqb offset) recs then fail (EEndlessRecursion, [offset])
      else
        let recs' := offset :: recs in
        let n := lenN recs' in
        if cmp_apply OP_dec_maxrec n DOMAIN_NAME_MAX_RECURSION then fail (EMaxRecursion, [n])
        else fun s =>
          (l <- u8 ;; rec_loop f main nm recs' l) (jump main offset (d_cost s))
    else
      '(nm', l) <- domain_name_label nm length ;; rec_loop f main nm' recs l.
Proof. reflexivity. Qed.
Lemma rec_loop_g_S f main nm recs length : rec_loop_g (S f) main nm recs length =
    if length =? 0 then ret (nm, recs)
    else if is_compressed length then
      buffer <- u8 ;;
      let offset := ptr_offset length buffer in
      if existsb (N.eqb offset) recs then fail (EEndlessRecursion, [offset])
      else
        let recs' := offset :: recs in
        let n := lenN recs' in
        if cmp_apply OP_dec_maxrec n DOMAIN_NAME_MAX_RECURSION then fail (EMaxRecursion, [n])
        else fun s =>
          (l <- u8 ;; rec_loop_g f main nm recs' l) (jump main offset (d_cost s))
    else
      '(nm', l) <- domain_name_label nm length ;; rec_loop_g f main nm' recs l.
Proof. reflexivity. Qed.
Lemma name_loop_S f main nm length : name_loop (S f) main nm length =
    if length =? 0 then ret nm
    else if is_compressed length then
      buffer <- u8 ;;
      let offset := ptr_offset length buffer in
      fun s =>
        match (l <- u8 ;; rec_loop NAMEFUEL main nm [] l) (jump main offset (d_cost s)) with
        | DOk nm' ds => DOk nm' {| d_rest := d_rest s; d_off := d_off s; d_len := d_len s; d_cost := d_cost ds |}
        | DErr e c => DErr e c
        | DPanic x => DPanic x
        | DFuel => DFuel
        end
    else
      '(nm', l) <- domain_name_label nm length ;; name_loop f main nm' l.
Proof. reflexivity. Qed.
Lemma name_loop_g_S f main nm length : name_loop_g (S f) main nm length =
    if length =? 0 then ret (nm, [])
    else if is_compressed length then
      buffer <- u8 ;;
      let offset := ptr_offset length buffer in
      fun s =>
        match (l <- u8 ;; rec_loop_g NAMEFUEL main nm [] l) (jump main offset (d_cost s)) with
        | DOk (nm', rs) ds => DOk (nm', offset :: rev rs) (set_cost (d_cost ds) s)
        | DErr e c => DErr e c
        | DPanic x => DPanic x
        | DFuel => DFuel
        end
    else
      '(nm', l) <- domain_name_label nm length ;; name_loop_g f main nm' l.
Proof. reflexivity. Qed.

(* erasure: the model is the instrumented loop with the ghost dropped — for every input and state *)
Lemma rec_loop_erase f : forall main nm recs length s,
  rec_loop f main nm recs length s = dres_map fst (rec_loop_g f main nm recs length s).
Proof.
  induction f as [|f IH]; intros main nm recs length s; [reflexivity|].
  rewrite rec_loop_S, rec_loop_g_S.
  destruct (length =? 0); [reflexivity|].
  destruct (is_compressed length).
  - unfold bind. destruct (u8 s) as [b s1| | |]; try reflexivity. cbv zeta.
    destruct (existsb (N.eqb (ptr_offset length b)) recs); [reflexivity|].
    destruct (cmp_apply OP_dec_maxrec (lenN (ptr_offset length b :: recs)) DOMAIN_NAME_MAX_RECURSION); [reflexivity|].
    destruct (u8 (jump main (ptr_offset length b) (d_cost s1))) as [l s2| | |]; try reflexivity.
    apply IH.
  - unfold bind. destruct (domain_name_label nm length s) as [[nm' l] s1| | |]; try reflexivity.
    apply IH.
Qed.

Lemma name_loop_erase f : forall main nm length s,
  name_loop f main nm length s = dres_map fst (name_loop_g f main nm length s).
Proof.
  induction f as [|f IH]; intros main nm length s; [reflexivity|].
  rewrite name_loop_S, name_loop_g_S.
  destruct (length =? 0); [reflexivity|].
  destruct (is_compressed length).
  - unfold bind. destruct (u8 s) as [b s1| | |]; try reflexivity. cbv zeta.
    destruct (u8 (jump main (ptr_offset length b) (d_cost s1))) as [l s2| | |]; try reflexivity.
    rewrite rec_loop_erase.
    destruct (rec_loop_g NAMEFUEL main nm [] l s2) as [[nm' rs] ds| | |]; reflexivity.
  - unfold bind. destruct (domain_name_label nm length s) as [[nm' l] s1| | |]; try reflexivity.
    apply IH.
Qed.

Lemma domain_name_erase main s : domain_name main s = dres_map fst (domain_name_g main s).
Proof.
  unfold domain_name, domain_name_g, bind. destruct (u8 s) as [l s1| | |]; try reflexivity.
  apply name_loop_erase.
Qed.

(* ---- one label, exactly ---- *)
Inductive lab_out :=
| LFail (e : err) (c : N)
| LOk (nm : name) (l : N) (s : dst).

Definition lab_run (o : lab_out) : dres (name * N) :=
  match o with LFail e c => DErr e c | LOk nm l s => DOk (nm, l) s end.

Inductive lab_step (nm : name) (len : N) (s : dst) : lab_out -> Prop :=
| LSFail e c : d_cost s <= c -> c <= d_cost s + len -> lab_step nm len s (LFail e c)
| LSOk l :
    1 <= len -> len < 64 -> d_off s + len + 1 <= d_len s ->
    lenN (takeN len (d_rest s)) = len -> utf8_valid (takeN len (d_rest s)) = true ->
    tl nm + len + 1 <= 254 ->
    nthN len (d_rest s) = Some l -> l < 256 ->
    lab_step nm len s (LOk (nm ++ [takeN len (d_rest s)]) l (adv (len + 1) s)).

Lemma label_step nm len s : dst_wf s -> len < 256 ->
  exists o, lab_step nm len s o /\ domain_name_label nm len s = lab_run o.
Proof.
  intros W Hl. unfold domain_name_label, bind. rewrite (read_wf len s W Hl).
  destruct (d_off s + len <=? d_len s) eqn:E1.
  2:{ eexists (LFail _ _); split; [|reflexivity]; apply LSFail; lia. }
  assert (Hlen : lenN (takeN len (d_rest s)) = len) by (apply read_len; [exact W|lia]).
  set (buf := takeN len (d_rest s)) in *.
  assert (Ca : d_cost (adv len s) = d_cost s + len) by reflexivity.
  destruct (utf8_valid buf) eqn:E2.
  2:{ eexists (LFail _ _); split; [|reflexivity]; apply LSFail; lia. }
  rewrite check_label_eq, Hlen.
  destruct (len =? 0) eqn:E3.
  { eexists (LFail _ _); split; [|reflexivity]; apply LSFail; lia. }
  destruct (len <? 64) eqn:E4.
  2:{ eexists (LFail _ _); split; [|reflexivity]; apply LSFail; lia. }
  cbn [lift]. unfold ret at 1. rewrite append_label_eq, Hlen.
  destruct (255 <=? tl nm + len + 1) eqn:E5.
  { eexists (LFail _ _); split; [|reflexivity]; apply LSFail; lia. }
  cbn [lift]. unfold ret at 1.
  assert (W1 : dst_wf (adv len s)) by (apply adv_wf; [exact W|lia]).
  destruct (u8_wf _ W1) as [(Ho & b & Hb & Hb256 & Hu)|(Ho & Hu)]; rewrite Hu.
  - rewrite adv_adv. exists (LOk (nm ++ [buf]) b (adv (len + 1) s)). split; [|reflexivity].
    cbn [adv d_off d_len d_rest] in Ho, Hb. rewrite nthN_dropN in Hb.
    replace (len + 0) with len in Hb by lia.
    apply LSOk; try assumption; lia.
  - eexists (LFail _ _); split; [|reflexivity]; apply LSFail; lia.
Qed.

(* ---- one pointer: the two octets, the target, the length octet at the target ---- *)
Definition target (len b : N) : N := (len - 192) * 256 + b.
Lemma target_lt len b : len < 256 -> b < 256 -> target len b < 16384.
Proof. unfold target. lia. Qed.

(* reading the length octet at a jump target *)
Lemma jump_u8 main t c : bytes_ok main -> lenN main < WFMAX -> t < 16384 ->
  (exists l, nthN t main = Some l /\ l < 256 /\ u8 (jump main t c) = DOk l (jump main (t + 1) (c + 1))) \/
  (lenN main < t + 1 /\ u8 (jump main t c) = DErr (ENotEnoughBytes, [lenN main; t + 1]) c).
Proof.
  intros Hb Hl Ht.
  assert (W : dst_wf (jump main t c)) by (apply jump_wf; auto; unfold WFMAX; lia).
  destruct (u8_wf _ W) as [(Ho & b & Hn & Hb256 & Hu)|(Ho & Hu)].
  - left. exists b. cbn [jump d_rest] in Hn. rewrite nthN_dropN in Hn.
    replace (t + 0) with t in Hn by lia. rewrite adv_jump in Hu. auto.
  - right. cbn [jump d_off d_len d_cost] in *. auto.
Qed.

(* ---- one iteration of the recursion loop ---- *)
Inductive step_out :=
| SDone (n : name) (rs : list N) (s : dst)
| SFail (e : err) (c : N)
| SCont (nm : name) (recs : list N) (l : N) (s : dst).

Definition rec_run (f : nat) (main : bytes) (o : step_out) : dres (name * list N) :=
  match o with
  | SDone n rs s => DOk (n, rs) s
  | SFail e c => DErr e c
  | SCont nm recs l s => rec_loop_g f main nm recs l s
  end.

Inductive rstep (main : bytes) (nm : name) (recs : list N) (len : N) (s : dst) : step_out -> Prop :=
| RDone : len = 0 -> rstep main nm recs len s (SDone nm recs s)
| RPtrShort : 192 <= len -> d_len s < d_off s + 1 ->
    rstep main nm recs len s (SFail (ENotEnoughBytes, [d_len s; d_off s + 1]) (d_cost s))
| RPtrLoop b : 192 <= len -> d_off s + 1 <= d_len s -> nthN 0 (d_rest s) = Some b -> b < 256 ->
    In (target len b) recs ->
    rstep main nm recs len s (SFail (EEndlessRecursion, [target len b]) (d_cost s + 1))
| RPtrMax b : 192 <= len -> d_off s + 1 <= d_len s -> nthN 0 (d_rest s) = Some b -> b < 256 ->
    ~ In (target len b) recs -> 16 < lenN recs + 1 ->
    rstep main nm recs len s (SFail (EMaxRecursion, [lenN recs + 1]) (d_cost s + 1))
| RPtrOut b : 192 <= len -> d_off s + 1 <= d_len s -> nthN 0 (d_rest s) = Some b -> b < 256 ->
    ~ In (target len b) recs -> lenN recs + 1 <= 16 -> lenN main < target len b + 1 ->
    rstep main nm recs len s (SFail (ENotEnoughBytes, [lenN main; target len b + 1]) (d_cost s + 1))
| RPtr b l : 192 <= len -> d_off s + 1 <= d_len s -> nthN 0 (d_rest s) = Some b -> b < 256 ->
    ~ In (target len b) recs -> lenN recs + 1 <= 16 ->
    nthN (target len b) main = Some l -> l < 256 ->
    rstep main nm recs len s
      (SCont nm (target len b :: recs) l (jump main (target len b + 1) (d_cost s + 2)))
| RLabFail e c : len <> 0 -> len < 192 -> d_cost s <= c -> c <= d_cost s + len ->
    rstep main nm recs len s (SFail e c)
| RLab l : len < 192 ->
    lab_step nm len s (LOk (nm ++ [takeN len (d_rest s)]) l (adv (len + 1) s)) ->
    rstep main nm recs len s (SCont (nm ++ [takeN len (d_rest s)]) recs l (adv (len + 1) s)).

Lemma rec_step main f nm recs len s : bytes_ok main -> lenN main < WFMAX -> dst_wf s -> len < 256 ->
  exists o, rstep main nm recs len s o /\ rec_loop_g (S f) main nm recs len s = rec_run f main o.
Proof.
  intros Hb Hm W Hl. rewrite rec_loop_g_S.
  destruct (len =? 0) eqn:E0.
  { exists (SDone nm recs s). split; [apply RDone; lia|reflexivity]. }
  rewrite (is_compressed_byte len Hl).
  destruct (192 <=? len) eqn:E1.
  - unfold bind at 1.
    destruct (u8_wf s W) as [(Ho & b & Hn & Hb256 & Hu)|(Ho & Hu)]; rewrite Hu.
    2:{ eexists (SFail _ _); split; [|reflexivity]; apply RPtrShort; lia. }
    cbv zeta. rewrite (ptr_offset_byte len b) by lia. fold (target len b).
    destruct (existsb (N.eqb (target len b)) recs) eqn:E2.
    { apply existsb_eqb_In in E2. eexists (SFail _ _); split; [|reflexivity]; eapply RPtrLoop; eauto; lia. }
    assert (Hni : ~ In (target len b) recs).
    { intro Hi. apply existsb_eqb_In in Hi. congruence. }
    rewrite OP_dec_maxrec_val, MAXREC_val, lenN_cons. cbn [cmp_apply].
    destruct (16 <? lenN recs + 1) eqn:E3.
    { eexists (SFail _ _); split; [|reflexivity]; eapply RPtrMax; eauto; lia. }
    unfold bind. cbn [adv d_cost].
    destruct (jump_u8 main (target len b) (d_cost s + 1) Hb Hm) as [(l & Hnl & Hl256 & Hu2)|(Ho2 & Hu2)];
      [apply target_lt; lia| |]; rewrite Hu2.
    + exists (SCont nm (target len b :: recs) l (jump main (target len b + 1) (d_cost s + 2))).
      split; [eapply RPtr; eauto; lia|].
      cbn [rec_run]. replace (d_cost s + 1 + 1) with (d_cost s + 2) by lia. reflexivity.
    + eexists (SFail _ _); split; [|reflexivity]; eapply RPtrOut; eauto; lia.
  - destruct (label_step nm len s W Hl) as (o & Hs & Hr). unfold bind. rewrite Hr.
    destruct o as [e c|nm' l s']; cbn [lab_run].
    + inversion Hs; subst. eexists (SFail _ _); split; [|reflexivity]; eapply RLabFail; eauto; lia.
    + inversion Hs; subst.
      exists (SCont (nm ++ [takeN len (d_rest s)]) recs l (adv (len + 1) s)).
      split; [apply RLab; [lia|exact Hs]|reflexivity].
Qed.

(* ---- one iteration of the outer loop ---- *)
Inductive nstep_out :=
| NDone (n : name) (s : dst)
| NFail (e : err) (c : N)
| NCont (nm : name) (l : N) (s : dst)
| NJump (t : N) (l : N) (s1 s2 : dst).   (* pointer to t; s1: window behind the pointer; s2: at t+1 *)

Definition jump_run (main : bytes) (nm : name) (t l : N) (s1 s2 : dst) : dres (name * list N) :=
  match rec_loop_g NAMEFUEL main nm [] l s2 with
  | DOk (nm', rs) ds => DOk (nm', t :: rev rs) (set_cost (d_cost ds) s1)
  | DErr e c => DErr e c
  | DPanic x => DPanic x
  | DFuel => DFuel
  end.

Definition name_run (f : nat) (main : bytes) (nm : name) (o : nstep_out) : dres (name * list N) :=
  match o with
  | NDone n s => DOk (n, []) s
  | NFail e c => DErr e c
  | NCont nm' l s => name_loop_g f main nm' l s
  | NJump t l s1 s2 => jump_run main nm t l s1 s2
  end.

Inductive nstep (main : bytes) (nm : name) (len : N) (s : dst) : nstep_out -> Prop :=
| NSDone : len = 0 -> nstep main nm len s (NDone nm s)
| NSPtrShort : 192 <= len -> d_len s < d_off s + 1 ->
    nstep main nm len s (NFail (ENotEnoughBytes, [d_len s; d_off s + 1]) (d_cost s))
| NSPtrOut b : 192 <= len -> d_off s + 1 <= d_len s -> nthN 0 (d_rest s) = Some b -> b < 256 ->
    lenN main < target len b + 1 ->
    nstep main nm len s (NFail (ENotEnoughBytes, [lenN main; target len b + 1]) (d_cost s + 1))
| NSPtr b l : 192 <= len -> d_off s + 1 <= d_len s -> nthN 0 (d_rest s) = Some b -> b < 256 ->
    nthN (target len b) main = Some l -> l < 256 ->
    nstep main nm len s (NJump (target len b) l (adv 1 s) (jump main (target len b + 1) (d_cost s + 2)))
| NSLabFail e c : len <> 0 -> len < 192 -> d_cost s <= c -> c <= d_cost s + len ->
    nstep main nm len s (NFail e c)
| NSLab l : len < 192 ->
    lab_step nm len s (LOk (nm ++ [takeN len (d_rest s)]) l (adv (len + 1) s)) ->
    nstep main nm len s (NCont (nm ++ [takeN len (d_rest s)]) l (adv (len + 1) s)).

Lemma name_step main f nm len s : bytes_ok main -> lenN main < WFMAX -> dst_wf s -> len < 256 ->
  exists o, nstep main nm len s o /\ name_loop_g (S f) main nm len s = name_run f main nm o.
Proof.
  intros Hb Hm W Hl. rewrite name_loop_g_S.
  destruct (len =? 0) eqn:E0.
  { exists (NDone nm s). split; [apply NSDone; lia|reflexivity]. }
  rewrite (is_compressed_byte len Hl).
  destruct (192 <=? len) eqn:E1.
  - unfold bind at 1.
    destruct (u8_wf s W) as [(Ho & b & Hn & Hb256 & Hu)|(Ho & Hu)]; rewrite Hu.
    2:{ eexists (NFail _ _); split; [|reflexivity]; apply NSPtrShort; lia. }
    cbv zeta. rewrite (ptr_offset_byte len b) by lia. fold (target len b).
    unfold bind. cbn [adv d_cost].
    destruct (jump_u8 main (target len b) (d_cost s + 1) Hb Hm) as [(l & Hnl & Hl256 & Hu2)|(Ho2 & Hu2)];
      [apply target_lt; lia| |]; rewrite Hu2.
    + exists (NJump (target len b) l (adv 1 s) (jump main (target len b + 1) (d_cost s + 2))).
      split; [eapply NSPtr; eauto; lia|].
      cbn [name_run]. unfold jump_run. replace (d_cost s + 1 + 1) with (d_cost s + 2) by lia. reflexivity.
    + eexists (NFail _ _); split; [|reflexivity]; eapply NSPtrOut; eauto; lia.
  - destruct (label_step nm len s W Hl) as (o & Hs & Hr). unfold bind. rewrite Hr.
    destruct o as [e c|nm' l s']; cbn [lab_run].
    + inversion Hs; subst. eexists (NFail _ _); split; [|reflexivity]; eapply NSLabFail; eauto; lia.
    + inversion Hs; subst.
      exists (NCont (nm ++ [takeN len (d_rest s)]) l (adv (len + 1) s)).
      split; [apply NSLab; [lia|exact Hs]|reflexivity].
Qed.
