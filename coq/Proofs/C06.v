(* C06: the statements exported by Props/C06.v, assembled from the name and history layers. *)
From DNS Require Import Model.Enc Spec.Names Proofs.ListN Proofs.NameLayer Proofs.NameLoop
                        Proofs.NameMain Proofs.NameSlots Proofs.NameHist.
Require Import ZArith ZifyBool ZifyN ZifyNat.
Local Open Scope N_scope.

Lemma C06_write_name_proof : forall s mask n,
  InvM s mask -> name_ok n -> lenN (e_buf s) + name_wire_len n <= 65536 ->
  exists s' w,
    enc_domain_name n s = EOk tt s' /\
    e_buf s' = e_buf s ++ w /\ 1 <= lenN w /\ lenN w <= name_wire_len n /\
    e_names s' = (lenN (e_buf s), n) :: e_names s /\
    InvM s' (mask ++ repeat true (length w)) /\
    forall b', agree (mask ++ repeat true (length w)) (e_buf s') b' ->
      exists x, expand 16 b' (lenN (e_buf s)) = Some x /\
                name_eqb n (x_name x) = true /\
                (x_hops x <= 16)%nat /\
                Forall (ptr_ok (e_names s') b') (x_ptrs x).
Proof.
  intros s mask n HI Hn Hsz.
  destruct (enc_domain_name_ok s mask n HI Hn Hsz) as (s' & w & Hrun & Hb & Hw1 & Hw2 & Hnm & HI').
  exists s', w. split; [exact Hrun|]. split; [exact Hb|]. split; [exact Hw1|]. split; [exact Hw2|].
  split; [exact Hnm|]. split; [exact HI'|].
  intros b' Hag. destruct HI' as (_ & _ & HI'). destruct (HI' b' Hag) as [_ Hl].
  destruct (Hl (lenN (e_buf s), n)) as (x & H1 & H2 & H3 & H4); [rewrite Hnm; left; reflexivity|].
  cbn [fst snd] in *. exists x. split; [exact H1|]. split; [exact H3|]. split; [exact H2|exact H4].
Qed.

Lemma C06_never_fails_proof : forall s mask n,
  InvM s mask -> name_ok n ->
  (exists s', enc_domain_name n s = EOk tt s') \/
  (exists k, enc_domain_name n s = EErr (XLength, [k]) /\
             65536 <= k /\ lenN (e_buf s) <= k /\ k < lenN (e_buf s) + name_wire_len n).
Proof.
  intros s mask n HI Hn.
  destruct (enc_domain_name_spec s mask n HI Hn) as [(s' & w & Hrun & _)|Hf]; [left; exists s'; exact Hrun|right; exact Hf].
Qed.

Lemma C06_transparent_proof : forall ops,
  Forall op_legal ops ->
  match run ops e_init [] with
  | HOk s m =>
    forall p n, In (p, n) (e_names s) ->
      exists x, expand 16 (e_buf s) p = Some x /\
                name_eqb n (x_name x) = true /\
                (x_hops x <= 16)%nat /\
                Forall (fun pt => snd pt < fst pt /\ snd pt <= 16383 /\
                                  exists p' n', In (p', n') (e_names s) /\ lit_reach (e_buf s) p' (snd pt))
                       (x_ptrs x)
  | HNameFail r => (exists k, r = EErr (XLength, [k]) /\ 65536 <= k) /\ 65536 < ops_size ops
  | HBadPatch => True
  end.
Proof.
  intros ops Hleg. pose proof (run_inv ops e_init [] InvM_init Hleg) as H.
  destruct (run ops e_init []) as [s m|r|]; [|exact H|exact I].
  exact (InvM_transparent s m (proj1 H)).
Qed.
