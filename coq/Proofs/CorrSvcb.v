(* Correspondence of the SVCB/HTTPS SvcParams readers (src/decode/rr/draft_ietf_dnsop_svcb_https.rs)
   with the reference's svc_value / svc_param / as_set (RFC 9460 2.2). *)
From Coq Require Import ZifyBool ZifyN ZifyNat.
From DNS Require Import Model.Dec Spec.Names Spec.Iana Spec.Wire Proofs.DecBase Proofs.CorrBase Proofs.CorrPrim
  Proofs.CorrFields.
Local Open Scope N_scope.

(* ---- the model's BTreeSet insert vs the reference's keyed insert ---- *)
Lemma insert_by_key_set_insert (p : svcparam) (l : list svcparam) :
  match insert_by_key p l with
  | Some l' => set_insert p l = (l', true)
  | None => snd (set_insert p l) = false
  end.
Proof.
  induction l as [|q r IH]; cbn [insert_by_key set_insert]; [reflexivity|].
  destruct (param_key p <? param_key q); [reflexivity|].
  destruct (param_key p =? param_key q); [reflexivity|].
  destruct (insert_by_key p r) as [r'|]; destruct (set_insert p r) as [r2 b]; cbn [snd] in IH |- *.
  - injection IH as -> ->. reflexivity.
  - exact IH.
Qed.

Lemma progress_svc_param : progress svc_param.
Proof.
  unfold svc_param. apply progress_bind; [apply progress_num; lia|].
  intros key b a e w a' H. unfold pbind in H.
  destruct (num 2 b a e) as [[len a1]|] eqn:E; [|discriminate].
  apply (progress_num 2 ltac:(lia)) in E. apply within_inv in H. lia.
Qed.

Section Main.
Variable main : bytes.
Hypothesis Hb : bytes_ok main.
Hypothesis Hm : lenN main < 2 ^ 62.
Set Default Proof Using "Hb Hm".

Notation inv := (inv main).
Notation agree := (agree main).
Notation corr := (corr main).
Notation corr_w := (corr_w main).
Local Notation corr_u16 := (corr_u16 main Hb Hm).
Local Notation corr_string := (corr_string main Hb Hm).
Local Notation corr_ipv4 := (corr_ipv4 main Hb Hm).
Local Notation corr_ipv6 := (corr_ipv6 main Hb Hm).
Local Notation corr_vec := (corr_vec main Hb Hm).
Local Notation corr_many_k := (corr_many_k main Hb Hm).
Local Notation corr_with_sub := (corr_with_sub main Hb Hm).
Local Notation is_finished_inv := (is_finished_inv main Hb Hm).

(* ---- one SvcParamValue ---- *)
Lemma corr_svc_value (key : N) : corr (rr_service_parameter key) (svc_value key).
Proof.
  unfold rr_service_parameter, svc_value.
  destruct (key =? 0).
  { apply corr_many_k; [apply corr_u16|apply progress_num; lia|]. intro l. apply corr_ret. }
  destruct (key =? 1).
  { apply corr_many_k; [apply corr_string|apply progress_charstr|]. intro l. apply corr_ret. }
  destruct (key =? 2); [apply corr_ret|].
  destruct (key =? 3).
  { apply corr_bind; [apply corr_u16|]. intro p. apply corr_ret. }
  destruct (key =? 4).
  { apply corr_many_k; [apply corr_ipv4|apply progress_num; lia|]. intro l. apply corr_ret. }
  destruct (key =? 5).
  { apply corr_bind; [apply corr_u16|]. intro n. apply corr_bind; [apply corr_vec|]. intro x.
    destruct (lenN x =? n); cbn [negb]; [apply corr_ret|apply corr_fail]. }
  destruct (key =? 6).
  { apply corr_many_k; [apply corr_ipv6|apply progress_octets; lia|]. intro l. apply corr_ret. }
  destruct (key =? 65535); [apply corr_ret|].
  apply corr_bind; [apply corr_vec|]. intro d. apply corr_ret.
Qed.

(* ---- one SvcParam: key, length, value in its own window ---- *)
Lemma corr_svc_param :
  corr (key <- u16 ;; len <- u16 ;; with_sub len (rr_service_parameter key)) svc_param.
Proof.
  unfold svc_param. apply corr_bind; [apply corr_u16|]. intro key.
  apply corr_bind; [apply corr_u16|]. intro len.
  apply corr_with_sub. apply corr_corr_w. apply corr_svc_value.
Qed.

(* ---- the parameter loop with its set accumulator ---- *)
Lemma agree_svc_params : forall (f1 f2 : nat) (acc : list svcparam) s a e, inv s a e ->
  (N.to_nat (e - a) < f1)%nat -> (N.to_nat (e - a) < f2)%nat ->
  agree s a e (svc_params f1 acc s)
    (match until_end f2 svc_param main a e with
     | Some (l, a') => match as_set acc l with Some set => Some (set, a') | None => None end
     | None => None
     end).
Proof.
  induction f1 as [|f1 IH]; intros f2 acc s a e Hi F1 F2; [lia|].
  destruct f2 as [|f2]; [lia|]. cbn [svc_params until_end]. unfold bind at 1.
  destruct (is_finished_inv s a e Hi) as [(Ea & ->)|(Ea & ->)].
  - assert (a =? e = true) as -> by lia. cbn [as_set]. apply agree_ret. exact Hi.
  - assert (a =? e = false) as -> by lia.
    pose proof (corr_svc_param s a e Hi) as Hit.
    unfold bind in Hit |- *.
    destruct (u16 s) as [key s1| | |];
      [destruct (u16 s1) as [len s2| | |];
        [destruct (with_sub len (rr_service_parameter key) s2) as [p s3| | |]|..]|..];
      destruct (svc_param main a e) as [[p' a1]|] eqn:Ep;
      cbn [agree CorrBase.agree] in Hit |- *; try contradiction; try exact I.
    destruct Hit as (<- & Ha & I1 & Ho & Hl). apply progress_svc_param in Ep.
    destruct (inv_bounds main _ _ _ I1) as (B1 & _).
    pose proof (insert_by_key_set_insert p acc) as HS.
    destruct (insert_by_key p acc) as [acc'|] eqn:Ei.
    + rewrite HS. cbv beta iota.
      specialize (IH f2 acc' s3 a1 e I1 ltac:(lia) ltac:(lia)).
      apply (agree_shift main s a s3 a1); [|lia|exact Ho|exact Hl].
      destruct (until_end f2 svc_param main a1 e) as [[l a2]|]; [|exact IH].
      cbn [as_set]. rewrite Ei. exact IH.
    + destruct (set_insert p acc) as [acc' b]. cbn [snd] in HS. subst b. cbv beta iota.
      unfold fail. cbn [agree CorrBase.agree].
      destruct (until_end f2 svc_param main a1 e) as [[l a2]|]; [|exact I].
      cbn [as_set]. rewrite Ei. exact I.
Qed.

Lemma corr_svc_params :
  corr (fuel <- loop_fuel ;; svc_params fuel [])
       (ps <~ many_to_end svc_param ;; match as_set [] ps with Some set => pret set | None => pnone end).
Proof.
  intros s a e Hi. unfold bind at 1, loop_fuel. unfold pbind, many_to_end.
  pose proof (inv_bounds main _ _ _ Hi) as (B1 & B2 & B3).
  pose proof (agree_svc_params (S (N.to_nat (d_len s - d_off s))) (S (N.to_nat (e - a))) [] s a e Hi
                ltac:(lia) ltac:(lia)) as G.
  destruct (until_end (S (N.to_nat (e - a))) svc_param main a e) as [[l a2]|]; [|exact G].
  destruct (as_set [] l) as [set|]; exact G.
Qed.

End Main.
Unset Default Proof Using.

Print Assumptions corr_svc_params.
