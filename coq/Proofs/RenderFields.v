(* C04 (renderings) — RDATA fields of the format table: every rendering of a well-formed field value is
   accepted by the reference field parser with an equivalent value. *)
From Coq Require Import ZArith ZifyBool ZifyN ZifyNat.
From DNS Require Import Model.Dec Model.Enc Spec.Names Spec.Wire Spec.Render
  Proofs.ListN Proofs.DecBase Proofs.C13 Proofs.CorrFields
  Proofs.RtBase Proofs.RtPrim Proofs.RtFields Proofs.RtRecord Proofs.RenderBase Proofs.RenderName.
Local Open Scope N_scope.
Ltac Zify.zify_post_hook ::= Z.div_mod_to_equations.

(* kinds that read up to the end of the RDATA *)
Definition sk_tail (k : sk) : bool :=
  match k with KRest | KRestUtf8 | KOptHex | KStrs1 => true | _ => false end.
Fixpoint tails_last (ks : list sk) : bool :=
  match ks with [] => true | k :: r => (negb (sk_tail k) || is_nil r) && tails_last r end.

Lemma acc_bind_last' {A B} (E : bool) (p : P A) (g : A -> P B) (pre w : bytes) (x : A) (y : B) :
  acc E p pre w x -> acc E (g x) (pre ++ w) [] y -> acc E (pbind p g) pre w y.
Proof.
  intros H1 H2 post e He. unfold pbind. rewrite (H1 post e He).
  specialize (H2 post e). cbn [app] in H2. rewrite <- app_assoc, lenN_app, lenN_nil, N.add_0_r in H2.
  apply H2. exact He.
Qed.

(* a number, then a check that holds, then the value *)
Lemma acc_num_ret {B} (n : N) (pre w : bytes) (v : N) (g : N -> P B) (y : B) :
  acc false (num n) pre w v -> (forall b s e, g v b s e = Some (y, s)) -> acc false (pbind (num n) g) pre w y.
Proof.
  intros H1 H2. apply (acc_bind_last' false (num n) g pre w v y H1).
  intros post e _. rewrite H2, lenN_nil, N.add_0_r. reflexivity.
Qed.
Lemma acc_str_ret {B} (E : bool) (p : P bytes) (pre w : bytes) (v : bytes) (g : bytes -> P B) (y : B) :
  acc E p pre w v -> (forall b s e, g v b s e = Some (y, s)) -> acc E (pbind p g) pre w y.
Proof.
  intros H1 H2. apply (acc_bind_last' E p g pre w v y H1).
  intros post e _. rewrite H2, lenN_nil, N.add_0_r. reflexivity.
Qed.

Lemma cstr_ok (s : bytes) : lenN s <= 255 -> bytes_ok s -> bytes_ok (cstr s).
Proof. intros H1 H2. unfold cstr. cbn [app]. apply bytes_ok_cons; [lia|exact H2]. Qed.

(* CAA tags: the lower-case form of any case variant of a lower-case tag is the tag *)
Lemma ci_lowalnum (a b : N) : ci_octet a b -> is_lowalnum a = true -> isalnum b = true /\ tolower b = a.
Proof.
  unfold ci_octet, is_lowalnum, is_digit, is_lower, isalnum, isdigit, tolower. intros H Ha.
  destruct ((65 <=? b) && (b <=? 90)) eqn:E; split; lia.
Qed.
Lemma ci_tag (s s' : bytes) : ci_label s s' -> forallb is_lowalnum s = true ->
  forallb isalnum s' = true /\ map tolower s' = s.
Proof.
  induction 1 as [|a b s s' Hab Hs IH]; cbn [forallb map]; intros H; [split; reflexivity|].
  apply andb_true_iff in H. destruct H as [H1 H2]. destruct (ci_lowalnum a b Hab H1) as [Ha Hb].
  destruct (IH H2) as [I1 I2]. rewrite Ha, I1, Hb, I2. split; reflexivity.
Qed.

Lemma filter_value_cons (nm : string) (k : fk) (f : list (string * fk)) :
  map snd (filter (fun p => has_value (snd p)) ((nm, k) :: f)) =
  (if has_value k then [k] else []) ++ map snd (filter (fun p => has_value (snd p)) f).
Proof. cbn [filter snd]. destruct (has_value k); reflexivity. Qed.

Lemma strs_items (l : list bytes) : forallb str_wf l = true ->
  Forall2 (fun w v => cf charstr w v /\ w <> []) (map cstr l) l /\ Forall bytes_ok (map cstr l).
Proof.
  induction l as [|s l IH]; cbn [forallb map]; intros H; [split; constructor|].
  apply andb_true_iff in H. destruct H as [H1 H2]. destruct (str_wf_inv s H1) as [Hu Hl].
  destruct (IH H2) as [I1 I2]. split; constructor; try assumption.
  - split; [apply cf_charstr; assumption|apply cstr_ne].
  - apply cstr_ok; [exact Hl|apply utf8_bytes_ok; exact Hu].
Qed.

Ltac wf_split H :=
  repeat match type of H with
         | (_ && _) = true => let H' := fresh "W" in apply andb_true_iff in H; destruct H as [H H']
         end.

(* ---- one field ---- *)
Lemma field_acc (pre : bytes) (k : fk) (k' : sk) (v : list fv) (w : bytes) (K : list fk) (vs0 : list fv) :
  sk_of k = Some k' -> renders_field pre k' v w ->
  vals_wf ((if has_value k then [k] else []) ++ K) (v ++ vs0) = true ->
  vals_wf K vs0 = true /\ bytes_ok w /\
  exists v', acc (sk_tail k') (field k') pre w v' /\ fvs_eqv v' v.
Proof.
  intros Hk Hr Hwf.
  destruct k as [ | | | | | | | | | |en er|en er| | | | | | | |c er| ]; cbn [sk_of] in Hk;
    try (destruct (c =? 3) eqn:Ec); try discriminate; injection Hk as <-;
    inversion Hr; subst; cbn [has_value app vals_wf fv_wf] in Hwf; wf_split Hwf; cbn [sk_tail field];
    (split; [assumption|]).
  - (* FU8 *) split; [apply bytes_ok_cons; [lia|apply bytes_ok_nil]|]. eexists. split; [|apply Forall2_diag; constructor; [reflexivity|constructor]].
    apply (acc_num_ret 1 pre [v0] v0); [apply acc_num1|reflexivity].
  - (* FU16 *) split; [apply be16_ok; lia|]. eexists. split; [|apply Forall2_diag; constructor; [reflexivity|constructor]].
    apply (acc_num_ret 2 pre _ v0); [apply acc_num2; lia|reflexivity].
  - (* FU32 *) split; [apply be32_ok; lia|]. eexists. split; [|apply Forall2_diag; constructor; [reflexivity|constructor]].
    apply (acc_num_ret 4 pre _ v0); [apply acc_num4; lia|reflexivity].
  - (* FU64 *) split; [apply be64_ok; lia|]. eexists. split; [|apply Forall2_diag; constructor; [reflexivity|constructor]].
    apply (acc_num_ret 8 pre _ v0); [apply acc_num8; lia|reflexivity].
  - (* FName *) destruct (renders_name_acc pre n w H Hwf) as (Hb & n' & Hn' & He).
    split; [exact Hb|]. exists [VName n']. split; [|constructor; [exact He|constructor]].
    apply (acc_bind_last' false pname _ pre w n' _ Hn'). apply acc_ret.
  - (* FStr *) destruct (str_wf_inv s Hwf) as [Hu Hl].
    split; [apply cstr_ok; [exact Hl|apply utf8_bytes_ok; exact Hu]|].
    eexists. split; [|apply Forall2_diag; constructor; [reflexivity|constructor]].
    apply (acc_str_ret false charstr pre _ s); [apply acc_charstr; assumption|reflexivity].
  - (* FRest *) split; [apply bytes_okb_ok; exact Hwf|].
    eexists. split; [|apply Forall2_diag; constructor; [reflexivity|constructor]].
    apply (acc_str_ret true rest pre _ w); [apply acc_rest|reflexivity].
  - (* FRestUtf8 *) split; [apply utf8_bytes_ok; exact Hwf|].
    eexists. split; [|apply Forall2_diag; constructor; [reflexivity|constructor]].
    apply (acc_str_ret true rest pre _ w); [apply acc_rest|]. intros b s e. rewrite Hwf. reflexivity.
  - (* FIp4 *) split; [apply be32_ok; lia|]. eexists. split; [|apply Forall2_diag; constructor; [reflexivity|constructor]].
    apply (acc_num_ret 4 pre _ v0); [apply acc_num4; lia|reflexivity].
  - (* FIp6 *) split; [apply bytes_okb_ok; exact W0|].
    eexists. split; [|apply Forall2_diag; constructor; [reflexivity|constructor]].
    apply (acc_str_ret false (octets 16) pre _ w); [apply acc_octets; assumption|reflexivity].
  - (* FEnum8 *) split; [apply bytes_ok_cons; [lia|apply bytes_ok_nil]|].
    eexists. split; [|apply Forall2_diag; constructor; [reflexivity|constructor]].
    apply (acc_num_ret 1 pre [v0] v0); [apply acc_num1|]. intros b s e.
    rewrite <- enum_table_reg, W0. reflexivity.
  - (* FEnum16 *) split; [apply be16_ok; lia|].
    eexists. split; [|apply Forall2_diag; constructor; [reflexivity|constructor]].
    apply (acc_num_ret 2 pre _ v0); [apply acc_num2; lia|]. intros b s e.
    rewrite <- enum_table_reg, W0. reflexivity.
  - (* FStrPsdn *) destruct (str_wf_inv s Hwf) as [Hu Hl].
    split; [apply cstr_ok; [exact Hl|apply utf8_bytes_ok; exact Hu]|].
    eexists. split; [|apply Forall2_diag; constructor; [reflexivity|constructor]].
    apply (acc_str_ret false charstr pre _ s); [apply acc_charstr; assumption|]. intros b s0 e.
    change (forallb isdigit s) with (forallb is_digit s). rewrite W0. reflexivity.
  - (* FStrIsdn *) destruct (str_wf_inv s Hwf) as [Hu Hl].
    split; [apply cstr_ok; [exact Hl|apply utf8_bytes_ok; exact Hu]|].
    eexists. split; [|apply Forall2_diag; constructor; [reflexivity|constructor]].
    apply (acc_str_ret false charstr pre _ s); [apply acc_charstr; assumption|]. intros b s0 e.
    change (forallb isdigit s) with (forallb is_digit s). rewrite W0. reflexivity.
  - (* FOptStrSa, absent *) split; [apply bytes_ok_nil|].
    exists [VOptStr None]. split; [|apply Forall2_diag; constructor; [reflexivity|constructor]].
    intros post e He. rewrite lenN_nil, N.add_0_r in He. subst e. rewrite N.eqb_refl, lenN_nil, N.add_0_r. reflexivity.
  - (* FOptStrSa, present *) destruct (str_wf_inv s Hwf) as [Hu Hl].
    split; [apply cstr_ok; [exact Hl|apply utf8_bytes_ok; exact Hu]|].
    exists [VOptStr (Some s)]. split; [|apply Forall2_diag; constructor; [reflexivity|constructor]].
    intros post e He. unfold cstr in *. lenN_norm_in He. lenN_norm.
    destruct (lenN pre =? e) eqn:E0; [lia|].
    pose proof (acc_str_ret false charstr pre (cstr s) s
                  (fun x => if forallb ishex x then pret [VOptStr (Some x)] else pnone) [VOptStr (Some s)]
                  (acc_charstr pre s Hl Hu)) as HA.
    unfold cstr in HA. rewrite (HA ltac:(intros b s0 e0; change (forallb ishex s) with (forallb is_hexdigit s);
                                         rewrite W0; reflexivity) post e) by (lenN_norm; lia).
    lenN_norm. reflexivity.
  - (* FStrGpos *) destruct (str_wf_inv s Hwf) as [Hu Hl].
    split; [apply cstr_ok; [exact Hl|apply utf8_bytes_ok; exact Hu]|].
    eexists. split; [|apply Forall2_diag; constructor; [reflexivity|constructor]].
    apply (acc_str_ret false charstr pre _ s); [apply acc_charstr; assumption|]. intros b s0 e.
    rewrite W0. reflexivity.
  - (* FTag *) destruct (str_wf_inv s Hwf) as [Hu Hl]. destruct (ci_tag s s' H W0) as [T1 T2].
    pose proof (ci_label_len s s' H) as HL. pose proof (ci_label_utf8 s s' H) as HU.
    split; [apply cstr_ok; [lia|apply utf8_bytes_ok; congruence]|].
    exists [VBytes s]. split; [|apply Forall2_diag; constructor; [reflexivity|constructor]].
    apply (acc_str_ret false charstr pre _ s'); [apply acc_charstr; [lia|congruence]|]. intros b s0 e.
    rewrite T1, T2. assert (1 <=? lenN s' = true) as -> by lia. reflexivity.
  - (* FStrs1 *) destruct (strs_items l W0) as [I1 I2].
    split; [apply bytes_ok_concat; exact I2|].
    exists [VStrs l]. split; [|apply Forall2_diag; constructor; [reflexivity|constructor]].
    apply (acc_bind_last' true (many_to_end charstr) _ pre _ l); [apply acc_many; exact I1|].
    destruct l as [|s l']; [discriminate|]. apply acc_ret.
  - (* FDnskeyFlags *) split; [apply be16_ok; lia|].
    eexists. split; [|apply Forall2_diag; constructor; [reflexivity|constructor]].
    apply (acc_num_ret 2 pre _ v0); [apply acc_num2; lia|]. intros b s e.
    rewrite <- dnskey_mask by lia. rewrite W0. reflexivity.
  - (* FConst8 3 *) split; [apply bytes_ok_cons; [lia|apply bytes_ok_nil]|].
    exists []. split; [|constructor].
    apply (acc_num_ret 1 pre [3] 3); [apply acc_num1|reflexivity].
Qed.

(* ---- the field list of a record type ---- *)
Lemma fields_acc : forall (f : list (string * fk)) (ks : list sk) (pre : bytes) (vs : list fv) (w : bytes),
  map (fun p => sk_of (snd p)) f = map Some ks -> tails_last ks = true ->
  renders_fields pre ks vs w ->
  vals_wf (map snd (filter (fun p => has_value (snd p)) f)) vs = true ->
  bytes_ok w /\ exists vs', acc true (fields ks) pre w vs' /\ fvs_eqv vs' vs.
Proof.
  induction f as [|[nm k] f IH]; intros ks pre vs w Hm Ht Hr Hwf; destruct ks as [|k' ks]; cbn [map snd] in Hm;
    try discriminate.
  - inversion Hr; subst. split; [apply bytes_ok_nil|]. exists []. split; [apply acc_ret|constructor].
  - injection Hm as Hk Hm. inversion Hr as [|? ? ? v vs0 w0 ws Hf Hfs]; subst.
    rewrite filter_value_cons in Hwf.
    destruct (field_acc pre k k' v w0 _ vs0 Hk Hf Hwf) as (Hwf' & Hb0 & v' & Hv' & Ev).
    cbn [tails_last] in Ht. apply andb_true_iff in Ht. destruct Ht as [Ht1 Ht2].
    destruct (sk_tail k') eqn:Etl.
    + (* reads to the end: it is the last field *)
      destruct ks as [|k2 ks]; [|discriminate]. destruct f as [|p2 f]; [|discriminate].
      inversion Hfs; subst. rewrite !app_nil_r. split; [exact Hb0|].
      exists (v' ++ []). split; [|rewrite app_nil_r; exact Ev].
      cbn [fields]. apply (acc_bind_last' true (field k') _ pre w0 v' _ Hv').
      apply acc_bind_nil with (x := []); [reflexivity|]. apply acc_ret.
    + destruct (IH ks (pre ++ w0) vs0 ws Hm Ht2 Hfs Hwf') as (Hbs & vs' & Hvs' & Evs).
      split; [apply bytes_ok_app; assumption|].
      exists (v' ++ vs'). split; [|apply Forall2_app; assumption].
      cbn [fields]. apply (acc_bind true (field k') _ pre w0 ws v' _ Hv').
      apply (acc_bind_last' true (fields ks) _ (pre ++ w0) ws vs' _ Hvs'). apply acc_ret.
Qed.
