(* C17, output side — the number of address octets the encoder emits for an address-prefix item
   (APL item, RFC 3123; EDNS client subnet, RFC 7871), characterised exactly:
       emitted = max (significant octets, minimum length)
   where the significant octets end at the last non-zero octet, and the minimum length is 0 for an APL
   item and ceil(source / 8) for ECS.  For APL this is the RFC 3123 count; for ECS it is the RFC 7871
   count unless a non-zero octet lies beyond it (known finding KF2, narrowed); see Proofs/C17Rt.v. *)
From Coq Require Import ZArith ZifyBool ZifyN ZifyNat.
From DNS Require Import Proofs.EncTotal Model.Values Model.Dec Model.Enc Proofs.C12 Proofs.C17Dec.
Local Open Scope N_scope.
Ltac Zify.zify_post_hook ::= Z.div_mod_to_equations.

(* ---- generated constants: these break when the Rust source changes ---- *)
Lemma ENC_APL_MINIMUM_LENGTH_val : ENC_APL_MINIMUM_LENGTH = 0. Proof. reflexivity. Qed.
Lemma APL_NEGATION_MASK_val : APL_NEGATION_MASK = 128. Proof. reflexivity. Qed.
Lemma OP_apl_len_val : OP_apl_len = CLt. Proof. reflexivity. Qed.
Lemma OPT_ECS_val : OPT_ECS = 8. Proof. reflexivity. Qed.
Lemma POW16_value : POW16 = 65536. Proof. reflexivity. Qed.

(* ---- the count ---- *)
Definition emit_count (oct : bytes) (minimum : N) : N := N.max (addr_significant oct) minimum.

Lemma emit_count_le oct m : m <= lenN oct -> emit_count oct m <= lenN oct.
Proof. intros H. unfold emit_count. pose proof (addr_significant_le oct). lia. Qed.
Lemma emit_count_zero oct : emit_count oct 0 = addr_significant oct.
Proof. unfold emit_count. lia. Qed.

(* ---- N-indexed list facts ---- *)
Lemma lenN_app_ {A} (a b : list A) : lenN (a ++ b) = lenN a + lenN b.
Proof. unfold lenN. rewrite app_length. lia. Qed.
Lemma lenN_cons_ {A} (x : A) (l : list A) : lenN (x :: l) = lenN l + 1.
Proof. unfold lenN. cbn [length]. lia. Qed.
Lemma lenN_takeN_ {A} n (l : list A) : lenN (takeN n l) = N.min n (lenN l).
Proof. unfold lenN, takeN. rewrite firstn_length. lia. Qed.
Lemma takeN_nil {A} n : takeN n (@nil A) = [].
Proof. unfold takeN. apply firstn_nil. Qed.
Lemma takeN_succ_cons {A} n (x : A) l : takeN (n + 1) (x :: l) = x :: takeN n l.
Proof. unfold takeN. replace (N.to_nat (n + 1)) with (S (N.to_nat n)) by lia. reflexivity. Qed.
Lemma takeN_app_exact {A} (a b : list A) n : n = lenN a -> takeN n (a ++ b) = a.
Proof.
  intros ->. unfold takeN, lenN. rewrite Nat2N.id, firstn_app, Nat.sub_diag, firstn_all.
  cbn [firstn]. apply app_nil_r.
Qed.
Lemma dropN_app_exact {A} (a b : list A) n : n = lenN a -> dropN n (a ++ b) = b.
Proof.
  intros ->. unfold dropN, lenN. rewrite Nat2N.id, skipn_app, Nat.sub_diag, skipn_all.
  reflexivity.
Qed.

(* Encoder::rr_address_with_length, for any address value: appends exactly that many octets *)
Lemma rr_address_with_length_count (a : addr) (m : N) (st : est) :
  rr_address_with_length a m st = put (takeN (emit_count (a_oct a) m) (a_oct a)) st.
Proof. apply rr_address_with_length_eq. Qed.

Lemma addr_wf_len (a : addr) : addr_wf a -> lenN (a_oct a) = addr_size a.
Proof.
  intros [[[Hf Hl]|[Hf Hl]] _]; unfold addr_size; rewrite Hf, Hl; reflexivity.
Qed.
Lemma addr_size_cases (a : addr) : addr_size a = 4 \/ addr_size a = 16.
Proof. unfold addr_size. destruct (a_fam a =? 1); [left|right]; reflexivity. Qed.

(* ---- the length/negation octet ---- *)
Definition lor128_ok (c : N) : bool := N.lor c 128 =? 128 + c.
Lemma lor128_tab : forallb lor128_ok (Enum.nrange 128) = true.
Proof. vm_compute. reflexivity. Qed.
Lemma lor128 c : c < 128 -> N.lor c 128 = 128 + c.
Proof.
  intros H. pose proof lor128_tab as T. rewrite forallb_forall in T.
  specialize (T c (Enum.nrange_in 128 c H)). unfold lor128_ok in T. apply N.eqb_eq in T. exact T.
Qed.

(* ---- Encoder::rr_apl_apitem ---- *)
Definition apitem_wire (i : apitem) : bytes :=
  let cnt := addr_significant (a_oct (i_addr i)) in
  u16b (a_fam (i_addr i)) ++ [i_prefix i mod 256] ++ [negbit (i_neg i) + cnt] ++ takeN cnt (a_oct (i_addr i)).

Lemma enc_apitem_eq (i : apitem) (st : est) : addr_wf (i_addr i) ->
  enc_apitem i st = EOk tt {| e_buf := e_buf st ++ apitem_wire i; e_idx := e_idx st; e_names := e_names st |}.
Proof.
  intros Hwf. pose proof (addr_wf_len _ Hwf) as Hlen.
  unfold apitem_wire. cbv zeta.
  set (size := addr_size (i_addr i)) in *.
  set (cnt := addr_significant (a_oct (i_addr i))).
  assert (Hcs : cnt <= size).
  { pose proof (addr_significant_le (a_oct (i_addr i))) as H. fold cnt in H. lia. }
  assert (Hcnt : cnt <= 16).
  { destruct (addr_size_cases (i_addr i)) as [E|E]; fold size in E; lia. }
  set (ad := takeN cnt (a_oct (i_addr i))).
  assert (Had : lenN ad = cnt).
  { unfold ad. rewrite lenN_takeN_, Hlen. lia. }
  unfold enc_apitem, ebind, eu16, eu8, put, buf_len. cbn [e_buf e_idx e_names].
  rewrite rr_address_with_length_count, ENC_APL_MINIMUM_LENGTH_val, emit_count_zero. fold cnt. fold ad.
  unfold put. cbn [e_buf e_idx e_names].
  set (pre := (e_buf st ++ u16b (a_fam (i_addr i))) ++ u8b (i_prefix i)).
  unfold set_address_length_index, ebind, buf_len. cbn [e_buf e_idx e_names].
  assert (Hlen2 : lenN ((pre ++ u8b 0) ++ ad) = lenN pre + 1 + cnt).
  { rewrite !lenN_app_, Had. reflexivity. }
  rewrite Hlen2.
  destruct (lenN pre + 1 + cnt <? lenN pre + 1) eqn:E1; [apply N.ltb_lt in E1; lia|clear E1].
  cbv zeta. replace (lenN pre + 1 + cnt - (lenN pre + 1)) with cnt by lia.
  destruct (cnt <? 256) eqn:E2; [clear E2|apply N.ltb_ge in E2; lia].
  rewrite OP_apl_len_val, APL_NEGATION_MASK_val. cbn [cmp_apply].
  destruct (cnt <? 128) eqn:E3; [clear E3|apply N.ltb_ge in E3; lia].
  unfold set_u8. cbn [e_buf e_idx e_names]. cbv zeta. rewrite Hlen2.
  destruct (lenN pre + 1 - 1 <? lenN pre + 1 + cnt) eqn:E4; [clear E4|apply N.ltb_ge in E4; lia].
  f_equal. f_equal.
  unfold patch.
  assert (Hv : u8b (if i_neg i then N.lor cnt 128 else cnt) = [negbit (i_neg i) + cnt]).
  { unfold u8b, negbit. destruct (i_neg i).
    - rewrite lor128 by lia. rewrite N.mod_small by lia. reflexivity.
    - rewrite N.mod_small by lia. reflexivity. }
  rewrite Hv.
  replace (lenN [negbit (i_neg i) + cnt]) with 1 by reflexivity.
  rewrite <- (app_assoc pre (u8b 0) ad).
  rewrite (takeN_app_exact pre (u8b 0 ++ ad)) by reflexivity.
  rewrite (app_assoc pre (u8b 0) ad).
  rewrite (dropN_app_exact (pre ++ u8b 0) ad) by (rewrite lenN_app_; reflexivity).
  unfold pre, u8b. rewrite <- !app_assoc. reflexivity.
Qed.

(* ---- Encoder::rr_edns_ecs (code 8, option length, family, source, scope, address) ---- *)
Definition ecs_count (e : ecs) : N := emit_count (a_oct (e_addr e)) ((e_src e + 7) / 8).
Definition ecs_wire (e : ecs) : bytes :=
  let cnt := ecs_count e in
  u16b OPT_ECS ++ u16b (4 + cnt) ++ u16b (a_fam (e_addr e)) ++ [e_src e mod 256] ++ [e_scope e mod 256]
  ++ takeN cnt (a_oct (e_addr e)).

Lemma ecs_count_le (e : ecs) : addr_wf (e_addr e) -> e_src e <= 8 * addr_size (e_addr e) ->
  ecs_count e <= addr_size (e_addr e).
Proof.
  intros Hwf Hsrc. rewrite <- (addr_wf_len _ Hwf). apply emit_count_le. rewrite (addr_wf_len _ Hwf). lia.
Qed.

Lemma enc_ecs_eq (e : ecs) (st : est) : addr_wf (e_addr e) -> e_src e <= 8 * addr_size (e_addr e) ->
  enc_ecs e st = EOk tt {| e_buf := e_buf st ++ ecs_wire e; e_idx := e_idx st; e_names := e_names st |}.
Proof.
  intros Hwf Hsrc. pose proof (addr_wf_len _ Hwf) as Hlen.
  pose proof (ecs_count_le e Hwf Hsrc) as Hcs.
  unfold ecs_wire. cbv zeta.
  set (size := addr_size (e_addr e)) in *.
  set (cnt := ecs_count e) in *.
  assert (Hcnt : cnt <= 16).
  { destruct (addr_size_cases (e_addr e)) as [E|E]; fold size in E; lia. }
  set (ad := takeN cnt (a_oct (e_addr e))).
  assert (Had : lenN ad = cnt).
  { unfold ad. rewrite lenN_takeN_, Hlen. lia. }
  unfold enc_ecs, create_length_index, ebind, eu16, eu8, put, buf_len, eret. cbn [e_buf e_idx e_names].
  rewrite rr_address_with_length_count, ecs_minimum_length_eq. fold (ecs_count e). fold cnt. fold ad.
  unfold put. cbn [e_buf e_idx e_names].
  set (pre := e_buf st ++ u16b OPT_ECS).
  set (mid := u16b (a_fam (e_addr e)) ++ u8b (e_src e) ++ u8b (e_scope e) ++ ad).
  assert (Hbuf : ((((pre ++ u16b 0) ++ u16b (a_fam (e_addr e))) ++ u8b (e_src e)) ++ u8b (e_scope e)) ++ ad
                 = pre ++ u16b 0 ++ mid).
  { unfold mid. rewrite <- !app_assoc. reflexivity. }
  rewrite Hbuf.
  assert (Hmid : lenN mid = 4 + cnt).
  { unfold mid. rewrite !lenN_app_, Had. unfold u16b, u8b, lenN. cbn [length]. lia. }
  assert (Hlen2 : lenN (pre ++ u16b 0 ++ mid) = lenN pre + 2 + (4 + cnt)).
  { rewrite !lenN_app_, Hmid. unfold u16b, lenN at 2. cbn [length]. lia. }
  unfold set_length_index, ebind, buf_len. cbn [e_buf e_idx e_names]. rewrite Hlen2.
  destruct (lenN pre + 2 + (4 + cnt) <? lenN pre + 2) eqn:E1; [apply N.ltb_lt in E1; lia|clear E1].
  cbv zeta. replace (lenN pre + 2 + (4 + cnt) - (lenN pre + 2)) with (4 + cnt) by lia.
  rewrite POW16_value.
  destruct (4 + cnt <? 65536) eqn:E2; [clear E2|apply N.ltb_ge in E2; lia].
  unfold set_u16. cbn [e_buf e_idx e_names]. cbv zeta. rewrite Hlen2.
  destruct (lenN pre + 2 - 1 <? lenN pre + 2 + (4 + cnt)) eqn:E4; [clear E4|apply N.ltb_ge in E4; lia].
  f_equal. f_equal.
  unfold patch.
  replace (lenN (u16b (4 + cnt))) with 2 by reflexivity.
  rewrite (takeN_app_exact pre (u16b 0 ++ mid)) by reflexivity.
  rewrite (app_assoc pre (u16b 0) mid).
  rewrite (dropN_app_exact (pre ++ u16b 0) mid)
    by (rewrite lenN_app_; unfold u16b, lenN at 3; cbn [length]; lia).
  unfold pre, mid, u8b. rewrite <- !app_assoc. reflexivity.
Qed.
