(* C16, decoder side: a small "reads" calculus for the window decoder (a parser that consumes
   exactly the octets [w] in front of [r] and returns [a]) and the primitive readers used by
   the SvcParams decoder. *)
From DNS Require Import Model.Dec Proofs.DecBase.
Require Import ZArith ZifyBool ZifyN ZifyNat.
Local Open Scope N_scope.
Ltac Zify.zify_post_hook ::= Z.div_mod_to_equations.

(* window states: the cursor arithmetic is consistent and far from the 2^64 overflow check *)
Definition wst (s : dst) : Prop := lenN (d_rest s) + d_off s = d_len s /\ d_len s < WFMAX.

Definition mkst (rest : bytes) (off len cost : N) : dst :=
  {| d_rest := rest; d_off := off; d_len := len; d_cost := cost |}.

(* the fresh child window of [with_sub] *)
Definition win (b : bytes) (cost : N) : dst := mkst b 0 (lenN b) cost.

Lemma win_wst (b : bytes) (c : N) : lenN b < WFMAX -> wst (win b c).
Proof. intros H. unfold wst, win, mkst. cbn [d_rest d_off d_len]. split; [lia|exact H]. Qed.

Lemma mkst_wst (r : bytes) (off len c : N) : lenN r + off = len -> len < WFMAX -> wst (mkst r off len c).
Proof. intros H1 H2. unfold wst, mkst. cbn [d_rest d_off d_len]. split; assumption. Qed.

Lemma bind_ok {A B} (m : DM A) (f : A -> DM B) (s : dst) (a : A) (s' : dst) :
  m s = DOk a s' -> bind m f s = f a s'.
Proof. unfold bind. intros ->. reflexivity. Qed.
Lemma bind_err {A B} (m : DM A) (f : A -> DM B) (s : dst) (e : err) (c : N) :
  m s = DErr e c -> bind m f s = DErr e c.
Proof. unfold bind. intros ->. reflexivity. Qed.

(* [m] consumes exactly [w] in front of [r] and returns [a] (the cost counter is not tracked) *)
Definition reads {A} (m : DM A) (w r : bytes) (a : A) : Prop :=
  forall s : dst, wst s -> d_rest s = w ++ r ->
    exists c : N, m s = DOk a (mkst r (d_off s + lenN w) (d_len s) c).

Lemma reads_ret {A} (a : A) (r : bytes) : reads (ret a) [] r a.
Proof.
  intros s W Hr. exists (d_cost s). unfold ret, mkst. f_equal.
  destruct s as [rest off len cost]. cbn [d_rest d_off d_len d_cost] in *. subst rest.
  f_equal. unfold lenN. cbn [length]. lia.
Qed.

Lemma reads_after (s : dst) (w r : bytes) (c : N) :
  wst s -> d_rest s = w ++ r -> wst (mkst r (d_off s + lenN w) (d_len s) c).
Proof.
  intros [W1 W2] Hr. apply mkst_wst; [|exact W2].
  rewrite Hr, lenN_app in W1. lia.
Qed.

Lemma reads_bind {A B} (m : DM A) (f : A -> DM B) (w1 w2 r : bytes) (a : A) (b : B) :
  reads m w1 (w2 ++ r) a -> reads (f a) w2 r b -> reads (bind m f) (w1 ++ w2) r b.
Proof.
  intros H1 H2 s W Hr. rewrite <- app_assoc in Hr.
  destruct (H1 s W Hr) as [c1 E1]. rewrite (bind_ok _ _ _ _ _ E1).
  destruct (H2 _ (reads_after s w1 (w2 ++ r) c1 W Hr) eq_refl) as [c2 E2].
  exists c2. rewrite E2. unfold mkst. cbn [d_off d_len]. rewrite lenN_app.
  f_equal. f_equal. lia.
Qed.

(* a reader that consumes nothing more: continue with a pure function of the result *)
Lemma reads_map {A B} (m : DM A) (g : A -> B) (w r : bytes) (a : A) :
  reads m w r a -> reads (bind m (fun x => ret (g x))) w r (g a).
Proof.
  intros H. rewrite <- (app_nil_r w). eapply reads_bind; [|apply reads_ret].
  cbn [app]. exact H.
Qed.

Lemma reads_value {A} (m : DM A) (w r : bytes) (a a' : A) : a = a' -> reads m w r a -> reads m w r a'.
Proof. intros ->. auto. Qed.

(* ---- read ---- *)
Lemma takeN_app_exact {A} (w r : list A) : takeN (lenN w) (w ++ r) = w.
Proof.
  unfold takeN, lenN. rewrite Nat2N.id, firstn_app, firstn_all, Nat.sub_diag. cbn [firstn]. apply app_nil_r.
Qed.
Lemma dropN_app_exact {A} (w r : list A) : dropN (lenN w) (w ++ r) = r.
Proof.
  unfold dropN, lenN. rewrite Nat2N.id, skipn_app, skipn_all, Nat.sub_diag. reflexivity.
Qed.

Lemma read_enough (n : N) (s : dst) : wst s -> n <= lenN (d_rest s) ->
  read n s = DOk (takeN n (d_rest s)) (adv n s).
Proof.
  intros [W1 W2] Hn. unfold read. cbv zeta.
  destruct (POW64 <=? d_off s + n) eqn:E; [unfold POW64, WFMAX in *; lia|].
  rewrite OP_read_val. cbn [cmp_apply].
  destruct (d_off s + n <=? d_len s) eqn:E2; [reflexivity|lia].
Qed.

Lemma read_short (n : N) (s : dst) : wst s -> lenN (d_rest s) < n -> n < WFMAX ->
  read n s = DErr (ENotEnoughBytes, [d_len s; d_off s + n]) (d_cost s).
Proof.
  intros [W1 W2] Hn Hw. unfold read. cbv zeta.
  destruct (POW64 <=? d_off s + n) eqn:E; [unfold POW64, WFMAX in *; lia|].
  rewrite OP_read_val. cbn [cmp_apply].
  destruct (d_off s + n <=? d_len s) eqn:E2; [lia|reflexivity].
Qed.

Lemma reads_read (w r : bytes) : reads (read (lenN w)) w r w.
Proof.
  intros s W Hr. exists (d_cost s + lenN w).
  rewrite read_enough; [|exact W|rewrite Hr, lenN_app; lia].
  rewrite Hr, takeN_app_exact. unfold adv, mkst. rewrite Hr, dropN_app_exact. reflexivity.
Qed.

(* ---- fixed-width integers ---- *)
Lemma reads_uint (k : N) (w r : bytes) : lenN w = k -> reads (uint k) w r (be w).
Proof.
  intros <-. unfold uint. rewrite <- (app_nil_r w) at 2.
  eapply reads_bind; [apply reads_read|]. cbn [app].
  rewrite N.eqb_refl. apply reads_ret.
Qed.

Lemma be2 (x y : N) : be [x; y] = x * 256 + y.
Proof. unfold be. cbn [be_join]. lia. Qed.
Lemma be4 (a b c d : N) : be [a; b; c; d] = ((a * 256 + b) * 256 + c) * 256 + d.
Proof. unfold be. cbn [be_join]. lia. Qed.

Lemma be_u16b (v : N) : v < 65536 -> be (u16b v) = v.
Proof. intros H. unfold u16b. rewrite be2. lia. Qed.
Lemma be_u32b (v : N) : v < 4294967296 -> be (u32b v) = v.
Proof. intros H. unfold u32b. rewrite be4. lia. Qed.
Lemma u16b_be2 (x y : N) : x < 256 -> y < 256 -> u16b (be [x; y]) = [x; y].
Proof. intros Hx Hy. rewrite be2. unfold u16b. f_equal; [lia|]. f_equal. lia. Qed.

Lemma reads_u16_raw (x y : N) (r : bytes) : reads u16 [x; y] r (be [x; y]).
Proof. apply reads_uint. reflexivity. Qed.
Lemma reads_u16 (v : N) (r : bytes) : v < 65536 -> reads u16 (u16b v) r v.
Proof. intros H. eapply reads_value; [apply (be_u16b v H)|]. apply reads_uint. reflexivity. Qed.
Lemma reads_u32 (v : N) (r : bytes) : v < 4294967296 -> reads ipv4_addr (u32b v) r v.
Proof. intros H. eapply reads_value; [apply (be_u32b v H)|]. apply reads_uint. reflexivity. Qed.

(* ---- <character-string> ---- *)
Lemma reads_u8 (x : N) (r : bytes) : reads u8 [x] r x.
Proof.
  unfold u8. rewrite <- (app_nil_r [x]) at 1.
  eapply reads_bind; [apply (reads_read [x])|]. cbn [app]. apply reads_ret.
Qed.

Lemma reads_string (b r : bytes) : utf8_valid b = true -> lenN b <= 255 ->
  reads string_ (lenN b :: b) r b.
Proof.
  intros Hu Hl. unfold string_. change (lenN b :: b) with ([lenN b] ++ b).
  eapply reads_bind; [apply reads_u8|].
  rewrite <- (app_nil_r b) at 2. eapply reads_bind; [apply reads_read|].
  cbn [app]. rewrite Hu. apply reads_ret.
Qed.

(* ---- IPv6 address: eight 16-bit groups reassembled ---- *)
Lemma reads_ipv6 (a r : bytes) : lenN a = 16 -> bytes_ok a -> reads ipv6_addr a r a.
Proof.
  intros Hl Hb.
  assert (length a = 16%nat) as HL by (unfold lenN in Hl; lia). clear Hl.
  do 16 (destruct a as [|? a]; [cbn [length] in HL; lia|]).
  destruct a; [|cbn [length] in HL; lia]. clear HL.
  unfold bytes_ok in Hb.
  repeat match goal with H : Forall _ (_ :: _) |- _ => inversion H; subst; clear H end.
  unfold is_byte in *.
  match goal with |- reads _ [?x0;?x1;?x2;?x3;?x4;?x5;?x6;?x7;?x8;?x9;?x10;?x11;?x12;?x13;?x14;?x15] _ _ =>
    change [x0;x1;x2;x3;x4;x5;x6;x7;x8;x9;x10;x11;x12;x13;x14;x15]
      with ([x0;x1] ++ [x2;x3] ++ [x4;x5] ++ [x6;x7] ++ [x8;x9] ++ [x10;x11] ++ [x12;x13] ++ [x14;x15] ++ []) at 1
  end.
  unfold ipv6_addr.
  do 8 (eapply reads_bind; [apply reads_u16_raw|]).
  rewrite !u16b_be2 by assumption. cbn [app]. apply reads_ret.
Qed.

(* ---- the rest of the window ---- *)
Lemma reads_vec (w : bytes) : reads vec w [] w.
Proof.
  intros s [W1 W2] Hr. rewrite app_nil_r in Hr. unfold vec.
  assert (cmp_apply OP_bytes (d_off s) (d_len s) = true) as ->.
  { change OP_bytes with CLe. cbn [cmp_apply]. lia. }
  eexists. rewrite Hr. unfold mkst. f_equal. f_equal. rewrite Hr in W1. lia.
Qed.

(* ---- is_finished / finished / loop_fuel ---- *)
Lemma is_finished_more (s : dst) : wst s -> d_rest s <> [] -> is_finished s = DOk false s.
Proof.
  intros [W1 W2] Hne. unfold is_finished.
  assert (0 < lenN (d_rest s)).
  { destruct (d_rest s); [congruence|]. rewrite lenN_cons. lia. }
  destruct (d_off s <? d_len s) eqn:E; [reflexivity|lia].
Qed.

Lemma is_finished_done (s : dst) : wst s -> d_rest s = [] -> is_finished s = DOk true s.
Proof.
  intros [W1 W2] He. unfold is_finished. rewrite He in W1. change (lenN (@nil N)) with 0 in W1.
  destruct (d_off s <? d_len s) eqn:E; [lia|].
  destruct (d_off s =? d_len s) eqn:E2; [reflexivity|lia].
Qed.

Lemma finished_done (s : dst) : wst s -> d_rest s = [] -> finished s = DOk tt s.
Proof.
  intros W He. unfold finished. rewrite (bind_ok _ _ _ _ _ (is_finished_done s W He)). reflexivity.
Qed.

Lemma finished_more (s : dst) : wst s -> d_rest s <> [] ->
  finished s = DErr (ETooManyBytes, [d_len s; d_off s]) (d_cost s).
Proof.
  intros W Hne. unfold finished. rewrite (bind_ok _ _ _ _ _ (is_finished_more s W Hne)). reflexivity.
Qed.

Lemma loop_fuel_eq (s : dst) : wst s -> loop_fuel s = DOk (S (length (d_rest s))) s.
Proof.
  intros [W1 W2]. unfold loop_fuel. f_equal. f_equal. unfold lenN in W1. lia.
Qed.

(* ---- while !is_finished { item } ---- *)
Lemma many_S {A} (f : nat) (item : DM A) (acc : list A) :
  many (S f) item acc = (fin <- is_finished ;; if fin then ret (rev acc) else x <- item ;; many f item (x :: acc)).
Proof. reflexivity. Qed.

Lemma reads_many {A} (item : DM A) (enc : A -> bytes) (ok : A -> Prop) :
  (forall (x : A) (r : bytes), ok x -> reads item (enc x) r x) ->
  (forall x : A, ok x -> enc x <> []) ->
  forall (xs : list A) (fuel : nat) (acc : list A),
    Forall ok xs -> (length xs < fuel)%nat ->
    reads (many fuel item acc) (concat (map enc xs)) [] (rev acc ++ xs).
Proof.
  intros Hitem Hne xs. induction xs as [|x xs IH]; intros fuel acc Hok Hf s W Hr.
  - destruct fuel as [|f]; [cbn [length] in Hf; lia|]. rewrite many_S.
    cbn [map concat app] in Hr.
    rewrite (bind_ok _ _ _ _ _ (is_finished_done s W Hr)).
    destruct (reads_ret (rev acc) [] s W Hr) as [c E]. exists c.
    rewrite app_nil_r. exact E.
  - destruct fuel as [|f]; [cbn [length] in Hf; lia|]. rewrite many_S.
    inversion Hok as [|? ? Hx Hxs]; subst.
    cbn [map concat] in *.
    assert (d_rest s <> []) as Hnn.
    { rewrite Hr. intro Hc. apply app_eq_nil in Hc. destruct Hc as [Hc _].
      apply app_eq_nil in Hc. destruct Hc as [Hc _]. exact (Hne x Hx Hc). }
    rewrite (bind_ok _ _ _ _ _ (is_finished_more s W Hnn)).
    assert (reads (x0 <- item ;; many f item (x0 :: acc)) (enc x ++ concat (map enc xs)) [] (rev acc ++ x :: xs)) as HR.
    { eapply reads_bind; [apply Hitem; exact Hx|].
      eapply reads_value; [|apply IH; [exact Hxs|cbn [length] in Hf; lia]].
      cbn [rev]. rewrite <- app_assoc. reflexivity. }
    exact (HR s W Hr).
Qed.

Lemma concat_length_ge {A} (enc : A -> bytes) (xs : list A) :
  (forall x, In x xs -> enc x <> []) -> (length xs <= length (concat (map enc xs)))%nat.
Proof.
  induction xs as [|x xs IH]; intros H; cbn [map concat length]; [lia|].
  rewrite app_length.
  assert (enc x <> []) as Hx by (apply H; left; reflexivity).
  assert (length xs <= length (concat (map enc xs)))%nat by (apply IH; intros y Hy; apply H; right; exact Hy).
  destruct (enc x); [congruence|]. cbn [length]. lia.
Qed.

(* the shape `fuel <- loop_fuel ;; l <- many fuel item [] ;; ret (C l)` of the list-valued kinds *)
Lemma reads_loop {A B} (item : DM A) (enc : A -> bytes) (ok : A -> Prop) (C : list A -> B) (xs : list A) :
  (forall (x : A) (r : bytes), ok x -> reads item (enc x) r x) ->
  (forall x : A, ok x -> enc x <> []) ->
  Forall ok xs ->
  reads (fuel <- loop_fuel ;; l <- many fuel item [] ;; ret (C l)) (concat (map enc xs)) [] (C xs).
Proof.
  intros Hitem Hne Hok s W Hr.
  rewrite (bind_ok _ _ _ _ _ (loop_fuel_eq s W)).
  assert (reads (l <- many (S (length (d_rest s))) item [] ;; ret (C l)) (concat (map enc xs)) [] (C xs)) as HR.
  { apply (reads_map _ C). eapply reads_value; [|apply (reads_many item enc ok Hitem Hne xs _ [] Hok)].
    - reflexivity.
    - rewrite Hr, app_nil_r.
      assert (length xs <= length (concat (map enc xs)))%nat; [|lia].
      apply concat_length_ge. intros x Hx. apply Hne. rewrite Forall_forall in Hok. apply Hok. exact Hx. }
  exact (HR s W Hr).
Qed.

(* ---- with_sub ---- *)
Definition sub_run {A} (m : DM A) : DM A := a <- m ;; _ <- finished ;; ret a.

Lemma with_sub_eq {A} (n : N) (m : DM A) (s : dst) :
  with_sub n m s =
  match read n s with
  | DOk b s' =>
    match sub_run m (win b (d_cost s')) with
    | DOk a c => DOk a (mkst (d_rest s') (d_off s') (d_len s') (d_cost c))
    | DErr e c => DErr e c
    | DPanic x => DPanic x
    | DFuel => DFuel
    end
  | DErr e c => DErr e c
  | DPanic x => DPanic x
  | DFuel => DFuel
  end.
Proof. reflexivity. Qed.

Lemma sub_run_reads {A} (m : DM A) (w : bytes) (a : A) (c : N) :
  lenN w < WFMAX -> reads m w [] a -> exists c', sub_run m (win w c) = DOk a (mkst [] (lenN w) (lenN w) c').
Proof.
  intros Hl H. destruct (H (win w c) (win_wst w c Hl)) as [c' E].
  { unfold win, mkst. cbn [d_rest]. rewrite app_nil_r. reflexivity. }
  exists c'. unfold sub_run. rewrite (bind_ok _ _ _ _ _ E).
  unfold win, mkst in *. cbn [d_off d_len] in *. rewrite N.add_0_l.
  rewrite (bind_ok _ _ _ _ _ (finished_done _ (mkst_wst [] (lenN w) (lenN w) c' ltac:(unfold lenN; cbn [length]; lia) Hl) eq_refl)).
  reflexivity.
Qed.

Lemma reads_with_sub {A} (m : DM A) (w r : bytes) (a : A) :
  reads m w [] a -> reads (with_sub (lenN w) m) w r a.
Proof.
  intros H s W Hr. rewrite with_sub_eq.
  destruct (reads_read w r s W Hr) as [c E]. rewrite E.
  assert (lenN w < WFMAX) as Hl.
  { destruct W as [W1 W2]. rewrite Hr, lenN_app in W1. lia. }
  destruct (sub_run_reads m w a (d_cost (mkst r (d_off s + lenN w) (d_len s) c)) Hl H) as [c' E'].
  rewrite E'. exists c'. reflexivity.
Qed.

(* errors of the child window surface unchanged *)
Lemma with_sub_err {A} (n : N) (m : DM A) (s s' : dst) (b : bytes) (e : err) (c : N) :
  read n s = DOk b s' -> sub_run m (win b (d_cost s')) = DErr e c -> with_sub n m s = DErr e c.
Proof. intros H1 H2. rewrite with_sub_eq, H1, H2. reflexivity. Qed.
