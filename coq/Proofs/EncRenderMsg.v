(* C05 (renderings) — questions, the header, the sections and the message, parametric in the class of
   records whose rendering lemma is available (and in what the encoder normalises in a record). *)
From Coq Require Import ZArith ZifyBool ZifyN ZifyNat.
From DNS Require Import Model.Dec Model.Enc Spec.Names Spec.Iana Spec.Wire Spec.Render
  Proofs.ListN Proofs.NameLayer Proofs.NameLoop Proofs.NameMain Proofs.NameSlots
  Proofs.EncTotal Proofs.EncLimits Proofs.EncTyped Proofs.OptBase
  Proofs.RtBase Proofs.RtPrim Proofs.RtFields Proofs.RtRecord Proofs.RtMsg Proofs.C05
  Proofs.EncRenderBase Proofs.EncRenderFields.
Local Open Scope N_scope.
Ltac Zify.zify_post_hook ::= Z.div_mod_to_equations.

(* ================================================================================================ *)
(* Questions                                                                                         *)
(* ================================================================================================ *)
Theorem ren_question (q : Values.question) : question_wf q = true ->
  renP (enc_question q) (fun pre w => renders_question pre q w).
Proof.
  intro H. destruct (question_wf_inv q H) as (Hn & Ht & Hc). unfold enc_question.
  apply (renP_bind _ _ (fun pre w => renders_name pre (q_name q) w)
           (fun _ w => w = be16 (q_type q) ++ be16 (q_class q))).
  - apply encP_name_wf, Hn.
  - apply renP_name, name_wf_ok, Hn.
  - apply (renP_emits _ (u16b (q_type q) ++ u16b (q_class q))).
    + apply emits_seq; apply emits_eu16.
    + intros _. rewrite !u16b_be16; [reflexivity| |].
      * apply qclass_table_bound, Hc.
      * apply qtype_table_bound, Ht.
  - intros pre w1 w2 Hw1 ->. apply RQ_question. exact Hw1.
Qed.

(* ================================================================================================ *)
(* Header flags: all well-formed flag records by computation                                         *)
(* ================================================================================================ *)
Definition flag_octets_check (f : flags) : bool :=
  list_eqb N.eqb (u8b (flags_octet f 0) ++ u8b (flags_octet f 1)) (be16 (flag_word f)).
Definition flag_octets_ok : bool :=
  forallb (fun qr => forallb (fun aa => forallb (fun tc => forallb (fun rd =>
  forallb (fun ra => forallb (fun ad => forallb (fun cd =>
  forallb (fun op => forallb (fun rc =>
    flag_octets_check {| f_qr := qr; f_opcode := op; f_aa := aa; f_tc := tc; f_rd := rd;
                         f_ra := ra; f_ad := ad; f_cd := cd; f_rcode := rc |})
  rcodes) opcodes) bools) bools) bools) bools) bools) bools) bools.
Lemma flag_octets_all : flag_octets_ok = true.
Proof. vm_compute. reflexivity. Qed.

Lemma list_eqb_N (a : bytes) : forall b : bytes, list_eqb N.eqb a b = true -> a = b.
Proof.
  induction a as [|x a IH]; intros [|y b] H; cbn [list_eqb] in H; try discriminate; [reflexivity|].
  apply andb_true_iff in H. destruct H as [H1 H2]. apply N.eqb_eq in H1. subst y. f_equal. apply IH, H2.
Qed.

Lemma flag_octets (f : flags) : flags_wf f = true ->
  u8b (flags_octet f 0) ++ u8b (flags_octet f 1) = be16 (flag_word f).
Proof.
  unfold flags_wf. intros H. apply andb_true_iff in H. destruct H as [H H3].
  apply andb_true_iff in H. destruct H as [H1 H2].
  pose proof flag_octets_all as A. unfold flag_octets_ok in A.
  rewrite forallb_forall in A. specialize (A (f_qr f) (in_bools _)).
  rewrite forallb_forall in A. specialize (A (f_aa f) (in_bools _)).
  rewrite forallb_forall in A. specialize (A (f_tc f) (in_bools _)).
  rewrite forallb_forall in A. specialize (A (f_rd f) (in_bools _)).
  rewrite forallb_forall in A. specialize (A (f_ra f) (in_bools _)).
  rewrite forallb_forall in A. specialize (A (f_ad f) (in_bools _)).
  rewrite forallb_forall in A. specialize (A (f_cd f) (in_bools _)).
  rewrite forallb_forall in A. specialize (A (f_opcode f) (in_table_In _ _ H1)).
  rewrite forallb_forall in A.
  assert (In (f_rcode f) rcodes) as Hr.
  { unfold rcodes. apply filter_In. split; [apply in_table_In; exact H2|exact H3]. }
  specialize (A (f_rcode f) Hr).
  assert (flag_octets_check f = true) as C by (destruct f; exact A).
  apply list_eqb_N. exact C.
Qed.

Lemma hdr_header (m : dns) :
  m_id m < 65536 -> flags_wf (m_flags m) = true ->
  lenN (m_qd m) <= 65535 -> lenN (m_an m) <= 65535 -> lenN (m_ns m) <= 65535 -> lenN (m_ar m) <= 65535 ->
  hdr m = header m.
Proof.
  intros Hid Hf Hq Ha Hn Hr. unfold hdr, header.
  rewrite !u16b_be16 by lia. rewrite <- (flag_octets _ Hf), <- !app_assoc. reflexivity.
Qed.

(* ================================================================================================ *)
(* Sequences                                                                                         *)
(* ================================================================================================ *)
Lemma renders_seq_map {A B} (R : bytes -> B -> bytes -> Prop) (g : A -> B) (l : list A) :
  forall (pre w : bytes), renders_seq (fun pre x w => R pre (g x) w) pre l w -> renders_seq R pre (map g l) w.
Proof.
  induction l as [|x l IH]; intros pre w H; inversion H; subst; cbn [map].
  - apply RS_nil.
  - apply RS_cons; [assumption|]. apply IH. assumption.
Qed.

Lemma ren_final : renP (_ <-- get_offset ;; eret tt) (fun _ w => w = []).
Proof.
  apply (renP_inv _ []); [|reflexivity].
  intros st st' E. rewrite app_buf_nil. apply (final_inv st st' E).
Qed.

(* ================================================================================================ *)
(* The message                                                                                       *)
(* ================================================================================================ *)
Section Message.
Variable rr_ok : rr -> bool.
Variable nrm : rr -> rr.
Hypothesis rr_ok_enc : forall r, rr_ok r = true -> encP (enc_rr r).
Hypothesis rr_ok_ren : forall r, rr_ok r = true -> renP (enc_rr r) (fun pre w => renders_rr pre (nrm r) w).

Definition norm_gen (m : dns) : dns :=
  {| m_id := m_id m; m_flags := m_flags m; m_qd := m_qd m;
     m_an := map nrm (m_an m); m_ns := map nrm (m_ns m); m_ar := map nrm (m_ar m) |}.

Lemma ren_section (l : list rr) : forallb rr_ok l = true ->
  encP (emap enc_rr l) /\ renP (emap enc_rr l) (fun pre w => renders_seq renders_rr pre (map nrm l) w).
Proof.
  intro H. rewrite forallb_forall in H. split.
  - apply encP_emap. intros x Hx. apply rr_ok_enc, H, Hx.
  - eapply renP_weaken; [|apply (renP_emap enc_rr (fun pre x w => renders_rr pre (nrm x) w) l)].
    + intros pre w Hw. apply renders_seq_map. exact Hw.
    + intros x Hx. apply rr_ok_enc, H, Hx.
    + intros x Hx. apply rr_ok_ren, H, Hx.
Qed.

Lemma ren_questions (l : list Values.question) : forallb question_wf l = true ->
  encP (emap enc_question l) /\ renP (emap enc_question l) (fun pre w => renders_seq renders_question pre l w).
Proof.
  intro H. rewrite forallb_forall in H. split.
  - apply encP_emap. intros x Hx. apply (rt_question false), H, Hx.
  - apply (renP_emap enc_question renders_question l).
    + intros x Hx. apply (rt_question false), H, Hx.
    + intros x Hx. apply ren_question, H, Hx.
Qed.

Definition body_R (m : dns) (pre w : bytes) : Prop :=
  exists wq wa wn wr : bytes, w = wq ++ wa ++ wn ++ wr /\
    renders_seq renders_question pre (m_qd m) wq /\
    renders_seq renders_rr (pre ++ wq) (map nrm (m_an m)) wa /\
    renders_seq renders_rr (pre ++ wq ++ wa) (map nrm (m_ns m)) wn /\
    renders_seq renders_rr (pre ++ wq ++ wa ++ wn) (map nrm (m_ar m)) wr.

Lemma ren_dns_body (m : dns) : dns_wf_gen rr_ok m = true -> renP (enc_dns_body m) (body_R m).
Proof.
  intros H. destruct (dns_wf_gen_inv rr_ok m H) as (_ & _ & Hq & Ha & Hn & Hr & _).
  destruct (ren_questions _ Hq) as [Pq Dq]. destruct (ren_section _ Ha) as [Pa Da].
  destruct (ren_section _ Hn) as [Pn Dn]. destruct (ren_section _ Hr) as [Pr Dr].
  unfold enc_dns_body.
  apply (renP_bind _ _ _
           (fun pre w => exists wa wn wr : bytes, w = wa ++ wn ++ wr /\
              renders_seq renders_rr pre (map nrm (m_an m)) wa /\
              renders_seq renders_rr (pre ++ wa) (map nrm (m_ns m)) wn /\
              renders_seq renders_rr (pre ++ wa ++ wn) (map nrm (m_ar m)) wr) _ Pq Dq).
  - apply (renP_bind _ _ _
             (fun pre w => exists wn wr : bytes, w = wn ++ wr /\
                renders_seq renders_rr pre (map nrm (m_ns m)) wn /\
                renders_seq renders_rr (pre ++ wn) (map nrm (m_ar m)) wr) _ Pa Da).
    + apply (renP_bind _ _ _
               (fun pre w => renders_seq renders_rr pre (map nrm (m_ar m)) w) _ Pn Dn).
      * apply (renP_bind _ _ _ (fun _ w => w = []) _ Pr Dr ren_final).
        intros pre w1 w2 Hw1 ->. rewrite app_nil_r. exact Hw1.
      * intros pre w1 w2 Hw1 Hw2. exists w1, w2. split; [reflexivity|]. split; assumption.
    + intros pre w1 w2 Hw1 (wn & wr & -> & H1 & H2). exists w1, wn, wr.
      split; [reflexivity|]. split; [exact Hw1|]. split; [exact H1|]. rewrite <- app_assoc in H2. exact H2.
  - intros pre w1 w2 Hw1 (wa & wn & wr & -> & H1 & H2 & H3). exists w1, wa, wn, wr.
    split; [reflexivity|]. split; [exact Hw1|]. split; [exact H1|].
    rewrite <- !app_assoc in *. split; assumption.
Qed.

Theorem output_renders_gen (m : dns) (b : bytes) :
  dns_wf_gen rr_ok m = true -> enc_Dns m = Ok b -> renders_dns (norm_gen m) b.
Proof.
  intros Hwf Henc. destruct (dns_wf_gen_inv rr_ok m Hwf) as (Hid & Hfl & _ & _ & _ & _ & Lq & La & Ln & Lr).
  unfold enc_Dns, erun in Henc. destruct (enc_dns m e_init) as [[] stF|e|x|] eqn:E; try discriminate.
  injection Henc as Hb. rewrite enc_dns_unfold in E. rewrite POW16_val in E.
  destruct (lenN (m_qd m) <? 65536); [|discriminate]. destruct (lenN (m_an m) <? 65536); [|discriminate].
  destruct (lenN (m_ns m) <? 65536); [|discriminate]. destruct (lenN (m_ar m) <? 65536); [|discriminate].
  destruct (put_preserves e_init [] (hdr m) InvM_init) as (s0 & Hp & _ & HI0).
  assert (s0 = sput e_init (hdr m)) as -> by (rewrite EncLimits.put_eq in Hp; congruence).
  destruct (ren_dns_body m Hwf _ _ _ HI0 E) as (w & Hbuf & Hw).
  rewrite e_buf_sput in Hbuf, Hw. cbn [e_init e_buf app] in Hbuf, Hw.
  destruct (Hw (hdr m) eq_refl (agree_refl _ _)) as (wq & wa & wn & wr & -> & H1 & H2 & H3 & H4).
  assert (header (norm_gen m) = hdr m) as Eh.
  { rewrite (hdr_header m Hid Hfl Lq La Ln Lr). unfold header, norm_gen. cbn [m_id m_flags m_qd m_an m_ns m_ar].
    unfold lenN. rewrite !map_length. reflexivity. }
  rewrite <- Hb, Hbuf, <- Eh. rewrite <- Eh in H1, H2, H3, H4.
  apply (RM_message (norm_gen m) wq wa wn wr); assumption.
Qed.
End Message.

(* ---- messages of plain records: nothing is normalised ---- *)
Lemma norm_gen_id (m : dns) : norm_gen (fun r => r) m = m.
Proof. unfold norm_gen. rewrite !map_id. destruct m; reflexivity. Qed.

Theorem output_renders_plain (m : dns) (b : bytes) :
  dns_wf_plain m = true -> enc_Dns m = Ok b -> renders_dns m b.
Proof.
  intros Hwf Henc. rewrite <- (norm_gen_id m).
  apply (output_renders_gen plain_wf (fun r => r)); [| |exact Hwf|exact Henc].
  - intros r Hr. exact (proj1 (rt_rr_plain false r Hr)).
  - intros r Hr. apply ren_rr_plain, Hr.
Qed.
