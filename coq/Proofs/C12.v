(* C12 — validated value types can never hold an invalid value.
   Semantic invariants (written without reference to the check functions), the public API of each
   validated type as a state machine over the model functions of Model/Values.v, and the proofs that
   every reachable state satisfies the invariant and that a failing call leaves the state unchanged. *)
From DNS Require Import Model.Values Model.Dec Proofs.Enum.
Require Import ZifyBool ZifyN.
Local Open Scope N_scope.

(* ================================================================================================ *)
(* 1. Semantic invariants                                                                            *)
(* ================================================================================================ *)

(* bit [i] of an address, counted from the most significant bit of octet 0 *)
Definition addr_bit (octets : bytes) (i : N) : bool :=
  N.testbit (nth (N.to_nat (i / 8)) octets 0) (7 - i mod 8).

(* a prefix length fits an address of [bits] bits: within the size, and no address bit beyond it *)
Definition prefix_ok_bits (bits : N) (octets : bytes) (p : N) : Prop :=
  p <= bits /\ forall i, p <= i < bits -> addr_bit octets i = false.

(* a Rust [Address]: Ipv4 (family 1, 4 octets) or Ipv6 (family 2, 16 octets), octets are u8 *)
Definition addr_wf (a : addr) : Prop :=
  ((a_fam a = 1 /\ lenN (a_oct a) = 4) \/ (a_fam a = 2 /\ lenN (a_oct a) = 16)) /\
  Forall (fun o => o < 256) (a_oct a).

Definition addr_size (a : addr) : N := if a_fam a =? 1 then 4 else 16.

Definition prefix_ok (a : addr) (p : N) : Prop :=
  p <= 8 * addr_size a /\ forall i, p <= i < 8 * addr_size a -> addr_bit (a_oct a) i = false.

Definition ecs_inv (e : ecs) : Prop :=
  addr_wf (e_addr e) /\ prefix_ok (e_addr e) (N.max (e_src e) (e_scope e)).

Definition apitem_inv (i : apitem) : Prop :=
  addr_wf (i_addr i) /\ prefix_ok (i_addr i) (i_prefix i).

Definition cookie_inv (c : cookie) : Prop :=
  c_server c = None \/ exists s, c_server c = Some s /\ 8 <= lenN s <= 32.

Definition label_inv (l : label) : Prop := 1 <= lenN l <= 63.

Definition name_inv (n : name) : Prop := Forall label_inv n /\ wire_len n <= 255.

Definition lower_or_digit (b : N) : Prop := (97 <= b <= 122) \/ (48 <= b <= 57).
Definition digit (b : N) : Prop := 48 <= b <= 57.
Definition hexdigit (b : N) : Prop := (48 <= b <= 57) \/ (65 <= b <= 70) \/ (97 <= b <= 102).

Definition tag_inv (t : bytes) : Prop := t <> [] /\ Forall lower_or_digit t.
Definition digits_inv (t : bytes) : Prop := Forall digit t.
Definition sa_inv (t : bytes) : Prop := Forall hexdigit t.
Definition nonempty_inv {A} (l : list A) : Prop := l <> [].

(* a state that may not have been constructed yet *)
Definition opt_inv {A} (P : A -> Prop) (s : option A) : Prop :=
  match s with None => True | Some x => P x end.

(* ================================================================================================ *)
(* 2. Histories: generic machinery                                                                   *)
(* ================================================================================================ *)

Section History.
  Context {S O : Type}.
  Variable step : S -> O -> S * res unit.
  Variable Inv : S -> Prop.
  Variable opwf : O -> Prop.

  Definition run (ops : list O) (s : S) : S := fold_left (fun s o => fst (step s o)) ops s.

  Hypothesis step_inv : forall s o, opwf o -> Inv s -> Inv (fst (step s o)).

  Lemma run_inv : forall ops s, Forall opwf ops -> Inv s -> Inv (run ops s).
  Proof.
    unfold run. induction ops as [|o ops IH]; intros s Hwf Hs; cbn [fold_left]; [exact Hs|].
    inversion Hwf as [|o' ops' Ho Hops]; subst. apply IH; [exact Hops|]. apply step_inv; assumption.
  Qed.
End History.

(* ================================================================================================ *)
(* 3. The prefix check is the bit-level property                                                     *)
(* ================================================================================================ *)

(* -- finite facts about one octet, checked exhaustively -- *)
Definition octet_mask_ok (o r : N) : bool :=
  Bool.eqb (N.land o (N.shiftr 255 r) =? 0)
           (forallb (fun j => (j <? r) || negb (N.testbit o (7 - j))) (nrange 8)).

Lemma octet_mask_all :
  forallb (fun o => forallb (octet_mask_ok o) (nrange 8)) (nrange 256) = true.
Proof. vm_compute. reflexivity. Qed.

Lemma octet_mask_spec o r : o < 256 -> r < 8 ->
  (N.land o (N.shiftr 255 r) = 0 <-> forall j, r <= j < 8 -> N.testbit o (7 - j) = false).
Proof.
  intros Ho Hr.
  pose proof octet_mask_all as H. rewrite forallb_forall in H.
  specialize (H o (nrange_in 256 o Ho)). rewrite forallb_forall in H.
  specialize (H r (nrange_in 8 r Hr)). unfold octet_mask_ok in H.
  apply Bool.eqb_prop in H. rewrite <- N.eqb_eq, H, forallb_forall. split.
  - intros Hall j [Hj1 Hj2]. specialize (Hall j (nrange_in 8 j Hj2)).
    apply orb_true_iff in Hall. destruct Hall as [Hlt|Hb].
    + apply N.ltb_lt in Hlt. lia.
    + apply negb_true_iff in Hb. exact Hb.
  - intros Hall j Hin. destruct (j <? r) eqn:E; [reflexivity|]. apply N.ltb_ge in E. cbn [orb].
    assert (j < 8) as Hj8.
    { destruct (j <? 8) eqn:E8; [apply N.ltb_lt in E8; exact E8|]. exfalso.
      apply N.ltb_ge in E8. clear - Hin E8.
      assert (forall f s x, In x (upto f s) -> x < s + N.of_nat f) as Hup.
      { induction f as [|f IH]; intros s x Hx; cbn [upto] in Hx; [destruct Hx|].
        destruct Hx as [<-|Hx]; [lia|]. apply IH in Hx. lia. }
      unfold nrange in Hin. apply Hup in Hin. rewrite N2Nat.id in Hin. lia. }
    rewrite Hall; [reflexivity|lia].
Qed.

Lemma octet_zero_spec o : o < 256 -> (o = 0 <-> forall j, j < 8 -> N.testbit o (7 - j) = false).
Proof.
  intros Ho. pose proof (octet_mask_spec o 0 Ho ltac:(lia)) as H.
  change (N.shiftr 255 0) with 255 in H.
  assert (N.land o 255 = o) as E.
  { change 255 with (N.ones 8). rewrite N.land_ones. apply N.mod_small. exact Ho. }
  rewrite E in H. rewrite H. split; intros Hall j Hj; apply Hall; lia.
Qed.

(* -- list indexing -- *)
Lemma nth_opt_nth : forall (l : bytes) (n : nat), (n < length l)%nat -> nth_opt n l = Some (nth n l 0).
Proof.
  induction l as [|x l IH]; intros n Hn; cbn [length] in Hn.
  - lia.
  - destruct n as [|n]; cbn [nth_opt nth]; [reflexivity|]. apply IH. lia.
Qed.

Lemma Forall_nth_lt : forall (l : bytes) (n : nat), Forall (fun o => o < 256) l -> nth n l 0 < 256.
Proof.
  induction l as [|x l IH]; intros n Hl.
  - destruct n; cbn [nth]; lia.
  - inversion Hl as [|x' l' Hx Hl']; subst. destruct n as [|n]; cbn [nth]; [exact Hx|]. apply IH. exact Hl'.
Qed.

Lemma forallb_skipn_zero : forall (l : bytes) (n : nat),
  forallb (N.eqb 0) (skipn n l) = true <-> (forall k, (n <= k)%nat -> (k < length l)%nat -> nth k l 0 = 0).
Proof.
  induction l as [|x l IH]; intros n.
  - rewrite skipn_nil. cbn [forallb length]. split; [|reflexivity].
    intros _ k _ Hk. lia.
  - destruct n as [|n].
    + cbn [skipn forallb]. rewrite andb_true_iff, N.eqb_eq.
      change l with (skipn 0 l) at 1. rewrite (IH 0%nat). cbn [length]. split.
      * intros [Hx Hl] k _ Hk. destruct k as [|k]; cbn [nth]; [symmetry; exact Hx|].
        apply Hl; lia.
      * intros H. split.
        -- symmetry. apply (H 0%nat); lia.
        -- intros k _ Hk. apply (H (S k)); lia.
    + cbn [skipn length]. rewrite (IH n). split.
      * intros H k Hn Hk. destruct k as [|k]; [lia|]. cbn [nth]. apply H; lia.
      * intros H k Hn Hk. apply (H (S k)); lia.
Qed.

(* N-indexed version *)
Lemma rest_zero_spec (l : bytes) (n : N) :
  forallb (N.eqb 0) (dropN n l) = true <->
  (forall k, n <= k < lenN l -> nth (N.to_nat k) l 0 = 0).
Proof.
  unfold dropN, lenN. rewrite forallb_skipn_zero. split.
  - intros H k [Hk1 Hk2]. apply H; lia.
  - intros H k Hk1 Hk2. specialize (H (N.of_nat k)). rewrite Nat2N.id in H. apply H. lia.
Qed.

Lemma divmod8 i : i = 8 * (i / 8) + i mod 8 /\ i mod 8 < 8.
Proof. split; [apply N.div_mod; lia|apply N.mod_lt; lia]. Qed.

Lemma divmod8_unique q r : r < 8 -> (8 * q + r) / 8 = q /\ (8 * q + r) mod 8 = r.
Proof.
  intros Hr. split.
  - symmetry. apply (N.div_unique (8 * q + r) 8 q r); [exact Hr|reflexivity].
  - symmetry. apply (N.mod_unique (8 * q + r) 8 q r); [exact Hr|reflexivity].
Qed.

Inductive res_kind := KOk | KErr | KPanic | KFuel.
Definition kind {A} (r : res A) : res_kind :=
  match r with Ok _ => KOk | Err _ => KErr | Panic _ => KPanic | OutOfFuel => KFuel end.

(* the key arithmetic lemma *)
Lemma check_addr_bits_spec bits e1 e2 octets p :
  lenN octets * 8 = bits -> Forall (fun o => o < 256) octets ->
  (check_addr_bits bits e1 e2 octets p = Ok tt <-> prefix_ok_bits bits octets p) /\
  (forall s, check_addr_bits bits e1 e2 octets p <> Panic s) /\
  check_addr_bits bits e1 e2 octets p <> OutOfFuel.
Proof.
  intros Hlen Hoct. unfold check_addr_bits, prefix_ok_bits.
  destruct (bits <? p) eqn:E1; [apply N.ltb_lt in E1 | apply N.ltb_ge in E1].
  { split; [|split; [intros s|]; discriminate].
    split; [discriminate|]. intros [H _]. lia. }
  destruct (bits =? p) eqn:E2; [apply N.eqb_eq in E2 | apply N.eqb_neq in E2].
  { split; [|split; [intros s|]; discriminate].
    split; [|reflexivity]. intros _. split; [lia|]. intros i Hi. lia. }
  assert (p < bits) as Hp by lia.
  destruct (divmod8 p) as [Hpdm Hrem].
  set (index := p / 8) in *. set (remain := p mod 8) in *.
  assert (index < lenN octets) as Hidx by lia.
  unfold nthN. rewrite nth_opt_nth by (unfold lenN in Hidx; lia).
  set (o := nth (N.to_nat index) octets 0).
  assert (o < 256) as Ho by (apply Forall_nth_lt; exact Hoct).
  destruct (8 <=? remain) eqn:E3; [apply N.leb_le in E3; lia | clear E3].
  unfold PREFIX_MASK.
  pose proof (octet_mask_spec o remain Ho Hrem) as Hmask.
  destruct (N.land o (N.shiftr 255 remain) =? 0) eqn:E4;
    [apply N.eqb_eq in E4 | apply N.eqb_neq in E4]; cbn [negb].
  2:{ split; [|split; [intros s|]; discriminate].
      split; [discriminate|]. intros [_ Hbits]. exfalso. apply E4. apply Hmask.
      intros j Hj. specialize (Hbits (8 * index + j)).
      unfold addr_bit in Hbits. destruct (divmod8_unique index j) as [Hq Hr]; [lia|].
      rewrite Hq, Hr in Hbits. apply Hbits. lia. }
  destruct (lenN octets <? index + 1) eqn:E5; [apply N.ltb_lt in E5; lia | clear E5].
  pose proof (rest_zero_spec octets (index + 1)) as Hrest.
  destruct (forallb (N.eqb 0) (dropN (index + 1) octets)) eqn:E6.
  - split; [|split; [intros s|]; discriminate].
    split; [|reflexivity]. intros _. split; [lia|].
    intros i Hi. unfold addr_bit. destruct (divmod8 i) as [Hidm Hir].
    set (k := i / 8) in *. set (j := i mod 8) in *.
    assert (index <= k) as Hk by lia.
    destruct (N.eq_dec k index) as [->|Hne].
    + fold o. apply (proj1 Hmask E4). lia.
    + assert (nth (N.to_nat k) octets 0 = 0) as ->.
      { apply (proj1 Hrest eq_refl). lia. }
      apply N.bits_0.
  - split; [|split; [intros s|]; discriminate].
    split; [discriminate|]. intros [_ Hbits]. exfalso.
    assert (false = true) as Hft; [|discriminate Hft].
    apply Hrest. intros k Hk.
    apply octet_zero_spec; [apply Forall_nth_lt; exact Hoct|].
    intros j Hj. specialize (Hbits (8 * k + j)). unfold addr_bit in Hbits.
    destruct (divmod8_unique k j Hj) as [Hq Hr]. rewrite Hq, Hr in Hbits. apply Hbits. lia.
Qed.

Lemma IPV4_BITS_val : IPV4_BITS = 32. Proof. reflexivity. Qed.
Lemma IPV6_BITS_val : IPV6_BITS = 128. Proof. reflexivity. Qed.

(* Address::check_prefix on a well-formed address: Ok exactly when the prefix fits, never a panic *)
Lemma check_prefix_spec a p : addr_wf a ->
  (check_prefix a p = Ok tt <-> prefix_ok a p) /\
  (forall s, check_prefix a p <> Panic s) /\
  check_prefix a p <> OutOfFuel.
Proof.
  intros [Hfam Hoct]. unfold check_prefix, prefix_ok, addr_size.
  destruct Hfam as [[Hf Hl]|[Hf Hl]]; rewrite Hf.
  - change (1 =? 1) with true. cbv iota. rewrite IPV4_BITS_val. change (8 * 4) with 32.
    apply check_addr_bits_spec; [rewrite Hl; reflexivity|exact Hoct].
  - change (2 =? 1) with false. cbv iota. rewrite IPV6_BITS_val. change (8 * 16) with 128.
    apply check_addr_bits_spec; [rewrite Hl; reflexivity|exact Hoct].
Qed.

Lemma check_prefix_ok a p : addr_wf a -> check_prefix a p = Ok tt -> prefix_ok a p.
Proof. intros Hwf H. apply (proj1 (check_prefix_spec a p Hwf)). exact H. Qed.

Lemma check_prefix_kind a p : addr_wf a -> kind (check_prefix a p) = KOk \/ kind (check_prefix a p) = KErr.
Proof.
  intros Hwf. destruct (check_prefix_spec a p Hwf) as [_ [Hp Hf]].
  destruct (check_prefix a p) as [u|e|s|]; cbn [kind]; [left; reflexivity|right; reflexivity| |].
  - exfalso. apply (Hp s). reflexivity.
  - exfalso. apply Hf. reflexivity.
Qed.

(* ================================================================================================ *)
(* 4. ECS (src/rr/edns/rfc_7871.rs)                                                                  *)
(* ================================================================================================ *)

Inductive ecs_op :=
| EcsNew (src scope : N) (a : addr)       (* ECS::new, also the decoder's constructor *)
| EcsSetSrc (v : N)                       (* set_source_prefix_length *)
| EcsSetScope (v : N)                     (* set_scope_prefix_length *)
| EcsSetAddr (a : addr).                  (* set_address *)

(* arguments of type Address are Rust values: family and octet count agree, octets are u8 *)
Definition ecs_op_wf (o : ecs_op) : Prop :=
  match o with
  | EcsNew _ _ a => addr_wf a
  | EcsSetAddr a => addr_wf a
  | _ => True
  end.

(* a constructor that fails leaves the client's previous value (if any); a setter needs a value *)
Definition on_value {A} (s : option A) (f : A -> A * res unit) : option A * res unit :=
  match s with
  | Some x => let (x', r) := f x in (Some x', r)
  | None => (None, Ok tt)
  end.
Definition on_new {A} (s : option A) (r : res A) : option A * res unit :=
  match r with
  | Ok x => (Some x, Ok tt)
  | Err e => (s, Err e)
  | Panic p => (s, Panic p)
  | OutOfFuel => (s, OutOfFuel)
  end.

Definition ecs_step (s : option ecs) (o : ecs_op) : option ecs * res unit :=
  match o with
  | EcsNew src scope a => on_new s (ecs_new src scope a)
  | EcsSetSrc v => on_value s (ecs_set_src v)
  | EcsSetScope v => on_value s (ecs_set_scope v)
  | EcsSetAddr a => on_value s (ecs_set_addr a)
  end.

Lemma on_new_inv {A} (P : A -> Prop) s r :
  (forall x, r = Ok x -> P x) -> opt_inv P s -> opt_inv P (fst (@on_new A s r)).
Proof. intros H Hs. destruct r as [x|e|p|]; cbn [on_new fst]; [apply H; reflexivity|exact Hs..]. Qed.

Lemma on_new_err {A} s r : snd (@on_new A s r) <> Ok tt -> fst (on_new s r) = s.
Proof. destruct r as [x|e|p|]; cbn [on_new fst snd]; [intros H; exfalso; apply H; reflexivity|reflexivity..]. Qed.

Lemma on_value_inv {A} (P : A -> Prop) s f :
  (forall x, P x -> P (fst (f x))) -> opt_inv P s -> opt_inv P (fst (@on_value A s f)).
Proof.
  intros H Hs. destruct s as [x|]; cbn [on_value]; [|exact I].
  specialize (H x Hs). destruct (f x) as [x' r]. exact H.
Qed.

Lemma on_value_err {A} s f :
  (forall x, snd (f x) <> Ok tt -> fst (f x) = x) ->
  snd (@on_value A s f) <> Ok tt -> fst (on_value s f) = s.
Proof.
  intros H. destruct s as [x|]; cbn [on_value]; [|reflexivity].
  specialize (H x). destruct (f x) as [x' r]. cbn [fst snd] in *. intros Hr. rewrite H; [reflexivity|exact Hr].
Qed.

Lemma ecs_new_inv src scope a e : addr_wf a -> ecs_new src scope a = Ok e -> ecs_inv e.
Proof.
  intros Hwf. unfold ecs_new, ecs_check, ecs_prefix. cbn [e_addr e_src e_scope].
  destruct (check_prefix a (N.max src scope)) as [[]|x|p|] eqn:E; try discriminate.
  intros H. injection H as <-. split; cbn [e_addr e_src e_scope]; [exact Hwf|].
  apply check_prefix_ok; assumption.
Qed.

(* the setter! macro: on success the updated value passed the check, otherwise nothing changed *)
Lemma ecs_setter_cases upd e :
  (ecs_setter upd e = (upd e, Ok tt) /\ ecs_check (upd e) = Ok tt) \/
  (fst (ecs_setter upd e) = e /\ snd (ecs_setter upd e) = ecs_check (upd e) /\ kind (ecs_check (upd e)) <> KOk).
Proof.
  unfold ecs_setter. destruct (ecs_check (upd e)) as [[]|x|p|] eqn:E.
  - left. split; reflexivity.
  - right. cbn [fst snd kind]. repeat split; discriminate.
  - right. cbn [fst snd kind]. repeat split; discriminate.
  - right. cbn [fst snd kind]. repeat split; discriminate.
Qed.

Lemma ecs_setter_inv upd e :
  addr_wf (e_addr (upd e)) -> ecs_inv e -> ecs_inv (fst (ecs_setter upd e)).
Proof.
  intros Hwf Hinv. destruct (ecs_setter_cases upd e) as [[-> Hc]|[-> _]]; [|exact Hinv].
  cbn [fst]. split; [exact Hwf|]. unfold ecs_check, ecs_prefix in Hc. apply check_prefix_ok; assumption.
Qed.

Lemma ecs_setter_err upd e : snd (ecs_setter upd e) <> Ok tt -> fst (ecs_setter upd e) = e.
Proof.
  intros H. destruct (ecs_setter_cases upd e) as [[Heq _]|[Hfst _]]; [|exact Hfst].
  rewrite Heq in H. exfalso. apply H. reflexivity.
Qed.

Lemma ecs_step_inv s o : ecs_op_wf o -> opt_inv ecs_inv s -> opt_inv ecs_inv (fst (ecs_step s o)).
Proof.
  intros Hwf Hs. destruct o as [src scope a|v|v|a]; cbn [ecs_step ecs_op_wf] in *.
  - apply on_new_inv; [|exact Hs]. intros e He. eapply ecs_new_inv; eassumption.
  - apply on_value_inv; [|exact Hs]. intros e He. unfold ecs_set_src. apply ecs_setter_inv; [|exact He].
    cbn [e_addr]. exact (proj1 He).
  - apply on_value_inv; [|exact Hs]. intros e He. unfold ecs_set_scope. apply ecs_setter_inv; [|exact He].
    cbn [e_addr]. exact (proj1 He).
  - apply on_value_inv; [|exact Hs]. intros e He. unfold ecs_set_addr. apply ecs_setter_inv; [|exact He].
    cbn [e_addr]. exact Hwf.
Qed.

Lemma ecs_step_err s o : snd (ecs_step s o) <> Ok tt -> fst (ecs_step s o) = s.
Proof.
  destruct o as [src scope a|v|v|a]; cbn [ecs_step].
  - apply on_new_err.
  - apply on_value_err. intros e. apply ecs_setter_err.
  - apply on_value_err. intros e. apply ecs_setter_err.
  - apply on_value_err. intros e. apply ecs_setter_err.
Qed.

Lemma on_new_kind {A} s r : kind (snd (@on_new A s r)) = kind r.
Proof. destruct r; reflexivity. Qed.

(* no public ECS call panics on a valid state with Rust-typed arguments *)
Lemma ecs_step_total s o : ecs_op_wf o -> opt_inv ecs_inv s ->
  kind (snd (ecs_step s o)) = KOk \/ kind (snd (ecs_step s o)) = KErr.
Proof.
  assert (forall upd e, addr_wf (e_addr (upd e)) ->
            kind (snd (ecs_setter upd e)) = KOk \/ kind (snd (ecs_setter upd e)) = KErr) as Hset.
  { intros upd e Hwf. destruct (ecs_setter_cases upd e) as [[-> _]|[_ [-> Hk]]]; [left; reflexivity|].
    unfold ecs_check. apply check_prefix_kind. exact Hwf. }
  intros Hwf Hs. destruct o as [src scope a|v|v|a]; cbn [ecs_step ecs_op_wf] in *.
  - rewrite on_new_kind. unfold ecs_new, ecs_check, ecs_prefix. cbn [e_addr e_src e_scope].
    destruct (check_prefix_kind a (N.max src scope) Hwf) as [H|H];
      destruct (check_prefix a (N.max src scope)) as [[]|x|p|]; cbn [kind] in *; try discriminate; auto.
  - destruct s as [e|]; cbn [on_value]; [|left; reflexivity].
    pose proof (Hset (fun e => {| e_src := v; e_scope := e_scope e; e_addr := e_addr e |}) e (proj1 Hs)) as H.
    unfold ecs_set_src. destruct (ecs_setter _ e) as [e' r]. exact H.
  - destruct s as [e|]; cbn [on_value]; [|left; reflexivity].
    pose proof (Hset (fun e => {| e_src := e_src e; e_scope := v; e_addr := e_addr e |}) e (proj1 Hs)) as H.
    unfold ecs_set_scope. destruct (ecs_setter _ e) as [e' r]. exact H.
  - destruct s as [e|]; cbn [on_value]; [|left; reflexivity].
    pose proof (Hset (fun e => {| e_src := e_src e; e_scope := e_scope e; e_addr := a |}) e Hwf) as H.
    unfold ecs_set_addr. destruct (ecs_setter _ e) as [e' r]. exact H.
Qed.

Lemma ecs_history ops : Forall ecs_op_wf ops -> opt_inv ecs_inv (run ecs_step ops None).
Proof. intros H. apply (run_inv ecs_step (opt_inv ecs_inv) ecs_op_wf ecs_step_inv); [exact H|exact I]. Qed.

Lemma ecs_history_from s ops :
  opt_inv ecs_inv s -> Forall ecs_op_wf ops -> opt_inv ecs_inv (run ecs_step ops s).
Proof. intros Hs H. apply (run_inv ecs_step (opt_inv ecs_inv) ecs_op_wf ecs_step_inv); assumption. Qed.

(* ================================================================================================ *)
(* 5. APItem (src/rr/rfc_3123.rs)                                                                    *)
(* ================================================================================================ *)

Inductive apitem_op :=
| ApNew (prefix : N) (neg : bool) (a : addr)   (* APItem::new, also the decoder's constructor *)
| ApSetPrefix (p : N)                          (* set_prefix *)
| ApSetAddr (a : addr)                         (* set_address *)
| ApAssignNeg (b : bool).                      (* item.negation = b   (public field) *)

Definition apitem_op_wf (o : apitem_op) : Prop :=
  match o with
  | ApNew _ _ a => addr_wf a
  | ApSetAddr a => addr_wf a
  | _ => True
  end.

Definition apitem_assign_neg (b : bool) (i : apitem) : apitem * res unit :=
  ({| i_prefix := i_prefix i; i_neg := b; i_addr := i_addr i |}, Ok tt).

Definition apitem_step (s : option apitem) (o : apitem_op) : option apitem * res unit :=
  match o with
  | ApNew p neg a => on_new s (apitem_new p neg a)
  | ApSetPrefix p => on_value s (apitem_set_prefix p)
  | ApSetAddr a => on_value s (apitem_set_addr a)
  | ApAssignNeg b => on_value s (apitem_assign_neg b)
  end.

Lemma apitem_new_inv p neg a i : addr_wf a -> apitem_new p neg a = Ok i -> apitem_inv i.
Proof.
  intros Hwf. unfold apitem_new.
  destruct (check_prefix a p) as [[]|x|s|] eqn:E; try discriminate.
  intros H. injection H as <-. split; cbn [i_addr i_prefix]; [exact Hwf|].
  apply check_prefix_ok; assumption.
Qed.

Lemma apitem_set_prefix_inv p i : apitem_inv i -> apitem_inv (fst (apitem_set_prefix p i)).
Proof.
  intros [Hwf Hp]. unfold apitem_set_prefix.
  destruct (check_prefix (i_addr i) p) as [[]|x|s|] eqn:E; cbn [fst]; try (split; assumption).
  split; cbn [i_addr i_prefix]; [exact Hwf|]. apply check_prefix_ok; assumption.
Qed.

Lemma apitem_set_addr_inv a i : addr_wf a -> apitem_inv i -> apitem_inv (fst (apitem_set_addr a i)).
Proof.
  intros Hwf Hi. unfold apitem_set_addr.
  destruct (check_prefix a (i_prefix i)) as [[]|x|s|] eqn:E; cbn [fst]; try exact Hi.
  split; cbn [i_addr i_prefix]; [exact Hwf|]. apply check_prefix_ok; assumption.
Qed.

Lemma apitem_step_inv s o :
  apitem_op_wf o -> opt_inv apitem_inv s -> opt_inv apitem_inv (fst (apitem_step s o)).
Proof.
  intros Hwf Hs. destruct o as [p neg a|p|a|b]; cbn [apitem_step apitem_op_wf] in *.
  - apply on_new_inv; [|exact Hs]. intros i Hi. eapply apitem_new_inv; eassumption.
  - apply on_value_inv; [|exact Hs]. intros i. apply apitem_set_prefix_inv.
  - apply on_value_inv; [|exact Hs]. intros i. apply apitem_set_addr_inv. exact Hwf.
  - apply on_value_inv; [|exact Hs]. intros i Hi. exact Hi.
Qed.

Lemma apitem_step_err s o : snd (apitem_step s o) <> Ok tt -> fst (apitem_step s o) = s.
Proof.
  destruct o as [p neg a|p|a|b]; cbn [apitem_step].
  - apply on_new_err.
  - apply on_value_err. intros i. unfold apitem_set_prefix.
    destruct (check_prefix (i_addr i) p) as [[]|x|s'|]; cbn [fst snd]; intros H;
      [exfalso; apply H; reflexivity|reflexivity..].
  - apply on_value_err. intros i. unfold apitem_set_addr.
    destruct (check_prefix a (i_prefix i)) as [[]|x|s'|]; cbn [fst snd]; intros H;
      [exfalso; apply H; reflexivity|reflexivity..].
  - apply on_value_err. intros i H. exfalso. apply H. reflexivity.
Qed.

Lemma apitem_step_total s o : apitem_op_wf o -> opt_inv apitem_inv s ->
  kind (snd (apitem_step s o)) = KOk \/ kind (snd (apitem_step s o)) = KErr.
Proof.
  intros Hwf Hs. destruct o as [p neg a|p|a|b]; cbn [apitem_step apitem_op_wf] in *.
  - rewrite on_new_kind. unfold apitem_new.
    destruct (check_prefix_kind a p Hwf) as [H|H];
      destruct (check_prefix a p) as [[]|x|s'|]; cbn [kind] in *; try discriminate; auto.
  - destruct s as [i|]; cbn [on_value]; [|left; reflexivity]. unfold apitem_set_prefix.
    destruct (check_prefix_kind (i_addr i) p (proj1 Hs)) as [H|H];
      destruct (check_prefix (i_addr i) p) as [[]|x|s'|]; cbn [kind snd] in *; try discriminate; auto.
  - destruct s as [i|]; cbn [on_value]; [|left; reflexivity]. unfold apitem_set_addr.
    destruct (check_prefix_kind a (i_prefix i) Hwf) as [H|H];
      destruct (check_prefix a (i_prefix i)) as [[]|x|s'|]; cbn [kind snd] in *; try discriminate; auto.
  - destruct s as [i|]; cbn [on_value apitem_assign_neg snd kind]; left; reflexivity.
Qed.

Lemma apitem_history ops : Forall apitem_op_wf ops -> opt_inv apitem_inv (run apitem_step ops None).
Proof. intros H. apply (run_inv apitem_step (opt_inv apitem_inv) apitem_op_wf apitem_step_inv); [exact H|exact I]. Qed.

Lemma apitem_history_from s ops :
  opt_inv apitem_inv s -> Forall apitem_op_wf ops -> opt_inv apitem_inv (run apitem_step ops s).
Proof. intros Hs H. apply (run_inv apitem_step (opt_inv apitem_inv) apitem_op_wf apitem_step_inv); assumption. Qed.

(* ================================================================================================ *)
(* 6. Cookie (src/rr/edns/rfc_7873.rs)                                                               *)
(* ================================================================================================ *)

Inductive cookie_op :=
| CkNew (client : bytes) (server : option bytes)   (* Cookie::new, also the decoder's constructor *)
| CkSetServer (server : option bytes)              (* set_server_cookie *)
| CkAssignClient (client : bytes).                 (* cookie.client_cookie = ..   (public field) *)

Definition cookie_assign_client (client : bytes) (c : cookie) : cookie * res unit :=
  ({| c_client := client; c_server := c_server c |}, Ok tt).

Definition cookie_step (s : option cookie) (o : cookie_op) : option cookie * res unit :=
  match o with
  | CkNew client server => on_new s (cookie_new client server)
  | CkSetServer server => on_value s (cookie_set_server server)
  | CkAssignClient client => on_value s (cookie_assign_client client)
  end.

Lemma server_len_ok_spec n : server_len_ok n = true <-> 8 <= n <= 32.
Proof.
  unfold server_len_ok, MINIMUM_SERVER_COOKIE_LENGTH, MAXIMUM_SERVER_COOKIE_LENGTH, COOKIE_NEW_RANGE_INCL.
  rewrite andb_true_iff, !N.leb_le. reflexivity.
Qed.

Lemma cookie_set_server_inv o c : cookie_inv c -> cookie_inv (fst (cookie_set_server o c)).
Proof.
  intros Hc. unfold cookie_set_server. destruct o as [sv|]; cbn [fst].
  - destruct (server_len_ok (lenN sv)) eqn:E; cbn [fst]; [|exact Hc].
    right. exists sv. split; [reflexivity|]. apply server_len_ok_spec. exact E.
  - left. reflexivity.
Qed.

Lemma cookie_set_server_err o c : snd (cookie_set_server o c) <> Ok tt -> fst (cookie_set_server o c) = c.
Proof.
  unfold cookie_set_server. destruct o as [sv|]; cbn [fst snd].
  - destruct (server_len_ok (lenN sv)); cbn [fst snd]; intros H; [exfalso; apply H; reflexivity|reflexivity].
  - intros H. exfalso. apply H. reflexivity.
Qed.

Lemma cookie_set_server_total o c :
  kind (snd (cookie_set_server o c)) = KOk \/ kind (snd (cookie_set_server o c)) = KErr.
Proof.
  unfold cookie_set_server. destruct o as [sv|]; [|left; reflexivity].
  destruct (server_len_ok (lenN sv)); [left|right]; reflexivity.
Qed.

Lemma cookie_new_inv client o c : cookie_new client o = Ok c -> cookie_inv c.
Proof.
  unfold cookie_new.
  pose proof (cookie_set_server_inv o {| c_client := client; c_server := None |}) as H.
  destruct (cookie_set_server o _) as [c' [[]|e|p|]]; try discriminate.
  intros Heq. injection Heq as <-. apply H. left. reflexivity.
Qed.

(* the constructor accepts exactly the documented server cookie lengths *)
Lemma cookie_new_spec client o :
  (exists c, cookie_new client o = Ok c) <->
  (o = None \/ exists sv, o = Some sv /\ 8 <= lenN sv <= 32).
Proof.
  unfold cookie_new, cookie_set_server. destruct o as [sv|].
  - destruct (server_len_ok (lenN sv)) eqn:E; split.
    + intros _. right. exists sv. split; [reflexivity|apply server_len_ok_spec; exact E].
    + intros _. eexists. reflexivity.
    + intros [c Hc]. discriminate Hc.
    + intros [H|[sv' [H1 H2]]]; [discriminate H|]. injection H1 as <-.
      apply server_len_ok_spec in H2. congruence.
  - split; [intros _; left; reflexivity|intros _; eexists; reflexivity].
Qed.

Lemma cookie_step_inv s o : opt_inv cookie_inv s -> opt_inv cookie_inv (fst (cookie_step s o)).
Proof.
  intros Hs. destruct o as [client server|server|client]; cbn [cookie_step].
  - apply on_new_inv; [|exact Hs]. intros c Hc. eapply cookie_new_inv; eassumption.
  - apply on_value_inv; [|exact Hs]. intros c. apply cookie_set_server_inv.
  - apply on_value_inv; [|exact Hs]. intros c Hc. exact Hc.
Qed.

Lemma cookie_step_err s o : snd (cookie_step s o) <> Ok tt -> fst (cookie_step s o) = s.
Proof.
  destruct o as [client server|server|client]; cbn [cookie_step].
  - apply on_new_err.
  - apply on_value_err. intros c. apply cookie_set_server_err.
  - apply on_value_err. intros c H. exfalso. apply H. reflexivity.
Qed.

Lemma cookie_step_total s o :
  kind (snd (cookie_step s o)) = KOk \/ kind (snd (cookie_step s o)) = KErr.
Proof.
  destruct o as [client server|server|client]; cbn [cookie_step].
  - rewrite on_new_kind. unfold cookie_new.
    pose proof (cookie_set_server_total server {| c_client := client; c_server := None |}) as H.
    destruct (cookie_set_server server _) as [c' [[]|e|p|]]; cbn [kind snd] in *; exact H.
  - destruct s as [c|]; cbn [on_value]; [|left; reflexivity].
    pose proof (cookie_set_server_total server c) as H.
    destruct (cookie_set_server server c) as [c' r]. exact H.
  - destruct s as [c|]; cbn [on_value cookie_assign_client snd kind]; left; reflexivity.
Qed.

Lemma cookie_history ops : opt_inv cookie_inv (run cookie_step ops None).
Proof.
  apply (run_inv cookie_step (opt_inv cookie_inv) (fun _ => True)).
  - intros s o _. apply cookie_step_inv.
  - apply Forall_forall. intros o _. exact I.
  - exact I.
Qed.

Lemma cookie_history_from s ops : opt_inv cookie_inv s -> opt_inv cookie_inv (run cookie_step ops s).
Proof.
  intros Hs. apply (run_inv cookie_step (opt_inv cookie_inv) (fun _ => True)).
  - intros s' o _. apply cookie_step_inv.
  - apply Forall_forall. intros o _. exact I.
  - exact Hs.
Qed.

(* ================================================================================================ *)
(* 7. Label and DomainName (src/label.rs, src/domain_name.rs)                                        *)
(* ================================================================================================ *)

(* Label::try_from / from_str accept exactly the labels of 1..=63 octets, and cannot panic *)
Lemma check_label_spec l :
  (check_label l = Ok tt <-> label_inv l) /\
  (kind (check_label l) = KOk \/ kind (check_label l) = KErr).
Proof.
  unfold check_label, label_inv, cmp_apply, OP_check_label, LABEL_MAX_LENGTH.
  destruct (lenN l =? 0) eqn:E0; [apply N.eqb_eq in E0 | apply N.eqb_neq in E0].
  { split; [|right; reflexivity]. split; [discriminate|lia]. }
  destruct (lenN l <? 64) eqn:E1; [apply N.ltb_lt in E1 | apply N.ltb_ge in E1].
  - split; [|left; reflexivity]. split; [lia|reflexivity].
  - split; [|right; reflexivity]. split; [discriminate|lia].
Qed.

Lemma lenN_app {A} (a b : list A) : lenN (a ++ b) = lenN a + lenN b.
Proof. unfold lenN. rewrite app_length. lia. Qed.

Lemma labels_sum_app a b : labels_sum (a ++ b) = labels_sum a + labels_sum b.
Proof.
  induction a as [|x a IH]; cbn [app labels_sum]; [lia|]. rewrite IH. lia.
Qed.

Lemma wire_len_snoc n l : wire_len (n ++ [l]) = wire_len n + lenN l + 1.
Proof.
  unfold wire_len. rewrite lenN_app, labels_sum_app. cbn [labels_sum].
  change (lenN [l]) with 1. lia.
Qed.

(* append_label succeeds exactly when the wire form still fits 255 octets *)
Lemma append_label_spec n l :
  (wire_len n + lenN l + 1 <= 255 -> append_label n l = Ok (n ++ [l])) /\
  (255 < wire_len n + lenN l + 1 -> kind (append_label n l) = KErr).
Proof.
  unfold append_label, cmp_apply, OP_append_label, DOMAIN_NAME_MAX_LENGTH.
  assert ((match n with [] => lenN l + 1 | _ :: _ => name_len n + lenN l + 1 end) + 1
          = wire_len n + lenN l + 1) as Hdl.
  { unfold wire_len, name_len. destruct n as [|x n]; [cbn [labels_sum]; change (lenN (@nil label)) with 0; lia|lia]. }
  set (dl := match n with [] => lenN l + 1 | _ :: _ => name_len n + lenN l + 1 end) in *.
  destruct (255 <=? dl) eqn:E; [apply N.leb_le in E | apply N.leb_gt in E].
  - split; [lia|]. intros _. reflexivity.
  - split; [reflexivity|lia].
Qed.

Lemma append_label_inv n l n' : name_inv n -> label_inv l -> append_label n l = Ok n' -> name_inv n'.
Proof.
  intros [Hl Hw] Hlab Happ. destruct (append_label_spec n l) as [Hok Herr].
  destruct (N.le_gt_cases (wire_len n + lenN l + 1) 255) as [Hle|Hgt].
  - rewrite (Hok Hle) in Happ. injection Happ as <-. split.
    + apply Forall_app. split; [exact Hl|]. constructor; [exact Hlab|constructor].
    + rewrite wire_len_snoc. exact Hle.
  - apply Herr in Hgt. rewrite Happ in Hgt. discriminate Hgt.
Qed.

Lemma append_label_total n l : kind (append_label n l) = KOk \/ kind (append_label n l) = KErr.
Proof.
  unfold append_label. destruct (cmp_apply _ _ _); [right|left]; reflexivity.
Qed.

(* DomainName::append_label(label) where label was built by Label::try_from / from_str *)
Definition name_append (l : label) (n : name) : name * res unit :=
  match check_label l with
  | Ok _ => match append_label n l with
            | Ok n' => (n', Ok tt)
            | Err e => (n, Err e)
            | Panic p => (n, Panic p)
            | OutOfFuel => (n, OutOfFuel)
            end
  | r => (n, r)
  end.

Inductive name_op :=
| NmDefault                    (* DomainName::default() *)
| NmFromStr (s : bytes)        (* str::parse::<DomainName>() *)
| NmAppend (l : label).        (* Label::try_from + DomainName::append_label; also the decoder's loop body *)

Definition name_step (s : option name) (o : name_op) : option name * res unit :=
  match o with
  | NmDefault => (Some [], Ok tt)
  | NmFromStr str => on_new s (name_from_str str)
  | NmAppend l => on_value s (name_append l)
  end.

Lemma name_inv_nil : name_inv [].
Proof. split; [constructor|]. unfold wire_len. cbn. lia. Qed.

Lemma append_all_inv : forall ls n n', name_inv n -> append_all n ls = Ok n' -> name_inv n'.
Proof.
  induction ls as [|l ls IH]; intros n n' Hn; cbn [append_all].
  - intros H. injection H as <-. exact Hn.
  - destruct (check_label l) as [[]|e|p|] eqn:Ec; try discriminate.
    destruct (append_label n l) as [n1|e|p|] eqn:Ea; try discriminate.
    apply IH. eapply append_label_inv; [exact Hn| |exact Ea].
    apply (proj1 (check_label_spec l)). exact Ec.
Qed.

Lemma append_all_total : forall ls n, kind (append_all n ls) = KOk \/ kind (append_all n ls) = KErr.
Proof.
  induction ls as [|l ls IH]; intros n; cbn [append_all]; [left; reflexivity|].
  destruct (proj2 (check_label_spec l)) as [H|H];
    destruct (check_label l) as [[]|e|p|]; cbn [kind] in H; try discriminate; [|right; reflexivity].
  destruct (append_label_total n l) as [H'|H'];
    destruct (append_label n l) as [n1|e|p|]; cbn [kind] in H'; try discriminate; [|right; reflexivity].
  apply IH.
Qed.

Lemma name_from_str_inv s n : name_from_str s = Ok n -> name_inv n.
Proof.
  unfold name_from_str. destruct (bytes_eqb s [DOT]).
  - intros H. injection H as <-. exact name_inv_nil.
  - apply append_all_inv. exact name_inv_nil.
Qed.

Lemma name_append_inv l n : name_inv n -> name_inv (fst (name_append l n)).
Proof.
  intros Hn. unfold name_append.
  destruct (check_label l) as [[]|e|p|] eqn:Ec; cbn [fst]; try exact Hn.
  destruct (append_label n l) as [n1|e|p|] eqn:Ea; cbn [fst]; try exact Hn.
  eapply append_label_inv; [exact Hn| |exact Ea]. apply (proj1 (check_label_spec l)). exact Ec.
Qed.

Lemma name_append_err l n : snd (name_append l n) <> Ok tt -> fst (name_append l n) = n.
Proof.
  unfold name_append.
  destruct (check_label l) as [[]|e|p|]; cbn [fst snd]; try reflexivity.
  destruct (append_label n l) as [n1|e|p|]; cbn [fst snd]; try reflexivity.
  intros H. exfalso. apply H. reflexivity.
Qed.

Lemma name_step_inv s o : opt_inv name_inv s -> opt_inv name_inv (fst (name_step s o)).
Proof.
  intros Hs. destruct o as [|str|l]; cbn [name_step].
  - exact name_inv_nil.
  - apply on_new_inv; [|exact Hs]. intros n. apply name_from_str_inv.
  - apply on_value_inv; [|exact Hs]. intros n. apply name_append_inv.
Qed.

Lemma name_step_err s o : snd (name_step s o) <> Ok tt -> fst (name_step s o) = s.
Proof.
  destruct o as [|str|l]; cbn [name_step].
  - intros H. exfalso. apply H. reflexivity.
  - apply on_new_err.
  - apply on_value_err. intros n. apply name_append_err.
Qed.

Lemma name_step_total s o : kind (snd (name_step s o)) = KOk \/ kind (snd (name_step s o)) = KErr.
Proof.
  destruct o as [|str|l]; cbn [name_step].
  - left. reflexivity.
  - rewrite on_new_kind. unfold name_from_str. destruct (bytes_eqb str [DOT]); [left; reflexivity|].
    apply append_all_total.
  - destruct s as [n|]; cbn [on_value]; [|left; reflexivity]. unfold name_append.
    destruct (proj2 (check_label_spec l)) as [H|H];
      destruct (check_label l) as [[]|e|p|]; cbn [kind snd] in *; try discriminate; [|right; reflexivity].
    destruct (append_label_total n l) as [H'|H'];
      destruct (append_label n l) as [n1|e|p|]; cbn [kind snd] in *; try discriminate; auto.
Qed.

Lemma name_history ops : opt_inv name_inv (run name_step ops None).
Proof.
  apply (run_inv name_step (opt_inv name_inv) (fun _ => True)).
  - intros s o _. apply name_step_inv.
  - apply Forall_forall. intros o _. exact I.
  - exact I.
Qed.

Lemma name_history_from s ops : opt_inv name_inv s -> opt_inv name_inv (run name_step ops s).
Proof.
  intros Hs. apply (run_inv name_step (opt_inv name_inv) (fun _ => True)).
  - intros s' o _. apply name_step_inv.
  - apply Forall_forall. intros o _. exact I.
  - exact Hs.
Qed.

(* ================================================================================================ *)
(* 8. Validated strings and NonEmptyVec (immutable: the only way in is try_from)                     *)
(* ================================================================================================ *)

Lemma forallb_Forall {A} (f : A -> bool) (P : A -> Prop) l :
  (forall x, f x = true -> P x) -> forallb f l = true -> Forall P l.
Proof.
  intros H. induction l as [|x l IH]; cbn [forallb]; intros Hf; [constructor|].
  apply andb_true_iff in Hf. destruct Hf as [Hx Hl]. constructor; [apply H; exact Hx|apply IH; exact Hl].
Qed.

Lemma Forall_forallb {A} (f : A -> bool) (P : A -> Prop) l :
  (forall x, P x -> f x = true) -> Forall P l -> forallb f l = true.
Proof.
  intros H Hl. induction Hl as [|x l Hx Hl IH]; cbn [forallb]; [reflexivity|].
  rewrite (H x Hx), IH. reflexivity.
Qed.

Lemma is_digit_spec b : is_digit b = true <-> digit b.
Proof. unfold is_digit, digit. rewrite andb_true_iff, !N.leb_le. reflexivity. Qed.

Lemma is_hexdigit_spec b : is_hexdigit b = true <-> hexdigit b.
Proof.
  unfold is_hexdigit, is_digit, hexdigit. rewrite !orb_true_iff, !andb_true_iff, !N.leb_le. tauto.
Qed.

Lemma alnum_lower b : is_alnum b = true -> lower_or_digit (ascii_lower b).
Proof.
  unfold is_alnum, is_digit, is_upper, is_lower, ascii_lower, lower_or_digit.
  rewrite !orb_true_iff, !andb_true_iff, !N.leb_le. intros H.
  destruct ((65 <=? b) && (b <=? 90)) eqn:E.
  - apply andb_true_iff in E. rewrite !N.leb_le in E. lia.
  - apply andb_false_iff in E. rewrite !N.leb_gt in E. lia.
Qed.

Lemma tag_try_from_inv s t : tag_try_from s = Ok t -> tag_inv t.
Proof.
  unfold tag_try_from. destruct s as [|b s]; [discriminate|].
  destruct (forallb is_alnum (b :: s)) eqn:E; [|discriminate].
  intros H. injection H as <-. split; [cbn [map]; discriminate|].
  apply (proj2 (Forall_map ascii_lower lower_or_digit (b :: s))).
  apply (forallb_Forall is_alnum); [|exact E]. apply alnum_lower.
Qed.

(* every valid tag is accepted unchanged (the constraint is not stronger than documented) *)
Lemma tag_try_from_complete t : tag_inv t -> tag_try_from t = Ok t.
Proof.
  intros [Hne Hall]. unfold tag_try_from. destruct t as [|b t]; [exfalso; apply Hne; reflexivity|].
  assert (forallb is_alnum (b :: t) = true) as ->.
  { apply (Forall_forallb is_alnum lower_or_digit); [|exact Hall].
    intros x Hx. unfold lower_or_digit in Hx. unfold is_alnum, is_digit, is_upper, is_lower.
    rewrite !orb_true_iff, !andb_true_iff, !N.leb_le. lia. }
  f_equal. clear Hne. induction Hall as [|x l Hx Hl IH]; [reflexivity|].
  cbn [map]. rewrite IH. f_equal. unfold ascii_lower. unfold lower_or_digit in Hx.
  destruct ((65 <=? x) && (x <=? 90)) eqn:E; [|reflexivity].
  apply andb_true_iff in E. rewrite !N.leb_le in E. lia.
Qed.

Lemma psdn_try_from_spec s : (forall t, psdn_try_from s = Ok t -> t = s /\ digits_inv t) /\
                             (digits_inv s -> psdn_try_from s = Ok s).
Proof.
  unfold psdn_try_from, digits_inv. split.
  - intros t. destruct (forallb is_digit s) eqn:E; [|discriminate]. intros H. injection H as <-.
    split; [reflexivity|]. apply (forallb_Forall is_digit); [|exact E]. intros x. apply is_digit_spec.
  - intros H. rewrite (Forall_forallb is_digit digit); [reflexivity| |exact H]. intros x. apply is_digit_spec.
Qed.

Lemma isdn_try_from_spec s : (forall t, isdn_try_from s = Ok t -> t = s /\ digits_inv t) /\
                             (digits_inv s -> isdn_try_from s = Ok s).
Proof.
  unfold isdn_try_from, digits_inv. split.
  - intros t. destruct (forallb is_digit s) eqn:E; [|discriminate]. intros H. injection H as <-.
    split; [reflexivity|]. apply (forallb_Forall is_digit); [|exact E]. intros x. apply is_digit_spec.
  - intros H. rewrite (Forall_forallb is_digit digit); [reflexivity| |exact H]. intros x. apply is_digit_spec.
Qed.

Lemma sa_try_from_spec s : (forall t, sa_try_from s = Ok t -> t = s /\ sa_inv t) /\
                           (sa_inv s -> sa_try_from s = Ok s).
Proof.
  unfold sa_try_from, sa_inv. split.
  - intros t. destruct (forallb is_hexdigit s) eqn:E; [|discriminate]. intros H. injection H as <-.
    split; [reflexivity|]. apply (forallb_Forall is_hexdigit); [|exact E]. intros x. apply is_hexdigit_spec.
  - intros H. rewrite (Forall_forallb is_hexdigit hexdigit); [reflexivity| |exact H].
    intros x. apply is_hexdigit_spec.
Qed.

Lemma nonempty_try_from_spec {A} (l : list A) :
  (forall t, nonempty_try_from l = Ok t -> t = l /\ nonempty_inv t) /\
  (nonempty_inv l -> nonempty_try_from l = Ok l).
Proof.
  unfold nonempty_try_from, nonempty_inv. destruct l as [|x l]; split.
  - intros t H. discriminate H.
  - intros H. exfalso. apply H. reflexivity.
  - intros t H. injection H as <-. split; [reflexivity|discriminate].
  - intros _. reflexivity.
Qed.

Lemma strings_proof :
  (forall s t, tag_try_from s = Ok t -> tag_inv t) /\
  (forall s t, psdn_try_from s = Ok t -> digits_inv t) /\
  (forall s t, isdn_try_from s = Ok t -> digits_inv t) /\
  (forall s t, sa_try_from s = Ok t -> sa_inv t) /\
  (forall (A : Type) (l t : list A), nonempty_try_from l = Ok t -> nonempty_inv t).
Proof.
  split; [exact tag_try_from_inv|].
  split; [intros s t H; exact (proj2 (proj1 (psdn_try_from_spec s) t H))|].
  split; [intros s t H; exact (proj2 (proj1 (isdn_try_from_spec s) t H))|].
  split; [intros s t H; exact (proj2 (proj1 (sa_try_from_spec s) t H))|].
  intros A l t H. exact (proj2 (proj1 (nonempty_try_from_spec l) t H)).
Qed.

(* ================================================================================================ *)
(* 9. Decoding: the decoder builds these values only through the constructors above, so every       *)
(*    decoded value satisfies its invariant (input: any octet buffer)                                *)
(* ================================================================================================ *)

Lemma bind_ok {A B} (m : DM A) (f : A -> DM B) s b s' :
  bind m f s = DOk b s' -> exists a s1, m s = DOk a s1 /\ f a s1 = DOk b s'.
Proof.
  unfold bind. destruct (m s) as [a s1|e c|x|]; try discriminate. intros H. exists a, s1. split; [reflexivity|exact H].
Qed.

Lemma lift_ok {A} (r : res A) s a s' : lift r s = DOk a s' -> r = Ok a.
Proof.
  destruct r as [a0|e|p|]; cbn [lift]; unfold ret, fail, panic; try discriminate.
  intros H. injection H as -> _. reflexivity.
Qed.

Lemma Forall_firstn_ {A} (P : A -> Prop) : forall n l, Forall P l -> Forall P (firstn n l).
Proof.
  induction n as [|n IH]; intros l Hl; cbn [firstn]; [constructor|].
  destruct l as [|x l]; [constructor|]. inversion Hl as [|x' l' Hx Hl']; subst. constructor; [exact Hx|apply IH; exact Hl'].
Qed.
Lemma Forall_skipn_ {A} (P : A -> Prop) : forall n l, Forall P l -> Forall P (skipn n l).
Proof.
  induction n as [|n IH]; intros l Hl; cbn [skipn]; [exact Hl|].
  destruct l as [|x l]; [constructor|]. inversion Hl as [|x' l' Hx Hl']; subst. apply IH; exact Hl'.
Qed.

(* a decoder step keeps "the remaining window consists of octets" *)
Definition pres {A} (m : DM A) : Prop :=
  forall s a s', m s = DOk a s' -> bytes_ok (d_rest s) -> bytes_ok (d_rest s').

Lemma pres_bind {A B} (m : DM A) (f : A -> DM B) : pres m -> (forall a, pres (f a)) -> pres (bind m f).
Proof.
  intros Hm Hf s b s' H Hs. apply bind_ok in H. destruct H as (a & s1 & H1 & H2).
  eapply Hf; [exact H2|]. eapply Hm; eassumption.
Qed.
Lemma pres_ret {A} (a : A) : pres (ret a).
Proof. intros s a' s' H Hs. unfold ret in H. injection H as _ <-. exact Hs. Qed.
Lemma pres_fail {A} e : pres (@fail A e).
Proof. intros s a' s' H. discriminate H. Qed.
Lemma pres_panic {A} x : pres (@panic A x).
Proof. intros s a' s' H. discriminate H. Qed.

Lemma read_ok n s b s' : read n s = DOk b s' -> b = takeN n (d_rest s) /\ d_rest s' = dropN n (d_rest s).
Proof.
  unfold read. destruct (POW64 <=? d_off s + n); [discriminate|].
  destruct (cmp_apply OP_read (d_off s + n) (d_len s)); [|discriminate].
  intros H. injection H as <- <-. split; reflexivity.
Qed.
Lemma pres_read n : pres (read n).
Proof.
  intros s b s' H Hs. apply read_ok in H. destruct H as [_ ->]. unfold dropN. apply Forall_skipn_. exact Hs.
Qed.
Lemma pres_u8 : pres u8.
Proof.
  unfold u8. apply pres_bind; [apply pres_read|]. intros [|x b]; [apply pres_panic|apply pres_ret].
Qed.
Lemma pres_uint k : pres (uint k).
Proof.
  unfold uint. apply pres_bind; [apply pres_read|]. intros b. destruct (lenN b =? k); [apply pres_ret|apply pres_panic].
Qed.
Lemma pres_code t er rd : pres rd -> pres (code t er rd).
Proof.
  intros H. unfold code. apply pres_bind; [exact H|]. intros v. destruct (in_table t v); [apply pres_ret|apply pres_fail].
Qed.

Lemma length_zeros k : length (zeros k) = k.
Proof. induction k as [|k IH]; cbn [zeros length]; [reflexivity|]. rewrite IH. reflexivity. Qed.
Lemma zeros_ok k : bytes_ok (zeros k).
Proof. induction k as [|k IH]; cbn [zeros]; constructor; [unfold is_byte; lia|exact IH]. Qed.

Lemma rr_address_sized_ok size op e x s o s' :
  rr_address_sized size op e x s = DOk o s' -> bytes_ok (d_rest s) -> lenN o = size /\ bytes_ok o.
Proof.
  unfold rr_address_sized. intros H Hs. apply bind_ok in H. destruct H as (buffer & s1 & Hv & H).
  assert (buffer = d_rest s) as ->.
  { unfold vec in Hv. destruct (cmp_apply OP_bytes (d_off s) (d_len s)); [|discriminate].
    injection Hv as <- _. reflexivity. }
  cbv zeta in H. destruct (cmp_apply op size (lenN (d_rest s))); [discriminate|].
  destruct (size <? lenN (d_rest s)) eqn:E; [discriminate|]. apply N.ltb_ge in E.
  unfold ret in H. injection H as <- _. split.
  - rewrite lenN_app. unfold lenN at 2. rewrite length_zeros. lia.
  - apply Forall_app. split; [exact Hs|apply zeros_ok].
Qed.

Lemma rr_address_wf fam s a s' : rr_address fam s = DOk a s' -> bytes_ok (d_rest s) -> addr_wf a.
Proof.
  unfold rr_address. intros H Hs. destruct (fam =? 1).
  - apply bind_ok in H. destruct H as (o & s1 & Ho & H). unfold ret in H. injection H as <- _.
    destruct (rr_address_sized_ok _ _ _ _ _ _ _ Ho Hs) as [Hl Hb].
    split; cbn [a_fam a_oct]; [left; split; [reflexivity|exact Hl]|exact Hb].
  - apply bind_ok in H. destruct H as (o & s1 & Ho & H). unfold ret in H. injection H as <- _.
    destruct (rr_address_sized_ok _ _ _ _ _ _ _ Ho Hs) as [Hl Hb].
    split; cbn [a_fam a_oct]; [right; split; [reflexivity|exact Hl]|exact Hb].
Qed.

Lemma pres_family : pres rr_address_family_number.
Proof. unfold rr_address_family_number. apply pres_code. unfold u16. apply pres_uint. Qed.

(* decode/rr/edns/rfc_7871.rs *)
Lemma decode_ecs_inv s e s' : bytes_ok (d_rest s) -> rr_edns_ecs s = DOk e s' -> ecs_inv e.
Proof.
  intros Hs H. unfold rr_edns_ecs in H.
  apply bind_ok in H. destruct H as (fam & s1 & H1 & H). pose proof (pres_family _ _ _ H1 Hs) as Hs1.
  apply bind_ok in H. destruct H as (src & s2 & H2 & H). pose proof (pres_u8 _ _ _ H2 Hs1) as Hs2.
  apply bind_ok in H. destruct H as (scope & s3 & H3 & H). pose proof (pres_u8 _ _ _ H3 Hs2) as Hs3.
  apply bind_ok in H. destruct H as (a & s4 & H4 & H).
  apply lift_ok in H. eapply ecs_new_inv; [|exact H]. eapply rr_address_wf; eassumption.
Qed.

Lemma with_sub_ok {A} n (m : DM A) s a s' :
  with_sub n m s = DOk a s' ->
  exists b s1 c, read n s = DOk b s1 /\
                 m {| d_rest := b; d_off := 0; d_len := lenN b; d_cost := d_cost s1 |} = DOk a c.
Proof.
  unfold with_sub. destruct (read n s) as [b s1|e c|x|]; try discriminate.
  destruct (bind m _ _) as [a' c|e c|x|] eqn:E; try discriminate.
  intros H. injection H as <- _. apply bind_ok in E. destruct E as (a0 & c0 & Hm & E).
  apply bind_ok in E. destruct E as (u & c1 & _ & E). unfold ret in E. injection E as <- _.
  exists b, s1, c0. split; [reflexivity|exact Hm].
Qed.

(* decode/rr/rfc_3123.rs *)
Lemma decode_apitem_inv s i s' : bytes_ok (d_rest s) -> rr_apl_apitem s = DOk i s' -> apitem_inv i.
Proof.
  intros Hs H. unfold rr_apl_apitem in H.
  apply bind_ok in H. destruct H as (fam & s1 & H1 & H). pose proof (pres_family _ _ _ H1 Hs) as Hs1.
  apply bind_ok in H. destruct H as (p & s2 & H2 & H). pose proof (pres_u8 _ _ _ H2 Hs1) as Hs2.
  apply bind_ok in H. destruct H as (buffer & s3 & H3 & H). pose proof (pres_u8 _ _ _ H3 Hs2) as Hs3.
  cbv zeta in H.
  apply bind_ok in H. destruct H as (a & s4 & H4 & H).
  apply lift_ok in H. eapply apitem_new_inv; [|exact H].
  apply with_sub_ok in H4. destruct H4 as (b & s5 & c & Hr & Hm).
  eapply rr_address_wf; [exact Hm|]. cbn [d_rest].
  apply read_ok in Hr. destruct Hr as [-> _]. unfold takeN. apply Forall_firstn_. exact Hs3.
Qed.

(* decode/rr/edns/rfc_7873.rs *)
Lemma decode_cookie_inv s c s' : rr_edns_cookie s = DOk c s' -> cookie_inv c.
Proof.
  intros H. unfold rr_edns_cookie in H.
  apply bind_ok in H. destruct H as (v & s1 & _ & H). cbv zeta in H.
  destruct (CLIENT_COOKIE_LENGTH =? lenN v).
  - destruct (lenN v <? 8); [discriminate|]. apply lift_ok in H. eapply cookie_new_inv; exact H.
  - destruct (cookie_len_ok (lenN v)); [|discriminate].
    destruct (lenN v <? 8); [discriminate|]. apply lift_ok in H. eapply cookie_new_inv; exact H.
Qed.

(* decode/domain_name.rs *)
Lemma domain_name_label_inv nm length s nm' l s' :
  name_inv nm -> domain_name_label nm length s = DOk (nm', l) s' -> name_inv nm'.
Proof.
  intros Hn H. unfold domain_name_label in H.
  apply bind_ok in H. destruct H as (buffer & s1 & _ & H).
  destruct (utf8_valid buffer); [|discriminate].
  apply bind_ok in H. destruct H as (u & s2 & Hc & H). apply lift_ok in Hc.
  apply bind_ok in H. destruct H as (nm1 & s3 & Ha & H). apply lift_ok in Ha.
  apply bind_ok in H. destruct H as (l1 & s4 & _ & H). unfold ret in H. injection H as <- _ _.
  eapply append_label_inv; [exact Hn| |exact Ha].
  apply (proj1 (check_label_spec buffer)). destruct u. exact Hc.
Qed.

Lemma rec_loop_inv : forall f main nm recs l s nm' s',
  name_inv nm -> rec_loop f main nm recs l s = DOk nm' s' -> name_inv nm'.
Proof.
  induction f as [|f IH]; intros main nm recs l s nm' s' Hn H; cbn [rec_loop] in H; [discriminate|].
  destruct (l =? 0).
  { unfold ret in H. injection H as <- _. exact Hn. }
  destruct (is_compressed l).
  - apply bind_ok in H. destruct H as (buffer & s1 & _ & H). cbv zeta in H.
    destruct (existsb _ recs); [discriminate|].
    destruct (cmp_apply OP_dec_maxrec _ _); [discriminate|].
    apply bind_ok in H. destruct H as (l2 & s2 & _ & H). eapply IH; [exact Hn|exact H].
  - apply bind_ok in H. destruct H as ([nm1 l1] & s1 & Hd & H).
    eapply IH; [|exact H]. eapply domain_name_label_inv; eassumption.
Qed.

Lemma name_loop_inv : forall f main nm l s nm' s',
  name_inv nm -> name_loop f main nm l s = DOk nm' s' -> name_inv nm'.
Proof.
  induction f as [|f IH]; intros main nm l s nm' s' Hn H; cbn [name_loop] in H; [discriminate|].
  destruct (l =? 0).
  { unfold ret in H. injection H as <- _. exact Hn. }
  destruct (is_compressed l).
  - apply bind_ok in H. destruct H as (buffer & s1 & _ & H). cbv zeta in H.
    destruct (bind u8 _ _) as [nm2 ds|e c|x|] eqn:E; try discriminate.
    injection H as <- _. apply bind_ok in E. destruct E as (l2 & s2 & _ & E).
    eapply rec_loop_inv; [exact Hn|exact E].
  - apply bind_ok in H. destruct H as ([nm1 l1] & s1 & Hd & H).
    eapply IH; [|exact H]. eapply domain_name_label_inv; eassumption.
Qed.

Lemma decode_name_inv main s nm s' : domain_name main s = DOk nm s' -> name_inv nm.
Proof.
  unfold domain_name. intros H. apply bind_ok in H. destruct H as (l & s1 & _ & H).
  eapply name_loop_inv; [exact name_inv_nil|exact H].
Qed.

(* ================================================================================================ *)
(* 10. Summary statements used by Props/C12.v                                                        *)
(* ================================================================================================ *)

Lemma label_proof : forall l,
  (check_label l = Ok tt <-> label_inv l) /\
  (kind (check_label l) = KOk \/ kind (check_label l) = KErr).
Proof. exact check_label_spec. Qed.

Lemma error_preserves_proof :
  (forall s o, snd (ecs_step s o) <> Ok tt -> fst (ecs_step s o) = s) /\
  (forall s o, snd (apitem_step s o) <> Ok tt -> fst (apitem_step s o) = s) /\
  (forall s o, snd (cookie_step s o) <> Ok tt -> fst (cookie_step s o) = s) /\
  (forall s o, snd (name_step s o) <> Ok tt -> fst (name_step s o) = s).
Proof.
  split; [exact ecs_step_err|]. split; [exact apitem_step_err|].
  split; [exact cookie_step_err|exact name_step_err].
Qed.

(* the same, in the "Err e" form of the property text *)
Lemma error_preserves_err_proof :
  (forall s o e, snd (ecs_step s o) = Err e -> fst (ecs_step s o) = s) /\
  (forall s o e, snd (apitem_step s o) = Err e -> fst (apitem_step s o) = s) /\
  (forall s o e, snd (cookie_step s o) = Err e -> fst (cookie_step s o) = s) /\
  (forall s o e, snd (name_step s o) = Err e -> fst (name_step s o) = s).
Proof.
  split; [|split; [|split]]; intros s o e H.
  - apply ecs_step_err. rewrite H. discriminate.
  - apply apitem_step_err. rewrite H. discriminate.
  - apply cookie_step_err. rewrite H. discriminate.
  - apply name_step_err. rewrite H. discriminate.
Qed.

Lemma constructors_proof :
  (forall src scope a e, addr_wf a -> ecs_new src scope a = Ok e -> ecs_inv e) /\
  (forall p neg a i, addr_wf a -> apitem_new p neg a = Ok i -> apitem_inv i) /\
  (forall client o c, cookie_new client o = Ok c -> cookie_inv c) /\
  (forall s n, name_from_str s = Ok n -> name_inv n) /\
  name_inv [].
Proof.
  split; [exact ecs_new_inv|]. split; [exact apitem_new_inv|]. split; [exact cookie_new_inv|].
  split; [exact name_from_str_inv|exact name_inv_nil].
Qed.

Lemma steps_proof :
  (forall s o, ecs_op_wf o -> opt_inv ecs_inv s -> opt_inv ecs_inv (fst (ecs_step s o))) /\
  (forall s o, apitem_op_wf o -> opt_inv apitem_inv s -> opt_inv apitem_inv (fst (apitem_step s o))) /\
  (forall s o, opt_inv cookie_inv s -> opt_inv cookie_inv (fst (cookie_step s o))) /\
  (forall s o, opt_inv name_inv s -> opt_inv name_inv (fst (name_step s o))).
Proof.
  split; [exact ecs_step_inv|]. split; [exact apitem_step_inv|].
  split; [exact cookie_step_inv|exact name_step_inv].
Qed.

Lemma total_proof :
  (forall s o, ecs_op_wf o -> opt_inv ecs_inv s ->
     kind (snd (ecs_step s o)) = KOk \/ kind (snd (ecs_step s o)) = KErr) /\
  (forall s o, apitem_op_wf o -> opt_inv apitem_inv s ->
     kind (snd (apitem_step s o)) = KOk \/ kind (snd (apitem_step s o)) = KErr) /\
  (forall s o, kind (snd (cookie_step s o)) = KOk \/ kind (snd (cookie_step s o)) = KErr) /\
  (forall s o, kind (snd (name_step s o)) = KOk \/ kind (snd (name_step s o)) = KErr).
Proof.
  split; [exact ecs_step_total|]. split; [exact apitem_step_total|].
  split; [exact cookie_step_total|exact name_step_total].
Qed.

Lemma decode_proof :
  (forall s e s', bytes_ok (d_rest s) -> rr_edns_ecs s = DOk e s' -> ecs_inv e) /\
  (forall s i s', bytes_ok (d_rest s) -> rr_apl_apitem s = DOk i s' -> apitem_inv i) /\
  (forall s c s', rr_edns_cookie s = DOk c s' -> cookie_inv c) /\
  (forall main s nm s', domain_name main s = DOk nm s' -> name_inv nm).
Proof.
  split; [exact decode_ecs_inv|]. split; [exact decode_apitem_inv|].
  split; [exact decode_cookie_inv|exact decode_name_inv].
Qed.

Lemma strings_complete_proof :
  (forall t, tag_inv t -> tag_try_from t = Ok t) /\
  (forall t, digits_inv t -> psdn_try_from t = Ok t) /\
  (forall t, digits_inv t -> isdn_try_from t = Ok t) /\
  (forall t, sa_inv t -> sa_try_from t = Ok t) /\
  (forall (A : Type) (l : list A), nonempty_inv l -> nonempty_try_from l = Ok l).
Proof.
  split; [exact tag_try_from_complete|].
  split; [intros t; exact (proj2 (psdn_try_from_spec t))|].
  split; [intros t; exact (proj2 (isdn_try_from_spec t))|].
  split; [intros t; exact (proj2 (sa_try_from_spec t))|].
  intros A l. exact (proj2 (nonempty_try_from_spec l)).
Qed.

Lemma history_from_proof :
  (forall s ops, opt_inv ecs_inv s -> Forall ecs_op_wf ops -> opt_inv ecs_inv (run ecs_step ops s)) /\
  (forall s ops, opt_inv apitem_inv s -> Forall apitem_op_wf ops -> opt_inv apitem_inv (run apitem_step ops s)) /\
  (forall s ops, opt_inv cookie_inv s -> opt_inv cookie_inv (run cookie_step ops s)) /\
  (forall s ops, opt_inv name_inv s -> opt_inv name_inv (run name_step ops s)).
Proof.
  split; [exact ecs_history_from|]. split; [exact apitem_history_from|].
  split; [exact cookie_history_from|exact name_history_from].
Qed.
