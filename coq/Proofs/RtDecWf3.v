(* C02 — every decoded value is well formed (part 3): SVCB/HTTPS, the record dispatch, records,
   questions, header flags, the message; then the re-encode theorem. *)
From Coq Require Import ZArith ZifyBool ZifyN ZifyNat Sorted.
From DNS Require Import Model.Dec Model.Enc Proofs.DecBase Proofs.DecName Proofs.DecNameSpec Proofs.C12
  Proofs.DecSafe Proofs.DecTotal Proofs.SvcbSet Proofs.SvcbDec Proofs.EncTyped
  Proofs.RtBase Proofs.RtPrim Proofs.RtFields Proofs.RtRecord Proofs.RtSpecial Proofs.RtApl Proofs.RtMsg
  Proofs.C05 Proofs.RtDecWf Proofs.RtDecWf2.
Local Open Scope N_scope.
Ltac Zify.zify_post_hook ::= Z.div_mod_to_equations.

Lemma keys_sorted_b (ps : list svcparam) : keys_sorted ps -> keys_sortedb ps = true.
Proof.
  induction ps as [|p r IH]; intros H; [reflexivity|].
  destruct (keys_sorted_cons_inv p r H) as [Hr Hp]. cbn [keys_sortedb]. rewrite (IH Hr), andb_true_r.
  apply forallb_forall. rewrite Forall_forall in Hp. intros q Hq. specialize (Hp q Hq). lia.
Qed.

Lemma Forall_forallb {A} (f : A -> bool) (l : list A) : Forall (fun x => f x = true) l -> forallb f l = true.
Proof. intros H. apply forallb_forall. rewrite Forall_forall in H. exact H. Qed.

Section Main.
Variable main : bytes.
Hypothesis Hb : bytes_ok main.
Hypothesis Hm : lenN main < WFMAX.

(* ================= SVCB / HTTPS ================= *)
Lemma valP_service_parameter (key : N) : key < 65536 ->
  valP (fun p => param_wfb p = true) (rr_service_parameter key).
Proof.
  intros Hk. unfold rr_service_parameter.
  destruct (key =? 0) eqn:E0.
  { apply (valP_many_loop (fun k => k < 65536)); [apply safe0_u16|exact valP_u16|].
    intros l Hl. apply valP_ret. cbn [param_wfb]. apply Forall_forallb. eapply Forall_impl; [|exact Hl]. intros a Ha. cbv beta in *. lia. }
  destruct (key =? 1) eqn:E1.
  { apply (valP_many_loop (fun b => str_wf b = true)); [apply safe0_string|exact valP_string|].
    intros l Hl. apply valP_ret. cbn [param_wfb]. apply Forall_forallb, Hl. }
  destruct (key =? 2) eqn:E2; [apply valP_ret; reflexivity|].
  destruct (key =? 3) eqn:E3.
  { apply (valP_bind _ _ _ _ safe0_u16 valP_u16). intros p Hp. apply valP_ret. cbn [param_wfb]. lia. }
  destruct (key =? 4) eqn:E4.
  { apply (valP_many_loop (fun a => a < 4294967296)); [apply safe0_ipv4|exact valP_u32|].
    intros l Hl. apply valP_ret. cbn [param_wfb]. apply Forall_forallb. eapply Forall_impl; [|exact Hl]. intros a Ha. cbv beta in *. lia. }
  destruct (key =? 5) eqn:E5.
  { apply (valP_bind _ _ _ _ safe0_u16 valP_u16). intros len Hlen.
    apply (valP_bind _ _ _ _ safe0_vec valP_vec). intros cl Hcl.
    destruct (negb (lenN cl =? len)) eqn:En; [apply valP_fail|]. apply valP_ret. cbn [param_wfb].
    rewrite (bytes_ok_okb cl Hcl). apply negb_false_iff in En. lia. }
  destruct (key =? 6) eqn:E6.
  { apply (valP_many_loop (fun a : bytes => lenN a = 16 /\ bytes_ok a)); [apply safe0_ipv6|exact valP_ipv6|].
    intros l Hl. apply valP_ret. cbn [param_wfb]. apply Forall_forallb. eapply Forall_impl; [|exact Hl].
    intros a [Ha1 Ha2]. cbv beta in *. rewrite (bytes_ok_okb a Ha2). lia. }
  destruct (key =? 65535) eqn:E7; [apply valP_ret; reflexivity|].
  apply (valP_bind _ _ _ _ safe0_vec valP_vec). intros d Hd. apply valP_ret. cbn [param_wfb].
  rewrite (bytes_ok_okb d Hd). lia.
Qed.

Definition params_post (ps : list svcparam) : Prop :=
  keys_sorted ps /\ Forall (fun p => param_wfb p = true) ps.

Lemma sub_param_safe0 (len key : N) : len < 65536 -> safe0 (with_sub len (rr_service_parameter key)).
Proof.
  intros H. apply (safeP_safe0 len anyv). apply safeP_with_sub; [unfold WFMAX; lia|apply (safe0_service_parameter main Hm)].
Qed.

Lemma svc_params_post : forall (fuel : nat) (acc : list svcparam), params_post acc ->
  valP params_post (svc_params fuel acc) /\ wfP (svc_params fuel acc).
Proof.
  induction fuel as [|f IH]; intros acc Hacc; [split; intros s a s' _ E; discriminate|].
  rewrite DecTotal.svc_params_S.
  assert (forall key len, key < 65536 -> len < 65536 ->
            valP params_post (p <- with_sub len (rr_service_parameter key) ;;
                              let '(acc', inserted) := set_insert p acc in
                              if inserted then svc_params f acc' else fail (ESVCBDuplicateKey, [key])) /\
            wfP (p <- with_sub len (rr_service_parameter key) ;;
                 let '(acc', inserted) := set_insert p acc in
                 if inserted then svc_params f acc' else fail (ESVCBDuplicateKey, [key]))) as Hstep.
  { intros key len Hk Hl.
    assert (forall p, param_wfb p = true ->
              valP params_post (let '(acc', inserted) := set_insert p acc in
                                if inserted then svc_params f acc' else fail (ESVCBDuplicateKey, [key])) /\
              wfP (let '(acc', inserted) := set_insert p acc in
                   if inserted then svc_params f acc' else fail (ESVCBDuplicateKey, [key]))) as Hins.
    { intros p Hp. destruct Hacc as [Hs Hw].
      pose proof (set_insert_sorted p acc Hs) as Hs'. pose proof (set_insert_In p acc) as Hin.
      destruct (set_insert p acc) as [acc' ins]. cbn [fst] in Hs', Hin.
      destruct ins; [|split; intros s a s' _ E; discriminate].
      apply IH. split; [exact Hs'|]. rewrite Forall_forall in *. intros x Hx.
      destruct (Hin x Hx) as [->|Hx']; [exact Hp|apply Hw, Hx']. }
    split.
    - apply (valP_bind (fun p => param_wfb p = true)); [apply sub_param_safe0, Hl| |].
      + apply valP_with_sub; [unfold WFMAX; lia|apply valP_service_parameter, Hk].
      + intros p Hp. apply (Hins p Hp).
    - intros s a s' W E. unfold bind in E.
      destruct (with_sub len (rr_service_parameter key) s) as [p s1|e c|x|] eqn:Ew; try discriminate.
      assert (param_wfb p = true) as Hp.
      { exact (valP_with_sub _ len _ ltac:(unfold WFMAX; lia) (valP_service_parameter key Hk) s p s1 W Ew). }
      exact (proj2 (Hins p Hp) s1 a s' (safe0_wf _ s p s1 (sub_param_safe0 len key Hl) W Ew) E). }
  split.
  - apply valP_bind0; [apply safe0_is_finished|]. intros [|]; [apply valP_ret, Hacc|].
    apply (valP_bind _ _ _ _ safe0_u16 valP_u16). intros key Hk.
    apply (valP_bind _ _ _ _ safe0_u16 valP_u16). intros len Hl. apply (Hstep key len Hk Hl).
  - apply wfP_bind; [apply wfP_safe0, safe0_is_finished|]. intros [|]; [apply wfP_ret|].
    intros s a s' W E. unfold bind in E.
    destruct (u16 s) as [key s1|e c|x|] eqn:E1; try discriminate.
    destruct (u16 s1) as [len s2|e c|x|] eqn:E2; try discriminate.
    pose proof (safe0_wf _ _ _ _ safe0_u16 W E1) as W1. pose proof (safe0_wf _ _ _ _ safe0_u16 W1 E2) as W2.
    exact (proj2 (Hstep key len (valP_u16 s key s1 W E1) (valP_u16 s1 len s2 W1 E2)) s2 a s' W2 E).
Qed.

Definition svcb_post (hclass : N) (d : rdata) : Prop :=
  hclass = 1 /\ exists prio target params,
    d = RSvcb prio target params /\ prio < 65536 /\ name_wf target = true /\
    forallb param_wfb params = true /\ keys_sortedb params = true /\
    (negb (prio =? 0) || is_nil params) = true.

Lemma valP_service_binding (hclass : N) : valP (svcb_post hclass) (rr_service_binding main hclass).
Proof.
  unfold rr_service_binding.
  apply (valP_bind _ _ _ _ (safe0_class_rule _ _) (valP_class_rule main Hm (CKIn ESVCBClass) hclass)). intros c Hc.
  assert (hclass = 1) as Hh by (destruct Hc as [<- H1]; exact H1).
  apply (valP_bind _ _ _ _ safe0_u16 valP_u16). intros prio Hp.
  apply (valP_bind _ _ _ _ (safe0_domain_name main Hb Hm) (valP_domain_name main Hb Hm)). intros target Ht.
  destruct (negb (prio =? 0)) eqn:Ep.
  - apply valP_loop_fuel. intros n.
    assert (params_post []) as P0 by (split; constructor).
    destruct (svc_params_post n [] P0) as [Hv Hw].
    apply (valP_bind_w _ _ _ _ Hw Hv). intros ps [Hs Hwf]. apply valP_ret. split; [exact Hh|].
    exists prio, target, ps. split; [reflexivity|]. split; [exact Hp|]. split; [exact Ht|].
    split; [apply Forall_forallb, Hwf|]. split; [apply keys_sorted_b, Hs|]. rewrite Ep. reflexivity.
  - apply valP_ret. split; [exact Hh|]. exists prio, target, []. split; [reflexivity|].
    split; [exact Hp|]. split; [exact Ht|]. split; [reflexivity|]. split; [reflexivity|]. rewrite Ep. reflexivity.
Qed.

(* ================= the record dispatch ================= *)
Lemma valP_rr_body (type_ : N) (owner : name) (hclass ttl : N) :
  in_table Type_table type_ = true -> name_wf owner = true -> hclass < 65536 -> ttl < 4294967296 ->
  valP (fun r => rr_wf r = true) (rr_body main type_ owner hclass ttl).
Proof.
  intros Hty Hn Hcl Httl. unfold rr_body.
  assert (rr_common_wf {| r_type := type_; r_name := owner; r_class := 0; r_ttl := ttl; r_data := RFields [] |} = true) as Hcommon.
  { unfold rr_common_wf. cbn [r_name r_type r_ttl]. rewrite Hn, Hty. cbn [andb]. lia. }
  destruct (lookup type_ dec_dispatch) as [[ck f|sp]|] eqn:El; [| |apply valP_fail].
  - pose proof (dec_entry_lookup _ _ El) as Ha. unfold dec_entry_agrees in Ha. rewrite El in Ha.
    destruct Ha as (ec & Henc & Hcm & Hfok).
    apply (valP_bind _ _ _ _ (safe0_class_rule _ _) (valP_class_rule main Hm ck hclass)). intros c Hc.
    apply (valP_bind _ _ _ _ (safe0_read_fields main Hb Hm f Hfok) (valP_read_fields main Hb Hm f Hfok)). intros vs Hvs.
    apply valP_ret. unfold rr_wf. cbn [r_type]. rewrite Henc. unfold plain_wf. cbn [r_type r_data r_class].
    rewrite Henc. unfold rr_common_wf in *. cbn [r_name r_type r_ttl] in *. rewrite Hcommon. cbn [andb].
    assert (dec_value_fields type_ = filter (fun p => has_value (snd p)) f) as -> by (unfold dec_value_fields; rewrite El; reflexivity).
    rewrite Hvs. cbn [andb].
    destruct ec; destruct ck; try discriminate.
    + exact (proj2 Hc).
    + destruct Hc as [_ ->]. reflexivity.
  - pose proof (dec_entry_lookup _ _ El) as Ha. unfold dec_entry_agrees in Ha. rewrite El in Ha.
    destruct Ha as [Henc Ht].
    destruct sp; cbn [special_type] in Ht; subst type_.
    + apply (valP_bind _ _ _ _ (safe0_opt main Hm owner hclass ttl) (valP_opt main Hm owner hclass ttl)).
      intros d (_ & ext & ver & dn & opts & -> & He & Hv & Ho). apply valP_ret.
      unfold rr_wf. cbn [r_type]. rewrite Henc. unfold opt_rr_wf. cbn [r_type r_name r_class r_ttl r_data is_nil].
      rewrite Ho. cbn [N.eqb Pos.eqb andb]. lia.
    + apply (valP_bind _ _ _ _ (safe0_apl main Hm hclass) (valP_apl main Hm hclass)).
      intros d (_ & items & -> & Hi). apply valP_ret.
      unfold rr_wf. cbn [r_type]. rewrite Henc. unfold apl_rr_wf. cbn [r_type r_class r_data].
      unfold rr_common_wf in *. cbn [r_name r_type r_ttl] in *. rewrite Hcommon, Hi. reflexivity.
    + apply (valP_bind _ _ _ _ (safe0_service_binding main Hb Hm hclass) (valP_service_binding hclass)).
      intros d (_ & prio & target & params & -> & Hp & Htg & Hpw & Hks & Hal). apply valP_ret.
      unfold rr_wf. cbn [r_type]. rewrite Henc. unfold svcb_rr_wf. cbn [r_type r_class r_data].
      unfold rr_common_wf in *. cbn [r_name r_type r_ttl] in *. rewrite Hcommon, Htg, Hpw, Hks, Hal.
      cbn [N.eqb Pos.eqb orb andb CLASS_IN]. lia.
    + apply (valP_bind _ _ _ _ (safe0_service_binding main Hb Hm hclass) (valP_service_binding hclass)).
      intros d (_ & prio & target & params & -> & Hp & Htg & Hpw & Hks & Hal). apply valP_ret.
      unfold rr_wf. cbn [r_type]. rewrite Henc. unfold svcb_rr_wf. cbn [r_type r_class r_data].
      unfold rr_common_wf in *. cbn [r_name r_type r_ttl] in *. rewrite Hcommon, Htg, Hpw, Hks, Hal.
      cbn [N.eqb Pos.eqb orb andb CLASS_IN]. lia.
Qed.

Lemma valP_rr : valP (fun r => rr_wf r = true) (rr_ main).
Proof.
  unfold rr_.
  apply (valP_bind _ _ _ _ (safe0_domain_name main Hb Hm) (valP_domain_name main Hb Hm)). intros owner Ho.
  apply (valP_bind (fun t => t < 65536 /\ in_table Type_table t = true)); [apply safe0_rr_type| |].
  { unfold rr_type. apply valP_code; [apply safe0_u16|exact valP_u16]. }
  intros type_ [_ Hty].
  apply (valP_bind _ _ _ _ safe0_u16 valP_u16). intros hclass Hcl.
  apply (valP_bind _ _ _ _ safe0_u32 valP_u32). intros ttl Httl.
  apply (valP_bind _ _ _ _ safe0_u16 valP_u16). intros rdl Hrdl.
  apply valP_with_sub; [unfold WFMAX; lia|]. apply valP_rr_body; assumption.
Qed.

Lemma valP_question : valP (fun q => question_wf q = true) (question_ main).
Proof.
  unfold question_.
  apply (valP_bind _ _ _ _ (safe0_domain_name main Hb Hm) (valP_domain_name main Hb Hm)). intros n Hn.
  apply (valP_bind (fun t => t < 65536 /\ in_table QType_table t = true)); [apply safe0_q_type| |].
  { unfold rd_q_type. apply valP_code; [apply safe0_u16|exact valP_u16]. }
  intros t [_ Ht].
  apply (valP_bind (fun t => t < 65536 /\ in_table QClass_table t = true)); [apply safe0_q_class| |].
  { unfold rd_q_class. apply valP_code; [apply safe0_u16|exact valP_u16]. }
  intros c [_ Hc]. apply valP_ret. unfold question_wf. cbn [q_name q_type q_class]. rewrite Hn, Ht, Hc. reflexivity.
Qed.
End Main.

Lemma valP_flags : valP (fun f => flags_wf f = true) flags_.
Proof.
  unfold flags_. apply valP_bind0; [apply safe0_u8|]. intros b0. cbv zeta.
  destruct (negb (in_table Opcode_table (fbit DEC_FLAG_opcode b0 0))) eqn:Eo; [apply valP_fail|].
  apply valP_bind0; [apply safe0_u8|]. intros b1. cbv zeta.
  destruct (negb (fbit DEC_FLAG_z b0 b1 =? 0)); [apply valP_fail|].
  destruct (negb (in_table RCode_table (fbit DEC_FLAG_rcode b0 b1))) eqn:Er; [apply valP_fail|].
  apply valP_ret. unfold flags_wf. cbn [f_opcode f_rcode].
  apply negb_false_iff in Eo, Er. rewrite Eo, Er. cbn [andb].
  assert (fbit DEC_FLAG_rcode b0 b1 = N.land b1 15) as -> by (unfold fbit, DEC_FLAG_rcode; cbn [N.eqb]; apply N.shiftr_0_r).
  pose proof (land_15 b1). lia.
Qed.

Lemma valP_repeat {A} (Q : A -> Prop) (m : DM A) : safe0 m -> valP Q m ->
  forall n : nat, valP (fun l => Forall Q l /\ length l = n) (repeat_dm n m).
Proof.
  intros Hs Hm. induction n as [|n IH]; cbn [repeat_dm]; [apply valP_ret; split; [constructor|reflexivity]|].
  apply (valP_bind _ _ _ _ Hs Hm). intros x Hx.
  apply (valP_bind _ _ _ _ (safe0_repeat m n Hs) IH). intros r [Hr Hl].
  apply valP_ret. split; [constructor; assumption|cbn [length]; lia].
Qed.

Lemma valP_dns_chain (main : bytes) : bytes_ok main -> lenN main < WFMAX ->
  valP (fun m => dns_wf m = true) (dns_chain main).
Proof.
  intros Hb Hm. unfold dns_chain, dns_tail.
  apply (valP_bind _ _ _ _ safe0_u16 valP_u16). intros id Hid.
  apply (valP_bind _ _ _ _ safe0_flags valP_flags). intros fl Hfl.
  apply (valP_bind _ _ _ _ safe0_u16 valP_u16). intros qc Hqc.
  apply (valP_bind _ _ _ _ safe0_u16 valP_u16). intros ac Hac.
  apply (valP_bind _ _ _ _ safe0_u16 valP_u16). intros nc Hnc.
  apply (valP_bind _ _ _ _ safe0_u16 valP_u16). intros rc Hrc.
  apply (valP_bind _ _ _ _ (safe0_repeat _ _ (safe0_question main Hb Hm))
           (valP_repeat _ _ (safe0_question main Hb Hm) (valP_question main Hb Hm) _)). intros qd [Hqd Lqd].
  apply (valP_bind _ _ _ _ (safe0_repeat _ _ (safe0_rr main Hb Hm))
           (valP_repeat _ _ (safe0_rr main Hb Hm) (valP_rr main Hb Hm) _)). intros an [Han Lan].
  apply (valP_bind _ _ _ _ (safe0_repeat _ _ (safe0_rr main Hb Hm))
           (valP_repeat _ _ (safe0_rr main Hb Hm) (valP_rr main Hb Hm) _)). intros ns [Hns Lns].
  apply (valP_bind _ _ _ _ (safe0_repeat _ _ (safe0_rr main Hb Hm))
           (valP_repeat _ _ (safe0_rr main Hb Hm) (valP_rr main Hb Hm) _)). intros ar [Har Lar].
  apply valP_bind0; [apply safe0_is_finished|]. intros [|]; [|apply valP_err].
  apply valP_ret. unfold dns_wf, dns_wf_gen. cbn [m_id m_flags m_qd m_an m_ns m_ar].
  rewrite Hfl, (Forall_forallb _ _ Hqd), (Forall_forallb _ _ Han), (Forall_forallb _ _ Hns), (Forall_forallb _ _ Har).
  unfold lenN. rewrite Lqd, Lan, Lns, Lar. cbn [andb]. lia.
Qed.

Theorem decoded_wf (b : bytes) (m : dns) (s : dst) :
  bytes_ok b -> dec_Dns b = DOk m s -> dns_wf m = true.
Proof.
  intros Hb E. unfold dec_Dns, Dec.run in E. rewrite dns_unfold in E. cbn [mk_main d_off d_len d_cost] in E.
  change (negb (0 =? 0)) with false in E. cbv iota in E.
  destruct (cmp_apply OP_dns_min (lenN b) DNS_MIN_LENGTH); [discriminate|].
  change OP_dns_max with CGt in E. cbn [cmp_apply] in E. change MAXIMUM_DNS_PACKET_SIZE with 65536 in E.
  destruct (65536 <? lenN b) eqn:Emax; [discriminate|].
  assert (lenN b < WFMAX) as Hm by (unfold WFMAX; lia).
  exact (valP_dns_chain b Hb Hm (mk_main b) m s (mk_main_wf b Hb Hm) E).
Qed.

Theorem C02_reencode_proof : forall (b : bytes) (m : dns) (s : dst) (b' : bytes),
  bytes_ok b -> dec_Dns b = DOk m s -> enc_Dns m = Ok b' ->
  exists m' s', dec_Dns b' = DOk m' s' /\ dns_eqv m' m.
Proof.
  intros b m s b' Hb Hd He. exact (C05_roundtrip_proof m b' (decoded_wf b m s Hb Hd) He).
Qed.

Theorem decoded_rr_wf (main : bytes) (s : dst) (r : rr) (s' : dst) :
  bytes_ok main -> lenN main < 2 ^ 62 -> dst_wf s -> rr_ main s = DOk r s' -> rr_wf r = true.
Proof. intros Hb Hm W E. rewrite <- WFMAX_val in Hm. exact (valP_rr main Hb Hm s r s' W E). Qed.

Theorem decoded_question_wf (main : bytes) (s : dst) (q : question) (s' : dst) :
  bytes_ok main -> lenN main < 2 ^ 62 -> dst_wf s -> question_ main s = DOk q s' -> question_wf q = true.
Proof. intros Hb Hm W E. rewrite <- WFMAX_val in Hm. exact (valP_question main Hb Hm s q s' W E). Qed.

Theorem decoded_name_wf (main : bytes) (s : dst) (n : name) (s' : dst) :
  bytes_ok main -> lenN main < 2 ^ 62 -> dst_wf s -> domain_name main s = DOk n s' -> name_wf n = true.
Proof. intros Hb Hm W E. rewrite <- WFMAX_val in Hm. exact (valP_domain_name main Hb Hm s n s' W E). Qed.
