(* Termination with the fixed fuel, absence of panics, size/cost/hop bounds of the name reader. *)
From Coq Require Import ZifyBool ZifyN ZifyNat.
From DNS Require Import Model.Dec Proofs.DecBase Proofs.DecName.
Local Open Scope N_scope.

Lemma lab_step_inv nm len s nm' l s' : lab_step nm len s (LOk nm' l s') ->
  1 <= len /\ len < 64 /\ d_off s + len + 1 <= d_len s /\
  lenN (takeN len (d_rest s)) = len /\ utf8_valid (takeN len (d_rest s)) = true /\
  tl nm + len + 1 <= 254 /\ nthN len (d_rest s) = Some l /\ l < 256 /\
  nm' = nm ++ [takeN len (d_rest s)] /\ s' = adv (len + 1) s.
Proof.
  intro H. inversion H; subst.
  split; [assumption|]. split; [assumption|]. split; [assumption|]. split; [assumption|].
  split; [assumption|]. split; [assumption|]. split; [assumption|]. split; [assumption|].
  split; reflexivity.
Qed.

Lemma lab_step_ok nm len s l : Forall label_ok nm -> dst_wf s ->
  lab_step nm len s (LOk (nm ++ [takeN len (d_rest s)]) l (adv (len + 1) s)) ->
  Forall label_ok (nm ++ [takeN len (d_rest s)]) /\
  tl (nm ++ [takeN len (d_rest s)]) = tl nm + len + 1 /\ tl nm + len + 1 <= 254 /\ 1 <= len /\
  dst_wf (adv (len + 1) s) /\ l < 256 /\ d_off s + len + 1 <= d_len s.
Proof.
  intros Hf W Hs. apply lab_step_inv in Hs.
  destruct Hs as (I1 & I2 & I3 & I4 & I5 & I6 & I7 & I8 & _).
  split.
  { apply Forall_app. split; [exact Hf|]. constructor; [|constructor].
    unfold label_ok. rewrite I4. split; [lia|]. split; [lia|assumption]. }
  rewrite tl_snoc, I4. split; [reflexivity|]. split; [assumption|]. split; [assumption|].
  split; [apply adv_wf; [exact W|lia]|]. split; assumption.
Qed.

(* [c0]: the counter when the name started; potential: 1 + tl nm + 2 per pointer followed *)
Definition ERR_COST : N := 544.
Definition OK_COST : N := 289.

Section Main.
Variable main : bytes.
Hypothesis Hb : bytes_ok main.
Hypothesis Hm : lenN main < WFMAX.

Lemma rec_loop_spec : forall f nm recs len s c0,
  dst_wf s -> len < 256 -> tl nm <= 254 -> Forall label_ok nm -> lenN recs <= 16 -> NoDup recs ->
  (N.to_nat (254 - tl nm) + (16 - length recs) < f)%nat ->
  c0 + 1 <= d_cost s -> d_cost s <= c0 + 1 + tl nm + 2 * (1 + lenN recs) ->
  match rec_loop_g f main nm recs len s with
  | DOk (n, rs) s' =>
      tl n <= 254 /\ Forall label_ok n /\ lenN rs <= 16 /\ NoDup rs /\
      d_cost s <= d_cost s' /\ d_cost s' <= c0 + 1 + tl n + 2 * (1 + lenN rs)
  | DErr e c => d_cost s <= c /\ c <= c0 + ERR_COST
  | DPanic _ => False
  | DFuel => False
  end.
Proof.
  induction f as [|f IH]; intros nm recs len s c0 W Hl Ht Hf Hr Hnd Hfu Hc1 Hc2; [lia|].
  destruct (rec_step main f nm recs len s Hb Hm W Hl) as (o & Hs & ->).
  assert (Hrl : lenN recs = N.of_nat (length recs)) by reflexivity.
  unfold ERR_COST in *.
  inversion Hs; subst; cbn [rec_run].
  - (* done *) split; [exact Ht|]. split; [exact Hf|]. split; [exact Hr|]. split; [exact Hnd|]. lia.
  - lia.
  - lia.
  - lia.
  - lia.
  - (* pointer followed *)
    specialize (IH nm (target len b :: recs) l (jump main (target len b + 1) (d_cost s + 2)) c0).
    assert (Ht' : target len b < 16384) by (apply target_lt; lia).
    rewrite lenN_cons in IH. cbn [jump d_cost length] in IH.
    assert (P : match rec_loop_g f main nm (target len b :: recs) l
                        (jump main (target len b + 1) (d_cost s + 2)) with
      | DOk (n, rs) s' =>
          tl n <= 254 /\ Forall label_ok n /\ lenN rs <= 16 /\ NoDup rs /\
          d_cost s + 2 <= d_cost s' /\ d_cost s' <= c0 + 1 + tl n + 2 * (1 + lenN rs)
      | DErr e c => d_cost s + 2 <= c /\ c <= c0 + 544
      | DPanic _ => False
      | DFuel => False
      end).
    { apply IH; try assumption; try lia.
      - apply jump_wf; try assumption. unfold WFMAX. lia.
      - constructor; assumption. }
    destruct (rec_loop_g f main nm (target len b :: recs) l (jump main (target len b + 1) (d_cost s + 2)))
      as [[n rs] s'|e c| |]; try exact P.
    + destruct P as (P1 & P2 & P3 & P4 & P5 & P6).
      split; [exact P1|]. split; [exact P2|]. split; [exact P3|]. split; [exact P4|]. lia.
    + lia.
  - lia.
  - (* label *)
    match goal with HL : lab_step _ _ _ _ |- _ =>
      destruct (lab_step_ok nm len s l Hf W HL) as (L1 & L2 & L3 & L4 & L5 & L6 & L7) end.
    specialize (IH (nm ++ [takeN len (d_rest s)]) recs l (adv (len + 1) s) c0).
    rewrite L2 in IH. cbn [adv d_cost] in IH.
    assert (P : match rec_loop_g f main (nm ++ [takeN len (d_rest s)]) recs l (adv (len + 1) s) with
      | DOk (n, rs) s' =>
          tl n <= 254 /\ Forall label_ok n /\ lenN rs <= 16 /\ NoDup rs /\
          d_cost s + (len + 1) <= d_cost s' /\ d_cost s' <= c0 + 1 + tl n + 2 * (1 + lenN rs)
      | DErr e c => d_cost s + (len + 1) <= c /\ c <= c0 + 544
      | DPanic _ => False
      | DFuel => False
      end).
    { apply IH; try assumption; lia. }
    destruct (rec_loop_g f main (nm ++ [takeN len (d_rest s)]) recs l (adv (len + 1) s))
      as [[n rs] s'|e c| |]; try exact P.
    + destruct P as (P1 & P2 & P3 & P4 & P5 & P6).
      split; [exact P1|]. split; [exact P2|]. split; [exact P3|]. split; [exact P4|]. lia.
    + lia.
Qed.

Lemma name_loop_spec : forall f nm len s c0,
  dst_wf s -> len < 256 -> tl nm <= 254 -> Forall label_ok nm ->
  (N.to_nat (254 - tl nm) < f)%nat ->
  c0 + 1 <= d_cost s -> d_cost s <= c0 + 1 + tl nm ->
  match name_loop_g f main nm len s with
  | DOk (n, tg) s' =>
      dst_wf s' /\ d_len s' = d_len s /\ d_off s <= d_off s' /\
      d_rest s' = dropN (d_off s' - d_off s) (d_rest s) /\
      tl n <= 254 /\ Forall label_ok n /\ lenN tg <= 17 /\
      d_cost s <= d_cost s' /\ d_cost s' <= c0 + 1 + tl n + 2 * lenN tg
  | DErr e c => d_cost s <= c /\ c <= c0 + ERR_COST
  | DPanic _ => False
  | DFuel => False
  end.
Proof.
  induction f as [|f IH]; intros nm len s c0 W Hl Ht Hf Hfu Hc1 Hc2; [lia|].
  destruct (name_step main f nm len s Hb Hm W Hl) as (o & Hs & ->).
  unfold ERR_COST in *.
  inversion Hs; subst; cbn [name_run].
  - (* done *)
    split; [exact W|]. split; [reflexivity|]. split; [lia|].
    split; [rewrite N.sub_diag; reflexivity|]. split; [exact Ht|]. split; [exact Hf|].
    rewrite lenN_nil. lia.
  - lia.
  - lia.
  - (* pointer: enter the recursion loop *)
    unfold jump_run.
    assert (Ht' : target len b < 16384) by (apply target_lt; lia).
    pose proof (rec_loop_spec NAMEFUEL nm [] l (jump main (target len b + 1) (d_cost s + 2)) c0) as P.
    rewrite lenN_nil in P. cbn [jump d_cost length] in P.
    assert (P' : match rec_loop_g NAMEFUEL main nm [] l (jump main (target len b + 1) (d_cost s + 2)) with
      | DOk (n, rs) s' =>
          tl n <= 254 /\ Forall label_ok n /\ lenN rs <= 16 /\ NoDup rs /\
          d_cost s + 2 <= d_cost s' /\ d_cost s' <= c0 + 1 + tl n + 2 * (1 + lenN rs)
      | DErr e c => d_cost s + 2 <= c /\ c <= c0 + 544
      | DPanic _ => False
      | DFuel => False
      end).
    { apply P; try assumption; try lia.
      - apply jump_wf; try assumption. unfold WFMAX. lia.
      - constructor.
      - pose proof NAMEFUEL_rec. lia. }
    clear P.
    destruct (rec_loop_g NAMEFUEL main nm [] l (jump main (target len b + 1) (d_cost s + 2)))
      as [[n rs] s'|e c| |]; try exact P'.
    + destruct P' as (P1 & P2 & P3 & P4 & P5 & P6).
      assert (W1 : dst_wf (adv 1 s)) by (apply adv_wf; [exact W|lia]).
      split. { destruct W1 as (A1 & A2 & A3 & A4). split; [exact A1|]. split; [exact A2|]. split; [exact A3|exact A4]. }
      cbn [set_cost adv d_len d_off d_rest d_cost].
      split; [reflexivity|]. split; [lia|].
      split; [f_equal; lia|]. split; [exact P1|]. split; [exact P2|].
      rewrite lenN_cons. unfold lenN in *. rewrite rev_length. lia.
    + lia.
  - lia.
  - (* label *)
    match goal with HL : lab_step _ _ _ _ |- _ =>
      destruct (lab_step_ok nm len s l Hf W HL) as (L1 & L2 & L3 & L4 & L5 & L6 & L7) end.
    specialize (IH (nm ++ [takeN len (d_rest s)]) l (adv (len + 1) s) c0).
    rewrite L2 in IH. cbn [adv d_cost d_len d_off d_rest] in IH.
    assert (P : match name_loop_g f main (nm ++ [takeN len (d_rest s)]) l (adv (len + 1) s) with
      | DOk (n, tg) s' =>
          dst_wf s' /\ d_len s' = d_len s /\ d_off s + (len + 1) <= d_off s' /\
          d_rest s' = dropN (d_off s' - (d_off s + (len + 1))) (dropN (len + 1) (d_rest s)) /\
          tl n <= 254 /\ Forall label_ok n /\ lenN tg <= 17 /\
          d_cost s + (len + 1) <= d_cost s' /\ d_cost s' <= c0 + 1 + tl n + 2 * lenN tg
      | DErr e c => d_cost s + (len + 1) <= c /\ c <= c0 + 544
      | DPanic _ => False
      | DFuel => False
      end).
    { apply IH; try assumption; lia. }
    destruct (name_loop_g f main (nm ++ [takeN len (d_rest s)]) l (adv (len + 1) s))
      as [[n tg] s'|e c| |]; try exact P.
    + destruct P as (P1 & P2 & P3 & P4 & P5 & P6 & P7 & P8 & P9).
      split; [exact P1|]. split; [exact P2|]. split; [lia|].
      split. { rewrite P4, dropN_dropN. f_equal. lia. }
      split; [exact P5|]. split; [exact P6|]. split; [exact P7|]. lia.
    + lia.
Qed.

Theorem domain_name_g_spec s : dst_wf s ->
  match domain_name_g main s with
  | DOk (n, tg) s' =>
      dst_wf s' /\ d_len s' = d_len s /\ d_off s + 1 <= d_off s' /\
      d_rest s' = dropN (d_off s' - d_off s) (d_rest s) /\
      wire_len n <= 255 /\ Forall label_ok n /\ (length tg <= 17)%nat /\
      d_cost s <= d_cost s' /\ d_cost s' <= d_cost s + OK_COST
  | DErr e c => d_cost s <= c /\ c <= d_cost s + ERR_COST
  | DPanic _ => False
  | DFuel => False
  end.
Proof.
  intro W. unfold domain_name_g, bind.
  destruct (u8_wf s W) as [(Ho & b & Hn & Hb256 & Hu)|(Ho & Hu)]; rewrite Hu.
  2:{ unfold ERR_COST. lia. }
  pose proof (name_loop_spec NAMEFUEL [] b (adv 1 s) (d_cost s)) as P.
  rewrite tl_nil in P. cbn [adv d_cost d_len d_off d_rest] in P.
  assert (P' : match name_loop_g NAMEFUEL main [] b (adv 1 s) with
    | DOk (n, tg) s' =>
      dst_wf s' /\ d_len s' = d_len s /\ d_off s + 1 <= d_off s' /\
      d_rest s' = dropN (d_off s' - (d_off s + 1)) (dropN 1 (d_rest s)) /\
      tl n <= 254 /\ Forall label_ok n /\ lenN tg <= 17 /\
      d_cost s + 1 <= d_cost s' /\ d_cost s' <= d_cost s + 1 + tl n + 2 * lenN tg
    | DErr e c => d_cost s + 1 <= c /\ c <= d_cost s + ERR_COST
    | DPanic _ => False
    | DFuel => False
    end).
  { apply P; try assumption; try lia.
    - apply adv_wf; [exact W|lia].
    - constructor.
    - pose proof NAMEFUEL_rec. lia. }
  clear P.
  destruct (name_loop_g NAMEFUEL main [] b (adv 1 s)) as [[n tg] s'|e c| |]; try exact P'.
  - destruct P' as (P1 & P2 & P3 & P4 & P5 & P6 & P7 & P8 & P9).
    split; [exact P1|]. split; [exact P2|]. split; [exact P3|].
    split. { rewrite P4, dropN_dropN. f_equal. lia. }
    rewrite wire_len_tl. split; [lia|]. split; [exact P6|].
    unfold lenN, OK_COST in *. split; lia.
  - lia.
Qed.
End Main.

(* ---- the statements about the model itself ---- *)
Definition NAME_COST : N := 544.

Theorem name_total main s : bytes_ok main -> lenN main < WFMAX -> dst_wf s ->
  (exists n s', domain_name main s = DOk n s') \/ (exists e c, domain_name main s = DErr e c).
Proof.
  intros Hb Hm W. rewrite domain_name_erase.
  pose proof (domain_name_g_spec main Hb Hm s W) as P.
  destruct (domain_name_g main s) as [[n tg] s'|e c| |]; cbn [dres_map fst].
  - left. eauto.
  - right. eauto.
  - contradiction.
  - contradiction.
Qed.

Theorem name_bounds main s n s' : bytes_ok main -> lenN main < WFMAX -> dst_wf s ->
  domain_name main s = DOk n s' ->
  dst_wf s' /\ d_len s' = d_len s /\ d_off s + 1 <= d_off s' /\
  d_rest s' = dropN (d_off s' - d_off s) (d_rest s) /\
  wire_len n <= 255 /\ Forall label_ok n.
Proof.
  intros Hb Hm W. rewrite domain_name_erase.
  pose proof (domain_name_g_spec main Hb Hm s W) as P.
  destruct (domain_name_g main s) as [[n0 tg] s0|e c| |]; cbn [dres_map fst]; try discriminate.
  intro E. injection E as -> ->.
  destruct P as (P1 & P2 & P3 & P4 & P5 & P6 & _).
  split; [exact P1|]. split; [exact P2|]. split; [exact P3|]. split; [exact P4|]. split; assumption.
Qed.

Theorem name_cost main s : bytes_ok main -> lenN main < WFMAX -> dst_wf s ->
  match domain_name main s with
  | DOk _ s' => d_cost s <= d_cost s' /\ d_cost s' <= d_cost s + NAME_COST
  | DErr _ c => d_cost s <= c /\ c <= d_cost s + NAME_COST
  | _ => False
  end.
Proof.
  intros Hb Hm W. rewrite domain_name_erase.
  pose proof (domain_name_g_spec main Hb Hm s W) as P.
  destruct (domain_name_g main s) as [[n0 tg] s0|e c| |]; cbn [dres_map fst]; try exact P.
  - destruct P as (_ & _ & _ & _ & _ & _ & _ & P1 & P2). unfold OK_COST, NAME_COST in *. lia.
Qed.

Theorem name_hops_le main s n tg s' : bytes_ok main -> lenN main < WFMAX -> dst_wf s ->
  domain_name_g main s = DOk (n, tg) s' -> (length tg <= 17)%nat.
Proof.
  intros Hb Hm W E. pose proof (domain_name_g_spec main Hb Hm s W) as P. rewrite E in P.
  destruct P as (_ & _ & _ & _ & _ & _ & P & _). exact P.
Qed.

(* ---- the primitive readers preserve well-formedness (any length argument) ---- *)
Lemma read_preserves_wf n s b s' : dst_wf s -> read n s = DOk b s' ->
  dst_wf s' /\ s' = adv n s /\ b = takeN n (d_rest s) /\ d_off s + n <= d_len s.
Proof.
  intros W. unfold read. cbv zeta. destruct (POW64 <=? d_off s + n); [discriminate|].
  rewrite OP_read_val. cbn [cmp_apply]. destruct (d_off s + n <=? d_len s) eqn:E; [|discriminate].
  intro H. injection H as <- <-. split; [apply adv_wf; [exact W|lia]|].
  split; [reflexivity|]. split; [reflexivity|lia].
Qed.

Lemma u8_preserves_wf s b s' : dst_wf s -> u8 s = DOk b s' -> dst_wf s' /\ s' = adv 1 s /\ b < 256.
Proof.
  intros W E. destruct (u8_wf s W) as [(Ho & b0 & Hn & Hb256 & Hu)|(Ho & Hu)]; rewrite Hu in E; [|discriminate].
  injection E as <- <-. split; [apply adv_wf; [exact W|lia]|]. split; [reflexivity|exact Hb256].
Qed.

Lemma domain_name_label_preserves_wf nm len s nm' l s' : dst_wf s ->
  domain_name_label nm len s = DOk (nm', l) s' -> dst_wf s' /\ d_len s' = d_len s /\ l < 256.
Proof.
  intros W. unfold domain_name_label, bind.
  destruct (read len s) as [b s1| | |] eqn:E1; try discriminate.
  destruct (read_preserves_wf _ _ _ _ W E1) as (W1 & -> & _ & _).
  destruct (utf8_valid b); [|discriminate].
  destruct (check_label b) as [u| | |]; try discriminate. cbn [lift]. unfold ret at 1.
  destruct (append_label nm b) as [nm1| | |]; try discriminate. cbn [lift]. unfold ret at 1.
  destruct (u8 (adv len s)) as [l0 s2| | |] eqn:E2; try discriminate.
  destruct (u8_preserves_wf _ _ _ W1 E2) as (W2 & -> & Hl).
  unfold ret. intro H. injection H as <- <- <-. split; [exact W2|]. split; [reflexivity|exact Hl].
Qed.
