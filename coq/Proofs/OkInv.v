(* C08, last clause — error propagation.  A successful run of a composite writer means that every
   sub-writer on the path succeeded (inversion of ebind / emap); a character string writer that succeeded
   wrote a string of at most 255 octets; hence the field values of a record that was written satisfy
   the length bounds that the types do not give. *)
From DNS Require Import Model.Dec Model.Enc Proofs.ListN
  Proofs.EncTotal Proofs.EncLimits Proofs.EncTyped Proofs.SvcbEnc
  Proofs.RtPrim Proofs.RtFields Proofs.RtRecord Proofs.OkApi.
Require Import ZArith ZifyBool ZifyN ZifyNat.
Local Open Scope N_scope.
Ltac Zify.zify_post_hook ::= Z.div_mod_to_equations.

(* ================================================================================================ *)
(* 1. inversion of the monad                                                                         *)
(* ================================================================================================ *)
Lemma ebind_ok_inv {A B} (m : EM A) (f : A -> EM B) (s : est) (b : B) (s' : est) :
  ebind m f s = EOk b s' -> exists (a : A) (s1 : est), m s = EOk a s1 /\ f a s1 = EOk b s'.
Proof.
  unfold ebind. destruct (m s) as [a s1|e|x|]; try discriminate.
  intros H. exists a, s1. split; [reflexivity|exact H].
Qed.

(* a failure of any element that is reached makes the loop fail: success means every element succeeded *)
Lemma emap_ok_inv {A} (f : A -> EM unit) (l : list A) : forall (s s' : est),
  emap f l s = EOk tt s' -> Forall (fun x => exists s1 s2 : est, f x s1 = EOk tt s2) l.
Proof.
  induction l as [|x l IH]; intros s s' H; [constructor|].
  cbn [emap] in H. apply ebind_ok_inv in H. destruct H as ([] & s1 & H1 & H2).
  constructor; [exists s, s1; exact H1|exact (IH s1 s' H2)].
Qed.

Ltac binv H :=
  let a := fresh "a" in let s := fresh "s" in let H1 := fresh H "a" in
  apply ebind_ok_inv in H; destruct H as (a & s & H1 & H).

(* ================================================================================================ *)
(* 2. strings                                                                                        *)
(* ================================================================================================ *)
Lemma estring_ok_len (b : bytes) (s s' : est) : estring b s = EOk tt s' -> lenN b <= 255.
Proof.
  intros H. destruct (N.le_gt_cases (lenN b) 255) as [L|L]; [exact L|].
  rewrite (estring_oversize b) in H by lia. discriminate.
Qed.

Lemma emap_estring_ok_len (l : list bytes) (s s' : est) :
  emap estring l s = EOk tt s' -> Forall (fun b : bytes => lenN b <= 255) l.
Proof.
  intros H. apply emap_ok_inv in H. eapply Forall_impl; [|exact H].
  intros b (s1 & s2 & E). exact (estring_ok_len b s1 s2 E).
Qed.

Lemma api_str_wf (s : bytes) : api_str s = true -> lenN s <= 255 -> str_wf s = true.
Proof.
  unfold api_str, str_wf. intros H L. apply andb_true_iff in H. destruct H as [_ H].
  rewrite H. apply N.leb_le in L. rewrite L. reflexivity.
Qed.

Lemma api_strs_wf (l : list bytes) :
  forallb api_str l = true -> Forall (fun b : bytes => lenN b <= 255) l -> forallb str_wf l = true.
Proof.
  intros H L. apply forallb_forall. intros x Hx.
  apply api_str_wf; [exact (proj1 (forallb_forall _ _) H x Hx)|exact (proj1 (Forall_forall _ _) L x Hx)].
Qed.

(* ================================================================================================ *)
(* 3. one field                                                                                      *)
(* ================================================================================================ *)
(* the one thing about a field that neither the types nor the encoder give: a GPOS string is non-empty *)
Definition gpos_fv (k : fk) (v : fv) : bool :=
  match k, v with FStrGpos, VBytes [] => false | _, _ => true end.
Fixpoint gpos_ok (ks : list fk) (vals : list fv) : bool :=
  match ks, vals with
  | k :: ks', v :: vs' => gpos_fv k v && gpos_ok ks' vs'
  | _, _ => true
  end.

Lemma fv_enforced (k : fk) (v : fv) (s s' : est) :
  api_fv k v = true -> gpos_fv k v = true -> write_field k (Some v) s = EOk tt s' -> fv_wf k v = true.
Proof.
  destruct k; destruct v as [n|n|b|l|o]; cbn [api_fv]; try discriminate; intros Ha Hg E;
    cbn [fv_wf write_field] in *; try exact Ha.
  - (* FStr *) apply api_str_wf; [exact Ha|exact (estring_ok_len b s s' E)].
  - (* FStrPsdn *) apply andb_true_iff in Ha. destruct Ha as [H1 H2].
    rewrite (api_str_wf b H1 (estring_ok_len b s s' E)), H2. reflexivity.
  - (* FStrIsdn *) apply andb_true_iff in Ha. destruct Ha as [H1 H2].
    rewrite (api_str_wf b H1 (estring_ok_len b s s' E)), H2. reflexivity.
  - (* FOptStrSa *) destruct o as [b|]; [|reflexivity].
    apply andb_true_iff in Ha. destruct Ha as [H1 H2].
    rewrite (api_str_wf b H1 (estring_ok_len b s s' E)), H2. reflexivity.
  - (* FStrGpos *) rewrite (api_str_wf b Ha (estring_ok_len b s s' E)).
    destruct b as [|b0 b']; [discriminate Hg|]. unfold lenN. cbn [length andb]. lia.
  - (* FTag *) apply andb_true_iff in Ha. destruct Ha as [Ha H3]. apply andb_true_iff in Ha. destruct Ha as [H1 H2].
    rewrite (api_str_wf b H1 (estring_ok_len b s s' E)), H2, H3. reflexivity.
  - (* FStrs1 *) apply andb_true_iff in Ha. destruct Ha as [H1 H2].
    rewrite H1, (api_strs_wf l H2 (emap_estring_ok_len l s s' E)). reflexivity.
Qed.

(* ================================================================================================ *)
(* 4. the field list of a record: the writer looks every value up BY NAME                            *)
(* ================================================================================================ *)
Lemma vals_enforced : forall (f : list (string * fk)) (pn : list string) (pv vs : list fv) (s s' : est),
  length pn = length pv ->
  (forall nm, In nm (value_names f) -> ~ In nm pn) ->
  NoDup (value_names f) ->
  api_vals (map snd (filter (fun p => has_value (snd p)) f)) vs = true ->
  gpos_ok (map snd (filter (fun p => has_value (snd p)) f)) vs = true ->
  write_fields (pn ++ value_names f) (pv ++ vs) f s = EOk tt s' ->
  vals_wf (map snd (filter (fun p => has_value (snd p)) f)) vs = true.
Proof.
  induction f as [|[nm k] r IH]; intros pn pv vs s s' HL Hfresh Hnd Ha Hg E.
  - cbn [filter map api_vals] in Ha. destruct vs; [reflexivity|discriminate].
  - unfold value_names in *. cbn [filter snd] in *. cbn [write_fields] in E.
    apply ebind_ok_inv in E. destruct E as ([] & s1 & E1 & E2).
    destruct (has_value k) eqn:Eh.
    + cbn [map fst snd] in *. destruct vs as [|v vs']; cbn [api_vals] in Ha; [discriminate|].
      apply andb_true_iff in Ha. destruct Ha as [Ha1 Ha2].
      cbn [gpos_ok] in Hg. apply andb_true_iff in Hg. destruct Hg as [Hg1 Hg2].
      inversion Hnd as [|? ? Hni Hnd']; subst.
      assert (~ In nm pn) as Hnp by (apply Hfresh; left; reflexivity).
      pose proof (assoc_mid nm pn pv (map fst (filter (fun p => has_value (snd p)) r)) v vs' HL Hnp) as Has.
      rewrite Has in E1. cbn [vals_wf]. rewrite (fv_enforced k v s s1 Ha1 Hg1 E1). cbn [andb].
      apply (IH (pn ++ [nm]) (pv ++ [v]) vs' s1 s').
      * rewrite !app_length. cbn [length]. lia.
      * intros x Hx Hin. apply in_app_or in Hin. destruct Hin as [Hin|[<-|[]]].
        -- apply (Hfresh x); [right; exact Hx|exact Hin].
        -- exact (Hni Hx).
      * exact Hnd'.
      * exact Ha2.
      * exact Hg2.
      * rewrite <- !app_assoc. cbn [app]. exact E2.
    + apply (IH pn pv vs s1 s' HL Hfresh Hnd Ha Hg E2).
Qed.

(* ================================================================================================ *)
(* 5. service parameters                                                                             *)
(* ================================================================================================ *)
Lemma param_enforced (p : svcparam) :
  api_param p = true -> kf6_param p = false -> param_fits p -> RtSpecial.param_wfb p = true.
Proof.
  destruct p as [keys|ids| |port|h|cl|h|n d| ]; cbn [api_param kf6_param RtSpecial.param_wfb];
    intros Ha Hk [Hv _]; try exact Ha; cbn [value_fits] in Hv.
  - apply api_strs_wf; assumption.
  - rewrite Ha. apply N.leb_le in Hv. rewrite Hv. reflexivity.
  - apply andb_true_iff in Ha. destruct Ha as [H1 H2]. rewrite H2.
    apply orb_false_iff in Hk. destruct Hk as [K1 K2].
    assert ((7 <=? n) = true) as -> by lia. assert ((n <=? 65534) = true) as -> by lia. reflexivity.
Qed.
