(* C09 — final forms of the framing statements (bounds written as 2^62, children of the model's
   windows keep the window length). *)
From Coq Require Import ZifyBool ZifyN ZifyNat.
From DNS Require Import Model.Dec Proofs.DecBase Proofs.DecName Proofs.DecNameSpec Proofs.DecSafe Proofs.DecTotal
  Proofs.Frame Proofs.FrameMsg Proofs.FrameErr Proofs.FrameCost Proofs.FrameWin.
Local Open Scope N_scope.

(* every computation the model runs inside a window keeps the window *)
Theorem children_keep_window (main : bytes) : bytes_ok main -> lenN main < 2 ^ 62 ->
  (forall (t : N) (owner : name) (hclass ttl : N), len_stable (rr_body main t owner hclass ttl)) /\
  (forall c : N, len_stable (edns_option_body c)) /\
  (forall fam : N, len_stable (rr_address fam)) /\
  (forall key : N, len_stable (rr_service_parameter key)).
Proof.
  intros Hb Hm. rewrite <- WFMAX_val in Hm.
  split; [intros t owner hclass ttl; exact (safeP_len_stable _ _ _ (safe0_rr_body main Hb Hm t owner hclass ttl))|].
  split; [intro c; exact (safeP_len_stable _ _ _ (safe0_edns_option_body c))|].
  split; [intro fam; exact (safeP_len_stable _ _ _ (safeP_address [] nil_small fam))|].
  intro key. exact (safeP_len_stable _ _ _ (safe0_service_parameter [] nil_small key)).
Qed.

Theorem rr_exact62 (main : bytes) (s : dst) (r : rr) (s' : dst) :
  bytes_ok main -> lenN main < 2 ^ 62 -> dst_wf s -> rr_ main s = DOk r s' ->
  exists (owner : name) (s0 : dst) (type_ hclass ttl rdlen : N) (rdata : bytes) (k : N) (c : dst),
    domain_name main s = DOk owner s0 /\
    type_ = be (takeN 2 (d_rest s0)) /\ in_table Type_table type_ = true /\ hclass = be (takeN 2 (dropN 2 (d_rest s0))) /\
    ttl = be (takeN 4 (dropN 4 (d_rest s0))) /\ rdlen = be (takeN 2 (dropN 8 (d_rest s0))) /\
    rdata = takeN rdlen (dropN 10 (d_rest s0)) /\ lenN rdata = rdlen /\
    rr_body main type_ owner hclass ttl {| d_rest := rdata; d_off := 0; d_len := rdlen; d_cost := k |} = DOk r c /\
    d_off c = rdlen /\ d_rest c = [] /\ d_len c = rdlen /\
    d_off s' = d_off s0 + 10 + rdlen /\ d_rest s' = dropN (10 + rdlen) (d_rest s0) /\
    d_len s' = d_len s /\ dst_wf s' /\ d_off s' <= d_len s'.
Proof. intros Hb Hm. rewrite <- WFMAX_val in Hm. apply rr_exact; assumption. Qed.

Theorem rr_advance62 (main : bytes) (s : dst) (r : rr) (s' : dst) :
  bytes_ok main -> lenN main < 2 ^ 62 -> dst_wf s -> rr_ main s = DOk r s' ->
  exists (owner : name) (s0 : dst),
    domain_name main s = DOk owner s0 /\
    d_off s' = d_off s0 + 10 + be (takeN 2 (dropN 8 (d_rest s0))) /\
    d_rest s' = dropN (d_off s' - d_off s) (d_rest s) /\ d_off s < d_off s' /\ d_off s' <= d_len s.
Proof. intros Hb Hm. rewrite <- WFMAX_val in Hm. apply rr_advance; assumption. Qed.

Theorem rr_no_absorption62 (main1 main2 : bytes) (s1 s2 : dst) (r : rr) (s1' : dst) (owner : name) (s1a : dst) :
  bytes_ok main1 -> lenN main1 < 2 ^ 62 -> dst_wf s1 -> dst_wf s2 ->
  rr_ main1 s1 = DOk r s1' ->
  domain_name_g main1 s1 = DOk (owner, []) s1a ->
  nameless_type (r_type r) = true ->
  takeN (d_off s1' - d_off s1) (d_rest s1) = takeN (d_off s1' - d_off s1) (d_rest s2) ->
  d_off s2 + (d_off s1' - d_off s1) <= d_len s2 ->
  exists s2' : dst, rr_ main2 s2 = DOk r s2' /\
    d_off s2' = d_off s2 + (d_off s1' - d_off s1) /\ d_rest s2' = dropN (d_off s1' - d_off s1) (d_rest s2) /\
    d_len s2' = d_len s2.
Proof. intros Hb Hm. rewrite <- WFMAX_val in Hm. apply rr_no_absorption; assumption. Qed.

Theorem rr_no_absorption_msg62 (main1 main2 pre1 pre2 rec post1 post2 : bytes) (c1 c2 : N) (r : rr) (s1' : dst)
  (owner : name) (s1a : dst) :
  bytes_ok main1 -> lenN main1 < 2 ^ 62 ->
  bytes_ok (rec ++ post1) -> bytes_ok (rec ++ post2) ->
  lenN (pre1 ++ rec ++ post1) < 2 ^ 62 -> lenN (pre2 ++ rec ++ post2) < 2 ^ 62 ->
  rr_ main1 {| d_rest := rec ++ post1; d_off := lenN pre1; d_len := lenN (pre1 ++ rec ++ post1); d_cost := c1 |} = DOk r s1' ->
  d_off s1' = lenN pre1 + lenN rec ->
  domain_name_g main1 {| d_rest := rec ++ post1; d_off := lenN pre1; d_len := lenN (pre1 ++ rec ++ post1); d_cost := c1 |}
    = DOk (owner, []) s1a ->
  nameless_type (r_type r) = true ->
  exists s2' : dst,
    rr_ main2 {| d_rest := rec ++ post2; d_off := lenN pre2; d_len := lenN (pre2 ++ rec ++ post2); d_cost := c2 |} = DOk r s2' /\
    d_off s2' = lenN pre2 + lenN rec /\ d_rest s2' = post2.
Proof.
  intros Hb Hm B1 B2 L1 L2. rewrite <- WFMAX_val in Hm, L1, L2.
  exact (rr_no_absorption_msg main1 main2 pre1 pre2 rec post1 post2 c1 c2 r s1' owner s1a Hb Hm B1 B2 L1 L2).
Qed.

(* the `while !is_finished()` loops of a window end exactly at its end *)
Theorem loops_end :
  (forall (A : Type) (item : DM A) (fuel : nat) (acc : list A) (s : dst) (l : list A) (s' : dst),
     many fuel item acc s = DOk l s' -> d_off s' = d_len s') /\
  (forall (fuel : nat) (acc : list svcparam) (s : dst) (l : list svcparam) (s' : dst),
     svc_params fuel acc s = DOk l s' -> d_off s' = d_len s').
Proof. split; [intros A item; apply many_ends|apply svc_params_ends]. Qed.

(* acceptance of a message, given that the header tests pass and the section loops succeed *)
Theorem dns_accept_iff (main : bytes) (s : dst) (m : dns) (s1 : dst) :
  d_off s = 0 -> 12 <= d_len s -> d_len s <= 65536 -> dns_body main s = DOk m s1 -> d_off s1 <= d_len s1 ->
  (dns_ main s = DErr (ERemainingBytes, [d_off s1]) (d_cost s1) <-> d_off s1 < d_len s1) /\
  (dns_ main s = DOk m s1 <-> d_off s1 = d_len s1).
Proof. exact (dns_remaining main s m s1). Qed.
