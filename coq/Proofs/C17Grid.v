(* C17 — complete finite grids, by computation: the APL item reader run on every combination of
   prefix octet 0..=255, address-octet count 0..=size+1, negation flag, and a family of address
   patterns (zero, all ones, every single-bit address, every prefix mask), compared with a reference
   verdict that is written down independently of the decoder. *)
From Coq Require Import ZArith ZifyBool ZifyN ZifyNat.
From DNS Require Import Model.Values Model.Dec Proofs.DecBase Proofs.C12 Proofs.C17Dec Proofs.C17Ref.
Local Open Scope N_scope.

(* ---- inputs and expected results ---- *)
Definition grid_octets (k : N) (pat : bytes) : bytes := takeN k (pat ++ [0]).
Definition grid_input (fam p k : N) (neg : bool) (pat : bytes) : bytes :=
  [0; fam; p; negbit neg + k] ++ grid_octets k pat.
Definition grid_filled (fam k : N) (pat : bytes) : bytes :=
  grid_octets k pat ++ zeros (N.to_nat (fam_size fam - k)).
Definition grid_expect (fam p k : N) (neg : bool) (pat : bytes) : option apitem :=
  if ref_ok (fam_size fam) p k (grid_filled fam k pat)
  then Some {| i_prefix := p; i_neg := neg; i_addr := {| a_fam := fam; a_oct := grid_filled fam k pat |} |}
  else None.

Definition verdict (r : dres apitem) : option apitem := match r with DOk i _ => Some i | _ => None end.
Definition clean (r : dres apitem) : bool := match r with DOk _ _ | DErr _ _ => true | _ => false end.
Definition consumed (r : dres apitem) (n : N) : bool :=
  match r with DOk _ s' => (d_off s' =? n) && (d_off s' =? d_len s') | _ => true end.

(* ---- address patterns ---- *)
Definition bit_pat (n : nat) (bits i : N) : bytes := be_split n (N.shiftl 1 (bits - 1 - i)).
Definition mask_pat (n : nat) (bits p : N) : bytes := be_split n (2 ^ bits - 2 ^ (bits - p)).
Definition patterns (n : nat) (bits : N) : list bytes :=
  [be_split n 0; be_split n (2 ^ bits - 1)]
  ++ map (bit_pat n bits) (Enum.nrange bits) ++ map (mask_pat n bits) (Enum.nrange (bits + 1)).
Definition patterns4 : list bytes := patterns 4 32.     (* 2 + 32 + 33 = 67 addresses *)
Definition patterns6 : list bytes := patterns 16 128.   (* 2 + 128 + 129 = 259 addresses *)

(* ---- boolean comparison and its soundness ---- *)
Lemma bytes_eqb_true : forall a b : bytes, bytes_eqb a b = true -> a = b.
Proof.
  unfold bytes_eqb. induction a as [|x a IH]; intros [|y b] H; cbn [list_eqb] in H; try discriminate H.
  - reflexivity.
  - apply andb_true_iff in H. destruct H as [H1 H2]. apply N.eqb_eq in H1. subst y. f_equal. apply IH. exact H2.
Qed.
Definition item_eqb (i j : apitem) : bool :=
  (i_prefix i =? i_prefix j) && Bool.eqb (i_neg i) (i_neg j) &&
  (a_fam (i_addr i) =? a_fam (i_addr j)) && bytes_eqb (a_oct (i_addr i)) (a_oct (i_addr j)).
Lemma item_eqb_true i j : item_eqb i j = true -> i = j.
Proof.
  destruct i as [p n [f o]], j as [p' n' [f' o']]. unfold item_eqb. cbn [i_prefix i_neg i_addr a_fam a_oct].
  intros H. apply andb_true_iff in H. destruct H as [H H4]. apply andb_true_iff in H. destruct H as [H H3].
  apply andb_true_iff in H. destruct H as [H1 H2].
  apply N.eqb_eq in H1, H3. apply Bool.eqb_prop in H2. apply bytes_eqb_true in H4. subst. reflexivity.
Qed.
Definition oitem_eqb (a b : option apitem) : bool :=
  match a, b with Some i, Some j => item_eqb i j | None, None => true | _, _ => false end.
Lemma oitem_eqb_true a b : oitem_eqb a b = true -> a = b.
Proof.
  destruct a as [i|], b as [j|]; cbn [oitem_eqb]; intros H; try discriminate H; [|reflexivity].
  f_equal. apply item_eqb_true. exact H.
Qed.

Definition grid_check (fam p k : N) (neg : bool) (pat : bytes) : bool :=
  let r := rr_apl_apitem (mk_main (grid_input fam p k neg pat)) in
  oitem_eqb (verdict r) (grid_expect fam p k neg pat) && clean r && consumed r (4 + k).

Definition grid_all (fam : N) (pats : list bytes) (kmax : N) (negs : list bool) : bool :=
  forallb (fun p => forallb (fun k => forallb (fun pat => forallb (fun neg =>
    grid_check fam p k neg pat) negs) pats) (Enum.nrange (kmax + 1))) (Enum.nrange 256).

Lemma grid_all_spec fam pats kmax negs : grid_all fam pats kmax negs = true ->
  forall p k neg pat, p < 256 -> k <= kmax -> In neg negs -> In pat pats ->
  let r := rr_apl_apitem (mk_main (grid_input fam p k neg pat)) in
  verdict r = grid_expect fam p k neg pat /\ clean r = true /\ consumed r (4 + k) = true.
Proof.
  intros H p k neg pat Hp Hk Hneg Hpat. unfold grid_all in H.
  rewrite forallb_forall in H. specialize (H p (Enum.nrange_in 256 p Hp)).
  rewrite forallb_forall in H. specialize (H k (Enum.nrange_in (kmax + 1) k ltac:(lia))).
  rewrite forallb_forall in H. specialize (H pat Hpat).
  rewrite forallb_forall in H. specialize (H neg Hneg).
  unfold grid_check in H. cbv zeta in H.
  apply andb_true_iff in H. destruct H as [H H3]. apply andb_true_iff in H. destruct H as [H1 H2].
  cbv zeta. split; [apply oitem_eqb_true; exact H1|]. split; assumption.
Qed.

(* ---- IPv4: 256 prefixes x 6 octet counts x 2 flags x 67 patterns = 205,824 decoder runs ---- *)
Lemma grid_ipv4_all : grid_all 1 patterns4 5 [false; true] = true.
Proof. vm_cast_no_check (eq_refl true). Qed.

Theorem grid_ipv4 : forall (p k : N) (neg : bool) (pat : bytes),
  p < 256 -> k <= 5 -> In pat patterns4 ->
  let r := rr_apl_apitem (mk_main (grid_input 1 p k neg pat)) in
  verdict r = grid_expect 1 p k neg pat /\ clean r = true /\ consumed r (4 + k) = true.
Proof.
  intros p k neg pat Hp Hk Hpat.
  apply (grid_all_spec 1 patterns4 5 [false; true] grid_ipv4_all); try assumption.
  destruct neg; [right; left|left]; reflexivity.
Qed.

(* ---- IPv6: 256 prefixes x 18 octet counts x 259 patterns = 1,193,472 decoder runs
        (negation flag clear; the flag is covered for both values by the IPv4 grid and by
        Proofs/C17.v accept_apitem in general) ---- *)
Lemma grid_ipv6_all : grid_all 2 patterns6 17 [false] = true.
Proof. vm_cast_no_check (eq_refl true). Qed.

Theorem grid_ipv6 : forall (p k : N) (pat : bytes),
  p < 256 -> k <= 17 -> In pat patterns6 ->
  let r := rr_apl_apitem (mk_main (grid_input 2 p k false pat)) in
  verdict r = grid_expect 2 p k false pat /\ clean r = true /\ consumed r (4 + k) = true.
Proof.
  intros p k pat Hp Hk Hpat.
  apply (grid_all_spec 2 patterns6 17 [false] grid_ipv6_all); try assumption.
  left. reflexivity.
Qed.

(* the grids are not vacuous: sizes of the pattern sets, and both verdicts occur *)
Lemma grid_sizes : length patterns4 = 67%nat /\ length patterns6 = 259%nat /\
  In [255; 255; 128; 0] patterns4 /\ In [0; 64; 0; 0] patterns4.
Proof.
  split; [vm_compute; reflexivity|]. split; [vm_compute; reflexivity|].
  split; vm_compute; tauto.
Qed.
