(* Correspondence of the primitive readers, names, sub-windows and loops. *)
From Coq Require Import ZifyBool ZifyN ZifyNat.
From DNS Require Import Model.Dec Spec.Names Spec.Wire Proofs.DecBase Proofs.DecName Proofs.DecNameSpec
  Proofs.DecNameSound Proofs.DecNameCyclic Proofs.DecNameComplete Proofs.CorrBase.
From DNS Require Proofs.SvcbDec Proofs.OptBase.
Local Open Scope N_scope.

Lemma OP_bytes_val : OP_bytes = CLe. Proof. reflexivity. Qed.

Lemma be1 (x : N) : be [x] = x. Proof. reflexivity. Qed.

Lemma len1_inv (l : bytes) : lenN l = 1 -> exists x, l = [x].
Proof.
  destruct l as [|x [|y r]]; unfold lenN; cbn [length]; intro H; try lia. exists x. reflexivity.
Qed.

(* ---- progress of the reference primitives ---- *)
Lemma octets_inv (n : N) (b : bytes) (a e : N) (x : bytes) (a' : N) : octets n b a e = Some (x, a') ->
  a + n <= e /\ x = takeN n (dropN a b) /\ lenN x = n /\ a' = a + n.
Proof.
  unfold octets. destruct (a + n <=? e) eqn:E1; [|discriminate]. cbv zeta.
  destruct (lenN (takeN n (dropN a b)) =? n) eqn:E2; [|discriminate].
  intro H. injection H as <- <-. split; [lia|]. split; [reflexivity|]. split; [lia|reflexivity].
Qed.
Lemma num_inv (n : N) (b : bytes) (a e v a' : N) : num n b a e = Some (v, a') ->
  exists x, octets n b a e = Some (x, a') /\ v = be x.
Proof.
  unfold num. destruct (octets n b a e) as [[x p]|]; [|discriminate].
  intro H. injection H as <- <-. exists x. split; reflexivity.
Qed.
Lemma progress_octets n : 0 < n -> progress (octets n).
Proof. intros Hn b a e v a' H. apply octets_inv in H. lia. Qed.
Lemma progress_num n : 0 < n -> progress (num n).
Proof. intros Hn b a e v a' H. apply num_inv in H. destruct H as (x & H & _). apply octets_inv in H. lia. Qed.
Lemma progress_bind {A B} (p : P A) (g : A -> P B) :
  progress p -> (forall v b a e w a', g v b a e = Some (w, a') -> a <= a') -> progress (pbind p g).
Proof.
  intros Hp Hg b a e w a' H. unfold pbind in H.
  destruct (p b a e) as [[v a1]|] eqn:E; [|discriminate].
  apply Hp in E. apply Hg in H. lia.
Qed.
Lemma within_inv {A} (n : N) (p : P A) (b : bytes) (a e : N) (v : A) (a' : N) :
  within n p b a e = Some (v, a') -> a + n <= e /\ p b a (a + n) = Some (v, a + n) /\ a' = a + n.
Proof.
  unfold within. destruct (a + n <=? e) eqn:E1; [|discriminate].
  destruct (p b a (a + n)) as [[v0 a0]|]; [|discriminate].
  destruct (a0 =? a + n) eqn:E2; [|discriminate]. intro H. injection H as <- <-.
  apply N.eqb_eq in E2. subst a0. split; [lia|]. split; reflexivity.
Qed.

Lemma be_bytes_lt (x : bytes) : bytes_ok x -> be x < 256 ^ lenN x.
Proof.
  intro H. unfold be. assert (G : forall acc k, acc < 256 ^ k -> be_join x acc < 256 ^ (k + lenN x)).
  { induction H as [|y r Hy Hr IH]; intros acc k Hk; cbn [be_join].
    - rewrite lenN_nil, N.add_0_r. exact Hk.
    - rewrite lenN_cons. replace (k + (lenN r + 1)) with ((k + 1) + lenN r) by lia. apply IH.
      rewrite N.pow_add_r, N.pow_1_r. unfold is_byte in Hy. nia. }
  apply (G 0 0). cbn. lia.
Qed.

Lemma charstr_inv (b : bytes) (a e : N) (x : bytes) (a' : N) : charstr b a e = Some (x, a') ->
  exists n, num 1 b a e = Some (n, a + 1) /\ lenN x = n /\ a' = a + 1 + n /\ utf8_valid x = true /\
            x = takeN n (dropN (a + 1) b).
Proof.
  unfold charstr, pbind. destruct (num 1 b a e) as [[n a1]|] eqn:E1; [|discriminate].
  destruct (octets n b a1 e) as [[y a2]|] eqn:E2; [|discriminate].
  destruct (utf8_valid y) eqn:E3; [|discriminate]. unfold pret. intro H. injection H as <- <-.
  pose proof E1 as E1'. apply num_inv in E1'. destruct E1' as (z & Hz & _). apply octets_inv in Hz.
  destruct Hz as (_ & _ & _ & ->). apply octets_inv in E2. destruct E2 as (_ & E2 & E4 & ->).
  exists n. split; [reflexivity|]. split; [exact E4|]. split; [reflexivity|]. split; [exact E3|exact E2].
Qed.

Lemma progress_charstr : progress charstr.
Proof. intros b a e x a' H. apply charstr_inv in H. destruct H as (n & _ & _ & -> & _). lia. Qed.

Lemma rest_inv (b : bytes) (a e : N) (x : bytes) (a' : N) : rest b a e = Some (x, a') ->
  a <= e /\ x = takeN (e - a) (dropN a b) /\ lenN x = e - a /\ a' = e.
Proof.
  unfold rest. destruct (a <=? e) eqn:E; [|discriminate]. intro H. apply octets_inv in H.
  destruct H as (_ & H1 & H2 & H3). split; [lia|]. split; [exact H1|]. split; [exact H2|lia].
Qed.

Lemma uint_wf k s : dst_wf s -> k < 256 ->
  uint k s = if d_off s + k <=? d_len s then DOk (be (takeN k (d_rest s))) (adv k s)
             else DErr (ENotEnoughBytes, [d_len s; d_off s + k]) (d_cost s).
Proof.
  intros W Hk. unfold uint, bind. rewrite (read_wf k s W Hk).
  destruct (d_off s + k <=? d_len s) eqn:E; [|reflexivity].
  rewrite (read_len k s W) by lia. rewrite N.eqb_refl. reflexivity.
Qed.

Lemma u16b_be2 (x y : N) : x < 256 -> y < 256 -> u16b (be [x; y]) = [x; y].
Proof.
  intros Hx Hy. unfold u16b, be. cbn [be_join]. f_equal; [|f_equal]; lia.
Qed.

Lemma take2_split (l : bytes) : 2 <= lenN l -> exists x y, takeN 2 l = [x; y] /\ l = x :: y :: dropN 2 l.
Proof.
  destruct l as [|x [|y r]]; unfold lenN; cbn [length]; intro H; try lia.
  exists x, y. split; reflexivity.
Qed.

Lemma ipv6_exact s : dst_wf s -> d_off s <= d_len s ->
  (d_off s + 16 <= d_len s /\ exists c, ipv6_addr s = DOk (takeN 16 (d_rest s)) (with_cost c (adv 16 s))) \/
  (d_len s < d_off s + 16 /\ forall v s', ipv6_addr s <> DOk v s').
Proof.
  intros W Hle. destruct (d_off s + 16 <=? d_len s) eqn:E.
  - left. split; [lia|]. pose proof W as (W1 & W2 & W3 & W4).
    assert (L : lenN (takeN 16 (d_rest s)) = 16) by (rewrite lenN_takeN; lia).
    assert (Hs : SvcbDec.wst s) by (split; [lia|exact W2]).
    destruct (SvcbDec.reads_ipv6 (takeN 16 (d_rest s)) (dropN 16 (d_rest s)) L
                (bytes_ok_takeN _ _ W4) s Hs) as (c & Ec).
    { symmetry. apply OptBase.takeN_dropN_id. }
    exists c. rewrite Ec. f_equal. unfold SvcbDec.mkst, with_cost, adv. cbn [d_rest d_off d_len d_cost].
    rewrite L. reflexivity.
  - right. split; [lia|]. intros v s'. unfold ipv6_addr, u16, bind.
    assert (step : forall n, d_off s + n <= d_len s ->
              uint 2 (adv n s) = if d_off s + n + 2 <=? d_len s
                                 then DOk (be (takeN 2 (d_rest (adv n s)))) (adv 2 (adv n s))
                                 else DErr (ENotEnoughBytes, [d_len s; d_off s + n + 2]) (d_cost (adv n s))).
    { intros n Hn. assert (Wn : dst_wf (adv n s)) by (apply adv_wf; [exact W|lia]).
      rewrite (uint_wf 2 _ Wn) by lia. cbn [adv d_off d_len]. reflexivity. }
    rewrite (uint_wf 2 s W) by lia.
    destruct (d_off s + 2 <=? d_len s) eqn:E0; [|discriminate].
    rewrite (step 2 ltac:(lia)).
    destruct (d_off s + 2 + 2 <=? d_len s) eqn:E1; [|discriminate]. rewrite adv_adv.
    rewrite (step (2 + 2) ltac:(lia)).
    destruct (d_off s + (2 + 2) + 2 <=? d_len s) eqn:E2; [|discriminate]. rewrite adv_adv.
    rewrite (step (2 + 2 + 2) ltac:(lia)).
    destruct (d_off s + (2 + 2 + 2) + 2 <=? d_len s) eqn:E3; [|discriminate]. rewrite adv_adv.
    rewrite (step (2 + 2 + 2 + 2) ltac:(lia)).
    destruct (d_off s + (2 + 2 + 2 + 2) + 2 <=? d_len s) eqn:E4; [|discriminate]. rewrite adv_adv.
    rewrite (step (2 + 2 + 2 + 2 + 2) ltac:(lia)).
    destruct (d_off s + (2 + 2 + 2 + 2 + 2) + 2 <=? d_len s) eqn:E5; [|discriminate]. rewrite adv_adv.
    rewrite (step (2 + 2 + 2 + 2 + 2 + 2) ltac:(lia)).
    destruct (d_off s + (2 + 2 + 2 + 2 + 2 + 2) + 2 <=? d_len s) eqn:E6; [|discriminate]. rewrite adv_adv.
    rewrite (step (2 + 2 + 2 + 2 + 2 + 2 + 2) ltac:(lia)).
    destruct (d_off s + (2 + 2 + 2 + 2 + 2 + 2 + 2) + 2 <=? d_len s) eqn:E7; [|discriminate].
    exfalso. lia.
Qed.

Lemma label_legal_ok (l : label) : label_legal l = true <-> label_ok l.
Proof.
  unfold label_legal, label_ok. rewrite !andb_true_iff, !N.leb_le. tauto.
Qed.

Lemma name_legalb_spec (n : name) : name_legalb n = true <-> name_legal n.
Proof.
  unfold name_legalb, name_legal. rewrite andb_true_iff, N.leb_le, name_wire_len_eq, forallb_forall, Forall_forall.
  split; intros (H1 & H2); (split; [|exact H2]); intros l Hl; apply label_legal_ok, H1, Hl.
Qed.

Lemma pname_inv (b : bytes) (a e : N) (n : name) (a' : N) : pname b a e = Some (n, a') ->
  exists x, expand 17 b a = Some x /\ n = x_name x /\ a' = x_end x /\ a' <= e.
Proof.
  unfold pname. destruct (expand 17 b a) as [x|]; [|discriminate].
  destruct ((x_end x <=? e) && name_legalb (x_name x)) eqn:E; [|discriminate].
  intro H. injection H as <- <-. apply andb_prop in E. destruct E as (E & _).
  exists x. split; [reflexivity|]. split; [reflexivity|]. split; [reflexivity|lia].
Qed.

Lemma finished_cases s : d_off s <= d_len s ->
  (d_off s = d_len s /\ finished s = DOk tt s) \/
  (d_off s < d_len s /\ finished s = DErr (ETooManyBytes, [d_len s; d_off s]) (d_cost s)).
Proof.
  intro H. unfold finished, bind, is_finished.
  destruct (d_off s <? d_len s) eqn:E1.
  - right. split; [lia|reflexivity].
  - assert (d_off s =? d_len s = true) as -> by lia. left. split; [lia|reflexivity].
Qed.

Lemma strings_loop_many : forall (f : nat) (acc : list bytes) s, strings_loop f acc s = many f string_ acc s.
Proof.
  induction f as [|f IH]; intros acc s; [reflexivity|]. cbn [strings_loop many]. unfold bind.
  destruct (is_finished s) as [fin s1| | |]; try reflexivity. destruct fin; [reflexivity|].
  destruct (string_ s1) as [x s2| | |]; try reflexivity. apply IH.
Qed.

Section Main.
Variable main : bytes.
Hypothesis Hb : bytes_ok main.
Hypothesis Hm : lenN main < 2 ^ 62.
Set Default Proof Using "Hb Hm".

Notation inv := (inv main).
Notation agree := (agree main).
Notation corr := (corr main).
Notation corr_w := (corr_w main).
Notation post := (post main).

(* ---- read / octets ---- *)
Lemma corr_read n : corr (read n) (octets n).
Proof.
  intros s a e Hi. pose proof Hi as ((W1 & W2 & W3 & W4) & V & H1 & H2 & H3).
  unfold read, octets. cbv zeta.
  destruct (POW64 <=? d_off s + n) eqn:E0.
  - destruct (a + n <=? e) eqn:E1; [|exact I]. exfalso. unfold POW64, WFMAX in *. lia.
  - rewrite OP_read_val. cbn [cmp_apply].
    destruct (d_off s + n <=? d_len s) eqn:E1.
    + assert (a + n <=? e = true) as -> by lia.
      destruct (inv_take main s a e n Hi) as (T1 & T2); [lia|]. rewrite T2, N.eqb_refl, T1.
      cbn [agree CorrBase.agree]. split; [reflexivity|]. split; [lia|].
      split; [exact (inv_adv main s a e n Hi ltac:(lia))|]. cbn [d_off d_len]. split; [lia|reflexivity].
    + assert (a + n <=? e = false) as -> by lia. exact I.
Qed.

Lemma post_octets n : post (octets n) (fun x => lenN x = n /\ bytes_ok x).
Proof.
  intros a e x a' He H. apply octets_inv in H. destruct H as (_ & -> & H & _).
  split; [exact H|]. apply bytes_ok_takeN, bytes_ok_dropN. exact Hb.
Qed.

(* ---- unsigned integers ---- *)
Lemma corr_uint k : corr (uint k) (num k).
Proof.
  apply (corr_ext main (bind (read k) (fun b => if lenN b =? k then ret (be b) else panic SGetUint))
                       _ (pbind (octets k) (fun x => if lenN x =? k then pret (be x) else pnone))).
  - intro s. reflexivity.
  - intros a e. unfold pbind, num. destruct (octets k main a e) as [[x p]|] eqn:E; [|reflexivity].
    apply octets_inv in E. destruct E as (_ & _ & -> & _). rewrite N.eqb_refl. reflexivity.
  - apply corr_bind; [apply corr_read|]. intro b.
    destruct (lenN b =? k); [apply corr_ret|apply corr_panic].
Qed.
Lemma corr_u16 : corr u16 (num 2). Proof. exact (corr_uint 2). Qed.
Lemma corr_u32 : corr u32 (num 4). Proof. exact (corr_uint 4). Qed.
Lemma corr_u64 : corr u64 (num 8). Proof. exact (corr_uint 8). Qed.
Lemma corr_ipv4 : corr ipv4_addr (num 4). Proof. exact (corr_uint 4). Qed.

Lemma corr_u8 : corr u8 (num 1).
Proof.
  apply (corr_ext main u8 _ (pbind (octets 1) (fun x => match x with y :: _ => pret y | [] => pnone end))).
  - intro s. reflexivity.
  - intros a e. unfold pbind, num. destruct (octets 1 main a e) as [[x p]|] eqn:E; [|reflexivity].
    apply octets_inv in E. destruct E as (_ & _ & E & _). destruct (len1_inv x E) as (y & ->). reflexivity.
  - unfold u8. apply corr_bind; [apply corr_read|]. intro b.
    destruct b; [apply corr_panic|apply corr_ret].
Qed.


Lemma post_num k : post (num k) (fun v => v < 256 ^ k).
Proof.
  intros a e v a' He H. apply num_inv in H. destruct H as (x & H & ->).
  destruct (post_octets k a e x a' He H) as (<- & Hx). apply be_bytes_lt. exact Hx.
Qed.
Lemma post_num1 : post (num 1) (fun v => v < 256).
Proof. exact (post_num 1). Qed.
Lemma post_num2 : post (num 2) (fun v => v < 65536).
Proof. exact (post_num 2). Qed.
Lemma post_num4 : post (num 4) (fun v => v < 4294967296).
Proof. exact (post_num 4). Qed.

(* ---- <character-string> ---- *)
Lemma corr_string : corr string_ charstr.
Proof.
  unfold string_, charstr. apply corr_bind; [apply corr_u8|]. intro n.
  apply corr_bind; [apply corr_read|]. intro x.
  destruct (utf8_valid x); [apply corr_ret|apply corr_fail].
Qed.

Lemma post_charstr : post charstr (fun x => lenN x < 256 /\ utf8_valid x = true).
Proof.
  intros a e x a' He H. apply charstr_inv in H. destruct H as (n & H1 & H2 & _ & H3 & _).
  apply (post_num1 a e n _ He) in H1. split; [lia|exact H3].
Qed.

(* ---- the rest of the window ---- *)
Lemma corr_vec : corr vec rest.
Proof.
  intros s a e Hi. pose proof Hi as ((W1 & W2 & W3 & W4) & V & H1 & H2 & H3).
  unfold vec, rest, octets. rewrite OP_bytes_val. cbn [cmp_apply].
  assert (d_off s <=? d_len s = true) as -> by lia.
  assert (a <=? e = true) as -> by lia. assert (a + (e - a) <=? e = true) as -> by lia. cbv zeta.
  rewrite <- (inv_rest main s a e Hi).
  assert (lenN (d_rest s) =? e - a = true) as -> by lia.
  cbn [agree CorrBase.agree]. split; [reflexivity|]. split; [lia|].
  replace (a + (e - a)) with e by lia.
  split; [exact (inv_drained main s a e _ Hi)|]. cbn [d_off d_len]. split; [lia|reflexivity].
Qed.

Lemma post_rest : post rest (fun x => bytes_ok x).
Proof.
  intros a e x a' He H. apply rest_inv in H. destruct H as (_ & -> & _).
  apply bytes_ok_takeN, bytes_ok_dropN. exact Hb.
Qed.

(* ---- IPv6 address: eight 16-bit groups vs sixteen octets ---- *)




Lemma corr_ipv6 : corr ipv6_addr (octets 16).
Proof.
  intros s a e Hi. pose proof Hi as (W & V & H1 & H2 & H3).
  destruct (ipv6_exact s W H1) as [(Hle & c & Ec)|(Hlt & Hn)].
  - rewrite Ec. unfold octets. assert (a + 16 <=? e = true) as -> by lia. cbv zeta.
    destruct (inv_take main s a e 16 Hi) as (T1 & T2); [lia|]. rewrite T2, N.eqb_refl, T1.
    cbn [agree CorrBase.agree]. split; [reflexivity|]. split; [lia|].
    split; [apply inv_cost; exact (inv_adv main s a e 16 Hi ltac:(lia))|].
    cbn [with_cost adv d_off d_len]. split; [lia|reflexivity].
  - unfold octets. assert (a + 16 <=? e = false) as -> by lia. apply agree_none. exact Hn.
Qed.

(* ---- names ---- *)

Lemma corr_name : corr (domain_name main) pname.
Proof.
  intros s a e Hi. pose proof Hi as (W & V & H1 & H2 & H3).
  pose proof Hm as Hm'. rewrite <- WFMAX_val in Hm'.
  unfold pname.
  destruct (domain_name main s) as [n s'| | |] eqn:Ed.
  - destruct (name_sound main s a n s' Hb Hm' W V Ed) as (x & X1 & X2 & X3 & _).
    destruct (name_bounds main s n s' Hb Hm' W Ed) as (B1 & B2 & B3 & B4 & B5 & B6).
    pose proof (name_end_in_window main s n s' Hb Hm' W Ed) as Hin.
    rewrite X1. assert (x_end x <=? e = true) as -> by lia.
    assert (name_legalb (x_name x) = true) as ->.
    { apply name_legalb_spec. rewrite X2. split; assumption. }
    cbn [andb agree CorrBase.agree]. split; [symmetry; exact X2|]. split; [lia|].
    split; [|split; [lia|exact B2]].
    split; [exact B1|]. split.
    + unfold views. rewrite B4, B2. unfold views in V. rewrite V, dropN_takeN, dropN_dropN.
      f_equal; [lia|f_equal; lia].
    + split; [exact Hin|]. split; [lia|exact H3].
  - destruct (expand 17 main a) as [x|] eqn:Ex; [|exact I].
    destruct ((x_end x <=? e) && name_legalb (x_name x)) eqn:Ec; [|exact I]. exfalso.
    apply andb_prop in Ec. destruct Ec as (Ec1 & Ec2). apply name_legalb_spec in Ec2.
    destruct (name_complete main s a x Hb Hm W V Ex Ec2) as (s' & R & _); [lia|]. congruence.
  - destruct (expand 17 main a) as [x|] eqn:Ex; [|exact I].
    destruct ((x_end x <=? e) && name_legalb (x_name x)) eqn:Ec; [|exact I]. exfalso.
    apply andb_prop in Ec. destruct Ec as (Ec1 & Ec2). apply name_legalb_spec in Ec2.
    destruct (name_complete main s a x Hb Hm W V Ex Ec2) as (s' & R & _); [lia|]. congruence.
  - destruct (expand 17 main a) as [x|] eqn:Ex; [|exact I].
    destruct ((x_end x <=? e) && name_legalb (x_name x)) eqn:Ec; [|exact I]. exfalso.
    apply andb_prop in Ec. destruct Ec as (Ec1 & Ec2). apply name_legalb_spec in Ec2.
    destruct (name_complete main s a x Hb Hm W V Ex Ec2) as (s' & R & _); [lia|]. congruence.
Qed.


(* ---- sub-windows ---- *)

Lemma corr_with_sub {A} (n : N) (m : DM A) (p : P A) : corr_w n m p -> corr (with_sub n m) (within n p).
Proof.
  intros H s a e Hi. unfold with_sub, within.
  pose proof (corr_read n s a e Hi) as Hr.
  destruct (read n s) as [b s1| | |] eqn:Er; destruct (octets n main a e) as [[x a1]|] eqn:Eo;
    cbn [agree CorrBase.agree] in Hr; try contradiction.
  - destruct Hr as (<- & Ha & I1 & Ho & Hl).
    pose proof Hi as (W & V & H1 & H2 & H3).
    destruct (read_preserves_wf n s b s1 W Er) as (W1 & -> & Eb & Hn).
    apply octets_inv in Eo. destruct Eo as (Ho1 & Ho2 & Ho3 & ->).
    assert (a + n <=? e = true) as -> by lia.
    set (c := {| d_rest := b; d_off := 0; d_len := lenN b; d_cost := d_cost (adv n s) |}).
    assert (Ic : inv c a (a + n)).
    { unfold inv, dst_wf, views, c. cbn [d_rest d_off d_len]. rewrite Ho3, N.sub_0_r.
      destruct W as (W1' & W2' & W3' & W4').
      split; [split; [reflexivity|split; [lia|split; [unfold WFMAX; lia|]]]|].
      - rewrite Eb. apply bytes_ok_takeN. exact W4'.
      - split; [exact Ho2|]. split; [lia|]. split; [reflexivity|lia]. }
    specialize (H c a (a + n) Ic ltac:(lia)). unfold bind.
    destruct (m c) as [v c1| | |]; destruct (p main a (a + n)) as [[v' a2]|];
      cbn [agree CorrBase.agree] in H |- *; try contradiction; try exact I.
    destruct H as (<- & Ha2 & I2 & Ho2' & Hl2).
    pose proof I2 as (_ & _ & G1 & G2 & _).
    destruct (finished_cases c1 G1) as [(F1 & ->)|(F1 & ->)].
    + assert (a2 =? a + n = true) as -> by lia. unfold ret. cbn [agree CorrBase.agree].
      split; [reflexivity|]. assert (a2 = a + n) as -> by lia. split; [lia|].
      split; [exact I1|]. cbn [d_off d_len adv]. split; [lia|reflexivity].
    + assert (a2 =? a + n = false) as -> by lia. exact I.
  - assert (a + n <=? e = false) as ->; [|exact I].
    destruct (a + n <=? e) eqn:E; [|reflexivity]. exfalso.
    unfold octets in Eo. rewrite E in Eo. cbv zeta in Eo.
    destruct (inv_take main s a e n Hi) as (_ & T2); [lia|]. rewrite T2, N.eqb_refl in Eo. discriminate.
  - assert (a + n <=? e = false) as ->; [|exact I].
    destruct (a + n <=? e) eqn:E; [|reflexivity]. exfalso.
    unfold octets in Eo. rewrite E in Eo. cbv zeta in Eo.
    destruct (inv_take main s a e n Hi) as (_ & T2); [lia|]. rewrite T2, N.eqb_refl in Eo. discriminate.
  - assert (a + n <=? e = false) as ->; [|exact I].
    destruct (a + n <=? e) eqn:E; [|reflexivity]. exfalso.
    unfold octets in Eo. rewrite E in Eo. cbv zeta in Eo.
    destruct (inv_take main s a e n Hi) as (_ & T2); [lia|]. rewrite T2, N.eqb_refl in Eo. discriminate.
Qed.

(* ---- loops ---- *)
Lemma is_finished_inv s a e : inv s a e ->
  (a = e /\ is_finished s = DOk true s) \/ (a < e /\ is_finished s = DOk false s).
Proof.
  intros (_ & _ & H1 & H2 & _). unfold is_finished.
  destruct (d_off s <? d_len s) eqn:E1.
  - right. split; [lia|reflexivity].
  - assert (d_off s =? d_len s = true) as -> by lia. left. split; [lia|reflexivity].
Qed.

Lemma agree_many {A} (item : DM A) (p : P A) : corr item p -> progress p ->
  forall (f1 f2 : nat) (acc : list A) s a e, inv s a e ->
  (N.to_nat (e - a) < f1)%nat -> (N.to_nat (e - a) < f2)%nat ->
  agree s a e (many f1 item acc s) (pmap (fun l => rev acc ++ l) (until_end f2 p) main a e).
Proof.
  intros Hc Hp. induction f1 as [|f1 IH]; intros f2 acc s a e Hi F1 F2; [lia|].
  destruct f2 as [|f2]; [lia|]. cbn [many]. unfold pmap. cbn [until_end]. unfold bind at 1.
  destruct (is_finished_inv s a e Hi) as [(Ea & ->)|(Ea & ->)].
  - assert (a =? e = true) as -> by lia. rewrite app_nil_r. apply agree_ret. exact Hi.
  - assert (a =? e = false) as -> by lia. unfold bind.
    pose proof (Hc s a e Hi) as Hit.
    destruct (item s) as [x s1| | |]; destruct (p main a e) as [[x' a1]|] eqn:Ep;
      cbn [agree CorrBase.agree] in Hit; try contradiction; try exact I.
    destruct Hit as (<- & Ha & I1 & Ho & Hl). apply Hp in Ep.
    destruct (inv_bounds main _ _ _ I1) as (B1 & _).
    specialize (IH f2 (x :: acc) s1 a1 e I1 ltac:(lia) ltac:(lia)). unfold pmap in IH.
    apply (agree_shift main s a s1 a1); [|lia|exact Ho|exact Hl].
    destruct (until_end f2 p main a1 e) as [[l a2]|]; [|exact IH].
    cbn [rev] in IH. rewrite <- app_assoc in IH. exact IH.
Qed.

Lemma corr_many_k {A B} (item : DM A) (p : P A) (k : list A -> DM B) (k' : list A -> P B) :
  corr item p -> progress p -> (forall l, corr (k l) (k' l)) ->
  corr (fuel <- loop_fuel ;; l <- many fuel item [] ;; k l) (l <~ many_to_end p ;; k' l).
Proof.
  intros Hc Hp Hk s a e Hi. unfold bind at 1. unfold loop_fuel.
  apply (agree_bind main (many (S (N.to_nat (d_len s - d_off s))) item []) k (many_to_end p) k' (fun _ => True));
    [exact Hi| |apply post_true|].
  - unfold many_to_end. pose proof (inv_bounds main _ _ _ Hi) as (B1 & B2 & B3).
    pose proof (agree_many item p Hc Hp (S (N.to_nat (d_len s - d_off s))) (S (N.to_nat (e - a))) [] s a e Hi
                  ltac:(lia) ltac:(lia)) as G.
    unfold pmap in G. destruct (until_end (S (N.to_nat (e - a))) p main a e) as [[l a2]|]; exact G.
  - intros l s1 a1 _ I1 _ _. apply Hk. exact I1.
Qed.

Lemma corr_many {A} (item : DM A) (p : P A) : corr item p -> progress p ->
  corr (fuel <- loop_fuel ;; many fuel item []) (many_to_end p).
Proof.
  intros Hc Hp.
  apply (corr_ext main (fuel <- loop_fuel ;; l <- many fuel item [] ;; ret l) _ (l <~ many_to_end p ;; pret l)).
  - intro s. unfold bind, loop_fuel, ret. destruct (many _ item [] s); reflexivity.
  - intros a e. unfold pbind, pret. destruct (many_to_end p main a e) as [[l a1]|]; reflexivity.
  - apply corr_many_k; [exact Hc|exact Hp|]. intro l. apply corr_ret.
Qed.


Lemma corr_times {A} (item : DM A) (p : P A) : corr item p ->
  forall n, corr (repeat_dm n item) (times n p).
Proof.
  intros Hc. induction n as [|n IH]; cbn [repeat_dm times]; [apply corr_ret|].
  apply corr_bind; [exact Hc|]. intro x. apply corr_bind; [exact IH|]. intro l. apply corr_ret.
Qed.

(* ---- registered code points ---- *)
Lemma corr_code (t : list (string * N)) (er : etag) (rd : DM N) (p : P N) (reg : list N) :
  corr rd p -> (forall v, in_table t v = mem v reg) ->
  corr (code t er rd) (v <~ p ;; if mem v reg then pret v else pnone).
Proof.
  intros Hc Ht. unfold code. apply corr_bind; [exact Hc|]. intro v. rewrite Ht.
  destruct (mem v reg); [apply corr_ret|apply corr_fail].
Qed.

End Main.
Unset Default Proof Using.
