(* C08, part 2: a successful encoding honours the wire limits; unrepresentable values are errors.
   - message size: at most 65535 octets (the final get_offset)
   - the header is written first and never patched; the four counts are exact
   - every 16-bit length field equals the number of octets that follow it (RDLENGTH, option
     length, SvcParam length), or the encoder fails with XLength
   - character strings longer than 255 octets, sections longer than 65535, ECH longer than 65535: errors *)
From DNS Require Import Model.Dec Model.Enc Proofs.ListN Proofs.EncTotal.
Require Import ZArith ZifyBool ZifyN ZifyNat.
Local Open Scope N_scope.
Ltac Zify.zify_post_hook ::= Z.div_mod_to_equations.

(* ---- stepping through binds ---- *)
Definition sput (s : est) (b : bytes) : est :=
  {| e_buf := e_buf s ++ b; e_idx := e_idx s; e_names := e_names s |}.
Lemma put_eq b s : put b s = EOk tt (sput s b).
Proof. reflexivity. Qed.
Lemma ebind_put {B} b (f : unit -> EM B) s : ebind (put b) f s = f tt (sput s b).
Proof. reflexivity. Qed.
Lemma ebind_assoc {A B C} (m : EM A) (f : A -> EM B) (g : B -> EM C) s :
  ebind (ebind m f) g s = ebind m (fun x => ebind (f x) g) s.
Proof. unfold ebind. destruct (m s); reflexivity. Qed.
Lemma sput_sput s a b : sput (sput s a) b = sput s (a ++ b).
Proof. unfold sput. cbn [e_buf e_idx e_names]. rewrite app_assoc. reflexivity. Qed.
Lemma e_buf_sput s b : e_buf (sput s b) = e_buf s ++ b.
Proof. reflexivity. Qed.
Lemma ebind_create {B} (f : N -> EM B) s : ebind create_length_index f s = f (lenN (e_buf s)) (sput s [0; 0]).
Proof. reflexivity. Qed.

(* ---- 4(a): character strings ---- *)
Theorem estring_oversize (b : bytes) : 255 < lenN b -> forall st, estring b st = EErr (XString, [lenN b]).
Proof.
  intros H st. unfold estring. cbv zeta. rewrite OP_string_len_val, STRING_MAX_val. cbn [cmp_apply].
  destruct (255 <? lenN b) eqn:E; [reflexivity|apply N.ltb_ge in E; lia].
Qed.
Theorem estring_ok (b : bytes) : lenN b <= 255 -> forall st, estring b st = EOk tt (sput st (lenN b :: b)).
Proof.
  intros H st. unfold estring. cbv zeta. rewrite OP_string_len_val, STRING_MAX_val. cbn [cmp_apply].
  destruct (255 <? lenN b) eqn:E; [apply N.ltb_lt in E; lia|].
  unfold eu8. rewrite ebind_put, put_eq, sput_sput. unfold u8b. rewrite N.mod_small by lia. reflexivity.
Qed.

(* ---- 3: message size ---- *)
Definition ends_small {A} (m : EM A) : Prop :=
  forall s, match m s with EOk _ s' => lenN (e_buf s') < POW16 | _ => True end.
Lemma ends_small_bind {A B} (m : EM A) (f : A -> EM B) : (forall a, ends_small (f a)) -> ends_small (ebind m f).
Proof. intros H s. unfold ebind. destruct (m s) as [a s1|e|x|]; try exact I. apply H. Qed.
Lemma ends_small_final : ends_small (_ <-- get_offset ;; eret tt).
Proof.
  intros s. unfold get_offset, ebind, buf_len.
  destruct (lenN (e_buf s) <? POW16) eqn:E; cbn [eret efail]; [apply N.ltb_lt; exact E|exact I].
Qed.
Lemma ends_small_enc_dns m : ends_small (enc_dns m).
Proof. unfold enc_dns. do 10 (apply ends_small_bind; intros _). apply ends_small_final. Qed.

Theorem enc_Dns_size m b : enc_Dns m = Ok b -> lenN b <= 65535.
Proof.
  unfold enc_Dns, erun. pose proof (ends_small_enc_dns m e_init) as H.
  destruct (enc_dns m e_init) as [a s'|e|x|]; try discriminate.
  intros E. inversion E; subst b. rewrite POW16_val in H. lia.
Qed.

(* ---- 3/4(b): the header and the section counts ---- *)
Definition hdr (m : dns) : bytes :=
  u16b (m_id m) ++ u8b (flags_octet (m_flags m) 0) ++ u8b (flags_octet (m_flags m) 1) ++
  u16b (lenN (m_qd m)) ++ u16b (lenN (m_an m)) ++ u16b (lenN (m_ns m)) ++ u16b (lenN (m_ar m)).

Definition enc_dns_body (m : dns) : EM unit :=
  _ <-- emap enc_question (m_qd m) ;;
  _ <-- emap enc_rr (m_an m) ;;
  _ <-- emap enc_rr (m_ns m) ;;
  _ <-- emap enc_rr (m_ar m) ;;
  _ <-- get_offset ;; eret tt.

Lemma ext_enc_dns_body m : ext (enc_dns_body m).
Proof. unfold enc_dns_body. ext_go. Qed.

Lemma ebind_enc_count {A B} (l : list A) (f : unit -> EM B) s :
  ebind (enc_count l) f s = if lenN l <? POW16 then f tt (sput s (u16b (lenN l))) else EErr (XLength, [lenN l]).
Proof. unfold enc_count. cbv zeta. unfold ebind. destruct (lenN l <? POW16); reflexivity. Qed.

(* the whole encoder: four range checks, then the body from the state holding exactly the header *)
Lemma enc_dns_unfold m s :
  enc_dns m s =
  if lenN (m_qd m) <? POW16 then
    if lenN (m_an m) <? POW16 then
      if lenN (m_ns m) <? POW16 then
        if lenN (m_ar m) <? POW16 then enc_dns_body m (sput s (hdr m))
        else EErr (XLength, [lenN (m_ar m)])
      else EErr (XLength, [lenN (m_ns m)])
    else EErr (XLength, [lenN (m_an m)])
  else EErr (XLength, [lenN (m_qd m)]).
Proof.
  unfold enc_dns, enc_flags, eu16, eu8. rewrite ebind_put, ebind_assoc, ebind_put, ebind_put.
  rewrite !ebind_enc_count.
  destruct (lenN (m_qd m) <? POW16); [|reflexivity].
  destruct (lenN (m_an m) <? POW16); [|reflexivity].
  destruct (lenN (m_ns m) <? POW16); [|reflexivity].
  destruct (lenN (m_ar m) <? POW16); [|reflexivity].
  rewrite !sput_sput. reflexivity.
Qed.

Lemma lenN_hdr m : lenN (hdr m) = 12.
Proof. reflexivity. Qed.

Theorem enc_Dns_header m b : enc_Dns m = Ok b ->
  lenN (m_qd m) <= 65535 /\ lenN (m_an m) <= 65535 /\ lenN (m_ns m) <= 65535 /\ lenN (m_ar m) <= 65535 /\
  exists w, b = hdr m ++ w.
Proof.
  unfold enc_Dns, erun. rewrite enc_dns_unfold.
  destruct (lenN (m_qd m) <? POW16) eqn:E1; [|discriminate].
  destruct (lenN (m_an m) <? POW16) eqn:E2; [|discriminate].
  destruct (lenN (m_ns m) <? POW16) eqn:E3; [|discriminate].
  destruct (lenN (m_ar m) <? POW16) eqn:E4; [|discriminate].
  apply N.ltb_lt in E1, E2, E3, E4. rewrite POW16_val in *.
  pose proof (ext_enc_dns_body m (sput e_init (hdr m))) as H.
  destruct (enc_dns_body m (sput e_init (hdr m))) as [a s'|e|x|]; try discriminate.
  intros E. inversion E; subst b. destruct H as (w & Hw & _).
  split; [lia|]. split; [lia|]. split; [lia|]. split; [lia|].
  exists w. rewrite Hw. reflexivity.
Qed.

(* octets 4..11 of the output are the four counts, not wrapped *)
Theorem enc_Dns_counts m b : enc_Dns m = Ok b ->
  lenN (m_qd m) <= 65535 /\ lenN (m_an m) <= 65535 /\ lenN (m_ns m) <= 65535 /\ lenN (m_ar m) <= 65535 /\
  takeN 8 (dropN 4 b) =
    u16b (lenN (m_qd m)) ++ u16b (lenN (m_an m)) ++ u16b (lenN (m_ns m)) ++ u16b (lenN (m_ar m)).
Proof.
  intros H. destruct (enc_Dns_header m b H) as (H1 & H2 & H3 & H4 & w & ->).
  split; [exact H1|]. split; [exact H2|]. split; [exact H3|]. split; [exact H4|]. reflexivity.
Qed.

(* a count field determines the section length *)
Lemma u16b_inj a b : a <= 65535 -> b <= 65535 -> u16b a = u16b b -> a = b.
Proof. unfold u16b. intros Ha Hb E. inversion E. lia. Qed.

Theorem section_oversize_qd m : 65535 < lenN (m_qd m) -> enc_Dns m = Err (XLength, [lenN (m_qd m)]).
Proof.
  intros H. unfold enc_Dns, erun. rewrite enc_dns_unfold.
  destruct (lenN (m_qd m) <? POW16) eqn:E1; [apply N.ltb_lt in E1; rewrite POW16_val in E1; lia|reflexivity].
Qed.
Theorem section_oversize_an m : lenN (m_qd m) <= 65535 -> 65535 < lenN (m_an m) ->
  enc_Dns m = Err (XLength, [lenN (m_an m)]).
Proof.
  intros H0 H. unfold enc_Dns, erun. rewrite enc_dns_unfold.
  destruct (lenN (m_qd m) <? POW16) eqn:E0; [|apply N.ltb_ge in E0; rewrite POW16_val in E0; lia].
  destruct (lenN (m_an m) <? POW16) eqn:E1; [apply N.ltb_lt in E1; rewrite POW16_val in E1; lia|reflexivity].
Qed.
Theorem section_oversize_ns m : lenN (m_qd m) <= 65535 -> lenN (m_an m) <= 65535 -> 65535 < lenN (m_ns m) ->
  enc_Dns m = Err (XLength, [lenN (m_ns m)]).
Proof.
  intros H0 H1 H. unfold enc_Dns, erun. rewrite enc_dns_unfold.
  destruct (lenN (m_qd m) <? POW16) eqn:E0; [|apply N.ltb_ge in E0; rewrite POW16_val in E0; lia].
  destruct (lenN (m_an m) <? POW16) eqn:E1; [|apply N.ltb_ge in E1; rewrite POW16_val in E1; lia].
  destruct (lenN (m_ns m) <? POW16) eqn:E2; [apply N.ltb_lt in E2; rewrite POW16_val in E2; lia|reflexivity].
Qed.
Theorem section_oversize_ar m : lenN (m_qd m) <= 65535 -> lenN (m_an m) <= 65535 -> lenN (m_ns m) <= 65535 ->
  65535 < lenN (m_ar m) -> enc_Dns m = Err (XLength, [lenN (m_ar m)]).
Proof.
  intros H0 H1 H2 H. unfold enc_Dns, erun. rewrite enc_dns_unfold.
  destruct (lenN (m_qd m) <? POW16) eqn:E0; [|apply N.ltb_ge in E0; rewrite POW16_val in E0; lia].
  destruct (lenN (m_an m) <? POW16) eqn:E1; [|apply N.ltb_ge in E1; rewrite POW16_val in E1; lia].
  destruct (lenN (m_ns m) <? POW16) eqn:E2; [|apply N.ltb_ge in E2; rewrite POW16_val in E2; lia].
  destruct (lenN (m_ar m) <? POW16) eqn:E3; [apply N.ltb_lt in E3; rewrite POW16_val in E3; lia|reflexivity].
Qed.
Theorem section_oversize_any m :
  65535 < lenN (m_qd m) \/ 65535 < lenN (m_an m) \/ 65535 < lenN (m_ns m) \/ 65535 < lenN (m_ar m) ->
  exists k, enc_Dns m = Err (XLength, [k]) /\ 65535 < k.
Proof.
  intros H.
  destruct (N.le_gt_cases (lenN (m_qd m)) 65535) as [H0|H0]; [|eexists; split; [apply section_oversize_qd; exact H0|exact H0]].
  destruct (N.le_gt_cases (lenN (m_an m)) 65535) as [H1|H1]; [|eexists; split; [apply section_oversize_an; assumption|exact H1]].
  destruct (N.le_gt_cases (lenN (m_ns m)) 65535) as [H2|H2]; [|eexists; split; [apply section_oversize_ns; assumption|exact H2]].
  destruct (N.le_gt_cases (lenN (m_ar m)) 65535) as [H3|H3]; [|eexists; split; [apply section_oversize_ar; assumption|exact H3]].
  lia.
Qed.

(* ---- 4(c): the pattern  create_length_index ;; body ;; set_length_index ---- *)
(* the useful form: the body appends [w]; the slot receives lenN w, or the whole fails with XLength *)
Theorem length_slot_spec (body : EM unit) s s1 w :
  body (sput s [0; 0]) = EOk tt s1 -> e_buf s1 = e_buf s ++ [0; 0] ++ w ->
  (li <-- create_length_index ;; _ <-- body ;; set_length_index li) s =
  if lenN w <? POW16
  then EOk tt {| e_buf := e_buf s ++ u16b (lenN w) ++ w; e_idx := e_idx s1; e_names := e_names s1 |}
  else EErr (XLength, [lenN w]).
Proof.
  intros Hb Hw. rewrite ebind_create. unfold ebind. rewrite Hb.
  apply (set_length_index_exact s1 (e_buf s) 0 0 w Hw).
Qed.

Theorem length_slot_ok (body : EM unit) s s' : ext body ->
  (li <-- create_length_index ;; _ <-- body ;; set_length_index li) s = EOk tt s' ->
  exists w s1, body (sput s [0; 0]) = EOk tt s1 /\ e_buf s1 = e_buf s ++ [0; 0] ++ w /\
               e_buf s' = e_buf s ++ u16b (lenN w) ++ w /\ lenN w <= 65535.
Proof.
  intros He H. specialize (He (sput s [0; 0])).
  destruct (body (sput s [0; 0])) as [[] s1|e|x|] eqn:Hb.
  - destruct He as (w & Hw & _). rewrite e_buf_sput, <- app_assoc in Hw.
    rewrite (length_slot_spec body s s1 w Hb Hw) in H.
    destruct (lenN w <? POW16) eqn:E; [|discriminate]. inversion H; subst s'. cbn [e_buf].
    exists w, s1. split; [reflexivity|]. split; [exact Hw|]. split; [reflexivity|].
    apply N.ltb_lt in E. rewrite POW16_val in E. lia.
  - rewrite ebind_create in H. unfold ebind in H. rewrite Hb in H. discriminate.
  - contradiction.
  - rewrite ebind_create in H. unfold ebind in H. rewrite Hb in H. discriminate.
Qed.

Theorem length_slot_overflow (body : EM unit) s s1 w :
  body (sput s [0; 0]) = EOk tt s1 -> e_buf s1 = e_buf s ++ [0; 0] ++ w -> 65535 < lenN w ->
  (li <-- create_length_index ;; _ <-- body ;; set_length_index li) s = EErr (XLength, [lenN w]).
Proof.
  intros Hb Hw H. rewrite (length_slot_spec body s s1 w Hb Hw).
  destruct (lenN w <? POW16) eqn:E; [apply N.ltb_lt in E; rewrite POW16_val in E; lia|reflexivity].
Qed.

(* ---- every record: RDLENGTH is exact ---- *)
Definition rr_shape (ty : N) (w : bytes) : Prop :=
  exists nm cls ttl rd,
    w = nm ++ u16b ty ++ u16b cls ++ u32b ttl ++ u16b (lenN rd) ++ rd /\ lenN rd <= 65535.

Lemma rr_frame nm ty cls ttl (f : N -> EM unit) : (forall li, closes li (f li)) ->
  extQ (rr_shape ty)
       (_ <-- enc_domain_name nm ;; _ <-- eu16 ty ;; _ <-- eu16 cls ;; _ <-- eu32 ttl ;; ebind create_length_index f).
Proof.
  intros Hf s. unfold ebind at 1. pose proof (ext_enc_domain_name nm s) as Hn.
  destruct (enc_domain_name nm s) as [[] s1|e|x|]; try exact Hn. destruct Hn as (wn & Hwn & _).
  unfold eu16, eu32. rewrite !ebind_put, !sput_sput.
  pose proof (extQ_slot f Hf (sput s1 (u16b ty ++ u16b cls ++ u32b ttl))) as Hs.
  match goal with |- match ?r with _ => _ end => destruct r as [a s'|e|x|] end; try exact Hs.
  destruct Hs as (w & Hw & rd & -> & Hrd). rewrite e_buf_sput, Hwn in Hw.
  exists (wn ++ u16b ty ++ u16b cls ++ u32b ttl ++ u16b (lenN rd) ++ rd).
  split; [rewrite Hw, <- !app_assoc; reflexivity|].
  exists wn, cls, ttl, rd. split; [reflexivity|exact Hrd].
Qed.

Theorem enc_rr_framed r : extQ (rr_shape (r_type r)) (enc_rr r).
Proof.
  unfold enc_rr. destruct (lookup (r_type r) enc_dispatch) as [[ec f|sp]|]; [| |intros s; exact I].
  - destruct (r_data r); try (intros s; exact I). apply rr_frame. intros li. closes_go.
  - destruct sp; destruct (r_data r); try (intros s; exact I); apply rr_frame; intros li; closes_go.
Qed.

Theorem enc_rr_rdlength r s s' : enc_rr r s = EOk tt s' ->
  exists nm cls ttl rd,
    e_buf s' = e_buf s ++ nm ++ u16b (r_type r) ++ u16b cls ++ u32b ttl ++ u16b (lenN rd) ++ rd /\
    lenN rd <= 65535.
Proof.
  intros H. pose proof (enc_rr_framed r s) as F. rewrite H in F.
  destruct F as (w & Hw & nm & cls & ttl & rd & -> & Hrd). exists nm, cls, ttl, rd. split; assumption.
Qed.

(* ---- EDNS options and SVCB parameters: code, exact length, value ---- *)
Definition tlv_shape (code : N) (w : bytes) : Prop :=
  exists v, w = u16b code ++ u16b (lenN v) ++ v /\ lenN v <= 65535.

Lemma tlv_frame code (f : N -> EM unit) : (forall li, closes li (f li)) ->
  extQ (tlv_shape code) (_ <-- eu16 code ;; ebind create_length_index f).
Proof.
  intros Hf s. unfold eu16. rewrite ebind_put.
  pose proof (extQ_slot f Hf (sput s (u16b code))) as Hs.
  match goal with |- match ?r with _ => _ end => destruct r as [a s'|e|x|] end; try exact Hs.
  destruct Hs as (w & Hw & v & -> & Hv). rewrite e_buf_sput in Hw.
  exists (u16b code ++ u16b (lenN v) ++ v). split; [rewrite Hw, <- !app_assoc; reflexivity|].
  exists v. split; [reflexivity|exact Hv].
Qed.

Definition opt_code (o : ednsopt) : N :=
  match o with OEcs _ => OPT_ECS | OCookie _ => OPT_COOKIE | OPadding _ => OPT_PADDING end.

Lemma lenN_zeros k : lenN (zeros k) = N.of_nat k.
Proof. unfold lenN. f_equal. induction k as [|k IH]; cbn [zeros length]; [reflexivity|]. rewrite IH. reflexivity. Qed.

Lemma u16b_mod n : u16b (n mod POW16) = u16b n.
Proof. rewrite POW16_val. unfold u16b. f_equal; [|f_equal]; lia. Qed.

Theorem enc_edns_option_framed o : extQ (tlv_shape (opt_code o)) (enc_edns_option o).
Proof.
  destruct o as [e|c|n]; unfold enc_edns_option, opt_code.
  - unfold enc_ecs. apply tlv_frame. intros li. closes_go.
  - unfold enc_cookie. apply tlv_frame. intros li. closes_go.
  - intros s. unfold enc_padding, eu16. rewrite !ebind_put, put_eq, !sput_sput.
    eexists. split; [reflexivity|]. exists (zeros (N.to_nat (n mod POW16))).
    rewrite lenN_zeros, N2Nat.id, u16b_mod. split; [reflexivity|].
    rewrite POW16_val. lia.
Qed.

Theorem enc_service_parameter_framed p : extQ (tlv_shape (param_key p)) (enc_service_parameter p).
Proof.
  unfold enc_service_parameter. apply tlv_frame. intros li.
  apply closes_bind; [|intros _; apply closes_set]. destruct p; cbv zeta; ext_go.
Qed.

(* ---- 4(d): ECH longer than 65535 octets ---- *)
Theorem ech_oversize cl s : 65535 < lenN cl -> enc_service_parameter (PEch cl) s = EErr (XLength, [lenN cl]).
Proof.
  intros H. unfold enc_service_parameter, eu16. rewrite ebind_put, ebind_create. cbv zeta.
  unfold ebind at 1. destruct (65535 <? lenN cl) eqn:E; [reflexivity|apply N.ltb_ge in E; lia].
Qed.

(* ---- the APL address-length octet ---- *)
Theorem enc_apitem_exact i s s' : enc_apitem i s = EOk tt s' ->
  exists b, e_buf s' = e_buf s ++ u16b (a_fam (i_addr i)) ++ u8b (i_prefix i) ++
                       u8b (if i_neg i then N.lor (lenN b) 128 else lenN b) ++ b /\ lenN b < 128.
Proof.
  unfold enc_apitem, eu16, eu8. rewrite !ebind_put, !sput_sput.
  destruct (rr_address_with_length_put (i_addr i) ENC_APL_MINIMUM_LENGTH) as (b & Hput).
  unfold ebind at 1. cbn [buf_len]. rewrite ebind_put. unfold ebind. rewrite Hput, put_eq, !sput_sput.
  set (h := u16b (a_fam (i_addr i)) ++ u8b (i_prefix i)).
  rewrite (set_address_length_index_exact _ (e_buf s ++ h) (0 mod 256) b);
    [|rewrite e_buf_sput, !app_assoc; reflexivity].
  destruct (lenN b <? 256); [|discriminate]. destruct (lenN b <? 128) eqn:E; [|discriminate].
  intros H. inversion H. exists b. split; [unfold h; rewrite <- !app_assoc; reflexivity|apply N.ltb_lt; exact E].
Qed.

(* ---- character strings inside lists (TXT, ALPN): the first oversized string is reported ---- *)
Theorem emap_estring_oversize (l : list bytes) : Exists (fun s : bytes => 255 < lenN s) l ->
  forall st, exists k, emap estring l st = EErr (XString, [k]) /\ 255 < k.
Proof.
  induction l as [|x r IH]; intros H st; [inversion H|]. cbn [emap]. unfold ebind.
  destruct (N.le_gt_cases (lenN x) 255) as [Hx|Hx].
  - rewrite (estring_ok x Hx). apply IH. inversion H; subst; [lia|assumption].
  - rewrite (estring_oversize x Hx). exists (lenN x). split; [reflexivity|exact Hx].
Qed.

(* ---- compression pointers: the offset is at most 16383, otherwise XCompression ---- *)
Theorem compress_pointer n s r s' : compress n s = EOk (Some r) s' ->
  exists i, i <= 16383 /\ e_buf s' = e_buf s ++ u16b (N.lor ENC_COMPRESSION_BITS i) /\
            exists h l, u16b (N.lor ENC_COMPRESSION_BITS i) = [h; l] /\ 192 <= h /\ (h - 192) * 256 + l = i.
Proof.
  unfold compress. destruct (idx_lookup n (e_idx s)) as [[i r']|]; [|intros H; inversion H].
  rewrite OP_compress_offset_val, ENC_MAX_OFFSET_val. cbn [cmp_apply].
  destruct (16383 <? i) eqn:E; [discriminate|]. apply N.ltb_ge in E.
  destruct (cmp_apply OP_compress_rec r' DOMAIN_NAME_MAX_RECURSION); [intros H; inversion H|].
  unfold eu16. rewrite ebind_put. unfold eret. intros H.
  assert (Hs : s' = sput s (u16b (N.lor ENC_COMPRESSION_BITS i))) by congruence. subst s'. clear H.
  exists i. split; [exact E|]. split; [apply e_buf_sput|].
  destruct (ptr_bytes i E) as (h & l & Hb & _ & Hh & Hv). exists h, l. split; [exact Hb|]. split; assumption.
Qed.
Theorem compress_offset_error n s i r : idx_lookup n (e_idx s) = Some (i, r) -> 16383 < i ->
  compress n s = EErr (XCompression, [i]).
Proof.
  intros Hl Hi. unfold compress. rewrite Hl, OP_compress_offset_val, ENC_MAX_OFFSET_val. cbn [cmp_apply].
  destruct (16383 <? i) eqn:E; [reflexivity|apply N.ltb_ge in E; lia].
Qed.
