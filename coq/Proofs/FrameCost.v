(* C09 — the octet counter [d_cost] is write-only: shifting it shifts the counter of the result and
   changes nothing else.  (Used to compare runs of a reader on the same window reached with
   different counter values.) *)
From Coq Require Import ZifyBool ZifyN ZifyNat.
From DNS Require Import Model.Dec Proofs.DecBase Proofs.DecName Proofs.DecSafe Proofs.DecTotal Proofs.Frame.
Local Open Scope N_scope.

Definition shift (d : N) (s : dst) : dst :=
  {| d_rest := d_rest s; d_off := d_off s; d_len := d_len s; d_cost := d_cost s + d |}.
Definition shiftr {A} (d : N) (r : dres A) : dres A :=
  match r with DOk a s => DOk a (shift d s) | DErr e c => DErr e (c + d) | DPanic x => DPanic x | DFuel => DFuel end.
Definition cshift {A} (m : DM A) : Prop := forall (d : N) (s : dst), m (shift d s) = shiftr d (m s).

Lemma cshift_ret {A} (a : A) : cshift (ret a).
Proof. intros d s. reflexivity. Qed.
Lemma cshift_fail {A} (e : err) : cshift (@fail A e).
Proof. intros d s. reflexivity. Qed.
Lemma cshift_panic {A} (x : site) : cshift (@panic A x).
Proof. intros d s. reflexivity. Qed.
Lemma cshift_fuel {A} : cshift (fun _ => @DFuel A).
Proof. intros d s. reflexivity. Qed.
Lemma cshift_bind {A B} (m : DM A) (f : A -> DM B) : cshift m -> (forall a, cshift (f a)) -> cshift (bind m f).
Proof.
  intros Hm Hf d s. unfold bind. rewrite Hm. destruct (m s) as [a s1|e c|x|]; cbn [shiftr]; try reflexivity. apply Hf.
Qed.
Lemma cshift_lift {A} (r : res A) : cshift (lift r).
Proof. destruct r; cbn [lift]; [apply cshift_ret|apply cshift_fail|apply cshift_panic|apply cshift_fuel]. Qed.

Lemma shift_eq (d : N) (r : bytes) (o l c c' : N) : c' = c + d ->
  {| d_rest := r; d_off := o; d_len := l; d_cost := c' |} = shift d {| d_rest := r; d_off := o; d_len := l; d_cost := c |}.
Proof. intros ->. reflexivity. Qed.

Lemma cshift_read (n : N) : cshift (read n).
Proof.
  intros d s. unfold read. cbv zeta. cbn [shift d_off d_len d_rest d_cost].
  destruct (POW64 <=? d_off s + n); [reflexivity|].
  destruct (cmp_apply OP_read (d_off s + n) (d_len s)); cbn [shiftr]; [|reflexivity].
  f_equal. apply shift_eq. lia.
Qed.
Lemma cshift_is_finished : cshift is_finished.
Proof.
  intros d s. unfold is_finished. cbn [shift d_off d_len d_cost].
  destruct (d_off s <? d_len s); [reflexivity|]. destruct (d_off s =? d_len s); reflexivity.
Qed.
Lemma cshift_finished : cshift finished.
Proof.
  unfold finished. apply cshift_bind; [exact cshift_is_finished|]. intros [|]; [apply cshift_ret|].
  intros d s. reflexivity.
Qed.
Lemma cshift_vec : cshift vec.
Proof.
  intros d s. unfold vec. cbn [shift d_off d_len d_rest d_cost].
  destruct (cmp_apply OP_bytes (d_off s) (d_len s)); cbn [shiftr]; [|reflexivity].
  f_equal. apply shift_eq. lia.
Qed.
Lemma cshift_loop_fuel : cshift loop_fuel.
Proof. intros d s. reflexivity. Qed.

Lemma cshift_with_sub {A} (n : N) (m : DM A) : cshift m -> cshift (with_sub n m).
Proof.
  intros Hm d s. unfold with_sub. rewrite cshift_read.
  destruct (read n s) as [b s1|e c|x|]; cbn [shiftr]; try reflexivity.
  assert (S : cshift (a <- m ;; _ <- finished ;; ret a)).
  { apply cshift_bind; [exact Hm|]. intro a. apply cshift_bind; [exact cshift_finished|]. intro. apply cshift_ret. }
  change {| d_rest := b; d_off := 0; d_len := lenN b; d_cost := d_cost (shift d s1) |}
    with (shift d {| d_rest := b; d_off := 0; d_len := lenN b; d_cost := d_cost s1 |}).
  rewrite S.
  destruct ((a <- m ;; _ <- finished ;; ret a) {| d_rest := b; d_off := 0; d_len := lenN b; d_cost := d_cost s1 |})
    as [a c|e c|x|]; cbn [shiftr]; reflexivity.
Qed.

Lemma cshift_u8 : cshift u8.
Proof. unfold u8. apply cshift_bind; [apply cshift_read|]. intros [|x r]; [apply cshift_panic|apply cshift_ret]. Qed.
Lemma cshift_uint (k : N) : cshift (uint k).
Proof. unfold uint. apply cshift_bind; [apply cshift_read|]. intro b. destruct (lenN b =? k); [apply cshift_ret|apply cshift_panic]. Qed.
Lemma cshift_u16 : cshift u16. Proof. apply cshift_uint. Qed.
Lemma cshift_u32 : cshift u32. Proof. apply cshift_uint. Qed.
Lemma cshift_u64 : cshift u64. Proof. apply cshift_uint. Qed.
Lemma cshift_ipv4 : cshift ipv4_addr. Proof. apply cshift_uint. Qed.
Lemma cshift_code (t : list (string * N)) (er : etag) (rd : DM N) : cshift rd -> cshift (code t er rd).
Proof.
  intros Hr. unfold code. apply cshift_bind; [exact Hr|]. intro v.
  destruct (in_table t v); [apply cshift_ret|apply cshift_fail].
Qed.

Global Hint Resolve cshift_read cshift_is_finished cshift_finished cshift_vec cshift_loop_fuel cshift_u8 cshift_u16
  cshift_u32 cshift_u64 cshift_ipv4 cshift_uint cshift_lift cshift_code : cshift.

Ltac cb := apply cshift_bind; [solve [auto with cshift]|intro].
Ltac cleaf := first [apply cshift_ret | apply cshift_panic | apply cshift_fail | apply cshift_fuel | solve [auto with cshift]].
Ltac cif := match goal with |- cshift (if ?b then _ else _) => destruct b end.
Ltac cauto := repeat first [cleaf | cb | cif].

Lemma cshift_string : cshift string_.
Proof. unfold string_. cauto. Qed.
Lemma cshift_ipv6 : cshift ipv6_addr.
Proof. unfold ipv6_addr. cauto. Qed.
Global Hint Resolve cshift_string cshift_ipv6 : cshift.

(* ---- names ---- *)
Lemma cshift_label (nm : name) (len : N) : cshift (domain_name_label nm len).
Proof. unfold domain_name_label. cauto. Qed.

Lemma cshift_rec_loop (main : bytes) : forall (f : nat) (nm : name) (recs : list N) (len : N), cshift (rec_loop f main nm recs len).
Proof.
  induction f as [|f IH]; intros nm recs len; [apply cshift_fuel|].
  rewrite rec_loop_S. cif; [cleaf|]. cif.
  - cb. cbv zeta. cif; [cleaf|]. cif; [cleaf|].
    intros d s. change (jump main (ptr_offset len a) (d_cost (shift d s))) with (shift d (jump main (ptr_offset len a) (d_cost s))).
    apply cshift_bind; [exact cshift_u8|]. intro. apply IH.
  - apply cshift_bind; [apply cshift_label|]. intros [nm' l]. apply IH.
Qed.
Lemma cshift_name_loop (main : bytes) : forall (f : nat) (nm : name) (len : N), cshift (name_loop f main nm len).
Proof.
  induction f as [|f IH]; intros nm len; [apply cshift_fuel|].
  rewrite name_loop_S. cif; [cleaf|]. cif.
  - cb. cbv zeta. intros d s.
    change (jump main (ptr_offset len a) (d_cost (shift d s))) with (shift d (jump main (ptr_offset len a) (d_cost s))).
    assert (S : cshift (l <- u8 ;; rec_loop NAMEFUEL main nm [] l)).
    { apply cshift_bind; [exact cshift_u8|]. intro. apply cshift_rec_loop. }
    rewrite S. destruct ((l <- u8 ;; rec_loop NAMEFUEL main nm [] l) (jump main (ptr_offset len a) (d_cost s)))
      as [nm' ds|e c|x|]; cbn [shiftr]; reflexivity.
  - apply cshift_bind; [apply cshift_label|]. intros [nm' l]. apply IH.
Qed.
Lemma cshift_domain_name (main : bytes) : cshift (domain_name main).
Proof. unfold domain_name. cb. apply cshift_name_loop. Qed.
Global Hint Resolve cshift_domain_name : cshift.

(* ---- loops ---- *)
Lemma cshift_many {A} (item : DM A) : cshift item -> forall (f : nat) (acc : list A), cshift (many f item acc).
Proof.
  intro Hi. induction f as [|f IH]; intro acc; [apply cshift_fuel|].
  rewrite many_S. cb. cif; [cleaf|]. apply cshift_bind; [exact Hi|]. intro. apply IH.
Qed.
Lemma cshift_strings_loop : forall (f : nat) (acc : list bytes), cshift (strings_loop f acc).
Proof.
  induction f as [|f IH]; intro acc; [apply cshift_fuel|].
  rewrite strings_loop_S. cb. cif; [cleaf|]. cb. apply IH.
Qed.
Lemma cshift_many_loop {A B} (item : DM A) (g : list A -> DM B) : cshift item -> (forall l, cshift (g l)) ->
  cshift (fuel <- loop_fuel ;; l <- many fuel item [] ;; g l).
Proof. intros Hi Hg. cb. apply cshift_bind; [apply cshift_many; exact Hi|exact Hg]. Qed.

(* ---- field readers ---- *)
Lemma cshift_read_field (main : bytes) (k : fk) : cshift (read_field main k).
Proof.
  destruct k; cbn [read_field]; try solve [cauto].
  cb. apply cshift_bind; [apply cshift_strings_loop|]. intros [|x r]; cleaf.
Qed.
Lemma cshift_read_fields (main : bytes) (f : list (string * fk)) : cshift (read_fields main f).
Proof.
  induction f as [|[nm k] r IH]; cbn [read_fields]; [apply cshift_ret|].
  apply cshift_bind; [apply cshift_read_field|intro]. apply cshift_bind; [exact IH|intro]. apply cshift_ret.
Qed.
Lemma cshift_get_class (c : N) : cshift (get_class c).
Proof. unfold get_class. cauto. Qed.
Lemma cshift_class_rule (ck : classrule) (c : N) : cshift (class_rule ck c).
Proof.
  destruct ck; cbn [class_rule]; [apply cshift_get_class| |apply cshift_ret].
  apply cshift_bind; [apply cshift_get_class|intro]. cauto.
Qed.

(* ---- special RDATA readers ---- *)
Lemma cshift_address_sized (size : N) (op : cmp) (t : etag) (x : site) : cshift (rr_address_sized size op t x).
Proof. unfold rr_address_sized. cb. cbv zeta. cauto. Qed.
Lemma cshift_address (fam : N) : cshift (rr_address fam).
Proof. unfold rr_address. cif; (apply cshift_bind; [apply cshift_address_sized|intro; cleaf]). Qed.
Lemma cshift_family : cshift rr_address_family_number.
Proof. unfold rr_address_family_number. cauto. Qed.
Lemma cshift_ecs : cshift rr_edns_ecs.
Proof.
  unfold rr_edns_ecs. apply cshift_bind; [exact cshift_family|intro]. cb. cb.
  apply cshift_bind; [apply cshift_address|intro]. cleaf.
Qed.
Lemma cshift_cookie : cshift rr_edns_cookie.
Proof. unfold rr_edns_cookie. cb. cbv zeta. cauto. Qed.
Lemma cshift_padding : cshift rr_edns_padding.
Proof.
  unfold rr_edns_padding. cb. cbv zeta. cif; [cleaf|].
  match goal with |- cshift (match ?x with _ => _ end) => destruct x end; cleaf.
Qed.
Lemma cshift_edns_option : cshift rr_edns_option.
Proof.
  unfold rr_edns_option. cb. cb. apply cshift_with_sub. cif; [|cif].
  - apply cshift_bind; [exact cshift_ecs|intro; cleaf].
  - apply cshift_bind; [exact cshift_cookie|intro; cleaf].
  - apply cshift_bind; [exact cshift_padding|intro; cleaf].
Qed.
Lemma cshift_opt (owner : name) (hclass ttl : N) : cshift (rr_opt owner hclass ttl).
Proof.
  unfold rr_opt. destruct owner; [|cleaf].
  apply cshift_bind; [unfold rr_opt_ttl; cbv zeta; cauto|]. intros [[ext ver] dnssec].
  apply (cshift_many_loop rr_edns_option (fun opts => ret (ROpt hclass ext ver dnssec opts))); [exact cshift_edns_option|].
  intro. apply cshift_ret.
Qed.
Lemma cshift_apitem : cshift rr_apl_apitem.
Proof.
  unfold rr_apl_apitem. apply cshift_bind; [exact cshift_family|intro]. cb. cb. cbv zeta.
  apply cshift_bind; [apply cshift_with_sub; apply cshift_address|intro]. cleaf.
Qed.
Lemma cshift_apl (hclass : N) : cshift (rr_apl hclass).
Proof.
  unfold rr_apl. apply cshift_bind; [apply cshift_class_rule|intro].
  apply (cshift_many_loop rr_apl_apitem (fun items => ret (RApl items))); [exact cshift_apitem|]. intro. apply cshift_ret.
Qed.
Lemma cshift_service_parameter (key : N) : cshift (rr_service_parameter key).
Proof.
  unfold rr_service_parameter.
  cif. { apply (cshift_many_loop u16 (fun l => ret (PMandatory l))); [exact cshift_u16|intro; apply cshift_ret]. }
  cif. { apply (cshift_many_loop string_ (fun l => ret (PAlpn l))); [exact cshift_string|intro; apply cshift_ret]. }
  cif; [cleaf|]. cif; [cauto|].
  cif. { apply (cshift_many_loop ipv4_addr (fun l => ret (PIpv4Hint l))); [exact cshift_ipv4|intro; apply cshift_ret]. }
  cif; [cauto|].
  cif. { apply (cshift_many_loop ipv6_addr (fun l => ret (PIpv6Hint l))); [exact cshift_ipv6|intro; apply cshift_ret]. }
  cauto.
Qed.
Lemma cshift_svc_params : forall (f : nat) (acc : list svcparam), cshift (svc_params f acc).
Proof.
  induction f as [|f IH]; intro acc; [apply cshift_fuel|].
  rewrite svc_params_S. cb. cif; [cleaf|]. cb. cb.
  apply cshift_bind; [apply cshift_with_sub; apply cshift_service_parameter|intro p].
  destruct (set_insert p acc) as [acc' ins]. destruct ins; [apply IH|cleaf].
Qed.
Lemma cshift_service_binding (main : bytes) (hclass : N) : cshift (rr_service_binding main hclass).
Proof.
  unfold rr_service_binding. apply cshift_bind; [apply cshift_class_rule|intro]. cb. cb.
  cif; [|cleaf]. cb. apply cshift_bind; [apply cshift_svc_params|intro; cleaf].
Qed.

Theorem cshift_rr_body (main : bytes) (t : N) (owner : name) (hclass ttl : N) : cshift (rr_body main t owner hclass ttl).
Proof.
  unfold rr_body. destruct (lookup t dec_dispatch) as [[ck f|sp]|]; [| |cleaf].
  - apply cshift_bind; [apply cshift_class_rule|intro]. apply cshift_bind; [apply cshift_read_fields|intro]. cleaf.
  - destruct sp.
    + apply cshift_bind; [apply cshift_opt|intro; cleaf].
    + apply cshift_bind; [apply cshift_apl|intro; cleaf].
    + apply cshift_bind; [apply cshift_service_binding|intro; cleaf].
    + apply cshift_bind; [apply cshift_service_binding|intro; cleaf].
Qed.

(* a successful run can be replayed with any counter value *)
Lemma cshift_any {A} (m : DM A) (s : dst) (c1 c2 : N) (a : A) (s' : dst) : cshift m ->
  m (set_cost c1 s) = DOk a s' -> exists c' : N, m (set_cost c2 s) = DOk a (set_cost c' s').
Proof.
  intros Hm E. destruct (N.le_ge_cases c1 c2) as [H|H].
  - replace (set_cost c2 s) with (shift (c2 - c1) (set_cost c1 s)).
    + rewrite Hm, E. cbn [shiftr]. exists (d_cost s' + (c2 - c1)). reflexivity.
    + unfold shift, set_cost. cbn [d_rest d_off d_len d_cost]. f_equal. lia.
  - replace (set_cost c1 s) with (shift (c1 - c2) (set_cost c2 s)) in E.
    + rewrite Hm in E. destruct (m (set_cost c2 s)) as [a0 s0|e c|x|]; cbn [shiftr] in E; try discriminate.
      injection E as -> <-. exists (d_cost s0). destruct s0; reflexivity.
    + unfold shift, set_cost. cbn [d_rest d_off d_len d_cost]. f_equal. lia.
Qed.
