(* Correspondence of the generic RDATA field reader with the reference's field parser, and agreement of the
   GENERATED per-type format table (Gen/Formats.v) with the hand-written RFC table (Spec/Wire.v fmt). *)
From Coq Require Import ZifyBool ZifyN ZifyNat.
From DNS Require Import Model.Dec Spec.Names Spec.Iana Spec.Wire Proofs.DecBase Proofs.Enum
  Proofs.CorrBase Proofs.CorrPrim.
From DNS Require Props.C11.
Local Open Scope N_scope.

(* ---- generated enum tables vs the hand-written registries ---- *)
Lemma assoc_str_In (k : string) (t : list (string * N)) (v : N) : assoc_str k t = Some v -> In (k, v) t.
Proof.
  induction t as [|[k' v'] r IH]; cbn [assoc_str]; [discriminate|].
  destruct (String.eqb k k') eqn:E.
  - apply String.eqb_eq in E. subst k'. intro H. injection H as ->. left. reflexivity.
  - intro H. right. apply IH. exact H.
Qed.
Lemma sub_table_In (a b : list (string * N)) (nm : string) (v : N) :
  sub_table a b = true -> In (nm, v) a -> In (nm, v) b.
Proof.
  unfold sub_table. rewrite forallb_forall. intros H Hin. specialize (H _ Hin). cbn [fst snd] in H.
  destruct (assoc_str nm b) as [v'|] eqn:E; [|discriminate]. apply N.eqb_eq in H. subst v'.
  apply assoc_str_In. exact E.
Qed.
Lemma mem_In (v : N) (l : list N) : mem v l = true <-> In v l.
Proof. unfold mem. apply existsb_eqb_In. Qed.

Lemma table_mem (w : N) (T Ia : list (string * N)) : table_ok w T Ia = true ->
  forall v, in_table T v = mem v (codes Ia).
Proof.
  unfold table_ok. rewrite !andb_true_iff. intros ((((H1 & H2) & _) & _) & _) v.
  apply eq_true_iff_eq. rewrite in_table_iff, mem_In. unfold codes. rewrite in_map_iff. split.
  - intros (nm & Hin). exists (nm, v). split; [reflexivity|]. eapply sub_table_In; eauto.
  - intros ([nm v'] & Hs & Hin). cbn [snd] in Hs. subst v'. exists nm. eapply sub_table_In; eauto.
Qed.

Lemma tab_Opcode v : in_table Opcode_table v = mem v (codes iana_Opcode).
Proof. eapply table_mem. exact (proj1 DNS.Props.C11.C11_tables). Qed.
Lemma tab_RCode v : in_table RCode_table v = mem v (codes iana_RCode).
Proof. eapply table_mem. exact (proj1 (proj2 DNS.Props.C11.C11_tables)). Qed.
Lemma tab_Class v : in_table Class_table v = mem v (codes iana_Class).
Proof. eapply table_mem. exact (proj1 (proj2 (proj2 DNS.Props.C11.C11_tables))). Qed.
Lemma tab_Type v : in_table Type_table v = mem v (codes iana_Type).
Proof. eapply table_mem. exact (proj1 (proj2 (proj2 (proj2 DNS.Props.C11.C11_tables)))). Qed.
Lemma tab_QType v : in_table QType_table v = mem v (codes iana_QType).
Proof. eapply table_mem. exact (proj1 (proj2 (proj2 (proj2 (proj2 DNS.Props.C11.C11_tables))))). Qed.
Lemma tab_QClass v : in_table QClass_table v = mem v (codes iana_QClass).
Proof. eapply table_mem. exact (proj1 (proj2 (proj2 (proj2 (proj2 (proj2 DNS.Props.C11.C11_tables)))))). Qed.
Lemma tab_EDNSOptionCode v : in_table EDNSOptionCode_table v = mem v (codes iana_EDNSOptionCode).
Proof. eapply table_mem. exact (proj1 (proj2 (proj2 (proj2 (proj2 (proj2 (proj2 DNS.Props.C11.C11_tables))))))). Qed.
Lemma tab_AlgorithmType v : in_table AlgorithmType_table v = mem v (codes iana_AlgorithmType).
Proof. eapply table_mem. exact (proj1 (proj2 (proj2 (proj2 (proj2 (proj2 (proj2 (proj2 DNS.Props.C11.C11_tables)))))))). Qed.
Lemma tab_DigestType v : in_table DigestType_table v = mem v (codes iana_DigestType).
Proof. eapply table_mem. exact (proj1 (proj2 (proj2 (proj2 (proj2 (proj2 (proj2 (proj2 (proj2 DNS.Props.C11.C11_tables))))))))). Qed.
Lemma tab_SSHFPAlgorithm v : in_table SSHFPAlgorithm_table v = mem v (codes iana_SSHFPAlgorithm).
Proof. eapply table_mem. exact (proj1 (proj2 (proj2 (proj2 (proj2 (proj2 (proj2 (proj2 (proj2 (proj2 DNS.Props.C11.C11_tables)))))))))). Qed.
Lemma tab_SSHFPType v : in_table SSHFPType_table v = mem v (codes iana_SSHFPType).
Proof. eapply table_mem. exact (proj1 (proj2 (proj2 (proj2 (proj2 (proj2 (proj2 (proj2 (proj2 (proj2 (proj2 DNS.Props.C11.C11_tables))))))))))). Qed.
Lemma tab_AFSDBSubtype v : in_table AFSDBSubtype_table v = mem v (codes iana_AFSDBSubtype).
Proof. eapply table_mem. exact (proj1 (proj2 (proj2 (proj2 (proj2 (proj2 (proj2 (proj2 (proj2 (proj2 (proj2 (proj2 DNS.Props.C11.C11_tables)))))))))))). Qed.
Lemma tab_AddressFamilyNumber v : in_table AddressFamilyNumber_table v = mem v (codes iana_AddressFamilyNumber).
Proof. eapply table_mem. exact (proj2 (proj2 (proj2 (proj2 (proj2 (proj2 (proj2 (proj2 (proj2 (proj2 (proj2 (proj2 DNS.Props.C11.C11_tables)))))))))))). Qed.

(* ---- translation of the generated field kinds into the reference's kinds ---- *)
Definition reg_of (e : enumid) : list N :=
  match e with
  | EnAFSDBSubtype => codes iana_AFSDBSubtype
  | EnSSHFPAlgorithm => codes iana_SSHFPAlgorithm
  | EnSSHFPType => codes iana_SSHFPType
  | EnAlgorithmType => codes iana_AlgorithmType
  | EnDigestType => codes iana_DigestType
  end.

Lemma enum_table_reg e v : in_table (enum_table e) v = mem v (reg_of e).
Proof.
  destruct e; cbn [enum_table reg_of];
    [apply tab_AFSDBSubtype|apply tab_SSHFPAlgorithm|apply tab_SSHFPType|apply tab_AlgorithmType|apply tab_DigestType].
Qed.

Definition sk_of (k : fk) : option sk :=
  match k with
  | FU8 => Some KU8 | FU16 => Some KU16 | FU32 => Some KU32 | FU64 => Some KU64
  | FName => Some KName | FStr => Some KStr | FRest => Some KRest | FRestUtf8 => Some KRestUtf8
  | FIp4 => Some KU32 | FIp6 => Some KIp6
  | FEnum8 e _ => Some (KCode8 (reg_of e)) | FEnum16 e _ => Some (KCode16 (reg_of e))
  | FStrPsdn => Some KDigits | FStrIsdn => Some KDigits | FOptStrSa => Some KOptHex
  | FStrGpos => Some KGpos | FTag => Some KTag | FStrs1 => Some KStrs1
  | FDnskeyFlags => Some KDnskeyFlags
  | FConst8 c _ => if c =? 3 then Some KProto3 else None
  | FUnknown => None
  end.

(* ---- the DNSKEY flag mask vs the RFC 4034 wording, all 65,536 words ---- *)
Definition dnskey_okb (v : N) : bool :=
  Bool.eqb (N.land v DNSKEY_ZERO_MASK =? 0) (((v / 256) mod 256 <=? 1) && (v mod 256 <=? 1)).
Lemma dnskey_all : forallb dnskey_okb (nrange 65536) = true.
Proof. vm_compute. reflexivity. Qed.
Lemma dnskey_mask v : v < 65536 ->
  (N.land v DNSKEY_ZERO_MASK =? 0) = (((v / 256) mod 256 <=? 1) && (v mod 256 <=? 1)).
Proof.
  intro H. pose proof (proj1 (forallb_forall _ _) dnskey_all v (nrange_in _ _ H)) as G.
  apply Bool.eqb_prop in G. exact G.
Qed.

Lemma bind_assoc {A B C} (m : DM A) (f : A -> DM B) (g : B -> DM C) s :
  bind (bind m f) g s = bind m (fun x => bind (f x) g) s.
Proof. unfold bind. destruct (m s); reflexivity. Qed.

Section Main.
Variable main : bytes.
Hypothesis Hb : bytes_ok main.
Hypothesis Hm : lenN main < 2 ^ 62.
Set Default Proof Using "Hb Hm".

Notation corr := (corr main).

Local Notation corr_u8 := (corr_u8 main Hb Hm).
Local Notation corr_u16 := (corr_u16 main Hb Hm).
Local Notation corr_u32 := (corr_u32 main Hb Hm).
Local Notation corr_u64 := (corr_u64 main Hb Hm).
Local Notation corr_ipv4 := (corr_ipv4 main Hb Hm).
Local Notation corr_ipv6 := (corr_ipv6 main Hb Hm).
Local Notation corr_string := (corr_string main Hb Hm).
Local Notation corr_vec := (corr_vec main Hb Hm).
Local Notation corr_name := (corr_name main Hb Hm).
Local Notation corr_many_k := (corr_many_k main Hb Hm).
Local Notation post_charstr := (post_charstr main Hb Hm).
Local Notation post_num2 := (post_num2 main Hb Hm).
Local Notation is_finished_inv := (is_finished_inv main Hb Hm).

Lemma corr_bind_assoc {A B C} (m : DM A) (f : A -> DM B) (g : B -> DM C) (p : P C) :
  corr (bind m (fun x => bind (f x) g)) p -> corr (bind (bind m f) g) p.
Proof.
  apply corr_ext; [|reflexivity]. intro s. symmetry. apply bind_assoc.
Qed.

Lemma corr_field (k : fk) (k' : sk) : sk_of k = Some k' -> corr (read_field main k) (field k').
Proof.
  destruct k; cbn [sk_of]; intro H; try discriminate;
    try (injection H as <-; cbn [read_field field]).
  - (* FU8 *) apply corr_bind; [apply corr_u8; assumption|]. intro v. apply corr_ret.
  - (* FU16 *) apply corr_bind; [apply corr_u16; assumption|]. intro v. apply corr_ret.
  - (* FU32 *) apply corr_bind; [apply corr_u32; assumption|]. intro v. apply corr_ret.
  - (* FU64 *) apply corr_bind; [apply corr_u64; assumption|]. intro v. apply corr_ret.
  - (* FName *) apply corr_bind; [apply corr_name; assumption|]. intro v. apply corr_ret.
  - (* FStr *) apply corr_bind; [apply corr_string; assumption|]. intro v. apply corr_ret.
  - (* FRest *) apply corr_bind; [apply corr_vec; assumption|]. intro v. apply corr_ret.
  - (* FRestUtf8 *) apply corr_bind; [apply corr_vec; assumption|]. intro v.
    destruct (utf8_valid v); [apply corr_ret|apply corr_fail].
  - (* FIp4 *) apply corr_bind; [apply corr_ipv4; assumption|]. intro v. apply corr_ret.
  - (* FIp6 *) apply corr_bind; [apply corr_ipv6; assumption|]. intro v. apply corr_ret.
  - (* FEnum8 *) unfold code. apply corr_bind_assoc. apply corr_bind; [apply corr_u8; assumption|]. intro v.
    rewrite enum_table_reg. destruct (mem v (reg_of e)); [apply (corr_ret main [VN v])|apply (corr_fail main)].
  - (* FEnum16 *) unfold code. apply corr_bind_assoc. apply corr_bind; [apply corr_u16; assumption|]. intro v.
    rewrite enum_table_reg. destruct (mem v (reg_of e)); [apply (corr_ret main [VN v])|apply (corr_fail main)].
  - (* FStrPsdn *) apply corr_bind; [apply corr_string; assumption|]. intro x.
    unfold psdn_try_from. change (forallb isdigit x) with (forallb is_digit x).
    destruct (forallb is_digit x); cbn [lift]; [apply (corr_ret main [VBytes x])|apply (corr_fail main)].
  - (* FStrIsdn *) apply corr_bind; [apply corr_string; assumption|]. intro x.
    unfold isdn_try_from. change (forallb isdigit x) with (forallb is_digit x).
    destruct (forallb is_digit x); cbn [lift]; [apply (corr_ret main [VBytes x])|apply (corr_fail main)].
  - (* FOptStrSa *) intros s a e Hi. unfold bind at 1.
    destruct (is_finished_inv s a e Hi) as [(Ea & ->)|(Ea & ->)].
    + assert (a =? e = true) as -> by lia. apply agree_ret. exact Hi.
    + assert (a =? e = false) as -> by lia. revert s a e Hi Ea.
      cut (corr (x <- string_ ;; s' <- lift (sa_try_from x) ;; ret [VOptStr (Some s')])
                (x <~ charstr ;; if forallb ishex x then pret [VOptStr (Some x)] else pnone)).
      { intros Hc s a e Hi _. apply Hc. exact Hi. }
      apply corr_bind; [apply corr_string; assumption|]. intro x.
      unfold sa_try_from. change (forallb ishex x) with (forallb is_hexdigit x).
      destruct (forallb is_hexdigit x); cbn [lift];
        [apply (corr_ret main [VOptStr (Some x)])|apply (corr_fail main)].
  - (* FStrGpos *)
    apply (corr_bind_post main _ _ _ _ (fun x : bytes => lenN x < 256 /\ utf8_valid x = true));
      [apply corr_string; assumption|apply post_charstr; assumption|]. intros x (Hx & _). cbv zeta.
    assert (lenN x <=? 256 = true) as -> by lia. rewrite andb_true_r.
    destruct (1 <=? lenN x); [apply corr_ret|apply corr_fail].
  - (* FTag *) apply corr_bind; [apply corr_string; assumption|]. intro x.
    unfold tag_try_from. change (forallb isalnum x) with (forallb is_alnum x).
    change (map tolower x) with (map ascii_lower x).
    destruct x as [|c r].
    + cbn [lift]. apply (corr_fail main).
    + assert (1 <=? lenN (c :: r) = true) as -> by (rewrite lenN_cons; lia). cbn [andb].
      destruct (forallb is_alnum (c :: r)); cbn [lift];
        [apply (corr_ret main [VBytes (map ascii_lower (c :: r))])|apply (corr_fail main)].
  - (* FStrs1 *)
    apply (corr_ext main (fuel <- loop_fuel ;; l <- many fuel string_ [] ;;
                          match l with [] => fail (ETXTEmpty, []) | _ => ret [VStrs l] end) _
                         (l <~ many_to_end charstr ;; match l with [] => pnone | _ => pret [VStrs l] end)).
    + intro s. unfold bind, loop_fuel. rewrite strings_loop_many. reflexivity.
    + reflexivity.
    + apply corr_many_k; [apply corr_string; assumption|apply progress_charstr|].
      intro l. destruct l; [apply corr_fail|apply corr_ret].
  - (* FDnskeyFlags *)
    apply (corr_bind_post main _ _ _ _ (fun v => v < 65536));
      [apply corr_u16; assumption|apply post_num2; assumption|]. intros v Hv.
    rewrite (dnskey_mask v Hv).
    destruct (((v / 256) mod 256 <=? 1) && (v mod 256 <=? 1)); cbn [negb]; [apply corr_ret|apply corr_fail].
  - (* FConst8 *)
    destruct (v =? 3) eqn:E; [|discriminate]. injection H as <-. apply N.eqb_eq in E. subst v.
    cbn [read_field field]. apply corr_bind; [apply corr_u8; assumption|]. intro v.
    destruct (v =? 3); cbn [negb]; [apply corr_ret|apply corr_fail].
Qed.

Lemma corr_fields : forall (f : list (string * fk)) (ks : list sk),
  map (fun p => sk_of (snd p)) f = map Some ks -> corr (read_fields main f) (fields ks).
Proof.
  induction f as [|[nm k] r IH]; intros ks H; destruct ks as [|k' ks']; cbn [map snd] in H; try discriminate.
  - cbn [read_fields fields]. apply corr_ret.
  - injection H as H1 H2. cbn [read_fields fields].
    apply corr_bind; [apply corr_field; exact H1|]. intro v.
    apply corr_bind; [apply IH; exact H2|]. intro vs. apply corr_ret.
Qed.

End Main.
Unset Default Proof Using.

(* ---- the generated dispatch table agrees with the RFC format table, for every supported type ---- *)
Definition is_special (t : N) : bool := (t =? 41) || (t =? 42) || (t =? 64) || (t =? 65).

Definition disp_ok (t : N) : Prop :=
  match lookup t dec_dispatch with
  | Some (RdFields ck f) =>
    exists ks, fmt t = Some ks /\ map (fun p => sk_of (snd p)) f = map Some ks /\ is_special t = false /\
               match ck with CKAny => in_only t = false | CKIn _ => in_only t = true | CKNone => False end
  | Some (RdSpecial SpOpt) => t = 41
  | Some (RdSpecial SpApl) => t = 42
  | Some (RdSpecial SpSvcb) => t = 64
  | Some (RdSpecial SpHttps) => t = 65
  | None => fmt t = None /\ is_special t = false
  end.

Lemma disp_all : Forall disp_ok (codes iana_Type).
Proof.
  unfold codes, iana_Type. cbn [map snd].
  repeat (apply Forall_cons;
          [unfold disp_ok; vm_compute;
           first [reflexivity | (split; reflexivity)
                 | (eexists; split; [reflexivity|split; [reflexivity|split; reflexivity]])]|]).
  apply Forall_nil.
Qed.

Lemma disp_ok_type (t : N) : mem t (codes iana_Type) = true -> disp_ok t.
Proof.
  intro H. apply mem_In in H. pose proof disp_all as G. rewrite Forall_forall in G. apply G. exact H.
Qed.
