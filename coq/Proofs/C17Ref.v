(* C17 — the reference verdict used by the finite grids (Proofs/C17Grid.v): the address as a list of
   bits; and the proof that it is the bit-level property prefix_ok of Proofs/C12.v. *)
From Coq Require Import ZArith ZifyBool ZifyN ZifyNat.
From DNS Require Import Model.Values Model.Dec Proofs.DecBase Proofs.C12.
Local Open Scope N_scope.

(* ---- the reference: the address as a list of bits, most significant first ---- *)
Definition octet_bits (b : N) : list bool :=
  [N.testbit b 7; N.testbit b 6; N.testbit b 5; N.testbit b 4;
   N.testbit b 3; N.testbit b 2; N.testbit b 1; N.testbit b 0].
Definition addr_bits (oct : bytes) : list bool := flat_map octet_bits oct.
(* [k] address octets given, zero-filled to [oct]: accepted iff the count and the prefix fit the
   family and no bit at position >= p is set *)
Definition ref_ok (size p k : N) (oct : bytes) : bool :=
  (k <=? size) && (p <=? 8 * size) && forallb negb (dropN p (addr_bits oct)).

(* ---- the reference verdict is the bit-level property of Proofs/C12.v (prefix_ok) ---- *)
Ltac Zify.zify_post_hook ::= Z.div_mod_to_equations.

Lemma forallb_skipn_nth {A} (f : A -> bool) : forall (l : list A) (n : nat),
  forallb f (skipn n l) = true <-> (forall k x, (n <= k)%nat -> nth_opt k l = Some x -> f x = true).
Proof.
  induction l as [|y l IH]; intros n.
  - rewrite skipn_nil. cbn [forallb]. split; [|reflexivity]. intros _ k x _ H. destruct k; discriminate H.
  - destruct n as [|n].
    + pose proof (IH 0%nat) as IH0. cbn [skipn] in IH0. cbn [skipn forallb]. rewrite andb_true_iff, IH0. split.
      * intros [H1 H2] k x _ Hk. destruct k as [|k]; cbn [nth_opt] in Hk; [injection Hk as <-; exact H1|].
        apply (H2 k x); [lia|exact Hk].
      * intros H. split; [apply (H 0%nat y); [lia|reflexivity]|].
        intros k x _ Hk. apply (H (S k) x); [lia|exact Hk].
    + cbn [skipn]. rewrite (IH n). split.
      * intros H k x Hn Hk. destruct k as [|k]; [lia|]. cbn [nth_opt] in Hk. apply (H k x); [lia|exact Hk].
      * intros H k x Hn Hk. apply (H (S k) x); [lia|exact Hk].
Qed.

Lemma length_addr_bits (oct : bytes) : length (addr_bits oct) = (8 * length oct)%nat.
Proof.
  induction oct as [|b r IH]; [reflexivity|]. unfold addr_bits in *. cbn [flat_map].
  rewrite app_length, IH. cbn [octet_bits length]. lia.
Qed.

Lemma nth_addr_bits : forall (oct : bytes) (i : N), i < 8 * lenN oct ->
  nth_opt (N.to_nat i) (addr_bits oct) = Some (addr_bit oct i).
Proof.
  induction oct as [|b r IH]; intros i Hi.
  - change (lenN (@nil N)) with 0 in Hi. lia.
  - rewrite lenN_cons in Hi. destruct (N.lt_ge_cases i 8) as [Hlt|Hge].
    + assert (H : i = 0 \/ i = 1 \/ i = 2 \/ i = 3 \/ i = 4 \/ i = 5 \/ i = 6 \/ i = 7) by lia.
      destruct H as [->|[->|[->|[->|[->|[->|[->| ->]]]]]]]; reflexivity.
    + replace (N.to_nat i) with (8 + N.to_nat (i - 8))%nat by lia.
      unfold addr_bits. cbn [flat_map]. fold (addr_bits r).
      unfold octet_bits. cbn [app Nat.add nth_opt].
      rewrite IH by lia. f_equal. unfold addr_bit.
      replace (i / 8) with ((i - 8) / 8 + 1) by lia. replace (i mod 8) with ((i - 8) mod 8) by lia.
      replace (N.to_nat ((i - 8) / 8 + 1)) with (S (N.to_nat ((i - 8) / 8))) by lia. reflexivity.
Qed.

Lemma ref_ok_spec (size p k : N) (oct : bytes) : lenN oct = size ->
  (ref_ok size p k oct = true <->
   k <= size /\ p <= 8 * size /\ forall i, p <= i < 8 * size -> addr_bit oct i = false).
Proof.
  intros Hl. unfold ref_ok. rewrite !andb_true_iff, !N.leb_le. unfold dropN. rewrite forallb_skipn_nth.
  split.
  - intros [[H1 H2] H3]. split; [exact H1|]. split; [exact H2|]. intros i [Hi1 Hi2].
    specialize (H3 (N.to_nat i) (addr_bit oct i)). apply negb_true_iff. apply H3; [lia|].
    apply nth_addr_bits. lia.
  - intros (H1 & H2 & H3). split; [split; assumption|]. intros n x Hn Hx.
    destruct (N.lt_ge_cases (N.of_nat n) (8 * size)) as [Hlt|Hge].
    + rewrite <- (Nat2N.id n), nth_addr_bits in Hx by lia. injection Hx as <-.
      apply negb_true_iff. apply H3. lia.
    + rewrite DecBase.nth_opt_none in Hx; [discriminate Hx|].
      rewrite length_addr_bits. unfold lenN in Hl. lia.
Qed.

(* for an address of the family size: the reference accepts exactly when count and prefix_ok hold *)
Lemma ref_ok_prefix_ok (a : addr) (p k : N) : addr_wf a ->
  (ref_ok (addr_size a) p k (a_oct a) = true <-> k <= addr_size a /\ prefix_ok a p).
Proof.
  intros [Hf _].
  assert (Hl : lenN (a_oct a) = addr_size a).
  { unfold addr_size. destruct Hf as [[-> ->]|[-> ->]]; reflexivity. }
  rewrite (ref_ok_spec _ p k _ Hl). unfold prefix_ok. tauto.
Qed.
Lemma ref_ok_too_long (size p k : N) (oct : bytes) : size < k -> ref_ok size p k oct = false.
Proof. intros H. unfold ref_ok. destruct (k <=? size) eqn:E; [apply N.leb_le in E; lia|reflexivity]. Qed.
