(* C16, part 4: what the SVCB/HTTPS decoder refuses. *)
From Coq Require Import Sorted Permutation.
From DNS Require Import Model.Dec Model.Enc Proofs.DecBase Proofs.SvcbSet Proofs.SvcbEnc Proofs.SvcbDec
                        Proofs.SvcbRound.
Require Import ZArith ZifyBool ZifyN ZifyNat.
Local Open Scope N_scope.
Ltac Zify.zify_post_hook ::= Z.div_mod_to_equations.

Lemma bind_inv {A B} (m : DM A) (f : A -> DM B) (s : dst) (b : B) (s' : dst) :
  bind m f s = DOk b s' -> exists a s1, m s = DOk a s1 /\ f a s1 = DOk b s'.
Proof. unfold bind. destruct (m s) as [a s1| | |]; intros H; try discriminate. eauto. Qed.

Lemma ret_inv {A} (a b : A) (s s' : dst) : ret a s = DOk b s' -> a = b.
Proof. unfold ret. intros H. injection H as H _. exact H. Qed.

(* ---- the decoded parameter always carries the key it was dispatched on ---- *)
Lemma loop_ret_key {A} (item : DM A) (C : list A -> svcparam) (s : dst) (p : svcparam) (s' : dst) :
  (fuel <- loop_fuel ;; l <- many fuel item [] ;; ret (C l)) s = DOk p s' -> exists l, p = C l.
Proof.
  intros H. apply bind_inv in H. destruct H as (fuel & s1 & _ & H).
  apply bind_inv in H. destruct H as (l & s2 & _ & H). apply ret_inv in H. exists l. symmetry. exact H.
Qed.

Lemma rsp_key (key : N) (s : dst) (p : svcparam) (s' : dst) :
  rr_service_parameter key s = DOk p s' -> param_key p = key.
Proof.
  unfold rr_service_parameter.
  destruct (key =? 0) eqn:E0.
  { intros H. apply loop_ret_key in H. destruct H as [l ->]. cbn [param_key]. lia. }
  destruct (key =? 1) eqn:E1.
  { intros H. apply loop_ret_key in H. destruct H as [l ->]. cbn [param_key]. lia. }
  destruct (key =? 2) eqn:E2.
  { intros H. apply ret_inv in H. subst p. cbn [param_key]. lia. }
  destruct (key =? 3) eqn:E3.
  { intros H. apply bind_inv in H. destruct H as (v & s1 & _ & H). apply ret_inv in H. subst p.
    cbn [param_key]. lia. }
  destruct (key =? 4) eqn:E4.
  { intros H. apply loop_ret_key in H. destruct H as [l ->]. cbn [param_key]. lia. }
  destruct (key =? 5) eqn:E5.
  { intros H. apply bind_inv in H. destruct H as (v & s1 & _ & H).
    apply bind_inv in H. destruct H as (cl & s2 & _ & H).
    destruct (negb (lenN cl =? v)); [discriminate|]. apply ret_inv in H. subst p. cbn [param_key]. lia. }
  destruct (key =? 6) eqn:E6.
  { intros H. apply loop_ret_key in H. destruct H as [l ->]. cbn [param_key]. lia. }
  destruct (key =? 65535) eqn:E7.
  { intros H. apply ret_inv in H. subst p. cbn [param_key]. lia. }
  intros H. apply bind_inv in H. destruct H as (v & s1 & _ & H). apply ret_inv in H. subst p. reflexivity.
Qed.

Lemma with_sub_inv {A} (n : N) (m : DM A) (s : dst) (a : A) (s' : dst) :
  with_sub n m s = DOk a s' ->
  exists b s1 c, read n s = DOk b s1 /\ m (win b (d_cost s1)) = DOk a c.
Proof.
  rewrite with_sub_eq. destruct (read n s) as [b s1| | |]; try discriminate.
  destruct (sub_run m (win b (d_cost s1))) as [a' c| | |] eqn:E; try discriminate.
  intros H. injection H as -> _. unfold sub_run in E.
  apply bind_inv in E. destruct E as (a1 & c1 & Em & E).
  apply bind_inv in E. destruct E as (u & c2 & _ & E). apply ret_inv in E. subst a1.
  exists b, s1, c1. split; [reflexivity|exact Em].
Qed.

Lemma with_sub_key (n key : N) (s : dst) (p : svcparam) (s' : dst) :
  with_sub n (rr_service_parameter key) s = DOk p s' -> param_key p = key.
Proof. intros H. apply with_sub_inv in H. destruct H as (b & s1 & c & _ & H). eapply rsp_key. exact H. Qed.

(* ---- 4a. a second occurrence of a key ---- *)
Lemma svc_params_dup (f : nat) (acc : list svcparam) (s s1 s2 s3 : dst) (key len : N) (p : svcparam) :
  keys_sorted acc ->
  is_finished s = DOk false s -> u16 s = DOk key s1 -> u16 s1 = DOk len s2 ->
  with_sub len (rr_service_parameter key) s2 = DOk p s3 ->
  (exists q, In q acc /\ param_key q = key) ->
  svc_params (S f) acc s = DErr (ESVCBDuplicateKey, [key]) (d_cost s3).
Proof.
  intros Hs H0 H1 H2 H3 Hq. rewrite svc_params_S.
  rewrite (bind_ok _ _ _ _ _ H0), (bind_ok _ _ _ _ _ H1), (bind_ok _ _ _ _ _ H2), (bind_ok _ _ _ _ _ H3).
  assert (snd (set_insert p acc) = false) as Hd.
  { apply set_insert_exists_false; [exact Hs|]. rewrite (with_sub_key _ _ _ _ _ H3). exact Hq. }
  destruct (set_insert p acc) as [acc' ins]. cbn [snd] in Hd. subst ins. reflexivity.
Qed.

(* the same on the wire: an emitted sorted list followed by a parameter whose key it contains *)
Lemma svc_params_dup_wire (ps : list svcparam) (p : svcparam) (r : bytes) (fuel : nat) (s : dst) :
  Forall param_ok ps -> keys_sorted ps -> param_ok p ->
  (exists q, In q ps /\ param_key q = param_key p) ->
  wst s -> d_rest s = concat (map param_wire (ps ++ [p])) ++ r -> (length ps < fuel)%nat ->
  exists c : N, svc_params fuel [] s = DErr (ESVCBDuplicateKey, [param_key p]) c.
Proof.
  intros Hok Hs Hp (q & Hq & Hk) W Hr Hf.
  rewrite map_app, concat_app in Hr. cbn [map concat] in Hr. rewrite app_nil_r, <- app_assoc in Hr.
  replace fuel with (length ps + S (fuel - length ps - 1))%nat by lia.
  assert (forall x y : svcparam, In x [] -> In y ps -> param_key x < param_key y) as Hnil by (intros x y []).
  destruct (svc_params_prefix ps (S (fuel - length ps - 1)) [] (param_wire p ++ r) s Hok Hs Hnil W Hr) as [c E].
  rewrite E. cbn [app].
  pose proof (reads_after s _ _ c W Hr) as W1.
  destruct (svc_params_step (fuel - length ps - 1) (map norm ps) p r _ Hp W1 eq_refl) as [c1 E1].
  rewrite E1.
  assert (snd (set_insert (norm p) (map norm ps)) = false) as Hd.
  { apply set_insert_exists_false; [apply keys_sorted_map_norm; exact Hs|].
    exists (norm q). split; [apply in_map; exact Hq|]. rewrite !norm_key. exact Hk. }
  destruct (set_insert (norm p) (map norm ps)) as [acc' ins]. cbn [snd] in Hd. subst ins.
  eexists. reflexivity.
Qed.

(* ---- fixed-width readers and loops over them ---- *)
Definition fixed {A} (m : DM A) (k : N) : Prop :=
  forall s : dst, wst s ->
    (k <= lenN (d_rest s) ->
       exists a c, m s = DOk a (mkst (dropN k (d_rest s)) (d_off s + k) (d_len s) c)) /\
    (lenN (d_rest s) < k -> exists l c, m s = DErr (ENotEnoughBytes, l) c).

Lemma fixed_ret {A} (a : A) : fixed (ret a) 0.
Proof.
  intros s W. split; [|lia]. intros _. exists a, (d_cost s). unfold ret. f_equal.
  destruct s as [rest off len cost]. unfold mkst. cbn [d_rest d_off d_len d_cost]. f_equal. lia.
Qed.

Lemma fixed_uint (k : N) : k < WFMAX -> fixed (uint k) k.
Proof.
  intros Hk s W. split; intros H; unfold uint.
  - rewrite (bind_ok _ _ _ _ _ (read_enough k s W H)).
    rewrite lenN_takeN. replace (N.min k (lenN (d_rest s))) with k by lia. rewrite N.eqb_refl.
    eexists. eexists. reflexivity.
  - eexists. eexists. apply bind_err. apply read_short; assumption.
Qed.

Lemma fixed_wst (s : dst) (k c : N) : wst s -> k <= lenN (d_rest s) ->
  wst (mkst (dropN k (d_rest s)) (d_off s + k) (d_len s) c).
Proof. intros [W1 W2] H. apply mkst_wst; [rewrite lenN_dropN; lia|exact W2]. Qed.

Lemma fixed_bind {A B} (m : DM A) (f : A -> DM B) (k1 k2 : N) :
  fixed m k1 -> (forall a, fixed (f a) k2) -> fixed (bind m f) (k1 + k2).
Proof.
  intros H1 H2 s W. destruct (H1 s W) as [H1a H1b]. split; intros H.
  - destruct H1a as (a & c & E); [lia|]. rewrite (bind_ok _ _ _ _ _ E).
    destruct (H2 a _ (fixed_wst s k1 c W ltac:(lia))) as [H2a _].
    destruct H2a as (b & c' & E'); [cbn [mkst d_rest]; rewrite lenN_dropN; lia|].
    exists b, c'. rewrite E'. unfold mkst. cbn [d_rest d_off d_len]. rewrite dropN_dropN.
    f_equal. f_equal. lia.
  - destruct (N.lt_ge_cases (lenN (d_rest s)) k1) as [Hlt|Hge].
    + destruct (H1b Hlt) as (l & c & E). exists l, c. apply bind_err. exact E.
    + destruct (H1a Hge) as (a & c & E). rewrite (bind_ok _ _ _ _ _ E).
      destruct (H2 a _ (fixed_wst s k1 c W Hge)) as [_ H2b].
      apply H2b. cbn [mkst d_rest]. rewrite lenN_dropN. lia.
Qed.

Lemma fixed_u16 : fixed u16 2.
Proof. apply (fixed_uint 2). unfold WFMAX. lia. Qed.
Lemma fixed_ipv4 : fixed ipv4_addr 4.
Proof. apply (fixed_uint 4). unfold WFMAX. lia. Qed.
Lemma fixed_ipv6 : fixed ipv6_addr 16.
Proof.
  change 16 with (2 + (2 + (2 + (2 + (2 + (2 + (2 + (2 + 0)))))))). unfold ipv6_addr.
  do 8 (apply fixed_bind; [exact fixed_u16|intros ?]). apply fixed_ret.
Qed.

Lemma many_fixed_fail {A} (item : DM A) (k : N) : fixed item k -> 0 < k ->
  forall (fuel : nat) (acc : list A) (s : dst),
    wst s -> lenN (d_rest s) mod k <> 0 -> lenN (d_rest s) < N.of_nat fuel ->
    exists l c, many fuel item acc s = DErr (ENotEnoughBytes, l) c.
Proof.
  intros Hfix Hk fuel. induction fuel as [|f IH]; intros acc s W Hm Hf; [lia|].
  rewrite many_S.
  assert (d_rest s <> []) as Hne.
  { intros E. rewrite E in Hm. change (lenN (@nil N)) with 0 in Hm. rewrite N.mod_0_l in Hm by lia. congruence. }
  rewrite (bind_ok _ _ _ _ _ (is_finished_more s W Hne)).
  destruct (Hfix s W) as [Ha Hb].
  destruct (N.lt_ge_cases (lenN (d_rest s)) k) as [Hlt|Hge].
  - destruct (Hb Hlt) as (l & c & E). exists l, c. apply bind_err. exact E.
  - destruct (Ha Hge) as (a & c & E). rewrite (bind_ok _ _ _ _ _ E).
    apply IH.
    + apply fixed_wst; assumption.
    + cbn [mkst d_rest]. rewrite lenN_dropN.
      replace (lenN (d_rest s)) with ((lenN (d_rest s) - k) + 1 * k) in Hm by lia.
      rewrite N.mod_add in Hm by lia. exact Hm.
    + cbn [mkst d_rest]. rewrite lenN_dropN. lia.
Qed.

Lemma loop_fixed_fail {A} (item : DM A) (k : N) (C : list A -> svcparam) (b : bytes) (c : N) :
  fixed item k -> 0 < k -> lenN b < WFMAX -> lenN b mod k <> 0 ->
  exists l c', sub_run (fuel <- loop_fuel ;; x <- many fuel item [] ;; ret (C x)) (win b c) = DErr (ENotEnoughBytes, l) c'.
Proof.
  intros Hfix Hk Hl Hm. pose proof (win_wst b c Hl) as W.
  destruct (many_fixed_fail item k Hfix Hk (S (length b)) [] (win b c) W Hm) as (l & c' & E).
  { cbn [win mkst d_rest]. unfold lenN. lia. }
  exists l, c'. unfold sub_run. apply bind_err.
  rewrite (bind_ok _ _ _ _ _ (loop_fuel_eq _ W)). apply bind_err. exact E.
Qed.

(* ---- 4c. hint lists whose length is not a multiple of the address size ---- *)
Lemma reject_ipv4hint (b : bytes) (c : N) : lenN b < WFMAX -> lenN b mod 4 <> 0 ->
  exists l c', sub_run (rr_service_parameter 4) (win b c) = DErr (ENotEnoughBytes, l) c'.
Proof. intros Hl Hm. rewrite rsp_4. apply (loop_fixed_fail ipv4_addr 4); [exact fixed_ipv4|lia|exact Hl|exact Hm]. Qed.

Lemma reject_ipv6hint (b : bytes) (c : N) : lenN b < WFMAX -> lenN b mod 16 <> 0 ->
  exists l c', sub_run (rr_service_parameter 6) (win b c) = DErr (ENotEnoughBytes, l) c'.
Proof. intros Hl Hm. rewrite rsp_6. apply (loop_fixed_fail ipv6_addr 16); [exact fixed_ipv6|lia|exact Hl|exact Hm]. Qed.

Lemma reject_mandatory_odd (b : bytes) (c : N) : lenN b < WFMAX -> lenN b mod 2 <> 0 ->
  exists l c', sub_run (rr_service_parameter 0) (win b c) = DErr (ENotEnoughBytes, l) c'.
Proof. intros Hl Hm. rewrite rsp_0. apply (loop_fixed_fail u16 2); [exact fixed_u16|lia|exact Hl|exact Hm]. Qed.

(* ---- 4b. port: exactly two octets ---- *)
Lemma finished_lt (s : dst) : d_off s < d_len s ->
  finished s = DErr (ETooManyBytes, [d_len s; d_off s]) (d_cost s).
Proof.
  intros H. unfold finished, is_finished, bind.
  destruct (d_off s <? d_len s) eqn:E; [reflexivity|lia].
Qed.

Lemma reject_port_short (b : bytes) (c : N) : lenN b < 2 ->
  sub_run (rr_service_parameter 3) (win b c) = DErr (ENotEnoughBytes, [lenN b; 2]) c.
Proof.
  intros H. rewrite rsp_3. unfold sub_run. apply bind_err. apply bind_err. unfold u16, uint. apply bind_err.
  assert (lenN b < WFMAX) as Hl by (unfold WFMAX; lia).
  exact (read_short 2 (win b c) (win_wst b c Hl) H ltac:(unfold WFMAX; lia)).
Qed.

Lemma u16_window (b : bytes) (c : N) : 2 <= lenN b -> lenN b < WFMAX ->
  u16 (win b c) = DOk (be (takeN 2 b)) (mkst (dropN 2 b) 2 (lenN b) (c + 2)).
Proof.
  intros H Hl. unfold u16, uint.
  rewrite (bind_ok _ _ _ _ _ (read_enough 2 (win b c) (win_wst b c Hl) H)).
  cbn [win mkst d_rest]. rewrite lenN_takeN. replace (N.min 2 (lenN b)) with 2 by lia. reflexivity.
Qed.

Lemma reject_port_long (b : bytes) (c : N) : 2 < lenN b -> lenN b < WFMAX ->
  sub_run (rr_service_parameter 3) (win b c) = DErr (ETooManyBytes, [lenN b; 2]) (c + 2).
Proof.
  intros H Hl. rewrite rsp_3. unfold sub_run.
  rewrite (bind_ok _ _ (win b c) (PPort (be (takeN 2 b))) (mkst (dropN 2 b) 2 (lenN b) (c + 2))).
  2:{ rewrite (bind_ok _ _ _ _ _ (u16_window b c ltac:(lia) Hl)). reflexivity. }
  apply bind_err. apply (finished_lt (mkst (dropN 2 b) 2 (lenN b) (c + 2))). exact H.
Qed.

(* ---- 4d. no-default-alpn and key 65535 carry no value ---- *)
Lemma reject_nodefaultalpn_value (b : bytes) (c : N) : b <> [] ->
  sub_run (rr_service_parameter 2) (win b c) = DErr (ETooManyBytes, [lenN b; 0]) c.
Proof.
  intros H. rewrite rsp_2. unfold sub_run. rewrite (bind_ok _ _ _ _ _ (eq_refl : ret PNoDefaultAlpn (win b c) = DOk _ _)).
  apply bind_err. apply (finished_lt (win b c)). cbn [win mkst d_off d_len].
  destruct b; [congruence|]. rewrite lenN_cons. lia.
Qed.

Lemma reject_key65535_value (b : bytes) (c : N) : b <> [] ->
  sub_run (rr_service_parameter 65535) (win b c) = DErr (ETooManyBytes, [lenN b; 0]) c.
Proof.
  intros H. rewrite rsp_65535. unfold sub_run. rewrite (bind_ok _ _ _ _ _ (eq_refl : ret PKey65535 (win b c) = DOk _ _)).
  apply bind_err. apply (finished_lt (win b c)). cbn [win mkst d_off d_len].
  destruct b; [congruence|]. rewrite lenN_cons. lia.
Qed.

(* ---- 4e. ech: the inner length must cover exactly the rest of the value ---- *)
Lemma reject_ech_mismatch (b : bytes) (c : N) : 2 <= lenN b -> lenN b < WFMAX ->
  be (takeN 2 b) <> lenN b - 2 ->
  exists c', sub_run (rr_service_parameter 5) (win b c) =
             DErr (EECHLengthMismatch, [be (takeN 2 b); lenN b - 2]) c'.
Proof.
  intros H Hl Hne. rewrite rsp_5. unfold sub_run. eexists. apply bind_err.
  rewrite (bind_ok _ _ _ _ _ (u16_window b c H Hl)).
  assert (vec (mkst (dropN 2 b) 2 (lenN b) (c + 2)) =
          DOk (dropN 2 b) (mkst [] (lenN b) (lenN b) (c + 2 + (lenN b - 2)))) as Ev.
  { unfold vec. change OP_bytes with CLe. cbn [cmp_apply mkst d_off d_len d_rest d_cost].
    destruct (2 <=? lenN b) eqn:E; [reflexivity|lia]. }
  rewrite (bind_ok _ _ _ _ _ Ev). rewrite lenN_dropN.
  destruct (lenN b - 2 =? be (takeN 2 b)) eqn:E; [lia|]. reflexivity.
Qed.

Lemma reject_ech_short (b : bytes) (c : N) : lenN b < 2 ->
  sub_run (rr_service_parameter 5) (win b c) = DErr (ENotEnoughBytes, [lenN b; 2]) c.
Proof.
  intros H. rewrite rsp_5. unfold sub_run. apply bind_err. apply bind_err. unfold u16, uint. apply bind_err.
  assert (lenN b < WFMAX) as Hl by (unfold WFMAX; lia).
  exact (read_short 2 (win b c) (win_wst b c Hl) H ltac:(unfold WFMAX; lia)).
Qed.

(* ---- 4f. an alpn entry running past the end of the value ---- *)
Lemma string_overrun (l : N) (rest : bytes) (s : dst) :
  wst s -> d_rest s = l :: rest -> lenN rest < l -> l < 256 ->
  exists c, string_ s = DErr (ENotEnoughBytes, [d_len s; d_off s + 1 + l]) c.
Proof.
  intros W Hr Hlt Hl. unfold string_.
  destruct (reads_u8 l rest s W Hr) as [c1 E1]. rewrite (bind_ok _ _ _ _ _ E1).
  pose proof (reads_after s [l] rest c1 W Hr) as W1.
  eexists. apply bind_err.
  exact (read_short l _ W1 Hlt ltac:(unfold WFMAX; lia)).
Qed.

Lemma many_prefix {A} (item : DM A) (enc : A -> bytes) (ok : A -> Prop) :
  (forall (x : A) (r : bytes), ok x -> reads item (enc x) r x) ->
  (forall x : A, ok x -> enc x <> []) ->
  forall (xs : list A) (fuel : nat) (acc : list A) (r : bytes) (s : dst),
    Forall ok xs -> wst s -> d_rest s = concat (map enc xs) ++ r ->
    exists c, many (length xs + fuel) item acc s =
              many fuel item (rev xs ++ acc) (mkst r (d_off s + lenN (concat (map enc xs))) (d_len s) c).
Proof.
  intros Hitem Hne xs. induction xs as [|x xs IH]; intros fuel acc r s Hok W Hr.
  - exists (d_cost s). cbn [length Nat.add rev app map concat]. f_equal.
    destruct s as [rest off len cost]. cbn [d_rest d_off d_len d_cost map concat app] in *. subst rest.
    unfold mkst. f_equal. change (lenN (@nil N)) with 0. lia.
  - inversion Hok as [|? ? Hx Hxs]; subst. cbn [length Nat.add map concat] in *. rewrite many_S.
    rewrite <- app_assoc in Hr.
    assert (d_rest s <> []) as Hnn.
    { rewrite Hr. intro Hc. apply app_eq_nil in Hc. destruct Hc as [Hc _]. exact (Hne x Hx Hc). }
    rewrite (bind_ok _ _ _ _ _ (is_finished_more s W Hnn)).
    destruct (Hitem x _ Hx s W Hr) as [c1 E1]. rewrite (bind_ok _ _ _ _ _ E1).
    destruct (IH fuel (x :: acc) r _ Hxs (reads_after s _ _ c1 W Hr) eq_refl) as [c2 E2].
    rewrite E2. exists c2. cbn [rev]. rewrite <- app_assoc. cbn [app].
    unfold mkst. cbn [d_off d_len]. rewrite lenN_app.
    replace (d_off s + lenN (enc x) + lenN (concat (map enc xs)))
      with (d_off s + (lenN (enc x) + lenN (concat (map enc xs)))) by lia.
    reflexivity.
Qed.

Definition alpn_wire (ids : list bytes) : bytes := concat (map (fun b : bytes => lenN b :: b) ids).

Lemma reject_alpn_overrun (ids : list bytes) (l : N) (rest : bytes) (c : N) :
  Forall (fun b : bytes => utf8_valid b = true /\ lenN b <= 255) ids ->
  lenN rest < l -> l < 256 -> lenN (alpn_wire ids ++ l :: rest) < WFMAX ->
  exists c', sub_run (rr_service_parameter 1) (win (alpn_wire ids ++ l :: rest) c) =
             DErr (ENotEnoughBytes, [lenN (alpn_wire ids ++ l :: rest); lenN (alpn_wire ids) + 1 + l]) c'.
Proof.
  intros Hok Hlt Hl Hw. rewrite rsp_1. unfold sub_run.
  set (b := alpn_wire ids ++ l :: rest) in *.
  pose proof (win_wst b c Hw) as W.
  assert (length ids <= length (alpn_wire ids))%nat as Hc.
  { apply concat_length_ge. intros x _. discriminate. }
  assert (S (length b) = length ids + S (S (length b) - length ids - 1))%nat as Hfuel.
  { subst b. rewrite app_length. cbn [length]. lia. }
  destruct (many_prefix string_ (fun x : bytes => lenN x :: x)
              (fun x : bytes => utf8_valid x = true /\ lenN x <= 255)
              (fun x r H => reads_string x r (proj1 H) (proj2 H))
              (fun x _ => ltac:(discriminate))
              ids (S (S (length b) - length ids - 1)) [] (l :: rest) (win b c) Hok W eq_refl) as [c1 E1].
  pose proof (reads_after (win b c) (alpn_wire ids) (l :: rest) c1 W eq_refl) as W1.
  destruct (string_overrun l rest _ W1 eq_refl Hlt Hl) as [c2 E2].
  exists c2. apply bind_err.
  rewrite (bind_ok _ _ _ _ _ (loop_fuel_eq _ W)). apply bind_err.
  cbn [win mkst d_rest]. rewrite Hfuel.
  unfold alpn_wire in *. rewrite E1. rewrite many_S.
  rewrite (bind_ok _ _ _ _ _ (is_finished_more _ W1 ltac:(discriminate))).
  apply bind_err. rewrite E2. cbn [win mkst d_len d_off]. rewrite N.add_0_l. reflexivity.
Qed.

(* ---- the child window of [with_sub]: all window-level rejections surface unchanged ---- *)
Lemma with_sub_window {A} (n : N) (m : DM A) (s : dst) : wst s -> n <= lenN (d_rest s) ->
  with_sub n m s =
  match sub_run m (win (takeN n (d_rest s)) (d_cost s + n)) with
  | DOk a c => DOk a (mkst (dropN n (d_rest s)) (d_off s + n) (d_len s) (d_cost c))
  | DErr e c => DErr e c
  | DPanic x => DPanic x
  | DFuel => DFuel
  end.
Proof. intros W H. rewrite with_sub_eq, (read_enough n s W H). reflexivity. Qed.

Lemma with_sub_window_len (n : N) (s : dst) : wst s -> n <= lenN (d_rest s) ->
  lenN (takeN n (d_rest s)) = n /\ n < WFMAX.
Proof. intros [W1 W2] H. rewrite lenN_takeN. lia. Qed.

(* ---- 4g. the record: class and alias form ---- *)
Lemma reject_class (main : bytes) (c : N) (s : dst) : in_table Class_table c = true -> c <> 1 ->
  rr_service_binding main c s = DErr (ESVCBClass, [c]) (d_cost s).
Proof.
  intros Ht Hc. unfold rr_service_binding. apply bind_err.
  unfold class_rule, get_class. rewrite Ht. unfold bind, ret.
  destruct (c =? CLASS_IN) eqn:E; [unfold CLASS_IN in E; lia|reflexivity].
Qed.

Lemma reject_class_unknown (main : bytes) (c : N) (s : dst) : in_table Class_table c = false ->
  rr_service_binding main c s = DErr (EClass, [c]) (d_cost s).
Proof.
  intros Ht. unfold rr_service_binding. apply bind_err.
  unfold class_rule, get_class. rewrite Ht. reflexivity.
Qed.

Lemma class_rule_in (e : etag) (s : dst) : class_rule (CKIn e) CLASS_IN s = DOk CLASS_IN s.
Proof. reflexivity. Qed.

Lemma rsb_alias (main : bytes) (s s1 s2 : dst) (t : name) :
  u16 s = DOk 0 s1 -> domain_name main s1 = DOk t s2 ->
  rr_service_binding main CLASS_IN s = DOk (RSvcb 0 t []) s2.
Proof.
  intros H1 H2. unfold rr_service_binding.
  rewrite (bind_ok _ _ _ _ _ (class_rule_in ESVCBClass s)), (bind_ok _ _ _ _ _ H1), (bind_ok _ _ _ _ _ H2).
  reflexivity.
Qed.

Lemma reject_alias_trailing (main : bytes) (s s1 s2 : dst) (t : name) :
  u16 s = DOk 0 s1 -> domain_name main s1 = DOk t s2 -> d_off s2 < d_len s2 ->
  sub_run (rr_service_binding main CLASS_IN) s = DErr (ETooManyBytes, [d_len s2; d_off s2]) (d_cost s2).
Proof.
  intros H1 H2 H3. unfold sub_run. rewrite (bind_ok _ _ _ _ _ (rsb_alias main s s1 s2 t H1 H2)).
  apply bind_err. apply finished_lt. exact H3.
Qed.

(* types 64 and 65 dispatch to the service-binding reader *)
Lemma rr_body_svcb (main : bytes) (owner : name) (hclass ttl : N) :
  rr_body main 64 owner hclass ttl =
  (d <- rr_service_binding main hclass ;;
   ret {| r_type := 64; r_name := owner; r_class := CLASS_IN; r_ttl := ttl; r_data := d |}).
Proof. reflexivity. Qed.
Lemma rr_body_https (main : bytes) (owner : name) (hclass ttl : N) :
  rr_body main 65 owner hclass ttl =
  (d <- rr_service_binding main hclass ;;
   ret {| r_type := 65; r_name := owner; r_class := CLASS_IN; r_ttl := ttl; r_data := d |}).
Proof. reflexivity. Qed.
