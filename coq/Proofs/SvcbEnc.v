(* C16, part 2: the write trace of the SvcParams writer.  [enc_service_parameter] and
   [emap enc_service_parameter] are characterised EXACTLY, from any encoder state: either the
   octets key ++ length ++ value are appended, or the writer fails with the error computed by
   [param_err] (a value that does not fit its length field). *)
From Coq Require Import Sorted Permutation.
From DNS Require Import Model.Dec Model.Enc Proofs.ListN Proofs.NameLoop Proofs.SvcbSet.
Require Import ZArith ZifyBool ZifyN ZifyNat.
Local Open Scope N_scope.
Ltac Zify.zify_post_hook ::= Z.div_mod_to_equations.

(* ---- the registered wire format of every value ---- *)
Definition value_bytes (p : svcparam) : bytes :=
  match p with
  | PMandatory keys => concat (map u16b (sort_keys keys))
  | PAlpn ids => concat (map (fun b : bytes => lenN b :: b) ids)
  | PNoDefaultAlpn => []
  | PPort port => u16b port
  | PIpv4Hint h => concat (map u32b h)
  | PEch cl => u16b (lenN cl) ++ cl
  | PIpv6Hint h => concat h
  | PPrivate _ d => d
  | PKey65535 => []
  end.

Definition param_wire (p : svcparam) : bytes :=
  u16b (param_key p) ++ u16b (lenN (value_bytes p)) ++ value_bytes p.

(* the error of the value writer, if any: an alpn id above 255 octets, an ech list above 65535 *)
Definition value_err (p : svcparam) : option err :=
  match p with
  | PAlpn ids => match find (fun b : bytes => 255 <? lenN b) ids with
                 | Some b => Some (XString, [lenN b])
                 | None => None
                 end
  | PEch cl => if 65535 <? lenN cl then Some (XLength, [lenN cl]) else None
  | _ => None
  end.

(* the error of one parameter: the value writer's, else a value above 65535 octets *)
Definition param_err (p : svcparam) : option err :=
  match value_err p with
  | Some e => Some e
  | None => if lenN (value_bytes p) <? 65536 then None else Some (XLength, [lenN (value_bytes p)])
  end.

Fixpoint params_err (ps : list svcparam) : option err :=
  match ps with
  | [] => None
  | p :: r => match param_err p with Some e => Some e | None => params_err r end
  end.

(* ---- state bookkeeping ---- *)
Lemma with_buf_buf (s : est) (b : bytes) : e_buf (with_buf s b) = b.
Proof. reflexivity. Qed.
Lemma with_buf_twice (s : est) (a b : bytes) : with_buf (with_buf s a) b = with_buf s b.
Proof. reflexivity. Qed.
Lemma with_buf_same (s : est) : with_buf s (e_buf s) = s.
Proof. destruct s; reflexivity. Qed.
Lemma put_eq (b : bytes) (s : est) : put b s = EOk tt (with_buf s (e_buf s ++ b)).
Proof. reflexivity. Qed.
Lemma eu16_eq (v : N) (s : est) : eu16 v s = EOk tt (with_buf s (e_buf s ++ u16b v)).
Proof. reflexivity. Qed.
Lemma eu32_eq (v : N) (s : est) : eu32 v s = EOk tt (with_buf s (e_buf s ++ u32b v)).
Proof. reflexivity. Qed.

Lemma estring_eq (b : bytes) (s : est) :
  estring b s = if 255 <? lenN b then EErr (XString, [lenN b])
                else EOk tt (with_buf s (e_buf s ++ lenN b :: b)).
Proof.
  unfold estring. cbv zeta. rewrite OP_string_len_val, STRING_MAX_val. cbn [cmp_apply].
  destruct (255 <? lenN b) eqn:E; [reflexivity|]. apply N.ltb_ge in E.
  unfold eu8, u8b, put, ebind, with_buf. cbn [e_buf e_idx e_names].
  rewrite N.mod_small by lia. rewrite <- app_assoc. reflexivity.
Qed.

(* a loop of infallible appends *)
Lemma emap_append {A} (f : A -> EM unit) (g : A -> bytes) :
  (forall (x : A) (s : est), f x s = EOk tt (with_buf s (e_buf s ++ g x))) ->
  forall (l : list A) (s : est), emap f l s = EOk tt (with_buf s (e_buf s ++ concat (map g l))).
Proof.
  intros Hf l. induction l as [|x l IH]; intros s; cbn [emap map concat].
  - unfold eret. rewrite app_nil_r, with_buf_same. reflexivity.
  - rewrite (ebind_ok _ _ _ _ _ (Hf x s)). rewrite IH. rewrite with_buf_buf, with_buf_twice.
    rewrite <- app_assoc. reflexivity.
Qed.

Lemma emap_estring (ids : list bytes) : forall s : est,
  emap estring ids s =
  match find (fun b : bytes => 255 <? lenN b) ids with
  | Some b => EErr (XString, [lenN b])
  | None => EOk tt (with_buf s (e_buf s ++ concat (map (fun b : bytes => lenN b :: b) ids)))
  end.
Proof.
  induction ids as [|b ids IH]; intros s; cbn [emap map concat find].
  - unfold eret. rewrite app_nil_r, with_buf_same. reflexivity.
  - unfold ebind at 1. rewrite estring_eq.
    destruct (255 <? lenN b) eqn:E; [reflexivity|].
    rewrite IH. destruct (find _ ids); [reflexivity|].
    rewrite with_buf_buf, with_buf_twice. rewrite <- app_assoc. reflexivity.
Qed.

(* ---- the value writer ---- *)
Definition enc_value (p : svcparam) : EM unit :=
  match p with
  | PMandatory keys => emap eu16 (sort_keys keys)
  | PAlpn ids => emap estring ids
  | PNoDefaultAlpn => eret tt
  | PPort port => eu16 port
  | PIpv4Hint h => emap eu32 h
  | PEch cl => let n := lenN cl in
               if 65535 <? n then efail (XLength, [n]) else _ <-- eu16 n ;; put cl
  | PIpv6Hint h => emap put h
  | PPrivate _ d => put d
  | PKey65535 => eret tt
  end.

Lemma enc_service_parameter_eq (p : svcparam) :
  enc_service_parameter p =
  (_ <-- eu16 (param_key p) ;; li <-- create_length_index ;; _ <-- enc_value p ;; set_length_index li).
Proof. destruct p; reflexivity. Qed.

Lemma enc_value_trace (p : svcparam) (s : est) :
  enc_value p s = match value_err p with
                  | Some e => EErr e
                  | None => EOk tt (with_buf s (e_buf s ++ value_bytes p))
                  end.
Proof.
  destruct p as [keys|ids| |port|h|cl|h|n d| ]; cbn [enc_value value_err value_bytes].
  - apply (emap_append eu16 u16b eu16_eq).
  - rewrite emap_estring. destruct (find _ ids); reflexivity.
  - unfold eret. rewrite app_nil_r, with_buf_same. reflexivity.
  - apply eu16_eq.
  - apply (emap_append eu32 u32b eu32_eq).
  - cbv zeta. destruct (65535 <? lenN cl); [reflexivity|].
    unfold ebind. rewrite eu16_eq, put_eq, with_buf_buf, with_buf_twice, <- app_assoc. reflexivity.
  - rewrite (emap_append put (fun b : bytes => b) put_eq). rewrite map_id. reflexivity.
  - apply put_eq.
  - unfold eret. rewrite app_nil_r, with_buf_same. reflexivity.
Qed.

(* ---- the length slot ---- *)
Lemma skipn_app_exact {A} (x y : list A) : skipn (length x) (x ++ y) = y.
Proof. rewrite skipn_app, skipn_all, Nat.sub_diag. reflexivity. Qed.
Lemma firstn_app_exact {A} (x y : list A) : firstn (length x) (x ++ y) = x.
Proof. rewrite firstn_app, firstn_all, Nat.sub_diag. cbn [firstn]. apply app_nil_r. Qed.

Lemma patch_mid (a b b0 c : bytes) : length b0 = length b ->
  patch (lenN a) b (a ++ b0 ++ c) = a ++ b ++ c.
Proof.
  intros H. unfold patch, takeN, dropN.
  rewrite N2Nat.inj_add, !to_nat_lenN, firstn_app_exact.
  rewrite <- H. rewrite (app_assoc a b0 c), <- app_length, skipn_app_exact. reflexivity.
Qed.

Lemma u16b_length (v : N) : length (u16b v) = 2%nat.
Proof. reflexivity. Qed.
Lemma lenN_u16b (v : N) : lenN (u16b v) = 2.
Proof. reflexivity. Qed.

Lemma create_length_index_eq (s : est) :
  create_length_index s = EOk (lenN (e_buf s)) (with_buf s (e_buf s ++ u16b 0)).
Proof. reflexivity. Qed.

(* closing the slot opened at the end of [a], after [v] was written behind it *)
Lemma set_length_index_eq (s : est) (a v : bytes) :
  e_buf s = a ++ u16b 0 ++ v ->
  set_length_index (lenN a) s =
  if lenN v <? 65536 then EOk tt (with_buf s (a ++ u16b (lenN v) ++ v))
  else EErr (XLength, [lenN v]).
Proof.
  intros Hb. unfold set_length_index, buf_len, ebind. rewrite Hb.
  rewrite !lenN_app, lenN_u16b.
  destruct (lenN a + (2 + lenN v) <? lenN a + 2) eqn:E1; [apply N.ltb_lt in E1; lia|].
  replace (lenN a + (2 + lenN v) - (lenN a + 2)) with (lenN v) by lia.
  rewrite POW16_val. destruct (lenN v <? 65536) eqn:E2; [|reflexivity].
  unfold set_u16. cbv zeta. rewrite Hb, !lenN_app, lenN_u16b.
  destruct (lenN a + 2 - 1 <? lenN a + (2 + lenN v)) eqn:E3; [|apply N.ltb_ge in E3; lia].
  rewrite patch_mid by reflexivity. reflexivity.
Qed.

(* ---- 2. the write trace of one parameter and of the parameter list ---- *)
Lemma enc_param_trace (p : svcparam) (s : est) :
  enc_service_parameter p s =
  match param_err p with
  | Some e => EErr e
  | None => EOk tt (with_buf s (e_buf s ++ param_wire p))
  end.
Proof.
  rewrite enc_service_parameter_eq. unfold param_err.
  unfold ebind at 1. rewrite eu16_eq.
  unfold ebind at 1. rewrite create_length_index_eq, with_buf_buf, with_buf_twice.
  unfold ebind at 1. rewrite enc_value_trace, with_buf_buf, with_buf_twice.
  destruct (value_err p) as [e|]; [reflexivity|].
  rewrite (set_length_index_eq _ (e_buf s ++ u16b (param_key p)) (value_bytes p))
    by (rewrite with_buf_buf, <- !app_assoc; reflexivity).
  destruct (lenN (value_bytes p) <? 65536); [|reflexivity].
  rewrite with_buf_twice. unfold param_wire. rewrite <- !app_assoc. reflexivity.
Qed.

Lemma emap_param_trace (ps : list svcparam) : forall s : est,
  emap enc_service_parameter ps s =
  match params_err ps with
  | Some e => EErr e
  | None => EOk tt (with_buf s (e_buf s ++ concat (map param_wire ps)))
  end.
Proof.
  induction ps as [|p ps IH]; intros s; cbn [emap map concat params_err].
  - unfold eret. rewrite app_nil_r, with_buf_same. reflexivity.
  - unfold ebind. rewrite enc_param_trace.
    destruct (param_err p) as [e|]; [reflexivity|].
    rewrite IH. destruct (params_err ps); [reflexivity|].
    rewrite with_buf_buf, with_buf_twice, <- app_assoc. reflexivity.
Qed.

(* ---- when the writer fails: exactly when a value does not fit ---- *)
Definition value_fits (p : svcparam) : Prop :=
  match p with
  | PAlpn ids => Forall (fun b : bytes => lenN b <= 255) ids
  | PEch cl => lenN cl <= 65535
  | _ => True
  end.
Definition param_fits (p : svcparam) : Prop := value_fits p /\ lenN (value_bytes p) <= 65535.

Lemma find_none_Forall (ids : list bytes) :
  find (fun b : bytes => 255 <? lenN b) ids = None <-> Forall (fun b : bytes => lenN b <= 255) ids.
Proof.
  induction ids as [|b ids IH]; cbn [find]; [split; [constructor|reflexivity]|].
  destruct (255 <? lenN b) eqn:E.
  - split; [discriminate|]. intros H. inversion H; subst. apply N.ltb_lt in E. lia.
  - apply N.ltb_ge in E. rewrite IH. split; intros H; [constructor; assumption|inversion H; assumption].
Qed.

Lemma find_some_long (ids : list bytes) (b : bytes) :
  find (fun b : bytes => 255 <? lenN b) ids = Some b -> In b ids /\ 255 < lenN b.
Proof.
  intros H. apply find_some in H. destruct H as [H1 H2]. apply N.ltb_lt in H2. split; assumption.
Qed.

Lemma value_err_none_iff (p : svcparam) : value_err p = None <-> value_fits p.
Proof.
  destruct p as [keys|ids| |port|h|cl|h|n d| ]; cbn [value_err value_fits]; try (split; auto; fail).
  - rewrite <- find_none_Forall. destruct (find _ ids); split; intros H; try reflexivity; discriminate.
  - destruct (65535 <? lenN cl) eqn:E; split; intros H; try reflexivity; try discriminate.
    + apply N.ltb_lt in E. lia.
    + apply N.ltb_ge in E. exact E.
Qed.

Lemma param_err_none_iff (p : svcparam) : param_err p = None <-> param_fits p.
Proof.
  unfold param_err, param_fits. rewrite <- value_err_none_iff.
  destruct (value_err p) as [e|].
  - split; [discriminate|]. intros [H _]. discriminate.
  - destruct (lenN (value_bytes p) <? 65536) eqn:E.
    + apply N.ltb_lt in E. split; [intros _; split; [reflexivity|lia]|reflexivity].
    + apply N.ltb_ge in E. split; [discriminate|]. intros [_ H]. lia.
Qed.

(* the error is always Length or String, and names the offending length *)
Lemma param_err_some (p : svcparam) (e : err) :
  param_err p = Some e ->
  (e = (XLength, [lenN (value_bytes p)]) /\ 65535 < lenN (value_bytes p)) \/
  (exists cl, p = PEch cl /\ e = (XLength, [lenN cl]) /\ 65535 < lenN cl) \/
  (exists ids b, p = PAlpn ids /\ In b ids /\ e = (XString, [lenN b]) /\ 255 < lenN b).
Proof.
  unfold param_err.
  destruct (value_err p) as [e'|] eqn:EV.
  - intros H. injection H as <-. right.
    destruct p as [keys|ids| |port|h|cl|h|n d| ]; cbn [value_err] in EV; try discriminate.
    + right. destruct (find _ ids) as [b|] eqn:EF; [|discriminate]. injection EV as <-.
      destruct (find_some_long _ _ EF) as [H1 H2]. exists ids, b.
      split; [reflexivity|]. split; [exact H1|]. split; [reflexivity|exact H2].
    + left. destruct (65535 <? lenN cl) eqn:E; [|discriminate]. injection EV as <-.
      apply N.ltb_lt in E. exists cl. split; [reflexivity|]. split; [reflexivity|exact E].
  - destruct (lenN (value_bytes p) <? 65536) eqn:E; [discriminate|]. intros H. injection H as <-.
    apply N.ltb_ge in E. left. split; [reflexivity|lia].
Qed.

Lemma params_err_none_iff (ps : list svcparam) : params_err ps = None <-> Forall param_fits ps.
Proof.
  induction ps as [|p ps IH]; cbn [params_err]; [split; [constructor|reflexivity]|].
  destruct (param_err p) as [e|] eqn:E.
  - split; [discriminate|]. intros H. inversion H; subst.
    apply param_err_none_iff in H2. congruence.
  - apply param_err_none_iff in E. rewrite IH.
    split; intros H; [constructor; assumption|inversion H; assumption].
Qed.

Lemma params_err_some (ps : list svcparam) (e : err) :
  params_err ps = Some e -> exists p, In p ps /\ param_err p = Some e.
Proof.
  induction ps as [|p ps IH]; cbn [params_err]; [discriminate|].
  destruct (param_err p) as [e'|] eqn:E.
  - intros H. injection H as <-. exists p. split; [left; reflexivity|exact E].
  - intros H. destruct (IH H) as (q & Hq & He). exists q. split; [right; exact Hq|exact He].
Qed.

(* the success form used by the round trip *)
Lemma emap_param_ok (ps : list svcparam) (s : est) :
  Forall param_fits ps ->
  emap enc_service_parameter ps s = EOk tt (with_buf s (e_buf s ++ concat (map param_wire ps))).
Proof.
  intros H. rewrite emap_param_trace. apply params_err_none_iff in H. rewrite H. reflexivity.
Qed.

Lemma emap_param_ok_inv (ps : list svcparam) (s s' : est) :
  emap enc_service_parameter ps s = EOk tt s' ->
  Forall param_fits ps /\ s' = with_buf s (e_buf s ++ concat (map param_wire ps)).
Proof.
  rewrite emap_param_trace. destruct (params_err ps) as [e|] eqn:E; [discriminate|].
  intros H. injection H as <-. split; [apply params_err_none_iff; exact E|reflexivity].
Qed.

(* ---- alias form: nothing is written after the target name ---- *)
Lemma enc_dispatch_64 : lookup 64 enc_dispatch = Some (WrSpecial SpSvcb).
Proof. reflexivity. Qed.
Lemma enc_dispatch_65 : lookup 65 enc_dispatch = Some (WrSpecial SpHttps).
Proof. reflexivity. Qed.

Definition enc_svcb_rr (r : rr) (prio : N) (target : name) (body : EM unit) : EM unit :=
  _ <-- enc_domain_name (r_name r) ;;
  _ <-- eu16 (r_type r) ;;
  _ <-- eu16 CLASS_IN ;;
  _ <-- eu32 (r_ttl r) ;;
  li <-- create_length_index ;;
  _ <-- eu16 prio ;;
  _ <-- enc_domain_name target ;;
  _ <-- body ;;
  set_length_index li.

Lemma enc_rr_svcb (r : rr) (prio : N) (target : name) (params : list svcparam) :
  r_type r = 64 \/ r_type r = 65 -> r_data r = RSvcb prio target params ->
  enc_rr r = enc_svcb_rr r prio target
               (if negb (prio =? 0) then emap enc_service_parameter params else eret tt).
Proof.
  intros Ht Hd. unfold enc_rr, enc_svcb_rr.
  destruct Ht as [Ht|Ht]; rewrite Ht.
  - rewrite enc_dispatch_64, Hd. reflexivity.
  - rewrite enc_dispatch_65, Hd. reflexivity.
Qed.

Lemma enc_rr_alias (r : rr) (target : name) (params : list svcparam) :
  r_type r = 64 \/ r_type r = 65 -> r_data r = RSvcb 0 target params ->
  enc_rr r = enc_svcb_rr r 0 target (eret tt).
Proof. intros Ht Hd. rewrite (enc_rr_svcb r 0 target params Ht Hd). reflexivity. Qed.
