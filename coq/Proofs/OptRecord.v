(* C15 — the whole OPT pseudo-record through Encoder::rr and Decoder::rr (RFC 6891 6.1.2):
   root owner, TYPE 41, CLASS = payload size, TTL = ext-rcode | version | DO | Z, RDLENGTH, options. *)
From DNS Require Import Model.Dec Model.Enc Proofs.DecBase Proofs.C12 Proofs.OptBase Proofs.OptTtl
  Proofs.OptDec Proofs.OptRt Proofs.C15.
Require Import ZArith ZifyBool ZifyN ZifyNat.
Local Open Scope N_scope.
Ltac Zify.zify_post_hook ::= Z.div_mod_to_equations.

Lemma OP_string_len_val' : OP_string_len = CGt. Proof. reflexivity. Qed.
Lemma OP_merge_rec_val' : OP_merge_rec = CGt. Proof. reflexivity. Qed.
Lemma type_opt_in_table : in_table Type_table 41 = true. Proof. vm_compute. reflexivity. Qed.

(* the wire form of the record *)
Definition opt_rr_wire (payload ext ver : N) (dnssec : bool) (opts : list ednsopt) : bytes :=
  [0] ++ u16b 41 ++ u16b payload ++ u32b (ext * 16777216 + ver * 65536 + (if dnssec then 32768 else 0)) ++
  u16b (lenN (opts_wire opts)) ++ opts_wire opts.

Definition opt_rr (payload ext ver : N) (dnssec : bool) (opts : list ednsopt) : rr :=
  {| r_type := 41; r_name := []; r_class := 0; r_ttl := 0; r_data := ROpt payload ext ver dnssec opts |}.

(* ---- encoder ---- *)
Lemma enc_root (st : est) :
  enc_domain_name [] st =
  EOk tt {| e_buf := e_buf st ++ [0]; e_idx := e_idx st; e_names := (lenN (e_buf st), []) :: e_names st |}.
Proof.
  unfold enc_domain_name, ebind, log_name. cbn [enc_name_loop]. unfold ebind, estring. cbv zeta.
  rewrite OP_string_len_val'. cbn [cmp_apply].
  change (STRING_MAX <? lenN (@nil N)) with false. cbv iota.
  unfold ebind, eu8, put, merge_index. cbn [e_buf e_idx e_names].
  rewrite OP_merge_rec_val'. cbn [cmp_apply].
  change (DOMAIN_NAME_MAX_RECURSION <? 0) with false. cbv iota.
  cbn [map app e_buf e_idx e_names]. rewrite app_nil_r. reflexivity.
Qed.

Lemma enc_opt_rr (nm : name) (cl t payload ext ver : N) (dnssec : bool) (opts : list ednsopt) (st : est) :
  ext < 256 -> ver < 256 -> Forall opt_valid opts -> lenN (opts_wire opts) < 65536 ->
  enc_rr {| r_type := 41; r_name := nm; r_class := cl; r_ttl := t;
            r_data := ROpt payload ext ver dnssec opts |} st =
  EOk tt {| e_buf := e_buf st ++ opt_rr_wire payload ext ver dnssec opts; e_idx := e_idx st;
            e_names := (lenN (e_buf st), []) :: e_names st |}.
Proof.
  intros He Hv V L. unfold enc_rr. cbn [r_type r_data]. rewrite lookup_opt_enc.
  unfold ebind at 1. rewrite enc_root.
  set (st1 := {| e_buf := e_buf st ++ [0]; e_idx := e_idx st;
                 e_names := (lenN (e_buf st), []) :: e_names st |}).
  assert (emits (_ <-- eu16 41 ;; _ <-- eu16 payload ;; _ <-- eu32 (enc_opt_ttl ext ver dnssec) ;;
                 li <-- create_length_index ;; _ <-- emap enc_edns_option opts ;; set_length_index li)
                (u16b 41 ++ u16b payload ++ u32b (enc_opt_ttl ext ver dnssec) ++
                 u16b (lenN (opts_wire opts)) ++ opts_wire opts)) as E.
  { apply emits_seq; [apply emits_eu16|]. apply emits_seq; [apply emits_eu16|].
    apply emits_seq; [apply emits_eu32|]. apply emits_opt_rdata; assumption. }
  rewrite (E st1). unfold app_buf, st1, opt_rr_wire. cbn [e_buf e_idx e_names].
  rewrite (enc_opt_ttl_val ext ver dnssec He Hv). unfold ttl_word.
  rewrite <- app_assoc. reflexivity.
Qed.

(* ---- decoder ---- *)
Lemma be4 a b c d : be [a; b; c; d] = ((a * 256 + b) * 256 + c) * 256 + d.
Proof. unfold be. cbn [be_join]. lia. Qed.

Lemma u32_cons (s : dst) (a b c d : N) (y : bytes) :
  d_rest s = a :: b :: c :: d :: y -> d_off s + 4 <= d_len s -> d_len s < POW64 ->
  u32 s = DOk (((a * 256 + b) * 256 + c) * 256 + d) (step 4 y s).
Proof.
  intros Hr Hle Hlt. unfold u32, uint, bind.
  rewrite (read_app 4 s [a; b; c; d] y Hr eq_refl Hle Hlt).
  change (lenN [a; b; c; d] =? 4) with true. cbv iota. rewrite be4. reflexivity.
Qed.

Lemma u32b_be v : v < 4294967296 ->
  ((v / 16777216 mod 256 * 256 + v / 65536 mod 256) * 256 + v / 256 mod 256) * 256 + v mod 256 = v.
Proof. intro H. lia. Qed.

Lemma name_loop_zero (main : bytes) (s : dst) : name_loop NAMEFUEL main [] 0 s = DOk [] s.
Proof. reflexivity. Qed.

(* a child window that was read to its end, whatever the hook counter says *)
Lemma with_sub_end {A} (m : DM A) (n : N) (s : dst) (x y : bytes) (a : A) (r' : bytes) (c' : N) :
  d_rest s = x ++ y -> lenN x = n -> d_off s + n <= d_len s -> d_len s < POW64 ->
  m (sub_win x (d_cost s + n)) = DOk a {| d_rest := r'; d_off := n; d_len := n; d_cost := c' |} ->
  with_sub n m s = DOk a {| d_rest := y; d_off := d_off s + n; d_len := d_len s; d_cost := c' |}.
Proof.
  intros Hr Hn Hle Hlt Hm. unfold with_sub.
  rewrite (read_app n s x y Hr Hn Hle Hlt). cbn [step d_cost d_rest d_off d_len].
  change {| d_rest := x; d_off := 0; d_len := lenN x; d_cost := d_cost s + n |}
    with (sub_win x (d_cost s + n)).
  unfold bind at 1. rewrite Hm. unfold bind at 1.
  unfold finished, bind, is_finished. cbn [d_off d_len d_cost].
  rewrite N.ltb_irrefl, N.eqb_refl. unfold ret. reflexivity.
Qed.

Lemma dec_opt_rr (main : bytes) (s : dst) (rest : bytes) (payload ext ver : N) (dnssec : bool)
      (opts : list ednsopt) :
  payload < 65536 -> ext < 256 -> ver < 256 -> Forall opt_valid opts -> lenN (opts_wire opts) < 65536 ->
  dst_wf s -> d_rest s = opt_rr_wire payload ext ver dnssec opts ++ rest ->
  exists c, rr_ main s =
            DOk (opt_rr payload ext ver dnssec opts)
                {| d_rest := rest; d_off := d_off s + lenN (opt_rr_wire payload ext ver dnssec opts);
                   d_len := d_len s; d_cost := c |}.
Proof.
  intros Hp He Hv V L W Hr. pose proof W as (W1 & W2 & W3 & W4).
  set (ow := opts_wire opts) in *.
  set (ttl := ext * 16777216 + ver * 65536 + (if dnssec then 32768 else 0)).
  assert (ttl < 4294967296) as Httl by (unfold ttl; destruct dnssec; lia).
  assert (ttl = enc_opt_ttl ext ver dnssec) as Ettl.
  { symmetry. apply enc_opt_ttl_val; assumption. }
  assert (lenN (opt_rr_wire payload ext ver dnssec opts) = 11 + lenN ow) as HWL.
  { unfold opt_rr_wire. fold ow. rewrite !lenN_app, !lenN_u16b.
    change (lenN (u32b (ext * 16777216 + ver * 65536 + (if dnssec then 32768 else 0)))) with 4.
    change (lenN [0]) with 1. lia. }
  assert (lenN (d_rest s) = 11 + lenN ow + lenN rest) as HL.
  { rewrite Hr, lenN_app, HWL. reflexivity. }
  assert (d_len s < POW64) as H64 by (unfold WFMAX, POW64 in *; lia).
  unfold opt_rr_wire in Hr. fold ow in Hr. fold ttl in Hr. rewrite <- !app_assoc in Hr.
  (* owner *)
  set (t1 := u16b 41 ++ u16b payload ++ u32b ttl ++ u16b (lenN ow) ++ ow ++ rest) in *.
  unfold rr_. unfold bind at 1. unfold domain_name, bind at 1.
  rewrite (u8_cons s 0 t1 Hr) by lia. rewrite name_loop_zero.
  set (s1 := step 1 t1 s).
  (* type *)
  set (t2 := u16b payload ++ u32b ttl ++ u16b (lenN ow) ++ ow ++ rest) in *.
  unfold bind at 1. unfold rr_type, code, bind at 1.
  rewrite (u16_cons s1 (41 / 256 mod 256) (41 mod 256) t2 eq_refl);
    [|unfold s1; cbn [step d_off d_len]; lia|exact H64].
  change (41 / 256 mod 256 * 256 + 41 mod 256) with 41. rewrite type_opt_in_table. unfold ret at 1.
  set (s2 := step 2 t2 s1).
  (* class = payload *)
  set (t3 := u32b ttl ++ u16b (lenN ow) ++ ow ++ rest) in *.
  unfold bind at 1.
  rewrite (u16_cons s2 (payload / 256 mod 256) (payload mod 256) t3 eq_refl);
    [|unfold s2, s1; cbn [step d_off d_len]; lia|exact H64].
  rewrite (u16b_be payload Hp).
  set (s3 := step 2 t3 s2).
  (* ttl *)
  set (t4 := u16b (lenN ow) ++ ow ++ rest) in *.
  unfold bind at 1.
  rewrite (u32_cons s3 (ttl / 16777216 mod 256) (ttl / 65536 mod 256) (ttl / 256 mod 256) (ttl mod 256) t4 eq_refl);
    [|unfold s3, s2, s1; cbn [step d_off d_len]; lia|exact H64].
  rewrite (u32b_be ttl Httl).
  set (s4 := step 4 t4 s3).
  (* rdlength *)
  unfold bind at 1.
  rewrite (u16_cons s4 (lenN ow / 256 mod 256) (lenN ow mod 256) (ow ++ rest) eq_refl);
    [|unfold s4, s3, s2, s1; cbn [step d_off d_len]; lia|exact H64].
  rewrite (u16b_be (lenN ow) L).
  set (s5 := step 2 (ow ++ rest) s4).
  (* rdata *)
  destruct (rr_opt_roundtrip payload ext ver dnssec opts (d_cost s5 + lenN ow) He Hv V L) as [c Hc].
  fold ow in Hc. rewrite <- Ettl in Hc.
  exists c.
  rewrite (with_sub_end (rr_body main 41 [] payload ttl) (lenN ow) s5 ow rest
             (opt_rr payload ext ver dnssec opts) [] c eq_refl eq_refl).
  - f_equal. f_equal. rewrite HWL. unfold s5, s4, s3, s2, s1. cbn [step d_off]. lia.
  - unfold s5, s4, s3, s2, s1. cbn [step d_off d_len]. lia.
  - exact H64.
  - unfold rr_body. rewrite lookup_opt_dec. unfold bind. rewrite Hc. reflexivity.
Qed.

Lemma opt_rr_roundtrip_proof :
  forall (payload ext ver : N) (dnssec : bool) (opts : list ednsopt),
    payload < 65536 -> ext < 256 -> ver < 256 -> Forall opt_valid opts -> lenN (opts_wire opts) < 65536 ->
    let w := [0] ++ u16b 41 ++ u16b payload ++
             u32b (ext * 16777216 + ver * 65536 + (if dnssec then 32768 else 0)) ++
             u16b (lenN (opts_wire opts)) ++ opts_wire opts in
    let r := {| r_type := 41; r_name := []; r_class := 0; r_ttl := 0;
                r_data := ROpt payload ext ver dnssec opts |} in
    (forall (nm : name) (cl t : N) (st : est),
       enc_rr {| r_type := 41; r_name := nm; r_class := cl; r_ttl := t;
                 r_data := ROpt payload ext ver dnssec opts |} st =
       EOk tt {| e_buf := e_buf st ++ w; e_idx := e_idx st;
                 e_names := (lenN (e_buf st), []) :: e_names st |}) /\
    (forall (main : bytes) (s : dst) (rest : bytes), dst_wf s -> d_rest s = w ++ rest ->
       exists c, rr_ main s =
                 DOk r {| d_rest := rest; d_off := d_off s + lenN w; d_len := d_len s; d_cost := c |}).
Proof.
  intros payload ext ver dnssec opts Hp He Hv V L. cbv zeta. split.
  - intros nm cl t st. exact (enc_opt_rr nm cl t payload ext ver dnssec opts st He Hv V L).
  - intros main s rest W Hr.
    exact (dec_opt_rr main s rest payload ext ver dnssec opts Hp He Hv V L W Hr).
Qed.
