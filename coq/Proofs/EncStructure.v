(* C08, part 5: the structure of a successful encoding, at message level: header, then one block per
   question and per record in section order; every record block carries its exact RDLENGTH. *)
From DNS Require Import Model.Dec Model.Enc Proofs.ListN Proofs.EncTotal Proofs.EncLimits.
Require Import ZArith ZifyBool ZifyN ZifyNat.
Local Open Scope N_scope.

Lemma extQ_bind {A B} (Q1 Q2 : bytes -> Prop) (m : EM A) (f : A -> EM B) :
  extQ Q1 m -> (forall a, extQ Q2 (f a)) ->
  extQ (fun w => exists w1 w2, w = w1 ++ w2 /\ Q1 w1 /\ Q2 w2) (ebind m f).
Proof.
  intros Hm Hf s. unfold ebind. specialize (Hm s). destruct (m s) as [a s1|e|x|]; try exact Hm.
  destruct Hm as (w1 & E1 & H1). specialize (Hf a s1). destruct (f a s1) as [b s2|e|x|]; try exact Hf.
  destruct Hf as (w2 & E2 & H2). exists (w1 ++ w2). split; [rewrite E2, E1, app_assoc; reflexivity|].
  exists w1, w2. split; [reflexivity|]. split; assumption.
Qed.

Lemma extQ_emap {A} (Q : A -> bytes -> Prop) (f : A -> EM unit) (l : list A) :
  (forall x, extQ (Q x) (f x)) ->
  extQ (fun w => exists ws, w = concat ws /\ Forall2 Q l ws) (emap f l).
Proof.
  intros Hf. induction l as [|x r IH]; cbn [emap].
  - intros s. exists []. split; [cbn [eret]; symmetry; apply app_nil_r|]. exists []. split; [reflexivity|constructor].
  - eapply extQ_weaken; [|apply (extQ_bind _ _ _ _ (Hf x) (fun _ => IH))].
    intros w (w1 & w2 & -> & H1 & ws & -> & H2). exists (w1 :: ws). split; [reflexivity|]. constructor; assumption.
Qed.

Definition q_shape (q : question) (w : bytes) : Prop :=
  exists nm, w = nm ++ u16b (q_type q) ++ u16b (q_class q).

Lemma enc_question_framed q : extQ (q_shape q) (enc_question q).
Proof.
  intros s. unfold enc_question. unfold ebind at 1. pose proof (ext_enc_domain_name (q_name q) s) as Hn.
  destruct (enc_domain_name (q_name q) s) as [[] s1|e|x|]; try exact Hn. destruct Hn as (wn & Hwn & _).
  unfold eu16. rewrite ebind_put, put_eq, sput_sput.
  exists (wn ++ u16b (q_type q) ++ u16b (q_class q)).
  split; [rewrite e_buf_sput, Hwn, <- app_assoc; reflexivity|]. exists wn. reflexivity.
Qed.

Lemma extQ_final : extQ (fun w => w = []) (_ <-- get_offset ;; eret tt).
Proof.
  intros s. unfold get_offset, ebind, buf_len.
  destruct (lenN (e_buf s) <? POW16); cbn [eret efail]; [|exact I].
  exists []. split; [symmetry; apply app_nil_r|reflexivity].
Qed.

Definition rr_block (r : rr) (w : bytes) : Prop := rr_shape (r_type r) w.

Theorem enc_Dns_structure m b : enc_Dns m = Ok b ->
  exists wq wan wns war,
    b = hdr m ++ concat wq ++ concat wan ++ concat wns ++ concat war /\
    Forall2 q_shape (m_qd m) wq /\
    Forall2 rr_block (m_an m) wan /\ Forall2 rr_block (m_ns m) wns /\ Forall2 rr_block (m_ar m) war.
Proof.
  unfold enc_Dns, erun. rewrite enc_dns_unfold.
  destruct (lenN (m_qd m) <? POW16); [|discriminate].
  destruct (lenN (m_an m) <? POW16); [|discriminate].
  destruct (lenN (m_ns m) <? POW16); [|discriminate].
  destruct (lenN (m_ar m) <? POW16); [|discriminate].
  pose proof (extQ_bind _ _ _ _ (extQ_emap _ _ (m_qd m) enc_question_framed) (fun _ =>
              extQ_bind _ _ _ _ (extQ_emap rr_block _ (m_an m) enc_rr_framed) (fun _ =>
              extQ_bind _ _ _ _ (extQ_emap rr_block _ (m_ns m) enc_rr_framed) (fun _ =>
              extQ_bind _ _ _ _ (extQ_emap rr_block _ (m_ar m) enc_rr_framed) (fun _ => extQ_final))))
              (sput e_init (hdr m))) as H.
  change (ebind (emap enc_question (m_qd m)) _) with (enc_dns_body m) in H.
  destruct (enc_dns_body m (sput e_init (hdr m))) as [a s'|e|x|]; try discriminate.
  intros E. inversion E; subst b.
  destruct H as (w & Hw & w1 & r1 & -> & (wq & -> & Hq) & w2 & r2 & -> & (wan & -> & Han) &
                 w3 & r3 & -> & (wns & -> & Hns) & w4 & r4 & -> & (war & -> & Har) & ->).
  exists wq, wan, wns, war. split; [|split; [exact Hq|split; [exact Han|split; [exact Hns|exact Har]]]].
  rewrite Hw, e_buf_sput, app_nil_r. reflexivity.
Qed.
