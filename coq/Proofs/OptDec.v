(* C15, parts 3-5 — the three EDNS option bodies are accepted for exactly their RFC value domains.
   src/decode/rr/edns/rfc_7873.rs (cookie), rfc_7830.rs (padding), rfc_7871.rs (client subnet). *)
From DNS Require Import Model.Dec Model.Enc Proofs.DecBase Proofs.C12 Proofs.OptBase.
Require Import ZArith ZifyBool ZifyN ZifyNat.
Local Open Scope N_scope.
Ltac Zify.zify_post_hook ::= Z.div_mod_to_equations.

(* ---- generated constants ---- *)
Lemma CLIENT_COOKIE_LENGTH_val : CLIENT_COOKIE_LENGTH = 8. Proof. reflexivity. Qed.
Lemma MINIMUM_COOKIE_LENGTH_val : MINIMUM_COOKIE_LENGTH = 16. Proof. reflexivity. Qed.
Lemma MAXIMUM_COOKIE_LENGTH_val : MAXIMUM_COOKIE_LENGTH = 40. Proof. reflexivity. Qed.
Lemma COOKIE_DEC_RANGE_INCL_val : COOKIE_DEC_RANGE_INCL = true. Proof. reflexivity. Qed.
Lemma COOKIE_NEW_RANGE_INCL_val : COOKIE_NEW_RANGE_INCL = true. Proof. reflexivity. Qed.
Lemma OP_ipv4_size_val : OP_ipv4_size = CLt. Proof. reflexivity. Qed.
Lemma OP_ipv6_size_val : OP_ipv6_size = CLt. Proof. reflexivity. Qed.
Lemma IPV4_SIZE_val : IPV4_SIZE = 4. Proof. reflexivity. Qed.
Lemma IPV6_SIZE_val : IPV6_SIZE = 16. Proof. reflexivity. Qed.

(* ================================================================================================ *)
(* Cookie (RFC 7873): 8 octets, or 16..=40                                                           *)
(* ================================================================================================ *)

Lemma cookie_len_ok_spec n : cookie_len_ok n = true <-> 16 <= n <= 40.
Proof.
  unfold cookie_len_ok. rewrite MINIMUM_COOKIE_LENGTH_val, MAXIMUM_COOKIE_LENGTH_val, COOKIE_DEC_RANGE_INCL_val.
  rewrite andb_true_iff, !N.leb_le. reflexivity.
Qed.

(* Cookie::new: a server cookie of 8..=32 octets, or none *)
Lemma cookie_new_some (c sv : bytes) :
  (8 <= lenN sv <= 32 -> cookie_new c (Some sv) = Ok {| c_client := c; c_server := Some sv |}) /\
  (~ 8 <= lenN sv <= 32 -> cookie_new c (Some sv) = Err (EServerCookieLength, [lenN sv])).
Proof.
  unfold cookie_new, cookie_set_server. cbv zeta. cbn [c_client].
  pose proof (server_len_ok_spec (lenN sv)) as H.
  destruct (server_len_ok (lenN sv)).
  - split; [reflexivity|]. intro Hn. exfalso. apply Hn. apply H. reflexivity.
  - split; [|reflexivity]. intro Hy. apply H in Hy. discriminate Hy.
Qed.
Lemma cookie_new_none (c : bytes) : cookie_new c None = Ok {| c_client := c; c_server := None |}.
Proof. reflexivity. Qed.

Lemma cookie_accept (s : dst) : d_off s <= d_len s ->
  let v := d_rest s in
  let n := lenN v in
  (n = 8 ->
     rr_edns_cookie s = DOk {| c_client := takeN 8 v; c_server := None |} (drained s)) /\
  (16 <= n <= 40 ->
     rr_edns_cookie s = DOk {| c_client := takeN 8 v; c_server := Some (dropN 8 v) |} (drained s)) /\
  (n <> 8 -> ~ 16 <= n <= 40 ->
     rr_edns_cookie s = DErr (ECookieLength, [n]) (d_cost (drained s))).
Proof.
  intro Hle. cbv zeta. unfold rr_edns_cookie, bind. rewrite (vec_ok s Hle). cbv zeta.
  rewrite CLIENT_COOKIE_LENGTH_val.
  set (v := d_rest s). set (n := lenN v).
  split; [|split].
  - intro E. rewrite E. change (8 =? 8) with true. change (8 <? 8) with false. cbv iota.
    rewrite cookie_new_none. reflexivity.
  - intro E. destruct (8 =? n) eqn:E8; [lia|].
    rewrite (proj2 (cookie_len_ok_spec n) E).
    destruct (n <? 8) eqn:E9; [lia|].
    assert (cookie_new (takeN 8 v) (Some (dropN 8 v)) =
            Ok {| c_client := takeN 8 v; c_server := Some (dropN 8 v) |}) as Hc.
    { apply cookie_new_some. rewrite lenN_dropN. fold n. lia. }
    exact (f_equal (fun r => lift r (drained s)) Hc).
  - intros E1 E2. destruct (8 =? n) eqn:E8; [lia|].
    destruct (cookie_len_ok n) eqn:E3; [apply cookie_len_ok_spec in E3; contradiction|].
    reflexivity.
Qed.

(* the client cookie has 8 octets, the server cookie the remaining 8..=32 *)
Lemma cookie_split_len (v : bytes) : 8 <= lenN v ->
  lenN (takeN 8 v) = 8 /\ lenN (dropN 8 v) = lenN v - 8 /\ takeN 8 v ++ dropN 8 v = v.
Proof.
  intro H. rewrite lenN_takeN, lenN_dropN. split; [lia|]. split; [reflexivity|apply takeN_dropN_id].
Qed.

(* no input at all makes the cookie reader panic or run out of fuel *)
Lemma cookie_total (s : dst) :
  (forall x, rr_edns_cookie s <> DPanic x) /\ rr_edns_cookie s <> DFuel.
Proof.
  destruct (N.le_gt_cases (d_off s) (d_len s)) as [Hle|Hgt].
  - destruct (cookie_accept s Hle) as (H1 & H2 & H3). cbv zeta in H1, H2, H3.
    destruct (N.eq_dec (lenN (d_rest s)) 8) as [E|E].
    + rewrite (H1 E). split; [intro x|]; discriminate.
    + destruct (N.le_gt_cases 16 (lenN (d_rest s))) as [A|A];
        [destruct (N.le_gt_cases (lenN (d_rest s)) 40) as [B|B]|].
      * rewrite (H2 (conj A B)). split; [intro x|]; discriminate.
      * rewrite (H3 E) by lia. split; [intro x|]; discriminate.
      * rewrite (H3 E) by lia. split; [intro x|]; discriminate.
  - unfold rr_edns_cookie, bind. rewrite (vec_err s Hgt). split; [intro x|]; discriminate.
Qed.

(* ================================================================================================ *)
(* Padding (RFC 7830): any number of zero octets                                                     *)
(* ================================================================================================ *)

Lemma first_nonzero_zeros k b tl : b <> 0 -> first_nonzero (zeros k ++ b :: tl) = Some b.
Proof.
  intro Hb. unfold first_nonzero. induction k as [|k IH]; cbn [zeros app find].
  - destruct (b =? 0) eqn:E; [apply N.eqb_eq in E; contradiction|reflexivity].
  - change (0 =? 0) with true. cbn [negb]. exact IH.
Qed.
Lemma first_nonzero_none l : Forall (fun b => b = 0) l -> first_nonzero l = None.
Proof.
  intro H. unfold first_nonzero. induction H as [|x l Hx Hl IH]; cbn [find]; [reflexivity|].
  subst x. change (0 =? 0) with true. cbn [negb]. exact IH.
Qed.
Lemma zero_split (l : bytes) :
  Forall (fun b => b = 0) l \/ exists k b tl, l = zeros k ++ b :: tl /\ b <> 0.
Proof.
  induction l as [|x l IH]; [left; constructor|].
  destruct (N.eq_dec x 0) as [->|Hx].
  - destruct IH as [H|(k & b & tl & -> & Hb)].
    + left. constructor; [reflexivity|exact H].
    + right. exists (S k), b, tl. split; [reflexivity|exact Hb].
  - right. exists O, x, l. split; [reflexivity|exact Hx].
Qed.
Lemma Forall_zero_zeros (l : bytes) : Forall (fun b => b = 0) l <-> l = zeros (length l).
Proof.
  split.
  - intro H. induction H as [|x l Hx Hl IH]; cbn [length zeros]; [reflexivity|]. subst x. f_equal. exact IH.
  - intro H. rewrite H. generalize (length l) as k. induction k as [|k IH]; cbn [zeros]; constructor; [reflexivity|exact IH].
Qed.

Lemma padding_accept (s : dst) : d_off s <= d_len s ->
  let p := d_rest s in
  let n := lenN p in
  (n < 65536 -> Forall (fun b => b = 0) p -> rr_edns_padding s = DOk n (drained s)) /\
  (n < 65536 -> forall k b tl, p = zeros k ++ b :: tl -> b <> 0 ->
     rr_edns_padding s = DErr (EPaddingZero, [b]) (d_cost (drained s))) /\
  (65536 <= n -> rr_edns_padding s = DErr (EPaddingLength, [n]) (d_cost (drained s))).
Proof.
  intro Hle. cbv zeta. unfold rr_edns_padding, bind. rewrite (vec_ok s Hle). cbv zeta.
  rewrite POW16_val'. split; [|split].
  - intros Hn Hz. destruct (65536 <=? lenN (d_rest s)) eqn:E; [lia|].
    rewrite (first_nonzero_none _ Hz). reflexivity.
  - intros Hn k b tl Hp Hb. destruct (65536 <=? lenN (d_rest s)) eqn:E; [lia|].
    assert (first_nonzero (d_rest s) = Some b) as -> by (rewrite Hp; apply first_nonzero_zeros; exact Hb).
    reflexivity.
  - intro Hn. destruct (65536 <=? lenN (d_rest s)) eqn:E; [reflexivity|lia].
Qed.

Lemma padding_iff (s : dst) : d_off s <= d_len s -> lenN (d_rest s) < 65536 ->
  forall v s', rr_edns_padding s = DOk v s' <->
    (Forall (fun b => b = 0) (d_rest s) /\ v = lenN (d_rest s) /\ s' = drained s).
Proof.
  intros Hle Hn v s'. destruct (padding_accept s Hle) as (H1 & H2 & _). cbv zeta in H1, H2.
  split.
  - intro H. destruct (zero_split (d_rest s)) as [Hz|(k & b & tl & Hp & Hb)].
    + rewrite (H1 Hn Hz) in H. injection H as <- <-. split; [exact Hz|]. split; reflexivity.
    + rewrite (H2 Hn k b tl Hp Hb) in H. discriminate H.
  - intros (Hz & -> & ->). apply H1; assumption.
Qed.

(* ================================================================================================ *)
(* Client subnet (RFC 7871)                                                                          *)
(* ================================================================================================ *)

Lemma family_in_table fam : in_table AddressFamilyNumber_table fam = ((fam =? 1) || (fam =? 2)).
Proof.
  unfold in_table, AddressFamilyNumber_table. cbn [existsb snd]. rewrite orb_false_r.
  rewrite (N.eqb_sym 1 fam), (N.eqb_sym 2 fam). reflexivity.
Qed.

Lemma rr_address_sized_spec (size : N) (e : etag) (x : site) (s : dst) : d_off s <= d_len s ->
  rr_address_sized size CLt e x s =
  if size <? lenN (d_rest s) then DErr (e, [lenN (d_rest s)]) (d_cost (drained s))
  else DOk (d_rest s ++ zeros (N.to_nat (size - lenN (d_rest s)))) (drained s).
Proof.
  intro Hle. unfold rr_address_sized, bind. rewrite (vec_ok s Hle). cbv zeta. cbn [cmp_apply].
  destruct (size <? lenN (d_rest s)); reflexivity.
Qed.

Lemma drained_step (n : N) (y : bytes) (s : dst) : d_off s + n <= d_len s ->
  drained (step n y s) = drained s.
Proof. intro H. unfold drained, step. cbn [d_rest d_off d_len d_cost]. f_equal. lia. Qed.

Definition fam_size (fam : N) : N := if fam =? 1 then 4 else 16.
Definition zero_fill (fam : N) (al : bytes) : addr :=
  {| a_fam := fam; a_oct := al ++ zeros (N.to_nat (fam_size fam - lenN al)) |}.

Lemma zero_fill_wf fam al : fam = 1 \/ fam = 2 -> lenN al <= fam_size fam -> bytes_ok al ->
  addr_wf (zero_fill fam al).
Proof.
  intros Hf Hl Hb. unfold addr_wf, zero_fill. cbn [a_fam a_oct]. split.
  - rewrite lenN_app, lenN_zeros. unfold fam_size in *.
    destruct Hf as [->| ->]; [left|right]; (split; [reflexivity|]).
    + change (1 =? 1) with true in *. cbv iota in *. lia.
    + change (2 =? 1) with false in *. cbv iota in *. lia.
  - apply Forall_app. split; [exact Hb|apply zeros_bytes_ok].
Qed.

Lemma rr_address_spec (fam : N) (s : dst) : d_off s <= d_len s -> fam = 1 \/ fam = 2 ->
  rr_address fam s =
  if fam_size fam <? lenN (d_rest s)
  then DErr (if fam =? 1 then EEcsTooBigIpv4Address else EEcsTooBigIpv6Address, [lenN (d_rest s)])
            (d_cost (drained s))
  else DOk (zero_fill fam (d_rest s)) (drained s).
Proof.
  intros Hle Hf. unfold rr_address, zero_fill, fam_size. destruct Hf as [-> | ->].
  - change (1 =? 1) with true. cbv iota. unfold bind.
    rewrite OP_ipv4_size_val, IPV4_SIZE_val, (rr_address_sized_spec 4 _ _ s Hle).
    destruct (4 <? lenN (d_rest s)); reflexivity.
  - change (2 =? 1) with false. cbv iota. unfold bind.
    rewrite OP_ipv6_size_val, IPV6_SIZE_val, (rr_address_sized_spec 16 _ _ s Hle).
    destruct (16 <? lenN (d_rest s)); reflexivity.
Qed.

Lemma ecs_accept (s : dst) (fh fl src scope : N) (al : bytes) :
  dst_wf s -> d_rest s = fh :: fl :: src :: scope :: al ->
  let fam := fh * 256 + fl in
  let a := zero_fill fam al in
  let p := N.max src scope in
  (fam <> 1 -> fam <> 2 -> rr_edns_ecs s = DErr (EEcsAddressNumber, [fam]) (d_cost s + 2)) /\
  (fam = 1 -> 4 < lenN al ->
     rr_edns_ecs s = DErr (EEcsTooBigIpv4Address, [lenN al]) (d_cost (drained s))) /\
  (fam = 2 -> 16 < lenN al ->
     rr_edns_ecs s = DErr (EEcsTooBigIpv6Address, [lenN al]) (d_cost (drained s))) /\
  (fam = 1 \/ fam = 2 -> lenN al <= fam_size fam -> prefix_ok a p ->
     rr_edns_ecs s = DOk {| e_src := src; e_scope := scope; e_addr := a |} (drained s)) /\
  (fam = 1 \/ fam = 2 -> lenN al <= fam_size fam -> ~ prefix_ok a p ->
     exists e, rr_edns_ecs s = DErr e (d_cost (drained s))).
Proof.
  intros W Hr. cbv zeta.
  pose proof W as (W1 & W2 & W3 & W4).
  assert (lenN (d_rest s) = 4 + lenN al) as HL.
  { rewrite Hr. rewrite !DecBase.lenN_cons. lia. }
  assert (d_off s + 4 + lenN al = d_len s) as Hlen by lia.
  assert (d_len s < POW64) as H64 by (unfold WFMAX, POW64 in *; lia).
  assert (bytes_ok al) as Hal.
  { rewrite Hr in W4. unfold bytes_ok in *.
    inversion W4 as [|? ? _ W5]; subst. inversion W5 as [|? ? _ W6]; subst.
    inversion W6 as [|? ? _ W7]; subst. inversion W7 as [|? ? _ W8]; subst. exact W8. }
  set (fam := fh * 256 + fl).
  set (s1 := step 2 (src :: scope :: al) s).
  set (s2 := step 1 (scope :: al) s1).
  set (s3 := step 1 al s2).
  assert (rr_address_family_number s =
          if (fam =? 1) || (fam =? 2) then DOk fam s1 else DErr (EEcsAddressNumber, [fam]) (d_cost s + 2)) as Hfam.
  { unfold rr_address_family_number, code, bind.
    rewrite (u16_cons s fh fl (src :: scope :: al) Hr) by lia. fold fam. fold s1.
    rewrite family_in_table. destruct ((fam =? 1) || (fam =? 2)); reflexivity. }
  assert (u8 s1 = DOk src s2) as Hu1.
  { apply u8_cons; [reflexivity| |exact H64]. unfold s1. cbn [step d_off d_len]. lia. }
  assert (u8 s2 = DOk scope s3) as Hu2.
  { apply u8_cons; [reflexivity| |exact H64]. unfold s2, s1. cbn [step d_off d_len]. lia. }
  assert (d_off s3 <= d_len s3) as Hle3.
  { unfold s3, s2, s1. cbn [step d_off d_len]. lia. }
  assert (drained s3 = drained s) as Hd3.
  { unfold s3, s2, s1. rewrite !drained_step; [reflexivity|cbn [step d_off d_len]; lia..]. }
  assert (d_rest s3 = al) as Hr3 by reflexivity.
  assert (rr_edns_ecs s =
          if (fam =? 1) || (fam =? 2)
          then (a <- rr_address fam ;; lift (ecs_new src scope a)) s3
          else DErr (EEcsAddressNumber, [fam]) (d_cost s + 2)) as Hecs.
  { unfold rr_edns_ecs. unfold bind at 1. rewrite Hfam.
    destruct ((fam =? 1) || (fam =? 2)); [|reflexivity].
    unfold bind at 1. rewrite Hu1. unfold bind at 1. rewrite Hu2. reflexivity. }
  (* the prefix part *)
  assert (forall a : addr, addr_wf a ->
            (prefix_ok a (N.max src scope) ->
               lift (ecs_new src scope a) (drained s) =
               DOk {| e_src := src; e_scope := scope; e_addr := a |} (drained s)) /\
            (~ prefix_ok a (N.max src scope) ->
               exists e, lift (ecs_new src scope a) (drained s) = DErr e (d_cost (drained s)))) as Hnew.
  { intros a Ha. unfold ecs_new, ecs_check, ecs_prefix. cbv zeta. cbn [e_addr e_src e_scope].
    destruct (check_prefix_spec a (N.max src scope) Ha) as (Hok & Hnp & Hnf).
    destruct (check_prefix a (N.max src scope)) as [[]|e|x|] eqn:E.
    - split; [reflexivity|]. intro Hn. exfalso. apply Hn. apply Hok. reflexivity.
    - split; [|intros _; exists e; reflexivity]. intro Hy. apply Hok in Hy. discriminate Hy.
    - exfalso. apply (Hnp x). reflexivity.
    - exfalso. apply Hnf. reflexivity. }
  assert (fam = 1 \/ fam = 2 -> (fam =? 1) || (fam =? 2) = true) as Hcond.
  { intros [F|F]; rewrite F; reflexivity. }
  assert (fam = 1 \/ fam = 2 -> rr_edns_ecs s =
          if fam_size fam <? lenN al
          then DErr (if fam =? 1 then EEcsTooBigIpv4Address else EEcsTooBigIpv6Address, [lenN al])
                    (d_cost (drained s))
          else lift (ecs_new src scope (zero_fill fam al)) (drained s)) as Hmain.
  { intro Hf. rewrite Hecs, (Hcond Hf). unfold bind.
    rewrite (rr_address_spec fam s3 Hle3 Hf), Hr3, Hd3.
    destruct (fam_size fam <? lenN al); reflexivity. }
  split; [|split; [|split; [|split]]].
  - intros N1 N2. rewrite Hecs.
    destruct (fam =? 1) eqn:E1; [lia|]. destruct (fam =? 2) eqn:E2; [lia|]. reflexivity.
  - intros F1 Hbig. rewrite (Hmain (or_introl F1)). rewrite F1. unfold fam_size.
    change (1 =? 1) with true. cbv iota. destruct (4 <? lenN al) eqn:E; [reflexivity|lia].
  - intros F2 Hbig. rewrite (Hmain (or_intror F2)). rewrite F2. unfold fam_size.
    change (2 =? 1) with false. cbv iota. destruct (16 <? lenN al) eqn:E; [reflexivity|lia].
  - intros Hf Hl Hp. rewrite (Hmain Hf).
    destruct (fam_size fam <? lenN al) eqn:E; [lia|].
    apply (Hnew _ (zero_fill_wf fam al Hf Hl Hal)). exact Hp.
  - intros Hf Hl Hp. rewrite (Hmain Hf).
    destruct (fam_size fam <? lenN al) eqn:E; [lia|].
    apply (Hnew _ (zero_fill_wf fam al Hf Hl Hal)). exact Hp.
Qed.
