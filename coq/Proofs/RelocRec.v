(* C10, relocation, part 3: the simulation for every writer of the model (fields, EDNS options, APL
   items, SVCB parameters, records, questions), and the theorems: a stand-alone element encoding
   is what the element occupies as the first element of a message, up to the shift of the pointer
   offsets by the 12 header octets. *)
From DNS Require Import Model.Dec Model.Enc Proofs.ListN Proofs.NameLoop Proofs.EncTotal Proofs.EncLimits
  Proofs.RelocBuf Proofs.Reloc.
Require Import ZArith ZifyBool ZifyN ZifyNat.
Local Open Scope N_scope.
Ltac Zify.zify_post_hook ::= Z.div_mod_to_equations.

Ltac in_solve := solve [repeat (first [left; reflexivity|right])].

Ltac sim_leaf :=
  first [ apply sim_put | apply sim_eu8 | apply sim_eu16 | apply sim_eu32 | apply sim_eu64
        | apply sim_estring | apply sim_enc_domain_name ].

Ltac sim_step :=
  lazymatch goal with
  | |- simL _ _ _ _ (ebind create_length_index _) (ebind create_length_index _) =>
    apply simL_create; intros ?; cbv beta
  | |- simL _ _ _ _ (ebind buf_len (fun li => ebind (eu8 0) _)) _ =>
    apply simL_create8; intros ?; cbv beta
  | |- simL _ _ _ _ (ebind _ _) (ebind _ _) =>
    apply simL_bindu; [|intros _; mono_go|intros _; mono_go|cbv beta]
  | |- simL _ _ _ _ (set_length_index _) (set_length_index _) =>
    apply simL_set_length_index; in_solve
  | |- simL _ _ _ _ (set_address_length_index _ _) (set_address_length_index _ _) =>
    apply simL_set_address_length_index; in_solve
  | |- simL _ _ _ _ (if ?b then _ else _) (if ?b then _ else _) => destruct b
  | |- simL _ _ _ _ (match ?o with Some _ => _ | None => _ end) _ => destruct o
  | |- simL _ _ _ _ (eret tt) (eret tt) => apply simL_ret; exact I
  | |- simL _ _ _ _ (emap _ _) (emap _ _) =>
    apply simL_emap; [intros ?; mono_go|intros ?; mono_go|intros ?]
  | |- simL _ _ _ _ (efail _) _ => apply simL_fails; intros ?; exact I
  | |- simL _ _ _ _ (fun _ => _) _ => apply simL_fails; intros ?; exact I
  | |- _ => first [ assumption | apply simL_weaken; sim_leaf ]
  end.

Section Rec.
Variables d lo : N.
Notation simu := (sim d lo Vu).

Lemma sim_rr_address_with_length (a : addr) (minimum : N) :
  simu (rr_address_with_length a minimum) (rr_address_with_length a minimum).
Proof. unfold sim, rr_address_with_length. repeat sim_step. Qed.

Lemma sim_write_field (k : fk) (v : option fv) : simu (write_field k v) (write_field k v).
Proof.
  unfold sim, write_field. destruct k; try (destruct v as [[n|n|b|l|[o|]]|]); repeat sim_step.
Qed.

Lemma sim_write_fields (names : list string) (vals : list fv) (f : list (string * fk)) :
  simu (write_fields names vals f) (write_fields names vals f).
Proof.
  unfold sim. induction f as [|[nm k] r IH]; cbn [write_fields]; [apply simL_ret; exact I|].
  apply simL_bindu; [apply sim_write_field|intros _; mono_go|intros _; mono_go|exact IH].
Qed.

Lemma sim_enc_edns_option (o : ednsopt) : simu (enc_edns_option o) (enc_edns_option o).
Proof.
  pose proof sim_rr_address_with_length as HA.
  unfold sim, enc_edns_option, enc_ecs, enc_cookie, enc_padding.
  destruct o; repeat sim_step; apply simL_weaken; apply HA.
Qed.

Lemma sim_enc_apitem (i : apitem) : simu (enc_apitem i) (enc_apitem i).
Proof.
  pose proof sim_rr_address_with_length as HA.
  unfold sim, enc_apitem. repeat sim_step; apply simL_weaken; apply HA.
Qed.

Lemma sim_enc_service_parameter (p : svcparam) : simu (enc_service_parameter p) (enc_service_parameter p).
Proof.
  unfold sim, enc_service_parameter. destruct p; cbv zeta; repeat sim_step.
Qed.

Theorem sim_enc_rr (r : rr) : simu (enc_rr r) (enc_rr r).
Proof.
  pose proof sim_write_fields as HF. pose proof sim_enc_edns_option as HO.
  pose proof sim_enc_apitem as HI. pose proof sim_enc_service_parameter as HS.
  unfold sim, enc_rr.
  destruct (lookup (r_type r) enc_dispatch) as [[ec f|[| | |]]|];
    try (apply simL_fails; intros ?; exact I);
    destruct (r_data r); try (apply simL_fails; intros ?; exact I);
    repeat sim_step; apply simL_weaken; first [apply HF|apply HO|apply HI|apply HS].
Qed.

Theorem sim_enc_question (q : question) : simu (enc_question q) (enc_question q).
Proof. unfold sim, enc_question. repeat sim_step. Qed.

End Rec.
