(* C06, history layer: every way the encoder touches its buffer, as an operation language run
   through the model functions, and the invariant along every history. *)
From DNS Require Import Model.Enc Spec.Names Proofs.ListN Proofs.NameLayer Proofs.NameLoop Proofs.NameMain.
Require Import ZArith ZifyBool ZifyN ZifyNat.
Local Open Scope N_scope.
Ltac Zify.zify_post_hook ::= Z.div_mod_to_equations.

Inductive op :=
| WriteName (n : name)          (* Encoder::domain_name *)
| WriteRaw (b : bytes)          (* u8/u16/u32/u64/vec/string/...: append *)
| Reserve (k : N)               (* k zero octets whose positions may later be patched *)
| Patch (i : N) (b : bytes).    (* set_u16/set_u8: overwrite octets not written by the name writer *)

Inductive hres :=
| HOk (s : est) (m : list bool)
| HNameFail (r : eres unit)     (* a WriteName did not return EOk: the raw result *)
| HBadPatch.                    (* a Patch outside the buffer or on a masked octet *)

Definition unmaskedb (m : list bool) (i k : N) : bool := forallb negb (takeN k (dropN i m)).

Definition run_op (s : est) (m : list bool) (o : op) : hres :=
  match o with
  | WriteName n =>
    match enc_domain_name n s with
    | EOk _ s' => HOk s' (m ++ repeat true (length (e_buf s') - length (e_buf s)))
    | r => HNameFail r
    end
  | WriteRaw b =>
    match put b s with
    | EOk _ s' => HOk s' (m ++ repeat false (length b))
    | _ => HBadPatch
    end
  | Reserve k =>
    match put (zeros (N.to_nat k)) s with
    | EOk _ s' => HOk s' (m ++ repeat false (N.to_nat k))
    | _ => HBadPatch
    end
  | Patch i b =>
    if (i + lenN b <=? lenN (e_buf s)) && unmaskedb m i (lenN b)
    then HOk {| e_buf := patch i b (e_buf s); e_idx := e_idx s; e_names := e_names s |} m
    else HBadPatch
  end.

Fixpoint run (ops : list op) (s : est) (m : list bool) : hres :=
  match ops with
  | [] => HOk s m
  | o :: r => match run_op s m o with HOk s' m' => run r s' m' | x => x end
  end.

Definition op_legal (o : op) : Prop := match o with WriteName n => name_ok n | _ => True end.

(* uncompressed size of a history: an upper bound of the buffer it produces *)
Definition op_size (o : op) : N :=
  match o with WriteName n => name_wire_len n | WriteRaw b => lenN b | Reserve k => k | Patch _ _ => 0 end.
Fixpoint ops_size (ops : list op) : N :=
  match ops with [] => 0 | o :: r => op_size o + ops_size r end.

(* the model's patch functions are Patch operations *)
Lemma set_u16_is_patch v i s s' : set_u16 v i s = EOk tt s' ->
  i + 2 <= lenN (e_buf s) /\ s' = {| e_buf := patch i (u16b v) (e_buf s); e_idx := e_idx s; e_names := e_names s |}.
Proof.
  unfold set_u16. destruct (i + 2 - 1 <? lenN (e_buf s)) eqn:E; [|discriminate].
  apply N.ltb_lt in E. intros H. inversion H. split; [lia|reflexivity].
Qed.
Lemma set_u8_is_patch v i s s' : set_u8 v i s = EOk tt s' ->
  i + 1 <= lenN (e_buf s) /\ s' = {| e_buf := patch i (u8b v) (e_buf s); e_idx := e_idx s; e_names := e_names s |}.
Proof.
  unfold set_u8. destruct (i + 1 - 1 <? lenN (e_buf s)) eqn:E; [|discriminate].
  apply N.ltb_lt in E. intros H. inversion H. split; [lia|reflexivity].
Qed.

Lemma nth_opt_in {A} (l : list A) : forall i v, nth_opt i l = Some v -> In v l.
Proof.
  induction l as [|x l IH]; intros i v H; [rewrite nth_opt_nil in H; discriminate|].
  destruct i; cbn [nth_opt] in H; [left; congruence|right; eapply IH; exact H].
Qed.

Lemma unmaskedb_spec m i k : i + k <= lenN m -> unmaskedb m i k = true -> unmasked m i k.
Proof.
  intros Hr Hu j Hj1 Hj2. unfold unmaskedb, takeN, dropN in Hu. unfold nthN. unfold lenN in Hr.
  assert (exists v, nth_opt (N.to_nat j) m = Some v) as [v Hv] by (apply nth_opt_lt_some; lia).
  rewrite Hv. f_equal.
  assert (In v (firstn (N.to_nat k) (skipn (N.to_nat i) m))) as Hin.
  { apply (nth_opt_in _ (N.to_nat j - N.to_nat i)). rewrite nth_opt_firstn by lia. rewrite nth_opt_skipn.
    rewrite <- Hv. f_equal. lia. }
  pose proof (proj1 (forallb_forall _ _) Hu v Hin) as Hneg. destruct v; [discriminate|reflexivity].
Qed.

Lemma zeros_length j : length (zeros j) = j.
Proof. induction j as [|j IH]; cbn [zeros length]; [reflexivity|]. rewrite IH. reflexivity. Qed.

Definition fail_is_size (r : eres unit) : Prop := exists k, r = EErr (XLength, [k]) /\ 65536 <= k.

(* one step: the invariant is kept, the buffer grows by at most the uncompressed size, and the
   only way a WriteName can fail is the message size limit *)
Lemma run_op_inv s m o : InvM s m -> op_legal o ->
  match run_op s m o with
  | HOk s' m' => InvM s' m' /\ lenN (e_buf s') <= lenN (e_buf s) + op_size o
  | HNameFail r => fail_is_size r /\ 65536 < lenN (e_buf s) + op_size o
  | HBadPatch => True
  end.
Proof.
  intros HI Hleg. destruct o as [n|b|k|i b]; cbn [run_op op_size].
  - cbn [op_legal] in Hleg.
    destruct (enc_domain_name_spec s m n HI Hleg) as [(s' & w & Hrun & Hb & _ & Hw & _ & HI')|(k & Hf & Hk1 & _ & Hk2)].
    + rewrite Hrun. rewrite Hb, app_length, lenN_app.
      replace (length (e_buf s) + length w - length (e_buf s))%nat with (length w) by lia.
      split; [exact HI'|lia].
    + rewrite Hf. split; [exists k; split; [reflexivity|exact Hk1]|lia].
  - destruct (put_preserves s m b HI) as (s' & Hrun & Hb & HI'). rewrite Hrun.
    split; [exact HI'|]. rewrite Hb, lenN_app. lia.
  - destruct (put_preserves s m (zeros (N.to_nat k)) HI) as (s' & Hrun & Hb & HI'). rewrite Hrun.
    pose proof (zeros_length (N.to_nat k)) as HZ.
    rewrite HZ in HI'. split; [exact HI'|]. rewrite Hb, lenN_app. unfold lenN at 2. rewrite HZ. lia.
  - destruct ((i + lenN b <=? lenN (e_buf s)) && unmaskedb m i (lenN b)) eqn:E; [|exact I].
    apply andb_true_iff in E. destruct E as [E1 E2]. apply N.leb_le in E1.
    pose proof HI as (HL & _).
    split.
    + apply patch_preserves; [exact HI|exact E1|].
      apply unmaskedb_spec; [unfold lenN in *; rewrite HL; exact E1|exact E2].
    + cbn [e_buf]. unfold lenN. rewrite patch_length by exact E1. lia.
Qed.

Lemma run_inv ops : forall s m, InvM s m -> Forall op_legal ops ->
  match run ops s m with
  | HOk s' m' => InvM s' m' /\ lenN (e_buf s') <= lenN (e_buf s) + ops_size ops
  | HNameFail r => fail_is_size r /\ 65536 < lenN (e_buf s) + ops_size ops
  | HBadPatch => True
  end.
Proof.
  induction ops as [|o r IH]; intros s m HI Hleg; cbn [run ops_size].
  - split; [exact HI|lia].
  - inversion Hleg as [|? ? Ho Hr]; subst.
    pose proof (run_op_inv s m o HI Ho) as Hstep.
    destruct (run_op s m o) as [s1 m1|r1|].
    + destruct Hstep as [HI1 Hlen1]. specialize (IH s1 m1 HI1 Hr).
      destruct (run r s1 m1) as [s2 m2|r2|]; [| |exact I].
      * destruct IH as [HI2 Hlen2]. split; [exact HI2|lia].
      * destruct IH as [Hf Hlen2]. split; [exact Hf|lia].
    + destruct Hstep as [Hf Hlen]. split; [exact Hf|]. pose proof (N.le_0_l (ops_size r)). lia.
    + exact I.
Qed.

(* what the final state of a history satisfies, read off the final buffer itself *)
Definition names_transparent (s : est) : Prop :=
  forall p n, In (p, n) (e_names s) ->
    exists x, expand 16 (e_buf s) p = Some x /\
              name_eqb n (x_name x) = true /\
              (x_hops x <= 16)%nat /\
              Forall (ptr_ok (e_names s) (e_buf s)) (x_ptrs x).

Lemma InvM_transparent s m : InvM s m -> names_transparent s.
Proof.
  intros (_ & _ & HI) p n Hin.
  destruct (HI (e_buf s) (agree_refl _ _)) as [_ Hl].
  destruct (Hl _ Hin) as (x & H1 & H2 & H3 & H4). cbn [fst snd] in *.
  exists x. split; [exact H1|]. split; [exact H3|]. split; [exact H2|exact H4].
Qed.

Theorem history_transparent ops : Forall op_legal ops ->
  match run ops e_init [] with
  | HOk s m => names_transparent s
  | HNameFail r => fail_is_size r
  | HBadPatch => True
  end.
Proof.
  intros Hleg. pose proof (run_inv ops e_init [] InvM_init Hleg) as H.
  destruct (run ops e_init []) as [s m|r|]; [|exact (proj1 H)|exact I].
  eapply InvM_transparent. exact (proj1 H).
Qed.

Theorem history_never_fails ops : Forall op_legal ops -> ops_size ops <= 65535 ->
  forall r, run ops e_init [] <> HNameFail r.
Proof.
  intros Hleg Hsz r Hr. pose proof (run_inv ops e_init [] InvM_init Hleg) as H.
  rewrite Hr in H. destruct H as [_ H]. cbn [e_init e_buf] in H. unfold lenN in H. cbn [length] in H. lia.
Qed.

(* ---- the unrepaired comparison (recursion > MAX instead of >=) ---- *)
Definition compress_old (suffix : name) : EM (option N) := fun s =>
  match idx_lookup suffix (e_idx s) with
  | Some (index, recursion) =>
    if cmp_apply OP_compress_offset ENC_MAX_OFFSET index then EErr (XCompression, [index])
    else if cmp_apply CGt recursion DOMAIN_NAME_MAX_RECURSION then EOk None s
    else (_ <-- eu16 (N.lor ENC_COMPRESSION_BITS index) ;; eret (Some recursion)) s
  | None => EOk None s
  end.
Fixpoint enc_name_loop_old (labels : name) (local : list (name * N)) : EM unit :=
  match labels with
  | [] => _ <-- estring [] ;; merge_index local 0
  | l :: rest =>
    r <-- compress_old labels ;;
    match r with
    | Some recursion => merge_index local (recursion + 1)
    | None =>
      index <-- elabel l ;;
      enc_name_loop_old rest (if cmp_apply OP_index_offset index ENC_MAX_OFFSET then (labels, index) :: local else local)
    end
  end.
Definition enc_domain_name_old (n : name) : EM unit := _ <-- log_name n ;; enc_name_loop_old n [].

(* a_k . a_(k-1) . ... . a_0 *)
Fixpoint nested (k : nat) : name :=
  match k with O => [[97; 48]] | S j => [97; 49 + N.of_nat j] :: nested j end.
Fixpoint nested_upto (k : nat) : list name :=
  match k with O => [nested 0] | S j => nested_upto j ++ [nested (S j)] end.

Lemma old_compress_refuted :
  emap enc_domain_name_old (nested_upto 17) e_init = EErr (XMaxRecursion, [17]) /\
  (exists s, emap enc_domain_name (nested_upto 17) e_init = EOk tt s) /\
  Forall name_ok (nested_upto 17).
Proof.
  split; [vm_compute; reflexivity|]. split; [eexists; vm_compute; reflexivity|].
  assert (forall l, forallb (fun n => forallb (fun l => (1 <=? lenN l) && (lenN l <=? 63) && bytes_okb l) n
                                      && (name_wire_len n <=? 255)) l = true -> Forall name_ok l) as Hdec.
  { intros l H. apply Forall_forall. intros n Hn.
    pose proof (proj1 (forallb_forall _ _) H n Hn) as Hb. apply andb_true_iff in Hb. destruct Hb as [Hb1 Hb2].
    split; [|apply N.leb_le; exact Hb2].
    apply Forall_forall. intros lb Hlb.
    pose proof (proj1 (forallb_forall _ _) Hb1 lb Hlb) as Hc.
    apply andb_true_iff in Hc. destruct Hc as [Hc Hc3]. apply andb_true_iff in Hc. destruct Hc as [Hc1 Hc2].
    split; [apply N.leb_le; exact Hc1|]. split; [apply N.leb_le; exact Hc2|].
    apply Forall_forall. intros x Hx. apply N.ltb_lt.
    exact (proj1 (forallb_forall _ _) Hc3 x Hx). }
  apply Hdec. vm_compute. reflexivity.
Qed.
