(* Pointer targets followed by the name reader: duplicate-free, at most 17; cyclic names are errors;
   the final statements about Model.Dec.domain_name. *)
From Coq Require Import ZifyBool ZifyN ZifyNat.
From DNS Require Import Model.Dec Spec.Names Proofs.DecBase Proofs.DecName Proofs.DecNameSpec
  Proofs.DecNameSound.
Local Open Scope N_scope.

(* ---- facts about the reference expansion ---- *)
Lemma expand_with_inv r h buf x : expand_with r h buf = Some x ->
  (exists ls e, r = Some (ls, None, e) /\ x = x_lit ls e) \/
  (exists ls t e h' x', r = Some (ls, Some t, e) /\ h = S h' /\ expand h' buf t = Some x' /\
                        x = x_ptr ls t e x').
Proof.
  destruct r as [[[ls [t|]] e]|]; cbn [expand_with]; try discriminate.
  - destruct h as [|h']; [discriminate|]. destruct (expand h' buf t) as [x'|] eqn:E; [|discriminate].
    intro H. injection H as <-. right. exists ls, t, e, h', x'. auto.
  - intro H. injection H as <-. left. exists ls, e. auto.
Qed.

Lemma expand_hops h : forall buf o x, expand h buf o = Some x ->
  (x_hops x <= h)%nat /\ length (targets x) = x_hops x.
Proof.
  induction h as [|h IH]; intros buf o x E; rewrite expand_unfold in E;
    apply expand_with_inv in E;
    destruct E as [(ls & e & _ & ->)|(ls & t & e & h' & x' & _ & Hh & E' & ->)];
    try (cbn [x_lit x_hops targets x_ptrs map length]; split; [lia|reflexivity]).
  - discriminate.
  - injection Hh as <-. destruct (IH _ _ _ E') as (I1 & I2).
    unfold targets in *. cbn [x_ptr x_hops x_ptrs map length]. split; [lia|]. rewrite I2. reflexivity.
Qed.

Lemma expand_det h1 : forall h2 buf o x1 x2,
  expand h1 buf o = Some x1 -> expand h2 buf o = Some x2 -> x1 = x2.
Proof.
  induction h1 as [|h1 IH]; intros h2 buf o x1 x2 E1 E2; rewrite expand_unfold in E1, E2;
    apply expand_with_inv in E1; apply expand_with_inv in E2;
    destruct E1 as [(ls1 & e1 & R1 & ->)|(ls1 & t1 & e1 & k1 & y1 & R1 & Hh1 & E1 & ->)];
    destruct E2 as [(ls2 & e2 & R2 & ->)|(ls2 & t2 & e2 & k2 & y2 & R2 & Hh2 & E2 & ->)];
    rewrite R1 in R2; try discriminate; try (injection R2 as <- <-; reflexivity).
  injection R2 as <- <- <-. injection Hh1 as <-. rewrite (IH _ _ _ _ _ E1 E2). reflexivity.
Qed.

(* every later target has an expansion of its own with strictly fewer hops *)
Lemma expand_suffix h : forall buf o x t, expand h buf o = Some x -> In t (targets x) ->
  exists h' x', expand h' buf t = Some x' /\ (x_hops x' < x_hops x)%nat.
Proof.
  induction h as [|h IH]; intros buf o x t E Hi; rewrite expand_unfold in E;
    apply expand_with_inv in E;
    destruct E as [(ls & e & _ & ->)|(ls & t0 & e & h' & x' & _ & Hh & E' & ->)];
    try (cbn in Hi; contradiction).
  - discriminate.
  - injection Hh as <-. unfold targets in Hi. cbn [x_ptr x_ptrs map snd] in Hi.
    destruct Hi as [<-|Hi].
    + exists h, x'. split; [exact E'|]. cbn [x_ptr x_hops]. lia.
    + destruct (IH _ _ _ _ E' Hi) as (h2 & x2 & E2 & L2). exists h2, x2. split; [exact E2|].
      cbn [x_ptr x_hops]. lia.
Qed.

Lemma expand_start_fresh h buf t x : expand h buf t = Some x -> ~ In t (targets x).
Proof.
  intros E Hi. destruct (expand_suffix _ _ _ _ _ E Hi) as (h' & x' & E' & L).
  rewrite (expand_det _ _ _ _ _ _ E' E) in L. lia.
Qed.

Lemma expand_nodup h : forall buf o x, expand h buf o = Some x -> NoDup (targets x).
Proof.
  induction h as [|h IH]; intros buf o x E; rewrite expand_unfold in E;
    apply expand_with_inv in E;
    destruct E as [(ls & e & _ & ->)|(ls & t0 & e & h' & x' & _ & Hh & E' & ->)].
  - constructor.
  - discriminate.
  - constructor.
  - injection Hh as <-. unfold targets. cbn [x_ptr x_ptrs map snd]. constructor.
    + eapply expand_start_fresh; eauto.
    + eapply IH; eauto.
Qed.

(* ---- the pointer chain of the reference, and cyclic names ---- *)
Definition next_target (buf : bytes) (o : N) : option N :=
  match seg SEGFUEL buf o with Some (_, Some t, _) => Some t | _ => None end.
Fixpoint chain (k : nat) (buf : bytes) (o : N) : option N :=
  match k with
  | O => Some o
  | S k' => match next_target buf o with Some t => chain k' buf t | None => None end
  end.
(* the chain of pointer targets starting at [o] comes back to a target it has already visited *)
Definition cyclic (buf : bytes) (o : N) : Prop :=
  exists i m t, (0 < m)%nat /\ chain i buf o = Some t /\ chain (i + m) buf o = Some t.

Lemma chain_add a : forall b buf o,
  chain (a + b) buf o = match chain a buf o with Some t => chain b buf t | None => None end.
Proof.
  induction a as [|a IH]; intros b buf o; [reflexivity|].
  cbn [Nat.add chain]. destruct (next_target buf o) as [t|]; [apply IH|reflexivity].
Qed.

Lemma expand_chain_end h : forall buf o x, expand h buf o = Some x -> chain (S (x_hops x)) buf o = None.
Proof.
  induction h as [|h IH]; intros buf o x E; rewrite expand_unfold in E;
    apply expand_with_inv in E;
    destruct E as [(ls & e & R & ->)|(ls & t0 & e & h' & x' & R & Hh & E' & ->)];
    try (cbn [chain x_lit x_hops]; unfold next_target; rewrite R; reflexivity).
  - discriminate.
  - injection Hh as <-. cbn [x_ptr x_hops]. cbn [chain]. unfold next_target at 1. rewrite R.
    apply (IH _ _ _ E').
Qed.

Lemma cyclic_forever buf o : cyclic buf o -> forall k, chain k buf o <> None.
Proof.
  intros (i & m & t & Hm & Hi & Him) k.
  assert (Hloop : chain m buf t = Some t). { rewrite chain_add, Hi in Him. exact Him. }
  assert (Hq : forall q, chain (q * m) buf t = Some t).
  { induction q as [|q IHq]; [reflexivity|]. cbn [Nat.mul]. rewrite chain_add, Hloop. exact IHq. }
  assert (Hbig : chain (i + k * m) buf o = Some t). { rewrite chain_add, Hi. apply Hq. }
  assert (Hk : (i + k * m = k + (i + k * m - k))%nat) by nia.
  rewrite Hk, chain_add in Hbig. intro Hn. rewrite Hn in Hbig. discriminate.
Qed.

Lemma cyclic_no_expansion buf o : cyclic buf o -> forall h, expand h buf o = None.
Proof.
  intros Hc h. destruct (expand h buf o) as [x|] eqn:E; [|reflexivity].
  exfalso. apply (cyclic_forever buf o Hc (S (x_hops x))). eapply expand_chain_end; eauto.
Qed.

(* ---- targets followed by the decoder, for an arbitrary window ---- *)
Section Main.
Variable main : bytes.
Hypothesis Hb : bytes_ok main.
Hypothesis Hm : lenN main < WFMAX.

Lemma name_loop_targets : forall f nm len s n tg s',
  dst_wf s -> len < 256 -> tl nm <= 254 ->
  name_loop_g f main nm len s = DOk (n, tg) s' ->
  tg = [] \/ exists t x, expand 16 main t = Some x /\ tg = t :: targets x.
Proof.
  induction f as [|f IH]; intros nm len s n tg s' W Hl Ht E; [discriminate|].
  destruct (name_step main f nm len s Hb Hm W Hl) as (o & Hs & Er). rewrite Er in E. clear Er.
  inversion Hs; subst; cbn [name_run] in E; try discriminate.
  - injection E as <- <- <-. left. reflexivity.
  - right. unfold jump_run in E.
    assert (Ht' : target len b < 16384) by (apply target_lt; lia).
    destruct (rec_loop_g NAMEFUEL main nm [] l (jump main (target len b + 1) (d_cost s + 2)))
      as [[nm' rs] ds| | |] eqn:ER; try discriminate.
    injection E as <- <- <-.
    destruct (rec_loop_sound main Hb Hm NAMEFUEL nm [] l (jump main (target len b + 1) (d_cost s + 2))
                 (target len b) nm' rs ds) with (k := SEGFUEL) as (x & X1 & X2 & X3); try assumption.
    + apply jump_wf; try assumption. unfold WFMAX. lia.
    + apply jump_views.
    + pose proof SEGFUEL_ok. lia.
    + rewrite <- expand_unfold in X1. cbn [length] in X1.
      exists (target len b), x. split; [exact X1|]. rewrite X3, app_nil_r, rev_involutive. reflexivity.
  - match goal with HL : lab_step _ _ _ _ |- _ => pose proof (lab_step_inv _ _ _ _ _ _ HL) as HI end.
    destruct HI as (I1 & I2 & I3 & I4 & I5 & I6 & I7 & I8 & _).
    eapply (IH _ _ _ _ _ _ (adv_wf (len + 1) s W ltac:(lia)) I8); [|exact E].
    rewrite tl_snoc, I4. lia.
Qed.

Theorem domain_name_g_targets s n tg s' : dst_wf s ->
  domain_name_g main s = DOk (n, tg) s' -> NoDup tg /\ (length tg <= 17)%nat.
Proof.
  intros W. unfold domain_name_g, bind.
  destruct (u8_wf s W) as [(Ho & b & Hn & Hb256 & Hu)|(Ho & Hu)]; rewrite Hu; [|discriminate].
  intro E. apply name_loop_targets in E; [|apply adv_wf; [exact W|lia]|exact Hb256|rewrite tl_nil; lia].
  destruct E as [->|(t & x & E & ->)]; [split; [constructor|cbn; lia]|].
  split.
  - constructor; [eapply expand_start_fresh; eauto|eapply expand_nodup; eauto].
  - destruct (expand_hops _ _ _ _ E) as (H1 & H2). cbn [length]. lia.
Qed.
End Main.

(* ---- final statements about the model ---- *)
Lemma erase_ok main s n s' : domain_name main s = DOk n s' ->
  exists tg, domain_name_g main s = DOk (n, tg) s'.
Proof.
  rewrite domain_name_erase. destruct (domain_name_g main s) as [[n0 tg] s0| | |]; cbn [dres_map fst];
    try discriminate.
  intro E. injection E as -> ->. exists tg. reflexivity.
Qed.

Theorem name_sound main s a n s' : bytes_ok main -> lenN main < WFMAX -> dst_wf s -> views main s a ->
  domain_name main s = DOk n s' ->
  exists x, expand 17 main a = Some x /\ x_name x = n /\ x_end x = a + (d_off s' - d_off s) /\
            (x_hops x <= 17)%nat.
Proof.
  intros Hb Hm W V E.
  destruct (name_bounds main s n s' Hb Hm W E) as (_ & _ & Ho & _).
  destruct (erase_ok _ _ _ _ E) as (tg & Eg).
  destruct (domain_name_g_sound main Hb Hm s a n tg s' W V Eg) as (x & X1 & X2 & X3 & X4).
  exists x. split; [exact X1|]. split; [exact X2|]. split; [lia|].
  apply (expand_hops _ _ _ _ X1).
Qed.

(* the ghost list of the instrumented reader is the reference's list of targets *)
Theorem name_targets_sound main s a n tg s' : bytes_ok main -> lenN main < WFMAX -> dst_wf s ->
  views main s a -> domain_name_g main s = DOk (n, tg) s' ->
  exists x, expand 17 main a = Some x /\ tg = targets x /\ length tg = x_hops x.
Proof.
  intros Hb Hm W V Eg.
  destruct (domain_name_g_sound main Hb Hm s a n tg s' W V Eg) as (x & X1 & X2 & X3 & X4).
  exists x. split; [exact X1|]. split; [symmetry; exact X3|]. rewrite <- X3.
  apply (expand_hops _ _ _ _ X1).
Qed.

Theorem name_hops main s : bytes_ok main -> lenN main < WFMAX -> dst_wf s ->
  domain_name main s = dres_map fst (domain_name_g main s) /\
  forall n tg s', domain_name_g main s = DOk (n, tg) s' -> NoDup tg /\ (length tg <= 17)%nat.
Proof.
  intros Hb Hm W. split; [apply domain_name_erase|].
  intros n tg s' E. eapply domain_name_g_targets; eauto.
Qed.

Theorem unexpandable_rejected main s a : bytes_ok main -> lenN main < WFMAX -> dst_wf s ->
  views main s a -> expand 17 main a = None -> exists e c, domain_name main s = DErr e c.
Proof.
  intros Hb Hm W V Hx.
  destruct (name_total main s Hb Hm W) as [(n & s' & E)|H]; [|exact H].
  destruct (name_sound main s a n s' Hb Hm W V E) as (x & X1 & _). congruence.
Qed.

Theorem cyclic_rejected main s a : bytes_ok main -> lenN main < WFMAX -> dst_wf s ->
  views main s a -> cyclic main a -> exists e c, domain_name main s = DErr e c.
Proof.
  intros Hb Hm W V Hc. eapply unexpandable_rejected; eauto. apply cyclic_no_expansion. exact Hc.
Qed.

(* the direct statement: a pointer to an already recorded target stops the loop with EndlessRecursion *)
Theorem rec_loop_revisit f main nm recs len s b s1 :
  len <> 0 -> is_compressed len = true -> u8 s = DOk b s1 -> In (ptr_offset len b) recs ->
  rec_loop (S f) main nm recs len s = DErr (EEndlessRecursion, [ptr_offset len b]) (d_cost s1).
Proof.
  intros H0 Hc Hu Hi. rewrite rec_loop_S.
  destruct (len =? 0) eqn:E0; [lia|]. rewrite Hc. unfold bind. rewrite Hu. cbv zeta.
  apply existsb_eqb_In in Hi. rewrite Hi. reflexivity.
Qed.

(* and the 17th recorded target stops it with MaxRecursion *)
Theorem rec_loop_maxrec f main nm recs len s b s1 :
  len <> 0 -> is_compressed len = true -> u8 s = DOk b s1 -> ~ In (ptr_offset len b) recs ->
  16 <= lenN recs ->
  rec_loop (S f) main nm recs len s = DErr (EMaxRecursion, [lenN recs + 1]) (d_cost s1).
Proof.
  intros H0 Hc Hu Hi Hr. rewrite rec_loop_S.
  destruct (len =? 0) eqn:E0; [lia|]. rewrite Hc. unfold bind. rewrite Hu. cbv zeta.
  destruct (existsb (N.eqb (ptr_offset len b)) recs) eqn:E1; [apply existsb_eqb_In in E1; contradiction|].
  rewrite OP_dec_maxrec_val, MAXREC_val, lenN_cons. cbn [cmp_apply].
  destruct (16 <? lenN recs + 1) eqn:E2; [reflexivity|lia].
Qed.

(* the hypotheses are satisfiable: the top-level decoder state, and every jump target *)
Lemma states_ok : forall main off c,
  bytes_ok main -> lenN main < WFMAX ->
  (dst_wf (mk_main main) /\ views main (mk_main main) 0) /\
  (off < WFMAX -> dst_wf (jump main off c) /\ views main (jump main off c) off).
Proof.
  intros main off c Hb Hm. split; [split; [apply mk_main_wf; assumption|apply mk_main_views]|].
  intro Ho. split; [apply jump_wf; assumption|apply jump_views].
Qed.

Lemma wf_preserved :
  (forall n s b s', dst_wf s -> read n s = DOk b s' -> dst_wf s') /\
  (forall s b s', dst_wf s -> u8 s = DOk b s' -> dst_wf s') /\
  (forall nm len s nm' l s', dst_wf s -> domain_name_label nm len s = DOk (nm', l) s' -> dst_wf s').
Proof.
  split; [|split].
  - intros n s b s' W E. apply (read_preserves_wf _ _ _ _ W E).
  - intros s b s' W E. apply (u8_preserves_wf _ _ _ W E).
  - intros nm len s nm' l s' W E. apply (domain_name_label_preserves_wf _ _ _ _ _ _ W E).
Qed.
