(* C08, part 4: the output is a sequence of octets.  Every number the encoder writes goes through
   u8b/u16b/u32b/u64b (reduced mod 256 per octet); only raw byte strings of the value are copied
   verbatim, so they alone need the hypothesis "every octet < 256" ([dns_bytes_ok]). *)
From DNS Require Import Model.Dec Model.Enc Proofs.ListN Proofs.EncTotal.
Require Import ZArith ZifyBool ZifyN ZifyNat.
Local Open Scope N_scope.
Ltac Zify.zify_post_hook ::= Z.div_mod_to_equations.

(* ---- the hypothesis on values ---- *)
Definition name_bytes_ok (n : name) : Prop := Forall bytes_ok n.
Definition fv_bytes_ok (v : fv) : Prop :=
  match v with
  | VN _ => True
  | VName n => name_bytes_ok n
  | VBytes b => bytes_ok b
  | VStrs l => Forall bytes_ok l
  | VOptStr o => match o with Some s => bytes_ok s | None => True end
  end.
Definition opt_bytes_ok (o : ednsopt) : Prop :=
  match o with
  | OEcs e => bytes_ok (a_oct (e_addr e))
  | OCookie c => bytes_ok (c_client c) /\ match c_server c with Some s => bytes_ok s | None => True end
  | OPadding _ => True
  end.
Definition param_bytes_ok (p : svcparam) : Prop :=
  match p with
  | PAlpn ids => Forall bytes_ok ids
  | PEch b => bytes_ok b
  | PIpv6Hint h => Forall bytes_ok h
  | PPrivate _ d => bytes_ok d
  | _ => True
  end.
Definition apitem_bytes_ok (i : apitem) : Prop := bytes_ok (a_oct (i_addr i)).
Definition rdata_bytes_ok (d : rdata) : Prop :=
  match d with
  | RFields vals => Forall fv_bytes_ok vals
  | ROpt _ _ _ _ opts => Forall opt_bytes_ok opts
  | RApl items => Forall apitem_bytes_ok items
  | RSvcb _ target params => name_bytes_ok target /\ Forall param_bytes_ok params
  end.
Definition rr_bytes_ok (r : rr) : Prop := name_bytes_ok (r_name r) /\ rdata_bytes_ok (r_data r).
Definition question_bytes_ok (q : question) : Prop := name_bytes_ok (q_name q).
Definition dns_bytes_ok (m : dns) : Prop :=
  Forall question_bytes_ok (m_qd m) /\ Forall rr_bytes_ok (m_an m) /\
  Forall rr_bytes_ok (m_ns m) /\ Forall rr_bytes_ok (m_ar m).

(* ---- octet facts ---- *)
Lemma u8b_ok n : bytes_ok (u8b n).
Proof. unfold u8b, bytes_ok. constructor; [unfold is_byte; lia|constructor]. Qed.
Lemma u16b_ok n : bytes_ok (u16b n).
Proof. unfold u16b, bytes_ok. repeat (constructor; [unfold is_byte; lia|]). constructor. Qed.
Lemma u32b_ok n : bytes_ok (u32b n).
Proof. unfold u32b, bytes_ok. repeat (constructor; [unfold is_byte; lia|]). constructor. Qed.
Lemma u64b_ok n : bytes_ok (u64b n).
Proof. unfold u64b. apply Forall_app. split; apply u32b_ok. Qed.
Lemma zeros_ok k : bytes_ok (zeros k).
Proof. induction k as [|k IH]; cbn [zeros]; constructor; [unfold is_byte; lia|exact IH]. Qed.
Lemma Forall_firstn_ {A} (P : A -> Prop) l : Forall P l -> forall n, Forall P (firstn n l).
Proof. induction 1 as [|x l Hx _ IH]; intros [|n]; cbn [firstn]; constructor; auto. Qed.
Lemma Forall_skipn_ {A} (P : A -> Prop) l : Forall P l -> forall n, Forall P (skipn n l).
Proof. induction 1 as [|x l Hx Hl IH]; intros [|n]; cbn [skipn]; auto. Qed.
Lemma patch_ok i b buf : bytes_ok b -> bytes_ok buf -> bytes_ok (patch i b buf).
Proof.
  intros Hb H. unfold patch, bytes_ok. apply Forall_app. split; [apply Forall_firstn_; exact H|].
  apply Forall_app. split; [exact Hb|apply Forall_skipn_; exact H].
Qed.

(* ---- the predicate: [m] keeps the buffer a sequence of octets ---- *)
Definition bok {A} (m : EM A) : Prop :=
  forall s, bytes_ok (e_buf s) -> match m s with EOk _ s' => bytes_ok (e_buf s') | _ => True end.

Lemma bok_pointwise {A} (m m' : EM A) : (forall s, m s = m' s) -> bok m -> bok m'.
Proof. intros E H s. rewrite <- E. apply H. Qed.
Lemma bok_ret {A} (a : A) : bok (eret a). Proof. intros s H. exact H. Qed.
Lemma bok_fail {A} e : bok (@efail A e). Proof. intros s H. exact I. Qed.
Lemma bok_ill {A} : bok (fun _ : est => @EIllTyped A). Proof. intros s H. exact I. Qed.
Lemma bok_panic {A} x : bok (fun _ : est => @EPanic A x). Proof. intros s H. exact I. Qed.
Lemma bok_bind {A B} (m : EM A) (f : A -> EM B) : bok m -> (forall a, bok (f a)) -> bok (ebind m f).
Proof.
  intros Hm Hf s H. unfold ebind. specialize (Hm s H). destruct (m s) as [a s1|e|x|]; try exact I.
  apply Hf. exact Hm.
Qed.
Lemma bok_put b : bytes_ok b -> bok (put b).
Proof. intros Hb s H. cbn [put e_buf]. apply Forall_app. split; assumption. Qed.
Lemma bok_eu8 n : bok (eu8 n). Proof. apply bok_put, u8b_ok. Qed.
Lemma bok_eu16 n : bok (eu16 n). Proof. apply bok_put, u16b_ok. Qed.
Lemma bok_eu32 n : bok (eu32 n). Proof. apply bok_put, u32b_ok. Qed.
Lemma bok_eu64 n : bok (eu64 n). Proof. apply bok_put, u64b_ok. Qed.
Lemma bok_buf_len : bok buf_len. Proof. intros s H. exact H. Qed.
Lemma bok_if {A} (b : bool) (x y : EM A) : bok x -> bok y -> bok (if b then x else y).
Proof. destruct b; auto. Qed.
Lemma bok_get_offset : bok get_offset.
Proof. unfold get_offset. apply bok_bind; [apply bok_buf_len|]. intros n. apply bok_if; [apply bok_ret|apply bok_fail]. Qed.
Lemma bok_estring b : bytes_ok b -> bok (estring b).
Proof.
  intros Hb. unfold estring. cbv zeta. apply bok_if; [apply bok_fail|].
  apply bok_bind; [apply bok_eu8|]. intros _. apply bok_put. exact Hb.
Qed.
Lemma bok_emap {A} (P : A -> Prop) (f : A -> EM unit) l : (forall x, P x -> bok (f x)) -> Forall P l -> bok (emap f l).
Proof.
  intros Hf. induction 1 as [|x r Hx _ IH]; cbn [emap]; [apply bok_ret|].
  apply bok_bind; [apply Hf; exact Hx|]. intros _. exact IH.
Qed.
Lemma bok_emap_all {A} (f : A -> EM unit) l : (forall x, bok (f x)) -> bok (emap f l).
Proof. intros H. apply (bok_emap (fun _ => True)); [intros x _; apply H|]. apply Forall_forall. intros; exact I. Qed.
Lemma bok_set_u16 v i : bok (set_u16 v i).
Proof.
  intros s H. unfold set_u16. cbv zeta. destruct (i + 2 - 1 <? lenN (e_buf s)); [|exact I].
  cbn [e_buf]. apply patch_ok; [apply u16b_ok|exact H].
Qed.
Lemma bok_set_u8 v i : bok (set_u8 v i).
Proof.
  intros s H. unfold set_u8. cbv zeta. destruct (i + 1 - 1 <? lenN (e_buf s)); [|exact I].
  cbn [e_buf]. apply patch_ok; [apply u8b_ok|exact H].
Qed.
Lemma bok_create_length_index : bok create_length_index.
Proof. unfold create_length_index. apply bok_bind; [apply bok_buf_len|]. intros i. apply bok_bind; [apply bok_eu16|]. intros _. apply bok_ret. Qed.
Lemma bok_set_length_index li : bok (set_length_index li).
Proof.
  unfold set_length_index. apply bok_bind; [apply bok_buf_len|]. intros len.
  apply bok_if; [apply bok_panic|]. cbv zeta. apply bok_if; [apply bok_set_u16|apply bok_fail].
Qed.
Lemma bok_set_address_length_index neg ali : bok (set_address_length_index neg ali).
Proof.
  unfold set_address_length_index. apply bok_bind; [apply bok_buf_len|]. intros len.
  apply bok_if; [apply bok_panic|]. cbv zeta.
  apply bok_if; [|apply bok_fail]. apply bok_if; [apply bok_set_u8|apply bok_fail].
Qed.

Create HintDb bokdb.
#[export] Hint Resolve bok_ret bok_fail bok_ill bok_panic bok_put bok_eu8 bok_eu16 bok_eu32 bok_eu64
  bok_buf_len bok_get_offset bok_estring bok_emap_all bok_create_length_index bok_set_length_index
  bok_set_address_length_index zeros_ok Forall_nil : bokdb.

Ltac bok_go :=
  lazymatch goal with
  | |- bok (ebind _ _) => apply bok_bind; [bok_go|intros ?; bok_go]
  | |- bok (if ?b then _ else _) => destruct b; bok_go
  | |- bok (match ?o with Some _ => _ | None => _ end) => destruct o; bok_go
  | |- _ => solve [auto with bokdb]
  end.

(* ---- names ---- *)
Lemma bok_compress n : bok (compress n).
Proof.
  intros s H. unfold compress. destruct (idx_lookup n (e_idx s)) as [[i r]|]; [|exact H].
  destruct (cmp_apply OP_compress_offset ENC_MAX_OFFSET i); [exact I|].
  destruct (cmp_apply OP_compress_rec r DOMAIN_NAME_MAX_RECURSION); [exact H|].
  apply (bok_bind (eu16 (N.lor ENC_COMPRESSION_BITS i)) (fun _ => eret (Some r))); auto with bokdb.
Qed.
Lemma bok_elabel l : bytes_ok l -> bok (elabel l).
Proof. intros H. unfold elabel. bok_go. Qed.
Lemma bok_merge_index local r : bok (merge_index local r).
Proof. intros s H. unfold merge_index. destruct (cmp_apply OP_merge_rec r DOMAIN_NAME_MAX_RECURSION); [exact I|exact H]. Qed.
Lemma bok_enc_name_loop labels : name_bytes_ok labels -> forall local, bok (enc_name_loop labels local).
Proof.
  induction 1 as [|l rest Hl _ IH]; intros local; cbn [enc_name_loop].
  - apply bok_bind; [apply bok_estring; constructor|]. intros _. apply bok_merge_index.
  - apply bok_bind; [apply bok_compress|]. intros [r|]; [apply bok_merge_index|].
    apply bok_bind; [apply bok_elabel; exact Hl|]. intros index. apply IH.
Qed.
Lemma bok_enc_domain_name n : name_bytes_ok n -> bok (enc_domain_name n).
Proof.
  intros H. unfold enc_domain_name. apply bok_bind; [intros s Hs; exact Hs|]. intros _.
  apply bok_enc_name_loop. exact H.
Qed.
Lemma bok_enc_root : bok (enc_domain_name []).
Proof. apply bok_enc_domain_name. constructor. Qed.

(* ---- addresses: the writer copies a prefix of the address octets ---- *)
Lemma bytes_ok_takeN_ (n : N) (l : bytes) : bytes_ok l -> bytes_ok (takeN n l).
Proof.
  intros H. unfold takeN. rewrite <- (firstn_skipn (N.to_nat n) l) in H. apply Forall_app in H. apply H.
Qed.
Lemma bok_rr_address_with_length a m : bytes_ok (a_oct a) -> bok (rr_address_with_length a m).
Proof.
  intros H. apply (bok_pointwise (put (takeN (N.max (addr_significant (a_oct a)) m) (a_oct a)))).
  - intros s. symmetry. apply rr_address_with_length_eq.
  - apply bok_put. apply bytes_ok_takeN_. exact H.
Qed.
#[export] Hint Resolve bok_enc_domain_name bok_enc_root bok_rr_address_with_length : bokdb.

(* ---- fields ---- *)
Lemma bok_write_field k o : (forall v, o = Some v -> fv_bytes_ok v) -> bok (write_field k o).
Proof.
  intros H. destruct o as [v|].
  - specialize (H v eq_refl).
    destruct k; destruct v as [n|n|b|l|[o|]]; cbn [fv_bytes_ok] in H; unfold write_field; auto with bokdb.
    apply (bok_emap bytes_ok); [apply bok_estring|exact H].
  - destruct k; unfold write_field; auto with bokdb.
Qed.
Lemma assoc_in nm : forall ns vs v, assoc nm ns vs = Some v -> In v vs.
Proof.
  induction ns as [|n ns IH]; intros [|x vs] v; cbn [assoc]; try discriminate.
  destruct (String.eqb nm n); [intros E; inversion E; left; reflexivity|].
  intros E. right. eapply IH. exact E.
Qed.
Lemma bok_write_fields names vals f : Forall fv_bytes_ok vals -> bok (write_fields names vals f).
Proof.
  intros Hv. induction f as [|[nm k] r IH]; cbn [write_fields]; [apply bok_ret|].
  apply bok_bind; [|intros _; exact IH]. apply bok_write_field.
  intros v Ha. apply assoc_in in Ha. exact (proj1 (Forall_forall _ _) Hv v Ha).
Qed.
#[export] Hint Resolve bok_write_fields : bokdb.

Lemma bok_enc_edns_option o : opt_bytes_ok o -> bok (enc_edns_option o).
Proof.
  destruct o as [e|c|n]; cbn [opt_bytes_ok]; intros H; unfold enc_edns_option.
  - unfold enc_ecs. bok_go.
  - destruct H as [H1 H2]. unfold enc_cookie. destruct (c_server c); bok_go.
  - unfold enc_padding. bok_go.
Qed.
Lemma bok_enc_apitem i : apitem_bytes_ok i -> bok (enc_apitem i).
Proof. unfold apitem_bytes_ok. intros H. unfold enc_apitem. bok_go. Qed.
Lemma bok_enc_service_parameter p : param_bytes_ok p -> bok (enc_service_parameter p).
Proof.
  intros H. unfold enc_service_parameter. apply bok_bind; [apply bok_eu16|]. intros _.
  apply bok_bind; [apply bok_create_length_index|]. intros li.
  apply bok_bind; [|intros _; apply bok_set_length_index].
  destruct p; cbn [param_bytes_ok] in H; cbv zeta; try bok_go.
  - apply (bok_emap bytes_ok); [apply bok_estring|exact H].
  - apply (bok_emap bytes_ok); [apply bok_put|exact H].
Qed.

Lemma bok_enc_rr r : rr_bytes_ok r -> bok (enc_rr r).
Proof.
  intros [Hn Hd]. unfold enc_rr. destruct (lookup (r_type r) enc_dispatch) as [[ec f|sp]|]; [| |apply bok_ill].
  - destruct (r_data r); try apply bok_ill. cbn [rdata_bytes_ok] in Hd. bok_go.
  - destruct sp; destruct (r_data r); try apply bok_ill; cbn [rdata_bytes_ok] in Hd.
    + pose proof (bok_emap _ _ _ bok_enc_edns_option Hd). bok_go.
    + pose proof (bok_emap _ _ _ bok_enc_apitem Hd). bok_go.
    + destruct Hd as [Ht Hp]. pose proof (bok_emap _ _ _ bok_enc_service_parameter Hp). bok_go.
    + destruct Hd as [Ht Hp]. pose proof (bok_emap _ _ _ bok_enc_service_parameter Hp). bok_go.
Qed.
Lemma bok_enc_question q : question_bytes_ok q -> bok (enc_question q).
Proof. unfold question_bytes_ok. intros H. unfold enc_question. bok_go. Qed.
Lemma bok_enc_flags f : bok (enc_flags f).
Proof. unfold enc_flags. bok_go. Qed.
Lemma bok_enc_count {A} (l : list A) : bok (enc_count l).
Proof. unfold enc_count. cbv zeta. bok_go. Qed.
#[export] Hint Resolve bok_enc_flags bok_enc_count : bokdb.

Lemma bok_enc_dns m : dns_bytes_ok m -> bok (enc_dns m).
Proof.
  intros (H1 & H2 & H3 & H4).
  pose proof (bok_emap _ _ _ bok_enc_question H1).
  pose proof (bok_emap _ _ _ bok_enc_rr H2).
  pose proof (bok_emap _ _ _ bok_enc_rr H3).
  pose proof (bok_emap _ _ _ bok_enc_rr H4).
  unfold enc_dns. bok_go.
Qed.

Lemma erun_bytes_ok m b : bok m -> erun m = Ok b -> bytes_ok b.
Proof.
  intros H. unfold erun. specialize (H e_init (Forall_nil _)).
  destruct (m e_init) as [a s'|e|x|]; try discriminate. intros E. inversion E; subst b. exact H.
Qed.

Theorem enc_Dns_bytes_ok m b : dns_bytes_ok m -> enc_Dns m = Ok b -> bytes_ok b.
Proof. intros H. apply erun_bytes_ok, bok_enc_dns. exact H. Qed.
Theorem enc_RR_bytes_ok r b : rr_bytes_ok r -> enc_RR r = Ok b -> bytes_ok b.
Proof. intros H. apply erun_bytes_ok, bok_enc_rr. exact H. Qed.
Theorem enc_Question_bytes_ok q b : question_bytes_ok q -> enc_Question q = Ok b -> bytes_ok b.
Proof. intros H. apply erun_bytes_ok, bok_enc_question. exact H. Qed.
Theorem enc_Flags_bytes_ok f b : enc_Flags f = Ok b -> bytes_ok b.
Proof. apply erun_bytes_ok, bok_enc_flags. Qed.
Theorem enc_DomainName_bytes_ok n b : name_bytes_ok n -> enc_DomainName n = Ok b -> bytes_ok b.
Proof. intros H. apply erun_bytes_ok, bok_enc_domain_name. exact H. Qed.
