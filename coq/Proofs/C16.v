(* C16 — SVCB/HTTPS records follow the RFC 9460 wire rules: the statements of Props/C16.v. *)
From Coq Require Import Sorted Permutation.
From DNS Require Import Model.Dec Model.Enc Proofs.DecBase Proofs.NameLoop Proofs.SvcbSet Proofs.SvcbEnc
                        Proofs.SvcbDec Proofs.SvcbRound Proofs.SvcbReject.
Require Import ZArith ZifyBool ZifyN ZifyNat.
Local Open Scope N_scope.
Ltac Zify.zify_post_hook ::= Z.div_mod_to_equations.

(* ================= 1. the set ================= *)
Lemma C16_set_insert_sorted_proof : forall (p : svcparam) (s : list svcparam),
  keys_sorted s -> keys_sorted (fst (set_insert p s)).
Proof. exact set_insert_sorted. Qed.

Lemma C16_set_insert_duplicate_proof : forall (p : svcparam) (s : list svcparam),
  keys_sorted s ->
  (snd (set_insert p s) = false <-> exists q, In q s /\ param_key q = param_key p) /\
  (snd (set_insert p s) = false -> fst (set_insert p s) = s) /\
  (snd (set_insert p s) = true -> Permutation (p :: s) (fst (set_insert p s))).
Proof.
  intros p s H. split; [apply set_insert_dup_iff; exact H|].
  split; [apply set_insert_false_same|apply set_insert_true_perm].
Qed.

Lemma C16_set_built_sorted_proof : forall l : list svcparam,
  keys_sorted (set_of l) /\
  StronglySorted N.lt (map param_key (set_of l)) /\
  NoDup (map param_key (set_of l)).
Proof.
  intros l. pose proof (set_of_sorted l) as H.
  split; [exact H|]. split; [apply keys_sorted_map; exact H|apply keys_sorted_NoDup; exact H].
Qed.

(* the decoder builds its set the same way: whatever it returns is strictly sorted *)
Lemma svc_params_sorted (fuel : nat) : forall (acc : list svcparam) (s : dst) (ps : list svcparam) (s' : dst),
  keys_sorted acc -> svc_params fuel acc s = DOk ps s' -> keys_sorted ps.
Proof.
  induction fuel as [|f IH]; intros acc s ps s' Hs H; [discriminate|].
  rewrite svc_params_S in H.
  apply bind_inv in H. destruct H as (fin & s1 & _ & H).
  destruct fin.
  - apply ret_inv in H. subst ps. exact Hs.
  - apply bind_inv in H. destruct H as (key & s2 & _ & H).
    apply bind_inv in H. destruct H as (len & s3 & _ & H).
    apply bind_inv in H. destruct H as (p & s4 & _ & H).
    pose proof (set_insert_sorted p acc Hs) as Hs'.
    destruct (set_insert p acc) as [acc' ins]. cbn [fst] in Hs'.
    destruct ins; [|discriminate]. eapply IH; [exact Hs'|exact H].
Qed.

Lemma C16_decoded_sorted_proof : forall (main : bytes) (hclass : N) (s : dst) (prio : N) (t : name)
                                        (ps : list svcparam) (s' : dst),
  rr_service_binding main hclass s = DOk (RSvcb prio t ps) s' ->
  keys_sorted ps /\ (prio = 0 -> ps = []).
Proof.
  intros main hclass s prio t ps s' H. unfold rr_service_binding in H.
  apply bind_inv in H. destruct H as (c & s1 & _ & H).
  apply bind_inv in H. destruct H as (priority & s2 & _ & H).
  apply bind_inv in H. destruct H as (target & s3 & _ & H).
  destruct (priority =? 0) eqn:E; cbn [negb] in H.
  - apply ret_inv in H. injection H as <- <- <-. split; [apply keys_sorted_nil|reflexivity].
  - apply bind_inv in H. destruct H as (fuel & s4 & _ & H).
    apply bind_inv in H. destruct H as (l & s5 & Hl & H).
    apply ret_inv in H. injection H as <- <- <-.
    split; [eapply svc_params_sorted; [apply keys_sorted_nil|exact Hl]|lia].
Qed.

(* ================= 2. emission ================= *)
Lemma C16_emit_trace_proof : forall (ps : list svcparam) (s : est),
  emap enc_service_parameter ps s =
  match params_err ps with
  | Some e => EErr e
  | None => EOk tt (with_buf s (e_buf s ++ concat (map param_wire ps)))
  end.
Proof. exact emap_param_trace. Qed.

Lemma C16_emit_param_trace_proof : forall (p : svcparam) (s : est),
  enc_service_parameter p s =
  match param_err p with
  | Some e => EErr e
  | None => EOk tt (with_buf s (e_buf s ++ param_wire p))
  end.
Proof. exact enc_param_trace. Qed.

Lemma C16_emit_fails_iff_proof : forall (ps : list svcparam) (s : est),
  ((exists s', emap enc_service_parameter ps s = EOk tt s') <-> Forall param_fits ps) /\
  (forall e, emap enc_service_parameter ps s = EErr e ->
     exists p, In p ps /\ ~ param_fits p /\
       ((e = (XLength, [lenN (value_bytes p)]) /\ 65535 < lenN (value_bytes p)) \/
        (exists cl, p = PEch cl /\ e = (XLength, [lenN cl]) /\ 65535 < lenN cl) \/
        (exists ids b, p = PAlpn ids /\ In b ids /\ e = (XString, [lenN b]) /\ 255 < lenN b))) /\
  (forall x, emap enc_service_parameter ps s <> EPanic x) /\
  emap enc_service_parameter ps s <> EIllTyped.
Proof.
  intros ps s. rewrite emap_param_trace.
  destruct (params_err ps) as [e0|] eqn:E.
  - split.
    { split; [intros [s' H]; discriminate|]. intros H. apply params_err_none_iff in H. congruence. }
    split; [|split; [intros x H; discriminate|discriminate]].
    intros e H. injection H as <-.
    destruct (params_err_some _ _ E) as (p & Hin & Hp). exists p. split; [exact Hin|].
    split; [intros Hf; apply param_err_none_iff in Hf; congruence|].
    apply param_err_some. exact Hp.
  - split.
    { split; [intros _; apply params_err_none_iff; exact E|intros _; eexists; reflexivity]. }
    split; [intros e H; discriminate|]. split; [intros x H; discriminate|discriminate].
Qed.

Lemma C16_emit_sorted_proof : forall (ps : list svcparam) (s s' : est),
  keys_sorted ps -> emap enc_service_parameter ps s = EOk tt s' ->
  e_buf s' = e_buf s ++ concat (map param_wire ps) /\
  (forall p, In p ps -> param_wire p = u16b (param_key p) ++ u16b (lenN (value_bytes p)) ++ value_bytes p) /\
  StronglySorted N.lt (map param_key ps) /\ NoDup (map param_key ps).
Proof.
  intros ps s s' Hs H. destruct (emap_param_ok_inv _ _ _ H) as [_ ->].
  split; [reflexivity|]. split; [reflexivity|].
  split; [apply keys_sorted_map; exact Hs|apply keys_sorted_NoDup; exact Hs].
Qed.

Lemma C16_emit_mandatory_sorted_proof : forall l : list N,
  value_bytes (PMandatory l) = concat (map u16b (sort_keys l)) /\
  Sorted N.le (sort_keys l) /\ Permutation l (sort_keys l).
Proof. intros l. split; [reflexivity|]. split; [apply sort_keys_sorted|apply sort_keys_perm]. Qed.

Lemma C16_emit_ech_prefixed_proof : forall (cl : bytes) (s s' : est),
  enc_service_parameter (PEch cl) s = EOk tt s' ->
  e_buf s' = e_buf s ++ u16b 5 ++ u16b (2 + lenN cl) ++ u16b (lenN cl) ++ cl /\ lenN cl <= 65533.
Proof.
  intros cl s s' H. rewrite enc_param_trace in H.
  destruct (param_err (PEch cl)) as [e|] eqn:E; [discriminate|]. injection H as <-.
  apply param_err_none_iff in E. destruct E as [_ E]. cbn [value_bytes] in E.
  rewrite lenN_app in E. change (lenN (u16b (lenN cl))) with 2 in E.
  split; [|lia]. rewrite with_buf_buf. unfold param_wire. cbn [param_key value_bytes].
  rewrite lenN_app. reflexivity.
Qed.

Lemma C16_emit_alias_no_params_proof : forall (r : rr) (target : name) (params : list svcparam),
  r_type r = 64 \/ r_type r = 65 -> r_data r = RSvcb 0 target params ->
  enc_rr r =
  (_ <-- enc_domain_name (r_name r) ;;
   _ <-- eu16 (r_type r) ;;
   _ <-- eu16 CLASS_IN ;;
   _ <-- eu32 (r_ttl r) ;;
   li <-- create_length_index ;;
   _ <-- eu16 0 ;;
   _ <-- enc_domain_name target ;;
   _ <-- eret tt ;;
   set_length_index li).
Proof. intros r target params Ht Hd. exact (enc_rr_alias r target params Ht Hd). Qed.

(* ================= 3. formats ================= *)
Lemma C16_param_roundtrip_proof : forall p : svcparam, param_valid p ->
  reads (rr_service_parameter (param_key p)) (value_bytes p) [] (norm p).
Proof. exact param_roundtrip. Qed.

Lemma C16_param_wire_roundtrip_proof : forall (p : svcparam) (r : bytes),
  param_valid p -> lenN (value_bytes p) <= 65535 ->
  reads (key <- u16 ;; len <- u16 ;; with_sub len (rr_service_parameter key)) (param_wire p) r (norm p).
Proof. intros p r Hv Hl. apply param_wire_roundtrip. split; assumption. Qed.

Lemma C16_list_roundtrip_proof : forall (ps : list svcparam) (es es' : est),
  keys_sorted ps -> Forall param_valid ps ->
  emap enc_service_parameter ps es = EOk tt es' ->
  exists w : bytes,
    e_buf es' = e_buf es ++ w /\
    (lenN w < WFMAX -> forall c : N, exists c' : N,
       (fuel <- loop_fuel ;; svc_params fuel []) (win w c) =
       DOk (map norm ps) (mkst [] (lenN w) (lenN w) c')).
Proof.
  intros ps es es' Hs Hv H. destruct (emap_param_ok_inv _ _ _ H) as [Hf ->].
  exists (concat (map param_wire ps)). split; [reflexivity|]. intros Hl c.
  assert (Forall param_ok ps) as Hok.
  { rewrite Forall_forall in *. intros p Hp. apply param_fits_ok; [apply Hv|apply Hf]; exact Hp. }
  exact (svc_params_roundtrip_fuel ps (win _ c) Hok Hs (win_wst _ c Hl) eq_refl).
Qed.

(* re-encoding what was decoded gives the same octets *)
Lemma C16_norm_stable_proof : forall p : svcparam,
  norm (norm p) = norm p /\ param_wire (norm p) = param_wire p /\ param_key (norm p) = param_key p.
Proof.
  intros p. split; [apply norm_idem|]. split; [|apply norm_key].
  unfold param_wire. rewrite norm_key, norm_value_bytes. reflexivity.
Qed.

(* ================= 4. rejections ================= *)
Lemma C16_reject_duplicate_proof :
  forall (f : nat) (acc : list svcparam) (s s1 s2 s3 : dst) (key len : N) (p : svcparam),
  keys_sorted acc ->
  is_finished s = DOk false s -> u16 s = DOk key s1 -> u16 s1 = DOk len s2 ->
  with_sub len (rr_service_parameter key) s2 = DOk p s3 ->
  (exists q, In q acc /\ param_key q = key) ->
  svc_params (S f) acc s = DErr (ESVCBDuplicateKey, [key]) (d_cost s3).
Proof. exact svc_params_dup. Qed.

Lemma C16_reject_duplicate_wire_proof :
  forall (ps : list svcparam) (p : svcparam) (r : bytes) (fuel : nat) (s : dst),
  Forall param_ok ps -> keys_sorted ps -> param_ok p ->
  (exists q, In q ps /\ param_key q = param_key p) ->
  wst s -> d_rest s = concat (map param_wire (ps ++ [p])) ++ r -> (length ps < fuel)%nat ->
  exists c : N, svc_params fuel [] s = DErr (ESVCBDuplicateKey, [param_key p]) c.
Proof. exact svc_params_dup_wire. Qed.

(* lifting a rejection of every window of length n through with_sub *)
Lemma with_sub_rejects {A} (n : N) (m : DM A) (s : dst) (P : err -> Prop) :
  wst s -> n <= lenN (d_rest s) ->
  (forall (b : bytes) (c : N), lenN b = n -> lenN b < WFMAX ->
     exists e c', sub_run m (win b c) = DErr e c' /\ P e) ->
  exists e c', with_sub n m s = DErr e c' /\ P e.
Proof.
  intros W Hn H. rewrite (with_sub_window n m s W Hn).
  destruct (with_sub_window_len n s W Hn) as [H1 H2].
  destruct (H (takeN n (d_rest s)) (d_cost s + n) H1 ltac:(lia)) as (e & c' & E & HP).
  exists e, c'. rewrite E. split; [reflexivity|exact HP].
Qed.

Lemma C16_reject_port_length_proof : forall (n : N) (s : dst),
  wst s -> n <= lenN (d_rest s) -> n <> 2 ->
  exists e c, with_sub n (rr_service_parameter 3) s = DErr e c /\
    ((n < 2 /\ e = (ENotEnoughBytes, [n; 2])) \/ (2 < n /\ e = (ETooManyBytes, [n; 2]))).
Proof.
  intros n s W Hn Hne. apply with_sub_rejects; [exact W|exact Hn|].
  intros b c Hb Hw. destruct (N.lt_ge_cases n 2) as [Hlt|Hge].
  - eexists. eexists. split; [apply reject_port_short; lia|]. left. split; [exact Hlt|rewrite Hb; reflexivity].
  - eexists. eexists. split; [apply reject_port_long; lia|]. right. split; [lia|rewrite Hb; reflexivity].
Qed.

Lemma C16_reject_hint_length_proof : forall (n : N) (s : dst),
  wst s -> n <= lenN (d_rest s) ->
  (n mod 4 <> 0 -> exists e c, with_sub n (rr_service_parameter 4) s = DErr e c /\ fst e = ENotEnoughBytes) /\
  (n mod 16 <> 0 -> exists e c, with_sub n (rr_service_parameter 6) s = DErr e c /\ fst e = ENotEnoughBytes) /\
  (n mod 2 <> 0 -> exists e c, with_sub n (rr_service_parameter 0) s = DErr e c /\ fst e = ENotEnoughBytes).
Proof.
  intros n s W Hn.
  split; [|split]; intros Hm; (apply with_sub_rejects; [exact W|exact Hn|]); intros b c Hb Hw.
  - destruct (reject_ipv4hint b c Hw ltac:(rewrite Hb; exact Hm)) as (l & c' & E).
    exists (ENotEnoughBytes, l), c'. split; [exact E|reflexivity].
  - destruct (reject_ipv6hint b c Hw ltac:(rewrite Hb; exact Hm)) as (l & c' & E).
    exists (ENotEnoughBytes, l), c'. split; [exact E|reflexivity].
  - destruct (reject_mandatory_odd b c Hw ltac:(rewrite Hb; exact Hm)) as (l & c' & E).
    exists (ENotEnoughBytes, l), c'. split; [exact E|reflexivity].
Qed.

Lemma C16_reject_flag_value_proof : forall (n : N) (s : dst),
  wst s -> n <= lenN (d_rest s) -> n <> 0 ->
  (exists c, with_sub n (rr_service_parameter 2) s = DErr (ETooManyBytes, [n; 0]) c) /\
  (exists c, with_sub n (rr_service_parameter 65535) s = DErr (ETooManyBytes, [n; 0]) c).
Proof.
  intros n s W Hn Hne.
  assert (forall b : bytes, lenN b = n -> b <> []) as Hb.
  { intros b Hl ->. apply Hne. rewrite <- Hl. reflexivity. }
  split.
  - destruct (with_sub_rejects n (rr_service_parameter 2) s (fun e => e = (ETooManyBytes, [n; 0])) W Hn) as (e & c & E & ->).
    + intros b c Hl _. eexists. eexists. split; [apply reject_nodefaultalpn_value; apply Hb; exact Hl|].
      rewrite Hl. reflexivity.
    + exists c. exact E.
  - destruct (with_sub_rejects n (rr_service_parameter 65535) s (fun e => e = (ETooManyBytes, [n; 0])) W Hn) as (e & c & E & ->).
    + intros b c Hl _. eexists. eexists. split; [apply reject_key65535_value; apply Hb; exact Hl|].
      rewrite Hl. reflexivity.
    + exists c. exact E.
Qed.

Lemma C16_reject_ech_length_proof : forall (b : bytes) (c : N),
  lenN b < WFMAX ->
  (lenN b < 2 -> sub_run (rr_service_parameter 5) (win b c) = DErr (ENotEnoughBytes, [lenN b; 2]) c) /\
  (2 <= lenN b -> be (takeN 2 b) <> lenN b - 2 ->
     exists c', sub_run (rr_service_parameter 5) (win b c) =
                DErr (EECHLengthMismatch, [be (takeN 2 b); lenN b - 2]) c').
Proof.
  intros b c Hw. split; [apply reject_ech_short|]. intros H Hne. apply reject_ech_mismatch; assumption.
Qed.

Lemma C16_reject_alpn_overrun_proof : forall (ids : list bytes) (l : N) (rest : bytes) (c : N),
  Forall (fun b : bytes => utf8_valid b = true /\ lenN b <= 255) ids ->
  lenN rest < l -> l < 256 -> lenN (alpn_wire ids ++ l :: rest) < WFMAX ->
  exists c', sub_run (rr_service_parameter 1) (win (alpn_wire ids ++ l :: rest) c) =
             DErr (ENotEnoughBytes, [lenN (alpn_wire ids ++ l :: rest); lenN (alpn_wire ids) + 1 + l]) c'.
Proof. exact reject_alpn_overrun. Qed.

Lemma C16_reject_class_proof : forall (main : bytes) (c : N) (s : dst), c <> 1 ->
  (in_table Class_table c = true -> rr_service_binding main c s = DErr (ESVCBClass, [c]) (d_cost s)) /\
  (in_table Class_table c = false -> rr_service_binding main c s = DErr (EClass, [c]) (d_cost s)).
Proof.
  intros main c s Hc. split; intros Ht; [apply reject_class; assumption|apply reject_class_unknown; exact Ht].
Qed.

Lemma C16_reject_alias_trailing_proof : forall (main : bytes) (s s1 s2 : dst) (t : name),
  u16 s = DOk 0 s1 -> domain_name main s1 = DOk t s2 -> d_off s2 < d_len s2 ->
  sub_run (rr_service_binding main CLASS_IN) s = DErr (ETooManyBytes, [d_len s2; d_off s2]) (d_cost s2).
Proof. exact reject_alias_trailing. Qed.
