(* C04 (renderings) — SVCB / HTTPS: the registered value formats, one parameter, the parameter set written
   in any order, and the RDATA in AliasMode and ServiceMode. *)
From Coq Require Import Sorted Permutation ZArith ZifyBool ZifyN ZifyNat.
From DNS Require Import Model.Dec Model.Enc Spec.Names Spec.Iana Spec.Wire Spec.Render
  Proofs.ListN Proofs.DecBase Proofs.Enum Proofs.SvcbSet Proofs.CorrFields Proofs.CorrSvcb Proofs.CorrRecord
  Proofs.RtBase Proofs.RtPrim Proofs.RtFields Proofs.RtRecord Proofs.RtSpecial
  Proofs.RenderBase Proofs.RenderName Proofs.RenderFields Proofs.RenderRecord Proofs.RenderSpecial.
Local Open Scope N_scope.
Ltac Zify.zify_post_hook ::= Z.div_mod_to_equations.

(* ---- lists of fixed-format items ---- *)
Lemma map_items {A} (p : P A) (f : A -> bytes) (l : list A) :
  (forall x, In x l -> cf p (f x) x /\ f x <> [] /\ bytes_ok (f x)) ->
  Forall2 (fun w v => cf p w v /\ w <> []) (map f l) l /\ bytes_ok (concat (map f l)).
Proof.
  induction l as [|x l IH]; intros H; cbn [map concat]; [split; [constructor|apply bytes_ok_nil]|].
  destruct (H x (or_introl eq_refl)) as (H1 & H2 & H3).
  destruct IH as [I1 I2]; [intros y Hy; apply H; right; exact Hy|].
  split; [constructor; [split; assumption|exact I1]|apply bytes_ok_app; assumption].
Qed.

Lemma be16_ne (v : N) : be16 v <> []. Proof. discriminate. Qed.
Lemma be32_ne (v : N) : be32 v <> []. Proof. discriminate. Qed.

(* ---- the value of every parameter kind (RFC 9460 7, 8, 14.3) ---- *)
Lemma param_value_acc (p : svcparam) (pre : bytes) : param_wfb p = true ->
  bytes_ok (param_value p) /\ acc true (svc_value (param_key p)) pre (param_value p) p.
Proof.
  destruct p as [keys|ids| |port|h|cl|h|n d| ]; cbn [param_wfb param_value param_key]; intros H.
  - (* mandatory *)
    destruct (map_items (num 2) be16 keys) as [I1 I2].
    { intros k Hk. rewrite forallb_forall in H. specialize (H k Hk).
      split; [intro pre'; apply acc_num2; lia|]. split; [apply be16_ne|apply be16_ok; lia]. }
    split; [exact I2|]. unfold svc_value. change (0 =? 0) with true. cbv iota.
    apply (acc_bind_last' true (many_to_end (num 2)) _ pre _ keys); [apply acc_many; exact I1|apply acc_ret].
  - (* alpn *)
    destruct (strs_items ids H) as [I1 I2].
    split; [apply bytes_ok_concat; exact I2|]. unfold svc_value. cbn [N.eqb Pos.eqb].
    apply (acc_bind_last' true (many_to_end charstr) _ pre _ ids); [apply acc_many; exact I1|apply acc_ret].
  - (* no-default-alpn *)
    split; [apply bytes_ok_nil|]. unfold svc_value. cbn [N.eqb Pos.eqb]. apply acc_ret.
  - (* port *)
    split; [apply be16_ok; lia|]. unfold svc_value. cbn [N.eqb Pos.eqb].
    apply (acc_bind_last' true (num 2) _ pre _ port); [apply acc_end, acc_num2; lia|apply acc_ret].
  - (* ipv4hint *)
    destruct (map_items (num 4) be32 h) as [I1 I2].
    { intros k Hk. rewrite forallb_forall in H. specialize (H k Hk).
      split; [intro pre'; apply acc_num4; lia|]. split; [apply be32_ne|apply be32_ok; lia]. }
    split; [exact I2|]. unfold svc_value. cbn [N.eqb Pos.eqb].
    apply (acc_bind_last' true (many_to_end (num 4)) _ pre _ h); [apply acc_many; exact I1|apply acc_ret].
  - (* ech *)
    apply andb_true_iff in H. destruct H as [H1 H2]. apply bytes_okb_ok in H2.
    split; [apply bytes_ok_app; [apply be16_ok; lia|exact H2]|]. unfold svc_value. cbn [N.eqb Pos.eqb].
    apply (acc_bind true (num 2) _ pre _ _ (lenN cl)); [apply acc_num2; lia|].
    apply (acc_bind_last' true rest _ _ cl cl); [apply acc_rest|]. rewrite N.eqb_refl. apply acc_ret.
  - (* ipv6hint *)
    destruct (map_items (octets 16) (fun x : bytes => x) h) as [I1 I2].
    { intros a Ha. rewrite forallb_forall in H. specialize (H a Ha).
      apply andb_true_iff in H. destruct H as [H1 H2]. apply bytes_okb_ok in H2.
      split; [intro pre'; apply acc_octets; lia|]. split; [|exact H2].
      destruct a; [cbn in H1; discriminate|discriminate]. }
    rewrite map_id in I1, I2.
    split; [exact I2|]. unfold svc_value. cbn [N.eqb Pos.eqb].
    apply (acc_bind_last' true (many_to_end (octets 16)) _ pre _ h); [apply acc_many; exact I1|apply acc_ret].
  - (* unregistered key *)
    apply andb_true_iff in H. destruct H as [H H3]. apply andb_true_iff in H. destruct H as [H1 H2].
    apply bytes_okb_ok in H3. split; [exact H3|]. unfold svc_value.
    assert ((n =? 0) = false) as -> by lia. assert ((n =? 1) = false) as -> by lia.
    assert ((n =? 2) = false) as -> by lia. assert ((n =? 3) = false) as -> by lia.
    assert ((n =? 4) = false) as -> by lia. assert ((n =? 5) = false) as -> by lia.
    assert ((n =? 6) = false) as -> by lia. assert ((n =? 65535) = false) as -> by lia.
    apply (acc_bind_last' true rest _ pre d d); [apply acc_rest|apply acc_ret].
  - (* key 65535 *)
    split; [apply bytes_ok_nil|]. unfold svc_value. cbn [N.eqb Pos.eqb]. apply acc_ret.
Qed.

Lemma param_key_lt (p : svcparam) : param_wfb p = true -> param_key p < 65536.
Proof.
  destruct p as [keys|ids| |port|h|cl|h|n d| ]; cbn [param_wfb param_key]; intros H; try lia.
Qed.

Lemma param_acc (p : svcparam) : param_wfb p = true -> lenN (param_value p) <= 65535 ->
  bytes_ok (Render.param_wire p) /\ cf svc_param (Render.param_wire p) p /\ Render.param_wire p <> [].
Proof.
  intros Hwf Hl. pose proof (param_key_lt p Hwf) as Hk.
  split; [|split; [|discriminate]].
  - destruct (param_value_acc p [] Hwf) as [Hb _]. unfold Render.param_wire.
    apply bytes_ok_app; [apply be16_ok; lia|]. apply bytes_ok_app; [apply be16_ok; lia|exact Hb].
  - intro pre. unfold svc_param, Render.param_wire.
    apply (acc_bind false (num 2) _ _ _ _ (param_key p)); [apply acc_num2; lia|].
    apply (acc_bind false (num 2) _ _ _ _ (lenN (param_value p))); [apply acc_num2; lia|].
    apply acc_within; [reflexivity|]. apply param_value_acc. exact Hwf.
Qed.

(* ---- the set: any order of a key-sorted list is put back in order ---- *)
Lemma insert_ok (p : svcparam) (l : list svcparam) :
  keys_sorted l -> (forall q, In q l -> param_key q <> param_key p) ->
  exists l', insert_by_key p l = Some l' /\ keys_sorted l' /\ Permutation (p :: l) l'.
Proof.
  intros Hs Hn. pose proof (insert_by_key_set_insert p l) as H.
  destruct (insert_by_key p l) as [l'|].
  - exists l'. split; [reflexivity|].
    pose proof (set_insert_sorted p l Hs) as H1. pose proof (set_insert_true_perm p l) as H2.
    rewrite H in H1, H2. cbn [fst snd] in H1, H2. split; [exact H1|apply H2; reflexivity].
  - exfalso. destruct (set_insert_false_exists p l H) as (q & Hq & Hk). exact (Hn q Hq Hk).
Qed.

Lemma as_set_ok : forall (l acc : list svcparam),
  keys_sorted acc -> NoDup (map param_key (l ++ acc)) ->
  exists s, as_set acc l = Some s /\ keys_sorted s /\ Permutation (l ++ acc) s.
Proof.
  induction l as [|p l IH]; intros acc Hs Hn; cbn [as_set app] in *.
  - exists acc. split; [reflexivity|]. split; [exact Hs|apply Permutation_refl].
  - cbn [map] in Hn. inversion Hn as [|k ks Hk Hn']; subst.
    destruct (insert_ok p acc Hs) as (acc' & Hi & Hs' & Hp).
    { intros q Hq E. apply Hk. rewrite <- E. apply in_map. apply in_or_app. right. exact Hq. }
    rewrite Hi.
    assert (Permutation (p :: l ++ acc) (l ++ acc')) as HP.
    { eapply perm_trans; [apply Permutation_middle|]. apply Permutation_app_head. exact Hp. }
    destruct (IH acc' Hs') as (s & Hset & Hss & Hps).
    { apply (Permutation_NoDup (l := map param_key (p :: l ++ acc))); [apply Permutation_map; exact HP|exact Hn]. }
    exists s. split; [exact Hset|]. split; [exact Hss|]. eapply perm_trans; [exact HP|exact Hps].
Qed.

Lemma sorted_perm_eq : forall a b : list svcparam, keys_sorted a -> keys_sorted b -> Permutation a b -> a = b.
Proof.
  induction a as [|x a IH]; intros b Ha Hb Hp.
  - apply Permutation_nil in Hp. congruence.
  - destruct b as [|y b]; [apply Permutation_sym, Permutation_nil in Hp; discriminate|].
    destruct (keys_sorted_cons_inv x a Ha) as [Ha' Hxa]. destruct (keys_sorted_cons_inv y b Hb) as [Hb' Hyb].
    rewrite Forall_forall in Hxa, Hyb.
    assert (x = y) as ->.
    { assert (In x (y :: b)) as H1 by (eapply Permutation_in; [exact Hp|left; reflexivity]).
      assert (In y (x :: a)) as H2 by (eapply Permutation_in; [apply Permutation_sym; exact Hp|left; reflexivity]).
      destruct H1 as [H1|H1]; [congruence|]. destruct H2 as [H2|H2]; [congruence|].
      specialize (Hxa y H2). specialize (Hyb x H1). lia. }
    f_equal. apply IH; [exact Ha'|exact Hb'|]. eapply Permutation_cons_inv. exact Hp.
Qed.

Lemma as_set_perm (ps ps' : list svcparam) : keys_sorted ps -> Permutation ps ps' -> as_set [] ps' = Some ps.
Proof.
  intros Hs Hp. destruct (as_set_ok ps' [] keys_sorted_nil) as (s & Hset & Hss & Hps).
  { rewrite app_nil_r. apply (Permutation_NoDup (l := map param_key ps)); [apply Permutation_map; exact Hp|].
    apply keys_sorted_NoDup. exact Hs. }
  rewrite app_nil_r in Hps. rewrite Hset. f_equal. symmetry. apply sorted_perm_eq; [exact Hs|exact Hss|].
  eapply perm_trans; eassumption.
Qed.

Lemma lenN_concat_in (w : bytes) (ws : list bytes) : In w ws -> lenN w <= lenN (concat ws).
Proof.
  induction ws as [|x ws IH]; intros H; [contradiction|]. rewrite lenN_concat_cons.
  destruct H as [->|H]; [lia|]. specialize (IH H). lia.
Qed.

Lemma params_acc (ps : list svcparam) : forallb param_wfb ps = true ->
  lenN (concat (map Render.param_wire ps)) <= 65535 ->
  bytes_ok (concat (map Render.param_wire ps)) /\
  Forall2 (fun w v => cf svc_param w v /\ w <> []) (map Render.param_wire ps) ps.
Proof.
  intros Hwf Hl.
  destruct (map_items svc_param Render.param_wire ps) as [I1 I2]; [|split; assumption].
  intros p Hp. rewrite forallb_forall in Hwf.
  destruct (param_acc p (Hwf p Hp)) as (H1 & H2 & H3); [|split; [exact H2|split; [exact H3|exact H1]]].
  pose proof (lenN_concat_in (Render.param_wire p) _ (in_map Render.param_wire ps p Hp)) as HL.
  unfold Render.param_wire in HL at 1. lenN_norm_in HL. lia.
Qed.

(* ---- the RDATA ---- *)
Lemma rdata_svcb_ok (r : rr) : svcb_rr_wf r = true -> rdata_ok r.
Proof.
  intros Hwf pre wd owner' Hwd Eo Hlen.
  destruct r as [t nm cls ttl d]. unfold svcb_rr_wf in Hwf. cbn [r_type r_name r_class r_ttl r_data] in *.
  destruct d as [| | |prio target ps]; try (wf_split Hwf; discriminate).
  apply andb_true_iff in Hwf. destruct Hwf as [Hwf Hd]. wf_split Hwf.
  assert (t = 64 \/ t = 65) as Ht by lia. assert (cls = 1) by lia. subst cls.
  apply andb_true_iff in Hd. destruct Hd as [Hd Halias]. apply andb_true_iff in Hd. destruct Hd as [Hd Hsorted].
  apply andb_true_iff in Hd. destruct Hd as [Hd Hps]. apply andb_true_iff in Hd. destruct Hd as [Hprio Htarget].
  apply keys_sortedb_ok in Hsorted.
  cbn [wire_class wire_ttl r_data r_class r_ttl].
  assert (forall (target' : name) (set : list svcparam) (w : bytes),
            name_eqv target' target -> set = ps ->
            acc true svcb_spec pre w (RSvcb prio target' set) ->
            exists r', acc true (rdata_of t 1 ttl owner') pre w r' /\
                       rr_eqv r' {| r_type := t; r_name := nm; r_class := 1; r_ttl := ttl; r_data := RSvcb prio target ps |})
    as Hfin.
  { intros target' set w Et -> HA.
    exists {| r_type := t; r_name := owner'; r_class := 1; r_ttl := ttl; r_data := RSvcb prio target' ps |}.
    split; [|unfold rr_eqv; cbn [r_type r_name r_class r_ttl r_data rdata_eqv];
             split; [reflexivity|split; [exact Eo|split; [reflexivity|split; [reflexivity|]]]];
             split; [reflexivity|split; [exact Et|reflexivity]]].
    apply (acc_ext true _ _ pre w _ (fun b s e => rdata_svcb t 1 ttl owner' b s e Ht)).
    apply acc_bind_nil with (x := 1); [apply class_spec_in|].
    apply (acc_bind_last' true svcb_spec _ pre w _ _ HA). apply acc_ret. }
  inversion Hwd as [| | |t0 target0 wt Ht0 Hwt|t0 prio0 target0 ps0 ps' wt Ht0 Hp0 Hwt Hperm]; subst.
  - (* AliasMode *)
    destruct (renders_name_acc _ target wt Hwt Htarget) as (Hbt & target' & Hacc & Et).
    split; [apply bytes_ok_app; [apply be16_ok; lia|exact Hbt]|].
    apply (Hfin target' [] _ Et eq_refl). unfold svcb_spec.
    apply (acc_bind true (num 2) _ pre _ _ 0); [apply acc_num2; lia|].
    apply (acc_bind_last' true pname _ _ wt target'); [apply acc_end; exact Hacc|].
    change (0 =? 0) with true. cbv iota. apply acc_ret.
  - (* ServiceMode *)
    destruct (renders_name_acc _ target wt Hwt Htarget) as (Hbt & target' & Hacc & Et).
    assert (forallb param_wfb ps' = true) as Hps'.
    { rewrite forallb_forall in Hps |- *. intros p Hp. apply Hps. eapply Permutation_in; [apply Permutation_sym; exact Hperm|exact Hp]. }
    destruct (params_acc ps' Hps') as (Hbp & Hf); [lenN_norm_in Hlen; lia|].
    split; [apply bytes_ok_app; [apply be16_ok; lia|apply bytes_ok_app; assumption]|].
    apply (Hfin target' ps _ Et eq_refl). unfold svcb_spec.
    apply (acc_bind true (num 2) _ pre _ _ prio); [apply acc_num2; lia|].
    apply (acc_bind true pname _ _ wt _ target'); [exact Hacc|].
    assert ((prio =? 0) = false) as -> by lia.
    apply (acc_bind_last' true svc_set_spec _ _ _ ps); [|apply acc_ret].
    unfold svc_set_spec.
    apply (acc_bind_last' true (many_to_end svc_param) _ _ _ ps'); [apply acc_many; exact Hf|].
    rewrite (as_set_perm ps ps' Hsorted Hperm). apply acc_ret.
Qed.
