(* C05 — round trip of the primitives (milestone 1) and of domain names (milestone 2). *)
From DNS Require Import Model.Dec Model.Enc Spec.Names
  Proofs.ListN Proofs.NameLayer Proofs.NameLoop Proofs.NameMain Proofs.NameSlots
  Proofs.EncTotal Proofs.EncLimits
  Proofs.DecBase Proofs.DecName Proofs.DecNameSound Proofs.DecNameComplete
  Proofs.OptBase Proofs.SvcbDec Proofs.RtBase.
Require Import ZArith ZifyBool ZifyN ZifyNat.
Local Open Scope N_scope.
Ltac Zify.zify_post_hook ::= Z.div_mod_to_equations.

(* ================================================================================================ *)
(* 1. primitives                                                                                     *)
(* ================================================================================================ *)
Lemma emits_inv (enc : EM unit) (w : bytes) : emits enc w ->
  forall st st', enc st = EOk tt st' -> st' = app_buf st w.
Proof. intros H st st' E. rewrite H in E. congruence. Qed.

Lemma rt_u8 (v : N) : v < 256 -> decP false (eu8 v) (fun _ => u8) (eq v).
Proof.
  intros H. apply (decP_reads false (eu8 v) u8 [v] v).
  - intros st st' E. rewrite <- (u8b_small v H). exact (emits_inv _ _ (emits_eu8 v) st st' E).
  - intros r _. apply reads_u8.
Qed.

Lemma rt_u16 (v : N) : v < 65536 -> decP false (eu16 v) (fun _ => u16) (eq v).
Proof.
  intros H. apply (decP_reads false (eu16 v) u16 (u16b v) v).
  - exact (emits_inv _ _ (emits_eu16 v)).
  - intros r _. apply reads_u16. exact H.
Qed.

Lemma rt_u32 (v : N) : v < 4294967296 -> decP false (eu32 v) (fun _ => u32) (eq v).
Proof.
  intros H. apply (decP_reads false (eu32 v) u32 (u32b v) v).
  - exact (emits_inv _ _ (emits_eu32 v)).
  - intros r _. exact (reads_u32 v r H).
Qed.

Lemma be8 (a b c d e f g h : N) :
  be [a; b; c; d; e; f; g; h] = ((((((a * 256 + b) * 256 + c) * 256 + d) * 256 + e) * 256 + f) * 256 + g) * 256 + h.
Proof. unfold be. cbn [be_join]. lia. Qed.

Lemma be_u64b (v : N) : v < 18446744073709551616 -> be (u64b v) = v.
Proof.
  intros H. unfold u64b.
  set (hi := v / 4294967296). set (lo := v mod 4294967296).
  assert (hi < 4294967296) as Hhi by (unfold hi; lia).
  assert (lo < 4294967296) as Hlo by (unfold lo; lia).
  assert (v = hi * 4294967296 + lo) as Hv by (unfold hi, lo; lia).
  pose proof (be_u32b hi Hhi) as B1. pose proof (be_u32b lo Hlo) as B2.
  unfold u32b in *. cbn [app]. rewrite be8. rewrite be4 in B1, B2. lia.
Qed.

Lemma reads_u64 (v : N) (r : bytes) : v < 18446744073709551616 -> reads u64 (u64b v) r v.
Proof. intros H. eapply reads_value; [apply (be_u64b v H)|]. apply reads_uint. reflexivity. Qed.

Lemma emits_eu64 (v : N) : emits (eu64 v) (u64b v). Proof. apply emits_put. Qed.

Lemma rt_u64 (v : N) : v < 18446744073709551616 -> decP false (eu64 v) (fun _ => u64) (eq v).
Proof.
  intros H. apply (decP_reads false (eu64 v) u64 (u64b v) v).
  - exact (emits_inv _ _ (emits_eu64 v)).
  - intros r _. apply reads_u64. exact H.
Qed.

Lemma estring_inv (b : bytes) (st st' : est) : estring b st = EOk tt st' ->
  lenN b <= 255 /\ st' = app_buf st (lenN b :: b).
Proof.
  intros E. destruct (N.le_gt_cases (lenN b) 255) as [H|H].
  - split; [exact H|]. rewrite (EncLimits.estring_ok b H) in E. injection E as <-. reflexivity.
  - rewrite (estring_oversize b H) in E. discriminate.
Qed.

(* <character-string> *)
Lemma rt_string (b : bytes) : utf8_valid b = true ->
  decP false (estring b) (fun _ => string_) (eq b).
Proof.
  intros Hu. destruct (N.le_gt_cases (lenN b) 255) as [Hl|Hl].
  - apply (decP_reads false (estring b) string_ (lenN b :: b) b).
    + intros st st' E. apply (estring_inv b st st' E).
    + intros r _. apply reads_string; assumption.
  - intros st mask st' HI E. rewrite (estring_oversize b Hl) in E. discriminate.
Qed.

(* raw octets up to the end of the window *)
Lemma rt_rest (b : bytes) : decP true (put b) (fun _ => vec) (eq b).
Proof.
  apply (decP_reads true (put b) vec b b).
  - exact (emits_inv _ _ (emits_put b)).
  - intros r Hr. rewrite (Hr eq_refl). apply reads_vec.
Qed.

Lemma rt_ipv6 (b : bytes) : lenN b = 16 -> bytes_ok b -> decP false (put b) (fun _ => ipv6_addr) (eq b).
Proof.
  intros Hl Hb. apply (decP_reads false (put b) ipv6_addr b b).
  - exact (emits_inv _ _ (emits_put b)).
  - intros r _. apply reads_ipv6; assumption.
Qed.

(* ================================================================================================ *)
(* 2. names                                                                                          *)
(* ================================================================================================ *)
Definition label_wf (l : label) : bool :=
  (1 <=? lenN l) && (lenN l <=? 63) && bytes_okb l && utf8_valid l.
Definition name_wf (n : name) : bool := forallb label_wf n && (wire_len n <=? 255).
Definition name_eqv (a b : name) : Prop := name_eqb a b = true.

Lemma bytes_okb_ok (l : bytes) : bytes_okb l = true -> bytes_ok l.
Proof.
  unfold bytes_okb, bytes_ok. rewrite forallb_forall, Forall_forall. intros H x Hx.
  specialize (H x Hx). unfold is_byteb in H. unfold is_byte. lia.
Qed.

Lemma label_wf_inv (l : label) : label_wf l = true ->
  1 <= lenN l /\ lenN l <= 63 /\ bytes_ok l /\ utf8_valid l = true.
Proof.
  unfold label_wf. intros H. apply andb_true_iff in H. destruct H as [H H4].
  apply andb_true_iff in H. destruct H as [H H3]. apply andb_true_iff in H. destruct H as [H1 H2].
  split; [lia|]. split; [lia|]. split; [apply bytes_okb_ok; exact H3|exact H4].
Qed.

Lemma name_wf_ok (n : name) : name_wf n = true -> name_ok n.
Proof.
  unfold name_wf. intros H. apply andb_true_iff in H. destruct H as [H1 H2].
  split.
  - rewrite Forall_forall. rewrite forallb_forall in H1. intros l Hl.
    destruct (label_wf_inv l (H1 l Hl)) as (A & B & C & _). split; [exact A|]. split; [exact B|exact C].
  - rewrite name_wire_len_eq. lia.
Qed.

Lemma name_wf_legal (n : name) : name_wf n = true -> name_legal n.
Proof.
  unfold name_wf. intros H. apply andb_true_iff in H. destruct H as [H1 H2].
  split; [|lia].
  rewrite Forall_forall. rewrite forallb_forall in H1. intros l Hl.
  destruct (label_wf_inv l (H1 l Hl)) as (A & B & _ & D). split; [exact A|]. split; [exact B|exact D].
Qed.

(* ---- ASCII case folding does not change UTF-8 validity ---- *)
Lemma utf8_S (f : nat) (b0 : N) (r : bytes) : utf8_valid_fuel (S f) (b0 :: r) =
      if b0 <? 128 then utf8_valid_fuel f r
      else if in_rng 194 223 b0 then
        match r with b1 :: r' => cont b1 && utf8_valid_fuel f r' | _ => false end
      else if b0 =? 224 then
        match r with b1 :: b2 :: r' => in_rng 160 191 b1 && cont b2 && utf8_valid_fuel f r' | _ => false end
      else if in_rng 225 236 b0 || in_rng 238 239 b0 then
        match r with b1 :: b2 :: r' => cont b1 && cont b2 && utf8_valid_fuel f r' | _ => false end
      else if b0 =? 237 then
        match r with b1 :: b2 :: r' => in_rng 128 159 b1 && cont b2 && utf8_valid_fuel f r' | _ => false end
      else if b0 =? 240 then
        match r with b1 :: b2 :: b3 :: r' => in_rng 144 191 b1 && cont b2 && cont b3 && utf8_valid_fuel f r' | _ => false end
      else if in_rng 241 243 b0 then
        match r with b1 :: b2 :: b3 :: r' => cont b1 && cont b2 && cont b3 && utf8_valid_fuel f r' | _ => false end
      else if b0 =? 244 then
        match r with b1 :: b2 :: b3 :: r' => in_rng 128 143 b1 && cont b2 && cont b3 && utf8_valid_fuel f r' | _ => false end
      else false.
Proof. reflexivity. Qed.

Lemma rng_lower (lo hi b : N) : 123 <= lo -> in_rng lo hi (ascii_lower b) = in_rng lo hi b.
Proof.
  intros H. unfold in_rng, ascii_lower. destruct ((65 <=? b) && (b <=? 90)) eqn:E; [|reflexivity].
  apply andb_true_iff in E. destruct E as [E1 E2].
  destruct (lo <=? b + 32) eqn:A; destruct (lo <=? b) eqn:B; try lia; reflexivity.
Qed.
Lemma cont_lower (b : N) : cont (ascii_lower b) = cont b.
Proof. unfold cont. apply rng_lower. lia. Qed.

Lemma utf8_fuel_lower (f : nat) : forall l : bytes,
  utf8_valid_fuel f (map ascii_lower l) = utf8_valid_fuel f l.
Proof.
  induction f as [|f IH]; intros l.
  - destruct l; reflexivity.
  - destruct l as [|b0 r]; [reflexivity|]. cbn [map]. rewrite !utf8_S.
    destruct (b0 <? 128) eqn:E0.
    + assert (ascii_lower b0 <? 128 = true) as ->.
      { unfold ascii_lower. destruct ((65 <=? b0) && (b0 <=? 90)) eqn:E; lia. }
      apply IH.
    + assert (ascii_lower b0 = b0) as ->.
      { unfold ascii_lower. destruct ((65 <=? b0) && (b0 <=? 90)) eqn:E; [lia|reflexivity]. }
      rewrite E0.
      destruct r as [|b1 [|b2 [|b3 r']]]; cbv beta iota;
        repeat match goal with
               | |- context [utf8_valid_fuel f (?x :: ?t)] => rewrite <- (IH (x :: t))
               end;
        try rewrite <- (IH r'); cbn [map];
        rewrite ?cont_lower, ?rng_lower by lia; reflexivity.
Qed.

Lemma utf8_fold (l : label) : utf8_valid (label_fold l) = utf8_valid l.
Proof. unfold utf8_valid, label_fold. rewrite map_length. apply utf8_fuel_lower. Qed.

Lemma label_eqb_fold (a b : label) : label_eqb a b = true -> label_fold a = label_fold b.
Proof. unfold label_eqb. apply bytes_eqb_eq. Qed.

Lemma label_eqb_len (a b : label) : label_eqb a b = true -> lenN a = lenN b.
Proof.
  intros H. apply label_eqb_fold in H. unfold label_fold in H.
  assert (length (map ascii_lower a) = length (map ascii_lower b)) as HL by (rewrite H; reflexivity).
  rewrite !map_length in HL. unfold lenN. lia.
Qed.
Lemma label_eqb_utf8 (a b : label) : label_eqb a b = true -> utf8_valid a = utf8_valid b.
Proof. intros H. apply label_eqb_fold in H. rewrite <- (utf8_fold a), <- (utf8_fold b), H. reflexivity. Qed.

Lemma name_eqb_tl (a : name) : forall b : name, name_eqb a b = true -> DecName.tl a = DecName.tl b.
Proof.
  induction a as [|x a IH]; intros [|y b] H; try (cbn in H; discriminate); [reflexivity|].
  rewrite name_eqb_cons in H. apply andb_true_iff in H. destruct H as [H1 H2].
  rewrite !tl_cons, (label_eqb_len x y H1), (IH b H2). reflexivity.
Qed.

Lemma name_eqb_legal (a : name) : forall b : name, name_eqb a b = true -> name_legal a -> name_legal b.
Proof.
  intros b H [L1 L2]. split.
  - revert b H. induction L1 as [|x a Hx La IH]; intros [|y b] H; try (cbn in H; discriminate); [constructor|].
    rewrite name_eqb_cons in H. apply andb_true_iff in H. destruct H as [H1 H2].
    constructor.
    + destruct Hx as (A & B & C). unfold DecName.label_ok.
      rewrite <- (label_eqb_len x y H1), <- (label_eqb_utf8 x y H1). split; [exact A|]. split; [exact B|exact C].
    + apply IH; [|exact H2]. rewrite wire_len_tl in *. rewrite tl_cons in L2. lia.
  - rewrite wire_len_tl in *. rewrite <- (name_eqb_tl a b H). exact L2.
Qed.

(* ---- the octets the name writer appends ---- *)
Lemma enc_name_shape (st : est) (mask : list bool) (n : name) (st' : est) :
  InvM st mask -> name_ok n -> enc_domain_name n st = EOk tt st' ->
  exists n1 n2 tail t,
    n = n1 ++ n2 /\ e_buf st' = e_buf st ++ enc_labels n1 ++ tail /\ tail_ok tail t /\
    e_names st' = (lenN (e_buf st), n) :: e_names st.
Proof.
  intros (HL & HB & HI) [Hlab Hwire] E.
  set (s0 := {| e_buf := e_buf st; e_idx := e_idx st; e_names := (lenN (e_buf st), n) :: e_names st |}).
  assert (Hlog : log_name n st = EOk tt s0) by reflexivity.
  unfold enc_domain_name in E. rewrite (ebind_ok _ _ _ _ _ Hlog) in E.
  assert (Hsmall : idx_small (e_idx s0)).
  { intros k o d Hin. destruct (HB k o d Hin) as (H1 & H2 & _). split; assumption. }
  destruct (loop_shape n s0 [] Hsmall Hlab) as [(s' & Hrun & Hpost)|(k & Hf & _)].
  - rewrite Hrun in E. injection E as <-.
    destruct Hpost as (n1 & n2 & tail & t & D & Hsplit & Hbuf & Hnames & Htail & _).
    exists n1, n2, tail, t. cbn [e_buf e_names s0] in Hbuf, Hnames.
    split; [exact Hsplit|]. split; [exact Hbuf|]. split; [exact Htail|exact Hnames].
  - rewrite Hf in E. discriminate.
Qed.

Lemma tail_nonempty (tail : bytes) (t : option N) : tail_ok tail t -> tail <> [].
Proof. destruct t as [o|]; cbn [tail_ok]; [intros [_ ->]|intros ->]; discriminate. Qed.

(* ---- the name round trip: the decoded name equals the written one up to ASCII case ---- *)
Theorem rt_name (n : name) : name_wf n = true ->
  decP false (enc_domain_name n) domain_name (fun v => name_eqv v n).
Proof.
  intros Hwf st mask st' HI E main r G Hn _.
  pose proof (name_wf_ok n Hwf) as Hok.
  destruct (enc_name_shape st mask n st' HI Hok E) as (n1 & n2 & tail & t & Hsplit & Hbuf & Htail & Hnames).
  destruct (Hn (lenN (e_buf st)) n) as (x & Hx & Heq); [rewrite Hnames; left; reflexivity|].
  exists (x_name x). split; [apply name_eqb_sym; exact Heq|].
  rewrite (wrote_app st st' _ Hbuf).
  intros s W Hr V.
  assert (enc_labels n1 ++ tail <> []) as Hne.
  { intro Hc. apply app_eq_nil in Hc. destruct Hc as [_ Hc]. exact (tail_nonempty tail t Htail Hc). }
  destruct (views_split main s _ _ r W Hr V Hne) as (pre & post & Hmain & Hpre).
  assert (Forall NameLayer.label_ok n1) as Hl1.
  { destruct Hok as [Hlab _]. rewrite Hsplit in Hlab. apply Forall_app in Hlab. exact (proj1 Hlab). }
  assert (length n1 < SEGFUEL)%nat as Hfuel.
  { pose proof (name_ok_fuel n Hok) as Hf. rewrite Hsplit, app_length in Hf. lia. }
  pose proof (seg_literal n1 SEGFUEL pre tail post t Hl1 Htail Hfuel) as Hseg.
  rewrite <- app_assoc in Hmain. rewrite <- Hmain, Hpre in Hseg.
  assert (x_end x = lenN (e_buf st) + lenN (enc_labels n1 ++ tail)) as Hend.
  { rewrite expand_eq, Hseg in Hx. rewrite lenN_app.
    destruct t as [o|].
    - change 16%nat with (S 15) in Hx. cbv iota in Hx.
      destruct (expand 15 main o) as [x0|]; [|discriminate]. injection Hx as <-. cbn [x_end]. lia.
    - injection Hx as <-. cbn [x_end]. lia. }
  apply (lreads_name main (lenN (e_buf st)) _ r x G); [| |exact Hend|exact W|exact Hr|exact V].
  - apply (expand_mono 16 17 main _ x Hx). lia.
  - apply (name_eqb_legal n (x_name x) Heq). apply name_wf_legal. exact Hwf.
Qed.

Lemma encP_name_wf (n : name) : name_wf n = true -> encP (enc_domain_name n).
Proof. intros H. apply encP_name, name_wf_ok, H. Qed.

(* ---- valid UTF-8 consists of octets ---- *)
Ltac utf8_branch IH H r n :=
  let b1 := fresh "b" in let b2 := fresh "b" in let b3 := fresh "b" in let r1 := fresh "r" in
  match n with
  | 1%nat => destruct r as [|b1 r1]; [discriminate H|]
  | 2%nat => destruct r as [|b1 [|b2 r1]]; [discriminate H|discriminate H|]
  | 3%nat => destruct r as [|b1 [|b2 [|b3 r1]]]; [discriminate H|discriminate H|discriminate H|]
  end;
  repeat (apply andb_true_iff in H; let H' := fresh "Hc" in destruct H as [H H']);
  unfold cont, in_rng in *; repeat (apply Forall_cons; [unfold is_byte; lia|]); apply IH; assumption.

Lemma utf8_fuel_bytes_ok (f : nat) : forall l : bytes, utf8_valid_fuel f l = true -> bytes_ok l.
Proof.
  induction f as [|f IH]; intros l H.
  - destruct l; [constructor|discriminate].
  - destruct l as [|b0 r]; [constructor|]. rewrite utf8_S in H. unfold bytes_ok in *.
    destruct (b0 <? 128) eqn:E0; [constructor; [unfold is_byte; lia|apply IH; exact H]|].
    destruct (in_rng 194 223 b0) eqn:E1; [utf8_branch IH H r 1%nat|].
    destruct (b0 =? 224) eqn:E2; [utf8_branch IH H r 2%nat|].
    destruct (in_rng 225 236 b0 || in_rng 238 239 b0) eqn:E3; [utf8_branch IH H r 2%nat|].
    destruct (b0 =? 237) eqn:E4; [utf8_branch IH H r 2%nat|].
    destruct (b0 =? 240) eqn:E5; [utf8_branch IH H r 3%nat|].
    destruct (in_rng 241 243 b0) eqn:E6; [utf8_branch IH H r 3%nat|].
    destruct (b0 =? 244) eqn:E7; [utf8_branch IH H r 3%nat|discriminate].
Qed.

Lemma utf8_bytes_ok (l : bytes) : utf8_valid l = true -> bytes_ok l.
Proof. apply utf8_fuel_bytes_ok. Qed.

Lemma name_wf_bytes_ok (n : name) : name_wf n = true -> Forall bytes_ok n.
Proof. intros H. destruct (name_wf_ok n H) as [Hl _]. eapply Forall_impl; [|exact Hl]. intros l (_ & _ & Hb). exact Hb. Qed.
