(* C05 — milestone 3: every field kind of the generated RDATA tables: write_field then read_field. *)
From DNS Require Import Model.Dec Model.Enc Spec.Names
  Proofs.ListN Proofs.NameLayer Proofs.NameLoop Proofs.NameMain
  Proofs.EncTotal Proofs.EncLimits
  Proofs.DecBase Proofs.DecName Proofs.DecNameSound Proofs.DecNameComplete
  Proofs.OptBase Proofs.SvcbDec Proofs.SvcbEnc Proofs.RtBase Proofs.RtPrim.
Require Import ZArith ZifyBool ZifyN ZifyNat.
Local Open Scope N_scope.
Ltac Zify.zify_post_hook ::= Z.div_mod_to_equations.

(* ---- well-formed field values: what the decoder enforces ---- *)
Definition str_wf (s : bytes) : bool := utf8_valid s && (lenN s <=? 255).
Definition is_lowalnum (b : N) : bool := is_digit b || is_lower b.
Definition is_nil {A} (l : list A) : bool := match l with [] => true | _ => false end.

Definition fv_wf (k : fk) (v : fv) : bool :=
  match k, v with
  | FU8, VN n => n <? 256
  | FU16, VN n => n <? 65536
  | FU32, VN n | FIp4, VN n => n <? 4294967296
  | FU64, VN n => n <? 18446744073709551616
  | FName, VName n => name_wf n
  | FStr, VBytes s => str_wf s
  | FRest, VBytes b => bytes_okb b
  | FRestUtf8, VBytes b => utf8_valid b
  | FIp6, VBytes b => (lenN b =? 16) && bytes_okb b
  | FEnum8 e _, VN n => (n <? 256) && in_table (enum_table e) n
  | FEnum16 e _, VN n => (n <? 65536) && in_table (enum_table e) n
  | FStrPsdn, VBytes s | FStrIsdn, VBytes s => str_wf s && forallb is_digit s
  | FOptStrSa, VOptStr None => true
  | FOptStrSa, VOptStr (Some s) => str_wf s && forallb is_hexdigit s
  | FStrGpos, VBytes s => str_wf s && (1 <=? lenN s)
  | FTag, VBytes s => str_wf s && (1 <=? lenN s) && forallb is_lowalnum s
  | FStrs1, VStrs l => negb (is_nil l) && forallb str_wf l
  | FDnskeyFlags, VN n => (n <? 65536) && (N.land n DNSKEY_ZERO_MASK =? 0)
  | _, _ => false
  end.

(* equality up to what compression may change: names up to ASCII case *)
Definition fv_eqv (a b : fv) : Prop :=
  match a, b with
  | VName x, VName y => name_eqv x y
  | _, _ => a = b
  end.
Lemma fv_eqv_refl (a : fv) : fv_eqv a a.
Proof. destruct a; cbn [fv_eqv]; try reflexivity. apply name_eqb_refl. Qed.

(* kinds that read up to the end of the RDATA window *)
Definition fk_tail (k : fk) : bool :=
  match k with FRest | FRestUtf8 | FOptStrSa | FStrs1 => true | _ => false end.

Lemma str_wf_inv (s : bytes) : str_wf s = true -> utf8_valid s = true /\ lenN s <= 255.
Proof. unfold str_wf. intros H. apply andb_true_iff in H. destruct H as [H1 H2]. split; [exact H1|lia]. Qed.

(* ---- small reads lemmas ---- *)
Lemma reads_pure {A B} (m : DM A) (x : A) (k : A -> DM B) (w r : bytes) (v : B) :
  (forall s, m s = DOk x s) -> reads (k x) w r v -> reads (bind m k) w r v.
Proof. intros Hm H s W Hr. rewrite (bind_ok _ _ _ _ _ (Hm s)). exact (H s W Hr). Qed.

Lemma reads_lift_ok {A B} (res0 : res A) (x : A) (k : A -> DM B) (w r : bytes) (v : B) :
  res0 = Ok x -> reads (k x) w r v -> reads (y <- lift res0 ;; k y) w r v.
Proof. intros -> H. apply (reads_pure (lift (Ok x)) x); [reflexivity|exact H]. Qed.

Lemma reads_code (t : list (string * N)) (er : etag) (rd : DM N) (w r : bytes) (v : N) :
  in_table t v = true -> reads rd w r v -> reads (code t er rd) w r v.
Proof.
  intros Ht H. unfold code. rewrite <- (app_nil_r w). eapply reads_bind; [cbn [app]; exact H|].
  rewrite Ht. apply reads_ret.
Qed.

Lemma reads_u8_small (v : N) (r : bytes) : v < 256 -> reads u8 (u8b v) r v.
Proof. intros H. rewrite (u8b_small v H). apply reads_u8. Qed.

Lemma strings_loop_many (f : nat) : forall (acc : list bytes) (s : dst),
  strings_loop f acc s = many f string_ acc s.
Proof.
  induction f as [|f IH]; intros acc s; [reflexivity|].
  cbn [strings_loop many]. unfold bind. destruct (is_finished s) as [[|] s1|e c|x|]; try reflexivity.
  destruct (string_ s1) as [b s2|e c|x|]; try reflexivity. apply IH.
Qed.

Lemma str_wire_ne (b : bytes) : lenN b :: b <> [].
Proof. discriminate. Qed.

Lemma reads_strings (l : list bytes) : l <> [] -> Forall (fun b : bytes => utf8_valid b = true /\ lenN b <= 255) l ->
  reads (fuel <- loop_fuel ;; l0 <- strings_loop fuel [] ;;
         match l0 with [] => fail (ETXTEmpty, []) | _ => ret [VStrs l0] end)
        (concat (map (fun b : bytes => lenN b :: b) l)) [] [VStrs l].
Proof.
  intros Hne Hok s W Hr.
  rewrite (bind_ok _ _ _ _ _ (loop_fuel_eq s W)).
  assert (length l < S (length (d_rest s)))%nat as Hf.
  { rewrite Hr, app_nil_r.
    assert (length l <= length (concat (map (fun b : bytes => lenN b :: b) l)))%nat; [|lia].
    apply concat_length_ge. intros x _. discriminate. }
  destruct (reads_many string_ (fun b : bytes => lenN b :: b)
              (fun b : bytes => utf8_valid b = true /\ lenN b <= 255)
              (fun x r HH => reads_string x r (proj1 HH) (proj2 HH)) (fun x _ => str_wire_ne x)
              l _ [] Hok Hf s W Hr) as [c E].
  unfold bind at 1. rewrite strings_loop_many, E. cbn [rev app].
  destruct l as [|b l']; [congruence|]. exists c. reflexivity.
Qed.

Lemma lower_id (s : bytes) : forallb is_lowalnum s = true -> map ascii_lower s = s.
Proof.
  induction s as [|b s IH]; cbn [forallb map]; [reflexivity|]. intros H.
  apply andb_true_iff in H. destruct H as [H1 H2]. rewrite (IH H2). f_equal.
  unfold is_lowalnum, is_digit, is_lower in H1. unfold ascii_lower.
  destruct ((65 <=? b) && (b <=? 90)) eqn:E; [lia|reflexivity].
Qed.
Lemma lowalnum_alnum (s : bytes) : forallb is_lowalnum s = true -> forallb is_alnum s = true.
Proof.
  induction s as [|b s IH]; cbn [forallb]; [reflexivity|]. intros H.
  apply andb_true_iff in H. destruct H as [H1 H2]. rewrite (IH H2), andb_true_r.
  unfold is_lowalnum in H1. unfold is_alnum. destruct (is_digit b); [reflexivity|].
  cbn [orb] in *. rewrite H1. apply orb_true_r.
Qed.

(* ---- the field round trip ---- *)
Definition field_R (v : fv) (vs : list fv) : Prop := exists v', vs = [v'] /\ fv_eqv v' v.

Lemma field_R_eq (v : fv) : forall vs, [v] = vs -> field_R v vs.
Proof. intros vs <-. exists v. split; [reflexivity|apply fv_eqv_refl]. Qed.

Ltac name_free E w :=
  eapply decP_weaken; [apply field_R_eq|];
  apply (decP_reads E _ _ w).

Theorem rt_field (k : fk) (v : fv) : fv_wf k v = true ->
  decP (fk_tail k) (write_field k (Some v)) (fun main => read_field main k) (field_R v).
Proof.
  destruct k; destruct v as [n|n|b|l|o]; cbn [fv_wf]; try discriminate; intros H;
    cbn [fk_tail write_field read_field].
  - (* FU8 *) name_free false [n].
    + intros st st' E. rewrite <- (u8b_small n) by lia. exact (emits_inv _ _ (emits_eu8 n) st st' E).
    + intros r _. apply (reads_map u8 (fun x => [VN x])), reads_u8.
  - (* FU16 *) name_free false (u16b n); [exact (emits_inv _ _ (emits_eu16 n))|].
    intros r _. apply (reads_map u16 (fun x => [VN x])), reads_u16. lia.
  - (* FU32 *) name_free false (u32b n); [exact (emits_inv _ _ (emits_eu32 n))|].
    intros r _. apply (reads_map u32 (fun x => [VN x])). apply reads_u32. lia.
  - (* FU64 *) name_free false (u64b n); [exact (emits_inv _ _ (emits_eu64 n))|].
    intros r _. apply (reads_map u64 (fun x => [VN x])), reads_u64. lia.
  - (* FName *)
    eapply decP_weaken; [|apply (decP_map false _ _ (fun x => [VName x])), rt_name; exact H].
    intros vs (x & Hx & ->). exists (VName x). split; [reflexivity|exact Hx].
  - (* FStr *) destruct (str_wf_inv b H) as [Hu Hl].
    name_free false (lenN b :: b); [intros st st' E; apply (estring_inv b st st' E)|].
    intros r _. apply (reads_map string_ (fun x => [VBytes x])), reads_string; assumption.
  - (* FRest *) name_free true b; [exact (emits_inv _ _ (emits_put b))|].
    intros r Hr. rewrite (Hr eq_refl). apply (reads_map vec (fun x => [VBytes x])), reads_vec.
  - (* FRestUtf8 *) name_free true b; [exact (emits_inv _ _ (emits_put b))|].
    intros r Hr. rewrite (Hr eq_refl). rewrite <- (app_nil_r b) at 1.
    eapply reads_bind; [cbn [app]; apply reads_vec|]. rewrite H. apply reads_ret.
  - (* FIp4 *) name_free false (u32b n); [exact (emits_inv _ _ (emits_eu32 n))|].
    intros r _. apply (reads_map ipv4_addr (fun x => [VN x])). apply reads_u32. lia.
  - (* FIp6 *) apply andb_true_iff in H. destruct H as [H1 H2].
    name_free false b; [exact (emits_inv _ _ (emits_put b))|].
    intros r _. apply (reads_map ipv6_addr (fun x => [VBytes x])), reads_ipv6; [lia|apply bytes_okb_ok; exact H2].
  - (* FEnum8 *) apply andb_true_iff in H. destruct H as [H1 H2].
    name_free false (u8b n); [exact (emits_inv _ _ (emits_eu8 n))|].
    intros r _. apply (reads_map (code (enum_table e) er u8) (fun x => [VN x])).
    apply reads_code; [exact H2|apply reads_u8_small; lia].
  - (* FEnum16 *) apply andb_true_iff in H. destruct H as [H1 H2].
    name_free false (u16b n); [exact (emits_inv _ _ (emits_eu16 n))|].
    intros r _. apply (reads_map (code (enum_table e) er u16) (fun x => [VN x])).
    apply reads_code; [exact H2|apply reads_u16; lia].
  - (* FStrPsdn *) apply andb_true_iff in H. destruct H as [H1 H2]. destruct (str_wf_inv b H1) as [Hu Hl].
    name_free false (lenN b :: b); [intros st st' E; apply (estring_inv b st st' E)|].
    intros r _. rewrite <- (app_nil_r (lenN b :: b)).
    eapply reads_bind; [apply reads_string; assumption|].
    apply (reads_lift_ok _ b); [unfold psdn_try_from; rewrite H2; reflexivity|apply reads_ret].
  - (* FStrIsdn *) apply andb_true_iff in H. destruct H as [H1 H2]. destruct (str_wf_inv b H1) as [Hu Hl].
    name_free false (lenN b :: b); [intros st st' E; apply (estring_inv b st st' E)|].
    intros r _. rewrite <- (app_nil_r (lenN b :: b)).
    eapply reads_bind; [apply reads_string; assumption|].
    apply (reads_lift_ok _ b); [unfold isdn_try_from; rewrite H2; reflexivity|apply reads_ret].
  - (* FOptStrSa *) destruct o as [b|].
    + apply andb_true_iff in H. destruct H as [H1 H2]. destruct (str_wf_inv b H1) as [Hu Hl].
      name_free true (lenN b :: b); [intros st st' E; apply (estring_inv b st st' E)|].
      intros r Hr. rewrite (Hr eq_refl). intros s W Hs.
      assert (d_rest s <> []) as Hne by (rewrite Hs; discriminate).
      rewrite (bind_ok _ _ _ _ _ (is_finished_more s W Hne)).
      assert (reads (s0 <- string_ ;; s' <- lift (sa_try_from s0) ;; ret [VOptStr (Some s')])
                    (lenN b :: b) [] [VOptStr (Some b)]) as HR.
      { rewrite <- (app_nil_r (lenN b :: b)). eapply reads_bind; [apply reads_string; assumption|].
        apply (reads_lift_ok _ b); [unfold sa_try_from; rewrite H2; reflexivity|apply reads_ret]. }
      exact (HR s W Hs).
    + name_free true (@nil N).
      * intros st st' E. unfold eret in E. rewrite app_buf_nil. congruence.
      * intros r Hr. rewrite (Hr eq_refl). intros s W Hs. cbn [app] in Hs.
        rewrite (bind_ok _ _ _ _ _ (is_finished_done s W Hs)).
        exact (reads_ret [VOptStr None] [] s W Hs).
  - (* FStrGpos *) apply andb_true_iff in H. destruct H as [H1 H2]. destruct (str_wf_inv b H1) as [Hu Hl].
    name_free false (lenN b :: b); [intros st st' E; apply (estring_inv b st st' E)|].
    intros r _. rewrite <- (app_nil_r (lenN b :: b)).
    eapply reads_bind; [apply reads_string; assumption|]. cbv zeta.
    assert ((1 <=? lenN b) && (lenN b <=? 256) = true) as -> by lia. apply reads_ret.
  - (* FTag *) apply andb_true_iff in H. destruct H as [H H3]. apply andb_true_iff in H. destruct H as [H1 H2].
    destruct (str_wf_inv b H1) as [Hu Hl].
    name_free false (lenN b :: b); [intros st st' E; apply (estring_inv b st st' E)|].
    intros r _. rewrite <- (app_nil_r (lenN b :: b)).
    eapply reads_bind; [apply reads_string; assumption|].
    apply (reads_lift_ok _ b); [|apply reads_ret].
    unfold tag_try_from. destruct b as [|b0 b']; [cbn in H2; lia|].
    rewrite (lowalnum_alnum _ H3), (lower_id _ H3). reflexivity.
  - (* FStrs1 *) apply andb_true_iff in H. destruct H as [H1 H2].
    assert (l <> []) as Hne by (destruct l; [discriminate|discriminate]).
    assert (Forall (fun b : bytes => utf8_valid b = true /\ lenN b <= 255) l) as Hok.
    { rewrite Forall_forall. rewrite forallb_forall in H2. intros x Hx. apply str_wf_inv, H2, Hx. }
    name_free true (concat (map (fun b : bytes => lenN b :: b) l)).
    + intros st st' E. rewrite emap_estring in E. destruct (find _ l); [discriminate|]. injection E as <-. reflexivity.
    + intros r Hr. rewrite (Hr eq_refl). apply reads_strings; assumption.
  - (* FDnskeyFlags *) apply andb_true_iff in H. destruct H as [H1 H2].
    name_free false (u16b n); [exact (emits_inv _ _ (emits_eu16 n))|].
    intros r _. rewrite <- (app_nil_r (u16b n)). eapply reads_bind; [apply reads_u16; lia|].
    rewrite H2. cbn [negb]. apply reads_ret.
Qed.

Lemma rt_const (c : N) (er : etag) (o : option fv) : c < 256 ->
  decP false (write_field (FConst8 c er) o) (fun main => read_field main (FConst8 c er)) (eq []).
Proof.
  intros H.
  assert (write_field (FConst8 c er) o = eu8 c) as -> by (destruct o as [[]|]; reflexivity).
  cbn [read_field]. apply (decP_reads false _ _ (u8b c)); [exact (emits_inv _ _ (emits_eu8 c))|].
  intros r _. rewrite <- (app_nil_r (u8b c)). eapply reads_bind; [apply reads_u8_small; exact H|].
  rewrite N.eqb_refl. cbn [negb]. apply reads_ret.
Qed.

(* ---- encoder side of one field ---- *)
Lemma encP_field (k : fk) (v : fv) : fv_wf k v = true -> encP (write_field k (Some v)).
Proof.
  destruct k; destruct v as [n|n|b|l|o]; cbn [fv_wf]; try discriminate; intros H; cbn [write_field];
    try (apply encP_appends; first [apply appends_put|apply appends_estring]).
  - apply encP_name_wf. exact H.
  - destruct o; apply encP_appends; [apply appends_estring|apply appends_ret].
  - apply encP_appends, appends_emap. intros x _. apply appends_estring.
Qed.
Lemma encP_const (c : N) (er : etag) (o : option fv) : encP (write_field (FConst8 c er) o).
Proof.
  assert (write_field (FConst8 c er) o = eu8 c) as -> by (destruct o as [[]|]; reflexivity).
  apply encP_appends, appends_put.
Qed.

(* ================================================================================================ *)
(* write_fields / read_fields                                                                        *)
(* ================================================================================================ *)
Definition field_wf (names : list string) (vals : list fv) (p : string * fk) : bool :=
  match snd p with
  | FConst8 c _ => c <? 256
  | FUnknown => false
  | k => match assoc (fst p) names vals with Some v => fv_wf k v | None => false end
  end.
Fixpoint fields_wf (names : list string) (vals : list fv) (f : list (string * fk)) : bool :=
  match f with
  | [] => true
  | p :: r => field_wf names vals p && (negb (fk_tail (snd p)) || is_nil r) && fields_wf names vals r
  end.

(* the values the reader returns for one field / for the list *)
Definition pick1 (names : list string) (vals : list fv) (p : string * fk) : list fv :=
  if has_value (snd p) then match assoc (fst p) names vals with Some v => [v] | None => [] end else [].
Fixpoint pickv (names : list string) (vals : list fv) (f : list (string * fk)) : list fv :=
  match f with [] => [] | p :: r => pick1 names vals p ++ pickv names vals r end.

Definition fvs_eqv (a b : list fv) : Prop := Forall2 fv_eqv a b.

Lemma rt_field1 (names : list string) (vals : list fv) (nm : string) (k : fk) :
  field_wf names vals (nm, k) = true ->
  encP (write_field k (assoc nm names vals)) /\
  decP (fk_tail k) (write_field k (assoc nm names vals)) (fun main => read_field main k)
       (fun vs => fvs_eqv vs (pick1 names vals (nm, k))).
Proof.
  unfold field_wf, pick1. cbn [fst snd]. intros H.
  assert (forall c er, k = FConst8 c er -> c < 256 ->
            encP (write_field k (assoc nm names vals)) /\
            decP (fk_tail k) (write_field k (assoc nm names vals)) (fun main => read_field main k)
                 (fun vs => fvs_eqv vs (if has_value k then match assoc nm names vals with Some v => [v] | None => [] end else []))) as HC.
  { intros c er -> Hc. split; [apply encP_const|]. cbn [fk_tail has_value].
    eapply decP_weaken; [|apply rt_const; exact Hc]. intros vs <-. constructor. }
  assert (forall v, assoc nm names vals = Some v -> fv_wf k v = true -> has_value k = true ->
            encP (write_field k (assoc nm names vals)) /\
            decP (fk_tail k) (write_field k (assoc nm names vals)) (fun main => read_field main k)
                 (fun vs => fvs_eqv vs (if has_value k then match assoc nm names vals with Some v => [v] | None => [] end else []))) as HV.
  { intros v -> Hv ->. split; [apply encP_field; exact Hv|].
    eapply decP_weaken; [|apply rt_field; exact Hv]. intros vs (v' & -> & He). constructor; [exact He|constructor]. }
  destruct k; try discriminate;
    try (destruct (assoc nm names vals) as [v|] eqn:Ea; [|discriminate]; apply (HV v eq_refl H eq_refl)).
  apply (HC v er eq_refl). lia.
Qed.

Lemma ebind_ret_r (m : EM unit) (st : est) : (_ <-- m ;; eret tt) st = m st.
Proof. unfold ebind, eret. destruct (m st) as [[] s|e|x|]; reflexivity. Qed.

Theorem rt_fields (names : list string) (vals : list fv) : forall f : list (string * fk),
  fields_wf names vals f = true ->
  encP (write_fields names vals f) /\
  decP true (write_fields names vals f) (fun main => read_fields main f)
       (fun vs => fvs_eqv vs (pickv names vals f)).
Proof.
  induction f as [|[nm k] r IH]; intros H.
  - cbn [write_fields read_fields pickv]. split; [apply encP_ret|].
    eapply decP_weaken; [|apply decP_ret]. intros vs <-. constructor.
  - cbn [fields_wf] in H. apply andb_true_iff in H. destruct H as [H H3].
    apply andb_true_iff in H. destruct H as [H1 H2]. cbn [snd] in H2.
    destruct (rt_field1 names vals nm k H1) as [P1 D1]. destruct (IH H3) as [P2 D2].
    cbn [write_fields read_fields pickv]. split; [apply encP_bind; assumption|].
    destruct r as [|p r'].
    + (* last field *)
      apply (decP_ext true (write_field k (assoc nm names vals))); [intros st; apply ebind_ret_r|].
      cbn [read_fields pickv]. rewrite app_nil_r.
      assert (decP true (write_field k (assoc nm names vals)) (fun main => read_field main k)
                   (fun vs => fvs_eqv vs (pick1 names vals (nm, k)))) as D1'.
      { destruct (fk_tail k); [exact D1|apply decP_end; exact D1]. }
      eapply decP_weaken; [|apply (decP_map true _ (fun main => read_field main k) (fun v => v ++ [])), D1'].
      intros vs (x & Hx & ->). rewrite app_nil_r. exact Hx.
    + destruct (fk_tail k) eqn:Et; [cbn in H2; discriminate|].
      eapply decP_weaken; [|apply (decP_bind true _ _ (fun main => read_field main k)
                                (fun v main => vs <- read_fields main (p :: r') ;; ret (v ++ vs))
                                (fun vs => fvs_eqv vs (pick1 names vals (nm, k)))
                                (fun v y => exists x, fvs_eqv x (pickv names vals (p :: r')) /\ y = v ++ x));
                              [exact P1|exact D1|exact P2|]].
      * intros vs (v1 & Hv1 & x & Hx & ->). apply Forall2_app; assumption.
      * intros v1 _. apply (decP_map true _ (fun main => read_fields main (p :: r')) (fun x => v1 ++ x)). exact D2.
Qed.

(* ---- well-formed values consist of octets ---- *)
From DNS Require Import Proofs.EncBytes.
Lemma str_wf_bytes_ok (s : bytes) : str_wf s = true -> bytes_ok s.
Proof. intros H. apply utf8_bytes_ok. exact (proj1 (str_wf_inv s H)). Qed.

Lemma fv_wf_bytes_ok (k : fk) (v : fv) : fv_wf k v = true -> fv_bytes_ok v.
Proof.
  destruct k; destruct v as [n|n|b|l|o]; cbn [fv_wf fv_bytes_ok]; try discriminate; intros H;
    try exact I; try (apply name_wf_bytes_ok; exact H);
    repeat (apply andb_true_iff in H; let H' := fresh "H" in destruct H as [H H']);
    try (apply str_wf_bytes_ok; assumption); try (apply bytes_okb_ok; assumption);
    try (apply utf8_bytes_ok; assumption).
  - destruct o as [s|]; [|exact I]. apply andb_true_iff in H. destruct H as [H _]. apply str_wf_bytes_ok, H.
  - rewrite Forall_forall. rewrite forallb_forall in H0. intros x Hx. apply str_wf_bytes_ok, H0, Hx.
Qed.
