(* C13 — domain-name text form, equality, hashing and limits are coherent. *)
From Coq Require Import ZifyBool ZifyN ZifyNat.
From DNS Require Import Model.Values Model.Dec.
Local Open Scope N_scope.

(* ------------------------------------------------------------------------------------------ *)
(* ASCII case-insensitive equality of octets, labels, names (stated without ascii_lower)      *)
(* ------------------------------------------------------------------------------------------ *)
Definition ascii_ci_eq (a b : N) : Prop :=
  a = b \/ (65 <= a /\ a <= 90 /\ b = a + 32) \/ (65 <= b /\ b <= 90 /\ a = b + 32).
Definition label_ci_eq (a b : label) : Prop := Forall2 ascii_ci_eq a b.
Definition name_ci_eq (a b : name) : Prop := Forall2 (Forall2 ascii_ci_eq) a b.

Lemma ascii_ci_eq_lower a b : ascii_ci_eq a b <-> ascii_lower a = ascii_lower b.
Proof.
  unfold ascii_ci_eq, ascii_lower.
  destruct (65 <=? a) eqn:E1; destruct (a <=? 90) eqn:E2;
  destruct (65 <=? b) eqn:E3; destruct (b <=? 90) eqn:E4; cbn [andb]; lia.
Qed.

Lemma list_eqb_Forall2 {A} (eqb : A -> A -> bool) (R : A -> A -> Prop) :
  (forall x y, eqb x y = true <-> R x y) ->
  forall a b, list_eqb eqb a b = true <-> Forall2 R a b.
Proof.
  intros HR a. induction a as [|x a IH]; intros [|y b]; cbn [list_eqb].
  - split; intros _; [constructor | reflexivity].
  - split; intros H; [discriminate | inversion H].
  - split; intros H; [discriminate | inversion H].
  - rewrite andb_true_iff, HR, IH. split.
    + intros [H1 H2]. constructor; assumption.
    + intros H. inversion H; subst. split; assumption.
Qed.

Lemma list_eqb_map {A B} (eqb : B -> B -> bool) (f : A -> B) a b :
  list_eqb eqb (map f a) (map f b) = list_eqb (fun x y => eqb (f x) (f y)) a b.
Proof.
  revert b. induction a as [|x a IH]; intros [|y b]; cbn [map list_eqb]; try reflexivity.
  rewrite IH. reflexivity.
Qed.

Lemma list_eqb_N_eq a b : list_eqb N.eqb a b = true <-> a = b.
Proof.
  rewrite (list_eqb_Forall2 N.eqb eq) by (intros x y; apply N.eqb_eq).
  split.
  - intros H. induction H as [|x y a b Hxy _ IH]; [reflexivity | subst; reflexivity].
  - intros ->. induction b; constructor; auto.
Qed.

Lemma label_eqb_iff (a b : label) : label_eqb a b = true <-> label_ci_eq a b.
Proof.
  unfold label_eqb, bytes_eqb, label_fold, label_ci_eq.
  rewrite list_eqb_map.
  apply list_eqb_Forall2. intros x y.
  rewrite N.eqb_eq. symmetry. apply ascii_ci_eq_lower.
Qed.

Lemma label_eqb_fold a b : label_eqb a b = true <-> label_fold a = label_fold b.
Proof. unfold label_eqb, bytes_eqb. apply list_eqb_N_eq. Qed.

Lemma name_eqb_iff (a b : name) : name_eqb a b = true <-> Forall2 (Forall2 ascii_ci_eq) a b.
Proof. unfold name_eqb. apply list_eqb_Forall2. exact label_eqb_iff. Qed.

Lemma name_eqb_fold a b : name_eqb a b = true <-> map label_fold a = map label_fold b.
Proof.
  unfold name_eqb.
  rewrite (list_eqb_Forall2 label_eqb (fun x y => label_fold x = label_fold y))
    by exact label_eqb_fold.
  split.
  - intros H. induction H as [|x y a' b' Hxy _ IH]; cbn [map]; [reflexivity | congruence].
  - revert b. induction a as [|x a IH]; intros [|y b] H; cbn [map] in H;
      try discriminate; constructor.
    + congruence.
    + apply IH. congruence.
Qed.

Lemma name_eqb_refl a : name_eqb a a = true.
Proof. apply name_eqb_fold. reflexivity. Qed.
Lemma name_eqb_sym a b : name_eqb a b = true -> name_eqb b a = true.
Proof. rewrite !name_eqb_fold. congruence. Qed.
Lemma name_eqb_trans a b c : name_eqb a b = true -> name_eqb b c = true -> name_eqb a c = true.
Proof. rewrite !name_eqb_fold. congruence. Qed.

Lemma name_eqb_equiv :
  (forall a, name_eqb a a = true) /\
  (forall a b, name_eqb a b = true -> name_eqb b a = true) /\
  (forall a b c, name_eqb a b = true -> name_eqb b c = true -> name_eqb a c = true).
Proof. split; [exact name_eqb_refl | split; [exact name_eqb_sym | exact name_eqb_trans]]. Qed.

(* the same three facts for the relation itself *)
Lemma name_ci_eq_equiv :
  (forall a, name_ci_eq a a) /\
  (forall a b, name_ci_eq a b -> name_ci_eq b a) /\
  (forall a b c, name_ci_eq a b -> name_ci_eq b c -> name_ci_eq a c).
Proof.
  unfold name_ci_eq. repeat split; intros *; rewrite <- !name_eqb_iff.
  - apply name_eqb_refl.
  - apply name_eqb_sym.
  - apply name_eqb_trans.
Qed.

(* ------------------------------------------------------------------------------------------ *)
(* Hashing                                                                                    *)
(* ------------------------------------------------------------------------------------------ *)
Lemma hash_feed_fold n :
  hash_feed n = lenN (map label_fold n) :: concat (map (fun f => f ++ [255]) (map label_fold n)).
Proof. unfold hash_feed, lenN. rewrite map_length, map_map. reflexivity. Qed.

Lemma hash_feed_eq (a b : name) : name_eqb a b = true -> hash_feed a = hash_feed b.
Proof. intros H. apply name_eqb_fold in H. rewrite !hash_feed_fold, H. reflexivity. Qed.

Section AnyHasher.
  Variable H : list N -> N.
  Lemma hash_any_hasher (a b : name) : name_eqb a b = true -> H (hash_feed a) = H (hash_feed b).
  Proof. intros E. rewrite (hash_feed_eq a b E). reflexivity. Qed.
End AnyHasher.

(* ------------------------------------------------------------------------------------------ *)
(* Limits                                                                                     *)
(* ------------------------------------------------------------------------------------------ *)
Definition label_limits (l : label) : Prop := 1 <= lenN l /\ lenN l <= 63.
Definition name_limits (n : name) : Prop := Forall label_limits n /\ wire_len n <= 255.

Lemma lenN_app {A} (a b : list A) : lenN (a ++ b) = lenN a + lenN b.
Proof. unfold lenN. rewrite app_length. lia. Qed.
Lemma lenN_cons {A} (x : A) (a : list A) : lenN (x :: a) = 1 + lenN a.
Proof. unfold lenN. cbn [length]. lia. Qed.
Lemma lenN_nil A : lenN (@nil A) = 0.
Proof. reflexivity. Qed.

Lemma labels_sum_app (a b : name) : labels_sum (a ++ b) = labels_sum a + labels_sum b.
Proof.
  induction a as [|x a IH]; cbn [app labels_sum]; [lia | rewrite IH; lia].
Qed.

Lemma wire_len_app (a b : name) : wire_len (a ++ b) = wire_len a + lenN b + labels_sum b.
Proof. unfold wire_len. rewrite lenN_app, labels_sum_app. lia. Qed.

Lemma wire_len_snoc (n : name) (l : label) : wire_len (n ++ [l]) = wire_len n + 1 + lenN l.
Proof.
  rewrite wire_len_app. cbn [labels_sum]. rewrite lenN_cons, lenN_nil. lia.
Qed.

Lemma wire_len_nil : wire_len [] = 1.
Proof. reflexivity. Qed.

Lemma check_label_iff (l : label) : check_label l = Ok tt <-> label_limits l.
Proof.
  unfold check_label, label_limits, cmp_apply, OP_check_label, LABEL_MAX_LENGTH.
  destruct (N.eqb_spec (lenN l) 0) as [E0|E0].
  - split; [discriminate | lia].
  - destruct (N.ltb_spec (lenN l) 64) as [E1|E1].
    + split; [lia | reflexivity].
    + split; [discriminate | lia].
Qed.

(* the three outcomes of check_label *)
Lemma check_label_spec (l : label) :
  check_label l =
    if lenN l =? 0 then Err (ELabelEmpty, [])
    else if lenN l <=? 63 then Ok tt
    else Err (ELabelLength, [lenN l]).
Proof.
  unfold check_label, cmp_apply, OP_check_label, LABEL_MAX_LENGTH.
  destruct (lenN l =? 0); [reflexivity|].
  destruct (N.ltb_spec (lenN l) 64) as [E1|E1]; destruct (N.leb_spec (lenN l) 63) as [E2|E2];
    try reflexivity; lia.
Qed.

Lemma append_dl (n : name) (l : label) :
  match n with [] => lenN l + 1 | _ => name_len n + lenN l + 1 end = wire_len (n ++ [l]) - 1.
Proof.
  rewrite wire_len_snoc. unfold wire_len, name_len.
  destruct n as [|x n]; [rewrite lenN_nil; cbn [labels_sum]; lia | lia].
Qed.

Lemma append_label_spec (n : name) (l : label) :
  append_label n l =
    if wire_len (n ++ [l]) <=? 255 then Ok (n ++ [l])
    else Err (EDomainNameLength, [wire_len (n ++ [l]) - 1]).
Proof.
  unfold append_label. cbv zeta. rewrite append_dl.
  unfold cmp_apply, OP_append_label, DOMAIN_NAME_MAX_LENGTH.
  assert (W : 1 <= wire_len (n ++ [l])) by (unfold wire_len; lia).
  destruct (N.leb_spec 255 (wire_len (n ++ [l]) - 1)) as [E1|E1];
  destruct (N.leb_spec (wire_len (n ++ [l])) 255) as [E2|E2]; try reflexivity; lia.
Qed.

Lemma name_limits_snoc (n : name) (l : label) :
  name_limits n -> label_limits l -> wire_len (n ++ [l]) <= 255 -> name_limits (n ++ [l]).
Proof.
  intros [HF _] Hl Hw. split; [|exact Hw].
  apply Forall_app. split; [exact HF | constructor; [exact Hl | constructor]].
Qed.

(* append_label on a valid name and a valid label: accepts exactly when the result is within
   the wire limit, the result is then a valid name; otherwise DomainNameLength *)
Lemma append_label_limits (n : name) (l : label) :
  name_limits n -> check_label l = Ok tt ->
  (append_label n l = Ok (n ++ [l]) <-> wire_len (n ++ [l]) <= 255) /\
  (wire_len (n ++ [l]) <= 255 -> name_limits (n ++ [l])) /\
  (255 < wire_len (n ++ [l]) ->
     append_label n l = Err (EDomainNameLength, [wire_len (n ++ [l]) - 1])).
Proof.
  intros Hn Hl. apply check_label_iff in Hl.
  rewrite append_label_spec.
  destruct (N.leb_spec (wire_len (n ++ [l])) 255) as [E|E].
  - split; [split; [intros _; exact E | reflexivity]|].
    split; [intros _; apply name_limits_snoc; assumption | lia].
  - split; [split; [discriminate | lia]|].
    split; [lia | reflexivity].
Qed.

(* ------------------------------------------------------------------------------------------ *)
(* len() is the length of the printed form                                                    *)
(* ------------------------------------------------------------------------------------------ *)
Lemma display_concat_len (n : name) :
  lenN (concat (map (fun l => l ++ [DOT]) n)) = lenN n + labels_sum n.
Proof.
  induction n as [|x n IH]; cbn [map concat labels_sum].
  - reflexivity.
  - rewrite !lenN_app, IH, !lenN_cons, lenN_nil. lia.
Qed.

Lemma display_len (n : name) : name_len n = lenN (name_display n).
Proof.
  destruct n as [|x n]; [reflexivity|].
  unfold name_len, name_display. rewrite display_concat_len. reflexivity.
Qed.

(* ------------------------------------------------------------------------------------------ *)
(* Text round trip                                                                            *)
(* ------------------------------------------------------------------------------------------ *)
Lemma split_dot_aux_nodot (cur l : bytes) : ~ In DOT l -> split_dot_aux cur l = [rev cur ++ l].
Proof.
  revert cur. induction l as [|c r IH]; intros cur Hn; cbn [split_dot_aux].
  - rewrite app_nil_r. reflexivity.
  - destruct (N.eqb_spec c DOT) as [E|E].
    + exfalso. apply Hn. left. exact E.
    + rewrite IH by (intros Hi; apply Hn; right; exact Hi).
      cbn [rev]. rewrite <- app_assoc. reflexivity.
Qed.

Lemma split_dot_aux_app (cur l rest : bytes) :
  ~ In DOT l ->
  split_dot_aux cur (l ++ DOT :: rest) = (rev cur ++ l) :: split_dot_aux [] rest.
Proof.
  revert cur. induction l as [|c r IH]; intros cur Hn; cbn [split_dot_aux app].
  - rewrite N.eqb_refl, app_nil_r. reflexivity.
  - destruct (N.eqb_spec c DOT) as [E|E].
    + exfalso. apply Hn. left. exact E.
    + rewrite IH by (intros Hi; apply Hn; right; exact Hi).
      cbn [rev]. rewrite <- app_assoc. reflexivity.
Qed.

(* labels joined by dots, no trailing dot *)
Fixpoint inter (l : label) (r : name) : bytes :=
  match r with
  | [] => l
  | l' :: r' => l ++ DOT :: inter l' r'
  end.

Lemma display_inter (l : label) (r : name) : concat (map (fun l => l ++ [DOT]) (l :: r)) = inter l r ++ [DOT].
Proof.
  revert l. induction r as [|l' r IH]; intros l.
  - cbn [map concat inter]. rewrite app_nil_r. reflexivity.
  - change (concat (map (fun l0 => l0 ++ [DOT]) (l :: l' :: r)))
      with ((l ++ [DOT]) ++ concat (map (fun l0 => l0 ++ [DOT]) (l' :: r))).
    rewrite IH. cbn [inter]. rewrite <- !app_assoc. reflexivity.
Qed.

Lemma strip_suffix_dot_snoc (s : bytes) : strip_suffix_dot (s ++ [DOT]) = s.
Proof.
  unfold strip_suffix_dot. rewrite rev_app_distr. cbn [rev app].
  rewrite N.eqb_refl. apply rev_involutive.
Qed.

Lemma split_dot_aux_inter (cur : bytes) (l : label) (r : name) :
  Forall (fun l => ~ In DOT l) (l :: r) ->
  split_dot_aux cur (inter l r) = (rev cur ++ l) :: r.
Proof.
  revert cur l. induction r as [|l' r IH]; intros cur l HF; cbn [inter].
  - apply split_dot_aux_nodot. inversion HF; assumption.
  - inversion HF as [|? ? Hl HF']; subst.
    rewrite split_dot_aux_app by exact Hl.
    rewrite IH by exact HF'. reflexivity.
Qed.

Lemma bytes_eqb_inter_dot (l : label) (r : name) : 1 <= lenN l -> bytes_eqb (inter l r ++ [DOT]) [DOT] = false.
Proof.
  intros Hl. destruct (bytes_eqb (inter l r ++ [DOT]) [DOT]) eqn:E; [|reflexivity].
  exfalso. unfold bytes_eqb in E. apply list_eqb_N_eq in E.
  apply (f_equal lenN) in E. rewrite lenN_app, !lenN_cons, lenN_nil in E.
  destruct r as [|l' r]; cbn [inter] in E; [lia|].
  rewrite lenN_app in E. lia.
Qed.

Lemma append_all_ok (ls : list label) : forall acc : name,
  Forall label_limits ls -> wire_len (acc ++ ls) <= 255 -> append_all acc ls = Ok (acc ++ ls).
Proof.
  induction ls as [|l r IH]; intros acc HF Hw; cbn [append_all].
  - rewrite app_nil_r. reflexivity.
  - inversion HF as [|? ? Hl HF']; subst.
    apply check_label_iff in Hl. rewrite Hl.
    assert (Hsplit : acc ++ l :: r = (acc ++ [l]) ++ r) by (rewrite <- app_assoc; reflexivity).
    rewrite append_label_spec.
    assert (Hw1 : wire_len (acc ++ [l]) <= 255).
    { rewrite Hsplit, wire_len_app in Hw. lia. }
    destruct (N.leb_spec (wire_len (acc ++ [l])) 255) as [E|E]; [|lia].
    rewrite Hsplit. apply IH; [exact HF' | rewrite <- Hsplit; exact Hw].
Qed.

Lemma text_roundtrip (n : name) :
  Forall (fun l => label_limits l /\ ~ In DOT l) n -> wire_len n <= 255 ->
  name_from_str (name_display n) = Ok n.
Proof.
  intros HF Hw. destruct n as [|l r]; [reflexivity|].
  unfold name_from_str, name_display. rewrite display_inter.
  assert (Hlim : Forall label_limits (l :: r)).
  { apply Forall_impl with (2 := HF). intros a [Ha _]. exact Ha. }
  assert (Hdot : Forall (fun l => ~ In DOT l) (l :: r)).
  { apply Forall_impl with (2 := HF). intros a [_ Ha]. exact Ha. }
  rewrite bytes_eqb_inter_dot by (inversion Hlim as [|? ? [H1 _] _]; exact H1).
  rewrite strip_suffix_dot_snoc. unfold split_dot.
  rewrite split_dot_aux_inter by exact Hdot. cbn [rev app].
  apply (append_all_ok (l :: r) []); assumption.
Qed.

Lemma text_roundtrip_root : name_from_str (name_display []) = Ok [].
Proof. reflexivity. Qed.

(* ------------------------------------------------------------------------------------------ *)
(* from_str soundness                                                                         *)
(* ------------------------------------------------------------------------------------------ *)
Lemma append_all_sound (ls : list label) : forall acc n : name,
  name_limits acc -> append_all acc ls = Ok n -> name_limits n /\ n = acc ++ ls.
Proof.
  induction ls as [|l r IH]; intros acc n Hacc H; cbn [append_all] in H.
  - inversion H; subst. rewrite app_nil_r. split; [exact Hacc | reflexivity].
  - destruct (check_label l) as [u| | |] eqn:Hc; try discriminate.
    destruct u.
    rewrite append_label_spec in H.
    destruct (N.leb_spec (wire_len (acc ++ [l])) 255) as [E|E]; [|discriminate].
    apply IH in H.
    + destruct H as [H1 H2]. split; [exact H1|]. rewrite H2, <- app_assoc. reflexivity.
    + apply name_limits_snoc; [exact Hacc | apply check_label_iff; exact Hc | exact E].
Qed.

Lemma name_limits_nil : name_limits [].
Proof. split; [constructor | rewrite wire_len_nil; lia]. Qed.

Lemma from_str_sound (s : bytes) (n : name) : name_from_str s = Ok n -> name_limits n.
Proof.
  unfold name_from_str. destruct (bytes_eqb s [DOT]).
  - intros H. inversion H; subst. exact name_limits_nil.
  - intros H. apply append_all_sound in H; [exact (proj1 H) | exact name_limits_nil].
Qed.

(* every valid name is reachable by appending its labels one by one to the root *)
Lemma append_all_complete (n : name) : name_limits n -> append_all [] n = Ok n.
Proof. intros [HF Hw]. apply (append_all_ok n []); assumption. Qed.

(* from_str fails only with the three limit errors, never panics *)
Lemma append_all_errors (ls : list label) : forall acc : name,
  match append_all acc ls with
  | Ok _ => True
  | Err (ELabelEmpty, _) | Err (ELabelLength, _) | Err (EDomainNameLength, _) => True
  | _ => False
  end.
Proof.
  induction ls as [|l r IH]; intros acc; cbn [append_all]; [exact I|].
  rewrite check_label_spec.
  destruct (lenN l =? 0); [exact I|].
  destruct (lenN l <=? 63); [|exact I].
  rewrite append_label_spec.
  destruct (wire_len (acc ++ [l]) <=? 255); [apply IH | exact I].
Qed.

Lemma from_str_errors (s : bytes) :
  match name_from_str s with
  | Ok _ => True
  | Err (ELabelEmpty, _) | Err (ELabelLength, _) | Err (EDomainNameLength, _) => True
  | _ => False
  end.
Proof.
  unfold name_from_str. destruct (bytes_eqb s [DOT]); [exact I | apply append_all_errors].
Qed.

(* ------------------------------------------------------------------------------------------ *)
(* Wire decoding builds names through the same two checks, so it returns only valid names     *)
(* ------------------------------------------------------------------------------------------ *)
Lemma bind_ok {A B} (m : DM A) (f : A -> DM B) s b s' :
  bind m f s = DOk b s' -> exists a s1, m s = DOk a s1 /\ f a s1 = DOk b s'.
Proof. unfold bind. destruct (m s) as [a s1| | |]; try discriminate. intros H. eauto. Qed.

Lemma lift_ok {A} (r : res A) s a s' : lift r s = DOk a s' -> r = Ok a.
Proof.
  destruct r as [x|e|x|]; unfold lift, ret, fail, panic; try discriminate.
  intros H. inversion H. reflexivity.
Qed.

Lemma domain_name_label_limits (nm : name) length s nm' l s' :
  name_limits nm -> domain_name_label nm length s = DOk (nm', l) s' -> name_limits nm'.
Proof.
  intros Hn H. unfold domain_name_label in H.
  apply bind_ok in H. destruct H as (buf & s1 & _ & H).
  destruct (utf8_valid buf); [|unfold fail in H; discriminate].
  apply bind_ok in H. destruct H as (u & s2 & Hc & H). apply lift_ok in Hc.
  apply bind_ok in H. destruct H as (nm2 & s3 & Ha & H). apply lift_ok in Ha.
  apply bind_ok in H. destruct H as (l2 & s4 & _ & H).
  unfold ret in H. inversion H; subst. destruct u.
  rewrite append_label_spec in Ha.
  destruct (wire_len _ <=? 255) eqn:E; [|discriminate].
  apply N.leb_le in E. inversion Ha; subst.
  apply name_limits_snoc; [exact Hn | apply check_label_iff; exact Hc | exact E].
Qed.

Lemma rec_loop_limits fuel main : forall (nm : name) recs length s n s',
  name_limits nm -> rec_loop fuel main nm recs length s = DOk n s' -> name_limits n.
Proof.
  induction fuel as [|f IH]; intros nm recs length s n s' Hn H; cbn [rec_loop] in H;
    [discriminate|].
  destruct (length =? 0).
  { unfold ret in H. inversion H; subst. exact Hn. }
  destruct (is_compressed length).
  - apply bind_ok in H. destruct H as (buffer & s1 & _ & H).
    cbv zeta in H.
    destruct (existsb _ _); [unfold fail in H; discriminate|].
    destruct (cmp_apply _ _ _); [unfold fail in H; discriminate|].
    apply bind_ok in H. destruct H as (l & s2 & _ & H).
    eapply IH; [exact Hn | exact H].
  - apply bind_ok in H. destruct H as ([nm1 l] & s1 & Hl & H).
    eapply IH; [|exact H].
    eapply domain_name_label_limits; [exact Hn | exact Hl].
Qed.

Lemma name_loop_limits fuel main : forall (nm : name) length s n s',
  name_limits nm -> name_loop fuel main nm length s = DOk n s' -> name_limits n.
Proof.
  induction fuel as [|f IH]; intros nm length s n s' Hn H; cbn [name_loop] in H;
    [discriminate|].
  destruct (length =? 0).
  { unfold ret in H. inversion H; subst. exact Hn. }
  destruct (is_compressed length).
  - apply bind_ok in H. destruct H as (buffer & s1 & _ & H).
    cbv zeta in H.
    match type of H with
    | match ?m with _ => _ end = _ => destruct m as [nm' ds| | |] eqn:Hr; try discriminate
    end.
    inversion H; subst.
    apply bind_ok in Hr. destruct Hr as (l & s2 & _ & Hr).
    eapply rec_loop_limits; [exact Hn | exact Hr].
  - apply bind_ok in H. destruct H as ([nm1 l] & s1 & Hl & H).
    eapply IH; [|exact H].
    eapply domain_name_label_limits; [exact Hn | exact Hl].
Qed.

Lemma domain_name_limits main s n s' : domain_name main s = DOk n s' -> name_limits n.
Proof.
  unfold domain_name. intros H.
  apply bind_ok in H. destruct H as (l & s1 & _ & H).
  eapply name_loop_limits; [exact name_limits_nil | exact H].
Qed.
