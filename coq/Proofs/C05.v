(* C05 — assembly: the full record predicate, the message theorems, the element-level statement in
   explicit form, and the stand-alone entry points (C10). *)
From DNS Require Import Model.Dec Model.Enc Spec.Names
  Proofs.ListN Proofs.NameLayer Proofs.NameLoop Proofs.NameMain
  Proofs.EncTotal Proofs.EncLimits Proofs.EncTyped Proofs.EncBytes
  Proofs.DecBase Proofs.DecName Proofs.DecNameSound Proofs.DecNameComplete
  Proofs.OptBase Proofs.SvcbDec Proofs.SvcbEnc Proofs.SvcbRound
  Proofs.RtBase Proofs.RtPrim Proofs.RtFields Proofs.RtRecord Proofs.RtSpecial Proofs.RtApl Proofs.RtMsg.
Require Import ZArith ZifyBool ZifyN ZifyNat.
Local Open Scope N_scope.
Ltac Zify.zify_post_hook ::= Z.div_mod_to_equations.

(* ---- well-formed records: per dispatch entry ---- *)
Definition rr_wf (r : rr) : bool :=
  match lookup (r_type r) enc_dispatch with
  | Some (WrFields _ _) => plain_wf r
  | Some (WrSpecial SpOpt) => opt_rr_wf r
  | Some (WrSpecial SpApl) => apl_rr_wf r
  | Some (WrSpecial _) => svcb_rr_wf r
  | None => false
  end.

Theorem rt_rr (E : bool) (r : rr) : rr_wf r = true ->
  encP (enc_rr r) /\ decP E (enc_rr r) rr_ (fun r' => rr_eqv r' r).
Proof.
  unfold rr_wf. destruct (lookup (r_type r) enc_dispatch) as [[ec f|[| | |]]|]; intros H; try discriminate.
  - apply rt_rr_plain, H.
  - apply rt_rr_opt, H.
  - apply rt_rr_apl, H.
  - apply rt_rr_svcb, H.
  - apply rt_rr_svcb, H.
Qed.

Lemma rr_wf_bytes_ok (r : rr) : rr_wf r = true -> rr_bytes_ok r.
Proof.
  unfold rr_wf. destruct (lookup (r_type r) enc_dispatch) as [[ec f|[| | |]]|]; intros H; try discriminate.
  - apply plain_wf_bytes_ok, H.
  - apply opt_rr_wf_bytes_ok, H.
  - apply apl_rr_wf_bytes_ok, H.
  - apply svcb_rr_wf_bytes_ok, H.
  - apply svcb_rr_wf_bytes_ok, H.
Qed.

Lemma rr_wf_frame (r : rr) : rr_wf r = true ->
  exists nm ty cls ttl body, name_wf nm = true /\ encP body /\
    forall st, enc_rr r st = rr_frame_enc nm ty cls ttl body st.
Proof.
  unfold rr_wf. destruct (lookup (r_type r) enc_dispatch) as [[ec f|[| | |]]|]; intros H; try discriminate.
  - apply plain_frame, H.
  - apply opt_frame, H.
  - apply apl_frame, H.
  - apply svcb_frame, H.
  - apply svcb_frame, H.
Qed.

Definition dns_wf : dns -> bool := dns_wf_gen rr_wf.
Definition dns_wf_plain : dns -> bool := dns_wf_gen plain_wf.

(* ---- the message theorems ---- *)
Theorem C05_roundtrip_proof : forall (m : dns) (b : bytes),
  dns_wf m = true -> enc_Dns m = Ok b -> exists m' s, dec_Dns b = DOk m' s /\ dns_eqv m' m.
Proof. exact (roundtrip_gen rr_wf (rt_rr false) rr_wf_bytes_ok). Qed.

Theorem C05_roundtrip_plain_proof : forall (m : dns) (b : bytes),
  dns_wf_plain m = true -> enc_Dns m = Ok b -> exists m' s, dec_Dns b = DOk m' s /\ dns_eqv m' m.
Proof. exact (roundtrip_gen plain_wf (rt_rr_plain false) plain_wf_bytes_ok). Qed.

(* ---- the element-level statement, explicit form ---- *)
Lemma InvM_names_ok_ext (st : est) (mask : list bool) (rest : bytes) :
  InvM st mask -> names_ok (e_buf st ++ rest) (e_names st).
Proof.
  intros (HL & _ & H) p n Hin.
  assert (agree mask (e_buf st) (e_buf st ++ rest)) as Ha.
  { split; [rewrite app_length; lia|]. intros i Hi. apply nth_opt_app_l.
    rewrite <- HL. eapply nth_opt_some_lt. exact Hi. }
  destruct (H _ Ha) as [_ Hl]. destruct (Hl _ Hin) as (x & H1 & _ & H3 & _).
  exists x. split; assumption.
Qed.

Theorem element_roundtrip {A} (enc : EM unit) (dec : bytes -> DM A) (R : A -> Prop) :
  encP enc -> decP false enc dec R ->
  forall st mask st', InvM st mask -> enc st = EOk tt st' ->
  exists w mask',
    e_buf st' = e_buf st ++ w /\ InvM st' mask' /\
    forall main rest s,
      main = e_buf st' ++ rest -> bytes_ok main -> lenN main < 2 ^ 62 ->
      dst_wf s -> d_off s <= d_len s -> views main s (lenN (e_buf st)) ->
      lenN w <= d_len s - d_off s ->
      exists v s', dec main s = DOk v s' /\ R v /\
                   d_off s' = d_off s + lenN w /\ d_len s' = d_len s /\
                   dst_wf s' /\ views main s' (lenN (e_buf st')).
Proof.
  intros P D st mask st' HI E.
  destruct (P st mask st' HI E) as ((mw & HI') & _ & w & Hb).
  exists w, (mask ++ mw). split; [exact Hb|]. split; [exact HI'|].
  intros main rest s Hmain Hbok Hlen Wf Hle V Hwin.
  assert (names_ok main (e_names st')) as Hn by (rewrite Hmain; apply (InvM_names_ok_ext st' _ rest HI')).
  pose proof Wf as (W1 & W2 & W3 & W4).
  assert (wst s) as W by (split; [lia|exact W2]).
  set (r := dropN (lenN w) (d_rest s)).
  assert (d_rest s = w ++ r) as Hr.
  { unfold r. rewrite <- (takeN_dropN_id (lenN w) (d_rest s)) at 1. f_equal.
    unfold views in V. rewrite V. rewrite takeN_takeN by lia.
    rewrite Hmain, Hb, <- app_assoc, SvcbDec.dropN_app_exact. apply SvcbDec.takeN_app_exact. }
  destruct (D st mask st' HI E main r (conj Hbok Hlen) Hn ltac:(discriminate)) as (v & Hv & L).
  rewrite (wrote_app st st' w Hb) in L.
  destruct (L s W Hr V) as [c Ec].
  exists v. eexists. split; [exact Ec|]. split; [exact Hv|]. cbn [mkst d_off d_len].
  split; [reflexivity|]. split; [reflexivity|].
  split.
  - apply (wst_views_wf main _ (lenN (e_buf st) + lenN w) Hbok).
    + apply (reads_after s w r c W Hr).
    + apply (views_after main s _ w r c W Hr V).
  - rewrite Hb, ListN.lenN_app. apply (views_after main s _ w r c W Hr V).
Qed.

Theorem C05_element_rr_proof : forall (r : rr) (st : est) (mask : list bool) (st' : est),
  rr_wf r = true -> InvM st mask -> enc_rr r st = EOk tt st' ->
  exists w mask',
    e_buf st' = e_buf st ++ w /\ InvM st' mask' /\
    forall main rest s,
      main = e_buf st' ++ rest -> bytes_ok main -> lenN main < 2 ^ 62 ->
      dst_wf s -> d_off s <= d_len s -> views main s (lenN (e_buf st)) ->
      lenN w <= d_len s - d_off s ->
      exists r' s', rr_ main s = DOk r' s' /\ rr_eqv r' r /\
                    d_off s' = d_off s + lenN w /\ d_len s' = d_len s /\
                    dst_wf s' /\ views main s' (lenN (e_buf st')).
Proof.
  intros r st mask st' Hwf HI E. destruct (rt_rr false r Hwf) as [P D].
  exact (element_roundtrip (enc_rr r) rr_ (fun r' => rr_eqv r' r) P D st mask st' HI E).
Qed.

Theorem C05_element_name_proof : forall (n : name) (st : est) (mask : list bool) (st' : est),
  name_wf n = true -> InvM st mask -> enc_domain_name n st = EOk tt st' ->
  exists w mask',
    e_buf st' = e_buf st ++ w /\ InvM st' mask' /\
    forall main rest s,
      main = e_buf st' ++ rest -> bytes_ok main -> lenN main < 2 ^ 62 ->
      dst_wf s -> d_off s <= d_len s -> views main s (lenN (e_buf st)) ->
      lenN w <= d_len s - d_off s ->
      exists n' s', domain_name main s = DOk n' s' /\ name_eqv n' n /\
                    d_off s' = d_off s + lenN w /\ d_len s' = d_len s /\
                    dst_wf s' /\ views main s' (lenN (e_buf st')).
Proof.
  intros n st mask st' Hwf HI E.
  exact (element_roundtrip (enc_domain_name n) domain_name (fun v => name_eqv v n)
           (encP_name_wf n Hwf) (rt_name n Hwf) st mask st' HI E).
Qed.

(* ================================================================================================ *)
(* C10: the stand-alone entry points                                                                 *)
(* ================================================================================================ *)
Theorem standalone {A} (enc : EM unit) (dec : bytes -> DM A) (R : A -> Prop) (b : bytes) :
  encP enc -> decP true enc dec R ->
  (forall st', enc e_init = EOk tt st' -> lenN (e_buf st') < 2 ^ 62) ->
  (erun enc = Ok b -> bytes_ok b) ->
  erun enc = Ok b -> exists v s, run dec b = DOk v s /\ R v.
Proof.
  intros P D Hsize Hbytes Hrun. pose proof (Hbytes Hrun) as Hbok.
  unfold erun in Hrun. destruct (enc e_init) as [[] stF|e|x|] eqn:E; try discriminate.
  injection Hrun as Hb. pose proof (Hsize stF eq_refl) as Hlen. rewrite Hb in Hlen.
  destruct (P e_init [] stF InvM_init E) as ((mw & HIF) & _ & w & Hbuf).
  cbn [e_init e_buf app] in Hbuf.
  pose proof (InvM_names_ok stF _ HIF) as Hn. rewrite Hb in Hn.
  destruct (D e_init [] stF InvM_init E b [] (conj Hbok Hlen) Hn (fun _ => eq_refl)) as (v & Hv & L).
  rewrite (wrote_app e_init stF w Hbuf) in L.
  assert (wst (mk_main b)) as W.
  { unfold wst, mk_main. cbn [d_rest d_off d_len]. split; [lia|unfold WFMAX; lia]. }
  destruct (L (mk_main b) W) as [c Ec].
  { cbn [mk_main d_rest]. rewrite app_nil_r, <- Hb. exact Hbuf. }
  { apply mk_main_views. }
  exists v. eexists. split; [exact Ec|exact Hv].
Qed.

Theorem C10_roundtrip_RR_proof : forall (r : rr) (b : bytes),
  rr_wf r = true -> enc_RR r = Ok b -> exists r' s, dec_RR b = DOk r' s /\ rr_eqv r' r.
Proof.
  intros r b Hwf Henc. destruct (rt_rr true r Hwf) as [P D].
  apply (standalone (enc_rr r) rr_ (fun r' => rr_eqv r' r) b P D); [| |exact Henc].
  - intros st' E. destruct (rr_wf_frame r Hwf) as (nm & ty & cls & ttl & body & Hn & Pb & Hfr).
    rewrite Hfr in E. pose proof (frame_size nm ty cls ttl body e_init [] st' InvM_init Hn Pb E) as Hs.
    cbn [e_init e_buf] in Hs. change (lenN (@nil N)) with 0 in Hs. lia.
  - apply enc_RR_bytes_ok, rr_wf_bytes_ok, Hwf.
Qed.

Theorem C10_roundtrip_Question_proof : forall (q : question) (b : bytes),
  question_wf q = true -> enc_Question q = Ok b ->
  exists q' s, dec_Question b = DOk q' s /\ question_eqv q' q.
Proof.
  intros q b Hwf Henc. destruct (rt_question true q Hwf) as [P D].
  destruct (question_wf_inv q Hwf) as (Hn & _).
  apply (standalone (enc_question q) question_ (fun q' => question_eqv q' q) b P D); [| |exact Henc].
  - intros st' E. unfold enc_question in E. unfold ebind at 1 in E.
    destruct (enc_domain_name (q_name q) e_init) as [[] s1|e|x|] eqn:E1; try discriminate.
    destruct (name_size _ _ _ _ InvM_init Hn E1) as [Hs _].
    unfold eu16 in E. rewrite ebind_put, EncLimits.put_eq in E. injection E as <-.
    rewrite sput_sput, e_buf_sput, ListN.lenN_app. cbn [e_init e_buf] in Hs. change (lenN (@nil N)) with 0 in Hs.
    change (lenN (u16b (q_type q) ++ u16b (q_class q))) with 4. lia.
  - apply enc_Question_bytes_ok. unfold question_bytes_ok. apply name_wf_bytes_ok, Hn.
Qed.

Theorem C10_roundtrip_DomainName_proof : forall (n : name) (b : bytes),
  name_wf n = true -> enc_DomainName n = Ok b ->
  exists n' s, dec_DomainName b = DOk n' s /\ name_eqv n' n.
Proof.
  intros n b Hwf Henc.
  apply (standalone (enc_domain_name n) domain_name (fun v => name_eqv v n) b
           (encP_name_wf n Hwf) (decP_end true _ _ _ (rt_name n Hwf))); [| |exact Henc].
  - intros st' E. destruct (name_size _ _ _ _ InvM_init Hwf E) as [Hs _].
    cbn [e_init e_buf] in Hs. change (lenN (@nil N)) with 0 in Hs. lia.
  - apply enc_DomainName_bytes_ok. apply name_wf_bytes_ok, Hwf.
Qed.

Theorem C10_roundtrip_Flags_proof : forall (f : flags) (b : bytes),
  flags_wf f = true -> enc_Flags f = Ok b -> exists s, dec_Flags b = DOk f s.
Proof.
  intros f b Hwf Henc.
  assert (enc_Flags f = Ok (u8b (flags_octet f 0) ++ u8b (flags_octet f 1))) as E by reflexivity.
  assert (b = u8b (flags_octet f 0) ++ u8b (flags_octet f 1)) as -> by congruence.
  pose proof (flags_roundtrip f Hwf) as C. unfold flags_check in C.
  destruct (dec_Flags (u8b (flags_octet f 0) ++ u8b (flags_octet f 1))) as [f' s0| | |]; try discriminate.
  apply flags_eqb_eq in C. subst f'. exists s0. reflexivity.
Qed.
