(* Questions, header flags, whole messages, and the five entry points. *)
From Coq Require Import ZArith ZifyBool ZifyN ZifyNat.
From DNS Require Import Model.Dec Spec.Names Spec.Iana Spec.Wire Proofs.DecBase Proofs.Enum
  Proofs.DecNameSound Proofs.CorrBase Proofs.CorrPrim Proofs.CorrFields Proofs.CorrRecord.
Local Open Scope N_scope.

(* ---- header flags: both formulations as pure functions, compared on all 65,536 words ---- *)
Definition mflags (b0 b1 : N) : option flags :=
  let opcode := fbit DEC_FLAG_opcode b0 0 in
  if negb (in_table Opcode_table opcode) then None
  else
    let z := fbit DEC_FLAG_z b0 b1 in
    if negb (z =? 0) then None
    else
      let rcode := fbit DEC_FLAG_rcode b0 b1 in
      if negb (in_table RCode_table rcode) then None
      else Some {| f_qr := negb (fbit DEC_FLAG_qr b0 b1 =? 0); f_opcode := opcode;
                   f_aa := negb (fbit DEC_FLAG_aa b0 b1 =? 0); f_tc := negb (fbit DEC_FLAG_tc b0 b1 =? 0);
                   f_rd := negb (fbit DEC_FLAG_rd b0 b1 =? 0); f_ra := negb (fbit DEC_FLAG_ra b0 b1 =? 0);
                   f_ad := negb (fbit DEC_FLAG_ad b0 b1 =? 0); f_cd := negb (fbit DEC_FLAG_cd b0 b1 =? 0);
                   f_rcode := rcode |}.

Definition sflags (w : N) : option flags :=
  let opcode := bits4 w 11 in let rcode := bits4 w 0 in
  if mem opcode (codes iana_Opcode) && negb (testb w 6) && mem rcode (codes iana_RCode) then
    Some {| f_qr := testb w 15; f_opcode := opcode; f_aa := testb w 10; f_tc := testb w 9; f_rd := testb w 8;
            f_ra := testb w 7; f_ad := testb w 5; f_cd := testb w 4; f_rcode := rcode |}
  else None.

Definition flags_eqb (f g : flags) : bool :=
  Bool.eqb (f_qr f) (f_qr g) && (f_opcode f =? f_opcode g) && Bool.eqb (f_aa f) (f_aa g) &&
  Bool.eqb (f_tc f) (f_tc g) && Bool.eqb (f_rd f) (f_rd g) && Bool.eqb (f_ra f) (f_ra g) &&
  Bool.eqb (f_ad f) (f_ad g) && Bool.eqb (f_cd f) (f_cd g) && (f_rcode f =? f_rcode g).
Lemma flags_eqb_eq (f g : flags) : flags_eqb f g = true -> f = g.
Proof.
  destruct f as [x1 x2 x3 x4 x5 x6 x7 x8 x9], g as [y1 y2 y3 y4 y5 y6 y7 y8 y9]. unfold flags_eqb. cbn [f_qr f_opcode f_aa f_tc f_rd f_ra f_ad f_cd f_rcode].
  rewrite !andb_true_iff. intros ((((((((H1 & H2) & H3) & H4) & H5) & H6) & H7) & H8) & H9).
  apply Bool.eqb_prop in H1, H3, H4, H5, H6, H7, H8. apply N.eqb_eq in H2, H9. subst. reflexivity.
Qed.
Definition oflags_eqb (x y : option flags) : bool :=
  match x, y with Some f, Some g => flags_eqb f g | None, None => true | _, _ => false end.
Definition flags_word_ok (w : N) : bool :=
  oflags_eqb (mflags (w / 256) (w mod 256)) (sflags w) &&
  (in_table Opcode_table (fbit DEC_FLAG_opcode (w / 256) 0) || match sflags w with None => true | Some _ => false end).
Lemma flags_words_all : forallb flags_word_ok (nrange 65536) = true.
Proof. vm_compute. reflexivity. Qed.

Ltac Zify.zify_post_hook ::= Z.div_mod_to_equations.
Lemma flags_word (b0 b1 : N) : b0 < 256 -> b1 < 256 -> mflags b0 b1 = sflags (b0 * 256 + b1).
Proof.
  intros H0 H1.
  assert (Hw : b0 * 256 + b1 < 65536) by lia.
  pose proof (proj1 (forallb_forall _ _) flags_words_all (b0 * 256 + b1) (nrange_in _ _ Hw)) as G.
  unfold flags_word_ok in G. apply andb_prop in G. destruct G as (G & _).
  replace ((b0 * 256 + b1) / 256) with b0 in G by lia. replace ((b0 * 256 + b1) mod 256) with b1 in G by lia.
  destruct (mflags b0 b1) as [f|], (sflags (b0 * 256 + b1)) as [g|]; cbn [oflags_eqb] in G; try discriminate;
    [f_equal; apply flags_eqb_eq; exact G|reflexivity].
Qed.
Ltac Zify.zify_post_hook ::= idtac.

(* the reference reads the flag word as one 16-bit number; split it into its two octets *)
Lemma num1_eq (b : bytes) (a e : N) :
  num 1 b a e = if a + 1 <=? e then match dropN a b with x :: _ => Some (x, a + 1) | [] => None end else None.
Proof.
  unfold num, octets. cbv zeta. destruct (a + 1 <=? e); [|reflexivity].
  destruct (dropN a b) as [|x r]; reflexivity.
Qed.
Lemma num2_eq (b : bytes) (a e : N) :
  num 2 b a e = if a + 2 <=? e
                then match dropN a b with x0 :: x1 :: _ => Some (x0 * 256 + x1, a + 2) | _ => None end
                else None.
Proof.
  unfold num, octets. cbv zeta. destruct (a + 2 <=? e); [|reflexivity].
  destruct (dropN a b) as [|x0 [|x1 r]]; reflexivity.
Qed.
Lemma num2_split (b : bytes) (a e : N) :
  num 2 b a e = (x0 <~ num 1 ;; x1 <~ num 1 ;; pret (x0 * 256 + x1)) b a e.
Proof.
  unfold pbind, pret. rewrite num2_eq, num1_eq.
  assert (D : dropN (a + 1) b = dropN 1 (dropN a b)) by (rewrite dropN_dropN; reflexivity).
  destruct (a + 1 <=? e) eqn:E1.
  - destruct (dropN a b) as [|x0 r] eqn:Ed.
    + destruct (a + 2 <=? e); reflexivity.
    + rewrite num1_eq, D. replace (a + 1 + 1) with (a + 2) by lia.
      destruct (a + 2 <=? e); [|reflexivity]. destruct r as [|x1 r']; reflexivity.
  - assert (a + 2 <=? e = false) as -> by lia. reflexivity.
Qed.

(* ---- whole message: the reference parser followed by "limit reached exactly" ---- *)
Definition pend {A} (p : P A) : P A := fun b a e =>
  match p b a e with Some (v, a') => if a' =? e then Some (v, a') else None | None => None end.
Lemma pend_bind {A B} (p : P A) (g : A -> P B) (b : bytes) (a e : N) :
  pend (pbind p g) b a e = pbind p (fun x => pend (g x)) b a e.
Proof. unfold pend, pbind. destruct (p b a e) as [[x a1]|]; reflexivity. Qed.
Lemma whole_pend {A} (p : P A) (b : bytes) :
  whole p b = match pend p b 0 (lenN b) with Some (v, _) => Some v | None => None end.
Proof.
  unfold whole, pend. destruct (p b 0 (lenN b)) as [[v a']|]; [|reflexivity].
  destruct (a' =? lenN b); reflexivity.
Qed.

Section Main.
Variable main : bytes.
Hypothesis Hb : bytes_ok main.
Hypothesis Hm : lenN main < 2 ^ 62.
Set Default Proof Using "Hb Hm".

Notation corr := (corr main).
Notation post := (post main).
Local Notation corr_u8 := (corr_u8 main Hb Hm).
Local Notation corr_u16 := (corr_u16 main Hb Hm).
Local Notation corr_name := (corr_name main Hb Hm).
Local Notation corr_bind_assoc := (corr_bind_assoc main Hb Hm).
Local Notation post_num1 := (post_num1 main Hb Hm).

(* ---- question ---- *)
Lemma corr_question : corr (question_ main) Wire.question.
Proof.
  unfold question_, Wire.question, rd_q_type, rd_q_class, code.
  apply corr_bind; [apply corr_name|]. intro n.
  apply corr_bind_assoc. apply corr_bind; [apply corr_u16|]. intro t. rewrite tab_QType.
  destruct (mem t (codes iana_QType)).
  - apply (corr_bind_assoc u16). apply corr_bind; [apply corr_u16|]. intro c. rewrite tab_QClass.
    cbn [andb]. destruct (mem c (codes iana_QClass)); [apply (corr_ret main)|apply (corr_fail main)].
  - apply (corr_ext main (fail (EQType, [t])) _ pnone); [reflexivity| |apply corr_fail].
    intros a e. unfold pbind, pnone. destruct (num 2 main a e) as [[c a1]|]; reflexivity.
Qed.

(* ---- flags ---- *)
Lemma corr_flags : corr Dec.flags_ Wire.flags_.
Proof.
  apply (corr_ext main Dec.flags_ _
           (b0 <~ num 1 ;; b1 <~ num 1 ;;
            match sflags (b0 * 256 + b1) with Some f => pret f | None => pnone end)); [reflexivity| |].
  { intros a e. symmetry. unfold Wire.flags_. unfold pbind at 1. rewrite num2_split. unfold pbind, pret.
    destruct (num 1 main a e) as [[b0 a1]|]; [|reflexivity].
    destruct (num 1 main a1 e) as [[b1 a2]|]; [|reflexivity].
    unfold sflags. cbv zeta.
    match goal with |- context [if ?c then _ else _] => destruct c end; reflexivity. }
  unfold Dec.flags_.
  apply (corr_bind_post main _ _ _ _ (fun v => v < 256)); [apply corr_u8|apply post_num1|]. intros b0 H0.
  cbv zeta. destruct (in_table Opcode_table (fbit DEC_FLAG_opcode b0 0)) eqn:Eop; cbn [negb].
  - apply (corr_bind_post main _ _ _ _ (fun v => v < 256)); [apply corr_u8|apply post_num1|]. intros b1 H1.
    cbv zeta. rewrite <- (flags_word b0 b1 H0 H1). unfold mflags. cbv zeta. rewrite Eop. cbn [negb].
    destruct (negb (fbit DEC_FLAG_z b0 b1 =? 0)); [apply corr_fail|].
    destruct (negb (in_table RCode_table (fbit DEC_FLAG_rcode b0 b1))); [apply corr_fail|apply corr_ret].
  - intros s a e Hi. unfold pbind.
    destruct (num 1 main a e) as [[b1 a1]|] eqn:E1; [|exact I].
    assert (H1 : b1 < 256). { destruct (inv_bounds main _ _ _ Hi) as (_ & He & _). exact (post_num1 a e b1 a1 He E1). }
    rewrite <- (flags_word b0 b1 H0 H1). unfold mflags. cbv zeta. rewrite Eop. exact I.
Qed.

(* ---- message ---- *)
Definition dns_body : DM dns :=
  id <- u16 ;;
  fl <- Dec.flags_ ;;
  qc <- u16 ;; ac <- u16 ;; nc <- u16 ;; rc <- u16 ;;
  qd <- repeat_dm (N.to_nat qc) (question_ main) ;;
  an <- repeat_dm (N.to_nat ac) (rr_ main) ;;
  ns <- repeat_dm (N.to_nat nc) (rr_ main) ;;
  ar <- repeat_dm (N.to_nat rc) (rr_ main) ;;
  fin <- is_finished ;;
  if fin then ret {| m_id := id; m_flags := fl; m_qd := qd; m_an := an; m_ns := ns; m_ar := ar |}
  else fun s' => DErr (ERemainingBytes, [d_off s']) (d_cost s').

Lemma corr_end {A} (v : A) (f : dst -> err) (g : dst -> N) :
  corr (fin <- is_finished ;; if fin then ret v else fun s' => DErr (f s') (g s')) (pend (pret v)).
Proof.
  intros s a e Hi. unfold bind, pend, pret.
  destruct (is_finished_inv main Hb Hm s a e Hi) as [(Ea & ->)|(Ea & ->)].
  - assert (a =? e = true) as -> by lia. apply agree_ret. exact Hi.
  - assert (a =? e = false) as -> by lia. exact I.
Qed.

Lemma corr_message : corr dns_body (pend message).
Proof.
  apply (corr_ext main dns_body _
    (id <~ num 2 ;; fl <~ Wire.flags_ ;;
     qc <~ num 2 ;; ac <~ num 2 ;; nc <~ num 2 ;; rc <~ num 2 ;;
     qd <~ times (N.to_nat qc) Wire.question ;;
     an <~ times (N.to_nat ac) record ;;
     ns <~ times (N.to_nat nc) record ;;
     ar <~ times (N.to_nat rc) record ;;
     pend (pret {| m_id := id; m_flags := fl; m_qd := qd; m_an := an; m_ns := ns; m_ar := ar |})));
    [reflexivity| |].
  { intros a e. unfold message. symmetry.
    do 10 (rewrite pend_bind; apply CorrAddr.pbind_ext; intros ? ? ?). reflexivity. }
  unfold dns_body.
  apply corr_bind; [apply corr_u16|]. intro id.
  apply corr_bind; [apply corr_flags|]. intro fl.
  apply corr_bind; [apply corr_u16|]. intro qc.
  apply corr_bind; [apply corr_u16|]. intro ac.
  apply corr_bind; [apply corr_u16|]. intro nc.
  apply corr_bind; [apply corr_u16|]. intro rc.
  apply corr_bind; [apply (corr_times main Hb Hm), corr_question|]. intro qd.
  apply corr_bind; [apply (corr_times main Hb Hm), (corr_record main Hb Hm)|]. intro an.
  apply corr_bind; [apply (corr_times main Hb Hm), (corr_record main Hb Hm)|]. intro ns.
  apply corr_bind; [apply (corr_times main Hb Hm), (corr_record main Hb Hm)|]. intro ar.
  apply corr_end.
Qed.

End Main.
Unset Default Proof Using.

(* ---- entry points ---- *)
Lemma inv_mk_main (b : bytes) : bytes_ok b -> lenN b < 2 ^ 62 -> inv b (mk_main b) 0 (lenN b).
Proof.
  intros Hb Hm. split; [apply mk_main_wf; [exact Hb|rewrite WFMAX_val; exact Hm]|].
  split; [apply mk_main_views|]. cbn [mk_main d_off d_len]. split; [lia|]. split; lia.
Qed.

Lemma agree_iff {A} (main : bytes) s a e (r : dres A) (o : option (A * N)) : agree main s a e r o ->
  forall v, (exists s', r = DOk v s') <-> (exists a', o = Some (v, a')).
Proof.
  intros H v. destruct r as [v0 s0| | |]; destruct o as [[v1 a1]|]; cbn [agree CorrBase.agree] in H;
    try contradiction.
  - destruct H as (-> & _). split; intros (x & Hx); injection Hx as ->; eauto.
  - split; intros (x & Hx); discriminate.
  - split; intros (x & Hx); discriminate.
  - split; intros (x & Hx); discriminate.
Qed.

Lemma prefix_of_iff {A} (p : P A) (b : bytes) (v : A) :
  prefix_of p b = Some v <-> exists a', p b 0 (lenN b) = Some (v, a').
Proof.
  unfold prefix_of. destruct (p b 0 (lenN b)) as [[v0 a0]|]; split.
  - intro H. injection H as ->. eauto.
  - intros (a' & H). injection H as -> _. reflexivity.
  - discriminate.
  - intros (a' & H). discriminate.
Qed.

Lemma entry_iff {A} (m : bytes -> DM A) (p : P A) (b : bytes) :
  bytes_ok b -> lenN b < 2 ^ 62 -> corr b (m b) p ->
  forall v, (exists s, run m b = DOk v s) <-> prefix_of p b = Some v.
Proof.
  intros Hb Hm Hc v. rewrite prefix_of_iff. unfold run.
  apply (agree_iff b (mk_main b) 0 (lenN b)). apply Hc. apply inv_mk_main; assumption.
Qed.

Theorem dec_spec_iff_RR (b : bytes) : bytes_ok b -> lenN b < 2 ^ 62 ->
  forall r, (exists s, dec_RR b = DOk r s) <-> spec_RR b = Some r.
Proof. intros Hb Hm. apply (entry_iff rr_ record b Hb Hm). apply corr_record; assumption. Qed.

Theorem dec_spec_iff_Question (b : bytes) : bytes_ok b -> lenN b < 2 ^ 62 ->
  forall q, (exists s, dec_Question b = DOk q s) <-> spec_Question b = Some q.
Proof. intros Hb Hm. apply (entry_iff question_ Wire.question b Hb Hm). apply corr_question; assumption. Qed.

Theorem dec_spec_iff_Flags (b : bytes) : bytes_ok b -> lenN b < 2 ^ 62 ->
  forall f, (exists s, dec_Flags b = DOk f s) <-> spec_Flags b = Some f.
Proof.
  intros Hb Hm. apply (entry_iff (fun _ => Dec.flags_) Wire.flags_ b Hb Hm). apply corr_flags; assumption.
Qed.

Theorem dec_spec_iff_DomainName (b : bytes) : bytes_ok b -> lenN b < 2 ^ 62 ->
  forall n, (exists s, dec_DomainName b = DOk n s) <-> spec_DomainName b = Some n.
Proof. intros Hb Hm. apply (entry_iff domain_name pname b Hb Hm). apply corr_name; assumption. Qed.

Lemma dns_unfold (b : bytes) :
  dec_Dns b = if lenN b <? 12 then DErr (ENotEnoughBytes, [lenN b; 12]) 0
              else if 65536 <? lenN b then DErr (EDnsPacketTooBig, [lenN b]) 0
              else dns_body b (mk_main b).
Proof. reflexivity. Qed.

Theorem dec_spec_iff_Dns (b : bytes) : bytes_ok b ->
  forall m, (exists s, dec_Dns b = DOk m s) <-> spec_Dns b = Some m.
Proof.
  intros Hb m. rewrite dns_unfold. unfold spec_Dns.
  destruct (lenN b <? 12) eqn:E1.
  - assert (12 <=? lenN b = false) as -> by lia. cbn [andb]. split; [intros (s & H); discriminate|discriminate].
  - assert (12 <=? lenN b = true) as -> by lia. cbn [andb].
    destruct (65536 <? lenN b) eqn:E2.
    + assert (lenN b <=? 65536 = false) as -> by lia. split; [intros (s & H); discriminate|discriminate].
    + assert (lenN b <=? 65536 = true) as -> by lia.
      assert (Hm : lenN b < 2 ^ 62) by (rewrite <- WFMAX_val; unfold WFMAX; lia).
      rewrite whole_pend.
      pose proof (corr_message b Hb Hm (mk_main b) 0 (lenN b) (inv_mk_main b Hb Hm)) as G.
      pose proof (agree_iff b _ _ _ _ _ G m) as Hiff. rewrite Hiff.
      destruct (pend message b 0 (lenN b)) as [[v a']|]; split.
      * intros (a0 & H). injection H as -> _. reflexivity.
      * intro H. injection H as ->. eauto.
      * intros (a0 & H). discriminate.
      * discriminate.
Qed.
