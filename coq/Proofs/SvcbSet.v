(* C16, part 1: the SvcParams set model ([set_insert], BTreeSet with the key-only Ord) and the
   encoder's [sort_keys] (sort_unstable on the mandatory key list). *)
From Coq Require Import Sorted Permutation.
From DNS Require Import Model.Enc.
Require Import ZArith ZifyBool ZifyN ZifyNat.
Local Open Scope N_scope.

(* strictly increasing keys: sorted and duplicate-free *)
Definition keys_sorted (ps : list svcparam) : Prop :=
  StronglySorted (fun a b => param_key a < param_key b) ps.

Lemma keys_sorted_nil : keys_sorted [].
Proof. constructor. Qed.

Lemma keys_sorted_cons_inv (q : svcparam) (r : list svcparam) :
  keys_sorted (q :: r) -> keys_sorted r /\ Forall (fun b => param_key q < param_key b) r.
Proof. intros H. inversion H; subst. split; assumption. Qed.

Lemma set_insert_nil (p : svcparam) : set_insert p [] = ([p], true).
Proof. reflexivity. Qed.

Lemma set_insert_cons (p q : svcparam) (r : list svcparam) :
  set_insert p (q :: r) =
  if param_key p <? param_key q then (p :: q :: r, true)
  else if param_key p =? param_key q then (q :: r, false)
  else (q :: fst (set_insert p r), snd (set_insert p r)).
Proof. cbn [set_insert]. destruct (set_insert p r). reflexivity. Qed.

Lemma set_insert_In (p : svcparam) (s : list svcparam) :
  forall x, In x (fst (set_insert p s)) -> x = p \/ In x s.
Proof.
  induction s as [|q r IH]; intros x H.
  - rewrite set_insert_nil in H. cbn [fst In] in H. destruct H as [H|[]]. left. congruence.
  - rewrite set_insert_cons in H.
    destruct (param_key p <? param_key q) eqn:E1.
    + cbn [fst] in H. destruct H as [H|H]; [left; congruence|right; exact H].
    + destruct (param_key p =? param_key q) eqn:E2.
      * cbn [fst] in H. right. exact H.
      * cbn [fst] in H. destruct H as [H|H]; [right; left; exact H|].
        destruct (IH _ H) as [H1|H1]; [left; exact H1|right; right; exact H1].
Qed.

(* 1a. insertion keeps the set strictly sorted by key *)
Lemma set_insert_sorted (p : svcparam) (s : list svcparam) :
  keys_sorted s -> keys_sorted (fst (set_insert p s)).
Proof.
  induction s as [|q r IH]; intros H.
  - rewrite set_insert_nil. cbn [fst]. constructor; constructor.
  - destruct (keys_sorted_cons_inv _ _ H) as [Hr Hq].
    rewrite set_insert_cons.
    destruct (param_key p <? param_key q) eqn:E1.
    + cbn [fst]. constructor; [exact H|].
      apply N.ltb_lt in E1. constructor; [exact E1|].
      rewrite Forall_forall in *. intros x Hx. specialize (Hq x Hx). lia.
    + destruct (param_key p =? param_key q) eqn:E2.
      * cbn [fst]. exact H.
      * cbn [fst]. constructor; [apply IH; exact Hr|].
        rewrite Forall_forall in *. intros x Hx.
        destruct (set_insert_In _ _ _ Hx) as [->|Hx']; [|apply Hq; exact Hx'].
        apply N.ltb_ge in E1. apply N.eqb_neq in E2. lia.
Qed.

(* 1b. the insertion is refused exactly when the key is already present ... *)
Lemma set_insert_false_exists (p : svcparam) (s : list svcparam) :
  snd (set_insert p s) = false -> exists q, In q s /\ param_key q = param_key p.
Proof.
  induction s as [|q r IH]; intros H.
  - rewrite set_insert_nil in H. discriminate.
  - rewrite set_insert_cons in H.
    destruct (param_key p <? param_key q) eqn:E1; [discriminate|].
    destruct (param_key p =? param_key q) eqn:E2.
    + apply N.eqb_eq in E2. exists q. split; [left; reflexivity|symmetry; exact E2].
    + cbn [snd] in H. destruct (IH H) as (x & Hx & Hk). exists x. split; [right; exact Hx|exact Hk].
Qed.

Lemma set_insert_exists_false (p : svcparam) (s : list svcparam) :
  keys_sorted s -> (exists q, In q s /\ param_key q = param_key p) -> snd (set_insert p s) = false.
Proof.
  induction s as [|q r IH]; intros Hs (x & Hx & Hk).
  - destruct Hx.
  - destruct (keys_sorted_cons_inv _ _ Hs) as [Hr Hq].
    rewrite set_insert_cons.
    destruct (param_key p <? param_key q) eqn:E1.
    + exfalso. apply N.ltb_lt in E1. destruct Hx as [->|Hx]; [lia|].
      rewrite Forall_forall in Hq. specialize (Hq x Hx). lia.
    + destruct (param_key p =? param_key q) eqn:E2; [reflexivity|].
      cbn [snd]. apply IH; [exact Hr|].
      destruct Hx as [->|Hx]; [apply N.eqb_neq in E2; congruence|].
      exists x. split; assumption.
Qed.

Lemma set_insert_dup_iff (p : svcparam) (s : list svcparam) :
  keys_sorted s ->
  (snd (set_insert p s) = false <-> exists q, In q s /\ param_key q = param_key p).
Proof.
  intros Hs. split; [apply set_insert_false_exists|apply set_insert_exists_false; exact Hs].
Qed.

(* ... and then the set is unchanged (the first of two equal keys is kept) *)
Lemma set_insert_false_same (p : svcparam) (s : list svcparam) :
  snd (set_insert p s) = false -> fst (set_insert p s) = s.
Proof.
  induction s as [|q r IH]; intros H.
  - rewrite set_insert_nil in H. discriminate.
  - rewrite set_insert_cons in *.
    destruct (param_key p <? param_key q) eqn:E1; [discriminate|].
    destruct (param_key p =? param_key q) eqn:E2; [reflexivity|].
    cbn [fst snd] in *. rewrite (IH H). reflexivity.
Qed.

(* an accepted insertion adds exactly the new element *)
Lemma set_insert_true_perm (p : svcparam) (s : list svcparam) :
  snd (set_insert p s) = true -> Permutation (p :: s) (fst (set_insert p s)).
Proof.
  induction s as [|q r IH]; intros H.
  - rewrite set_insert_nil. apply Permutation_refl.
  - rewrite set_insert_cons in *.
    destruct (param_key p <? param_key q) eqn:E1; [apply Permutation_refl|].
    destruct (param_key p =? param_key q) eqn:E2; [discriminate|].
    cbn [fst snd] in *. eapply perm_trans; [apply perm_swap|]. apply perm_skip. apply IH. exact H.
Qed.

(* a key above every key of the set goes to the end *)
Lemma set_insert_last (p : svcparam) (s : list svcparam) :
  (forall q, In q s -> param_key q < param_key p) -> set_insert p s = (s ++ [p], true).
Proof.
  induction s as [|q r IH]; intros H; [reflexivity|].
  rewrite set_insert_cons.
  assert (param_key q < param_key p) as Hq by (apply H; left; reflexivity).
  destruct (param_key p <? param_key q) eqn:E1; [apply N.ltb_lt in E1; lia|].
  destruct (param_key p =? param_key q) eqn:E2; [apply N.eqb_eq in E2; lia|].
  rewrite IH by (intros x Hx; apply H; right; exact Hx). reflexivity.
Qed.

(* 1c. every set built by insertions from the empty set (the public API and the decoder) *)
Definition set_add (s : list svcparam) (p : svcparam) : list svcparam := fst (set_insert p s).
Definition set_of (l : list svcparam) : list svcparam := fold_left set_add l [].

Lemma fold_insert_sorted (l : list svcparam) : forall s : list svcparam,
  keys_sorted s -> keys_sorted (fold_left set_add l s).
Proof.
  induction l as [|p l IH]; intros s H; [exact H|].
  cbn [fold_left]. apply IH. unfold set_add. apply set_insert_sorted. exact H.
Qed.

Lemma set_of_sorted (l : list svcparam) : keys_sorted (set_of l).
Proof. apply fold_insert_sorted. apply keys_sorted_nil. Qed.

(* the key sequence of a sorted set is strictly increasing, hence duplicate-free *)
Lemma keys_sorted_map (ps : list svcparam) :
  keys_sorted ps -> StronglySorted N.lt (map param_key ps).
Proof.
  induction 1 as [|q r Hr IH Hq]; cbn [map]; constructor; [exact IH|].
  rewrite Forall_forall in *. intros k Hk. apply in_map_iff in Hk.
  destruct Hk as (x & <- & Hx). apply Hq. exact Hx.
Qed.

Lemma keys_sorted_NoDup (ps : list svcparam) : keys_sorted ps -> NoDup (map param_key ps).
Proof.
  intros H. apply keys_sorted_map in H.
  induction H as [|k r Hr IH Hk]; constructor; [|exact IH].
  intros Hin. rewrite Forall_forall in Hk. specialize (Hk _ Hin). lia.
Qed.

Lemma keys_sorted_app_inv (a b : list svcparam) :
  keys_sorted (a ++ b) ->
  keys_sorted a /\ keys_sorted b /\ forall x y, In x a -> In y b -> param_key x < param_key y.
Proof.
  induction a as [|q a IH]; cbn [app]; intros H.
  - split; [constructor|]. split; [exact H|]. intros x y [].
  - destruct (keys_sorted_cons_inv _ _ H) as [Hr Hq]. destruct (IH Hr) as (Ha & Hb & Hab).
    rewrite Forall_forall in Hq.
    split.
    + constructor; [exact Ha|]. rewrite Forall_forall. intros x Hx. apply Hq. apply in_or_app. left. exact Hx.
    + split; [exact Hb|]. intros x y [<-|Hx] Hy; [apply Hq; apply in_or_app; right; exact Hy|].
      apply Hab; assumption.
Qed.

(* ---- sort_keys: the mandatory list as written ---- *)
Lemma insert_sorted_perm (x : N) (l : list N) : Permutation (x :: l) (insert_sorted x l).
Proof.
  induction l as [|y r IH]; cbn [insert_sorted]; [apply Permutation_refl|].
  destruct (x <=? y); [apply Permutation_refl|].
  eapply perm_trans; [apply perm_swap|]. apply perm_skip. exact IH.
Qed.

Lemma sort_keys_perm (l : list N) : Permutation l (sort_keys l).
Proof.
  unfold sort_keys. induction l as [|x l IH]; cbn [fold_right]; [constructor|].
  eapply perm_trans; [apply perm_skip; exact IH|]. apply insert_sorted_perm.
Qed.

Lemma insert_sorted_hd (x a : N) (l : list N) :
  a <= x -> HdRel N.le a l -> HdRel N.le a (insert_sorted x l).
Proof.
  intros Hax H. destruct l as [|y r]; cbn [insert_sorted]; [constructor; exact Hax|].
  destruct (x <=? y); constructor; [exact Hax|]. inversion H; subst. assumption.
Qed.

Lemma insert_sorted_sorted (x : N) (l : list N) : Sorted N.le l -> Sorted N.le (insert_sorted x l).
Proof.
  induction l as [|y r IH]; intros H; cbn [insert_sorted].
  - constructor; constructor.
  - destruct (x <=? y) eqn:E.
    + apply N.leb_le in E. constructor; [exact H|]. constructor. exact E.
    + apply N.leb_gt in E. inversion H; subst.
      constructor; [apply IH; assumption|]. apply insert_sorted_hd; [lia|assumption].
Qed.

Lemma sort_keys_sorted (l : list N) : Sorted N.le (sort_keys l).
Proof.
  unfold sort_keys. induction l as [|x l IH]; cbn [fold_right]; [constructor|].
  apply insert_sorted_sorted. exact IH.
Qed.

Lemma sort_keys_In (l : list N) (x : N) : In x (sort_keys l) <-> In x l.
Proof.
  split; intros H.
  - eapply Permutation_in; [apply Permutation_sym; apply sort_keys_perm|exact H].
  - eapply Permutation_in; [apply sort_keys_perm|exact H].
Qed.

Lemma sort_keys_length (l : list N) : length (sort_keys l) = length l.
Proof. symmetry. apply Permutation_length. apply sort_keys_perm. Qed.

Lemma sort_keys_Forall (P : N -> Prop) (l : list N) : Forall P l -> Forall P (sort_keys l).
Proof.
  rewrite !Forall_forall. intros H x Hx. apply H. apply sort_keys_In. exact Hx.
Qed.

(* sorting an already sorted list changes nothing: the decoded value re-encodes identically *)
Lemma insert_sorted_id (x : N) (l : list N) : HdRel N.le x l -> insert_sorted x l = x :: l.
Proof.
  intros H. destruct l as [|y r]; [reflexivity|]. cbn [insert_sorted].
  inversion H; subst. destruct (x <=? y) eqn:E; [reflexivity|]. apply N.leb_gt in E. lia.
Qed.

Lemma sort_keys_idem_sorted (l : list N) : Sorted N.le l -> sort_keys l = l.
Proof.
  unfold sort_keys. induction 1 as [|x l Hl IH Hx]; cbn [fold_right]; [reflexivity|].
  rewrite IH. apply insert_sorted_id. exact Hx.
Qed.

Lemma sort_keys_idem (l : list N) : sort_keys (sort_keys l) = sort_keys l.
Proof. apply sort_keys_idem_sorted. apply sort_keys_sorted. Qed.
