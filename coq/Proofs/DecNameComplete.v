(* Completeness of the name reader with respect to the reference semantics Spec.Names.expand:
   every name that the reference expands within 17 hops into a legal name, and whose own octets lie
   inside the window, is accepted with exactly that expansion.  The proof simulates the decoder
   along the reference expansion to exclude an error outcome; totality, soundness and the bounds
   theorem then identify the result. *)
From Coq Require Import ZifyBool ZifyN ZifyNat.
From DNS Require Import Model.Dec Spec.Names Proofs.DecBase Proofs.DecName Proofs.DecNameSpec
  Proofs.DecNameSound Proofs.DecNameCyclic.
Local Open Scope N_scope.

(* a legal name: labels of 1..63 octets of valid UTF-8, at most 255 octets on the wire *)
Definition name_legal (n : name) : Prop := Forall label_ok n /\ wire_len n <= 255.

Lemma name_legal_alt (n : name) :
  name_legal n <->
  Forall (fun l : label => 1 <= lenN l /\ lenN l <= 63 /\ utf8_valid l = true) n /\ wire_len n <= 255.
Proof. unfold name_legal. split; intro H; exact H. Qed.

(* the reference's length is the model's *)
Lemma name_wire_len_eq (n : name) : name_wire_len n = wire_len n.
Proof.
  unfold name_wire_len, wire_len. f_equal.
  induction n as [|l r IH]; [reflexivity|].
  cbn [labels_total labels_sum]. rewrite IH, lenN_cons. lia.
Qed.

Lemma tl_cons (l : label) (n : name) : tl (l :: n) = lenN l + 1 + tl n.
Proof. unfold tl. cbn [labels_sum]. rewrite lenN_cons. lia. Qed.

(* ---- facts about the reference segment reader ---- *)
Lemma seg_start k (buf : bytes) (o : N) r : seg k buf o = Some r -> exists l, nthN o buf = Some l.
Proof.
  destruct k as [|k]; [discriminate|]. rewrite seg_S.
  destruct (nthN o buf) as [l|]; [|discriminate]. intros _. exists l. reflexivity.
Qed.

Lemma seg_bounds k : forall (buf : bytes) (o : N) ls t e,
  seg k buf o = Some (ls, t, e) -> o + 1 <= e /\ e <= lenN buf.
Proof.
  induction k as [|k IH]; intros buf o ls t e E; [discriminate|].
  rewrite seg_S in E.
  destruct (nthN o buf) as [l|] eqn:E0; [|discriminate].
  apply nthN_lt in E0.
  destruct (l =? 0) eqn:E1.
  { injection E as _ _ <-. lia. }
  destruct (192 <=? l) eqn:E2.
  { destruct (nthN (o + 1) buf) as [l2|] eqn:E3; [|discriminate].
    apply nthN_lt in E3. injection E as _ _ <-. lia. }
  destruct (l <? 64) eqn:E3; [|discriminate]. cbv zeta in E.
  destruct (lenN (takeN l (dropN (o + 1) buf)) =? l) eqn:E4; [|discriminate].
  destruct (seg k buf (o + 1 + l)) as [[[ls' t'] e']|] eqn:E5; [|discriminate].
  injection E as _ _ <-. apply IH in E5. lia.
Qed.

(* one step of the reference, by the kind of the length octet *)
Lemma seg_inv k (buf : bytes) (p len : N) r : nthN p buf = Some len -> seg (S k) buf p = Some r ->
  (len = 0 /\ r = ([], None, p + 1)) \/
  (192 <= len /\ exists b, nthN (p + 1) buf = Some b /\ r = ([], Some (target len b), p + 2)) \/
  (1 <= len /\ len < 64 /\ lenN (takeN len (dropN (p + 1) buf)) = len /\
   exists r', seg k buf (p + 1 + len) = Some r' /\
              Some r = seg_cons (takeN len (dropN (p + 1) buf)) (Some r')).
Proof.
  intros Hp E. rewrite seg_S, Hp in E.
  destruct (len =? 0) eqn:E1.
  { left. injection E as <-. split; [lia|reflexivity]. }
  destruct (192 <=? len) eqn:E2.
  { right. left. destruct (nthN (p + 1) buf) as [b|]; [|discriminate].
    injection E as <-. split; [lia|]. exists b. split; reflexivity. }
  destruct (len <? 64) eqn:E3; [|discriminate]. cbv zeta in E.
  destruct (lenN (takeN len (dropN (p + 1) buf)) =? len) eqn:E4; [|discriminate].
  right. right. split; [lia|]. split; [lia|]. split; [lia|].
  destruct (seg k buf (p + 1 + len)) as [[[ls' t'] e']|]; [|discriminate].
  exists (ls', t', e'). split; [reflexivity|]. cbn [seg_cons]. symmetry. exact E.
Qed.

Lemma expand_with_end r h (buf : bytes) x : expand_with r h buf = Some x ->
  exists ls t, r = Some (ls, t, x_end x).
Proof.
  intro E. apply expand_with_inv in E.
  destruct E as [(ls & e & -> & ->)|(ls & t & e & h' & x' & -> & _ & _ & ->)].
  - exists ls, None. reflexivity.
  - exists ls, (Some t). reflexivity.
Qed.

Lemma expand_with_cons_inv lab r h (buf : bytes) x :
  expand_with (seg_cons lab r) h buf = Some x ->
  exists x', expand_with r h buf = Some x' /\ x = x_cons lab x'.
Proof.
  destruct r as [[[ls [t|]] e]|]; cbn [seg_cons expand_with]; try discriminate.
  - destruct h as [|h]; [discriminate|]. destruct (expand h buf t) as [x0|]; [|discriminate].
    intro E. injection E as <-. exists (x_ptr ls t e x0). split; reflexivity.
  - intro E. injection E as <-. exists (x_lit ls e). split; reflexivity.
Qed.

Lemma expand_start h (buf : bytes) (o : N) x : expand h buf o = Some x -> exists l, nthN o buf = Some l.
Proof.
  rewrite expand_unfold. intro E. apply expand_with_end in E. destruct E as (ls & t & E).
  eapply seg_start; eauto.
Qed.

Lemma expand_bounds h (buf : bytes) (o : N) x : expand h buf o = Some x ->
  o + 1 <= x_end x /\ x_end x <= lenN buf.
Proof.
  rewrite expand_unfold. intro E. apply expand_with_end in E. destruct E as (ls & t & E).
  eapply seg_bounds; eauto.
Qed.

Theorem expand_end_le h (buf : bytes) (o : N) x : expand h buf o = Some x -> x_end x <= lenN buf.
Proof. intro E. apply (expand_bounds _ _ _ _ E). Qed.

(* ---- "not an error" ---- *)
Definition noerr {A} (r : dres A) : Prop := match r with DErr _ _ => False | _ => True end.

(* ---- forward characterisations of one decoder step ---- *)
Lemma label_complete (nm : name) (len : N) s (l : N) : dst_wf s ->
  1 <= len -> len < 64 -> d_off s + len + 1 <= d_len s ->
  utf8_valid (takeN len (d_rest s)) = true -> tl nm + len + 1 <= 254 ->
  nthN len (d_rest s) = Some l ->
  domain_name_label nm len s = DOk (nm ++ [takeN len (d_rest s)], l) (adv (len + 1) s).
Proof.
  intros W H1 H2 Ho Hu Ht Hn. unfold domain_name_label, bind.
  rewrite (read_wf len s W) by lia.
  destruct (d_off s + len <=? d_len s) eqn:E1; [|lia].
  assert (Hlen : lenN (takeN len (d_rest s)) = len) by (apply read_len; [exact W|lia]).
  rewrite Hu, check_label_eq, Hlen.
  destruct (len =? 0) eqn:E3; [lia|]. destruct (len <? 64) eqn:E4; [|lia].
  cbn [lift]. unfold ret at 1. rewrite append_label_eq, Hlen.
  destruct (255 <=? tl nm + len + 1) eqn:E5; [lia|].
  cbn [lift]. unfold ret at 1.
  assert (W1 : dst_wf (adv len s)) by (apply adv_wf; [exact W|lia]).
  destruct (u8_wf _ W1) as [(Ho1 & b & Hb & Hb256 & Hu8)|(Ho1 & Hu8)]; rewrite Hu8.
  - rewrite adv_adv. cbn [adv d_rest] in Hb. rewrite nthN_dropN in Hb.
    replace (len + 0) with len in Hb by lia. rewrite Hn in Hb. injection Hb as <-. reflexivity.
  - cbn [adv d_off d_len] in Ho1. lia.
Qed.

Section Main.
Variable main : bytes.
Hypothesis Hb : bytes_ok main.
Hypothesis Hm : lenN main < WFMAX.

Lemma rec_loop_g_lab f (nm : name) (recs : list N) (len : N) s : len <> 0 -> len < 192 ->
  rec_loop_g (S f) main nm recs len s =
  match domain_name_label nm len s with
  | DOk (nm', l) s' => rec_loop_g f main nm' recs l s'
  | DErr e c => DErr e c
  | DPanic x => DPanic x
  | DFuel => DFuel
  end.
Proof.
  intros H0 H1. rewrite rec_loop_g_S.
  destruct (len =? 0) eqn:E0; [lia|]. rewrite (is_compressed_byte len) by lia.
  destruct (192 <=? len) eqn:E1; [lia|]. unfold bind.
  destruct (domain_name_label nm len s) as [[nm' l] s'| | |]; reflexivity.
Qed.

Lemma name_loop_g_lab f (nm : name) (len : N) s : len <> 0 -> len < 192 ->
  name_loop_g (S f) main nm len s =
  match domain_name_label nm len s with
  | DOk (nm', l) s' => name_loop_g f main nm' l s'
  | DErr e c => DErr e c
  | DPanic x => DPanic x
  | DFuel => DFuel
  end.
Proof.
  intros H0 H1. rewrite name_loop_g_S.
  destruct (len =? 0) eqn:E0; [lia|]. rewrite (is_compressed_byte len) by lia.
  destruct (192 <=? len) eqn:E1; [lia|]. unfold bind.
  destruct (domain_name_label nm len s) as [[nm' l] s'| | |]; reflexivity.
Qed.

Lemma rec_loop_g_ptr f (nm : name) (recs : list N) (len : N) s (b l : N) : dst_wf s ->
  192 <= len -> len < 256 -> d_off s + 1 <= d_len s -> nthN 0 (d_rest s) = Some b ->
  ~ In (target len b) recs -> lenN recs + 1 <= 16 -> nthN (target len b) main = Some l ->
  rec_loop_g (S f) main nm recs len s =
  rec_loop_g f main nm (target len b :: recs) l (jump main (target len b + 1) (d_cost s + 2)).
Proof.
  intros W H1 H2 Ho Hn Hni Hr Ht.
  destruct (rec_step main f nm recs len s Hb Hm W H2) as (o & Hs & ->).
  inversion Hs; subst; cbn [rec_run]; try lia;
    match goal with
    | H : nthN 0 (d_rest s) = Some ?b0 |- _ => rewrite Hn in H; injection H as <-
    end.
  - contradiction.
  - apply nthN_lt in Ht. lia.
  - match goal with H : nthN (target len b) main = Some _ |- _ => rewrite Ht in H; injection H as <- end.
    reflexivity.
Qed.

Lemma name_loop_g_ptr f (nm : name) (len : N) s (b l : N) : dst_wf s ->
  192 <= len -> len < 256 -> d_off s + 1 <= d_len s -> nthN 0 (d_rest s) = Some b ->
  nthN (target len b) main = Some l ->
  name_loop_g (S f) main nm len s =
  jump_run main nm (target len b) l (adv 1 s) (jump main (target len b + 1) (d_cost s + 2)).
Proof.
  intros W H1 H2 Ho Hn Ht.
  destruct (name_step main f nm len s Hb Hm W H2) as (o & Hs & ->).
  inversion Hs; subst; cbn [name_run]; try lia;
    match goal with
    | H : nthN 0 (d_rest s) = Some ?b0 |- _ => rewrite Hn in H; injection H as <-
    end.
  - apply nthN_lt in Ht. lia.
  - match goal with H : nthN (target len b) main = Some _ |- _ => rewrite Ht in H; injection H as <- end.
    reflexivity.
Qed.

(* ---- the simulation: along a reference expansion into a legal name, no error ---- *)
Lemma rec_loop_noerr : forall f (nm : name) (recs : list N) (len : N) s (p : N) k h x,
  dst_wf s -> views main s (p + 1) -> nthN p main = Some len ->
  expand_with (seg k main p) h main = Some x ->
  x_end x + d_off s <= p + 1 + d_len s ->
  (h + length recs <= 16)%nat ->
  NoDup (targets x) -> (forall t : N, In t (targets x) -> ~ In t recs) ->
  Forall label_ok (x_name x) -> tl nm + tl (x_name x) <= 254 ->
  noerr (rec_loop_g f main nm recs len s).
Proof.
  induction f as [|f IH]; intros nm recs len s p k h x W V Hp HX Hw Hh Hnd Hfr Hlab Htl; [exact I|].
  assert (Hl : len < 256) by (eapply bytes_ok_nth; eauto).
  destruct k as [|k]; [discriminate|].
  destruct (seg (S k) main p) as [r|] eqn:ES; [|discriminate].
  destruct (seg_inv k main p len r Hp ES)
    as [(H0 & ->)|[(H1 & b & Hb1 & ->)|(H1 & H2 & H3 & r' & ES' & Hr)]].
  - (* terminator *)
    subst len. rewrite rec_loop_g_S, N.eqb_refl. exact I.
  - (* pointer *)
    apply expand_with_inv in HX.
    destruct HX as [(ls & e & R & _)|(ls & t & e & h' & x' & R & -> & E' & ->)]; [discriminate|].
    injection R as <- <- <-.
    unfold targets in Hnd, Hfr. cbn [x_ptr x_ptrs map snd] in Hnd, Hfr. fold (targets x') in Hnd, Hfr.
    cbn [x_ptr x_end x_name app] in Hw, Hlab, Htl.
    assert (Hb0 : nthN 0 (d_rest s) = Some b).
    { rewrite (view_nth0 main s (p + 1) V) by lia. exact Hb1. }
    assert (Hb256 : b < 256) by (eapply bytes_ok_nth; eauto).
    assert (Ht' : target len b < 16384) by (apply target_lt; lia).
    destruct (expand_start _ _ _ _ E') as (l & Hnl).
    assert (Hrl : lenN recs = N.of_nat (length recs)) by reflexivity.
    rewrite (rec_loop_g_ptr f nm recs len s b l W) by
      (try assumption; try lia; apply Hfr; left; reflexivity).
    inversion Hnd as [|t0 ts Hnt Hnd']; subst.
    apply (IH nm (target len b :: recs) l _ (target len b) SEGFUEL h' x').
    + apply jump_wf; try assumption. unfold WFMAX. lia.
    + apply jump_views.
    + exact Hnl.
    + rewrite <- expand_unfold. exact E'.
    + pose proof (expand_end_le _ _ _ _ E'). cbn [jump d_off d_len]. lia.
    + cbn [length]. lia.
    + exact Hnd'.
    + intros u Hu [Hi|Hi]; [subst u; contradiction|]. apply (Hfr u); [right; exact Hu|exact Hi].
    + exact Hlab.
    + exact Htl.
  - (* label *)
    rewrite Hr in HX. apply expand_with_cons_inv in HX. destruct HX as (x' & HX' & ->).
    cbn [x_cons x_end x_name] in Hw, Hlab, Htl. unfold targets in Hnd, Hfr.
    cbn [x_cons x_ptrs] in Hnd, Hfr. fold (targets x') in Hnd, Hfr.
    rewrite tl_cons, H3 in Htl.
    destruct (expand_with_end _ _ _ _ HX') as (ls' & t' & Er'). injection Er' as ->.
    destruct (seg_bounds _ _ _ _ _ _ ES') as (B1 & B2).
    destruct (seg_start _ _ _ _ ES') as (l & Hnl).
    inversion Hlab as [|lab0 rest Hl0 Hrest]; subst.
    assert (Hlab' : takeN len (d_rest s) = takeN len (dropN (p + 1) main))
      by (apply view_take; [exact V|lia]).
    destruct Hl0 as (_ & _ & Hutf).
    rewrite rec_loop_g_lab by lia.
    assert (Hu' : utf8_valid (takeN len (d_rest s)) = true) by (rewrite Hlab'; exact Hutf).
    assert (Hn' : nthN len (d_rest s) = Some l).
    { rewrite (view_nth main s (p + 1) len V) by lia. rewrite <- Hnl. f_equal; lia. }
    rewrite (label_complete nm len s l W H1 H2 ltac:(lia) Hu' ltac:(lia) Hn').
    apply (IH _ recs l _ (p + 1 + len) k h x').
    + apply adv_wf; [exact W|lia].
    + replace (p + 1 + len + 1) with (p + 1 + (len + 1)) by lia. apply adv_views; [exact V|lia].
    + exact Hnl.
    + rewrite ES'. exact HX'.
    + cbn [adv d_off d_len]. lia.
    + exact Hh.
    + exact Hnd.
    + exact Hfr.
    + exact Hrest.
    + rewrite tl_snoc, Hlab', H3. lia.
Qed.

Lemma jump_run_noerr (nm : name) (t l : N) s1 s2 :
  noerr (rec_loop_g NAMEFUEL main nm [] l s2) -> noerr (jump_run main nm t l s1 s2).
Proof.
  unfold jump_run. destruct (rec_loop_g NAMEFUEL main nm [] l s2) as [[n rs] ds| | |]; intro H; exact H.
Qed.

Lemma name_loop_noerr : forall f (nm : name) (len : N) s (p : N) k h x,
  dst_wf s -> views main s (p + 1) -> nthN p main = Some len ->
  expand_with (seg k main p) h main = Some x ->
  x_end x + d_off s <= p + 1 + d_len s ->
  (h <= 17)%nat ->
  Forall label_ok (x_name x) -> tl nm + tl (x_name x) <= 254 ->
  noerr (name_loop_g f main nm len s).
Proof.
  induction f as [|f IH]; intros nm len s p k h x W V Hp HX Hw Hh Hlab Htl; [exact I|].
  assert (Hl : len < 256) by (eapply bytes_ok_nth; eauto).
  destruct k as [|k]; [discriminate|].
  destruct (seg (S k) main p) as [r|] eqn:ES; [|discriminate].
  destruct (seg_inv k main p len r Hp ES)
    as [(H0 & ->)|[(H1 & b & Hb1 & ->)|(H1 & H2 & H3 & r' & ES' & Hr)]].
  - subst len. rewrite name_loop_g_S, N.eqb_refl. exact I.
  - apply expand_with_inv in HX.
    destruct HX as [(ls & e & R & _)|(ls & t & e & h' & x' & R & -> & E' & ->)]; [discriminate|].
    injection R as <- <- <-.
    cbn [x_ptr x_end x_name app] in Hw, Hlab, Htl.
    assert (Hb0 : nthN 0 (d_rest s) = Some b).
    { rewrite (view_nth0 main s (p + 1) V) by lia. exact Hb1. }
    assert (Hb256 : b < 256) by (eapply bytes_ok_nth; eauto).
    assert (Ht' : target len b < 16384) by (apply target_lt; lia).
    destruct (expand_start _ _ _ _ E') as (l & Hnl).
    rewrite (name_loop_g_ptr f nm len s b l W) by (try assumption; lia).
    apply jump_run_noerr.
    apply (rec_loop_noerr NAMEFUEL nm [] l _ (target len b) SEGFUEL h' x').
    + apply jump_wf; try assumption. unfold WFMAX. lia.
    + apply jump_views.
    + exact Hnl.
    + rewrite <- expand_unfold. exact E'.
    + pose proof (expand_end_le _ _ _ _ E'). cbn [jump d_off d_len]. lia.
    + cbn [length]. lia.
    + eapply expand_nodup; eauto.
    + intros u _ [].
    + exact Hlab.
    + exact Htl.
  - rewrite Hr in HX. apply expand_with_cons_inv in HX. destruct HX as (x' & HX' & ->).
    cbn [x_cons x_end x_name] in Hw, Hlab, Htl.
    rewrite tl_cons, H3 in Htl.
    destruct (expand_with_end _ _ _ _ HX') as (ls' & t' & Er'). injection Er' as ->.
    destruct (seg_bounds _ _ _ _ _ _ ES') as (B1 & B2).
    destruct (seg_start _ _ _ _ ES') as (l & Hnl).
    inversion Hlab as [|lab0 rest Hl0 Hrest]; subst.
    assert (Hlab' : takeN len (d_rest s) = takeN len (dropN (p + 1) main))
      by (apply view_take; [exact V|lia]).
    destruct Hl0 as (_ & _ & Hutf).
    rewrite name_loop_g_lab by lia.
    assert (Hu' : utf8_valid (takeN len (d_rest s)) = true) by (rewrite Hlab'; exact Hutf).
    assert (Hn' : nthN len (d_rest s) = Some l).
    { rewrite (view_nth main s (p + 1) len V) by lia. rewrite <- Hnl. f_equal; lia. }
    rewrite (label_complete nm len s l W H1 H2 ltac:(lia) Hu' ltac:(lia) Hn').
    apply (IH _ l _ (p + 1 + len) k h x').
    + apply adv_wf; [exact W|lia].
    + replace (p + 1 + len + 1) with (p + 1 + (len + 1)) by lia. apply adv_views; [exact V|lia].
    + exact Hnl.
    + rewrite ES'. exact HX'.
    + cbn [adv d_off d_len]. lia.
    + exact Hh.
    + exact Hrest.
    + rewrite tl_snoc, Hlab', H3. lia.
Qed.

Lemma domain_name_g_noerr s (a : N) x : dst_wf s -> views main s a ->
  expand 17 main a = Some x -> name_legal (x_name x) ->
  x_end x <= a + (d_len s - d_off s) ->
  noerr (domain_name_g main s).
Proof.
  intros W V E (Hlab & Hwl) Hw.
  destruct (expand_bounds _ _ _ _ E) as (B1 & B2).
  unfold domain_name_g, bind.
  destruct (u8_wf s W) as [(Ho & b & Hn & Hb256 & Hu)|(Ho & Hu)]; rewrite Hu; [|lia].
  assert (Ha : nthN a main = Some b).
  { rewrite <- (view_nth0 main s a V) by lia. exact Hn. }
  rewrite expand_unfold in E.
  apply (name_loop_noerr NAMEFUEL [] b (adv 1 s) a SEGFUEL 17%nat x).
  - apply adv_wf; [exact W|lia].
  - apply adv_views; [exact V|lia].
  - exact Ha.
  - exact E.
  - cbn [adv d_off d_len]. lia.
  - lia.
  - exact Hlab.
  - rewrite tl_nil. rewrite wire_len_tl in Hwl. lia.
Qed.

(* an accepted name ends inside its window *)
Lemma name_loop_g_off : forall f (nm : name) (len : N) s n tg s',
  dst_wf s -> len < 256 -> d_off s <= d_len s ->
  name_loop_g f main nm len s = DOk (n, tg) s' -> d_off s' <= d_len s'.
Proof.
  induction f as [|f IH]; intros nm len s n tg s' W Hl Ho E; [discriminate|].
  destruct (name_step main f nm len s Hb Hm W Hl) as (o & Hs & Er). rewrite Er in E. clear Er.
  inversion Hs; subst; cbn [name_run] in E; try discriminate.
  - injection E as _ _ <-. exact Ho.
  - unfold jump_run in E.
    destruct (rec_loop_g NAMEFUEL main nm [] l (jump main (target len b + 1) (d_cost s + 2)))
      as [[nm' rs] ds| | |]; try discriminate.
    injection E as _ _ <-. cbn [set_cost adv d_off d_len]. lia.
  - match goal with HL : lab_step _ _ _ _ |- _ => pose proof (lab_step_inv _ _ _ _ _ _ HL) as HI end.
    destruct HI as (I1 & I2 & I3 & I4 & I5 & I6 & I7 & I8 & _).
    apply (IH (nm ++ [takeN len (d_rest s)]) l (adv (len + 1) s) n tg s');
      [apply adv_wf; [exact W|lia]|exact I8| |exact E].
    cbn [adv d_off d_len]. lia.
Qed.
End Main.

Theorem name_end_in_window (main : bytes) s (n : name) s' :
  bytes_ok main -> lenN main < WFMAX -> dst_wf s ->
  domain_name main s = DOk n s' -> d_off s' <= d_len s'.
Proof.
  intros Hb Hm W E. destruct (erase_ok _ _ _ _ E) as (tg & Eg).
  unfold domain_name_g, bind in Eg.
  destruct (u8_wf s W) as [(Ho & b & Hn & Hb256 & Hu)|(Ho & Hu)]; rewrite Hu in Eg; [|discriminate].
  apply (name_loop_g_off main Hb Hm) in Eg; [exact Eg|apply adv_wf; [exact W|lia]|exact Hb256|].
  cbn [adv d_off d_len]. lia.
Qed.

(* ---- completeness ---- *)
Theorem name_complete : forall (main : bytes) s (a : N) x,
  bytes_ok main -> lenN main < 2 ^ 62 -> dst_wf s -> views main s a ->
  expand 17 main a = Some x -> name_legal (x_name x) ->
  x_end x <= a + (d_len s - d_off s) ->
  exists s', domain_name main s = DOk (x_name x) s' /\
             d_off s' = d_off s + (x_end x - a) /\ d_len s' = d_len s /\
             d_rest s' = dropN (x_end x - a) (d_rest s) /\ d_cost s <= d_cost s'.
Proof.
  intros main s a x Hb Hm W V E Hleg Hw. rewrite <- WFMAX_val in Hm.
  pose proof (domain_name_g_noerr main Hb Hm s a x W V E Hleg Hw) as Hne.
  pose proof (name_cost main s Hb Hm W) as Hc.
  destruct (name_total main s Hb Hm W) as [(n & s' & Ed)|(e & c & Ed)].
  2:{ exfalso. rewrite domain_name_erase in Ed.
      destruct (domain_name_g main s) as [[n0 tg] s0| | |]; cbn [dres_map] in Ed; try discriminate.
      exact Hne. }
  destruct (name_sound main s a n s' Hb Hm W V Ed) as (x0 & X1 & X2 & X3 & _).
  rewrite E in X1. injection X1 as <-. subst n.
  destruct (name_bounds main s _ s' Hb Hm W Ed) as (_ & B2 & B3 & B4 & _).
  rewrite Ed in Hc. destruct Hc as (Hc & _).
  exists s'. split; [exact Ed|]. split; [lia|]. split; [exact B2|].
  split; [rewrite B4; f_equal; lia|exact Hc].
Qed.

(* the whole-message window: a fresh decoder at offset [a] of the message *)
Theorem name_complete_main : forall (main : bytes) (a c : N) x,
  bytes_ok main -> lenN main < 2 ^ 62 ->
  expand 17 main a = Some x -> name_legal (x_name x) ->
  exists s', domain_name main (jump main a c) = DOk (x_name x) s' /\
             d_off s' = x_end x /\ d_len s' = lenN main /\
             d_rest s' = dropN (x_end x) main /\ c <= d_cost s'.
Proof.
  intros main a c x Hb Hm E Hleg.
  destruct (expand_bounds _ _ _ _ E) as (B1 & B2).
  assert (W : dst_wf (jump main a c)).
  { apply jump_wf; [exact Hb|rewrite WFMAX_val; exact Hm|rewrite WFMAX_val; lia]. }
  destruct (name_complete main (jump main a c) a x Hb Hm W (jump_views main a c) E Hleg)
    as (s' & R1 & R2 & R3 & R4 & R5).
  { cbn [jump d_len d_off]. lia. }
  cbn [jump d_off d_len d_rest d_cost] in R2, R3, R4, R5.
  exists s'. split; [exact R1|]. split; [lia|]. split; [exact R3|].
  split; [|exact R5]. rewrite R4, dropN_dropN. f_equal. lia.
Qed.

Lemma mk_main_jump (main : bytes) : mk_main main = jump main 0 0.
Proof. reflexivity. Qed.

(* ---- acceptance is exactly: expandable within 17 hops, legal, inside the window ---- *)
Theorem name_accept_iff : forall (main : bytes) s (a : N) (n : name),
  bytes_ok main -> lenN main < 2 ^ 62 -> dst_wf s -> views main s a ->
  ((exists s', domain_name main s = DOk n s') <->
   (exists x, expand 17 main a = Some x /\ x_name x = n /\ name_legal n /\
              x_end x <= a + (d_len s - d_off s))).
Proof.
  intros main s a n Hb Hm W V. split.
  - intros (s' & Ed). pose proof Hm as Hm'. rewrite <- WFMAX_val in Hm'.
    destruct (name_sound main s a n s' Hb Hm' W V Ed) as (x & X1 & X2 & X3 & _).
    destruct (name_bounds main s n s' Hb Hm' W Ed) as (_ & B2 & B3 & _ & B5 & B6).
    pose proof (name_end_in_window main s n s' Hb Hm' W Ed) as Hin.
    exists x. split; [exact X1|]. split; [exact X2|]. split; [split; assumption|]. lia.
  - intros (x & E & <- & Hleg & Hw).
    destruct (name_complete main s a x Hb Hm W V E Hleg Hw) as (s' & R & _).
    exists s'. exact R.
Qed.
