(* C04 (renderings) — header flags, questions, and the whole message, for any record acceptance lemma. *)
From Coq Require Import ZArith ZifyBool ZifyN ZifyNat.
From DNS Require Import Model.Dec Model.Enc Spec.Names Spec.Iana Spec.Wire Spec.Render
  Proofs.ListN Proofs.DecBase Proofs.Enum Proofs.CorrFields Proofs.CorrMsg
  Proofs.RtBase Proofs.RtPrim Proofs.RtFields Proofs.RtRecord Proofs.RtMsg
  Proofs.RenderBase Proofs.RenderName Proofs.RenderFields Proofs.RenderRecord.
Local Open Scope N_scope.
Ltac Zify.zify_post_hook ::= Z.div_mod_to_equations.

(* ---- header flags: all well-formed flag records by computation ---- *)
Definition flag_word_check (f : flags) : bool :=
  (flag_word f <? 65536) &&
  match sflags (flag_word f) with Some f' => RtMsg.flags_eqb f' f | None => false end.
Definition flag_words_ok : bool :=
  forallb (fun qr => forallb (fun aa => forallb (fun tc => forallb (fun rd =>
  forallb (fun ra => forallb (fun ad => forallb (fun cd =>
  forallb (fun op => forallb (fun rc =>
    flag_word_check {| f_qr := qr; f_opcode := op; f_aa := aa; f_tc := tc; f_rd := rd;
                       f_ra := ra; f_ad := ad; f_cd := cd; f_rcode := rc |})
  rcodes) opcodes) bools) bools) bools) bools) bools) bools) bools.
Lemma flag_words_all : flag_words_ok = true.
Proof. vm_compute. reflexivity. Qed.

Lemma flag_word_ok (f : flags) : flags_wf f = true -> flag_word f < 65536 /\ sflags (flag_word f) = Some f.
Proof.
  unfold flags_wf. intros H. apply andb_true_iff in H. destruct H as [H H3].
  apply andb_true_iff in H. destruct H as [H1 H2].
  pose proof flag_words_all as A. unfold flag_words_ok in A.
  rewrite forallb_forall in A. specialize (A (f_qr f) (in_bools _)).
  rewrite forallb_forall in A. specialize (A (f_aa f) (in_bools _)).
  rewrite forallb_forall in A. specialize (A (f_tc f) (in_bools _)).
  rewrite forallb_forall in A. specialize (A (f_rd f) (in_bools _)).
  rewrite forallb_forall in A. specialize (A (f_ra f) (in_bools _)).
  rewrite forallb_forall in A. specialize (A (f_ad f) (in_bools _)).
  rewrite forallb_forall in A. specialize (A (f_cd f) (in_bools _)).
  rewrite forallb_forall in A. specialize (A (f_opcode f) (in_table_In _ _ H1)).
  rewrite forallb_forall in A.
  assert (In (f_rcode f) rcodes) as Hr.
  { unfold rcodes. apply filter_In. split; [apply in_table_In; exact H2|exact H3]. }
  specialize (A (f_rcode f) Hr).
  assert (flag_word_check f = true) as C by (destruct f; exact A). clear A.
  unfold flag_word_check in C. apply andb_true_iff in C. destruct C as [C1 C2].
  split; [lia|]. destruct (sflags (flag_word f)) as [f'|]; [|discriminate].
  apply RtMsg.flags_eqb_eq in C2. congruence.
Qed.

Lemma flags_sflags (b : bytes) (s e : N) :
  Wire.flags_ b s e = match num 2 b s e with
                      | Some (w, s') => match sflags w with Some f => Some (f, s') | None => None end
                      | None => None
                      end.
Proof.
  unfold Wire.flags_, pbind. destruct (num 2 b s e) as [[w s']|]; [|reflexivity].
  unfold sflags. cbv zeta.
  destruct (mem (bits4 w 11) (codes iana_Opcode) && negb (testb w 6) && mem (bits4 w 0) (codes iana_RCode));
    reflexivity.
Qed.

Lemma flags_acc (pre : bytes) (f : flags) : flags_wf f = true ->
  bytes_ok (be16 (flag_word f)) /\ acc false Wire.flags_ pre (be16 (flag_word f)) f.
Proof.
  intro H. destruct (flag_word_ok f H) as [Hw Hs]. split; [apply be16_ok; exact Hw|].
  intros post e He. rewrite flags_sflags. rewrite (acc_num2 pre _ Hw post e He), Hs. reflexivity.
Qed.

(* ---- questions ---- *)
Lemma question_acc (pre : bytes) (q : Values.question) (w : bytes) :
  question_wf q = true -> renders_question pre q w ->
  bytes_ok w /\ exists q', acc false Wire.question pre w q' /\ question_eqv q' q.
Proof.
  intros Hwf Hr. destruct (question_wf_inv q Hwf) as (Hn & Ht & Hc).
  inversion Hr as [q0 wn Hwn]; subst.
  destruct (renders_name_acc pre (q_name q) wn Hwn Hn) as (Hbn & n' & Hn' & En).
  pose proof (qtype_table_bound _ Ht) as Htb. pose proof (qclass_table_bound _ Hc) as Hcb.
  split; [apply bytes_ok_app; [exact Hbn|apply bytes_ok_app; apply be16_ok; lia]|].
  exists {| q_name := n'; q_type := q_type q; q_class := q_class q |}.
  split; [|split; [exact En|split; reflexivity]].
  unfold Wire.question. apply (acc_bind false pname _ pre wn _ n' _ Hn').
  apply (acc_bind false (num 2) _ _ _ _ (q_type q)); [apply acc_num2; lia|].
  apply (acc_bind_last false (num 2) _ _ _ (q_class q)); [apply acc_num2; lia|].
  rewrite <- tab_QType, <- tab_QClass, Ht, Hc. apply acc_ret.
Qed.

(* ---- the message ---- *)
Section Message.
Variable rr_ok : rr -> bool.
Hypothesis rr_ok_acc : forall (pre : bytes) (r : rr) (w : bytes),
  rr_ok r = true -> renders_rr pre r w -> lenN w <= 65535 ->
  bytes_ok w /\ exists r', acc false record pre w r' /\ rr_eqv r' r.

Lemma section_acc (pre : bytes) (l : list rr) (w : bytes) :
  forallb rr_ok l = true -> renders_seq renders_rr pre l w -> lenN w <= 65535 ->
  bytes_ok w /\ exists vs, acc false (times (length l) record) pre w vs /\ Forall2 rr_eqv vs l.
Proof.
  intros Hok Hr Hlen. apply (acc_times renders_rr record rr_eqv 65535 pre l w Hr Hlen).
  intros pre' x w' Hin Hx Hl. apply rr_ok_acc; [|exact Hx|exact Hl].
  rewrite forallb_forall in Hok. apply Hok, Hin.
Qed.

Lemma to_nat_len {A} (l : list A) : N.to_nat (lenN l) = length l.
Proof. unfold lenN. apply Nat2N.id. Qed.

Theorem render_accepted_gen (m : dns) (b : bytes) :
  dns_wf_gen rr_ok m = true -> renders_dns m b -> lenN b <= 65535 ->
  bytes_ok b /\ exists m', spec_Dns b = Some m' /\ dns_eqv m' m.
Proof.
  intros Hwf Hr Hlen.
  destruct (dns_wf_gen_inv rr_ok m Hwf) as (Hid & Hfl & Hqd & Han & Hns & Har & Lq & La & Ln & Lr).
  inversion Hr as [wq wa wn wr Rq Ra Rn Rr Eb]. subst b.
  assert (lenN (header m) = 12) as Hh by reflexivity.
  lenN_norm_in Hlen.
  destruct (acc_times renders_question Wire.question question_eqv 65535 _ _ _ Rq ltac:(lia)) as (Bq & qd' & Aq & Eq).
  { intros pre' q w' Hin Hq _. apply question_acc; [|exact Hq].
    rewrite forallb_forall in Hqd. apply Hqd, Hin. }
  destruct (section_acc _ _ _ Han Ra ltac:(lia)) as (Ba & an' & Aa & Ea).
  destruct (section_acc _ _ _ Hns Rn ltac:(lia)) as (Bn & ns' & An & En).
  destruct (section_acc _ _ _ Har Rr ltac:(lia)) as (Br & ar' & Ar & Er).
  destruct (flags_acc (be16 (m_id m)) (m_flags m) Hfl) as (Bf & Af).
  assert (bytes_ok (header m)) as Bh.
  { unfold header. apply bytes_ok_app; [apply be16_ok; lia|]. apply bytes_ok_app; [exact Bf|].
    repeat (apply bytes_ok_app; [apply be16_ok; lia|]). apply be16_ok; lia. }
  split; [repeat (apply bytes_ok_app; [assumption|]); assumption|].
  exists {| m_id := m_id m; m_flags := m_flags m; m_qd := qd'; m_an := an'; m_ns := ns'; m_ar := ar' |}.
  split; [|unfold dns_eqv; cbn [m_id m_flags m_qd m_an m_ns m_ar];
           split; [reflexivity|split; [reflexivity|split; [exact Eq|split; [exact Ea|split; [exact En|exact Er]]]]]].
  assert (acc false message [] (header m ++ wq ++ wa ++ wn ++ wr)
            {| m_id := m_id m; m_flags := m_flags m; m_qd := qd'; m_an := an'; m_ns := ns'; m_ar := ar' |}) as HA.
  { unfold message, header. rewrite <- !app_assoc.
    apply (acc_bind false (num 2) _ _ _ _ (m_id m)); [apply acc_num2; lia|].
    apply (acc_bind false Wire.flags_ _ _ _ _ (m_flags m)); [exact Af|].
    apply (acc_bind false (num 2) _ _ _ _ (lenN (m_qd m))); [apply acc_num2; lia|].
    apply (acc_bind false (num 2) _ _ _ _ (lenN (m_an m))); [apply acc_num2; lia|].
    apply (acc_bind false (num 2) _ _ _ _ (lenN (m_ns m))); [apply acc_num2; lia|].
    apply (acc_bind false (num 2) _ _ _ _ (lenN (m_ar m))); [apply acc_num2; lia|].
    rewrite !to_nat_len.
    apply (acc_bind false _ _ _ wq _ qd'); [eapply acc_pre_eq; [|exact Aq]; reflexivity|].
    apply (acc_bind false _ _ _ wa _ an');
      [eapply acc_pre_eq; [|exact Aa]; unfold header; rewrite <- !app_assoc; reflexivity|].
    apply (acc_bind false _ _ _ wn _ ns');
      [eapply acc_pre_eq; [|exact An]; unfold header; rewrite <- !app_assoc; reflexivity|].
    apply (acc_bind_last false _ _ _ wr ar');
      [eapply acc_pre_eq; [|exact Ar]; unfold header; rewrite <- !app_assoc; reflexivity|].
    apply acc_ret. }
  unfold spec_Dns, whole.
  set (b := header m ++ wq ++ wa ++ wn ++ wr) in *.
  assert (lenN b = 12 + lenN wq + lenN wa + lenN wn + lenN wr) as Lb by (unfold b; lenN_norm; lia).
  assert ((12 <=? lenN b) && (lenN b <=? 65536) = true) as -> by lia.
  specialize (HA [] (lenN b)). cbn [app] in HA. rewrite app_nil_r, lenN_nil, N.add_0_l in HA.
  rewrite (HA (N.le_refl _)), N.eqb_refl. reflexivity.
Qed.

End Message.
