(* Generic facts about enum tables (try_from_enum_to_integer!): TryFrom accepts exactly the table values. *)
From DNS Require Import Model.Dec.
Local Open Scope N_scope.

Fixpoint assoc_str (k : string) (t : list (string * N)) : option N :=
  match t with
  | [] => None
  | (k', v) :: r => if String.eqb k k' then Some v else assoc_str k r
  end.

Fixpoint nodupb_N (l : list N) : bool :=
  match l with [] => true | x :: r => negb (existsb (N.eqb x) r) && nodupb_N r end.
Fixpoint nodupb_str (l : list string) : bool :=
  match l with [] => true | x :: r => negb (existsb (String.eqb x) r) && nodupb_str r end.

(* table T agrees with registry I: same names with same values (both inclusions), values and names
   unique, every value fits the integer width *)
Definition sub_table (a b : list (string * N)) : bool :=
  forallb (fun p => match assoc_str (fst p) b with Some v => v =? snd p | None => false end) a.
Definition table_ok (width : N) (T I : list (string * N)) : bool :=
  sub_table T I && sub_table I T && nodupb_N (map snd T) && nodupb_str (map fst T)
  && forallb (fun p => snd p <? 2 ^ width) T.

Lemma in_table_iff T v : in_table T v = true <-> exists nm, In (nm, v) T.
Proof.
  unfold in_table. rewrite existsb_exists. split.
  - intros [[nm v'] [Hin Heq]]. cbn in Heq. apply N.eqb_eq in Heq. subst. eauto.
  - intros [nm Hin]. exists (nm, v). split; [exact Hin|]. cbn. apply N.eqb_refl.
Qed.

Lemma nodupb_N_spec l : nodupb_N l = true -> NoDup l.
Proof.
  induction l as [|x r IH]; cbn; intros H; [constructor|].
  apply andb_true_iff in H. destruct H as [H1 H2]. constructor; [|auto].
  intros Hin. apply negb_true_iff in H1.
  assert (existsb (N.eqb x) r = true) as E.
  { apply existsb_exists. exists x. split; [exact Hin|apply N.eqb_refl]. }
  congruence.
Qed.

(* enumeration of an initial segment of N (linear time under vm_compute) *)
Fixpoint upto (fuel : nat) (start : N) : list N :=
  match fuel with O => [] | S f => start :: upto f (N.succ start) end.
Definition nrange (n : N) : list N := upto (N.to_nat n) 0.
Lemma upto_in f : forall s w, s <= w -> w < s + N.of_nat f -> In w (upto f s).
Proof.
  induction f as [|f IH]; intros s w H1 H2.
  - cbn in H2. lia.
  - cbn [upto]. destruct (N.eq_dec s w) as [->|Hne]; [left; reflexivity|right].
    apply IH; lia.
Qed.
Lemma nrange_in n w : w < n -> In w (nrange n).
Proof. intros H. unfold nrange. apply upto_in; [lia|]. rewrite N2Nat.id. lia. Qed.
