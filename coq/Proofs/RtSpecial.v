(* C05 — milestone 6: the OPT pseudo-record and SVCB/HTTPS records through enc_rr and rr_, on top of
   the existing element round trips (C15: options, C16: service parameters) and the name layer. *)
From DNS Require Import Model.Dec Model.Enc Spec.Names
  Proofs.ListN Proofs.NameLayer Proofs.NameLoop Proofs.NameMain
  Proofs.EncTotal Proofs.EncLimits Proofs.EncTyped Proofs.EncBytes
  Proofs.DecBase Proofs.DecName Proofs.DecNameSound Proofs.DecNameComplete
  Proofs.C12 Proofs.OptBase Proofs.OptTtl Proofs.OptDec Proofs.OptRt Proofs.C15
  Proofs.SvcbSet Proofs.SvcbDec Proofs.SvcbEnc Proofs.SvcbRound
  Proofs.RtBase Proofs.RtPrim Proofs.RtFields Proofs.RtRecord.
Require Import ZArith ZifyBool ZifyN ZifyNat.
Local Open Scope N_scope.
Ltac Zify.zify_post_hook ::= Z.div_mod_to_equations.

Lemma wst_dst_wf (s : dst) : wst s -> bytes_ok (d_rest s) -> dst_wf s.
Proof. intros [W1 W2] Hb. unfold dst_wf. split; [lia|]. split; [exact W2|]. split; [lia|exact Hb]. Qed.

(* ================================================================================================ *)
(* OPT                                                                                               *)
(* ================================================================================================ *)
Definition is_ok {A} (r : res A) : bool := match r with Ok _ => true | _ => false end.
Definition addr_wfb (a : addr) : bool :=
  (((a_fam a =? 1) && (lenN (a_oct a) =? 4)) || ((a_fam a =? 2) && (lenN (a_oct a) =? 16))) && bytes_okb (a_oct a).
Definition opt_wfb (o : ednsopt) : bool :=
  match o with
  | OEcs e => addr_wfb (e_addr e) && is_ok (check_prefix (e_addr e) (ecs_prefix e)) &&
              (e_src e <? 256) && (e_scope e <? 256)
  | OCookie c => (lenN (c_client c) =? 8) && bytes_okb (c_client c) &&
                 match c_server c with
                 | Some sv => (8 <=? lenN sv) && (lenN sv <=? 32) && bytes_okb sv
                 | None => true
                 end
  | OPadding n => n <? 65536
  end.

Lemma addr_wfb_wf (a : addr) : addr_wfb a = true -> addr_wf a.
Proof.
  unfold addr_wfb. intros H. apply andb_true_iff in H. destruct H as [H1 H2]. split; [lia|].
  apply bytes_okb_ok in H2. exact H2.
Qed.

Lemma opt_wfb_valid (o : ednsopt) : opt_wfb o = true -> opt_valid o.
Proof.
  destruct o as [e|c|n]; cbn [opt_wfb opt_valid]; intros H.
  - apply andb_true_iff in H. destruct H as [H H4]. apply andb_true_iff in H. destruct H as [H H3].
    apply andb_true_iff in H. destruct H as [H1 H2]. pose proof (addr_wfb_wf _ H1) as Hw.
    split; [|split; lia]. split; [exact Hw|].
    destruct (check_prefix (e_addr e) (ecs_prefix e)) as [[]| | |] eqn:Ec; try discriminate.
    exact (check_prefix_ok _ _ Hw Ec).
  - apply andb_true_iff in H. destruct H as [H H3]. apply andb_true_iff in H. destruct H as [H1 H2].
    split; [lia|]. split; [apply bytes_okb_ok; exact H2|].
    destruct (c_server c) as [sv|]; [|exact I].
    apply andb_true_iff in H3. destruct H3 as [H3 H5]. split; [lia|apply bytes_okb_ok; exact H5].
  - lia.
Qed.

Lemma opts_wfb_valid (opts : list ednsopt) : forallb opt_wfb opts = true -> Forall opt_valid opts.
Proof. rewrite forallb_forall, Forall_forall. intros H o Ho. apply opt_wfb_valid, H, Ho. Qed.

Lemma reads_rr_opt (payload ext ver : N) (dnssec : bool) (opts : list ednsopt) :
  ext < 256 -> ver < 256 -> Forall opt_valid opts ->
  reads (rr_opt [] payload (enc_opt_ttl ext ver dnssec)) (opts_wire opts) [] (ROpt payload ext ver dnssec opts).
Proof.
  intros He Hv V s W Hr. rewrite app_nil_r in Hr. unfold rr_opt.
  rewrite (bind_ok _ _ _ _ _ (opt_ttl_dec_enc ext ver dnssec s He Hv)).
  rewrite (bind_ok _ _ _ _ _ (loop_fuel_eq s W)).
  assert (dst_wf s) as Wf by (apply wst_dst_wf; [exact W|rewrite Hr; apply opts_wire_ok; exact V]).
  assert (d_off s <= d_len s) as Hle by (destruct W; lia).
  assert (length opts < S (length (d_rest s)))%nat as Hf.
  { rewrite Hr. pose proof (opts_wire_len opts) as HL. unfold lenN in HL. lia. }
  destruct (many_options opts _ [] s V Wf Hle Hr Hf) as [c Hc].
  exists c. rewrite (bind_ok _ _ _ _ _ Hc). cbn [rev app]. unfold ret, mkst. f_equal. f_equal.
  destruct W as [W1 _]. rewrite Hr in W1. lia.
Qed.

Definition opt_rr_wf (r : rr) : bool :=
  (r_type r =? 41) && is_nil (r_name r) && (r_class r =? 0) && (r_ttl r =? 0) &&
  match r_data r with
  | ROpt payload ext ver dnssec opts =>
    (payload <? 65536) && (ext <? 256) && (ver <? 256) && forallb opt_wfb opts
  | _ => false
  end.

Lemma name_wf_nil : name_wf [] = true. Proof. reflexivity. Qed.
Lemma name_eqv_nil (n : name) : name_eqv n [] -> n = [].
Proof. destruct n; [reflexivity|]. unfold name_eqv. cbn. discriminate. Qed.

Theorem rt_rr_opt (E : bool) (r : rr) : opt_rr_wf r = true ->
  encP (enc_rr r) /\ decP E (enc_rr r) rr_ (fun r' => rr_eqv r' r).
Proof.
  unfold opt_rr_wf. intros H. apply andb_true_iff in H. destruct H as [H Hd].
  apply andb_true_iff in H. destruct H as [H Httl]. apply andb_true_iff in H. destruct H as [H Hcl].
  apply andb_true_iff in H. destruct H as [Hty Hnm].
  apply N.eqb_eq in Hty, Hcl, Httl.
  destruct (r_name r) as [|l0 n0] eqn:En; [|discriminate]. clear Hnm.
  destruct (r_data r) as [|payload ext ver dnssec opts| |] eqn:Ed; try discriminate.
  apply andb_true_iff in Hd. destruct Hd as [Hd Ho]. apply andb_true_iff in Hd. destruct Hd as [Hd Hv].
  apply andb_true_iff in Hd. destruct Hd as [Hp He].
  pose proof (opts_wfb_valid opts Ho) as V.
  assert (ext < 256) as He' by lia. assert (ver < 256) as Hv' by lia.
  assert (enc_rr r = rr_frame_enc [] 41 payload (enc_opt_ttl ext ver dnssec) (emap enc_edns_option opts)) as Eenc.
  { unfold enc_rr. rewrite Hty, lookup_opt_enc, Ed. reflexivity. }
  rewrite Eenc.
  assert (encP (emap enc_edns_option opts)) as Pb by (apply encP_appends, (appends_emits _ _ (emits_options opts V))).
  split; [apply encP_rr_frame; [reflexivity|exact Pb]|].
  eapply decP_weaken; [|apply (rt_rr_frame E [] 41 payload (enc_opt_ttl ext ver dnssec) _
      (fun _ r' => r' = {| r_type := 41; r_name := []; r_class := 0; r_ttl := 0; r_data := ROpt payload ext ver dnssec opts |}))].
  - intros r' (owner & _ & ->). unfold rr_eqv. cbn [r_type r_name r_class r_ttl r_data].
    rewrite Hty, En, Hcl, Httl, Ed. split; [reflexivity|]. split; [reflexivity|]. split; [reflexivity|].
    split; reflexivity.
  - reflexivity.
  - reflexivity.
  - lia.
  - rewrite (enc_opt_ttl_val ext ver dnssec He' Hv'). apply ttl_word_lt; assumption.
  - exact Pb.
  - intros owner Ho'. apply name_eqv_nil in Ho'. subst owner. unfold rr_body. rewrite lookup_opt_dec.
    eapply decP_weaken; [|apply (decP_map true _ (fun _ => rr_opt [] payload (enc_opt_ttl ext ver dnssec))
        (fun d => {| r_type := 41; r_name := []; r_class := 0; r_ttl := 0; r_data := d |})
        (eq (ROpt payload ext ver dnssec opts)))].
    + intros r' (d & <- & ->). reflexivity.
    + apply (decP_reads true _ _ (opts_wire opts)); [exact (emits_inv _ _ (emits_options opts V))|].
      intros r0 Hr0. rewrite (Hr0 eq_refl). apply reads_rr_opt; assumption.
Qed.

Lemma opt_rr_wf_bytes_ok (r : rr) : opt_rr_wf r = true -> rr_bytes_ok r.
Proof.
  unfold opt_rr_wf. intros H. apply andb_true_iff in H. destruct H as [H Hd].
  apply andb_true_iff in H. destruct H as [H _]. apply andb_true_iff in H. destruct H as [H _].
  apply andb_true_iff in H. destruct H as [_ Hnm].
  split; [destruct (r_name r); [constructor|discriminate]|].
  destruct (r_data r) as [|payload ext ver dnssec opts| |]; try discriminate. cbn [rdata_bytes_ok].
  apply andb_true_iff in Hd. destruct Hd as [_ Ho]. apply opts_wfb_valid in Ho.
  eapply Forall_impl; [|exact Ho]. intros o Vo. destruct o as [e|c|n]; cbn [opt_bytes_ok opt_valid] in *.
  - destruct Vo as ([[_ Hb] _] & _). exact Hb.
  - destruct Vo as (_ & H2 & H3). split; [exact H2|]. destruct (c_server c); [exact (proj2 H3)|exact I].
  - exact I.
Qed.

(* ================================================================================================ *)
(* SVCB / HTTPS                                                                                      *)
(* ================================================================================================ *)
Definition param_wfb (p : svcparam) : bool :=
  match p with
  | PMandatory keys => forallb (fun k => k <? 65536) keys
  | PAlpn ids => forallb str_wf ids
  | PNoDefaultAlpn => true
  | PPort port => port <? 65536
  | PIpv4Hint h => forallb (fun a => a <? 4294967296) h
  | PEch cl => (lenN cl <=? 65535) && bytes_okb cl
  | PIpv6Hint h => forallb (fun a : bytes => (lenN a =? 16) && bytes_okb a) h
  | PPrivate n d => (7 <=? n) && (n <=? 65534) && bytes_okb d
  | PKey65535 => true
  end.
Fixpoint keys_sortedb (ps : list svcparam) : bool :=
  match ps with
  | [] => true
  | p :: r => forallb (fun q => param_key p <? param_key q) r && keys_sortedb r
  end.

Lemma keys_sortedb_ok (ps : list svcparam) : keys_sortedb ps = true -> keys_sorted ps.
Proof.
  induction ps as [|p r IH]; cbn [keys_sortedb]; intros H; [constructor|].
  apply andb_true_iff in H. destruct H as [H1 H2]. constructor; [apply IH; exact H2|].
  rewrite Forall_forall. rewrite forallb_forall in H1. intros q Hq. specialize (H1 q Hq). lia.
Qed.

Lemma param_wfb_valid (p : svcparam) : param_wfb p = true -> param_valid p.
Proof.
  destruct p as [keys|ids| |port|h|cl|h|n d| ]; cbn [param_wfb param_valid]; intros H; try exact I.
  - rewrite Forall_forall. rewrite forallb_forall in H. intros k Hk. specialize (H k Hk). lia.
  - rewrite Forall_forall. rewrite forallb_forall in H. intros b Hb. apply str_wf_inv, H, Hb.
  - lia.
  - rewrite Forall_forall. rewrite forallb_forall in H. intros k Hk. specialize (H k Hk). lia.
  - lia.
  - rewrite Forall_forall. rewrite forallb_forall in H. intros a Ha. specialize (H a Ha).
    apply andb_true_iff in H. destruct H as [H1 H2]. split; [lia|apply bytes_okb_ok; exact H2].
  - lia.
Qed.

Lemma param_wfb_bytes_ok (p : svcparam) : param_wfb p = true -> param_bytes_ok p.
Proof.
  destruct p as [keys|ids| |port|h|cl|h|n d| ]; cbn [param_wfb param_bytes_ok]; intros H; try exact I.
  - rewrite Forall_forall. rewrite forallb_forall in H. intros b Hb. apply str_wf_bytes_ok, H, Hb.
  - apply andb_true_iff in H. apply bytes_okb_ok, H.
  - rewrite Forall_forall. rewrite forallb_forall in H. intros a Ha. specialize (H a Ha).
    apply andb_true_iff in H. apply bytes_okb_ok, H.
  - apply andb_true_iff in H. apply bytes_okb_ok, H.
Qed.

Definition svcb_rr_wf (r : rr) : bool :=
  rr_common_wf r && ((r_type r =? 64) || (r_type r =? 65)) && (r_class r =? 1) &&
  match r_data r with
  | RSvcb prio target params =>
    (prio <? 65536) && name_wf target && forallb param_wfb params && keys_sortedb params &&
    (negb (prio =? 0) || is_nil params)      (* alias form: the encoder writes no parameters *)
  | _ => false
  end.

Definition svcb_body (prio : N) (target : name) (params : list svcparam) : EM unit :=
  _ <-- eu16 prio ;; _ <-- enc_domain_name target ;;
  (if negb (prio =? 0) then emap enc_service_parameter params else eret tt).

Lemma ebind_cong {A B} (m : EM A) (f g : A -> EM B) (st : est) :
  (forall a s, f a s = g a s) -> ebind m f st = ebind m g st.
Proof. intros H. unfold ebind. destruct (m st); [apply H|reflexivity..]. Qed.

Lemma enc_rr_svcb_frame (r : rr) (prio : N) (target : name) (params : list svcparam) (st : est) :
  r_type r = 64 \/ r_type r = 65 -> r_data r = RSvcb prio target params ->
  enc_rr r st = rr_frame_enc (r_name r) (r_type r) CLASS_IN (r_ttl r) (svcb_body prio target params) st.
Proof.
  intros Ht Hd. rewrite (enc_rr_svcb r prio target params Ht Hd). unfold enc_svcb_rr, rr_frame_enc.
  apply ebind_cong. intros _ s1. apply ebind_cong. intros _ s2. apply ebind_cong. intros _ s3.
  apply ebind_cong. intros _ s4. unfold slot, svcb_body. rewrite !ebind_create.
  unfold ebind. destruct (eu16 prio _) as [[] s5|e|x|]; try reflexivity.
  destruct (enc_domain_name target s5) as [[] s6|e|x|]; reflexivity.
Qed.

Lemma reads_svc_params {A} (C : list svcparam -> A) (ps : list svcparam) :
  Forall param_ok ps -> keys_sorted ps ->
  reads (fuel <- loop_fuel ;; l <- svc_params fuel [] ;; ret (C l)) (concat (map param_wire ps)) [] (C (map norm ps)).
Proof.
  intros Hok Hs s W Hr. rewrite app_nil_r in Hr.
  rewrite (bind_ok _ _ _ _ _ (loop_fuel_eq s W)).
  assert (length ps < S (length (d_rest s)))%nat as Hf by (rewrite Hr; pose proof (params_count_le ps); lia).
  destruct (svc_params_roundtrip ps _ s Hok Hs W Hr Hf) as [c Ec].
  exists c. rewrite (bind_ok _ _ _ _ _ Ec). unfold ret, mkst. f_equal. f_equal.
  destruct W as [W1 _]. rewrite Hr in W1. lia.
Qed.

Lemma lookup_svcb_dec (t : N) : t = 64 \/ t = 65 ->
  exists sp, lookup t dec_dispatch = Some (RdSpecial sp) /\ sp <> SpOpt /\ sp <> SpApl.
Proof. intros [->| ->]; eexists; (split; [reflexivity|split; discriminate]). Qed.

Theorem rt_rr_svcb (E : bool) (r : rr) : svcb_rr_wf r = true ->
  encP (enc_rr r) /\ decP E (enc_rr r) rr_ (fun r' => rr_eqv r' r).
Proof.
  unfold svcb_rr_wf. intros H. apply andb_true_iff in H. destruct H as [H Hd].
  apply andb_true_iff in H. destruct H as [H Hcl]. apply andb_true_iff in H. destruct H as [Hc Hty].
  destruct (common_wf_inv r Hc) as (Hn & Htt & Httl). apply N.eqb_eq in Hcl.
  assert (r_type r = 64 \/ r_type r = 65) as Ht by lia.
  destruct (r_data r) as [| | |prio target params] eqn:Ed; try discriminate.
  apply andb_true_iff in Hd. destruct Hd as [Hd Halias]. apply andb_true_iff in Hd. destruct Hd as [Hd Hks].
  apply andb_true_iff in Hd. destruct Hd as [Hd Hpw]. apply andb_true_iff in Hd. destruct Hd as [Hprio Htgt].
  pose proof (keys_sortedb_ok params Hks) as Hsorted.
  assert (Forall param_valid params) as Hvalid.
  { rewrite Forall_forall. rewrite forallb_forall in Hpw. intros p Hp. apply param_wfb_valid, Hpw, Hp. }
  set (pbody := if negb (prio =? 0) then emap enc_service_parameter params else eret tt).
  assert (encP pbody) as Ppb.
  { unfold pbody. destruct (negb (prio =? 0)); [|apply encP_ret].
    apply encP_appends. intros st st' E0. apply emap_param_ok_inv in E0. destruct E0 as [_ ->]. eexists. reflexivity. }
  assert (encP (svcb_body prio target params)) as Pb.
  { unfold svcb_body. apply encP_bind; [apply encP_put|]. apply encP_bind; [apply encP_name_wf, Htgt|exact Ppb]. }
  split.
  { apply (encP_ext (rr_frame_enc (r_name r) (r_type r) CLASS_IN (r_ttl r) (svcb_body prio target params))).
    - intros st. apply enc_rr_svcb_frame; assumption.
    - apply encP_rr_frame; assumption. }
  apply (decP_ext E (rr_frame_enc (r_name r) (r_type r) CLASS_IN (r_ttl r) (svcb_body prio target params))).
  { intros st. apply enc_rr_svcb_frame; assumption. }
  eapply decP_weaken; [|apply (rt_rr_frame E (r_name r) (r_type r) CLASS_IN (r_ttl r) _
      (fun owner r' => exists tg, name_eqv tg target /\
         r' = {| r_type := r_type r; r_name := owner; r_class := CLASS_IN; r_ttl := r_ttl r;
                 r_data := RSvcb prio tg (map norm params) |})); try assumption].
  - intros r' (owner & Ho & tg & Htg & ->). unfold rr_eqv. cbn [r_type r_name r_class r_ttl r_data].
    rewrite Ed, Hcl. cbn [rdata_eqv]. split; [reflexivity|]. split; [exact Ho|]. split; [reflexivity|].
    split; [reflexivity|]. split; [reflexivity|]. split; [exact Htg|].
    rewrite map_map. apply map_ext. intros p. apply norm_idem.
  - unfold CLASS_IN. lia.
  - intros owner Ho. destruct (lookup_svcb_dec (r_type r) Ht) as (sp & Hlk & Hsp1 & Hsp2).
    assert (forall main, rr_body main (r_type r) owner CLASS_IN (r_ttl r) =
                         (d <- rr_service_binding main CLASS_IN ;;
                          ret {| r_type := r_type r; r_name := owner; r_class := CLASS_IN; r_ttl := r_ttl r; r_data := d |})) as Eb.
    { intros main. unfold rr_body. rewrite Hlk. destruct sp; try congruence; reflexivity. }
    apply (decP_weaken true _ _ (fun r' => exists d, (exists tg, name_eqv tg target /\ d = RSvcb prio tg (map norm params)) /\
             r' = {| r_type := r_type r; r_name := owner; r_class := CLASS_IN; r_ttl := r_ttl r; r_data := d |})).
    { intros r' (d & (tg & Htg & ->) & ->). exists tg. split; [exact Htg|reflexivity]. }
    intros st mask st' HI E0 main r0 G Hnm HE. rewrite Eb. revert st mask st' HI E0 main r0 G Hnm HE.
    change (decP true (svcb_body prio target params)
              (fun main => d <- rr_service_binding main CLASS_IN ;;
                           ret {| r_type := r_type r; r_name := owner; r_class := CLASS_IN; r_ttl := r_ttl r; r_data := d |})
              (fun r' => exists d, (exists tg, name_eqv tg target /\ d = RSvcb prio tg (map norm params)) /\
                 r' = {| r_type := r_type r; r_name := owner; r_class := CLASS_IN; r_ttl := r_ttl r; r_data := d |})).
    apply (decP_map true _ (fun main => rr_service_binding main CLASS_IN)
             (fun d => {| r_type := r_type r; r_name := owner; r_class := CLASS_IN; r_ttl := r_ttl r; r_data := d |})).
    unfold rr_service_binding.
    apply (decP_pure true _ (class_rule (CKIn ESVCBClass) CLASS_IN) CLASS_IN
             (fun _ main => priority <- u16 ;; tg <- domain_name main ;;
                if negb (priority =? 0) then fuel <- loop_fuel ;; ps <- svc_params fuel [] ;; ret (RSvcb priority tg ps)
                else ret (RSvcb priority tg []))).
    { intros s. exact (class_rule_pure ECIn (CKIn ESVCBClass) 1 eq_refl eq_refl s). }
    unfold svcb_body.
    eapply decP_weaken; [|apply (decP_bind true _ _ (fun _ => u16)
        (fun priority main => tg <- domain_name main ;;
           if negb (priority =? 0) then fuel <- loop_fuel ;; ps <- svc_params fuel [] ;; ret (RSvcb priority tg ps)
           else ret (RSvcb priority tg []))
        (eq prio) (fun _ d => exists tg, name_eqv tg target /\ d = RSvcb prio tg (map norm params)))].
    + intros d (? & _ & Hd'). exact Hd'.
    + apply encP_put.
    + apply rt_u16. lia.
    + apply encP_bind; [apply encP_name_wf, Htgt|exact Ppb].
    + intros ? <-.
      eapply decP_weaken; [|apply (decP_bind true _ _ domain_name
          (fun tg _ => if negb (prio =? 0) then fuel <- loop_fuel ;; ps <- svc_params fuel [] ;; ret (RSvcb prio tg ps)
                       else ret (RSvcb prio tg []))
          (fun tg => name_eqv tg target) (fun tg d => d = RSvcb prio tg (map norm params)))].
      * intros d (tg & Htg & ->). exists tg. split; [exact Htg|reflexivity].
      * apply encP_name_wf, Htgt.
      * apply rt_name, Htgt.
      * exact Ppb.
      * intros tg _. unfold pbody. destruct (negb (prio =? 0)) eqn:Ep.
        -- destruct (params_err params) as [e|] eqn:Epe.
           { intros st mask st' HI E0. rewrite emap_param_trace, Epe in E0. discriminate. }
           apply params_err_none_iff in Epe.
           assert (Forall param_ok params) as Hok.
           { rewrite Forall_forall in *. intros p Hp. apply param_fits_ok; [apply Hvalid|apply Epe]; exact Hp. }
           eapply decP_weaken; [|apply (decP_reads true _ _ (concat (map param_wire params)) (RSvcb prio tg (map norm params)))].
           ++ intros d <-. reflexivity.
           ++ intros st st' E0. apply emap_param_ok_inv in E0. destruct E0 as [_ ->]. reflexivity.
           ++ intros r1 Hr1. rewrite (Hr1 eq_refl). apply (reads_svc_params (RSvcb prio tg)); assumption.
        -- cbn [orb] in Halias. destruct params; [|discriminate].
           eapply decP_weaken; [|apply decP_ret]. intros d <-. reflexivity.
Qed.

Lemma svcb_rr_wf_bytes_ok (r : rr) : svcb_rr_wf r = true -> rr_bytes_ok r.
Proof.
  unfold svcb_rr_wf. intros H. apply andb_true_iff in H. destruct H as [H Hd].
  apply andb_true_iff in H. destruct H as [H _]. apply andb_true_iff in H. destruct H as [Hc _].
  destruct (common_wf_inv r Hc) as (Hn & _). split; [apply name_wf_bytes_ok, Hn|].
  destruct (r_data r) as [| | |prio target params]; try discriminate. cbn [rdata_bytes_ok].
  apply andb_true_iff in Hd. destruct Hd as [Hd _]. apply andb_true_iff in Hd. destruct Hd as [Hd _].
  apply andb_true_iff in Hd. destruct Hd as [Hd Hpw]. apply andb_true_iff in Hd. destruct Hd as [_ Htgt].
  split; [apply name_wf_bytes_ok, Htgt|].
  rewrite Forall_forall. rewrite forallb_forall in Hpw. intros p Hp. apply param_wfb_bytes_ok, Hpw, Hp.
Qed.

(* ---- every supported record is written through the frame (for size bounds) ---- *)
Lemma opt_frame (r : rr) : opt_rr_wf r = true ->
  exists nm ty cls ttl body, name_wf nm = true /\ encP body /\
    forall st, enc_rr r st = rr_frame_enc nm ty cls ttl body st.
Proof.
  unfold opt_rr_wf. intros H. apply andb_true_iff in H. destruct H as [H Hd].
  apply andb_true_iff in H. destruct H as [H _]. apply andb_true_iff in H. destruct H as [H _].
  apply andb_true_iff in H. destruct H as [Hty _]. apply N.eqb_eq in Hty.
  destruct (r_data r) as [|payload ext ver dnssec opts| |] eqn:Ed; try discriminate.
  apply andb_true_iff in Hd. destruct Hd as [_ Ho]. pose proof (opts_wfb_valid opts Ho) as V.
  exists [], 41, payload, (enc_opt_ttl ext ver dnssec), (emap enc_edns_option opts).
  split; [reflexivity|]. split; [apply encP_appends, (appends_emits _ _ (emits_options opts V))|].
  intros st. unfold enc_rr. rewrite Hty, lookup_opt_enc, Ed. reflexivity.
Qed.

Lemma svcb_frame (r : rr) : svcb_rr_wf r = true ->
  exists nm ty cls ttl body, name_wf nm = true /\ encP body /\
    forall st, enc_rr r st = rr_frame_enc nm ty cls ttl body st.
Proof.
  unfold svcb_rr_wf. intros H. apply andb_true_iff in H. destruct H as [H Hd].
  apply andb_true_iff in H. destruct H as [H _]. apply andb_true_iff in H. destruct H as [Hc Hty].
  destruct (common_wf_inv r Hc) as (Hn & _).
  assert (r_type r = 64 \/ r_type r = 65) as Ht by lia.
  destruct (r_data r) as [| | |prio target params] eqn:Ed; try discriminate.
  apply andb_true_iff in Hd. destruct Hd as [Hd _]. apply andb_true_iff in Hd. destruct Hd as [Hd _].
  apply andb_true_iff in Hd. destruct Hd as [Hd _]. apply andb_true_iff in Hd. destruct Hd as [_ Htgt].
  exists (r_name r), (r_type r), CLASS_IN, (r_ttl r), (svcb_body prio target params).
  split; [exact Hn|]. split; [|intros st; apply enc_rr_svcb_frame; assumption].
  unfold svcb_body. apply encP_bind; [apply encP_put|]. apply encP_bind; [apply encP_name_wf, Htgt|].
  destruct (negb (prio =? 0)); [|apply encP_ret].
  apply encP_appends. intros st st' E0. apply emap_param_ok_inv in E0. destruct E0 as [_ ->]. eexists. reflexivity.
Qed.
