(* Small library for the N-indexed list wrappers of Base/Bytes.v, the case-insensitive name
   equality of Model/Values.v, and the generated constants used by the name writer. *)
From DNS Require Import Model.Enc Proofs.Enum.
Require Import ZArith ZifyBool ZifyN ZifyNat.
Local Open Scope N_scope.
Ltac Zify.zify_post_hook ::= Z.div_mod_to_equations.

(* ---- generated constants: these break when the Rust source changes ---- *)
Lemma ENC_MAX_OFFSET_val : ENC_MAX_OFFSET = 16383. Proof. reflexivity. Qed.
Lemma MAX_RECURSION_val : DOMAIN_NAME_MAX_RECURSION = 16. Proof. reflexivity. Qed.
Lemma OP_compress_rec_val : OP_compress_rec = CGe. Proof. reflexivity. Qed.
Lemma OP_compress_offset_val : OP_compress_offset = CLt. Proof. reflexivity. Qed.
Lemma OP_merge_rec_val : OP_merge_rec = CGt. Proof. reflexivity. Qed.
Lemma OP_index_offset_val : OP_index_offset = CLe. Proof. reflexivity. Qed.
Lemma ENC_COMPRESSION_BITS_val : ENC_COMPRESSION_BITS = 49152. Proof. reflexivity. Qed.
Lemma OP_string_len_val : OP_string_len = CGt. Proof. reflexivity. Qed.
Lemma STRING_MAX_val : STRING_MAX = 255. Proof. reflexivity. Qed.
Lemma POW16_val : POW16 = 65536. Proof. reflexivity. Qed.

(* ---- nth_opt ---- *)
Lemma nth_opt_nil {A} i : @nth_opt A i [] = None.
Proof. destruct i; reflexivity. Qed.

Lemma nth_opt_app_l {A} (a b : list A) : forall i, (i < length a)%nat -> nth_opt i (a ++ b) = nth_opt i a.
Proof.
  induction a as [|x a IH]; intros i H; cbn [length] in H; [lia|].
  destruct i; cbn [app nth_opt]; [reflexivity|]. apply IH. lia.
Qed.

Lemma nth_opt_app_r {A} (a b : list A) : forall i, (length a <= i)%nat -> nth_opt i (a ++ b) = nth_opt (i - length a) b.
Proof.
  induction a as [|x a IH]; intros i H; cbn [length app] in *.
  - rewrite Nat.sub_0_r. reflexivity.
  - destruct i; [lia|]. cbn [nth_opt]. rewrite IH by lia. reflexivity.
Qed.

Lemma nth_opt_some_lt {A} (l : list A) : forall i v, nth_opt i l = Some v -> (i < length l)%nat.
Proof.
  induction l as [|x l IH]; intros i v H; [rewrite nth_opt_nil in H; discriminate|].
  destruct i; cbn [nth_opt length] in *; [lia|]. apply IH in H. lia.
Qed.

Lemma nth_opt_none {A} (l : list A) : forall i, (length l <= i)%nat -> nth_opt i l = None.
Proof.
  induction l as [|x l IH]; intros i H; [apply nth_opt_nil|].
  destruct i; cbn [nth_opt length] in *; [lia|]. apply IH. lia.
Qed.

Lemma nth_opt_lt_some {A} (l : list A) : forall i, (i < length l)%nat -> exists v, nth_opt i l = Some v.
Proof.
  induction l as [|x l IH]; intros i H; cbn [length] in H; [lia|].
  destruct i; cbn [nth_opt]; [eauto|]. apply IH. lia.
Qed.

Lemma nth_opt_mid {A} (a : list A) x b : nth_opt (length a) (a ++ x :: b) = Some x.
Proof. rewrite nth_opt_app_r by lia. rewrite Nat.sub_diag. reflexivity. Qed.

Lemma nth_opt_skipn {A} (l : list A) : forall k i, nth_opt i (skipn k l) = nth_opt (k + i) l.
Proof.
  induction l as [|x l IH]; intros k i.
  - rewrite skipn_nil, !nth_opt_nil. reflexivity.
  - destruct k; cbn [skipn Nat.add nth_opt]; [reflexivity|]. apply IH.
Qed.

Lemma nth_opt_firstn {A} (l : list A) : forall k i, (i < k)%nat -> nth_opt i (firstn k l) = nth_opt i l.
Proof.
  induction l as [|x l IH]; intros k i H.
  - rewrite firstn_nil. reflexivity.
  - destruct k; [lia|]. cbn [firstn]. destruct i; cbn [nth_opt]; [reflexivity|]. apply IH. lia.
Qed.

Lemma nth_opt_repeat {A} (x : A) n : forall i, (i < n)%nat -> nth_opt i (repeat x n) = Some x.
Proof.
  induction n as [|n IH]; intros i H; [lia|].
  destruct i; cbn [repeat nth_opt]; [reflexivity|]. apply IH. lia.
Qed.

Lemma nth_opt_ext {A} (a : list A) : forall b, length a = length b ->
  (forall i, (i < length a)%nat -> nth_opt i a = nth_opt i b) -> a = b.
Proof.
  induction a as [|x a IH]; intros [|y b] HL H; cbn [length] in HL; try lia; [reflexivity|].
  f_equal.
  - specialize (H 0%nat). cbn [nth_opt length] in H. assert (Some x = Some y) as E by (apply H; lia). congruence.
  - apply IH; [lia|]. intros i Hi. apply (H (S i)). cbn [length]. lia.
Qed.

(* ---- lenN / nthN / takeN / dropN ---- *)
Lemma lenN_app {A} (a b : list A) : lenN (a ++ b) = lenN a + lenN b.
Proof. unfold lenN. rewrite app_length. lia. Qed.
Lemma lenN_cons {A} (x : A) a : lenN (x :: a) = 1 + lenN a.
Proof. unfold lenN. cbn [length]. lia. Qed.
Lemma lenN_nil {A} : lenN (@nil A) = 0.
Proof. reflexivity. Qed.
Lemma to_nat_lenN {A} (a : list A) : N.to_nat (lenN a) = length a.
Proof. unfold lenN. apply Nat2N.id. Qed.

Lemma nthN_mid {A} (a : list A) x b : nthN (lenN a) (a ++ x :: b) = Some x.
Proof. unfold nthN. rewrite to_nat_lenN. apply nth_opt_mid. Qed.

Lemma nthN_some_lt {A} (l : list A) i v : nthN i l = Some v -> i < lenN l.
Proof. unfold nthN, lenN. intros H. apply nth_opt_some_lt in H. lia. Qed.

Lemma takeN_dropN_mid {A} (a l b : list A) : takeN (lenN l) (dropN (lenN a) (a ++ l ++ b)) = l.
Proof.
  unfold takeN, dropN. rewrite !to_nat_lenN.
  rewrite skipn_app, skipn_all, Nat.sub_diag. cbn [skipn app].
  rewrite firstn_app, firstn_all, Nat.sub_diag. cbn [firstn]. apply app_nil_r.
Qed.

(* ---- name equality is an equivalence ---- *)
Lemma bytes_eqb_eq a : forall b, bytes_eqb a b = true <-> a = b.
Proof.
  unfold bytes_eqb.
  induction a as [|x a IH]; intros [|y b]; cbn [list_eqb]; split; intro H; try congruence; try reflexivity.
  - apply andb_true_iff in H. destruct H as [H1 H2]. apply N.eqb_eq in H1. apply IH in H2. congruence.
  - inversion H; subst. rewrite N.eqb_refl. cbn [andb]. apply IH. reflexivity.
Qed.
Lemma label_eqb_refl a : label_eqb a a = true.
Proof. unfold label_eqb. apply bytes_eqb_eq. reflexivity. Qed.
Lemma label_eqb_sym a b : label_eqb a b = true -> label_eqb b a = true.
Proof. unfold label_eqb. rewrite !bytes_eqb_eq. congruence. Qed.
Lemma label_eqb_trans a b c : label_eqb a b = true -> label_eqb b c = true -> label_eqb a c = true.
Proof. unfold label_eqb. rewrite !bytes_eqb_eq. congruence. Qed.

Lemma name_eqb_nil_l b : name_eqb [] b = true -> b = [].
Proof. destruct b; cbn; [reflexivity|discriminate]. Qed.
Lemma name_eqb_cons x a y b : name_eqb (x :: a) (y :: b) = label_eqb x y && name_eqb a b.
Proof. reflexivity. Qed.
Lemma name_eqb_refl a : name_eqb a a = true.
Proof. induction a as [|x a IH]; [reflexivity|]. rewrite name_eqb_cons, label_eqb_refl, IH. reflexivity. Qed.
Lemma name_eqb_sym a : forall b, name_eqb a b = true -> name_eqb b a = true.
Proof.
  induction a as [|x a IH]; intros [|y b]; try (cbn; congruence).
  rewrite !name_eqb_cons, !andb_true_iff. intros [H1 H2]. split; [apply label_eqb_sym|apply IH]; assumption.
Qed.
Lemma name_eqb_trans a : forall b c, name_eqb a b = true -> name_eqb b c = true -> name_eqb a c = true.
Proof.
  induction a as [|x a IH]; intros [|y b] [|z c]; try (cbn; congruence).
  rewrite !name_eqb_cons, !andb_true_iff. intros [H1 H2] [H3 H4].
  split; [eapply label_eqb_trans|eapply IH]; eassumption.
Qed.
Lemma name_eqb_app a b c : name_eqb b c = true -> name_eqb (a ++ b) (a ++ c) = true.
Proof.
  intros H. induction a as [|x a IH]; cbn [app]; [exact H|].
  rewrite name_eqb_cons, label_eqb_refl, IH. reflexivity.
Qed.

(* ---- the two pointer octets: all 16384 indices by computation ---- *)
Definition ptr_bytes_ok (i : N) : bool :=
  let v := N.lor ENC_COMPRESSION_BITS i in
  let h := (v / 256) mod 256 in
  let l := v mod 256 in
  negb (h =? 0) && (192 <=? h) && ((h - 192) * 256 + l =? i).
Lemma ptr_bytes_all : forallb ptr_bytes_ok (nrange 16384) = true.
Proof. vm_compute. reflexivity. Qed.
Lemma ptr_bytes i : i <= 16383 ->
  exists h l, u16b (N.lor ENC_COMPRESSION_BITS i) = [h; l] /\ h <> 0 /\ 192 <= h /\ (h - 192) * 256 + l = i.
Proof.
  intros Hi.
  assert (In i (nrange 16384)) as Hin by (apply nrange_in; lia).
  pose proof (proj1 (forallb_forall _ _) ptr_bytes_all i Hin) as H.
  unfold ptr_bytes_ok in H. cbv zeta in H.
  apply andb_true_iff in H. destruct H as [H H3]. apply andb_true_iff in H. destruct H as [H1 H2].
  exists ((N.lor ENC_COMPRESSION_BITS i / 256) mod 256), (N.lor ENC_COMPRESSION_BITS i mod 256).
  split; [reflexivity|].
  apply negb_true_iff in H1. apply N.eqb_neq in H1. apply N.leb_le in H2. apply N.eqb_eq in H3.
  split; [exact H1|]. split; [exact H2|exact H3].
Qed.
