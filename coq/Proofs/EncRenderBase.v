(* C05 (renderings) — the encoder's output is one of the legal renderings (Spec/Render.v).
   Base: the link predicate [renP], its combinators, and the name layer.

   [renP enc R]: from a state with the masked invariant InvM, a successful run of [enc] appends some
   octets [w], and R pre w holds for EVERY [pre] that has the length of the buffer at the start and
   agrees with it on the masked octets (the octets of names).  The quantification over [pre] is what
   lets a judgment established while an RDLENGTH slot still holds 0 0 be read against the final message,
   in which the slot is patched: slots are unmasked. *)
From Coq Require Import ZArith ZifyBool ZifyN ZifyNat.
From DNS Require Import Model.Dec Model.Enc Spec.Names Spec.Wire Spec.Render
  Proofs.ListN Proofs.NameLayer Proofs.NameLoop Proofs.NameMain Proofs.NameSlots
  Proofs.EncTotal Proofs.EncLimits Proofs.OptBase Proofs.C13 Proofs.RtBase Proofs.RtPrim.
Local Open Scope N_scope.
Ltac Zify.zify_post_hook ::= Z.div_mod_to_equations.

(* ================================================================================================ *)
(* Integers                                                                                          *)
(* ================================================================================================ *)
Lemma u8b_is (v : N) : v < 256 -> u8b v = [v].
Proof. intro H. unfold u8b. rewrite N.mod_small by exact H. reflexivity. Qed.
Lemma u16b_be16 (v : N) : v < 65536 -> u16b v = be16 v.
Proof. intro H. unfold u16b, be16. f_equal. lia. Qed.
Lemma u32b_be32 (v : N) : v < 4294967296 -> u32b v = be32 v.
Proof. intro H. unfold u32b, be32. f_equal. lia. Qed.
Lemma u64b_be64 (v : N) : v < 18446744073709551616 -> u64b v = be64 v.
Proof.
  intro H. unfold u64b, be64. rewrite !u32b_be32; [reflexivity| |].
  - apply N.mod_lt. discriminate.
  - apply N.div_lt_upper_bound; [discriminate|]. exact H.
Qed.

Lemma ptr_be (o : N) : o <= 16383 -> u16b (N.lor ENC_COMPRESSION_BITS o) = [192 + o / 256; o mod 256].
Proof.
  intro Ho. destruct (ptr_bytes o Ho) as (h & l & E & _ & Hh & Hv). rewrite E.
  unfold u16b in E. injection E as _ El.
  assert (l < 256) as Hl by (rewrite <- El; apply N.mod_lt; discriminate).
  f_equal; [lia|]. f_equal. lia.
Qed.

(* ================================================================================================ *)
(* ASCII case                                                                                        *)
(* ================================================================================================ *)
Lemma ci_octet_refl (a : N) : ci_octet a a.
Proof. left. reflexivity. Qed.
Lemma ci_label_refl (l : label) : ci_label l l.
Proof. induction l as [|a l IH]; constructor; [apply ci_octet_refl|exact IH]. Qed.
Lemma ci_name_refl (n : name) : ci_name n n.
Proof. induction n as [|a l IH]; constructor; [apply ci_label_refl|exact IH]. Qed.
Lemma ci_octet_ascii (a b : N) : ci_octet a b <-> ascii_ci_eq a b.
Proof. unfold ci_octet, ascii_ci_eq. reflexivity. Qed.
Lemma eqb_ci_name (n n' : name) : name_eqb n n' = true -> ci_name n n'.
Proof. intro H. apply name_eqb_iff in H. exact H. Qed.

(* ================================================================================================ *)
(* Agreement                                                                                         *)
(* ================================================================================================ *)
Lemma agree_app_r (mask : list bool) (b pre x : bytes) :
  length mask = length b -> length pre = length b -> agree mask b pre -> agree mask b (pre ++ x).
Proof.
  intros HL HP [H1 H2]. split; [rewrite app_length; lia|].
  intros i Hi. pose proof (nth_opt_some_lt _ _ _ Hi) as Hlt.
  rewrite nth_opt_app_l by lia. apply H2. exact Hi.
Qed.

(* the buffer grows by [w] on both sides *)
Lemma agree_ext (mask mw : list bool) (b pre w : bytes) :
  length mask = length b -> length pre = length b -> agree mask b pre ->
  agree (mask ++ mw) (b ++ w) (pre ++ w).
Proof.
  intros HL HP [H1 H2]. split; [rewrite !app_length; lia|].
  intros i Hi. destruct (Nat.lt_ge_cases i (length mask)) as [Hlt|Hge].
  - rewrite nth_opt_app_l in Hi by exact Hlt.
    rewrite !nth_opt_app_l by lia. apply H2. exact Hi.
  - rewrite !nth_opt_app_r by lia. f_equal. lia.
Qed.

(* the slot octets are unmasked: any two octets may stand there *)
Lemma agree_slot (mask mw : list bool) (b pre s1 s2 w : bytes) :
  length mask = length b -> length pre = length b -> length s1 = length s2 -> agree mask b pre ->
  agree (mask ++ repeat false (length s1) ++ mw) (b ++ s1 ++ w) (pre ++ s2 ++ w).
Proof.
  intros HL HP HS [H1 H2]. split; [rewrite !app_length; lia|].
  intros i Hi. destruct (Nat.lt_ge_cases i (length mask)) as [Hlt|Hge].
  - rewrite nth_opt_app_l in Hi by exact Hlt.
    rewrite !nth_opt_app_l by lia. apply H2. exact Hi.
  - rewrite nth_opt_app_r in Hi by exact Hge.
    rewrite !nth_opt_app_r by lia. rewrite HP, <- HL.
    destruct (Nat.lt_ge_cases (i - length mask) (length s1)) as [Hlt2|Hge2].
    + rewrite nth_opt_app_l in Hi by (rewrite repeat_length; exact Hlt2).
      rewrite nth_opt_repeat in Hi by exact Hlt2. discriminate.
    + rewrite !nth_opt_app_r by lia. f_equal. lia.
Qed.

(* ================================================================================================ *)
(* Names                                                                                             *)
(* ================================================================================================ *)
Lemma labels_render : forall (n1 : list label) (pre : bytes) (n2 : name) (tail : bytes),
  renders_name (pre ++ enc_labels n1) n2 tail -> renders_name pre (n1 ++ n2) (enc_labels n1 ++ tail).
Proof.
  induction n1 as [|l r IH]; intros pre n2 tail H.
  - cbn [enc_labels app] in *. rewrite app_nil_r in H. exact H.
  - cbn [enc_labels app].
    change (lenN l :: (l ++ enc_labels r) ++ tail) with ([lenN l] ++ (l ++ enc_labels r) ++ tail).
    rewrite <- (app_assoc l).
    apply RN_label; [apply ci_label_refl|]. apply IH.
    cbn [enc_labels] in H. revert H. norm_app. intro H. exact H.
Qed.

Theorem name_renders (st : est) (mask : list bool) (n : name) (st' : est) :
  InvM st mask -> name_ok n -> enc_domain_name n st = EOk tt st' ->
  exists w : bytes, e_buf st' = e_buf st ++ w /\
    forall pre : bytes, length pre = length (e_buf st) -> agree mask (e_buf st) pre -> renders_name pre n w.
Proof.
  intros (HL & HB & HI) [Hlab Hwire] E.
  set (s0 := {| e_buf := e_buf st; e_idx := e_idx st; e_names := (lenN (e_buf st), n) :: e_names st |}).
  assert (Hlog : log_name n st = EOk tt s0) by reflexivity.
  unfold enc_domain_name in E. rewrite (ebind_ok _ _ _ _ _ Hlog) in E.
  assert (Hsmall : idx_small (e_idx s0)).
  { intros k o d Hin. destruct (HB k o d Hin) as (H1 & H2 & _). split; assumption. }
  destruct (loop_shape n s0 [] Hsmall Hlab) as [(s' & Hrun & Hpost)|(k & Hf & _)];
    [|rewrite Hf in E; discriminate].
  rewrite Hrun in E. injection E as <-.
  destruct Hpost as (n1 & n2 & tail & t & D & Hsplit & Hbuf & _ & Htail & HD & HN & HS & _).
  cbn [e_buf e_idx s0] in Hbuf, HS.
  exists (enc_labels n1 ++ tail). split; [exact Hbuf|].
  intros pre HP Hag. rewrite Hsplit. apply labels_render.
  destruct t as [o|]; cbn [tail_ok] in Htail.
  - destruct Htail as [Ho ->]. rewrite (ptr_be o Ho).
    destruct (HS o eq_refl) as (d & Hlk & -> & _).
    destruct (idx_lookup_in _ _ _ Hlk) as (k & Hin & Hk).
    destruct (HB k o d Hin) as (_ & _ & Ho2).
    assert (agree mask (e_buf st) (pre ++ enc_labels n1)) as Hag' by (apply agree_app_r; assumption).
    destruct (HI _ Hag') as [HIe _].
    destruct (HIe _ Hin) as (x & Hx & Hhops & Hnm & _). cbn [fst snd] in Hx, Hhops, Hnm.
    apply (RN_pointer _ _ o x).
    + rewrite lenN_app. unfold lenN at 1. rewrite HP. fold (lenN (e_buf st)). lia.
    + exact Ho.
    + apply (expand_mono _ _ _ _ _ Hx). lia.
    + rewrite Hhops. lia.
    + apply eqb_ci_name. eapply ListN.name_eqb_trans; eassumption.
  - subst tail. destruct (HN eq_refl) as [-> _]. apply RN_root.
Qed.

(* ================================================================================================ *)
(* The link predicate                                                                                *)
(* ================================================================================================ *)
Definition renP (enc : EM unit) (R : bytes -> bytes -> Prop) : Prop :=
  forall (st : est) (mask : list bool) (st' : est), InvM st mask -> enc st = EOk tt st' ->
    exists w : bytes, e_buf st' = e_buf st ++ w /\
      forall pre : bytes, length pre = length (e_buf st) -> agree mask (e_buf st) pre -> R pre w.

Lemma renP_weaken (enc : EM unit) (R R' : bytes -> bytes -> Prop) :
  (forall pre w, R pre w -> R' pre w) -> renP enc R -> renP enc R'.
Proof.
  intros HR H st mask st' HI E. destruct (H st mask st' HI E) as (w & Hb & Hw).
  exists w. split; [exact Hb|]. intros pre HP Hag. apply HR, Hw; assumption.
Qed.

Lemma renP_ext (enc enc' : EM unit) (R : bytes -> bytes -> Prop) :
  (forall st, enc' st = enc st) -> renP enc R -> renP enc' R.
Proof. intros He H st mask st' HI E. rewrite He in E. exact (H st mask st' HI E). Qed.

Lemma renP_name (n : name) : name_ok n -> renP (enc_domain_name n) (fun pre w => renders_name pre n w).
Proof. intros Hn st mask st' HI E. exact (name_renders st mask n st' HI Hn E). Qed.

(* name-free writers: the octets are a function of the value *)
Lemma renP_inv (enc : EM unit) (w : bytes) (R : bytes -> bytes -> Prop) :
  (forall st st', enc st = EOk tt st' -> st' = app_buf st w) -> (forall pre, R pre w) -> renP enc R.
Proof.
  intros He HR st mask st' HI E. rewrite (He _ _ E). exists w. split; [reflexivity|].
  intros pre _ _. apply HR.
Qed.
Lemma renP_emits (enc : EM unit) (w : bytes) (R : bytes -> bytes -> Prop) :
  emits enc w -> (forall pre, R pre w) -> renP enc R.
Proof. intros He. apply renP_inv. exact (emits_inv _ _ He). Qed.

Lemma renP_ret (R : bytes -> bytes -> Prop) : (forall pre, R pre []) -> renP (eret tt) R.
Proof. apply renP_emits, emits_ret. Qed.

Lemma InvM_len (st : est) (mask : list bool) : InvM st mask -> length mask = length (e_buf st).
Proof. intros (H & _). exact H. Qed.

Lemma renP_bind (e1 e2 : EM unit) (R1 R2 R : bytes -> bytes -> Prop) :
  encP e1 -> renP e1 R1 -> renP e2 R2 ->
  (forall pre w1 w2, R1 pre w1 -> R2 (pre ++ w1) w2 -> R pre (w1 ++ w2)) ->
  renP (_ <-- e1 ;; e2) R.
Proof.
  intros P1 H1 H2 HR st mask st' HI E.
  unfold ebind in E. destruct (e1 st) as [[] s1|e|x|] eqn:E1; try discriminate.
  destruct (P1 st mask s1 HI E1) as ((mw1 & HI1) & _ & _).
  destruct (H1 st mask s1 HI E1) as (w1 & Hb1 & Hw1).
  destruct (H2 s1 _ st' HI1 E) as (w2 & Hb2 & Hw2).
  exists (w1 ++ w2). split; [rewrite Hb2, Hb1, app_assoc; reflexivity|].
  intros pre HP Hag. apply HR; [apply Hw1; assumption|]. apply Hw2.
  - rewrite Hb1, !app_length. lia.
  - rewrite Hb1. apply agree_ext; [exact (InvM_len _ _ HI)|exact HP|exact Hag].
Qed.

(* the pattern  create_length_index ;; body ;; set_length_index : the body is judged behind the
   PATCHED slot *)
Lemma renP_slot (body : EM unit) (Rb R : bytes -> bytes -> Prop) :
  encP body -> renP body Rb ->
  (forall pre wb, lenN wb < 65536 -> Rb (pre ++ be16 (lenN wb)) wb -> R pre (be16 (lenN wb) ++ wb)) ->
  renP (slot body) R.
Proof.
  intros Pb Hb HR st mask st' HI E.
  destruct (slot_inv body st mask st' HI Pb E) as (s2 & wb & mw & HI1 & Eb & Hb2 & Hlen & Hbuf & _).
  destruct (Hb _ _ s2 HI1 Eb) as (wb' & Hb2' & Hw).
  rewrite e_buf_sput, <- app_assoc, Hb2 in Hb2'. apply app_inv_head in Hb2'. apply app_inv_head in Hb2'. subst wb'.
  exists (u16b (lenN wb) ++ wb). split; [exact Hbuf|].
  intros pre HP Hag. rewrite (u16b_be16 _ Hlen). apply HR; [exact Hlen|]. apply Hw.
  - rewrite e_buf_sput, !app_length. unfold be16. cbn [length]. lia.
  - rewrite e_buf_sput.
    pose proof (agree_slot mask [] (e_buf st) pre [0; 0] (be16 (lenN wb)) [] (InvM_len _ _ HI) HP eq_refl Hag) as A.
    cbn [length repeat] in A. rewrite !app_nil_r in A. exact A.
Qed.

(* a list of elements, each behind everything before it *)
Lemma renP_emap {A} (f : A -> EM unit) (R : bytes -> A -> bytes -> Prop) (l : list A) :
  (forall x, In x l -> encP (f x)) -> (forall x, In x l -> renP (f x) (fun pre w => R pre x w)) ->
  renP (emap f l) (fun pre w => renders_seq R pre l w).
Proof.
  induction l as [|x l IH]; intros HP HD; cbn [emap].
  - apply renP_ret. intro pre. apply RS_nil.
  - eapply renP_bind; [apply HP; left; reflexivity|apply HD; left; reflexivity| |].
    + apply IH; intros y Hy; [apply HP|apply HD]; right; exact Hy.
    + intros pre w1 w2 H1 H2. apply RS_cons; assumption.
Qed.

(* a list of name-free elements: the judgment does not look at the prefix *)
Lemma renP_emap_free {A} (f : A -> EM unit) (R : A -> bytes -> Prop) (l : list A) :
  (forall x, In x l -> encP (f x)) -> (forall x, In x l -> renP (f x) (fun _ w => R x w)) ->
  renP (emap f l) (fun _ w => exists ws, Forall2 R l ws /\ w = concat ws).
Proof.
  induction l as [|x l IH]; intros HP HD; cbn [emap].
  - apply renP_ret. intros _. exists []. split; [constructor|reflexivity].
  - eapply renP_bind; [apply HP; left; reflexivity|apply HD; left; reflexivity| |].
    + apply IH; intros y Hy; [apply HP|apply HD]; right; exact Hy.
    + cbv beta. intros pre w1 w2 H1 (ws & H2 & ->). exists (w1 :: ws). split; [constructor; assumption|reflexivity].
Qed.
