(* Correspondence of the EDNS OPT record readers (RFC 6891, 7871, 7873, 7830): the model's
   rr_edns_option / rr_opt vs the reference's option_ / the OPT branch of rdata_of. *)
From Coq Require Import ZifyBool ZifyN ZifyNat.
From DNS Require Import Model.Dec Spec.Names Spec.Iana Spec.Wire Proofs.DecBase Proofs.CorrBase Proofs.CorrPrim
  Proofs.CorrFields Proofs.CorrAddr.
From DNS Require Proofs.OptBase Proofs.OptDec Proofs.OptTtl.
Local Open Scope N_scope.

(* ---- main-independent facts ---- *)
Lemma OPT_ECS_val : OPT_ECS = 8. Proof. reflexivity. Qed.
Lemma OPT_COOKIE_val : OPT_COOKIE = 10. Proof. reflexivity. Qed.
Lemma OPT_PADDING_val : OPT_PADDING = 12. Proof. reflexivity. Qed.
Lemma codes_EDNSOptionCode : codes iana_EDNSOptionCode = [8; 10; 12]. Proof. reflexivity. Qed.

Lemma progress_option : progress option_.
Proof.
  unfold option_. apply progress_bind; [apply progress_num; lia|].
  intros c b a e w a' H. unfold pbind in H.
  destruct (num 2 b a e) as [[len a1]|] eqn:E; [|discriminate].
  apply num_inv in E. destruct E as (x & E & _). apply octets_inv in E. destruct E as (_ & _ & _ & ->).
  apply within_inv in H. lia.
Qed.

Lemma octets_ok (n : N) (b : bytes) (a e : N) : a + n <= e -> e <= lenN b ->
  octets n b a e = Some (takeN n (dropN a b), a + n).
Proof.
  intros H1 H2. unfold octets. assert (a + n <=? e = true) as -> by lia. cbv zeta.
  assert (lenN (takeN n (dropN a b)) =? n = true) as ->; [|reflexivity].
  rewrite lenN_takeN, lenN_dropN. lia.
Qed.

Lemma rest_ok (b : bytes) (a e : N) : a <= e -> e <= lenN b ->
  rest b a e = Some (takeN (e - a) (dropN a b), e).
Proof.
  intros H1 H2. unfold rest. assert (a <=? e = true) as -> by lia.
  rewrite (octets_ok (e - a) b a e) by lia. f_equal. f_equal. lia.
Qed.

Lemma first_nonzero_forallb (l : bytes) :
  forallb (N.eqb 0) l = match first_nonzero l with None => true | Some _ => false end.
Proof.
  unfold first_nonzero. induction l as [|x l IH]; cbn [find forallb]; [reflexivity|].
  rewrite (N.eqb_sym 0 x). destruct (x =? 0); cbn [negb andb]; [exact IH|reflexivity].
Qed.

Section Main.
Variable main : bytes.
Hypothesis Hb : bytes_ok main.
Hypothesis Hm : lenN main < 2 ^ 62.
Set Default Proof Using "Hb Hm".

Notation corr := (corr main).
Notation corr_w := (corr_w main).

Local Notation corr_u8 := (corr_u8 main Hb Hm).
Local Notation corr_u16 := (corr_u16 main Hb Hm).
Local Notation corr_vec := (corr_vec main Hb Hm).
Local Notation post_num2 := (post_num2 main Hb Hm).
Local Notation corr_with_sub := (corr_with_sub main Hb Hm).
Local Notation corr_many_k := (corr_many_k main Hb Hm).
Local Notation corr_bind_assoc := (corr_bind_assoc main Hb Hm).
Local Notation corr_address := (corr_address main Hb Hm).
Local Notation post_raw_addr := (post_raw_addr main Hb Hm).

Lemma corr_ret_bind {A B} (v : A) (f : A -> DM B) (p : P B) : corr (f v) p -> corr (bind (ret v) f) p.
Proof. intro H. exact H. Qed.

Lemma corr_spec_ext {A} (m : DM A) (p p' : P A) :
  (forall a e, p main a e = p' main a e) -> corr m p -> corr m p'.
Proof. apply corr_ext. intro s. reflexivity. Qed.

Lemma corr_fail_bind {A B} (er : err) (f : A -> DM B) : corr (bind (fail er) f) pnone.
Proof. intros s a e Hi. exact I. Qed.

(* the state after the whole window has been taken by [vec] *)
Lemma agree_drained {A} (v : A) s a e : inv main s a e ->
  agree main s a e (DOk v (OptBase.drained s)) (Some (v, e)).
Proof.
  intro Hi. pose proof (inv_bounds main s a e Hi) as (B1 & B2 & B3). pose proof Hi as (W & V & H1 & H2 & H3).
  cbn [agree]. split; [reflexivity|]. split; [exact B1|].
  split; [exact (inv_drained main s a e _ Hi)|]. unfold OptBase.drained. cbn [d_off d_len]. split; [lia|reflexivity].
Qed.

Lemma rest_eq s a e : inv main s a e -> rest main a e = Some (d_rest s, e) /\ lenN (d_rest s) = e - a.
Proof.
  intro Hi. pose proof (inv_bounds main s a e Hi) as (B1 & B2 & B3).
  rewrite (inv_rest main s a e Hi), (rest_ok main a e B1 B2). split; [reflexivity|].
  rewrite lenN_takeN, lenN_dropN. lia.
Qed.

(* ---- Padding ---- *)
Lemma body_padding (len : N) : len < 65536 ->
  corr_w len (p <- rr_edns_padding ;; ret (OPadding p))
    (z <~ rest ;; if forallb (N.eqb 0) z then pret (OPadding len) else pnone).
Proof.
  intros Hl s a e Hi Hn. pose proof Hi as (W & V & H1 & H2 & H3).
  destruct (rest_eq s a e Hi) as (Er & El).
  unfold rr_edns_padding, bind, pbind. rewrite Er, (OptBase.vec_ok s H1). cbv beta iota zeta.
  rewrite El, Hn, OptBase.POW16_val'. assert (65536 <=? len = false) as -> by lia.
  rewrite first_nonzero_forallb. destruct (first_nonzero (d_rest s)) as [b|]; [exact I|].
  exact (agree_drained (OPadding len) s a e Hi).
Qed.

(* ---- Cookie ---- *)
Lemma body_cookie (len : N) :
  corr_w len (k <- rr_edns_cookie ;; ret (OCookie k))
    (if (len =? 8) || ((16 <=? len) && (len <=? 40)) then
       c <~ octets 8 ;; sv <~ rest ;;
       pret (OCookie {| c_client := c; c_server := if len =? 8 then None else Some sv |})
     else pnone).
Proof.
  intros s a e Hi Hn. pose proof Hi as (W & V & H1 & H2 & H3).
  pose proof (inv_bounds main s a e Hi) as (B1 & B2 & B3).
  pose proof (inv_rest main s a e Hi) as Er.
  destruct (rest_eq s a e Hi) as (_ & El).
  unfold rr_edns_cookie, bind. rewrite (OptBase.vec_ok s H1). cbv beta iota zeta.
  rewrite El, Hn, OptDec.CLIENT_COOKIE_LENGTH_val.
  destruct (8 =? len) eqn:E8.
  - assert (len <? 8 = false) as -> by lia. assert (len =? 8 = true) as -> by lia.
    cbn [orb]. rewrite OptDec.cookie_new_none. cbn [lift]. unfold pbind.
    rewrite (octets_ok 8 main a e) by lia. rewrite (rest_ok main (a + 8) e) by lia.
    rewrite Er, takeN_takeN by lia.
    exact (agree_drained _ s a e Hi).
  - destruct (cookie_len_ok len) eqn:Ec.
    + apply OptDec.cookie_len_ok_spec in Ec.
      assert (len <? 8 = false) as -> by lia. assert (len =? 8 = false) as -> by lia.
      assert (16 <=? len = true) as -> by lia. assert (len <=? 40 = true) as -> by lia.
      cbn [orb andb].
      destruct (OptDec.cookie_new_some (takeN 8 (d_rest s)) (dropN 8 (d_rest s))) as (Hs & _).
      match goal with |- context [lift ?r] =>
        replace r with (Ok {| c_client := takeN 8 (d_rest s); c_server := Some (dropN 8 (d_rest s)) |})
          by (symmetry; apply Hs; rewrite lenN_dropN, El; lia) end.
      cbn [lift]. unfold pbind.
      rewrite (octets_ok 8 main a e) by lia. rewrite (rest_ok main (a + 8) e) by lia.
      rewrite Er, takeN_takeN, dropN_takeN, dropN_dropN by lia.
      replace (e - a - 8) with (e - (a + 8)) by lia.
      exact (agree_drained _ s a e Hi).
    + assert (len =? 8 = false) as -> by lia.
      assert ((16 <=? len) && (len <=? 40) = false) as ->.
      { destruct ((16 <=? len) && (len <=? 40)) eqn:E; [|reflexivity].
        assert (cookie_len_ok len = true) by (apply OptDec.cookie_len_ok_spec; lia). congruence. }
      exact I.
Qed.

(* ---- Client subnet ---- *)
Lemma corr_ecs :
  corr (e <- rr_edns_ecs ;; ret (OEcs e))
    (fam <~ num 2 ;; src <~ num 1 ;; scope <~ num 1 ;;
     a <~ prefix_addr fam (N.max src scope) ;;
     pret (OEcs {| e_src := src; e_scope := scope; e_addr := a |})).
Proof.
  unfold rr_edns_ecs, rr_address_family_number, code.
  apply corr_bind_assoc. apply corr_bind_assoc. apply corr_bind; [apply corr_u16|]. intro fam. cbv beta.
  rewrite OptDec.family_in_table. destruct ((fam =? 1) || (fam =? 2)) eqn:Ef.
  - assert (Hf : fam = 1 \/ fam = 2) by lia.
    apply corr_ret_bind. cbv beta.
    apply corr_bind_assoc. apply corr_bind; [apply corr_u8|]. intro src. cbv beta.
    apply corr_bind_assoc. apply corr_bind; [apply corr_u8|]. intro scope. cbv beta.
    apply corr_bind_assoc.
    apply (corr_spec_ext _ (a <~ raw_addr fam ;;
                            if chk (N.max src scope) a
                            then pret (OEcs {| e_src := src; e_scope := scope; e_addr := a |}) else pnone)).
    + intros a0 e0. unfold pbind. rewrite prefix_addr_eq. unfold pbind.
      destruct (raw_addr fam main a0 e0) as [[v a1]|]; [|reflexivity].
      destruct (chk (N.max src scope) v); reflexivity.
    + apply (corr_bind_post main _ _ _ _ (fun a => C12.addr_wf a));
        [apply corr_address; exact Hf|apply post_raw_addr|].
      intros x Wx. unfold ecs_new, ecs_check, ecs_prefix. cbv zeta. cbn [e_addr e_src e_scope].
      destruct (chk_cases (N.max src scope) x Wx) as [(-> & ->)|(-> & er & ->)]; cbn [lift].
      * apply (corr_ret main (OEcs {| e_src := src; e_scope := scope; e_addr := x |})).
      * apply (corr_fail main).
  - apply (corr_ext main (fail (EEcsAddressNumber, [fam])) _ pnone);
      [intro s; reflexivity| |apply corr_fail].
    intros a e. unfold pbind, pnone.
    destruct (num 1 main a e) as [[src a1]|]; [|reflexivity].
    destruct (num 1 main a1 e) as [[scope a2]|]; [|reflexivity].
    rewrite prefix_addr_none by lia. reflexivity.
Qed.

(* ---- one option ---- *)
Lemma corr_option : corr rr_edns_option option_.
Proof.
  unfold rr_edns_option, option_, code.
  apply corr_bind_assoc. apply corr_bind; [apply corr_u16|]. intro c. cbv beta.
  rewrite tab_EDNSOptionCode, codes_EDNSOptionCode.
  destruct (mem c [8; 10; 12]) eqn:Em.
  - unfold mem in Em. cbn [existsb] in Em. assert (Hc : c = 8 \/ c = 10 \/ c = 12) by lia. clear Em.
    apply corr_ret_bind. cbv beta.
    apply (corr_bind_post main _ _ _ _ (fun len => len < 65536)); [apply corr_u16|apply post_num2|].
    intros len Hlen. apply corr_with_sub.
    destruct Hc as [-> | [-> | ->]].
    + change (8 =? OPT_ECS) with true. change (8 =? 8) with true. cbv iota.
      apply corr_corr_w. exact corr_ecs.
    + change (10 =? OPT_ECS) with false. change (10 =? OPT_COOKIE) with true.
      change (10 =? 8) with false. change (10 =? 10) with true. cbv iota.
      exact (body_cookie len).
    + change (12 =? OPT_ECS) with false. change (12 =? OPT_COOKIE) with false.
      change (12 =? 8) with false. change (12 =? 10) with false. change (12 =? 12) with true. cbv iota.
      exact (body_padding len Hlen).
  - unfold mem in Em. cbn [existsb] in Em.
    apply (corr_ext main (fail (EEDNSOptionCode, [c])) _ pnone);
      [intro s; reflexivity| |apply corr_fail].
    intros a e. unfold pbind, pnone.
    destruct (num 2 main a e) as [[len a1]|]; [|reflexivity].
    unfold within. destruct (a1 + len <=? e); [|reflexivity].
    assert (c =? 8 = false) as -> by lia. assert (c =? 10 = false) as -> by lia.
    assert (c =? 12 = false) as -> by lia. reflexivity.
Qed.

(* ---- the OPT pseudo-record ---- *)
Lemma corr_rr_opt (owner : name) (hclass ttl : N) : ttl < 4294967296 ->
  corr (rr_opt owner hclass ttl)
    (match owner with
     | _ :: _ => pnone
     | [] => if ttl mod 32768 =? 0
             then opts <~ many_to_end option_ ;;
                  pret (ROpt hclass (ttl / 16777216) ((ttl / 65536) mod 256) (testb ttl 15) opts)
             else pnone
     end).
Proof.
  intro Ht. unfold rr_opt. destruct owner as [|l r]; [|apply corr_fail].
  destruct (ttl mod 32768 =? 0) eqn:E.
  - apply N.eqb_eq in E. intros s a e Hi. unfold bind at 1.
    rewrite (OptTtl.rr_opt_ttl_accept ttl s Ht E). cbv beta iota. unfold testb.
    apply (corr_many_k rr_edns_option option_
             (fun opts => ret (ROpt hclass (ttl / 16777216) (ttl / 65536 mod 256) (N.testbit ttl 15) opts))
             (fun opts => pret (ROpt hclass (ttl / 16777216) (ttl / 65536 mod 256) (N.testbit ttl 15) opts)));
      [exact corr_option|exact progress_option| |exact Hi].
    intro opts. apply corr_ret.
  - apply N.eqb_neq in E. intros s a e Hi. unfold bind at 1.
    destruct (OptTtl.rr_opt_ttl_reject ttl s E) as (v & _ & _ & ->). exact I.
Qed.

End Main.
Unset Default Proof Using.

Print Assumptions corr_rr_opt.
