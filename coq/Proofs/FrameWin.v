(* C09 — window confinement ("no absorption").  Readers without a name field do not look at the
   outermost buffer at all; a record whose owner is written literally and whose RDATA has no name
   field decodes to the same value whatever surrounds its own octets. *)
From Coq Require Import ZifyBool ZifyN ZifyNat.
From DNS Require Import Model.Dec Proofs.DecBase Proofs.DecName Proofs.DecNameSpec Proofs.DecSafe Proofs.DecTotal
  Proofs.Frame Proofs.FrameCost.
Local Open Scope N_scope.

(* ---- readers that never touch the outermost buffer ---- *)
Definition reads_only_window {A} (m : bytes -> DM A) : Prop :=
  forall (main1 main2 : bytes) (s : dst), m main1 s = m main2 s.

Definition is_name (k : fk) : bool := match k with FName => true | _ => false end.
Definition nameless (f : list (string * fk)) : bool := forallb (fun p => negb (is_name (snd p))) f.
Definition nameless_type (t : N) : bool :=
  match lookup t dec_dispatch with
  | Some (RdFields _ f) => nameless f
  | Some (RdSpecial SpOpt) => true
  | Some (RdSpecial SpApl) => true
  | Some (RdSpecial _) => false
  | None => true
  end.

Lemma read_field_window (k : fk) : k <> FName -> reads_only_window (fun main => read_field main k).
Proof. intros Hk main1 main2 s. destruct k; try (exfalso; apply Hk; reflexivity); reflexivity. Qed.
Lemma read_fields_window (f : list (string * fk)) : nameless f = true ->
  reads_only_window (fun main => read_fields main f).
Proof.
  induction f as [|[nm k] r IH]; intros H main1 main2 s; [reflexivity|].
  unfold nameless in H. cbn [forallb snd] in H. apply andb_prop in H. destruct H as [H1 H2].
  cbn [read_fields]. unfold bind at 1 3.
  rewrite (read_field_window k) with (main2 := main2); [|intros ->; discriminate].
  destruct (read_field main2 k s) as [v s1|e c|x|]; try reflexivity.
  unfold bind. rewrite (IH H2 main1 main2 s1). reflexivity.
Qed.
Lemma edns_option_window : reads_only_window (fun _ => rr_edns_option).
Proof. intros main1 main2 s. reflexivity. Qed.
Lemma apl_item_window : reads_only_window (fun _ => rr_apl_apitem).
Proof. intros main1 main2 s. reflexivity. Qed.
Lemma service_parameter_window (key : N) : reads_only_window (fun _ => rr_service_parameter key).
Proof. intros main1 main2 s. reflexivity. Qed.
Theorem rr_body_window (t : N) (owner : name) (hclass ttl : N) : nameless_type t = true ->
  reads_only_window (fun main => rr_body main t owner hclass ttl).
Proof.
  unfold nameless_type, rr_body. intros H main1 main2 s.
  destruct (lookup t dec_dispatch) as [[ck f|sp]|]; [| |reflexivity].
  - unfold bind at 1 3. destruct (class_rule ck hclass s) as [c s1|e c|x|]; try reflexivity.
    unfold bind. rewrite (read_fields_window f H main1 main2 s1). reflexivity.
  - destruct sp; try discriminate; reflexivity.
Qed.
Lemma rr_body_type (main : bytes) (t : N) (owner : name) (hclass ttl : N) (s : dst) (r : rr) (s' : dst) :
  rr_body main t owner hclass ttl s = DOk r s' -> r_type r = t.
Proof.
  unfold rr_body. destruct (lookup t dec_dispatch) as [[ck f|sp]|]; [| |discriminate].
  - intro E. apply bind_inv in E. destruct E as (c & s1 & _ & E). apply bind_inv in E. destruct E as (vs & s2 & _ & E).
    apply ret_inv in E. destruct E as [-> _]. reflexivity.
  - destruct sp; intro E; apply bind_inv in E; destruct E as (d & s1 & _ & E); apply ret_inv in E;
      destruct E as [-> _]; reflexivity.
Qed.

(* ---- forward lemmas: enough octets in the window ---- *)
Lemma bind_fwd {A B} (m : DM A) (f : A -> DM B) (s : dst) (a : A) (s' : dst) : m s = DOk a s' -> bind m f s = f a s'.
Proof. unfold bind. intros ->. reflexivity. Qed.
Lemma read_fwd (n : N) (s : dst) : dst_wf s -> d_off s + n <= d_len s ->
  read n s = DOk (takeN n (d_rest s)) (adv n s).
Proof.
  intros (H1 & H2 & H3 & H4) Hn. unfold read. cbv zeta.
  destruct (POW64 <=? d_off s + n) eqn:E; [unfold POW64, WFMAX in *; lia|].
  rewrite OP_read_val. cbn [cmp_apply]. destruct (d_off s + n <=? d_len s) eqn:E1; [reflexivity|lia].
Qed.
Lemma uint_fwd (k : N) (s : dst) : dst_wf s -> d_off s + k <= d_len s ->
  uint k s = DOk (be (takeN k (d_rest s))) (adv k s).
Proof.
  intros W Hk. unfold uint. rewrite (bind_fwd _ _ _ _ _ (read_fwd k s W Hk)).
  rewrite (read_len k s W Hk), N.eqb_refl. reflexivity.
Qed.
Lemma u8_fwd (s : dst) (v : N) : dst_wf s -> d_off s + 1 <= d_len s -> takeN 1 (d_rest s) = [v] ->
  u8 s = DOk v (adv 1 s).
Proof. intros W Hk Hv. unfold u8. rewrite (bind_fwd _ _ _ _ _ (read_fwd 1 s W Hk)), Hv. reflexivity. Qed.
Lemma with_sub_fwd {A} (n : N) (m : DM A) (s : dst) (a : A) (c : dst) : dst_wf s -> d_off s + n <= d_len s ->
  m {| d_rest := takeN n (d_rest s); d_off := 0; d_len := n; d_cost := d_cost s + n |} = DOk a c ->
  d_off c = d_len c ->
  with_sub n m s = DOk a {| d_rest := dropN n (d_rest s); d_off := d_off s + n; d_len := d_len s; d_cost := d_cost c |}.
Proof.
  intros W Hn Em Hf. unfold with_sub. rewrite (read_fwd n s W Hn), (read_len n s W Hn).
  cbn [adv d_rest d_off d_len d_cost]. unfold bind at 1. rewrite Em.
  assert (F : finished c = DOk tt c).
  { unfold finished, bind, is_finished. destruct (d_off c <? d_len c) eqn:E1; [lia|].
    destruct (d_off c =? d_len c) eqn:E2; [reflexivity|lia]. }
  unfold bind at 1. rewrite F. reflexivity.
Qed.

(* ---- two states that agree on the next [K] octets ---- *)
Definition agree (K : N) (s1 s2 : dst) : Prop := takeN K (d_rest s1) = takeN K (d_rest s2).

Lemma slice_agree (K a n : N) (x1 x2 : bytes) : takeN K x1 = takeN K x2 -> a + n <= K ->
  takeN n (dropN a x1) = takeN n (dropN a x2).
Proof.
  intros H Hle.
  assert (G : forall x : bytes, takeN n (dropN a x) = takeN n (dropN a (takeN K x))).
  { intro x. rewrite dropN_takeN, takeN_takeN; [reflexivity|lia]. }
  rewrite (G x1), (G x2), H. reflexivity.
Qed.
Lemma agree_take (K n : N) (s1 s2 : dst) : agree K s1 s2 -> n <= K -> takeN n (d_rest s1) = takeN n (d_rest s2).
Proof. intros H Hn. apply (slice_agree K 0 n _ _ H). lia. Qed.
Lemma agree_le (K n : N) (s1 s2 : dst) : agree K s1 s2 -> n <= K -> agree n s1 s2.
Proof. apply agree_take. Qed.
Lemma agree_adv (K n : N) (s1 s2 : dst) : agree K s1 s2 -> n <= K -> agree (K - n) (adv n s1) (adv n s2).
Proof. intros H Hn. unfold agree, adv. cbn [d_rest]. apply (slice_agree K n (K - n) _ _ H). lia. Qed.
Lemma adv_0 (s : dst) : adv 0 s = s.
Proof. destruct s as [r o l c]. unfold adv. cbn [d_rest d_off d_len d_cost]. rewrite dropN_0. f_equal; lia. Qed.

(* ---- a name written without a pointer depends on its own octets only ---- *)
Lemma label_agree (nm : name) (len : N) (s1 : dst) (nm' : name) (l : N) (s1a : dst) :
  domain_name_label nm len s1 = DOk (nm', l) s1a ->
  s1a = adv (len + 1) s1 /\ d_off s1 + (len + 1) <= d_len s1 /\
  forall s2 : dst, dst_wf s2 -> d_off s2 + (len + 1) <= d_len s2 -> agree (len + 1) s1 s2 ->
    domain_name_label nm len s2 = DOk (nm', l) (adv (len + 1) s2).
Proof.
  unfold domain_name_label. intro E. apply bind_inv in E. destruct E as (b & sx & R & E).
  apply read_inv in R. destruct R as (-> & -> & H1).
  destruct (utf8_valid (takeN len (d_rest s1))) eqn:U; [|discriminate].
  apply bind_inv in E. destruct E as (u & sx & C & E). apply lift_inv in C. destruct C as [C ->].
  apply bind_inv in E. destruct E as (nm1 & sx & Ap & E). apply lift_inv in Ap. destruct Ap as [Ap ->].
  apply bind_inv in E. destruct E as (l1 & sx & U8 & E). apply u8_inv in U8. destruct U8 as (V & -> & H2).
  apply ret_inv in E. destruct E as [E ->]. injection E as <- <-.
  rewrite adv_adv. cbn [adv d_off d_len d_rest] in H2, V.
  split; [reflexivity|]. split; [lia|]. intros s2 W2 Hr Ag.
  assert (T : takeN len (d_rest s2) = takeN len (d_rest s1)) by (symmetry; apply (agree_take _ _ _ _ Ag); lia).
  assert (T1 : takeN 1 (dropN len (d_rest s2)) = [l]).
  { rewrite <- V. symmetry. apply (slice_agree (len + 1) len 1 _ _ Ag). lia. }
  assert (R0 : d_off s2 + len <= d_len s2) by lia.
  assert (R1 : d_off (adv len s2) + 1 <= d_len (adv len s2)) by (cbn [adv d_off d_len]; lia).
  rewrite (bind_fwd _ _ _ _ _ (read_fwd len s2 W2 R0)), T, U, C. cbn [lift]. unfold ret at 1.
  unfold bind at 1. rewrite Ap. cbn [lift]. unfold ret at 1. unfold bind at 1.
  rewrite (bind_fwd _ _ _ _ _ (u8_fwd (adv len s2) l (adv_wf len s2 W2 R0) R1 T1)).
  rewrite adv_adv. reflexivity.
Qed.

Lemma name_loop_g_literal (main1 : bytes) : forall (f : nat) (nm : name) (len : N) (s1 : dst) (n : name) (s1' : dst),
  name_loop_g f main1 nm len s1 = DOk (n, []) s1' ->
  exists k : N, s1' = adv k s1 /\
    forall (main2 : bytes) (s2 : dst), dst_wf s2 -> d_off s2 + k <= d_len s2 -> agree k s1 s2 ->
      name_loop_g f main2 nm len s2 = DOk (n, []) (adv k s2).
Proof.
  induction f as [|f IH]; intros nm len s1 n s1' E; [discriminate|].
  rewrite name_loop_g_S in E. destruct (len =? 0) eqn:Z.
  - apply ret_inv in E. destruct E as [E ->]. injection E as <-. exists 0.
    split; [symmetry; apply adv_0|]. intros main2 s2 _ _ _.
    rewrite name_loop_g_S, Z, adv_0. reflexivity.
  - destruct (is_compressed len) eqn:Cm.
    + exfalso. apply bind_inv in E. destruct E as (b & sx & _ & E). cbv beta zeta in E.
      destruct ((l <- u8 ;; rec_loop_g NAMEFUEL main1 nm [] l) (jump main1 (ptr_offset len b) (d_cost sx)))
        as [[nm' rs] ds|e c|x|]; discriminate.
    + apply bind_inv in E. destruct E as ([nm' l] & s1a & L & E).
      destruct (label_agree _ _ _ _ _ _ L) as (-> & H1 & Lf).
      destruct (IH _ _ _ _ _ E) as (k' & -> & F).
      exists (len + 1 + k'). split; [apply adv_adv|]. intros main2 s2 W2 Hr Ag.
      rewrite name_loop_g_S, Z, Cm.
      assert (R1 : d_off s2 + (len + 1) <= d_len s2) by lia.
      assert (A1 : agree (len + 1) s1 s2) by (apply (agree_le _ _ _ _ Ag); lia).
      rewrite (bind_fwd _ _ _ _ _ (Lf s2 W2 R1 A1)).
      rewrite (F main2 (adv (len + 1) s2)).
      * rewrite adv_adv. reflexivity.
      * apply adv_wf; [exact W2|lia].
      * cbn [adv d_off d_len]. lia.
      * replace k' with (len + 1 + k' - (len + 1)) by lia. apply agree_adv; [exact Ag|lia].
Qed.

(* [domain_name_g] returns the list of pointer targets followed: [] = the name is written literally *)
Theorem domain_name_literal (main1 : bytes) (s1 : dst) (n : name) (s1' : dst) :
  domain_name_g main1 s1 = DOk (n, []) s1' ->
  exists k : N, s1' = adv k s1 /\
    forall (main2 : bytes) (s2 : dst), dst_wf s2 -> d_off s2 + k <= d_len s2 -> agree k s1 s2 ->
      domain_name main2 s2 = DOk n (adv k s2).
Proof.
  unfold domain_name_g. intro E. apply bind_inv in E. destruct E as (l & sx & U & E).
  apply u8_inv in U. destruct U as (V & -> & H1).
  destruct (name_loop_g_literal _ _ _ _ _ _ _ E) as (k' & -> & F).
  exists (1 + k'). split; [apply adv_adv|]. intros main2 s2 W2 Hr Ag.
  rewrite domain_name_erase. unfold domain_name_g.
  assert (T1 : takeN 1 (d_rest s2) = [l]).
  { rewrite <- V. symmetry. apply (agree_take _ _ _ _ Ag). lia. }
  assert (R1 : d_off s2 + 1 <= d_len s2) by lia.
  rewrite (bind_fwd _ _ _ _ _ (u8_fwd s2 l W2 R1 T1)).
  rewrite (F main2 (adv 1 s2)).
  - cbn [dres_map fst]. rewrite adv_adv. reflexivity.
  - apply adv_wf; [exact W2|lia].
  - cbn [adv d_off d_len]. lia.
  - replace k' with (1 + k' - 1) by lia. apply agree_adv; [exact Ag|lia].
Qed.

(* ---- the fixed part of a record, forwards: the converse of [rr_exact] behind the owner name ---- *)
Lemma code_fwd (t : list (string * N)) (er : etag) (rd : DM N) (s : dst) (v : N) (s' : dst) :
  rd s = DOk v s' -> in_table t v = true -> code t er rd s = DOk v s'.
Proof. intros H1 H2. unfold code. rewrite (bind_fwd _ _ _ _ _ H1), H2. reflexivity. Qed.

Definition rr_tail (main : bytes) (owner : name) : DM rr :=
  type_ <- rr_type ;; hclass <- u16 ;; ttl <- u32 ;; rd_length <- u16 ;;
  with_sub rd_length (rr_body main type_ owner hclass ttl).
Lemma rr_eq (main : bytes) : rr_ main = (owner <- domain_name main ;; rr_tail main owner).
Proof. reflexivity. Qed.

Theorem rr_tail_fwd (main : bytes) (owner : name) (s : dst) (type_ hclass ttl rdlen : N) (r : rr) (c : dst) :
  dst_wf s -> d_off s + 10 + rdlen <= d_len s ->
  type_ = be (takeN 2 (d_rest s)) -> in_table Type_table type_ = true ->
  hclass = be (takeN 2 (dropN 2 (d_rest s))) -> ttl = be (takeN 4 (dropN 4 (d_rest s))) ->
  rdlen = be (takeN 2 (dropN 8 (d_rest s))) ->
  rr_body main type_ owner hclass ttl
    {| d_rest := takeN rdlen (dropN 10 (d_rest s)); d_off := 0; d_len := rdlen; d_cost := d_cost s + 10 + rdlen |} = DOk r c ->
  d_off c = d_len c ->
  rr_tail main owner s =
    DOk r {| d_rest := dropN (10 + rdlen) (d_rest s); d_off := d_off s + 10 + rdlen; d_len := d_len s; d_cost := d_cost c |}.
Proof.
  intros W Room T IT C TT RL EB Hf. unfold rr_tail, rr_type.
  assert (R2 : d_off s + 2 <= d_len s) by lia.
  rewrite (bind_fwd _ _ _ _ _ (code_fwd Type_table EType u16 s type_ (adv 2 s)
             ltac:(rewrite T; exact (uint_fwd 2 s W R2)) IT)).
  assert (W2 : dst_wf (adv 2 s)) by (apply adv_wf; assumption).
  assert (R4 : d_off (adv 2 s) + 2 <= d_len (adv 2 s)) by (cbn [adv d_off d_len]; lia).
  pose proof (uint_fwd 2 (adv 2 s) W2 R4) as U2. cbn [adv d_rest] in U2. rewrite <- C in U2. fold (adv 2 s) in U2.
  unfold u16 at 1. rewrite (bind_fwd _ _ _ _ _ U2). rewrite adv_adv. change (2 + 2) with 4.
  assert (W4 : dst_wf (adv 4 s)) by (apply adv_wf; [assumption|lia]).
  assert (R8 : d_off (adv 4 s) + 4 <= d_len (adv 4 s)) by (cbn [adv d_off d_len]; lia).
  pose proof (uint_fwd 4 (adv 4 s) W4 R8) as U4. cbn [adv d_rest] in U4. rewrite <- TT in U4. fold (adv 4 s) in U4.
  unfold u32 at 1. rewrite (bind_fwd _ _ _ _ _ U4). rewrite adv_adv. change (4 + 4) with 8.
  assert (W8 : dst_wf (adv 8 s)) by (apply adv_wf; [assumption|lia]).
  assert (R10 : d_off (adv 8 s) + 2 <= d_len (adv 8 s)) by (cbn [adv d_off d_len]; lia).
  pose proof (uint_fwd 2 (adv 8 s) W8 R10) as U8. cbn [adv d_rest] in U8. rewrite <- RL in U8. fold (adv 8 s) in U8.
  unfold u16 at 1. rewrite (bind_fwd _ _ _ _ _ U8). rewrite adv_adv. change (8 + 2) with 10.
  assert (W10 : dst_wf (adv 10 s)) by (apply adv_wf; [assumption|lia]).
  assert (RR : d_off (adv 10 s) + rdlen <= d_len (adv 10 s)) by (cbn [adv d_off d_len]; lia).
  rewrite (with_sub_fwd rdlen _ (adv 10 s) r c W10 RR EB Hf).
  cbn [adv d_rest d_off d_len]. rewrite dropN_dropN. reflexivity.
Qed.

(* ---- no absorption ---- *)
Theorem rr_no_absorption (main1 main2 : bytes) (s1 s2 : dst) (r : rr) (s1' : dst) (owner : name) (s1a : dst) :
  bytes_ok main1 -> lenN main1 < WFMAX -> dst_wf s1 -> dst_wf s2 ->
  rr_ main1 s1 = DOk r s1' ->
  domain_name_g main1 s1 = DOk (owner, []) s1a ->
  nameless_type (r_type r) = true ->
  takeN (d_off s1' - d_off s1) (d_rest s1) = takeN (d_off s1' - d_off s1) (d_rest s2) ->
  d_off s2 + (d_off s1' - d_off s1) <= d_len s2 ->
  exists s2' : dst, rr_ main2 s2 = DOk r s2' /\
    d_off s2' = d_off s2 + (d_off s1' - d_off s1) /\ d_rest s2' = dropN (d_off s1' - d_off s1) (d_rest s2) /\
    d_len s2' = d_len s2.
Proof.
  intros Hb Hm W1 W2 E G NT Ag Room.
  destruct (rr_exact main1 s1 r s1' Hb Hm W1 E)
    as (owner0 & s0 & type_ & hclass & ttl & rdlen & rdata & k & c & E0 & T & IT & C & TT & RL & RD & LRD & EB &
        Oc & Rc & Lc & O' & R' & L' & W' & B').
  rewrite domain_name_erase, G in E0. cbn [dres_map fst] in E0. injection E0 as <- <-.
  destruct (domain_name_literal main1 s1 owner s1a G) as (kn & -> & F).
  cbn [adv d_rest d_off] in T, C, TT, RL, RD, O'.
  assert (HK : d_off s1' - d_off s1 = kn + (10 + rdlen)) by lia. rewrite HK in *. clear HK.
  pose proof (rr_body_type _ _ _ _ _ _ _ _ EB) as RT. rewrite RT in NT.
  (* the owner name *)
  assert (Rn : d_off s2 + kn <= d_len s2) by lia.
  assert (An : agree kn s1 s2) by (apply (agree_le (kn + (10 + rdlen))); [exact Ag|lia]).
  pose proof (F main2 s2 W2 Rn An) as N2.
  assert (Wa : dst_wf (adv kn s2)) by (apply adv_wf; assumption).
  (* the fixed part and the RDATA agree *)
  assert (Ay : takeN (10 + rdlen) (dropN kn (d_rest s1)) = takeN (10 + rdlen) (dropN kn (d_rest s2))).
  { apply (slice_agree _ kn (10 + rdlen) _ _ Ag). lia. }
  assert (Sl : forall a n : N, a + n <= 10 + rdlen ->
            takeN n (dropN a (dropN kn (d_rest s1))) = takeN n (dropN a (dropN kn (d_rest s2)))).
  { intros a n Han. apply (slice_agree _ a n _ _ Ay). exact Han. }
  pose proof (Sl 0 2 ltac:(lia)) as S0. rewrite !dropN_0 in S0.
  pose proof (Sl 2 2 ltac:(lia)) as S2. pose proof (Sl 4 4 ltac:(lia)) as S4.
  pose proof (Sl 8 2 ltac:(lia)) as S8. pose proof (Sl 10 rdlen ltac:(lia)) as S10.
  rewrite S0 in T. rewrite S2 in C. rewrite S4 in TT. rewrite S8 in RL. rewrite S10 in RD.
  (* the body: same window, other buffer, other counter *)
  rewrite (rr_body_window type_ owner hclass ttl NT main1 main2) in EB.
  destruct (cshift_any _ {| d_rest := rdata; d_off := 0; d_len := rdlen; d_cost := k |} k
              (d_cost (adv kn s2) + 10 + rdlen) r c (cshift_rr_body main2 type_ owner hclass ttl) EB) as (c' & EB2).
  unfold set_cost at 1 in EB2. cbn [d_rest d_off d_len] in EB2. rewrite RD in EB2.
  assert (Hf : d_off (set_cost c' c) = d_len (set_cost c' c)) by (cbn [set_cost d_off d_len]; lia).
  assert (Rt : d_off (adv kn s2) + 10 + rdlen <= d_len (adv kn s2)) by (cbn [adv d_off d_len]; lia).
  pose proof (rr_tail_fwd main2 owner (adv kn s2) type_ hclass ttl rdlen r (set_cost c' c) Wa Rt T IT C TT RL EB2 Hf) as TL.
  eexists. split; [rewrite rr_eq, (bind_fwd _ _ _ _ _ N2); exact TL|].
  cbn [adv d_rest d_off d_len]. split; [lia|]. split; [rewrite dropN_dropN; reflexivity|reflexivity].
Qed.

(* the record-level statement: the same octets [rec] between any two surroundings *)
Theorem rr_no_absorption_msg (main1 main2 pre1 pre2 rec post1 post2 : bytes) (c1 c2 : N) (r : rr) (s1' : dst)
  (owner : name) (s1a : dst) :
  bytes_ok main1 -> lenN main1 < WFMAX ->
  bytes_ok (rec ++ post1) -> bytes_ok (rec ++ post2) ->
  lenN (pre1 ++ rec ++ post1) < WFMAX -> lenN (pre2 ++ rec ++ post2) < WFMAX ->
  let st1 := {| d_rest := rec ++ post1; d_off := lenN pre1; d_len := lenN (pre1 ++ rec ++ post1); d_cost := c1 |} in
  let st2 := {| d_rest := rec ++ post2; d_off := lenN pre2; d_len := lenN (pre2 ++ rec ++ post2); d_cost := c2 |} in
  rr_ main1 st1 = DOk r s1' -> d_off s1' = lenN pre1 + lenN rec ->
  domain_name_g main1 st1 = DOk (owner, []) s1a ->
  nameless_type (r_type r) = true ->
  exists s2' : dst, rr_ main2 st2 = DOk r s2' /\ d_off s2' = lenN pre2 + lenN rec /\ d_rest s2' = post2.
Proof.
  intros Hb Hm B1 B2 L1 L2 st1 st2 E O G NT.
  assert (Wst : forall (pre post : bytes) (cc : N), bytes_ok (rec ++ post) -> lenN (pre ++ rec ++ post) < WFMAX ->
            dst_wf {| d_rest := rec ++ post; d_off := lenN pre; d_len := lenN (pre ++ rec ++ post); d_cost := cc |}).
  { intros pre post cc Hbo Hl. unfold dst_wf. cbn [d_rest d_off d_len]. rewrite !lenN_app in *.
    split; [lia|]. split; [exact Hl|]. split; [lia|exact Hbo]. }
  assert (HK : d_off s1' - d_off st1 = lenN rec) by (unfold st1; cbn [d_off]; lia).
  destruct (rr_no_absorption main1 main2 st1 st2 r s1' owner s1a Hb Hm (Wst pre1 post1 c1 B1 L1) (Wst pre2 post2 c2 B2 L2)
              E G NT) as (s2' & E2 & O2 & R2 & _).
  - rewrite HK. unfold st1, st2. cbn [d_rest]. unfold takeN, lenN. rewrite Nat2N.id.
    rewrite !firstn_app, !firstn_all, PeanoNat.Nat.sub_diag. reflexivity.
  - rewrite HK. unfold st2. cbn [d_off d_len]. rewrite !lenN_app. lia.
  - exists s2'. split; [exact E2|]. rewrite HK in O2, R2. split; [exact O2|].
    rewrite R2. unfold st2. cbn [d_rest]. unfold dropN, lenN. rewrite Nat2N.id.
    rewrite skipn_app, skipn_all, PeanoNat.Nat.sub_diag. reflexivity.
Qed.

(* nested windows: the value read through [with_sub] depends on the [n] octets of the slice only *)
Theorem with_sub_window {A} (n : N) (m : DM A) (s1 s2 : dst) (a : A) (s1' : dst) :
  cshift m -> dst_wf s1 -> dst_wf s2 -> with_sub n m s1 = DOk a s1' ->
  takeN n (d_rest s1) = takeN n (d_rest s2) -> d_off s2 + n <= d_len s2 ->
  exists s2' : dst, with_sub n m s2 = DOk a s2' /\ d_off s2' = d_off s2 + n /\ d_rest s2' = dropN n (d_rest s2).
Proof.
  intros Hm W1 W2 E Ag Room.
  destruct (with_sub_exact_gen n m s1 a s1' W1 E) as (b & sx & c & R & Hb & L & Hn & Em & Hf & _).
  destruct (cshift_any m {| d_rest := b; d_off := 0; d_len := n; d_cost := d_cost sx |} (d_cost sx) (d_cost s2 + n) a c Hm Em)
    as (c' & E2).
  unfold set_cost at 1 in E2. cbn [d_rest d_off d_len] in E2. rewrite Hb, Ag in E2.
  assert (Hf2 : d_off (set_cost c' c) = d_len (set_cost c' c)) by (cbn [set_cost d_off d_len]; exact Hf).
  rewrite (with_sub_fwd n m s2 a (set_cost c' c) W2 Room E2 Hf2).
  eexists. split; [reflexivity|]. cbn [d_off d_rest]. split; reflexivity.
Qed.
