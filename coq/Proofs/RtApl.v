(* C05 — milestone 6 (continued): APL records (RFC 3123): one item, the item list, the record. *)
From DNS Require Import Model.Dec Model.Enc Spec.Names
  Proofs.ListN Proofs.NameLayer Proofs.NameLoop Proofs.NameMain
  Proofs.EncTotal Proofs.EncLimits Proofs.EncTyped Proofs.EncBytes
  Proofs.DecBase Proofs.DecName Proofs.DecNameSound Proofs.DecNameComplete
  Proofs.C12 Proofs.OptBase Proofs.OptTtl Proofs.OptDec Proofs.OptRt Proofs.C15
  Proofs.SvcbSet Proofs.SvcbDec Proofs.SvcbEnc Proofs.SvcbRound
  Proofs.RtBase Proofs.RtPrim Proofs.RtFields Proofs.RtRecord Proofs.RtSpecial.
Require Import ZArith ZifyBool ZifyN ZifyNat.
Local Open Scope N_scope.
Ltac Zify.zify_post_hook ::= Z.div_mod_to_equations.

(* the address without its trailing zero octets (RFC 3123 section 4) *)
Definition apl_cut (i : apitem) : bytes := takeN (addr_significant (a_oct (i_addr i))) (a_oct (i_addr i)).
Definition apl_lenoct (i : apitem) : N :=
  if i_neg i then N.lor (lenN (apl_cut i)) 128 else lenN (apl_cut i).
Definition apitem_wire (i : apitem) : bytes :=
  u16b (a_fam (i_addr i)) ++ u8b (i_prefix i) ++ u8b (apl_lenoct i) ++ apl_cut i.

Definition apitem_wfb (i : apitem) : bool :=
  addr_wfb (i_addr i) && is_ok (check_prefix (i_addr i) (i_prefix i)) && (i_prefix i <? 256).

Lemma apitem_wfb_inv (i : apitem) : apitem_wfb i = true ->
  addr_wf (i_addr i) /\ check_prefix (i_addr i) (i_prefix i) = Ok tt /\ i_prefix i < 256.
Proof.
  unfold apitem_wfb. intros H. apply andb_true_iff in H. destruct H as [H H3].
  apply andb_true_iff in H. destruct H as [H1 H2]. split; [apply addr_wfb_wf; exact H1|].
  split; [|lia]. destruct (check_prefix (i_addr i) (i_prefix i)) as [[]| | |]; try discriminate. reflexivity.
Qed.

Lemma apl_cut_len (i : apitem) : addr_wf (i_addr i) ->
  lenN (apl_cut i) <= fam_size (a_fam (i_addr i)) /\ lenN (apl_cut i) <= 16.
Proof.
  intros W. destruct (addr_wf_len _ W) as [L F]. unfold apl_cut.
  pose proof (lenN_takeN_le (addr_significant (a_oct (i_addr i))) (a_oct (i_addr i))) as H. rewrite L in H.
  split; [exact H|]. unfold fam_size in H. destruct (a_fam (i_addr i) =? 1); lia.
Qed.

(* the length octet: low seven bits the length, top bit the negation flag *)
Definition lenoct_ok (n : N) : bool :=
  (N.land (N.lor n 128) 128 =? 128) && (N.land (N.lor n 128) 127 =? n) &&
  negb (N.land n 128 =? 128) && (N.land n 127 =? n) && (N.lor n 128 <? 256).
Lemma lenoct_all : forallb lenoct_ok (nrange 128) = true.
Proof. vm_compute. reflexivity. Qed.
Lemma lenoct_facts (n : N) : n < 128 ->
  N.land (N.lor n 128) 128 = 128 /\ N.land (N.lor n 128) 127 = n /\
  (N.land n 128 =? 128) = false /\ N.land n 127 = n /\ N.lor n 128 < 256.
Proof.
  intros H. pose proof lenoct_all as T. rewrite forallb_forall in T.
  assert (In n (nrange 128)) as Hin by (apply nrange_In; lia).
  specialize (T n Hin). unfold lenoct_ok in T. rewrite !andb_true_iff in T.
  destruct T as [[[[T1 T2] T3] T4] T5]. apply negb_true_iff in T3.
  split; [lia|]. split; [lia|]. split; [exact T3|]. split; lia.
Qed.

(* ---- encoder ---- *)
Lemma emits_apitem (i : apitem) : addr_wf (i_addr i) -> emits (enc_apitem i) (apitem_wire i).
Proof.
  intros W st. destruct (apl_cut_len i W) as [_ Hc].
  unfold enc_apitem, eu16, eu8. rewrite !ebind_put, !sput_sput.
  unfold ebind at 1. cbn [buf_len]. rewrite ebind_put. unfold ebind.
  rewrite (emits_address (i_addr i) ENC_APL_MINIMUM_LENGTH), ENC_APL_MINIMUM_LENGTH_val, N.max_0_r.
  fold (apl_cut i).
  set (h := u16b (a_fam (i_addr i)) ++ u8b (i_prefix i)).
  rewrite (set_address_length_index_exact _ (e_buf st ++ h) (0 mod 256) (apl_cut i)).
  - destruct (lenN (apl_cut i) <? 256) eqn:E1; [|lia]. destruct (lenN (apl_cut i) <? 128) eqn:E2; [|lia].
    unfold app_buf, sput, apitem_wire, apl_lenoct, h. cbn [e_buf e_idx e_names]. rewrite <- !app_assoc. reflexivity.
  - unfold app_buf, sput, u8b. cbn [e_buf]. rewrite <- !app_assoc. reflexivity.
Qed.

(* ---- decoder ---- *)
Lemma reads_address (a : addr) (k : N) : addr_wf a -> addr_significant (a_oct a) <= k ->
  reads (rr_address (a_fam a)) (takeN k (a_oct a)) [] a.
Proof.
  intros W P s Ws Hr. rewrite app_nil_r in Hr. destruct (addr_wf_len a W) as [L F].
  assert (d_off s <= d_len s) as Hle by (destruct Ws; lia).
  rewrite (rr_address_spec (a_fam a) s Hle F). rewrite Hr.
  pose proof (lenN_takeN_le k (a_oct a)) as Hlen. rewrite L in Hlen.
  destruct (fam_size (a_fam a) <? lenN (takeN k (a_oct a))) eqn:E.
  { apply N.ltb_lt in E. exfalso. apply (N.lt_irrefl (fam_size (a_fam a))).
    eapply N.lt_le_trans; [exact E|exact Hlen]. }
  rewrite (zero_fill_cut a k W P). eexists. unfold drained, mkst. f_equal. f_equal.
  destruct Ws as [W1 _]. rewrite Hr in W1. rewrite <- W1. apply N.add_comm.
Qed.

Lemma reads_bind0 {A B} (m : DM A) (f : A -> DM B) (w r : bytes) (a : A) (b : B) :
  reads m w r a -> reads (f a) [] r b -> reads (bind m f) w r b.
Proof. intros H1 H2. rewrite <- (app_nil_r w). eapply reads_bind; [cbn [app]; exact H1|exact H2]. Qed.

Lemma reads_apitem (i : apitem) (r : bytes) : apitem_wfb i = true -> reads rr_apl_apitem (apitem_wire i) r i.
Proof.
  intros H. destruct (apitem_wfb_inv i H) as (W & Hchk & Hp).
  pose proof (check_prefix_ok _ _ W Hchk) as P.
  destruct (addr_wf_len _ W) as [L F]. destruct (apl_cut_len i W) as [Hc1 Hc2].
  assert (lenN (apl_cut i) < 128) as Hc by lia.
  destruct (lenoct_facts _ Hc) as (F1 & F2 & F3 & F4 & F5).
  assert (apl_lenoct i < 256) as Hlo by (unfold apl_lenoct; destruct (i_neg i); lia).
  assert ((N.land (apl_lenoct i) APL_NEGATION_MASK =? APL_NEGATION_MASK) = i_neg i) as Hneg.
  { unfold apl_lenoct, APL_NEGATION_MASK. destruct (i_neg i); [rewrite F1; reflexivity|exact F3]. }
  assert (N.land (apl_lenoct i) ADDRESS_LENGTH_MASK = lenN (apl_cut i)) as Hlen.
  { unfold apl_lenoct, ADDRESS_LENGTH_MASK. destruct (i_neg i); assumption. }
  unfold rr_apl_apitem, apitem_wire.
  eapply reads_bind.
  { unfold rr_address_family_number. apply reads_code; cycle 1.
    - apply reads_u16. destruct F as [-> | ->]; reflexivity.
    - rewrite family_in_table. destruct F as [-> | ->]; reflexivity. }
  eapply reads_bind; [apply reads_u8_small; exact Hp|].
  eapply reads_bind; [apply reads_u8_small; exact Hlo|].
  cbv zeta. rewrite Hneg, Hlen.
  eapply reads_bind0; [apply reads_with_sub; unfold apl_cut; apply reads_address; [exact W|apply N.le_refl]|].
  unfold apitem_new. rewrite Hchk. cbn [lift]. eapply reads_value; [|apply reads_ret].
  destruct i; reflexivity.
Qed.

Lemma apitem_wire_ne (i : apitem) : apitem_wire i <> [].
Proof. unfold apitem_wire, u16b. cbn [app]. discriminate. Qed.

(* ---- the record ---- *)
Definition apl_rr_wf (r : rr) : bool :=
  rr_common_wf r && (r_type r =? 42) && (r_class r =? 1) &&
  match r_data r with RApl items => forallb apitem_wfb items | _ => false end.

Lemma lookup_apl_enc : lookup 42 enc_dispatch = Some (WrSpecial SpApl). Proof. reflexivity. Qed.
Lemma lookup_apl_dec : lookup 42 dec_dispatch = Some (RdSpecial SpApl). Proof. reflexivity. Qed.

Lemma apl_items_emits (items : list apitem) : forallb apitem_wfb items = true ->
  emits (emap enc_apitem items) (concat (map apitem_wire items)).
Proof.
  intros H. apply (emits_emap enc_apitem apitem_wire (fun i => apitem_wfb i = true)).
  - intros i Hi. apply emits_apitem. exact (proj1 (apitem_wfb_inv i Hi)).
  - rewrite Forall_forall. rewrite forallb_forall in H. exact H.
Qed.

Lemma apl_frame (r : rr) : apl_rr_wf r = true ->
  exists nm ty cls ttl body, name_wf nm = true /\ encP body /\
    forall st, enc_rr r st = rr_frame_enc nm ty cls ttl body st.
Proof.
  unfold apl_rr_wf. intros H. apply andb_true_iff in H. destruct H as [H Hd].
  apply andb_true_iff in H. destruct H as [H _]. apply andb_true_iff in H. destruct H as [Hc Hty].
  destruct (common_wf_inv r Hc) as (Hn & _). apply N.eqb_eq in Hty.
  destruct (r_data r) as [| |items|] eqn:Ed; try discriminate.
  exists (r_name r), (r_type r), CLASS_IN, (r_ttl r), (emap enc_apitem items).
  split; [exact Hn|]. split; [apply encP_appends, (appends_emits _ _ (apl_items_emits items Hd))|].
  intros st. unfold enc_rr. rewrite Hty, lookup_apl_enc, Ed. reflexivity.
Qed.

Theorem rt_rr_apl (E : bool) (r : rr) : apl_rr_wf r = true ->
  encP (enc_rr r) /\ decP E (enc_rr r) rr_ (fun r' => rr_eqv r' r).
Proof.
  unfold apl_rr_wf. intros H. apply andb_true_iff in H. destruct H as [H Hd].
  apply andb_true_iff in H. destruct H as [H Hcl]. apply andb_true_iff in H. destruct H as [Hc Hty].
  destruct (common_wf_inv r Hc) as (Hn & Htt & Httl). apply N.eqb_eq in Hty, Hcl.
  destruct (r_data r) as [| |items|] eqn:Ed; try discriminate.
  assert (enc_rr r = rr_frame_enc (r_name r) 42 CLASS_IN (r_ttl r) (emap enc_apitem items)) as Eenc.
  { unfold enc_rr. rewrite Hty, lookup_apl_enc, Ed. reflexivity. }
  rewrite Eenc. rewrite Hty in Htt.
  pose proof (apl_items_emits items Hd) as Hem.
  assert (encP (emap enc_apitem items)) as Pb by (apply encP_appends, (appends_emits _ _ Hem)).
  split; [apply encP_rr_frame; assumption|].
  eapply decP_weaken; [|apply (rt_rr_frame E (r_name r) 42 CLASS_IN (r_ttl r) _
      (fun owner r' => r' = {| r_type := 42; r_name := owner; r_class := CLASS_IN; r_ttl := r_ttl r; r_data := RApl items |}));
      try assumption].
  - intros r' (owner & Ho & ->). unfold rr_eqv. cbn [r_type r_name r_class r_ttl r_data].
    rewrite Hty, Hcl, Ed. split; [reflexivity|]. split; [exact Ho|]. split; [reflexivity|]. split; reflexivity.
  - unfold CLASS_IN. lia.
  - intros owner Ho. unfold rr_body. rewrite lookup_apl_dec.
    eapply decP_weaken; [|apply (decP_map true _ (fun _ => rr_apl CLASS_IN)
        (fun d => {| r_type := 42; r_name := owner; r_class := CLASS_IN; r_ttl := r_ttl r; r_data := d |})
        (eq (RApl items)))].
    + intros r' (d & <- & ->). reflexivity.
    + apply (decP_reads true _ _ (concat (map apitem_wire items))); [exact (emits_inv _ _ Hem)|].
      intros r0 Hr0. rewrite (Hr0 eq_refl). unfold rr_apl.
      apply (reads_pure (class_rule (CKIn EAPLClass) CLASS_IN) CLASS_IN).
      { intros s. exact (class_rule_pure ECIn (CKIn EAPLClass) 1 eq_refl eq_refl s). }
      apply (reads_loop rr_apl_apitem apitem_wire (fun i => apitem_wfb i = true) RApl items).
      * intros x r1 Hx. apply reads_apitem. exact Hx.
      * intros x _. apply apitem_wire_ne.
      * rewrite Forall_forall. rewrite forallb_forall in Hd. exact Hd.
Qed.

Lemma apl_rr_wf_bytes_ok (r : rr) : apl_rr_wf r = true -> rr_bytes_ok r.
Proof.
  unfold apl_rr_wf. intros H. apply andb_true_iff in H. destruct H as [H Hd].
  apply andb_true_iff in H. destruct H as [H _]. apply andb_true_iff in H. destruct H as [Hc _].
  destruct (common_wf_inv r Hc) as (Hn & _). split; [apply name_wf_bytes_ok, Hn|].
  destruct (r_data r) as [| |items|]; try discriminate. cbn [rdata_bytes_ok].
  rewrite Forall_forall. rewrite forallb_forall in Hd. intros i Hi.
  destruct (apitem_wfb_inv i (Hd i Hi)) as ([_ Hb] & _). exact Hb.
Qed.
