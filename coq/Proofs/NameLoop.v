(* C06, name layer: pointwise equations of the encoder primitives used by the name writer and
   the shape lemma for [enc_name_loop]. *)
From DNS Require Import Model.Enc Spec.Names Proofs.ListN Proofs.NameLayer.
Require Import ZArith ZifyBool ZifyN ZifyNat.
Local Open Scope N_scope.
Ltac Zify.zify_post_hook ::= Z.div_mod_to_equations.

Lemma ebind_ok {A B} (m : EM A) (f : A -> EM B) s a s' : m s = EOk a s' -> ebind m f s = f a s'.
Proof. unfold ebind. intros ->. reflexivity. Qed.
Lemma ebind_err {A B} (m : EM A) (f : A -> EM B) s e : m s = EErr e -> ebind m f s = EErr e.
Proof. unfold ebind. intros ->. reflexivity. Qed.

Definition with_buf (s : est) (b : bytes) : est :=
  {| e_buf := b; e_idx := e_idx s; e_names := e_names s |}.

Lemma estring_ok b s : lenN b <= 255 ->
  estring b s = EOk tt (with_buf s ((e_buf s ++ [lenN b]) ++ b)).
Proof.
  intros H. unfold estring. cbv zeta. rewrite OP_string_len_val, STRING_MAX_val. cbn [cmp_apply].
  destruct (255 <? lenN b) eqn:E; [apply N.ltb_lt in E; lia|].
  unfold eu8, u8b, put, ebind, with_buf. cbn [e_buf e_idx e_names].
  rewrite N.mod_small by lia. reflexivity.
Qed.

Lemma elabel_ok l s : lenN l <= 255 -> lenN (e_buf s) < 65536 ->
  elabel l s = EOk (lenN (e_buf s)) (with_buf s ((e_buf s ++ [lenN l]) ++ l)).
Proof.
  intros H1 H2. unfold elabel.
  assert (get_offset s = EOk (lenN (e_buf s)) s) as Hg.
  { unfold get_offset, buf_len, ebind. rewrite POW16_val.
    destruct (lenN (e_buf s) <? 65536) eqn:E; [reflexivity|apply N.ltb_ge in E; lia]. }
  rewrite (ebind_ok _ _ _ _ _ Hg). rewrite (ebind_ok _ _ _ _ _ (estring_ok l s H1)). reflexivity.
Qed.

Lemma elabel_fail l s : 65536 <= lenN (e_buf s) ->
  elabel l s = EErr (XLength, [lenN (e_buf s)]).
Proof.
  intros H. unfold elabel. apply ebind_err.
  unfold get_offset, buf_len, ebind. rewrite POW16_val.
  destruct (lenN (e_buf s) <? 65536) eqn:E; [apply N.ltb_lt in E; lia|reflexivity].
Qed.

Lemma compress_none n s : idx_lookup n (e_idx s) = None -> compress n s = EOk None s.
Proof. unfold compress. intros ->. reflexivity. Qed.

Lemma compress_deep n s o d : idx_lookup n (e_idx s) = Some (o, d) -> o <= 16383 -> 16 <= d ->
  compress n s = EOk None s.
Proof.
  unfold compress. intros -> Ho Hd.
  rewrite OP_compress_offset_val, ENC_MAX_OFFSET_val, OP_compress_rec_val, MAX_RECURSION_val. cbn [cmp_apply].
  destruct (16383 <? o) eqn:E1; [apply N.ltb_lt in E1; lia|].
  destruct (16 <=? d) eqn:E2; [reflexivity|apply N.leb_gt in E2; lia].
Qed.

Lemma compress_ptr n s o d : idx_lookup n (e_idx s) = Some (o, d) -> o <= 16383 -> d < 16 ->
  compress n s = EOk (Some d) (with_buf s (e_buf s ++ u16b (N.lor ENC_COMPRESSION_BITS o))).
Proof.
  unfold compress. intros -> Ho Hd.
  rewrite OP_compress_offset_val, ENC_MAX_OFFSET_val, OP_compress_rec_val, MAX_RECURSION_val. cbn [cmp_apply].
  destruct (16383 <? o) eqn:E1; [apply N.ltb_lt in E1; lia|].
  destruct (16 <=? d) eqn:E2; [apply N.leb_le in E2; lia|].
  reflexivity.
Qed.

Definition tag (D : N) (p : name * N) : name * (N * N) := (fst p, (snd p, D)).

Lemma merge_index_ok local r s : r <= 16 ->
  merge_index local r s = EOk tt {| e_buf := e_buf s; e_idx := map (tag r) local ++ e_idx s; e_names := e_names s |}.
Proof.
  intros H. unfold merge_index. rewrite OP_merge_rec_val, MAX_RECURSION_val. cbn [cmp_apply].
  destruct (16 <? r) eqn:E; [apply N.ltb_lt in E; lia|reflexivity].
Qed.

Lemma idx_lookup_in n idx : forall v, idx_lookup n idx = Some v -> exists k, In (k, v) idx /\ name_eqb n k = true.
Proof.
  induction idx as [|[k w] r IH]; intros v H; cbn [idx_lookup] in H; [discriminate|].
  destruct (name_eqb n k) eqn:E.
  - inversion H; subst. exists k. split; [left; reflexivity|exact E].
  - destruct (IH v H) as (k' & Hin & Hk). exists k'. split; [right; exact Hin|exact Hk].
Qed.

(* offsets of the suffixes written literally, starting at offset o *)
Fixpoint pos (o : N) (n1 n2 : name) : list (name * N) :=
  match n1 with
  | [] => []
  | l :: r => ((l :: r) ++ n2, o) :: pos (o + 1 + lenN l) r n2
  end.

Lemma pos_in n1 : forall o n2 k o', In (k, o') (pos o n1 n2) ->
  exists p l c, n1 = p ++ l :: c /\ k = (l :: c) ++ n2 /\ o' = o + labels_total p.
Proof.
  induction n1 as [|l r IH]; intros o n2 k o' H; cbn [pos] in H; [contradiction|].
  destruct H as [H|H].
  - inversion H; subst. exists [], l, r. cbn [app labels_total]. split; [reflexivity|]. split; [reflexivity|lia].
  - destruct (IH _ _ _ _ H) as (p & l' & c & -> & -> & ->). exists (l :: p), l', c.
    cbn [app labels_total]. split; [reflexivity|]. split; [reflexivity|lia].
Qed.

Definition idx_small (idx : list (name * (N * N))) : Prop :=
  forall k o d, In (k, (o, d)) idx -> o <= 16383 /\ d <= 16.

Definition loop_post (s : est) (local : list (name * N)) (n : name) (s' : est) : Prop :=
  exists n1 n2 tail t D,
    n = n1 ++ n2 /\
    e_buf s' = e_buf s ++ enc_labels n1 ++ tail /\
    e_names s' = e_names s /\
    tail_ok tail t /\
    D <= 16 /\
    (t = None -> n2 = [] /\ D = 0) /\
    (forall o, t = Some o -> exists d, idx_lookup n2 (e_idx s) = Some (o, d) /\ D = d + 1 /\ n2 <> []) /\
    (forall e, In e (e_idx s') -> In e (e_idx s) \/
       exists k o, e = (k, (o, D)) /\
         (In (k, o) local \/ (o <= 16383 /\ In (k, o) (pos (lenN (e_buf s)) n1 n2)))).

Definition loop_fail (s : est) (n : name) (r : eres unit) : Prop :=
  exists k, r = EErr (XLength, [k]) /\ 65536 <= k /\ lenN (e_buf s) <= k /\ k < lenN (e_buf s) + name_wire_len n.

Lemma in_tagged e D local idx : In e (map (tag D) local ++ idx) ->
  In e idx \/ exists k o, e = (k, (o, D)) /\ In (k, o) local.
Proof.
  intros He. apply in_app_or in He. destruct He as [He|He]; [|left; exact He]. right.
  apply in_map_iff in He. destruct He as ([k o] & <- & Hin). exists k, o. split; [reflexivity|exact Hin].
Qed.

Lemma loop_shape n : forall s local,
  idx_small (e_idx s) -> Forall label_ok n ->
  (exists s', enc_name_loop n local s = EOk tt s' /\ loop_post s local n s') \/
  loop_fail s n (enc_name_loop n local s).
Proof.
  induction n as [|l rest IH]; intros s local Hidx Hok.
  - left. cbn [enc_name_loop].
    assert (lenN (@nil N) <= 255) as H0 by (cbn; lia).
    rewrite (ebind_ok _ _ _ _ _ (estring_ok [] s H0)).
    rewrite merge_index_ok by lia.
    eexists. split; [reflexivity|].
    exists [], [], [0], None, 0. cbn [e_buf e_idx e_names with_buf enc_labels app tail_ok].
    split; [reflexivity|]. split; [rewrite app_nil_r; reflexivity|]. split; [reflexivity|].
    split; [reflexivity|]. split; [lia|]. split; [intros _; split; reflexivity|].
    split; [intros o H; discriminate|].
    intros e He. destruct (in_tagged _ _ _ _ He) as [H|(k & o & H1 & H2)]; [left; exact H|].
    right. exists k, o. split; [exact H1|left; exact H2].
  - inversion Hok as [|? ? Hl Hr]; subst. pose proof Hl as (Hl1 & Hl2 & _).
    (* the step that writes l literally, whenever compress answers None *)
    assert (Hlit : compress (l :: rest) s = EOk None s ->
      (exists s', enc_name_loop (l :: rest) local s = EOk tt s' /\ loop_post s local (l :: rest) s') \/
      loop_fail s (l :: rest) (enc_name_loop (l :: rest) local s)).
    { intros Hc. cbn [enc_name_loop]. rewrite (ebind_ok _ _ _ _ _ Hc).
      destruct (lenN (e_buf s) <? 65536) eqn:Esz.
      2:{ right. apply N.ltb_ge in Esz. rewrite (ebind_err _ _ _ _ (elabel_fail l s Esz)).
          exists (lenN (e_buf s)). split; [reflexivity|]. split; [exact Esz|]. split; [lia|].
          unfold name_wire_len. lia. }
      apply N.ltb_lt in Esz.
      assert (lenN l <= 255) as Hl255 by lia.
      rewrite (ebind_ok _ _ _ _ _ (elabel_ok l s Hl255 Esz)). cbv beta.
      set (s1 := with_buf s ((e_buf s ++ [lenN l]) ++ l)).
      set (loc' := if cmp_apply OP_index_offset (lenN (e_buf s)) ENC_MAX_OFFSET then _ else _).
      assert (Hloc : forall e, In e loc' -> In e local \/ (lenN (e_buf s) <= 16383 /\ e = (l :: rest, lenN (e_buf s)))).
      { intros e He. subst loc'. rewrite OP_index_offset_val, ENC_MAX_OFFSET_val in He. cbn [cmp_apply] in He.
        destruct (lenN (e_buf s) <=? 16383) eqn:E.
        - destruct He as [He|He]; [right|left; exact He]. apply N.leb_le in E. split; [exact E|symmetry; exact He].
        - left. exact He. }
      clearbody loc'.
      assert (Hlen1 : lenN (e_buf s1) = lenN (e_buf s) + 1 + lenN l).
      { subst s1. cbn [with_buf e_buf]. rewrite !lenN_app. unfold lenN at 2. cbn [length]. lia. }
      destruct (IH s1 loc' Hidx Hr) as [(s' & Hrun & Hpost)|(k & Hrun & Hk1 & Hk2 & Hk3)].
      - left. exists s'. split; [exact Hrun|].
        destruct Hpost as (n1 & n2 & tail & t & D & Hn & Hb & Hnm & Ht & HD & HN & HS & HI).
        exists (l :: n1), n2, tail, t, D.
        split; [cbn [app]; congruence|].
        split; [rewrite Hb; subst s1; cbn [with_buf e_buf enc_labels]; norm_app; reflexivity|].
        split; [exact Hnm|]. split; [exact Ht|]. split; [exact HD|]. split; [exact HN|]. split; [exact HS|].
        intros e He. destruct (HI e He) as [Hi|(k & o & -> & [Hloc'|[Ho Hp]])]; [left; exact Hi|right; exists k, o; split; [reflexivity|]..].
        + destruct (Hloc _ Hloc') as [H1|[H1 H2]]; [left; exact H1|right].
          inversion H2; subst k o. split; [exact H1|]. cbn [pos app]. left. rewrite Hn. reflexivity.
        + right. split; [exact Ho|]. cbn [pos]. right. rewrite <- Hlen1. exact Hp.
      - right. exists k. split; [exact Hrun|]. split; [exact Hk1|].
        unfold name_wire_len in *. cbn [labels_total]. lia. }
    destruct (idx_lookup (l :: rest) (e_idx s)) as [[o d]|] eqn:EL.
    + destruct (idx_lookup_in _ _ _ EL) as (k & Hin & Hk). destruct (Hidx _ _ _ Hin) as [Ho Hd].
      destruct (d <? 16) eqn:ED.
      * apply N.ltb_lt in ED. left. cbn [enc_name_loop].
        rewrite (ebind_ok _ _ _ _ _ (compress_ptr _ _ _ _ EL Ho ED)).
        rewrite merge_index_ok by lia.
        eexists. split; [reflexivity|].
        exists [], (l :: rest), (u16b (N.lor ENC_COMPRESSION_BITS o)), (Some o), (d + 1).
        cbn [e_buf e_idx e_names with_buf enc_labels app tail_ok].
        split; [reflexivity|]. split; [reflexivity|]. split; [reflexivity|].
        split; [split; [exact Ho|reflexivity]|]. split; [lia|]. split; [intros H0; discriminate|].
        split; [intros o' H0; inversion H0; subst; exists d; split; [exact EL|split; [reflexivity|discriminate]]|].
        intros e He. destruct (in_tagged _ _ _ _ He) as [H|(k' & o' & H1 & H2)]; [left; exact H|].
        right. exists k', o'. split; [exact H1|left; exact H2].
      * apply N.ltb_ge in ED. apply Hlit. eapply compress_deep; eassumption.
    + apply Hlit. apply compress_none. exact EL.
Qed.
